import ScrapliProps.C19Lemmas
import ScrapliModel.Gen.LockCoverage
/-
  C19 — with channel locking on, concurrent operations never interleave.
  Property theorems only (invariant and helper lemmas: C19Lemmas.lean).  Quantifiers: ANY number of
  callers, ANY programs (lists of operations, an operation = any finite list of transport writes /
  reads, any of which may raise), ANY causal device `D`, EVERY schedule (list of caller ids; a caller
  that is not enabled when chosen does nothing).  `run true` = channel_lock on, `run false` = off.
-/
namespace Scrapli.Lock
open Scrapli

variable {σ : Type}

/-- **mutual exclusion**: at every point of every schedule at most one caller is between acquire and
    release, and it is the one the lock names. -/
theorem mutual_exclusion (D : Dev σ) (progs : List Prog) (sched : List Nat) (i j : Nat) (ci cj : Caller)
    (hi : (run true D progs sched).callers[i]? = some ci) (hj : (run true D progs sched).callers[j]? = some cj)
    (hci : ci.cur.isSome = true) (hcj : cj.cur.isSome = true) :
    i = j ∧ (run true D progs sched).lock = some i := by
  have h := inv_run D progs sched
  have h1 := h.held i ci hi hci
  have h2 := h.held j cj hj hcj
  rw [h1] at h2
  exact ⟨by cases h2; rfl, h1⟩

/-- **no interleaving**: between two wire events of the same operation there is no event of any other
    operation (so none of another caller): the wire trace is a concatenation of whole per-operation
    blocks. -/
theorem no_interleave (D : Dev σ) (progs : List Prog) (sched : List Nat) (a b c : Nat)
    (hc : c < (run true D progs sched).world.wire.length) (hab : a < b) (hbc : b < c) :
    let tr := (run true D progs sched).world.wire
    tr[a].key = tr[c].key → tr[b].key = tr[a].key := by
  intro tr hk
  have h := (inv_run D progs sched).nogap
  exact h a b c tr[a] tr[b] tr[c] hab hbc (List.getElem?_eq_getElem _) (List.getElem?_eq_getElem _)
    (List.getElem?_eq_getElem _) hk

/-- an operation's block appears once: events of a finished or running operation never reappear after
    an event of a later operation of the same caller (operation indices per caller only grow) -/
theorem wire_ops_started (D : Dev σ) (progs : List Prog) (sched : List Nat) (e : Ev)
    (he : e ∈ (run true D progs sched).world.wire) :
    ∃ c, (run true D progs sched).callers[e.caller]? = some c ∧
      (e.op < c.pc ∨ (e.op = c.pc ∧ c.cur.isSome = true)) :=
  (inv_run D progs sched).fresh e he

/-- **serial equivalence** (failures included): whenever nobody is inside an operation, wire trace,
    device state, unread bytes and every operation's outcome (returned / raised, and its reads) are
    exactly those of running the finished operations one at a time, in the order they finished. -/
theorem serializable (D : Dev σ) (progs : List Prog) (sched : List Nat)
    (hq : (run true D progs sched).lock = none) :
    serial D progs ((run true D progs sched).finished.map (·.1)) =
      ((run true D progs sched).world, (run true D progs sched).finished) := by
  have h := sinv_run D progs sched
  simp only [SInv, orderOf, complete, hq, List.append_nil] at h
  exact h

/-- … and that order runs each caller's operations in program order, each once. -/
theorem serial_order_valid (D : Dev σ) (progs : List Prog) (sched : List Nat) (i : Nat) (c : Caller)
    (hc : (run true D progs sched).callers[i]? = some c) :
    ((run true D progs sched).finished.map (·.1)).filter (fun k => k.1 == i) = (List.range c.pc).map (fun k => (i, k)) :=
  ov_run D progs sched i c hc

/-- **own output, before the first failure** (the clause the check's oracle evaluates): if the first `n`
    finished operations all read up to their end (no call raises, last call is a read) — whatever the
    later ones do — then on a causal device each of them returned normally and its reads, concatenated,
    are exactly what the device answers to *its own* writes, the device having seen nothing but the
    complete writes of the operations that finished before it.  Every schedule, every point. -/
theorem own_output_before_first_failure (D : Dev σ) (progs : List Prog) (sched : List Nat) (n : Nat)
    (hpre : ∀ e ∈ (run true D progs sched).finished.take n, Drains (opOf progs e.1)) :
    OwnOutput D progs ((run true D progs sched).finished.take n) :=
  ownOutput_take_of_sinv D progs _ (sinv_run D progs sched) n hpre

/-- **own output, PARTIAL**: only for programs in which NO call fails anywhere (`∀ key, Drains`).  The
    statement without that hypothesis is false: `own_output_after_failure_refuted`. -/
theorem own_output_partial (D : Dev σ) (progs : List Prog) (hclean : ∀ key, Drains (opOf progs key)) (sched : List Nat) :
    OwnOutput D progs (run true D progs sched).finished := by
  have h := own_output_before_first_failure D progs sched (run true D progs sched).finished.length
    (fun e _ => hclean e.1)
  rwa [List.take_length] at h

/-- **lock released** (TRUE BY CONSTRUCTION of `finishOp`, see `lock_released_src` for the tie to the source): a
    step that ends an operation — last call done, or a call raised at any position — leaves the lock free.
    (`finished` grows exactly when an operation ends.) -/
theorem lock_released (D : Dev σ) (progs : List Prog) (sched : List Nat) (i : Nat)
    (hend : (step true D progs (run true D progs sched) i).finished.length
              = (run true D progs sched).finished.length + 1) :
    (step true D progs (run true D progs sched) i).lock = none := by
  have hcase := step_cases true D progs (run true D progs sched) i
  generalize step true D progs (run true D progs sched) i = s' at hcase hend
  cases hcase with
  | skip => omega
  | empty c hc hcur hop hfree => rfl
  | fail c st rest hc hcur hf => rfl
  | last c st hc hcur hf => rfl
  | enter c st rest hc hcur hop hfree => simp [acqSt] at hend
  | cont c st rest hc hcur hf hne => simp [contSt] at hend

/-- the lock is taken exactly while somebody is inside an operation -/
theorem lock_free_iff_idle (D : Dev σ) (progs : List Prog) (sched : List Nat) :
    (run true D progs sched).lock = none ↔
      ∀ (i : Nat) (c : Caller), (run true D progs sched).callers[i]? = some c → c.cur = none := by
  have h := inv_run D progs sched
  constructor
  · intro hl i c hc
    cases hcur : c.cur with
    | none => rfl
    | some l => have := h.held i c hc (by simp [hcur]); rw [hl] at this; cases this
  · intro hall
    cases hl : (run true D progs sched).lock with
    | none => rfl
    | some i =>
      obtain ⟨c, hc, hs⟩ := h.holder i hl
      rw [hall i c hc] at hs; simp at hs

/-- **no deadlock**: after any schedule, unless every caller has finished its program, some caller is
    enabled: scheduling it changes the state. -/
theorem no_deadlock (D : Dev σ) (progs : List Prog) (sched : List Nat)
    (hnd : ¬ AllDone progs (run true D progs sched)) :
    ∃ i, i < progs.length ∧ step true D progs (run true D progs sched) i ≠ run true D progs sched :=
  exists_enabled D progs (inv_run D progs sched) (run_len true D progs sched) hnd

/-- **progress**: after any prefix `pre`, any continuation made of `totalSteps progs` fair rounds (a
    round schedules every caller at least once, in any order) completes every operation of every
    program: all callers are done and each operation has an outcome. -/
theorem progress (D : Dev σ) (progs : List Prog) (pre : List Nat) (rounds : List (List Nat))
    (hfair : ∀ r ∈ rounds, ∀ i, i < progs.length → i ∈ r) (hlen : totalSteps progs ≤ rounds.length) :
    AllDone progs (run true D progs (pre ++ rounds.flatten)) ∧
    ∀ i k op, opAt progs i k = some op → ∃ o, ((i, k), o) ∈ (run true D progs (pre ++ rounds.flatten)).finished := by
  have hdone : AllDone progs (run true D progs (pre ++ rounds.flatten)) := by
    have hrun : run true D progs (pre ++ rounds.flatten)
        = rounds.flatten.foldl (step true D progs) (run true D progs pre) := by
      simp [run, List.foldl_append]
    have hinv := inv_run D progs pre
    have hl := run_len true D progs pre
    have hcost : cost progs (run true D progs pre) ≤ totalSteps progs := by
      have := (cost_foldl true D progs pre (init D progs) (init_len D progs)).1
      rw [cost_init] at this
      exact this
    rcases rounds_progress D progs rounds hfair _ hinv hl with hd | hc
    · rw [hrun]; exact hd
    · rw [hrun]
      apply allDone_of_cost_zero D progs (inv_foldl D progs _ _ hinv) (by rw [foldl_len]; exact hl)
      omega
  exact ⟨hdone, fun i k op hop =>
    allDone_finished progs (run_len true D progs _) (ov_run D progs _) hdone i k op hop⟩

/-- round robin is such a continuation -/
theorem progress_round_robin (D : Dev σ) (progs : List Prog) (pre : List Nat) :
    AllDone progs (run true D progs
      (pre ++ (List.replicate (totalSteps progs) (List.range progs.length)).flatten)) :=
  (progress D progs pre (List.replicate (totalSteps progs) (List.range progs.length))
    (by intro r hr i hi; rw [(List.mem_replicate.mp hr).2]; exact List.mem_range.mpr hi)
    (by simp)).1

/-- **asyncio granularity**: a schedule of tasks (which cannot be suspended before a `transport.write`)
    reaches a state that some schedule of the finer thread semantics reaches; all theorems above
    therefore hold for `runAsync` as well. -/
theorem async_refines (locking : Bool) (D : Dev σ) (progs : List Prog) (sched : List Nat) :
    ∃ sched', runAsync locking D progs sched = run locking D progs sched' := by
  obtain ⟨l, hl⟩ := foldl_stepAsync_eq locking D progs sched (init D progs)
  exact ⟨l, hl⟩

/-! ### histories in which callers give up while WAITING for the lock
    `cancel` = task.cancel() ONLY; `timeout` = the timeout decorator expiring there: cancel + transport.close();
    `close` = the transport closed by a thread's timeout handler.  Safety holds for all of them; serial equivalence
    only for histories without `timeout` / `close` (the close hits the holder in the middle of its operation). -/

/-- `run` is the special case without cancel events -/
theorem runE_of_run (releases locking : Bool) (D : Dev σ) (progs : List Prog) (sched : List Nat) :
    runE releases locking D progs (sched.map .run) = run locking D progs sched := by
  unfold runE run
  generalize init D progs = s
  induction sched generalizing s with
  | nil => rfl
  | cons i rest ih => simp only [List.map_cons, List.foldl_cons]; exact ih _

/-- a cancelled waiter (task.cancel() ONLY — not a timeout, see `timeout_closes_transport`) abandons its
    operation without touching lock, wire, device or the outcome log -/
theorem cancel_keeps_lock (progs : List Prog) (s : St σ) (i : Nat) :
    (cancelWaiting false progs s i).lock = s.lock ∧ (cancelWaiting false progs s i).world = s.world ∧
    (cancelWaiting false progs s i).finished = s.finished := by
  rcases cancel_cases false progs s i with he | ⟨c, _, _, he⟩ <;> rw [he] <;> simp

/-- **mutual exclusion** for every history of run / cancel / timeout-at-the-lock / close events -/
theorem mutual_exclusion_cancel (D : Dev σ) (progs : List Prog) (evs : List SEv) (i j : Nat) (ci cj : Caller)
    (hi : (runE false true D progs evs).callers[i]? = some ci) (hj : (runE false true D progs evs).callers[j]? = some cj)
    (hci : ci.cur.isSome = true) (hcj : cj.cur.isSome = true) :
    i = j ∧ (runE false true D progs evs).lock = some i := by
  have h := inv_runE D progs evs
  have h1 := h.held i ci hi hci
  have h2 := h.held j cj hj hcj
  rw [h1] at h2
  exact ⟨by cases h2; rfl, h1⟩

/-- **no interleaving** for every history of run / cancel / timeout-at-the-lock / close events -/
theorem no_interleave_cancel (D : Dev σ) (progs : List Prog) (evs : List SEv) (a b c : Nat)
    (hc : c < (runE false true D progs evs).world.wire.length) (hab : a < b) (hbc : b < c) :
    let tr := (runE false true D progs evs).world.wire
    tr[a].key = tr[c].key → tr[b].key = tr[a].key := by
  intro tr hk
  have h := (inv_runE D progs evs).nogap
  exact h a b c tr[a] tr[b] tr[c] hab hbc (List.getElem?_eq_getElem _) (List.getElem?_eq_getElem _)
    (List.getElem?_eq_getElem _) hk

/-- **lock released / kept** for such histories: an event that ends an operation leaves the lock free;
    the lock is taken exactly while somebody is inside; a cancel event never changes it -/
theorem lock_released_cancel (D : Dev σ) (progs : List Prog) (evs : List SEv) (ev : SEv)
    (hend : (stepE false true D progs (runE false true D progs evs) ev).finished.length
              = (runE false true D progs evs).finished.length + 1) :
    (stepE false true D progs (runE false true D progs evs) ev).lock = none := by
  cases ev with
  | cancel i =>
    have := (cancel_keeps_lock progs (runE false true D progs evs) i).2.2
    simp only [stepE] at hend
    rw [this] at hend
    omega
  | close => simp [stepE, closeW] at hend
  | timeout i =>
    have := (cancel_keeps_lock progs (runE false true D progs evs) i).2.2
    simp only [stepE, timeoutWaiting] at hend
    split at hend
    · simp only [closeW] at hend; rw [this] at hend; omega
    · omega
  | run i =>
    simp only [stepE] at hend ⊢
    have hcase := step_cases true D progs (runE false true D progs evs) i
    generalize step true D progs (runE false true D progs evs) i = s' at hcase hend
    cases hcase with
    | skip => omega
    | empty c hc hcur hop hfree => rfl
    | fail c st rest hc hcur hf => rfl
    | last c st hc hcur hf => rfl
    | enter c st rest hc hcur hop hfree => simp [acqSt] at hend
    | cont c st rest hc hcur hf hne => simp [contSt] at hend

theorem lock_free_iff_idle_cancel (D : Dev σ) (progs : List Prog) (evs : List SEv) :
    (runE false true D progs evs).lock = none ↔
      ∀ (i : Nat) (c : Caller), (runE false true D progs evs).callers[i]? = some c → c.cur = none := by
  have h := inv_runE D progs evs
  constructor
  · intro hl i c hc
    cases hcur : c.cur with
    | none => rfl
    | some l => have := h.held i c hc (by simp [hcur]); rw [hl] at this; cases this
  · intro hall
    cases hl : (runE false true D progs evs).lock with
    | none => rfl
    | some i =>
      obtain ⟨c, hc, hs⟩ := h.holder i hl
      rw [hall i c hc] at hs; simp at hs

/-- **serial equivalence** for histories of run / cancel events ONLY (`SEv.quiet`: no timeout, no close):
    cancelled operations never ran and are in no log.  NOT claimed for histories with `timeout` / `close`:
    there the holder's operation is cut short by somebody else's timeout (`timeout_kills_holder`). -/
theorem serializable_cancel (D : Dev σ) (progs : List Prog) (evs : List SEv) (hquiet : ∀ ev ∈ evs, ev.quiet = true)
    (hq : (runE false true D progs evs).lock = none) :
    serial D progs ((runE false true D progs evs).finished.map (·.1)) =
      ((runE false true D progs evs).world, (runE false true D progs evs).finished) := by
  have h := sinv_runE D progs evs hquiet
  simp only [SInv, orderOf, complete, hq, List.append_nil] at h
  exact h

/-- asyncio granularity with cancel events is again a special case -/
theorem async_refines_cancel (releases locking : Bool) (D : Dev σ) (progs : List Prog) (evs : List SEv) :
    ∃ evs', runEAsync releases locking D progs evs = runE releases locking D progs evs' := by
  obtain ⟨l, hl⟩ := foldl_stepEAsync_eq releases locking D progs evs (init D progs)
  exact ⟨l, hl⟩

/-- a timeout at the lock is NOT side-effect free: if task `i` was waiting, the shared transport is closed -/
theorem timeout_closes_transport (progs : List Prog) (s : St σ) (i : Nat) (hw : waiting progs s i = true) :
    (timeoutWaiting false progs s i).world.closed = true ∧ (timeoutWaiting false progs s i).lock = s.lock := by
  unfold timeoutWaiting
  simp only [hw, if_true, closeW]
  exact ⟨trivial, (cancel_keeps_lock progs s i).1⟩

/-- **somebody else's timeout kills the holder's operation**: once the transport is closed, the holder's
    next transport call raises whatever it is — the operation ends `ok = false` and (with-statement) the
    lock is freed -/
theorem timeout_kills_holder (D : Dev σ) (progs : List Prog) (s : St σ) (i : Nat) (c : Caller) (st : Step)
    (rest : List Step) (hc : s.callers[i]? = some c) (hcur : c.cur = some (st :: rest)) (hcl : s.world.closed = true) :
    step true D progs s i = finishOp s (perform D s.world i c.pc st).1 i c ⟨false, c.reads⟩ ∧
    (step true D progs s i).lock = none := by
  have hr : raises s.world st = true := by simp [raises, hcl]
  unfold step
  simp [hc, hcur, hr, finishOp]

/-- a closed transport stays closed (nothing in a channel operation re-opens it) -/
theorem closed_stays (D : Dev σ) (progs : List Prog) (s : St σ) (ev : SEv) (hcl : s.world.closed = true) :
    (stepE false true D progs s ev).world.closed = true := by
  cases ev with
  | close => rfl
  | cancel i =>
    have := (cancel_keeps_lock progs s i).2.1
    simp only [stepE]; rw [this]; exact hcl
  | timeout i =>
    simp only [stepE, timeoutWaiting]
    split
    · rfl
    · exact hcl
  | run i =>
    simp only [stepE]
    have hcase := step_cases true D progs s i
    generalize step true D progs s i = s' at hcase
    cases hcase with
    | skip => exact hcl
    | empty c hc hcur hop hfree => exact hcl
    | enter c st rest hc hcur hop hfree => exact hcl
    | fail c st rest hc hcur hf => simp only [finishOp]; rw [perform_closed]; exact hcl
    | last c st hc hcur hf => simp only [finishOp]; rw [perform_closed]; exact hcl
    | cont c st rest hc hcur hf hne => simp only [contSt]; rw [perform_closed]; exact hcl

/-! ### contrast: channel_lock off -/

def exW (s : String) : Step := ⟨.write (ofString s), false⟩
def exR : Step := ⟨.read, false⟩
/-- two callers, one `send_input`-shaped operation each -/
def exProgs : List Prog := [[[exW "show a", exR, exW "\n", exR]], [[exW "show b", exR, exW "\n", exR]]]
def exDev : Dev Bytes := cliDev (ofString "r1#")
def exSched : List Nat := [0, 1, 0, 1, 0, 1, 0, 1, 0, 1]

/-- **without the lock there is a schedule that interleaves** (so `no_interleave` is about the lock):
    caller 1's write lies between two calls of caller 0's operation, and caller 0 reads what the device
    echoed for caller 1. -/
theorem unlocked_can_interleave :
    ∃ (progs : List Prog) (sched : List Nat) (a b c : Nat),
      let tr := (run false exDev progs sched).world.wire
      a < b ∧ b < c ∧ c < tr.length ∧
      tr[a]?.map Ev.key = tr[c]?.map Ev.key ∧ tr[b]?.map Ev.caller ≠ tr[a]?.map Ev.caller ∧
      tr[c]?.map Ev.data = some (ofString "show ashow b") :=
  ⟨exProgs, exSched, 0, 1, 2, by decide +kernel⟩

/-- the same programs under the same schedule with the lock on: caller 0's whole block, then caller 1's -/
example : ((run true exDev exProgs (exSched ++ exSched)).world.wire.map (·.caller)) = [0, 0, 0, 0, 1, 1, 1, 1] := by
  decide +kernel

/-! ### contrast: release on cancel while waiting -/

/-- three callers, caller 1 only ever waits -/
def exProgs3 : List Prog := exProgs ++ [[[exW "show c", exR, exW "\n", exR]]]
/-- caller 0 enters and writes; caller 1 is cancelled while waiting; caller 2 is scheduled twice; caller 0 goes on -/
def exCancel : List SEv := [.run 0, .run 0, .cancel 1, .run 2, .run 2, .run 0]

/-- **release on cancel while waiting is wrong** (the variant `releases = true`: a `finally: release()` that
    also covers the `await acquire()`; asyncio.Lock.release() does not check ownership): caller 1, cancelled
    while it waits, frees caller 0's lock; caller 2 enters and writes between two calls of caller 0's
    operation, both are inside at once, and caller 0 reads caller 2's echo. -/
theorem release_on_cancel_interleaves :
    let s := runE true true exDev exProgs3 exCancel
    s.world.wire.map (·.caller) = [0, 2, 0] ∧
    (s.world.wire[2]?.map Ev.data) = some (ofString "show ashow c") ∧
    ((s.callers[0]?.map (·.cur.isSome)) = some true ∧ (s.callers[2]?.map (·.cur.isSome)) = some true) := by
  decide +kernel

/-- the same history with the code's semantics: caller 2 stays out until caller 0 is done -/
example : ((runE false true exDev exProgs3 exCancel).world.wire.map (·.caller)) = [0, 0] ∧
    (runE false true exDev exProgs3 exCancel).lock = some 0 := by decide +kernel

/-! ### the tie to the source: generated from the AST of both channel files, decided -/
open Scrapli.Gen.LockCoverage

/-- **coverage**: in both channel files, every call by which a public channel operation reaches the
    transport (`self.read`, `self.write`, `self.send_return`, `self._read_until_*`, `self.transport.*`)
    is lexically inside the `with / async with self._channel_lock():` block. -/
theorem coverage_table : ∀ r ∈ table, r.inside = true := by decide

/-- the table covers the operations the property names (and the two in-channel logins), in both files:
    each is a public method from which the transport is reachable and has rows; so has every other
    public method found (a new unlocked public operation would show up here as a `false` row) -/
theorem coverage_operations :
    (["scrapli/channel/sync_channel.py", "scrapli/channel/async_channel.py"].all fun f =>
      ["get_prompt", "send_input", "send_input_and_read", "send_inputs_interact",
       "channel_authenticate_ssh", "channel_authenticate_telnet"].all fun m =>
        operations.contains (f, m) && (table.any fun r => r.file == f && r.method == m)) = true ∧
    (operations.all fun o => table.any fun r => r.file == o.1 && r.method == o.2) = true := by decide +kernel

/-- **one operation = one critical section** (the model's central assumption, `Lock.lean` header): every public
    operation executes exactly ONE `with self._channel_lock()` statement (its own or a private helper's) and none
    sits under a for/while — a lock taken per loop iteration or a section split in two fails here -/
theorem one_critical_section : (lockSections.all fun r => r.2.2.1 == 1 && !r.2.2.2) = true ∧
    lockSections.map (fun r => (r.1, r.2.1)) = operations := by decide +kernel

/-- the lock is taken by a `with` statement inside a (async)contextmanager (released on every exit —
    the `finishOp` of the model), it is a plain non re-entrant `threading.Lock` / `asyncio.Lock`
    created only when `channel_lock` is set, and the setting is off by default -/
theorem lock_context :
    lockContext = [("scrapli/channel/sync_channel.py", true), ("scrapli/channel/async_channel.py", true)] ∧
    lockTypes = [("scrapli/channel/sync_channel.py", "threading.Lock", true),
                 ("scrapli/channel/async_channel.py", "asyncio.Lock", true)] ∧
    channelLockDefault = false := by decide

/-! ### a timed-out operation (thread-pool timeout mechanism) -/

/-- a call that raises while its caller holds the lock frees the lock: what the woken worker does -/
theorem failing_call_releases (D : Dev σ) (progs : List Prog) (s : St σ) (i : Nat) (c : Caller) (st : Step)
    (rest : List Step) (hc : s.callers[i]? = some c) (hcur : c.cur = some (st :: rest)) (hf : st.fails = true) :
    (step true D progs s i).lock = none := by
  have hr : raises s.world st = true := by simp [raises, hf]
  unfold step
  simp [hc, hcur, hr, finishOp]

namespace PoolTimeout

def fairTail : List Bool := [true, false, true, false, true, false]

/-- **a timed-out operation releases the lock**: if `_handle_timeout` (which closes the transport) runs
    before the worker is joined and closing wakes the blocked read, then after ANY schedule prefix three
    fair rounds (calling thread, worker) end with `ScrapliTimeout` delivered, the transport closed and
    the channel lock free. -/
theorem timed_out_op_releases_lock (o : TOpts) (hc : o.closeBeforeJoin = true) (hw : o.closeWakes = true)
    (pre : List Bool) :
    (trun o (pre ++ fairTail)).pc = .raised ∧ (trun o (pre ++ fairTail)).lock = false ∧
    (trun o (pre ++ fairTail)).closed = true := by
  rcases o with ⟨cbj, cw⟩
  simp only at hc hw
  subst hc; subst hw
  -- the reachable states
  let good : TSt → Bool := fun s =>
    s == ⟨.waiting, false, true, true⟩ || s == ⟨.first, false, true, true⟩ || s == ⟨.second, true, true, true⟩ ||
    s == ⟨.second, true, false, false⟩ || s == ⟨.raised, true, false, false⟩
  have hstep : ∀ (s : TSt) (t : Bool), good s = true → good (tstep ⟨true, true⟩ s t) = true := by
    intro s t
    rcases s with ⟨pc, c, b, l⟩
    cases pc <;> cases c <;> cases b <;> cases l <;> cases t <;> decide
  have hreach : ∀ (l : List Bool) (s : TSt), good s = true → good (l.foldl (tstep ⟨true, true⟩) s) = true := by
    intro l
    induction l with
    | nil => intro s h; exact h
    | cons t l ih => intro s h; exact ih _ (hstep s t h)
  have hfin : ∀ s : TSt, good s = true →
      (fairTail.foldl (tstep ⟨true, true⟩) s).pc = .raised ∧ (fairTail.foldl (tstep ⟨true, true⟩) s).lock = false ∧
      (fairTail.foldl (tstep ⟨true, true⟩) s).closed = true := by
    intro s
    rcases s with ⟨pc, c, b, l⟩
    cases pc <;> cases c <;> cases b <;> cases l <;> decide
  have := hfin _ (hreach pre {} (by decide))
  simpa [trun, List.foldl_append] using this

/-- whatever the order: `ScrapliTimeout` reaches the user only after the worker has left the lock context -/
theorem raised_only_after_release (o : TOpts) (sched : List Bool) :
    (trun o sched).pc = .raised → (trun o sched).lock = false := by
  let inv : TSt → Bool := fun s => (s.lock == s.blocked) && (s.pc != .raised || !s.blocked) &&
    (o.closeBeforeJoin || s.pc != .second || !s.blocked)   -- join first: past the join the worker has ended
  have hstep : ∀ (s : TSt) (t : Bool), inv s = true → inv (tstep o s t) = true := by
    intro s t
    rcases o with ⟨cbj, cw⟩
    rcases s with ⟨pc, c, b, l⟩
    cases cbj <;> cases cw <;> cases pc <;> cases c <;> cases b <;> cases l <;> cases t <;> decide
  have hreach : ∀ (l : List Bool) (s : TSt), inv s = true → inv (l.foldl (tstep o) s) = true := by
    intro l
    induction l with
    | nil => intro s h; exact h
    | cons t l ih => intro s h; exact ih _ (hstep s t h)
  have h := hreach sched {} (by simp [inv])
  unfold trun
  generalize sched.foldl (tstep o) {} = s at h
  rcases s with ⟨pc, c, b, l⟩
  cases pc <;> cases c <;> cases b <;> cases l <;> simp_all [inv]

/-- **the other order**: if the worker is joined before `_handle_timeout` closes the transport, then under
    EVERY schedule the lock stays held, the transport stays open and `ScrapliTimeout` is never delivered:
    the timed-out caller and everybody queued on the lock hang. -/
theorem join_before_close_never_releases (o : TOpts) (hc : o.closeBeforeJoin = false) (sched : List Bool) :
    (trun o sched).lock = true ∧ (trun o sched).pc ≠ .raised ∧ (trun o sched).closed = false := by
  rcases o with ⟨cbj, cw⟩
  simp only at hc
  subst hc
  let stuck : TSt → Bool := fun s => s == ⟨.waiting, false, true, true⟩ || s == ⟨.first, false, true, true⟩
  have hstep : ∀ (s : TSt) (t : Bool), stuck s = true → stuck (tstep ⟨false, cw⟩ s t) = true := by
    intro s t
    rcases s with ⟨pc, c, b, l⟩
    cases cw <;> cases pc <;> cases c <;> cases b <;> cases l <;> cases t <;> decide
  have hreach : ∀ (l : List Bool) (s : TSt), stuck s = true → stuck (l.foldl (tstep ⟨false, cw⟩) s) = true := by
    intro l
    induction l with
    | nil => intro s h; exact h
    | cons t l ih => intro s h; exact ih _ (hstep s t h)
  have h := hreach sched {} (by decide)
  unfold trun
  generalize sched.foldl (tstep ⟨false, cw⟩) {} = s at h
  rcases s with ⟨pc, c, b, l⟩
  cases pc <;> cases c <;> cases b <;> cases l <;> simp_all [stuck]

/-- so the statement without the order hypothesis is false … -/
theorem timed_out_op_releases_lock_full_refuted :
    ¬ (∀ (o : TOpts), o.closeWakes = true → ∀ pre : List Bool, (trun o (pre ++ fairTail)).lock = false) := by
  intro h
  have h1 := h ⟨false, true⟩ rfl []
  have h2 := (join_before_close_never_releases ⟨false, true⟩ rfl ([] ++ fairTail)).1
  rw [h1] at h2
  cases h2

/-- … and so is the one without "close wakes the read" (a transport whose blocked read is not woken by
    close(): C07's finding) -/
theorem close_must_wake (o : TOpts) (hw : o.closeWakes = false) (sched : List Bool) : (trun o sched).lock = true := by
  rcases o with ⟨cbj, cw⟩
  simp only at hw
  subst hw
  have hinv : ∀ (l : List Bool) (s : TSt), (s.lock = true ∧ s.blocked = true) →
      ((l.foldl (tstep ⟨cbj, false⟩) s).lock = true ∧ (l.foldl (tstep ⟨cbj, false⟩) s).blocked = true) := by
    intro l
    induction l with
    | nil => intro s h; exact h
    | cons t l ih =>
      intro s h
      apply ih
      rcases s with ⟨pc, c, b, lk⟩
      simp only at h
      cases cbj <;> cases pc <;> cases c <;> cases b <;> cases lk <;> cases t <;> simp_all [tstep, plan, doAct]
  exact (hinv sched {} (by decide)).1

open Scrapli.Gen.LockCoverage in
/-- the order in the source (GENERATED from the AST of `_multiprocessing_timeout` / `_handle_timeout`):
    `_handle_timeout` is called inside the `with ThreadPoolExecutor` block — before the implicit join —
    and closes the transport before raising -/
theorem pool_timeout_closes_before_join :
    handleTimeoutInsidePoolBlock = true ∧ handleTimeoutClosesBeforeRaise = true := by decide

open Scrapli.Gen.LockCoverage in
/-- `transport.close()` in `_handle_timeout` is guarded by exactly `not Settings.NO_TERMINATE_ON_TIMEOUT` (GENERATED) -/
theorem pool_timeout_close_guard : handleTimeoutCloseGuard = "not Settings.NO_TERMINATE_ON_TIMEOUT" := by decide

open Scrapli.Gen.LockCoverage in
/-- hence, for the source as it is, a timed-out operation ends with the channel lock free — UNDER the two
    explicit hypotheses that are not facts about this code: `noTerminate = false` (the setting
    NO_TERMINATE_ON_TIMEOUT is off, so the transport really is closed) and `closeWakes = true` (close() of this
    transport wakes a blocked read — a per-transport fact that C07 measures).  `TOpts.closeWakes` of the model
    is their conjunction with the generated "close precedes raise". -/
theorem timed_out_op_releases_lock_src (noTerminate closeWakes : Bool) (h1 : noTerminate = false) (h2 : closeWakes = true)
    (pre : List Bool) :
    (trun ⟨handleTimeoutInsidePoolBlock, handleTimeoutClosesBeforeRaise && !noTerminate && closeWakes⟩ (pre ++ fairTail)).pc = .raised ∧
    (trun ⟨handleTimeoutInsidePoolBlock, handleTimeoutClosesBeforeRaise && !noTerminate && closeWakes⟩ (pre ++ fairTail)).lock = false := by
  subst h1; subst h2
  have h := timed_out_op_releases_lock ⟨handleTimeoutInsidePoolBlock, handleTimeoutClosesBeforeRaise && !false && true⟩
    pool_timeout_closes_before_join.1 (by simp [pool_timeout_closes_before_join.2]) pre
  exact ⟨h.1, h.2.1⟩

open Scrapli.Gen.LockCoverage in
/-- with NO_TERMINATE_ON_TIMEOUT set (or a transport whose close() does not wake the read) the worker is never
    woken: the lock stays held under every schedule (C07's open finding; outside C19's claim) -/
theorem no_terminate_never_releases (closeWakes : Bool) (sched : List Bool) :
    (trun ⟨handleTimeoutInsidePoolBlock, handleTimeoutClosesBeforeRaise && !true && closeWakes⟩ sched).lock = true :=
  close_must_wake _ (by simp) sched

/-! #### the pool joins its worker; the device answers late (NO_TERMINATE_ON_TIMEOUT) -/

/-- `tstep2` with a joining pool and a silent device is `tstep` -/
theorem tstep2_eq (o : TOpts) (s : TSt) (t : Bool) : tstep2 o true false s t = tstep o s t := by
  rcases o with ⟨cbj, cw⟩
  rcases s with ⟨pc, c, b, l⟩
  cases cbj <;> cases cw <;> cases pc <;> cases c <;> cases b <;> cases l <;> cases t <;> rfl

/-- **an operation that has ended for its caller is not still running**: if leaving the pool joins the worker
    (`joins`), then under EVERY schedule, whatever the order of close and join, whether or not the transport is
    closed / wakes, whether or not the device answers late: once ScrapliTimeout has reached the caller the worker
    has left the lock context — lock free, nobody of that call still reading or writing. -/
theorem raised_only_after_release_joins (o : TOpts) (late : Bool) (sched : List Bool) :
    (trun2 o true late sched).pc = .raised → (trun2 o true late sched).lock = false ∧ (trun2 o true late sched).blocked = false := by
  let inv : TSt → Bool := fun s => (s.lock == s.blocked) && (s.pc != .raised || !s.blocked) &&
    (o.closeBeforeJoin || s.pc != .second || !s.blocked)
  have hstep : ∀ (s : TSt) (t : Bool), inv s = true → inv (tstep2 o true late s t) = true := by
    intro s t
    rcases o with ⟨cbj, cw⟩
    rcases s with ⟨pc, c, b, l⟩
    cases late <;> cases cbj <;> cases cw <;> cases pc <;> cases c <;> cases b <;> cases l <;> cases t <;> decide
  have hreach : ∀ (l : List Bool) (s : TSt), inv s = true → inv (l.foldl (tstep2 o true late) s) = true := by
    intro l
    induction l with
    | nil => intro s h; exact h
    | cons t l ih => intro s h; exact ih _ (hstep s t h)
  have h := hreach sched {} (by simp [inv])
  unfold trun2
  generalize sched.foldl (tstep2 o true late) {} = s at h
  rcases s with ⟨pc, c, b, l⟩
  cases pc <;> cases c <;> cases b <;> cases l <;> simp_all [inv]

/-- **without the join it is false** (`shutdown(wait=False)`): with NO_TERMINATE_ON_TIMEOUT (nothing wakes the worker,
    `closeWakes = false`) the caller has its ScrapliTimeout while the worker still holds the channel lock, blocked
    in its read — the next operation is blocked by an operation that has already ended, and when the late answer
    comes the orphaned worker consumes it -/
theorem no_join_raises_while_lock_held :
    (trun2 ⟨true, false⟩ false true [true, true, true]).pc = .raised ∧
    (trun2 ⟨true, false⟩ false true [true, true, true]).lock = true ∧
    (trun2 ⟨true, false⟩ false true [true, true, true]).blocked = true := by decide

theorem raised_only_after_release_full_refuted :
    ¬ (∀ (o : TOpts) (joins late : Bool) (sched : List Bool),
        (trun2 o joins late sched).pc = .raised → (trun2 o joins late sched).lock = false) := by
  intro h
  have := h ⟨true, false⟩ false true [true, true, true] no_join_raises_while_lock_held.1
  rw [no_join_raises_while_lock_held.2.1] at this
  cases this

/-- NO_TERMINATE_ON_TIMEOUT with a device that answers late and a joining pool: after ANY prefix three fair rounds end
    with ScrapliTimeout delivered and the lock free (the worker's read returned by itself) — no close needed -/
theorem late_answer_releases (o : TOpts) (pre : List Bool) :
    (trun2 o true true (pre ++ fairTail)).pc = .raised ∧ (trun2 o true true (pre ++ fairTail)).lock = false := by
  let inv : TSt → Bool := fun s => (s.lock == s.blocked) && (s.pc != .raised || !s.blocked) &&
    (o.closeBeforeJoin || s.pc != .second || !s.blocked)
  have hstep : ∀ (s : TSt) (t : Bool), inv s = true → inv (tstep2 o true true s t) = true := by
    intro s t
    rcases o with ⟨cbj, cw⟩
    rcases s with ⟨pc, c, b, l⟩
    cases cbj <;> cases cw <;> cases pc <;> cases c <;> cases b <;> cases l <;> cases t <;> decide
  have hreach : ∀ (l : List Bool) (s : TSt), inv s = true → inv (l.foldl (tstep2 o true true) s) = true := by
    intro l
    induction l with
    | nil => intro s h; exact h
    | cons t l ih => intro s h; exact ih _ (hstep s t h)
  have hfin : ∀ s : TSt, inv s = true →
      (fairTail.foldl (tstep2 o true true) s).pc = .raised ∧ (fairTail.foldl (tstep2 o true true) s).lock = false := by
    intro s
    rcases o with ⟨cbj, cw⟩
    rcases s with ⟨pc, c, b, l⟩
    cases cbj <;> cases cw <;> cases pc <;> cases c <;> cases b <;> cases l <;> decide
  have := hfin _ (hreach pre {} (by simp [inv]))
  simpa [trun2, List.foldl_append] using this

open Scrapli.Gen.LockCoverage in
/-- the source (GENERATED): leaving the pool joins the worker -/
theorem pool_joins_worker : poolJoinsWorker = true := by decide

open Scrapli.Gen.LockCoverage in
/-- hence for the source as it is: an operation that timed out is over when its caller learns it — every schedule,
    every setting of NO_TERMINATE_ON_TIMEOUT, every transport, device silent or late -/
theorem raised_only_after_release_src (o : TOpts) (late : Bool) (sched : List Bool) :
    (trun2 o poolJoinsWorker late sched).pc = .raised →
      (trun2 o poolJoinsWorker late sched).lock = false ∧ (trun2 o poolJoinsWorker late sched).blocked = false := by
  rw [pool_joins_worker]
  exact raised_only_after_release_joins o late sched

/-- non-vacuity: the straightforward schedule (timeout, close, worker wakes, join) -/
example : trun ⟨true, true⟩ [true, true, false, true] = ⟨.raised, true, false, false⟩ := by decide

end PoolTimeout

/-! ### own output after a failure: false, and what "release on every exit" rests on -/

/-- the reviewer's witness: caller 0's read of its echo raises, caller 1 then runs `send_input "show b"` -/
def exFailProgs : List Prog := [[[exW "show a", ⟨.read, true⟩]], [[exW "show b", exR, exW "\n", exR]]]

/-- **own output is FALSE after a failure** (in the model, and in the code: a failed / cancelled operation
    leaves its half-typed line and unread bytes on the still-open connection): caller 1's operation, which
    itself reads to its end, gets `show ashow b` + the output of the concatenated command, not the answer
    to its own writes.  So `own_output_partial` cannot drop its hypothesis, and `own_output_before_first_failure`
    is the strongest statement of this shape. -/
theorem own_output_after_failure_refuted :
    ¬ (∀ (progs : List Prog) (sched : List Nat) (j : Nat) (key : Nat × Nat) (o : Outcome),
        (run true exDev progs sched).finished[j]? = some (key, o) → Drains (opOf progs key) →
        o.ok = true ∧ o.reads.flatten =
          (feed exDev (devAfter exDev progs (((run true exDev progs sched).finished.take j).map (·.1)))
            (writesOf (opOf progs key))).2) := by
  intro h
  have hd : Drains (opOf exFailProgs (1, 0)) :=
    ⟨by decide, .inr ⟨[exW "show b", exR, exW "\n"], false, rfl⟩⟩
  have h1 := (h exFailProgs [0, 0, 0, 1, 1, 1, 1, 1, 1] 1 (1, 0)
    ⟨true, [ofString "show ashow b", ofString "\nout<show ashow b>\nr1#"]⟩ (by decide +kernel) hd).2
  revert h1
  decide +kernel

/-- … and concretely what caller 1 gets -/
example : ((run true exDev exFailProgs [0, 0, 0, 1, 1, 1, 1, 1, 1]).finished.map fun e => (e.1, e.2.ok, e.2.reads.flatten)) =
    [((0, 0), false, []), ((1, 0), true, ofString "show ashow b\nout<show ashow b>\nr1#")] := by decide +kernel

/-- `stepR true` is `step`: the model's "release on every exit" is the with-statement semantics, by construction -/
theorem runR_true (locking : Bool) (D : Dev σ) (progs : List Prog) (sched : List Nat) :
    runR true locking D progs sched = run locking D progs sched := rfl

/-- **without release-on-raise the next caller is blocked for ever** (variant `relOnRaise = false`: `acquire()`; body;
    `release()` without with / try-finally): after caller 0's failing call nobody is inside an operation, yet the
    lock is still taken and caller 1 never starts, however long the fair schedule -/
theorem no_release_on_raise_deadlocks :
    let s := runR false true exDev exFailProgs ([0, 0, 0] ++ (List.replicate 20 [0, 1]).flatten)
    s.lock = some 0 ∧ (s.callers.map (·.cur)) = [none, none] ∧ s.finished.map (·.1) = [(0, 0)] ∧
    (s.callers[1]?.map (·.pc)) = some 0 := by
  decide +kernel

open Scrapli.Gen.LockCoverage in
/-- **lock released, tied to the source**: `lock_released` is true of `step` BY CONSTRUCTION (`finishOp` frees the
    lock; its three cases close by `rfl`).  What makes it a statement about scrapli is the GENERATED `lockContext`:
    both `_channel_lock` implementations take the lock by a with-statement inside a (async)contextmanager, so the
    semantics of the source is `stepR (lockContext.all (·.2))` = `stepR true` = `step`; were the flag false, the
    deadlock above is what the model predicts. -/
theorem lock_released_src (D : Dev σ) (progs : List Prog) (sched : List Nat) (i : Nat)
    (hend : (stepR (lockContext.all (·.2)) true D progs (runR (lockContext.all (·.2)) true D progs sched) i).finished.length
              = (runR (lockContext.all (·.2)) true D progs sched).finished.length + 1) :
    (stepR (lockContext.all (·.2)) true D progs (runR (lockContext.all (·.2)) true D progs sched) i).lock = none := by
  have hflag : lockContext.all (·.2) = true := by decide
  rw [hflag] at hend ⊢
  exact lock_released D progs sched i hend

/-- a timeout at the lock in action (asyncio granularity): task 0 inside `send_input`, task 1's timeout expires while
    it waits: the transport is closed, task 0's next read raises, its operation fails, the lock is free, task 1 is gone -/
example : let s := runEAsync false true exDev exProgs [.run 0, .run 1, .timeout 1, .run 0]
    s.world.closed = true ∧ s.lock = none ∧ s.finished.map (fun e => (e.1, e.2.ok)) = [((0, 0), false)] ∧
    s.world.wire.map (fun e => (e.caller, e.failed)) = [(0, false), (0, true)] := by
  decide +kernel

/-! ### non-vacuity of the hypotheses -/

/-- `exProgs` satisfies the hypothesis of `own_output` … -/
example : ∀ key, Drains (opOf exProgs key) := by
  intro key
  unfold opOf opAt
  rcases key with ⟨i, k⟩
  match i, k with
  | 0, 0 => exact ⟨by decide, .inr ⟨[exW "show a", exR, exW "\n"], false, rfl⟩⟩
  | 1, 0 => exact ⟨by decide, .inr ⟨[exW "show b", exR, exW "\n"], false, rfl⟩⟩
  | 0, k + 1 => exact ⟨by simp [exProgs], .inl (by simp [exProgs])⟩
  | 1, k + 1 => exact ⟨by simp [exProgs], .inl (by simp [exProgs])⟩
  | i + 2, k => exact ⟨by simp [exProgs], .inl (by simp [exProgs])⟩

/-- … and under a preempting schedule each caller gets the output of its own command -/
example : ((run true exDev exProgs (exSched ++ exSched)).finished.map fun e => (e.1, e.2.ok, e.2.reads.flatten)) =
    [((0, 0), true, ofString "show a\nout<show a>\nr1#"), ((1, 0), true, ofString "show b\nout<show b>\nr1#")] := by
  decide +kernel

/-- a program with a failing call: the lock is free afterwards and the other caller completes -/
example : let s := run true exDev [[[exW "x", ⟨.read, true⟩, exW "\n", exR]], [[exW "\n", exR]]] [0, 0, 1, 0, 1, 1, 1]
    s.lock = none ∧ s.finished.map (fun e => (e.1, e.2.ok)) = [((0, 0), false), ((1, 0), true)] := by
  decide +kernel

/-- `progress` applies to `exProgs`: 10 fair rounds -/
example : totalSteps exProgs = 10 := by decide

end Scrapli.Lock
