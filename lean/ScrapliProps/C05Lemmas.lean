import ScrapliModel.PromptClass
/-
  C05 helper lemmas: the language-level reading of the building blocks (`all`, `lit`, `contains`,
  `alts`, `ands`), the link between the executable classifier (`classify`, substring test
  `isInfix`) and the languages `Level.classified`, and the step from the three emptiness facts of
  a mode (`detOb`, `ownOb`, `forOb`) to `ModeOK`.
-/
namespace Scrapli.PromptClass
open Scrapli.Regex RE

theorem Lang_any (c : UInt8) : Lang RE.any [c] := by
  refine ⟨c, rfl, ?_⟩
  show (2 ^ 256 - 1 : Nat).testBit c.toNat = true
  rw [Nat.testBit_two_pow_sub_one]
  have := c.toNat_lt
  simpa using this

theorem Lang_all (w : Word) : Lang RE.all w := by
  induction w with
  | nil => exact ⟨0, rfl⟩
  | cons c w ih =>
    obtain ⟨k, hk⟩ := ih
    exact ⟨k + 1, [c], w, rfl, Lang_any c, hk⟩

theorem Lang_byte (b : UInt8) (w : Word) : Lang (RE.byte b) w ↔ w = [b] := by
  show (∃ c : UInt8, w = [c] ∧ (1 <<< b.toNat : Nat).testBit c.toNat = true) ↔ _
  rw [Nat.one_shiftLeft]
  constructor
  · rintro ⟨c, e, h⟩
    rw [Nat.testBit_two_pow] at h
    have : b = c := UInt8.toNat_inj.1 (by simpa using h)
    rw [e, this]
  · intro e
    exact ⟨b, e, Nat.testBit_two_pow_self⟩

theorem Lang_lit : ∀ (x w : Word), Lang (RE.lit x) w ↔ w = x
  | [], w => Iff.rfl
  | [b], w => Lang_byte b w
  | b :: b' :: bs, w => by
    show Lcat (Lang (RE.byte b)) (Lang (RE.lit (b' :: bs))) w ↔ _
    constructor
    · rintro ⟨u, v, e, hu, hv⟩
      rw [(Lang_byte b u).1 hu, (Lang_lit (b' :: bs) v).1 hv] at e
      exact e
    · intro e
      exact ⟨[b], b' :: bs, e, (Lang_byte b _).2 rfl, (Lang_lit (b' :: bs) _).2 rfl⟩

theorem isPrefix_iff (x w : Word) : isPrefix x w = true ↔ ∃ v, w = x ++ v := by
  induction x generalizing w with
  | nil => simp [isPrefix]
  | cons a as ih =>
    cases w with
    | nil => simp [isPrefix]
    | cons b bs =>
      simp only [isPrefix, Bool.and_eq_true, beq_iff_eq, ih, List.cons_append, List.cons.injEq]
      constructor
      · rintro ⟨e, v, hv⟩; exact ⟨v, e.symm, hv⟩
      · rintro ⟨v, e, hv⟩; exact ⟨e.symm, v, hv⟩

theorem isInfix_iff (x w : Word) : isInfix x w = true ↔ ∃ u v, w = u ++ (x ++ v) := by
  induction w with
  | nil =>
    simp only [isInfix, List.isEmpty_iff]
    constructor
    · intro e; exact ⟨[], [], by simp [e]⟩
    · rintro ⟨u, v, e⟩
      have h := List.append_eq_nil_iff.1 e.symm
      exact (List.append_eq_nil_iff.1 h.2).1
  | cons b bs ih =>
    simp only [isInfix, Bool.or_eq_true, isPrefix_iff, ih]
    constructor
    · rintro (⟨v, e⟩ | ⟨u, v, e⟩)
      · exact ⟨[], v, e⟩
      · exact ⟨b :: u, v, by rw [e]; rfl⟩
    · rintro ⟨u, v, e⟩
      cases u with
      | nil => exact Or.inl ⟨v, e⟩
      | cons c u' =>
        simp only [List.cons_append, List.cons.injEq] at e
        exact Or.inr ⟨u', v, e.2⟩

theorem Lang_contains (x w : Word) : Lang (RE.contains x) w ↔ isInfix x w = true := by
  rw [isInfix_iff]
  show Lcat (Lang RE.all) (Lcat (Lang (RE.lit x)) (Lang RE.all)) w ↔ _
  constructor
  · rintro ⟨u, v', e, _, a, b, e', ha, _⟩
    rw [(Lang_lit x a).1 ha] at e'
    exact ⟨u, b, by rw [e, e']⟩
  · rintro ⟨u, v, e⟩
    exact ⟨u, x ++ v, e, Lang_all u, x, v, rfl, (Lang_lit x x).2 rfl, Lang_all v⟩

theorem Lang_alts : ∀ (xs : List RE) (w : Word), Lang (RE.alts xs) w ↔ ∃ x ∈ xs, Lang x w
  | [], w => by simp [RE.alts, Lang]
  | [a], w => by simp [RE.alts]
  | a :: b :: rest, w => by
    show Lang a w ∨ Lang (RE.alts (b :: rest)) w ↔ _
    rw [Lang_alts (b :: rest) w]
    constructor
    · rintro (h | ⟨x, hx, h⟩)
      · exact ⟨a, List.mem_cons_self, h⟩
      · exact ⟨x, List.mem_cons_of_mem _ hx, h⟩
    · rintro ⟨x, hx, h⟩
      rcases List.mem_cons.1 hx with e | e
      · exact Or.inl (e ▸ h)
      · exact Or.inr ⟨x, e, h⟩

theorem Lang_ands : ∀ (xs : List RE) (w : Word), Lang (ands xs) w ↔ ∀ x ∈ xs, Lang x w
  | [], w => by simp [ands, Lang]
  | [a], w => by simp [ands]
  | a :: b :: rest, w => by
    show Lang a w ∧ Lang (ands (b :: rest)) w ↔ _
    rw [Lang_ands (b :: rest) w]
    constructor
    · rintro ⟨h1, h2⟩ x hx
      rcases List.mem_cons.1 hx with e | e
      · exact e ▸ h1
      · exact h2 x e
    · intro h
      exact ⟨h a List.mem_cons_self, fun x hx => h x (List.mem_cons_of_mem _ hx)⟩

theorem Lang_excluded (l : Level) (w : Word) :
    Lang l.excluded w ↔ l.notContains.any (fun x => isInfix x w) = true := by
  unfold Level.excluded
  rw [Lang_alts, List.any_eq_true]
  constructor
  · rintro ⟨r, hr, h⟩
    obtain ⟨x, hx, e⟩ := List.mem_map.1 hr
    exact ⟨x, hx, (Lang_contains x w).1 (e ▸ h)⟩
  · rintro ⟨x, hx, h⟩
    exact ⟨RE.contains x, List.mem_map.2 ⟨x, hx, rfl⟩, (Lang_contains x w).2 h⟩

/-- the languages `Level.classified` are exactly what the executable classifier computes -/
theorem classified_iff (l : Level) (w : Word) : Lang l.classified w ↔ l.classifies w = true := by
  unfold Level.classifies
  have hex := Lang_excluded l w
  unfold Level.classified
  split
  · rename_i h
    rw [h]
    simp [rmatch_iff]
  · show Lang l.search w ∧ ¬ Lang l.excluded w ↔ _
    rw [hex, Bool.and_eq_true, rmatch_iff]
    constructor
    · rintro ⟨h1, h2⟩; exact ⟨by simpa using h2, h1⟩
    · rintro ⟨h1, h2⟩; exact ⟨h2, by simpa using h1⟩

theorem classify_eq (t : Table) (w : Word) :
    classify t w = (t.levels.filter (fun l => l.classifies w)).map (·.name) := rfl

/-- from the three certificate-checked emptiness facts of a mode to the C05 statement -/
theorem modeOK_of_empty (t : Table) (m : Mode)
    (h0 : ∀ w, ¬ Lang (detOb t m) w) (h1 : ∀ w, ¬ Lang (ownOb t m) w)
    (h2 : ∀ w, ¬ Lang (forOb t m) w) : ModeOK t m := by
  intro w hw
  refine ⟨?_, ?_⟩
  · show rmatch t.detect w = true
    rw [rmatch_iff]
    exact incl_of_empty h0 w hw
  · rw [classify_eq]
    unfold Table.pick
    congr 1
    apply List.filter_congr
    intro l hl
    cases hg : m.group.contains l.name with
    | true =>
      have hall : Lang (ands ((t.pick m.group).map Level.classified)) w := incl_of_empty h1 w hw
      have hmem : l ∈ t.pick m.group := by
        unfold Table.pick; exact List.mem_filter.2 ⟨hl, hg⟩
      exact (classified_iff l w).1 ((Lang_ands _ w).1 hall _ (List.mem_map.2 ⟨l, hmem, rfl⟩))
    | false =>
      have hnone : ¬ Lang (RE.alts ((t.others m.group).map Level.classified)) w := disj_of_empty h2 w hw
      have hmem : l ∈ t.others m.group := by
        unfold Table.others; exact List.mem_filter.2 ⟨hl, by rw [hg]; rfl⟩
      cases hc : l.classifies w with
      | false => rfl
      | true =>
        exact absurd ((Lang_alts _ w).2 ⟨l.classified, List.mem_map.2 ⟨l, hmem, rfl⟩,
          (classified_iff l w).2 hc⟩) hnone

/-- a concrete prompt of a mode's grammar that the real tables do not handle as C05 demands
    (both hypotheses are closed Boolean facts, checked by kernel evaluation) refutes `ModeOK` -/
theorem refute (t : Table) (m : Mode) (w : Word) (hG : rmatch m.grammar w = true)
    (hbad : (detects t w && (classify t w == (t.pick m.group).map (·.name))) = false) :
    ¬ ModeOK t m := by
  intro hok
  obtain ⟨h1, h2⟩ := hok w ((rmatch_iff _ _).1 hG)
  rw [h1, h2] at hbad
  simp at hbad

theorem lang_eq_of_altNorm {a b : RE} (h : RE.beq (altNorm a) (altNorm b) = true) (w : Word) :
    Lang a w ↔ Lang b w := by
  have e := RE.beq_eq h
  have ha := Lang_mkAlt a .emp w
  have hb := Lang_mkAlt b .emp w
  unfold altNorm at e
  rw [e] at ha
  constructor
  · intro h1; rcases hb.1 (ha.2 (Or.inl h1)) with h2 | h2
    · exact h2
    · cases h2
  · intro h1; rcases ha.1 (hb.2 (Or.inl h1)) with h2 | h2
    · exact h2
    · cases h2

/-- `update_privilege_levels` hands the channel the alternation of the current table -/
theorem detect_join (t : Table) (h : RE.beq (altNorm t.detect) (altNorm t.join) = true) (w : Word) :
    detects t w = true ↔ ∃ l ∈ t.levels, Lang l.search w := by
  show rmatch t.detect w = true ↔ _
  rw [rmatch_iff, lang_eq_of_altNorm h w]
  unfold Table.join
  rw [Lang_alts]
  constructor
  · rintro ⟨r, hr, hl⟩
    obtain ⟨l, hl', e⟩ := List.mem_map.1 hr
    exact ⟨l, hl', e ▸ hl⟩
  · rintro ⟨l, hl', hl⟩
    exact ⟨l.search, List.mem_map.2 ⟨l, hl', rfl⟩, hl⟩

theorem forall_modes {P : Mode → Prop} (ms : List Mode) (h : ∀ i, i < ms.length → P (nthMode ms i)) :
    ∀ m ∈ ms, P m := by
  intro m hm
  have key : ∀ (l : List Mode) (m : Mode), m ∈ l → ∃ i, i < l.length ∧ nth l i = some m := by
    intro l
    induction l with
    | nil => intro m hm; cases hm
    | cons x xs ih =>
      intro m hm
      rcases List.mem_cons.1 hm with e | e
      · exact ⟨0, by simp, by rw [e]; rfl⟩
      · obtain ⟨i, hi, hn⟩ := ih m e
        exact ⟨i + 1, by simp; omega, hn⟩
  obtain ⟨i, hi, hn⟩ := key ms m hm
  have := h i hi
  unfold nthMode at this
  rw [hn] at this
  exact this

end Scrapli.PromptClass
