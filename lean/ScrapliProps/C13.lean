import ScrapliProps.C13Lemmas
import ScrapliProps.C13FaultLemmas
/-
  C13 — the device receives exactly the lines given, and failures stop the run.
  Property theorems only (definitions of the vocabulary and helper lemmas: C13Lemmas.lean).

  Quantifiers: EVERY environment `env` (device output function, device mode function, navigation function —
  nothing is assumed about any of them unless a hypothesis says so), every driver configuration `cfg`
  (return char, default markers, levels, abort plan), every starting state (belief, device mode, earlier log),
  every list of lines (any length, empty strings, any characters), every marker argument (None / str / list),
  both values of stop_on_failed and eager, every privilege_level.
-/
namespace Scrapli.Send
open Scrapli
variable {μ : Type}

/-- the device-side log restricted to user lines -/
def userLines (es : List (Entry μ)) : List Str := (es.filter (fun e => e.origin == .user)).map (·.line)

/-- the markers in effect for a NetworkDriver call: per-call string / list, else the driver's default -/
def markersInEffect (cfg : Cfg) : Fwc → List Str
  | .none => cfg.defaultMarkers
  | .str s => [s]
  | .list l => l

theorem userLines_append (a b : List (Entry μ)) : userLines (a ++ b) = userLines a ++ userLines b := by
  simp [userLines]

theorem userLines_nil : userLines ([] : List (Entry μ)) = [] := rfl

theorem userLines_none (a : List (Entry μ)) (h : ∀ e ∈ a, e.origin ≠ .user) : userLines a = [] := by
  unfold userLines
  rw [List.filter_eq_nil_iff.mpr (fun e he => by simpa using h e he)]
  rfl

theorem userLines_entries (env : Env μ) (ls : List Str) (m : μ) : userLines (entries env .user ls m) = ls := by
  unfold userLines
  rw [List.filter_eq_self.mpr (fun e he => by simp [entries_origin env .user ls m e he])]
  exact entries_lines ..

theorem sendConfigs_eq (env : Env μ) (cfg : Cfg) (fwc : Fwc) (stop : Bool) (priv : Str) (eager : Bool)
    (configs : List Str) (st : St μ) :
    sendConfigs env cfg fwc stop priv eager configs st =
      match (sendConfigsCore env cfg .user fwc stop priv eager configs st).err with
      | some _ => sendConfigsCore env cfg .user fwc stop priv eager configs st
      | none =>
        if (stop && multiFailed (sendConfigsCore env cfg .user fwc stop priv eager configs st).resps) = true then
          ⟨(abortConfig env cfg (sendConfigsCore env cfg .user fwc stop priv eager configs st).st).1,
           (sendConfigsCore env cfg .user fwc stop priv eager configs st).resps,
           (abortConfig env cfg (sendConfigsCore env cfg .user fwc stop priv eager configs st).st).2⟩
        else sendConfigsCore env cfg .user fwc stop priv eager configs st := rfl

/-- **C13 delivery (GenericDriver.send_commands)**: for every non-empty list, exactly the first `n` lines are
    written — each once, in order, each followed by exactly one return, nothing else — where `n` is the whole
    list, or with `stop_on_failed` ends at the first failed response. -/
theorem delivery_exact_generic (env : Env μ) (ret : Str) (fwc : Fwc) (stop eager : Bool) (commands : List Str)
    (st : St μ) (hne : commands ≠ []) :
    ∃ n, Delivered env ret .user fwc stop eager commands st (genericSendCommands env ret .user fwc stop eager commands st) n ∧
      (genericSendCommands env ret .user fwc stop eager commands st).st.log =
        st.log ++ entries env .user (commands.take n) st.mode ∧
      (genericSendCommands env ret .user fwc stop eager commands st).st.writes.flatten =
        st.writes.flatten ++ (commands.take n).flatMap (fun l => encode l ++ encode ret) := by
  obtain ⟨n, hd⟩ := generic_spec env ret .user fwc stop eager commands st hne
  refine ⟨n, hd, ?_, ?_⟩
  · rw [hd.state]; exact sendLines_log ..
  · rw [hd.state, sendLines_wire, wireOf_entries]

/-- **C13 delivery (send_configs)**: the new part of the device log is `navs ++ users ++ aborts` where `navs` are
    navigation entries only, `users` are exactly the first `n` given lines (each once, in order, all executed
    consecutively), `aborts` contains no user line; the wire carries each logged line followed by exactly one
    return and nothing else; `n` is the whole list unless `stop_on_failed` and the `n`-th response failed, and
    with `stop_on_failed` no response before the `n`-th failed.  When the call fails before sending (unknown
    level, generic mode, navigation error) no user line is written at all.
    Reading note: the origin tags are the model's own labels (the caller of `sendInput` supplies them), so the
    content is the POSITIONAL statement — new log = one block written by `acquire_priv` (`Env.nav` is arbitrary:
    "navigation" means whatever it writes; C03/C04), then the contiguous user prefix, then the abort step's lines —
    together with the wire equation.  The channel is total in this model: a timeout / connection loss while a
    line is being sent is outside this theorem (judged on the implementation only, see design/C13.md). -/
theorem delivery_exact (env : Env μ) (cfg : Cfg) (fwc : Fwc) (stop : Bool) (priv : Str) (eager : Bool)
    (configs : List Str) (st : St μ) (hne : configs ≠ []) :
    ∃ (navs aborts : List (Entry μ)) (m1 : μ) (n : Nat),
      Ext cfg.ret st (sendConfigs env cfg fwc stop priv eager configs st).st
        (navs ++ entries env .user (configs.take n) m1 ++ aborts) ∧
      (∀ e ∈ navs, e.origin = .nav) ∧ (∀ e ∈ aborts, e.origin ≠ .user) ∧
      userLines (navs ++ entries env .user (configs.take n) m1 ++ aborts) = configs.take n ∧
      (sendConfigs env cfg fwc stop priv eager configs st).resps =
        (sendConfigsCore env cfg .user fwc stop priv eager configs st).resps ∧
      ((sendConfigsCore env cfg .user fwc stop priv eager configs st).err ≠ none →
        n = 0 ∧ aborts = [] ∧ (sendConfigs env cfg fwc stop priv eager configs st).resps = [] ∧
        (sendConfigs env cfg fwc stop priv eager configs st).err ≠ none) ∧
      ((sendConfigsCore env cfg .user fwc stop priv eager configs st).err = none →
        1 ≤ n ∧ n ≤ configs.length ∧
        (sendConfigs env cfg fwc stop priv eager configs st).resps.length = n ∧
        (sendConfigs env cfg fwc stop priv eager configs st).resps.map (·.input) = configs.take n ∧
        (n < configs.length → stop = true ∧
          ∃ x, (sendConfigs env cfg fwc stop priv eager configs st).resps.getLast? = some x ∧ x.failed = true) ∧
        (stop = true → ∀ x ∈ (sendConfigs env cfg fwc stop priv eager configs st).resps.dropLast, x.failed = false) ∧
        (aborts ≠ [] → stop = true ∧ multiFailed (sendConfigs env cfg fwc stop priv eager configs st).resps = true)) := by
  obtain ⟨navs, hnav, _, hcase⟩ := core_spec env cfg .user fwc stop priv eager configs st hne
  rw [sendConfigs_eq]
  rcases hcase with ⟨herr, hresps, hext⟩ | ⟨st1, n, hext1, _, _, hd⟩
  · -- failed before sending anything
    cases he : (sendConfigsCore env cfg .user fwc stop priv eager configs st).err with
    | none => exact absurd he herr
    | some e =>
      refine ⟨navs, [], st.mode, 0, ?_, hnav, by simp, ?_, rfl, ?_, ?_⟩
      · simpa [entries] using hext
      · rw [List.take_zero]
        simp only [entries, List.append_nil, userLines_none navs (fun e he => by rw [hnav e he]; simp)]
      · intro _; exact ⟨rfl, rfl, hresps, herr⟩
      · intro h; simp at h
  · have hcore : (sendConfigsCore env cfg .user fwc stop priv eager configs st).err = none := hd.err
    have hext2 : Ext cfg.ret st (sendConfigsCore env cfg .user fwc stop priv eager configs st).st
        (navs ++ entries env .user (configs.take n) st1.mode) := by
      rw [hd.state]; exact hext1.trans (Ext.sendLines ..)
    have hnavs : userLines navs = [] := userLines_none navs (fun e he => by rw [hnav e he]; simp)
    simp only [hcore]
    by_cases hab : (stop && multiFailed (sendConfigsCore env cfg .user fwc stop priv eager configs st).resps) = true
    · rw [if_pos hab]
      obtain ⟨es, hes, hnu⟩ := abortConfig_spec env cfg (sendConfigsCore env cfg .user fwc stop priv eager configs st).st
      refine ⟨navs, es, st1.mode, n, hext2.trans hes, hnav, hnu, ?_, rfl, fun h => absurd rfl h, fun _ => ?_⟩
      · simp only [userLines_append, hnavs, userLines_none es hnu, userLines_entries, List.nil_append, List.append_nil]
      · have h2 := Bool.and_eq_true_iff.mp hab
        exact ⟨hd.pos, hd.le, hd.count, hd.inputs, hd.short, hd.clean, fun _ => ⟨h2.1, h2.2⟩⟩
    · rw [if_neg hab]
      refine ⟨navs, [], st1.mode, n, by simpa using hext2, hnav, by simp, ?_, rfl, fun h => absurd rfl h, fun _ => ?_⟩
      · simp only [List.append_nil, userLines_append, hnavs, userLines_entries, List.nil_append]
      · exact ⟨hd.pos, hd.le, hd.count, hd.inputs, hd.short, hd.clean, fun h => absurd rfl h⟩

theorem sendCommands_err (env : Env μ) (cfg : Cfg) (fwc : Fwc) (stop eager : Bool) (commands : List Str) (st : St μ)
    (e : Err) (he : (acquireAppropriate env cfg st).2 = some e) :
    sendCommands env cfg fwc stop eager commands st = ⟨(acquireAppropriate env cfg st).1, [], some e⟩ := by
  unfold sendCommands; simp only [he]

theorem sendCommands_ok (env : Env μ) (cfg : Cfg) (fwc : Fwc) (stop eager : Bool) (commands : List Str) (st : St μ)
    (he : (acquireAppropriate env cfg st).2 = none) :
    sendCommands env cfg fwc stop eager commands st =
      genericSendCommands env cfg.ret .user (netFwc cfg.defaultMarkers fwc) stop eager commands (acquireAppropriate env cfg st).1 := by
  unfold sendCommands; simp only [he]

/-- **C13 delivery (NetworkDriver.send_commands)**: the same statement for commands — navigation to the default
    level first (nothing when already there), then exactly the prefix; there is no abort step. -/
theorem delivery_exact_commands (env : Env μ) (cfg : Cfg) (fwc : Fwc) (stop eager : Bool) (commands : List Str)
    (st : St μ) (hne : commands ≠ []) :
    ∃ (navs : List (Entry μ)) (m1 : μ) (n : Nat),
      Ext cfg.ret st (sendCommands env cfg fwc stop eager commands st).st (navs ++ entries env .user (commands.take n) m1) ∧
      (∀ e ∈ navs, e.origin = .nav) ∧
      userLines (navs ++ entries env .user (commands.take n) m1) = commands.take n ∧
      ((sendCommands env cfg fwc stop eager commands st).err ≠ none →
        n = 0 ∧ (sendCommands env cfg fwc stop eager commands st).resps = []) ∧
      ((sendCommands env cfg fwc stop eager commands st).err = none →
        1 ≤ n ∧ n ≤ commands.length ∧ (sendCommands env cfg fwc stop eager commands st).resps.length = n ∧
        (sendCommands env cfg fwc stop eager commands st).resps.map (·.input) = commands.take n ∧
        (n < commands.length → stop = true ∧
          ∃ x, (sendCommands env cfg fwc stop eager commands st).resps.getLast? = some x ∧ x.failed = true) ∧
        (stop = true → ∀ x ∈ (sendCommands env cfg fwc stop eager commands st).resps.dropLast, x.failed = false)) := by
  have hacq : ∃ navs, Ext cfg.ret st (acquireAppropriate env cfg st).1 navs ∧ (∀ e ∈ navs, e.origin = .nav) := by
    unfold acquireAppropriate
    split
    · exact ⟨[], Ext.refl .., by simp⟩
    · obtain ⟨navs, h1, h2, _⟩ := acquireIfNeeded_spec env cfg cfg.defaultPriv st
      exact ⟨navs, h1, h2⟩
  obtain ⟨navs, hext, hnav⟩ := hacq
  have hnavs : userLines navs = [] := userLines_none navs (fun e he => by rw [hnav e he]; simp)
  cases he : (acquireAppropriate env cfg st).2 with
  | some e =>
    rw [sendCommands_err env cfg fwc stop eager commands st e he]
    refine ⟨navs, st.mode, 0, by simpa [entries] using hext, hnav, ?_, fun _ => ⟨rfl, rfl⟩, fun h => by simp at h⟩
    rw [List.take_zero]; simp only [entries, List.append_nil, hnavs]
  | none =>
    rw [sendCommands_ok env cfg fwc stop eager commands st he]
    obtain ⟨n, hd⟩ := generic_spec env cfg.ret .user (netFwc cfg.defaultMarkers fwc) stop eager commands
      (acquireAppropriate env cfg st).1 hne
    refine ⟨navs, (acquireAppropriate env cfg st).1.mode, n, ?_, hnav, ?_, fun h => absurd hd.err h, fun _ =>
      ⟨hd.pos, hd.le, hd.count, hd.inputs, hd.short, hd.clean⟩⟩
    · rw [hd.state]; exact hext.trans (Ext.sendLines ..)
    · simp only [userLines_append, hnavs, userLines_entries, List.nil_append]

/-- **C13 delivery (send_command, a single line)**: navigation to the default level (nothing when already
    there), then exactly the one line followed by one return; one response whose flag is set exactly when its
    result contains a marker in effect.  When navigation fails nothing of the command is written. -/
theorem delivery_exact_command (env : Env μ) (cfg : Cfg) (fwc : Fwc) (command : Str) (st : St μ) :
    ∃ (navs : List (Entry μ)) (m1 : μ), (∀ e ∈ navs, e.origin = .nav) ∧
      ((sendCommand env cfg fwc command st).err ≠ none →
        Ext cfg.ret st (sendCommand env cfg fwc command st).st navs ∧ (sendCommand env cfg fwc command st).resps = []) ∧
      ((sendCommand env cfg fwc command st).err = none →
        Ext cfg.ret st (sendCommand env cfg fwc command st).st (navs ++ [⟨.user, m1, command⟩]) ∧
        (sendCommand env cfg fwc command st).st.writes.flatten =
          st.writes.flatten ++ wireOf cfg.ret navs ++ (encode command ++ encode cfg.ret) ∧
        ∃ r, (sendCommand env cfg fwc command st).resps = [r] ∧ r.input = command ∧
          (r.failed = true ↔ ∃ m ∈ markersInEffect cfg fwc, m <:+: r.result)) := by
  have hacq : ∃ navs, Ext cfg.ret st (acquireAppropriate env cfg st).1 navs ∧ (∀ e ∈ navs, e.origin = .nav) := by
    unfold acquireAppropriate
    split
    · exact ⟨[], Ext.refl .., by simp⟩
    · obtain ⟨navs, h1, h2, _⟩ := acquireIfNeeded_spec env cfg cfg.defaultPriv st
      exact ⟨navs, h1, h2⟩
  obtain ⟨navs, hext, hnav⟩ := hacq
  refine ⟨navs, (acquireAppropriate env cfg st).1.mode, hnav, ?_, ?_⟩
  · intro herr
    unfold sendCommand at herr ⊢
    cases he : (acquireAppropriate env cfg st).2 with
    | some e => simp only [he]; exact ⟨hext, trivial⟩
    | none => simp [he] at herr
  · intro hok
    unfold sendCommand at hok ⊢
    cases he : (acquireAppropriate env cfg st).2 with
    | some e => simp [he] at hok
    | none =>
      simp only [he]
      have hone : Ext cfg.ret (acquireAppropriate env cfg st).1
          (sendCommand1 env cfg.ret .user (netFwc cfg.defaultMarkers fwc) Gen.Send.eagerDefault command
            (acquireAppropriate env cfg st).1).1 [⟨.user, (acquireAppropriate env cfg st).1.mode, command⟩] :=
        Ext.sendLines env cfg.ret .user [command] (acquireAppropriate env cfg st).1
      have hall := hext.trans hone
      refine ⟨hall, ?_, _, rfl, rfl, ?_⟩
      · rw [hall.2, wireOf_append]; simp [wireOf, List.append_assoc]
      · have hflag : (sendCommand1 env cfg.ret .user (netFwc cfg.defaultMarkers fwc) Gen.Send.eagerDefault command
            (acquireAppropriate env cfg st).1).2.failed = recordFailed (respMarkers (netFwc cfg.defaultMarkers fwc))
            (sendCommand1 env cfg.ret .user (netFwc cfg.defaultMarkers fwc) Gen.Send.eagerDefault command
              (acquireAppropriate env cfg st).1).2.result := rfl
        rw [hflag, recordFailed_iff]
        cases fwc <;> simp [respMarkers, netFwc, markersInEffect]

/-- `GenericDriver.send_commands_from_file` is `send_commands` of the file's `splitlines()` -/
theorem generic_from_file_eq (env : Env μ) (ret : Str) (fwc : Fwc) (stop eager : Bool) (text : Str) (st : St μ) :
    genericSendCommandsFromFile env ret fwc stop eager text st =
      genericSendCommands env ret .user fwc stop eager (splitlines text) st := by
  unfold genericSendCommandsFromFile; rw [fileLines_eq_splitlines]

/-- the closed form of `n`: with `stop_on_failed`, lines that leave the device mode alone and a non-eager
    run, the lines sent are literally "the prefix up to and including the first line whose output contains a
    marker", else the whole list -/
theorem delivery_prefix_closed_form (env : Env μ) (ret : Str) (fwc : Fwc) (stop : Bool) (commands : List Str) (st : St μ)
    (hne : commands ≠ []) (hneutral : ∀ l ∈ commands, env.next st.mode l = st.mode) :
    (genericSendCommands env ret .user fwc stop false commands st).st.log = st.log ++
      (if stop then takeThrough (fun l => recordFailed (respMarkers fwc) (decode (env.out st.mode l))) commands
       else commands).map (fun l => ⟨.user, st.mode, l⟩) := by
  obtain ⟨n, hd, hlog, _⟩ := delivery_exact_generic env ret fwc stop false commands st hne
  rw [hlog]
  have hsub : ∀ l ∈ commands.take n, env.next st.mode l = st.mode := fun l hl => hneutral l (List.mem_of_mem_take hl)
  rw [(entries_neutral env .user _ st.mode hsub).1]
  congr 2
  -- responses of mode-neutral lines are a map
  have hmap : ∀ ls : List Str, (∀ l ∈ ls, env.next st.mode l = st.mode) →
      respsOf env fwc false ls st.mode = ls.map (mkResp env fwc false st.mode) := by
    intro ls
    induction ls with
    | nil => intro _; rfl
    | cons l ls ih =>
      intro h
      simp only [respsOf, List.map_cons, h l (by simp)]
      rw [ih (fun x hx => h x (by simp [hx]))]
  have htt : ∀ ls : List Str, takeThrough (·.failed) (ls.map (mkResp env fwc false st.mode)) =
      (takeThrough (fun l => recordFailed (respMarkers fwc) (decode (env.out st.mode l))) ls).map
        (mkResp env fwc false st.mode) := by
    intro ls
    induction ls with
    | nil => rfl
    | cons l ls ih =>
      simp only [List.map_cons, takeThrough]
      have : (mkResp env fwc false st.mode l).failed = recordFailed (respMarkers fwc) (decode (env.out st.mode l)) := rfl
      rw [this]
      split <;> simp [ih]
  have hn := hd.n_eq
  have hdl : ∀ l ∈ commands.dropLast, env.next st.mode l = st.mode :=
    fun l hl => hneutral l (List.dropLast_subset _ hl)
  rw [hmap _ hdl] at hn
  cases stop with
  | false =>
    simp only [Bool.false_and, Bool.false_eq_true, if_false] at hn ⊢
    rw [hn, List.take_length]
  | true =>
    simp only [Bool.true_and, if_true] at hn ⊢
    rcases List.eq_nil_or_concat commands with h | ⟨init, last, h⟩
    · exact absurd h hne
    · rw [List.concat_eq_append] at h
      subst h
      rw [List.dropLast_concat] at hn
      rw [htt] at hn
      simp only [List.length_map] at hn
      -- takeThrough over init ++ [last]
      have happ : ∀ (p : Str → Bool) (xs : List Str) (y : Str), takeThrough p (xs ++ [y]) =
          if xs.any p then takeThrough p xs else xs ++ [y] := by
        intro p xs y
        induction xs with
        | nil => simp [takeThrough]
        | cons x xs ih =>
          simp only [List.cons_append, takeThrough, List.any_cons]
          by_cases hx : p x = true
          · simp [hx]
          · simp [hx, ih]; split <;> rfl
      rw [happ]
      have hany : ((init.map (mkResp env fwc false st.mode)).any (·.failed)) =
          init.any (fun l => recordFailed (respMarkers fwc) (decode (env.out st.mode l))) := by
        rw [List.any_map]; rfl
      rw [hany] at hn
      by_cases ha : init.any (fun l => recordFailed (respMarkers fwc) (decode (env.out st.mode l))) = true
      · rw [if_pos ha] at hn
        rw [if_pos ha, hn]
        have hle := takeThrough_length_le (fun l => recordFailed (respMarkers fwc) (decode (env.out st.mode l))) init
        rw [List.take_append_of_le_length hle]
        exact (takeThrough_eq_take _ _).symm
      · rw [if_neg ha] at hn
        rw [if_neg ha, hn, List.take_length]

/-- **failed ⇔ marker** at the level of `record_response`: None or an empty list never fails; otherwise the
    flag is set exactly when the decoded result contains one of the markers as a substring -/
theorem failed_iff_marker_record (fwc : Fwc) (res : Str) :
    recordFailed (respMarkers fwc) res = true ↔
      ∃ m ∈ (match fwc with | .none => [] | .str s => [s] | .list l => l), m <:+: res := by
  rw [recordFailed_iff]
  cases fwc <;> simp [respMarkers]

theorem generic_flags (env : Env μ) (ret : Str) (o : Origin) (fwc : Fwc) (stop eager : Bool) (commands : List Str) (st : St μ) :
    ∀ x ∈ (genericSendCommands env ret o fwc stop eager commands st).resps,
      x.failed = recordFailed (respMarkers fwc) x.result := by
  by_cases hne : commands = []
  · subst hne; simp [genericSendCommands, loop]
  · obtain ⟨n, hd⟩ := generic_spec env ret o fwc stop eager commands st hne
    exact fun x hx => (hd.flags x hx).2

theorem core_resps (env : Env μ) (cfg : Cfg) (o : Origin) (fwc : Fwc) (stop : Bool) (priv : Str) (eager : Bool)
    (configs : List Str) (st : St μ) :
    ∀ x ∈ (sendConfigsCore env cfg o fwc stop priv eager configs st).resps,
      x.failed = recordFailed (respMarkers (preConfigsFwc cfg.defaultMarkers fwc)) x.result := by
  by_cases hg : cfg.genericMode = true
  · simp [sendConfigsCore, hg]
  · have hg' : cfg.genericMode = false := by simpa using hg
    by_cases hv : (!priv.isEmpty && !hasLevel cfg priv) = true
    · simp only [sendConfigsCore, hg', hv, Bool.false_eq_true, if_false, if_true]; simp
    · have hv' : (!priv.isEmpty && !hasLevel cfg priv) = false := by simpa using hv
      rw [sendConfigsCore_eq env cfg o fwc stop priv eager configs st hg' hv']
      cases he : (acquireIfNeeded env cfg (configsTarget priv) st).2 with
      | some e => simp
      | none => exact generic_flags env cfg.ret o _ stop eager configs _

/-- **failed ⇔ marker (send_configs)**: every response of every call is marked failed exactly when its result
    contains one of the markers in effect (per-call string or list, else the driver's default list); an empty
    marker list never fails -/
theorem failed_iff_marker (env : Env μ) (cfg : Cfg) (fwc : Fwc) (stop : Bool) (priv : Str) (eager : Bool)
    (configs : List Str) (st : St μ) :
    ∀ x ∈ (sendConfigs env cfg fwc stop priv eager configs st).resps,
      (x.failed = true ↔ ∃ m ∈ markersInEffect cfg fwc, m <:+: x.result) := by
  intro x hx
  have hres : (sendConfigs env cfg fwc stop priv eager configs st).resps =
      (sendConfigsCore env cfg .user fwc stop priv eager configs st).resps := by
    rw [sendConfigs_eq]; split
    · rfl
    · split <;> rfl
  rw [hres] at hx
  rw [core_resps env cfg .user fwc stop priv eager configs st x hx, recordFailed_iff]
  cases fwc <;> simp [respMarkers, preConfigsFwc, markersInEffect]

/-- **failed ⇔ marker (send_commands)** -/
theorem failed_iff_marker_commands (env : Env μ) (cfg : Cfg) (fwc : Fwc) (stop eager : Bool) (commands : List Str)
    (st : St μ) :
    ∀ x ∈ (sendCommands env cfg fwc stop eager commands st).resps,
      (x.failed = true ↔ ∃ m ∈ markersInEffect cfg fwc, m <:+: x.result) := by
  intro x hx
  cases he : (acquireAppropriate env cfg st).2 with
  | some e => rw [sendCommands_err env cfg fwc stop eager commands st e he] at hx; simp at hx
  | none =>
    rw [sendCommands_ok env cfg fwc stop eager commands st he] at hx
    rw [generic_flags _ _ _ _ _ _ _ _ x hx, recordFailed_iff]
    cases fwc <;> simp [respMarkers, netFwc, markersInEffect]

/-- a GenericDriver call without markers never marks anything failed, whatever the device prints -/
theorem generic_none_never_failed (env : Env μ) (ret : Str) (stop eager : Bool) (commands : List Str) (st : St μ) :
    ∀ x ∈ (genericSendCommands env ret .user .none stop eager commands st).resps, x.failed = false := by
  intro x hx
  rw [generic_flags _ _ _ _ _ _ _ _ x hx]; rfl

/-- **MultiResponse.failed ⇔ any element failed**, and the merged response of `send_config` carries the same flag.
    (An unfolding of the model's definitions `multiFailed` / `mergeResps`; that these ARE `MultiResponse.failed`
    and `_post_send_config` is established by the differential run, not by this proof.) -/
theorem multi_failed_iff_any (rs : List Resp) (config : Str) :
    (multiFailed rs = true ↔ ∃ x ∈ rs, x.failed = true) ∧ (mergeResps config rs).failed = multiFailed rs := by
  simp [multiFailed, mergeResps]

/-- the abort step is taken exactly when `stop_on_failed` and some response failed -/
theorem abort_iff_stop_and_failed (env : Env μ) (cfg : Cfg) (fwc : Fwc) (stop : Bool) (priv : Str) (eager : Bool)
    (configs : List Str) (st : St μ)
    (h : (stop && multiFailed (sendConfigsCore env cfg .user fwc stop priv eager configs st).resps) = false) :
    sendConfigs env cfg fwc stop priv eager configs st = sendConfigsCore env cfg .user fwc stop priv eager configs st := by
  rw [sendConfigs_eq]; split
  · rfl
  · rw [if_neg (by simp [h])]

/-- **send_config = send_configs ∘ splitlines**: same device log, same wire, same belief, same responses; the
    merged result is the "\n"-join and the merged flag is MultiResponse.failed.  (True by unfolding `sendConfig`;
    the tie to the real `send_config` is the differential run incl. the twin `send_configs(splitlines(s))` run.
    The non-definitional content is in `send_config_of_joined`, `send_config_lines_clean`, `from_file_eq`.) -/
theorem send_config_eq_send_configs (env : Env μ) (cfg : Cfg) (fwc : Fwc) (stop : Bool) (priv : Str) (eager : Bool)
    (config : Str) (st : St μ) :
    (sendConfig env cfg fwc stop priv eager config st).1 = sendConfigs env cfg fwc stop priv eager (splitlines config) st ∧
    ((sendConfigs env cfg fwc stop priv eager (splitlines config) st).err = none →
      ∃ m, (sendConfig env cfg fwc stop priv eager config st).2 = some m ∧ m.input = config ∧
        m.result = joinNl ((sendConfigs env cfg fwc stop priv eager (splitlines config) st).resps.map (·.result)) ∧
        m.failed = multiFailed (sendConfigs env cfg fwc stop priv eager (splitlines config) st).resps) := by
  unfold sendConfig
  cases he : (sendConfigs env cfg fwc stop priv eager (splitlines config) st).err with
  | some e => simp [he]
  | none => simp [he, mergeResps, multiFailed]

/-- the lines `send_config` sends never contain a line boundary, whatever the string — so every one of them
    is executed as exactly one line by the device (see `wire_parses_back`) -/
theorem send_config_lines_clean (config : Str) : ∀ l ∈ splitlines config, ∀ c ∈ l, c ≠ '\n' ∧ c ≠ '\r' := by
  intro l hl c hc
  have h := splitlines_no_sep config l hl c hc
  constructor
  · intro h1; rw [h1, isSep_nl] at h; simp at h
  · intro h1; rw [h1, isSep_cr] at h; simp at h

/-- a multi-line `send_config` equals `send_configs` of its lines: joining boundary-free lines (the last one not
    empty) with "\n" and sending the string is the same run as sending the list -/
theorem send_config_of_joined (env : Env μ) (cfg : Cfg) (fwc : Fwc) (stop : Bool) (priv : Str) (eager : Bool)
    (ls : List Str) (st : St μ) (hclean : ∀ l ∈ ls, ∀ c ∈ l, isSep c = false)
    (hlast : ∀ l, ls.getLast? = some l → l ≠ []) (hne : ls ≠ []) :
    (sendConfig env cfg fwc stop priv eager (joinNl ls) st).1 = sendConfigs env cfg fwc stop priv eager ls st := by
  rw [(send_config_eq_send_configs ..).1, splitlines_joinNl ls hclean hlast hne]

/-- **from-file variants**: reading in text mode (universal newlines) and `splitlines` is just `splitlines` of
    the file's text; `send_configs_from_file` is `send_configs` of those lines and
    `send_commands_from_file` (which acquires the privilege level twice) is `send_commands` of them -/
theorem from_file_eq (env : Env μ) (cfg : Cfg) (fwc : Fwc) (stop : Bool) (priv : Str) (eager : Bool) (text : Str)
    (st : St μ) :
    fileLines text = splitlines text ∧
    sendConfigsFromFile env cfg fwc stop priv eager text st = sendConfigs env cfg fwc stop priv eager (splitlines text) st ∧
    sendCommandsFromFile env cfg fwc stop eager text st = sendCommands env cfg fwc stop eager (splitlines text) st := by
  refine ⟨fileLines_eq_splitlines text, by unfold sendConfigsFromFile; rw [fileLines_eq_splitlines], ?_⟩
  unfold sendCommandsFromFile
  rw [fileLines_eq_splitlines]
  cases he : (acquireAppropriate env cfg st).2 with
  | some e => simp [sendCommands, he]
  | none =>
    simp only
    -- the second acquire is a no-op: generic mode, or the belief already is the default level
    have hidem : acquireAppropriate env cfg (acquireAppropriate env cfg st).1 = ((acquireAppropriate env cfg st).1, none) := by
      unfold acquireAppropriate at he ⊢
      by_cases hg : cfg.genericMode = true
      · simp [hg]
      · simp only [hg, Bool.false_eq_true, if_false] at he ⊢
        obtain ⟨_, _, _, h3, _⟩ := acquireIfNeeded_spec env cfg cfg.defaultPriv st
        obtain ⟨_, _, _, _, h4⟩ := acquireIfNeeded_spec env cfg cfg.defaultPriv (acquireIfNeeded env cfg cfg.defaultPriv st).1
        exact (h4 (h3 he)).2
    have hfw : netFwc cfg.defaultMarkers (netFwc cfg.defaultMarkers fwc) = netFwc cfg.defaultMarkers fwc := by
      cases fwc <;> rfl
    have h2 : (acquireAppropriate env cfg (acquireAppropriate env cfg st).1).2 = none := by rw [hidem]
    rw [sendCommands_ok env cfg _ stop eager _ _ h2, sendCommands_ok env cfg fwc stop eager _ st he, hidem, hfw]
    simp only [he]

/-- **empty list**: `send_configs([])` / `send_commands([])` end in the raw IndexError (or an earlier scrapli
    error) and no user line is written — only navigation, if any -/
theorem empty_list_writes_no_user_line (env : Env μ) (cfg : Cfg) (fwc : Fwc) (stop : Bool) (priv : Str) (eager : Bool)
    (st : St μ) :
    (sendConfigs env cfg fwc stop priv eager [] st).err ≠ none ∧
    (sendConfigs env cfg fwc stop priv eager [] st).resps = [] ∧
    ∃ navs, Ext cfg.ret st (sendConfigs env cfg fwc stop priv eager [] st).st navs ∧ ∀ e ∈ navs, e.origin = .nav := by
  have hcore : (sendConfigsCore env cfg .user fwc stop priv eager [] st).err ≠ none ∧
      (sendConfigsCore env cfg .user fwc stop priv eager [] st).resps = [] ∧
      ∃ navs, Ext cfg.ret st (sendConfigsCore env cfg .user fwc stop priv eager [] st).st navs ∧ ∀ e ∈ navs, e.origin = .nav := by
    by_cases hg : cfg.genericMode = true
    · simp only [sendConfigsCore, hg, if_true]; exact ⟨by simp, by simp, [], Ext.refl .., by simp⟩
    · have hg' : cfg.genericMode = false := by simpa using hg
      by_cases hv : (!priv.isEmpty && !hasLevel cfg priv) = true
      · simp only [sendConfigsCore, hg', hv, Bool.false_eq_true, if_false, if_true]
        exact ⟨by simp, by simp, [], Ext.refl .., by simp⟩
      · have hv' : (!priv.isEmpty && !hasLevel cfg priv) = false := by simpa using hv
        rw [sendConfigsCore_eq env cfg .user fwc stop priv eager [] st hg' hv']
        obtain ⟨navs, h1, h2, _⟩ := acquireIfNeeded_spec env cfg (configsTarget priv) st
        cases he : (acquireIfNeeded env cfg (configsTarget priv) st).2 with
        | some e => exact ⟨by simp, by simp, navs, h1, h2⟩
        | none => exact ⟨by simp [genericSendCommands, loop], by simp [genericSendCommands, loop], navs,
            by simpa [genericSendCommands, loop] using h1, h2⟩
  have hsame : sendConfigs env cfg fwc stop priv eager [] st = sendConfigsCore env cfg .user fwc stop priv eager [] st := by
    rw [sendConfigs_eq]
    cases he : (sendConfigsCore env cfg .user fwc stop priv eager [] st).err with
    | none => exact absurd he hcore.1
    | some e => rfl
  rw [hsame]
  cases he : (sendConfigsCore env cfg .user fwc stop priv eager [] st).err with
  | none => exact absurd he hcore.1
  | some e => rw [he] at hcore; exact hcore

/-- **the wire parses back**: for the default return char (or `\r\n`) and lines without `\n` / `\r`, a device
    that executes a line on every 0x0A (the simulated device's line discipline) executes exactly the logged
    lines — so "each line is followed by exactly one return" on the wire is "each line is executed exactly
    once" on the device -/
theorem wire_parses_back (ret : Str) (hret : ret = Gen.Send.returnCharDefault ∨ ret = ['\r', '\n']) (es : List (Entry μ))
    (hclean : ∀ e ∈ es, ∀ c ∈ e.line, c ≠ '\n' ∧ c ≠ '\r') :
    devLines (wireOf ret es) = es.map (fun e => encode e.line) := by
  have hr : encode ret = [10] ∨ encode ret = [13, 10] := by
    rcases hret with h | h <;> subst h
    · left; decide
    · right; decide
  unfold devLines
  rw [devLines_wire ret hr es hclean []]
  simp

/-! ## abort / rollback inside the failing session -/

/-- **abort in the failing session** (any plan that acts in place): with `stop_on_failed` and a failed
    response, the device log is navigation, then the user prefix, then exactly the plan's abort lines and
    nothing between or after; the first abort line runs in the mode the device was left in by the last user
    line, and when neither the user lines nor the abort lines before the last change the mode, EVERY abort
    line is logged with the mode of the session in which the lines (and the failure) were executed. -/
theorem abort_in_failing_session (env : Env μ) (cfg : Cfg) (fwc : Fwc) (priv : Str) (eager : Bool)
    (configs : List Str) (st : St μ) (hne : configs ≠ [])
    (hkeep : keepsLevel cfg.abort (configsTarget priv) = true)
    (hlevel : hasLevel cfg (configsTarget priv) = true)
    (hcmds : ∀ cmds lvl b, cfg.abort = .viaSendConfigs cmds lvl b → cmds ≠ [])
    (hok : (sendConfigsCore env cfg .user fwc true priv eager configs st).err = none)
    (hfailed : multiFailed (sendConfigsCore env cfg .user fwc true priv eager configs st).resps = true) :
    ∃ (navs : List (Entry μ)) (m1 : μ) (n : Nat),
      (sendConfigs env cfg fwc true priv eager configs st).err = none ∧
      (∀ e ∈ navs, e.origin = .nav) ∧
      (sendConfigs env cfg fwc true priv eager configs st).st.log = st.log ++ navs ++ entries env .user (configs.take n) m1 ++
        entries env .abort (abortCmds cfg (configsTarget priv)) (finalMode env (configs.take n) m1) ∧
      ((∀ l ∈ configs, env.next m1 l = m1) →
       (∀ c ∈ (abortCmds cfg (configsTarget priv)).dropLast, env.next m1 c = m1) →
        (∀ e ∈ entries env .user (configs.take n) m1, e.mode = m1) ∧
        (∀ e ∈ entries env .abort (abortCmds cfg (configsTarget priv)) (finalMode env (configs.take n) m1), e.mode = m1)) := by
  obtain ⟨navs, hnav, _, hcase⟩ := core_spec env cfg .user fwc true priv eager configs st hne
  rcases hcase with ⟨herr, _, _⟩ | ⟨st1, n, hext1, hbel, _, hd⟩
  · exact absurd hok herr
  · have hg : cfg.genericMode = false := by
      cases hgm : cfg.genericMode with
      | false => rfl
      | true => simp [sendConfigsCore, hgm] at hok
    have hcorest : (sendConfigsCore env cfg .user fwc true priv eager configs st).st =
        sendLines env cfg.ret .user (configs.take n) st1 := hd.state
    have hb2 : (sendConfigsCore env cfg .user fwc true priv eager configs st).st.belief = configsTarget priv := by
      rw [hcorest, sendLines_belief, hbel]
    have hmode : (sendConfigsCore env cfg .user fwc true priv eager configs st).st.mode =
        finalMode env (configs.take n) st1.mode := by rw [hcorest, sendLines_mode]
    obtain ⟨haerr, haext⟩ := abortConfig_in_place env cfg (sendConfigsCore env cfg .user fwc true priv eager configs st).st
      (by rw [hb2]; exact hkeep) hg (by rw [hb2]; exact hlevel) hcmds
    rw [hb2, hmode] at haext
    refine ⟨navs, st1.mode, n, ?_, hnav, ?_, ?_⟩
    · rw [sendConfigs_eq]; simp only [hok, Bool.true_and, hfailed, if_true]; exact haerr
    · rw [sendConfigs_eq]; simp only [hok, Bool.true_and, hfailed, if_true]
      rw [haext.1, hcorest, sendLines_log, hext1.1]
    · intro hu ha
      have hsub : ∀ l ∈ configs.take n, env.next st1.mode l = st1.mode := fun l hl => hu l (List.mem_of_mem_take hl)
      have hne' := entries_neutral env .user (configs.take n) st1.mode hsub
      refine ⟨?_, ?_⟩
      · intro e he; rw [hne'.1] at he; obtain ⟨l, _, rfl⟩ := List.mem_map.mp he; rfl
      · rw [hne'.2]; exact entries_mode_const env .abort _ st1.mode ha

/-! ## the platforms' abort plans (GENERATED data) -/

def sAbort : Str := "abort".toList
def sPrivExec : Str := "privilege_exec".toList
def sessionMarker : Str := "config\\-s".toList
def junosConfigLevels : List Str :=
  ["configuration".toList, "configuration_exclusive".toList, "configuration_private".toList]

/-- the abort table of the unchanged tree as the property describes it: IOS-XE nothing; IOS-XR `abort`
    unconditionally; EOS / NX-OS `abort` guarded by the session marker; all leave the belief at privilege_exec;
    sync = asyncio -/
theorem abort_table : ∀ a : Bool,
    platformAbort .iosxe a = .nothing ∧
    platformAbort .iosxr a = .direct none [sAbort] sPrivExec ∧
    platformAbort .nxos a = .direct (some sessionMarker) [sAbort] sPrivExec ∧
    platformAbort .eos a = .direct (some sessionMarker) [sAbort] sPrivExec ∧
    platformAbort .junos a = platformAbort .junos false := by decide

/-- IOS-XR, EOS and NX-OS act in place at every level (no inner send_configs) -/
theorem keepsLevel_direct_platforms : ∀ (a : Bool) (belief : Str),
    keepsLevel (platformAbort .iosxr a) belief = true ∧ keepsLevel (platformAbort .nxos a) belief = true ∧
    keepsLevel (platformAbort .eos a) belief = true ∧ keepsLevel (platformAbort .iosxe a) belief = true := by
  intro a belief; cases a <;> exact ⟨rfl, rfl, rfl, rfl⟩

/-- EOS / NX-OS: every registered session level has the marker in its pattern (the literal part of the
    template contains it, whatever the escaped session name), none of the default levels has — so `abort` is
    issued exactly in configuration sessions -/
theorem session_guard : (∀ esc : Str, isInfix sessionMarker (Gen.Send.sessionPreEos ++ esc ++ Gen.Send.sessionPostEos) = true) ∧
    (∀ esc : Str, isInfix sessionMarker (Gen.Send.sessionPreNxos ++ esc ++ Gen.Send.sessionPostNxos) = true) ∧
    (∀ p ∈ Gen.Send.privsEos, isInfix sessionMarker p.2 = false) ∧
    (∀ p ∈ Gen.Send.privsNxos, isInfix sessionMarker p.2 = false) := by
  refine ⟨?_, ?_, by decide, by decide⟩
  · intro esc
    rw [isInfix_iff]
    have : sessionMarker <:+: Gen.Send.sessionPreEos := (isInfix_iff _ _).mp (by decide)
    exact List.IsInfix.trans this ⟨[], esc ++ Gen.Send.sessionPostEos, by simp⟩
  · intro esc
    rw [isInfix_iff]
    have : sessionMarker <:+: Gen.Send.sessionPreNxos := (isInfix_iff _ _).mp (by decide)
    exact List.IsInfix.trans this ⟨[], esc ++ Gen.Send.sessionPostNxos, by simp⟩

/-- the Junos plan of the tree passes the current level to the inner `send_configs` -/
def junosFixed : Bool :=
  junosConfigLevels.all (fun l => keepsLevel (platformAbort .junos false) l && keepsLevel (platformAbort .junos true) l)

/-- the pre-fix Junos plan: `self.send_configs(["rollback 0", "exit"])` without a level -/
def junosPlanPreFix : AbortPlan := .viaSendConfigs ["rollback 0".toList, "exit".toList] .default "exec".toList

/-- **Junos, on the tree being checked** (decided from the GENERATED plan): either the plan keeps every
    configuration level (fixed tree — then `abort_in_failing_session` applies to configuration,
    configuration_exclusive and configuration_private), or it is literally the pre-fix plan, for which the
    full statement is refuted below and which only keeps the shared `configuration` level. -/
theorem junos_plan_status :
    (junosFixed = true ∧ ∀ a : Bool, ∀ l ∈ junosConfigLevels, keepsLevel (platformAbort .junos a) l = true) ∨
    (junosFixed = false ∧ (∀ a : Bool, platformAbort .junos a = junosPlanPreFix) ∧
      keepsLevel junosPlanPreFix "configuration".toList = true) := by decide

/-- **Junos (tree with the fix 1a78f51)**: the generated plan of both stacks passes the current level to the
    inner `send_configs` at all three configuration levels.  (Stops proving if the tree falls back to the
    pre-fix plan; `junos_plan_status` above then still says which of the two plans the tree has.) -/
theorem junos_abort_keeps_level : ∀ a : Bool, ∀ l ∈ junosConfigLevels, keepsLevel (platformAbort .junos a) l = true := by
  decide

/-- **the platforms meet the hypothesis of `abort_in_failing_session`** (from the GENERATED plans): IOS-XE,
    IOS-XR, EOS and NX-OS at every level (incl. exclusive and every registered session); Junos at its three
    configuration levels (shared, exclusive, private) -/
theorem abort_plan_keeps_level (p : Platform) (a : Bool) (priv : Str)
    (h : p ≠ .junos ∨ configsTarget priv ∈ junosConfigLevels) :
    keepsLevel (platformAbort p a) (configsTarget priv) = true := by
  have hd := keepsLevel_direct_platforms a (configsTarget priv)
  cases p with
  | iosxe => exact hd.2.2.2
  | iosxr => exact hd.1
  | nxos => exact hd.2.1
  | eos => exact hd.2.2.1
  | junos =>
    rcases h with h | hl
    · exact absurd rfl h
    · exact junos_abort_keeps_level a _ hl

/-- every generated plan that goes through an inner `send_configs` sends a non-empty list (an empty one would
    end the abort in the raw IndexError) -/
def planCmdsNonempty : AbortPlan → Bool
  | .viaSendConfigs cmds _ _ => !cmds.isEmpty
  | _ => true

theorem platform_abort_cmds_nonempty : ∀ (p : Platform) (a : Bool), planCmdsNonempty (platformAbort p a) = true := by
  intro p a; cases p <;> cases a <;> decide

/-- **abort in the failing session, per platform** — `abort_in_failing_session` with every hypothesis about the
    plan discharged from the GENERATED table: for a driver whose `_abort_config` is the platform's
    (`cfg.abort = platformAbort p a`, sync or asyncio), at every level of IOS-XE / IOS-XR / EOS / NX-OS and at the
    three Junos configuration levels, only "the level exists", "the run got as far as sending" and "a response
    failed" remain. -/
theorem abort_in_failing_session_platform (p : Platform) (a : Bool) (env : Env μ) (cfg : Cfg) (fwc : Fwc) (priv : Str)
    (eager : Bool) (configs : List Str) (st : St μ) (hne : configs ≠ [])
    (hab : cfg.abort = platformAbort p a)
    (hp : p ≠ .junos ∨ configsTarget priv ∈ junosConfigLevels)
    (hlevel : hasLevel cfg (configsTarget priv) = true)
    (hok : (sendConfigsCore env cfg .user fwc true priv eager configs st).err = none)
    (hfailed : multiFailed (sendConfigsCore env cfg .user fwc true priv eager configs st).resps = true) :
    ∃ (navs : List (Entry μ)) (m1 : μ) (n : Nat),
      (sendConfigs env cfg fwc true priv eager configs st).err = none ∧
      (∀ e ∈ navs, e.origin = .nav) ∧
      (sendConfigs env cfg fwc true priv eager configs st).st.log = st.log ++ navs ++ entries env .user (configs.take n) m1 ++
        entries env .abort (abortCmds cfg (configsTarget priv)) (finalMode env (configs.take n) m1) ∧
      ((∀ l ∈ configs, env.next m1 l = m1) →
       (∀ c ∈ (abortCmds cfg (configsTarget priv)).dropLast, env.next m1 c = m1) →
        (∀ e ∈ entries env .user (configs.take n) m1, e.mode = m1) ∧
        (∀ e ∈ entries env .abort (abortCmds cfg (configsTarget priv)) (finalMode env (configs.take n) m1), e.mode = m1)) := by
  refine abort_in_failing_session env cfg fwc priv eager configs st hne ?_ hlevel ?_ hok hfailed
  · rw [hab]; exact abort_plan_keeps_level p a priv hp
  · intro cmds lvl b h
    have := platform_abort_cmds_nonempty p a
    rw [← hab, h] at this
    intro hnil; subst hnil; simp [planCmdsNonempty] at this

/-- EOS / NX-OS: the abort lines at a level are `["abort"]` exactly when the level's pattern contains the guard
    marker -/
theorem eos_nxos_abort_cmds (cfg : Cfg) (a : Bool) (belief : Str)
    (h : cfg.abort = platformAbort .eos a ∨ cfg.abort = platformAbort .nxos a) :
    abortCmds cfg belief = if isInfix sessionMarker (levelPattern cfg belief) = true then [sAbort] else [] := by
  have ht := abort_table a
  have : cfg.abort = .direct (some sessionMarker) [sAbort] sPrivExec := by
    rcases h with h | h
    · rw [h, ht.2.2.2.1]
    · rw [h, ht.2.2.1]
  unfold abortCmds; rw [this]; rfl

/-- **EOS / NX-OS abort exactly in registered sessions** (`session_guard` connected to `abortCmds`): a level whose
    pattern is the session template around any escaped name gets `abort`; a level that carries one of the
    platform's default patterns gets nothing -/
theorem eos_nxos_abort_iff_session (cfg : Cfg) (a : Bool) (belief : Str) :
    (cfg.abort = platformAbort .eos a →
      (∀ esc, levelPattern cfg belief = Gen.Send.sessionPreEos ++ esc ++ Gen.Send.sessionPostEos → abortCmds cfg belief = [sAbort]) ∧
      (∀ q ∈ Gen.Send.privsEos, levelPattern cfg belief = q.2 → abortCmds cfg belief = [])) ∧
    (cfg.abort = platformAbort .nxos a →
      (∀ esc, levelPattern cfg belief = Gen.Send.sessionPreNxos ++ esc ++ Gen.Send.sessionPostNxos → abortCmds cfg belief = [sAbort]) ∧
      (∀ q ∈ Gen.Send.privsNxos, levelPattern cfg belief = q.2 → abortCmds cfg belief = [])) := by
  obtain ⟨g1, g2, g3, g4⟩ := session_guard
  refine ⟨fun h => ⟨?_, ?_⟩, fun h => ⟨?_, ?_⟩⟩
  · intro esc hpat; rw [eos_nxos_abort_cmds cfg a belief (Or.inl h), hpat, g1 esc]; rfl
  · intro q hq hpat; rw [eos_nxos_abort_cmds cfg a belief (Or.inl h), hpat, g3 q hq]; rfl
  · intro esc hpat; rw [eos_nxos_abort_cmds cfg a belief (Or.inr h), hpat, g2 esc]; rfl
  · intro q hq hpat; rw [eos_nxos_abort_cmds cfg a belief (Or.inr h), hpat, g4 q hq]; rfl

/-- the plan of the proposed fix (`fixes/C13-junos-abort-level.patch`) keeps all three configuration levels,
    and any level that is not a configuration level falls back to the shared one as before -/
theorem junos_fixed_plan_keeps_level (cmds : List Str) (b : Str) :
    (∀ l ∈ junosConfigLevels, keepsLevel (.viaSendConfigs cmds (.currentIfPrefix "configuration".toList) b) l = true) ∧
    abortLevel "exec".toList (.currentIfPrefix "configuration".toList) = [] := by
  refine ⟨?_, by decide⟩
  intro l hl
  simp only [junosConfigLevels, List.mem_cons, List.not_mem_nil, or_false] at hl
  rcases hl with h | h | h <;> subst h <;> rfl

/-! ## the pre-fix Junos witness: rollback in the shared session -/

/-- a Junos-like device: `configure exclusive` / `configure` / `exit configuration-mode` move between modes -/
def jxEnv : Env Str where
  out := fun _ l => if l == "bad".toList then encode "syntax error.".toList else []
  next := fun m l =>
    if m == "exec".toList && l == "configure exclusive".toList then "configuration_exclusive".toList
    else if m == "exec".toList && l == "configure".toList then "configuration".toList
    else if l == "exit configuration-mode".toList || l == "exit".toList then "exec".toList
    else m
  nav := fun tgt _ m =>
    if tgt == "configuration_exclusive".toList && m == "exec".toList then ([[], "configure exclusive".toList, []], true)
    else if tgt == "configuration".toList && m == "configuration_exclusive".toList then
      ([[], "exit configuration-mode".toList, [], "configure".toList, []], true)
    else ([], true)

def jxCfg (plan : AbortPlan) : Cfg :=
  { ret := Gen.Send.returnCharDefault, defaultMarkers := Gen.Send.fwcJunos, defaultPriv := "exec".toList,
    levels := [("exec".toList, []), ("configuration".toList, []), ("configuration_exclusive".toList, []),
               ("configuration_private".toList, [])],
    abort := plan }

def jxRun (plan : AbortPlan) : Res Str :=
  sendConfigs jxEnv (jxCfg plan) .none true "configuration_exclusive".toList false
    ["set a".toList, "bad".toList, "set c".toList] { belief := "exec".toList, mode := "exec".toList }

/-- modes in which the abort-origin lines were executed -/
def abortModes (r : Res Str) : List Str := (r.st.log.filter (fun e => e.origin == .abort)).map (·.mode)

/-- **refuted without the fix** (kept as the regression lemma): with the pre-fix plan the rollback lines run in the SHARED configuration
    session although the failing lines ran in the exclusive one (and the driver navigated in between) -/
theorem abort_in_failing_session_prefix_refuted :
    ¬ (∀ (env : Env Str) (cfg : Cfg) (fwc : Fwc) (priv : Str) (configs : List Str) (st : St Str),
        cfg.abort = junosPlanPreFix → configs ≠ [] →
        ∀ e ∈ (sendConfigs env cfg fwc true priv false configs st).st.log, e.origin = .abort →
          ∀ u ∈ (sendConfigs env cfg fwc true priv false configs st).st.log, u.origin = .user → e.mode = u.mode) := by
  intro h
  have := h jxEnv (jxCfg junosPlanPreFix) .none "configuration_exclusive".toList
    ["set a".toList, "bad".toList, "set c".toList] { belief := "exec".toList, mode := "exec".toList } rfl (by simp)
    ⟨.abort, "configuration".toList, "rollback 0".toList⟩ (by decide) rfl
    ⟨.user, "configuration_exclusive".toList, "bad".toList⟩ (by decide) rfl
  exact absurd this (by decide)

/-- the same run with the fixed plan: `set c` is withheld, and both rollback lines run in the exclusive session -/
theorem junos_witness_fixed :
    userLines (jxRun (.viaSendConfigs ["rollback 0".toList, "exit".toList] (.currentIfPrefix "configuration".toList) "exec".toList)).st.log
      = ["set a".toList, "bad".toList] ∧
    abortModes (jxRun (.viaSendConfigs ["rollback 0".toList, "exit".toList] (.currentIfPrefix "configuration".toList) "exec".toList))
      = ["configuration_exclusive".toList, "configuration_exclusive".toList] ∧
    abortModes (jxRun junosPlanPreFix) = ["configuration".toList, "configuration".toList] := by decide

/-! ## generated defaults and tables the statements above rest on -/

/-- public defaults: `stop_on_failed=False`, `eager=False`, `eager_input=False`, `failed_when_contains=None`,
    `privilege_level=""` resolving to "configuration", return char "\n" -/
theorem public_defaults : Gen.Send.stopOnFailedDefault = false ∧ Gen.Send.eagerDefault = false ∧
    Gen.Send.eagerInputDefault = false ∧ Gen.Send.fwcDefaultIsNone = true ∧ Gen.Send.privilegeLevelDefault = [] ∧
    Gen.Send.configsDefaultLevel = "configuration".toList ∧ Gen.Send.returnCharDefault = ['\n'] := by decide

/-- the control-structure shapes the model was written from were found on the tree (the translator raises
    otherwise; see tools/gen/c13.py `control_shapes`): for / break / else loop, abort step, `_pre_send_configs`
    order, write-then-return, acquire-first wrappers, splitlines in the file and send_config paths -/
theorem control_shapes_present : Gen.Send.controlShapes.all id = true ∧ Gen.Send.controlShapes.length = 11 := by decide

/-- with the public defaults the whole list is always delivered -/
theorem delivery_default_whole_list (env : Env μ) (ret : Str) (fwc : Fwc) (commands : List Str) (st : St μ)
    (hne : commands ≠ []) :
    (genericSendCommands env ret .user fwc Gen.Send.stopOnFailedDefault Gen.Send.eagerDefault commands st).st.log =
      st.log ++ entries env .user commands st.mode := by
  obtain ⟨n, hd, hlog, _⟩ := delivery_exact_generic env ret fwc Gen.Send.stopOnFailedDefault Gen.Send.eagerDefault commands st hne
  have hn : n = commands.length := by
    rcases Nat.lt_or_ge n commands.length with hlt | hge
    · have := (hd.short hlt).1; simp [public_defaults.1] at this
    · exact Nat.le_antisymm hd.le hge
  rw [hlog, hn, List.take_length]

/-- every default marker list is non-empty and contains no empty marker (an empty marker would mark every
    response failed), for all five platforms -/
theorem default_markers_sane : ∀ p : Platform, platformMarkers p ≠ [] ∧ ∀ m ∈ platformMarkers p, m ≠ [] := by
  intro p; cases p <;> decide

/-- the separator set regenerated from CPython is the documented one -/
theorem line_separators : Gen.Send.lineSeps = ['\n', Char.ofNat 0x0b, Char.ofNat 0x0c, '\r', Char.ofNat 0x1c,
    Char.ofNat 0x1d, Char.ofNat 0x1e, Char.ofNat 0x85, Char.ofNat 0x2028, Char.ofNat 0x2029] := by decide

/-! ## non-vacuity -/

/-- `delivery_exact` / `abort_in_failing_session`: a concrete IOS-XR-like run inside the quantifier — failing
    second line of three, stop_on_failed, exclusive level, navigation needed; hypotheses of the abort theorem met -/
def exCfg : Cfg :=
  { ret := Gen.Send.returnCharDefault, defaultMarkers := Gen.Send.fwcIosxr, defaultPriv := "privilege_exec".toList,
    levels := [("privilege_exec".toList, []), ("configuration".toList, []), ("configuration_exclusive".toList, [])],
    abort := platformAbort .iosxr false }

def exEnv : Env Str where
  out := fun _ l => if l == "bad".toList then encode "% Invalid input detected at '^' marker.".toList else []
  next := fun m l => if l == "configure exclusive".toList then "configuration_exclusive".toList
    else if l == "abort".toList then "privilege_exec".toList else m
  nav := fun _ _ _ => ([[], "configure exclusive".toList, []], true)

def exRun : Res Str := sendConfigs exEnv exCfg .none true "configuration_exclusive".toList false
  ["a".toList, [], "bad".toList, "c".toList] { belief := "privilege_exec".toList, mode := "privilege_exec".toList }

example : exRun.err = none ∧ userLines exRun.st.log = ["a".toList, [], "bad".toList] ∧
    exRun.resps.map (·.failed) = [false, false, true] ∧
    abortModes exRun = ["configuration_exclusive".toList] ∧ exRun.st.belief = "privilege_exec".toList ∧
    exRun.st.writes.flatten = encode "\nconfigure exclusive\n\na\n\nbad\nabort\n".toList ∧
    keepsLevel exCfg.abort (configsTarget "configuration_exclusive".toList) = true ∧
    hasLevel exCfg (configsTarget "configuration_exclusive".toList) = true := by decide

/-- `send_config_eq_send_configs` / `from_file_eq`: separators of every kind, `\r\n`, empty lines, trailing blank -/
example : splitlines "a \r\n\nb c\x0bd\x1ce\x85f\r".toList =
    ["a ".toList, [], "b".toList, "c".toList, "d".toList, "e".toList, "f".toList] ∧
    fileLines "x\r\ny\rz\n".toList = ["x".toList, "y".toList, "z".toList] ∧
    splitlines [] = [] ∧ splitlines "\n".toList = [[]] := by decide

/-- `failed_iff_marker_record`: string marker, list, empty list, None, empty marker -/
example : recordFailed (respMarkers (.str "% Inv".toList)) "x % Invalid".toList = true ∧
    recordFailed (respMarkers (.list [])) "% Invalid".toList = false ∧
    recordFailed (respMarkers .none) "% Invalid".toList = false ∧
    recordFailed (respMarkers (.list ["zz".toList, "lid".toList])) "% Invalid".toList = true ∧
    recordFailed (respMarkers (.str [])) [] = true := by decide

/-- `wire_parses_back`: hypotheses met by a UTF-8 line and an empty line -/
example : devLines (wireOf Gen.Send.returnCharDefault
    [(⟨.user, (), "é a".toList⟩ : Entry Unit), ⟨.nav, (), []⟩]) = [encode "é a".toList, []] := by decide

/-! ## the failing channel (ScrapliModel/SendFault.lean)

  One `send_input` call of a user line (or of an abort line) raises ScrapliTimeout / ScrapliConnectionError at one of
  four points (`Point`).  `k` = how many such calls succeed before it (`FSt.fuel`).  For EVERY environment,
  configuration, list, `k`, point and exception class. -/

/-- **GenericDriver.send_commands over a failing channel.**  With `n` the number of lines the fault-free run sends
    (`Delivered`): a failure at call `k < n` surfaces as exactly the channel's exception class; the device log is the
    old log, the first `k` lines (each once, in order) and — only when the failure came after the return — line `k`;
    the wire is each of those lines + one return followed by what the failing call had written (nothing / the line /
    the line and one return): nothing is written after the failed line.  A failure scheduled at `k ≥ n` is never
    reached: the run is the fault-free run. -/
theorem fault_delivery_exact_generic (env : Env μ) (ret : Str) (flt : Fault) (o : Origin) (fwc : Fwc) (stop eager : Bool)
    (commands : List Str) (st : St μ) (hne : commands ≠ []) :
    ∃ n, Delivered env ret o fwc stop eager commands st (genericSendCommands env ret o fwc stop eager commands st) n ∧
      (∀ k, k < n → ∃ fs, genericSendCommandsF env ret flt o fwc stop eager commands ⟨st, k⟩ = .fault flt.kind fs ∧
        fs.st.log = st.log ++ entries env o (commands.take k) st.mode ++
          partialEntries o flt.point (finalMode env (commands.take k) st.mode) (commands.getD k []) ∧
        fs.st.writes.flatten = st.writes.flatten ++ wireOf ret (entries env o (commands.take k) st.mode) ++
          partialWire ret flt.point (commands.getD k []) ∧
        fs.st.belief = st.belief) ∧
      (∀ k, n ≤ k → genericSendCommandsF env ret flt o fwc stop eager commands ⟨st, k⟩ =
        .ok ((genericSendCommands env ret o fwc stop eager commands st).resps,
             (genericSendCommands env ret o fwc stop eager commands st).err)
          ⟨(genericSendCommands env ret o fwc stop eager commands st).st, k - n⟩) := by
  obtain ⟨n, hd⟩ := generic_spec env ret o fwc stop eager commands st hne
  have hc := genericCount_eq_n env ret o fwc stop eager commands st _ n hd
  refine ⟨n, hd, ?_, ?_⟩
  · intro k hk
    refine ⟨⟨faultState env ret o flt.point commands k st, 0⟩, ?_, faultState_obs env ret o flt.point commands k st⟩
    rw [genericF_eq, hc, if_pos hk]
  · intro k hk
    rw [genericF_eq, hc, if_neg (by omega)]

/-- **send_configs over a failing channel** (prechecks pass, navigation succeeds — otherwise no line is sent at all,
    `delivery_exact`).  A failure while line `k < n` is being sent: the caller gets the channel's exception class; the
    device log is navigation, then the first `k` lines each once in order, then line `k` only if the failure came after
    its return; the wire ends with what the failing call had written; **no abort line, no later line, no extra
    return** (also with stop_on_failed and also when an earlier line had failed — `_abort_config` is not reached);
    the driver still believes it is at the configuration level it had acquired. -/
theorem fault_delivery_exact (env : Env μ) (cfg : Cfg) (flt : Fault) (fwc : Fwc) (stop : Bool) (priv : Str) (eager : Bool)
    (configs : List Str) (st : St μ) (hne : configs ≠ []) (hg : cfg.genericMode = false)
    (hv : (!priv.isEmpty && !hasLevel cfg priv) = false)
    (hacq : (acquireIfNeeded env cfg (configsTarget priv) st).2 = none) :
    ∃ (navs : List (Entry μ)) (st1 : St μ) (n : Nat),
      Ext cfg.ret st st1 navs ∧ (∀ e ∈ navs, e.origin = .nav) ∧ st1.belief = configsTarget priv ∧
      Delivered env cfg.ret .user (preConfigsFwc cfg.defaultMarkers fwc) stop eager configs st1
        (sendConfigsCore env cfg .user fwc stop priv eager configs st) n ∧
      ∀ k, k < n → ∃ fs news, sendConfigsF env cfg flt fwc stop priv eager configs ⟨st, k⟩ = .fault flt.kind fs ∧
        news = navs ++ entries env .user (configs.take k) st1.mode ++
          partialEntries .user flt.point (finalMode env (configs.take k) st1.mode) (configs.getD k []) ∧
        fs.st.log = st.log ++ news ∧
        fs.st.writes.flatten = st.writes.flatten ++ wireOf cfg.ret navs ++
          wireOf cfg.ret (entries env .user (configs.take k) st1.mode) ++ partialWire cfg.ret flt.point (configs.getD k []) ∧
        (∀ e ∈ news, e.origin ≠ .abort) ∧ userLines (navs ++ entries env .user (configs.take k) st1.mode) = configs.take k ∧
        fs.st.belief = configsTarget priv := by
  obtain ⟨navs, h1, h2, h3, _⟩ := acquireIfNeeded_spec env cfg (configsTarget priv) st
  obtain ⟨n, hd⟩ := generic_spec env cfg.ret .user (preConfigsFwc cfg.defaultMarkers fwc) stop eager configs
    (acquireIfNeeded env cfg (configsTarget priv) st).1 hne
  have hcore := sendConfigsCore_eq env cfg .user fwc stop priv eager configs st hg hv
  rw [hacq] at hcore
  have hcount : coreCount env cfg fwc stop priv eager configs st = n := by
    unfold coreCount
    simp only [hg, hv, hacq, Bool.false_eq_true, if_false]
    exact genericCount_eq_n env cfg.ret .user _ stop eager configs _ _ n hd
  refine ⟨navs, (acquireIfNeeded env cfg (configsTarget priv) st).1, n, h1, h2, h3 hacq, by rw [hcore]; exact hd, ?_⟩
  intro k hk
  obtain ⟨hl, hw, hb⟩ := faultState_obs env cfg.ret .user flt.point configs k (acquireIfNeeded env cfg (configsTarget priv) st).1
  have hkl : k < configs.length := Nat.lt_of_lt_of_le hk hd.le
  refine ⟨⟨faultState env cfg.ret .user flt.point configs k (acquireIfNeeded env cfg (configsTarget priv) st).1, 0⟩, _, ?_,
    rfl, ?_, ?_, ?_, ?_, ?_⟩
  · rw [sendConfigsF_eq]; simp only [hcount, hk, if_true]
  · show (faultState ..).log = _
    rw [hl, h1.1]; simp [List.append_assoc]
  · show (faultState ..).writes.flatten = _
    rw [hw, h1.2]
  · intro e he
    rcases List.mem_append.mp he with h | h
    · rcases List.mem_append.mp h with h | h
      · rw [h2 e h]; simp
      · rw [entries_origin env .user _ _ e h]; simp
    · rw [partialEntries_origin _ _ _ _ e h]; simp
  · rw [userLines_append, userLines_none navs (fun e he => by rw [h2 e he]; simp)]
    unfold userLines
    rw [List.filter_eq_self.mpr (fun e he => by rw [entries_origin env .user _ _ e he]; rfl), entries_lines]
    rfl
  · show (faultState ..).belief = _
    rw [hb]; exact h3 hacq

/-- **send_commands (NetworkDriver) over a failing channel**: after the default-level navigation the run is the
    GenericDriver run — failure at line `k` of the `n` the fault-free run sends: same class, the first `k` lines once
    each in order, the partial line, nothing else. -/
theorem fault_delivery_exact_commands (env : Env μ) (cfg : Cfg) (flt : Fault) (fwc : Fwc) (stop eager : Bool)
    (commands : List Str) (st : St μ) (hne : commands ≠ []) (hacq : (acquireAppropriate env cfg st).2 = none) :
    ∃ n, Delivered env cfg.ret .user (netFwc cfg.defaultMarkers fwc) stop eager commands (acquireAppropriate env cfg st).1
        (sendCommands env cfg fwc stop eager commands st) n ∧
      ∀ k, k < n → ∃ fs, sendCommandsF env cfg flt fwc stop eager commands ⟨st, k⟩ = .fault flt.kind fs ∧
        fs.st.log = (acquireAppropriate env cfg st).1.log ++
          entries env .user (commands.take k) (acquireAppropriate env cfg st).1.mode ++
          partialEntries .user flt.point (finalMode env (commands.take k) (acquireAppropriate env cfg st).1.mode)
            (commands.getD k []) ∧
        fs.st.writes.flatten = (acquireAppropriate env cfg st).1.writes.flatten ++
          wireOf cfg.ret (entries env .user (commands.take k) (acquireAppropriate env cfg st).1.mode) ++
          partialWire cfg.ret flt.point (commands.getD k []) ∧
        fs.st.belief = (acquireAppropriate env cfg st).1.belief := by
  obtain ⟨n, hd, hf, _⟩ := fault_delivery_exact_generic env cfg.ret flt .user (netFwc cfg.defaultMarkers fwc) stop eager
    commands (acquireAppropriate env cfg st).1 hne
  refine ⟨n, ?_, ?_⟩
  · have : sendCommands env cfg fwc stop eager commands st =
        genericSendCommands env cfg.ret .user (netFwc cfg.defaultMarkers fwc) stop eager commands (acquireAppropriate env cfg st).1 := by
      simp only [sendCommands, hacq]
    rw [this]; exact hd
  · intro k hk
    have : sendCommandsF env cfg flt fwc stop eager commands ⟨st, k⟩ =
        genericSendCommandsF env cfg.ret flt .user (netFwc cfg.defaultMarkers fwc) stop eager commands
          ⟨(acquireAppropriate env cfg st).1, k⟩ := by
      simp only [sendCommandsF, hacq]
    rw [this]; exact hf k hk

/-- **a channel failure inside `_abort_config`** (the run had stopped on a failed line): the exception surfaces, the
    state is the fault-free state after the user lines plus the first `j` abort lines and the partial one — and the
    privilege level the plan would have set afterwards is NOT set. -/
theorem fault_in_abort (env : Env μ) (cfg : Cfg) (flt : Fault) (fwc : Fwc) (stop : Bool) (priv : Str) (eager : Bool)
    (configs : List Str) (st : St μ)
    (herr : (sendConfigsCore env cfg .user fwc stop priv eager configs st).err = none)
    (hs : (stop && multiFailed (sendConfigsCore env cfg .user fwc stop priv eager configs st).resps) = true)
    (j : Nat) (hj : j < abortCount env cfg (sendConfigsCore env cfg .user fwc stop priv eager configs st).st) :
    sendConfigsF env cfg flt fwc stop priv eager configs ⟨st, coreCount env cfg fwc stop priv eager configs st + j⟩ =
      .fault flt.kind ⟨abortFaultState env cfg flt.point j
        (sendConfigsCore env cfg .user fwc stop priv eager configs st).st, 0⟩ := by
  rw [sendConfigsF_eq]
  simp only [Nat.lt_irrefl, Nat.add_sub_cancel_left, herr, hs, hj, and_self, if_true,
    show ¬ (coreCount env cfg fwc stop priv eager configs st + j < coreCount env cfg fwc stop priv eager configs st) by omega,
    if_false]

/-- the direct abort plans (IOS-XR, EOS / NX-OS sessions): a failure at abort line `j` leaves the abort lines before it,
    each once, and the partial one; the belief is still the configuration level -/
theorem fault_in_abort_direct (env : Env μ) (cfg : Cfg) (pt : Point) (g : Option Str) (cmds : List Str) (b : Str)
    (hp : cfg.abort = .direct g cmds b) (j : Nat) (st : St μ) :
    (abortFaultState env cfg pt j st).log = st.log ++ entries env .abort (cmds.take j) st.mode ++
        partialEntries .abort pt (finalMode env (cmds.take j) st.mode) (cmds.getD j []) ∧
    (abortFaultState env cfg pt j st).writes.flatten = st.writes.flatten ++
        wireOf cfg.ret (entries env .abort (cmds.take j) st.mode) ++ partialWire cfg.ret pt (cmds.getD j []) ∧
    (abortFaultState env cfg pt j st).belief = st.belief := by
  unfold abortFaultState; rw [hp]; exact faultState_obs ..

/-- **a failure that is never reached changes nothing**: when the countdown outlasts every `send_input` call of the
    run (user lines and abort lines), the run over the failing channel IS the fault-free run of `delivery_exact` -/
theorem fault_free_agrees (env : Env μ) (cfg : Cfg) (flt : Fault) (fwc : Fwc) (stop : Bool) (priv : Str) (eager : Bool)
    (configs : List Str) (st : St μ) (k : Nat)
    (hk : coreCount env cfg fwc stop priv eager configs st +
      abortCount env cfg (sendConfigsCore env cfg .user fwc stop priv eager configs st).st ≤ k) :
    (sendConfigsF env cfg flt fwc stop priv eager configs ⟨st, k⟩).kind? = none ∧
    (sendConfigsF env cfg flt fwc stop priv eager configs ⟨st, k⟩).state =
      (sendConfigs env cfg fwc stop priv eager configs st).st := by
  rw [sendConfigsF_eq]
  have h1 : ¬ k < coreCount env cfg fwc stop priv eager configs st := by omega
  have h2 : ¬ k - coreCount env cfg fwc stop priv eager configs st <
      abortCount env cfg (sendConfigsCore env cfg .user fwc stop priv eager configs st).st := by omega
  simp only [h1, h2, if_false, and_false, FOut.kind?, FOut.state, and_self]

/-- `send_config` and the from-file variants over the failing channel are the list operations on `splitlines` of the
    text (as in `send_config_eq_send_configs` / `from_file_eq`): the three theorems above cover them -/
theorem fault_text_sources (env : Env μ) (cfg : Cfg) (flt : Fault) (fwc : Fwc) (stop : Bool) (priv : Str) (eager : Bool)
    (text : Str) (fs : FSt μ) :
    sendConfigF env cfg flt fwc stop priv eager text fs = sendConfigsF env cfg flt fwc stop priv eager (splitlines text) fs ∧
    sendConfigsFromFileF env cfg flt fwc stop priv eager text fs =
      sendConfigsF env cfg flt fwc stop priv eager (splitlines text) fs ∧
    genericSendCommandsFromFileF env cfg.ret flt fwc stop eager text fs =
      genericSendCommandsF env cfg.ret flt .user fwc stop eager (splitlines text) fs := by
  simp only [sendConfigF, sendConfigsFromFileF, genericSendCommandsFromFileF, fileLines_eq_splitlines, and_self]

/-- non-vacuity: the IOS-XR-like run of `exRun` (navigation needed, stop_on_failed, failing third line) with the
    channel failing — after line 1 was written (timeout), at line 2 after its return (connection error), and in
    the abort line itself; and a countdown that is never reached -/
example :
    (sendConfigsF exEnv exCfg ⟨.afterLine, .timeout⟩ .none true "configuration_exclusive".toList false
      ["a".toList, [], "bad".toList, "c".toList] ⟨{ belief := "privilege_exec".toList, mode := "privilege_exec".toList }, 1⟩).kind?
      = some .timeout ∧
    (sendConfigsF exEnv exCfg ⟨.afterReturn, .conn⟩ .none true "configuration_exclusive".toList false
      ["a".toList, [], "bad".toList, "c".toList] ⟨{ belief := "privilege_exec".toList, mode := "privilege_exec".toList }, 2⟩).state.writes.flatten
      = encode "\nconfigure exclusive\n\na\n\nbad\n".toList ∧
    (sendConfigsF exEnv exCfg ⟨.beforeWrite, .conn⟩ .none true "configuration_exclusive".toList false
      ["a".toList, [], "bad".toList, "c".toList] ⟨{ belief := "privilege_exec".toList, mode := "privilege_exec".toList }, 3⟩).state.belief
      = "configuration_exclusive".toList ∧
    (sendConfigsF exEnv exCfg ⟨.beforeWrite, .conn⟩ .none true "configuration_exclusive".toList false
      ["a".toList, [], "bad".toList, "c".toList] ⟨{ belief := "privilege_exec".toList, mode := "privilege_exec".toList }, 4⟩).kind?
      = none := by decide


end Scrapli.Send
