import ScrapliProps.C08Lemmas
/-
  C08 — losing the connection surfaces promptly as a scrapli error.
  Property theorems only (helper lemmas: C08Lemmas.lean; model: ScrapliModel/Loss.lean).

  Quantifiers: EVERY transport whose GENERATED error map is total (`mapTotal t`, a decided fact
  re-checked below against Gen/LossMaps.lean on every run), EVERY operation program (any sequence of
  writes, read loops and telnet-auth read loops), EVERY environment that proposes in-domain boundary
  outcomes, EVERY fault position (the configuration reached after any number `n` of transitions),
  EVERY operation timeout `T` (in ticks; every read that lets the timeout mechanism run costs ≥ 1).
-/
namespace Scrapli.Loss
open Scrapli.Gen.Loss

/-! ### generated, decided facts about the observed tables -/

/-- every transport the translator lists as total really has a total map -/
theorem totalTransports_total : ∀ t ∈ totalTransports, mapTotal t := by decide

/-- ... and every other transport has not: its obligation stays undischarged -/
theorem totalTransports_complete : ∀ t ∈ Transport.all, t ∉ totalTransports → mapTotalB t = false := by decide

theorem aliveTotalTransports_total : ∀ t ∈ aliveTotalTransports, aliveTotal t := by decide

theorem aliveTotalTransports_complete :
    ∀ t ∈ Transport.all, t ∉ aliveTotalTransports → aliveTotalB t = false := by decide

/-- each listed witness is an in-domain (method, outcome) whose observed act is not allowed -/
theorem freshWitnesses_bad :
    ∀ w ∈ freshWitnesses, domain w.1 w.2.1 w.2.2 = true ∧ freshOK w.1 .c0 w.2.1 w.2.2 = false := by decide

/-- **the domain hypothesis, made visible and closed**: the hand-written boundary domain restricts every
    theorem below (`domain t m o` guards `mapTotal`, `InDomain` restricts the environment).  What it
    defines away is exactly the generated list `assumedImpossible` — every out-of-domain row whose
    OBSERVED act is not allowed is in that list (or was never observed, `.na`); each list entry is
    justified by a rule of the reviewed file tools/gen/c08_impossible.json (the translator fails on an
    unjustified row). -/
theorem out_of_domain_bad_rows_listed : ∀ t ∈ Transport.all, ∀ m ∈ Method.all, ∀ o ∈ Outcome.all,
    (errMap t m o).ok = false → domain t m o = false →
      errMap t m o = .na ∨ (t, m, o) ∈ assumedImpossible := by decide

/-- the hand-written Lean predicates `neverData` / `setsLoss` equal the tables the translator emits from
    the Python twins the harness uses (one decided source of truth) -/
theorem loss_predicates_match : ∀ t ∈ Transport.all, ∀ o ∈ Outcome.all,
    neverData t o = tbl2 neverDataTbl false t.toNat o.toNat
      ∧ setsLoss t o = tbl2 setsLossTbl false t.toNat o.toNat := by decide

/-- with an empty control buffer the state-dependent table is the plain one (generated, decided) -/
theorem errMapC_c0 : ∀ t ∈ Transport.all, ∀ m ∈ Method.all, ∀ o ∈ Outcome.all,
    errMapC t .c0 m o = errMap t m o := by decide

/-- transports on which a lost session is reported PROMPTLY (decided on the generated tables): after a
    detectable loss at most one read returns without raising -/
def promptTransports : List Transport := Transport.all.filter promptTotalB

theorem promptTransports_prompt : ∀ t ∈ promptTransports, promptTotal t := by decide

/-- the simulated transport of the harness is total (its "eof" fault raises ScrapliConnectionError) -/
theorem sim_total : mapTotal .sim ∧ aliveTotal .sim := by decide

/-! ### the property -/

/-- the open stages (socket connect, ssh handshake, authentication, channel open) are not steps of the
    program semantics; for them the property is the table fact itself — made a theorem of its own so that
    it shows in the audited list: no in-domain outcome of an open stage lets a non-allowed act through. -/
theorem open_stage_never_raw (t : Transport) (ht : mapTotal t) (m : Method)
    (_hm : m = .open ∨ m = .openHs ∨ m = .openAuth ∨ m = .openChan) (o : Outcome)
    (hd : domain t m o = true) : (errMap t m o).ok = true := by
  have h := (good_of_total ht).fresh_ok .c0 m o hd
  rwa [errMapC_c0 t (Transport.mem_all t) m (Method.mem_all m) o (Outcome.mem_all o)] at h

/-- `close()` never lets a non-allowed act through: on a live session, with a Telnet command pending, and
    after every detectable loss. -/
theorem close_never_raw (t : Transport) (ht : mapTotal t) (c : Ctrl) (o : Outcome) (hd : domain t .close o = true) :
    (errMapC t c .close o).ok = true ∧
    ∀ lm lo, (lm = .read ∨ lm = .write) → domain t lm lo = true → setsLoss t lo = true →
      (after2 t c lm lo .close o).ok = true :=
  ⟨(good_of_total ht).fresh_ok c .close o hd,
   fun lm lo hlm hdl hsl => (good_of_total ht).post_close c lm lo o hlm hdl hsl hd⟩

/-- **safety for every environment** (also without any loss): an operation never lets a raw exception
    escape and never loops without the backstop being able to end it.
    HONEST LABEL: `ticks ≤ T` is NOT a result about scrapli — `step` refuses every read once `T` ticks are
    used, so the bound restates the modelling assumption "C07's timeout mechanism pre-empts any loop that
    gives it a chance to run".  The content of this theorem is (a) no raw class, ever, and (b) reads that
    give the timeout no chance to run (`retEmptyBusy`) happen at most once, so the backstop CAN end every
    loop.  `T` is a number of ticks; `T = 0` means "already expired" (the first read is refused), NOT
    scrapli's `timeout_ops = 0` (= disabled).  The disabled case is an arbitrarily large `T`; what holds
    without any backstop is `loss_is_prompt` below.  A read that simply blocks (half-open TCP without
    FIN/RST) is not an outcome here: that case is C07's (timeouts). -/
theorem no_raw_no_hang (t : Transport) (ht : mapTotal t) (env : Env) (hd : InDomain t env) (T : Nat)
    (p : Program) (st : TState) (hst : InvSt t st) :
    (run t env T p st).ticks ≤ T ∧
    ((run t env T p st).out = .done ∨ ∃ c, (run t env T p st).out = .raised c ∧ allowed c) := by
  have hg := good_of_total ht
  obtain ⟨_, h2, _, h4, h5, h6, _⟩ := exec_spec hg hd T (T + p.length + 2) ⟨p, st, 0, 0⟩ hst (Nat.zero_le _)
  refine ⟨h2, ?_⟩
  have hmu : Cfg.mu T ⟨p, st, 0, 0⟩ < T + p.length + 2 := by
    unfold Cfg.mu; simp only; split <;> omega
  unfold run
  cases ho : (exec t env T (T + p.length + 2) ⟨p, st, 0, 0⟩).out with
  | done => left; rfl
  | raised c => right; exact ⟨c, rfl, allowed_of_ne_other (h6 c ho)⟩
  | raisedRaw r => exact absurd ho (h5 r)
  | hang => exact absurd ho (h4 hmu)

/-- **C08, loss_is_scrapli_error**: for every operation program `p`, every fault position — the
    configuration `cf` reached after any number `n` of transitions, i.e. before any read and any
    write — if from the next boundary call on the session delivers nothing any more (EOF, reset, EIO,
    EPIPE, library error, timeouts, in any mixture the library can produce; writes may still be
    accepted silently) and the rest of the operation still contains a read, then the operation raises
    one of ScrapliConnectionError / ScrapliConnectionNotOpened / ScrapliAuthenticationFailed /
    ScrapliTimeout, no later than the operation timeout.
    HONEST LABEL: this theorem accepts "ScrapliTimeout after T" for every loss (a transport may keep
    returning b"" and rely on the backstop, as both Telnet transports once did) and its time bound is the
    modelled backstop; "promptly" in the strict sense is `loss_is_prompt`. -/
theorem loss_is_scrapli_error (t : Transport) (ht : mapTotal t) (env : Env) (hd : InDomain t env) (T : Nat)
    (p : Program) (st : TState) (hst : InvSt t st) (n : Nat) (cf : Cfg)
    (hreach : stepsTo t env T n ⟨p, st, 0, 0⟩ = .inl cf)
    (hloss : LossFrom t cf.calls env) (hread : hasRead cf.prog = true) :
    ∃ c, (run t env T p st).out = .raised c ∧ allowed c ∧ (run t env T p st).ticks ≤ T := by
  have hg := good_of_total ht
  obtain ⟨hi, htk, hmu⟩ := stepsTo_spec hg hd T n ⟨p, st, 0, 0⟩ cf hst (Nat.zero_le _) hreach
  have hmu0 : Cfg.mu T ⟨p, st, 0, 0⟩ ≤ T + p.length + 1 := by
    unfold Cfg.mu; simp only; split <;> omega
  obtain ⟨m, hm⟩ : ∃ m, T + p.length + 2 = n + m := ⟨T + p.length + 2 - n, by omega⟩
  have hrun : run t env T p st = exec t env T m cf := by
    unfold run; rw [hm, exec_add, hreach]
  obtain ⟨_, h2, _, h4, h5, h6, h7⟩ := exec_spec hg hd T m cf hi htk
  rw [hrun]
  cases ho : (exec t env T m cf).out with
  | done => exact absurd ho (h7 hloss hread)
  | raised c => exact ⟨c, rfl, allowed_of_ne_other (h6 c ho), h2⟩
  | raisedRaw r => exact absurd ho (h5 r)
  | hang => exact absurd ho (h4 (by omega))

/-- **C08, loss_is_prompt** (T-free: no backstop needed — also the `timeout_ops = 0` case): on a transport
    whose generated tables are prompt (`promptTotal t`, decided), an operation that is inside a plain read
    loop when the session dies raises an allowed scrapli class after AT MOST THREE further transport reads,
    whatever `T` is: a read that first detects the loss may return b"" once, one more may meet EOF on a
    session lost otherwise (`eofUpgrade`), the next one raises.  (The telnet login loop `ra` is excluded on
    purpose: it swallows the error and a silently accepted write lets it loop until the timeout.) -/
theorem loss_is_prompt (t : Transport) (ht : mapTotal t) (hp : promptTotal t) (env : Env) (hd : InDomain t env)
    (T : Nat) (cf : Cfg) (p : Program) (hprog : cf.prog = .r :: p) (hi : InvSt t cf.st)
    (hdead : DeadFrom t cf.calls env) (n : Nat) :
    ∃ c, (exec t env T (n + 3) cf).out = .raised c ∧ allowed c
      ∧ (exec t env T (n + 3) cf).calls ≤ cf.calls + 3 := by
  obtain ⟨c, h1, h2, h3⟩ := exec_prompt (good_of_total ht) hp hd T cf p hprog hi hdead n
  exact ⟨c, h1, allowed_of_ne_other h2, h3⟩

/-- **C08, dead_stays_dead**: after an operation was interrupted by the loss of the session,
    `isalive()` is False, and every further operation that reads raises an allowed scrapli error
    within its own timeout — for every later environment in which the session stays lost.
    HONEST LABEL: on paths that end by the backstop the model closes the transport
    (`Cfg.timedOut`, scrapli's default; with `Settings.NO_TERMINATE_ON_TIMEOUT` the transport stays open —
    C07 — and if the operation timed out before touching the dead session nothing was detected and
    `isalive()` may rightly still be True).  On every other path `isalive = False` comes from the recorded
    loss and `aliveTotal t`. -/
theorem dead_stays_dead (t : Transport) (ht : mapTotal t) (ha : aliveTotal t) (env : Env) (hd : InDomain t env)
    (T : Nat) (p : Program) (st : TState) (hst : InvSt t st) (n : Nat) (cf : Cfg)
    (hreach : stepsTo t env T n ⟨p, st, 0, 0⟩ = .inl cf)
    (hdead : DeadFrom t cf.calls env) (hread : hasRead cf.prog = true) :
    isaliveNow t (run t env T p st).st = .retFalse ∧
    ∀ (env2 : Env), InDomain t env2 → LossFrom t 0 env2 → ∀ (T2 : Nat) (p2 : Program), hasRead p2 = true →
      ∃ c, (run t env2 T2 p2 (run t env T p st).st).out = .raised c ∧ allowed c
        ∧ (run t env2 T2 p2 (run t env T p st).st).ticks ≤ T2 := by
  have hg := good_of_total ht
  have hloss : LossFrom t cf.calls env := fun i hi => neverData_of_setsLoss (hdead i hi).1
  obtain ⟨c, hc, _, _⟩ := loss_is_scrapli_error t ht env hd T p st hst n cf hreach hloss hread
  obtain ⟨hi, htk, hmu⟩ := stepsTo_spec hg hd T n ⟨p, st, 0, 0⟩ cf hst (Nat.zero_le _) hreach
  have hmu0 : Cfg.mu T ⟨p, st, 0, 0⟩ ≤ T + p.length + 1 := by
    unfold Cfg.mu; simp only; split <;> omega
  obtain ⟨m, hm⟩ : ∃ m, T + p.length + 2 = n + m := ⟨T + p.length + 2 - n, by omega⟩
  have hrun : run t env T p st = exec t env T m cf := by
    unfold run; rw [hm, exec_add, hreach]
  have hinvr : InvSt t (run t env T p st).st := by
    rw [hrun]; exact (exec_spec hg hd T m cf hi htk).1
  have hdd : Dead (run t env T p st).st := by
    have := exec_dead hg hd T m cf hi hdead
    rw [← hrun, hc] at this
    rcases this with h | h | h
    · cases h
    · cases h
    · exact h
  refine ⟨isalive_dead ht ha hinvr hdd, ?_⟩
  intro env2 hd2 hl2 T2 p2 hr2
  exact loss_is_scrapli_error t ht env2 hd2 T2 p2 _ hinvr 0 ⟨p2, _, 0, 0⟩ rfl hl2 hr2

/-- **C08, never_opened_raises_not_opened**: on a connection whose handle is None (never opened, or
    closed) the first transport call of any operation raises ScrapliConnectionNotOpened — at once,
    whatever the environment — and `isalive()` is False.  (`0 < T`: in the model `T = 0` is an already
    expired timeout, which would refuse a leading read with ScrapliTimeout; it is not `timeout_ops = 0`.) -/
theorem never_opened_raises_not_opened (t : Transport) (ht : mapTotal t) (env : Env) (T : Nat) (hT : 0 < T)
    (p : Program) (hp : p ≠ []) (lb : Option (Method × Outcome)) (c : Ctrl) :
    (run t env T p ⟨false, lb, c⟩).out = .raised .notOpened ∧ (run t env T p ⟨false, lb, c⟩).calls = 1
    ∧ (run t env T p ⟨false, lb, c⟩).ticks = 0 ∧ isaliveNow t ⟨false, lb, c⟩ = .retFalse := by
  have hg := good_of_total ht
  have hT' : ¬ T ≤ 0 := by omega
  refine ⟨?_, ?_, ?_, ?_⟩
  all_goals
    first
    | (unfold isaliveNow; simpa using hg.none_alive)
    | (cases p with
       | nil => exact absurd rfl hp
       | cons s q =>
         cases s <;>
           simp [run, exec, step, tAct, tNext, tNext0, ctrlNext, writeStep, readStep, hg.none_read, hg.none_write, Act.isRaise,
             Act.rk, Cfg.fail, hT'])

/-! ### non-vacuity: a concrete operation on the (always total) simulated transport

  `send_input` = write, read loop (echo), write (return), read loop (prompt).  The device answers
  the first write in two chunks, accepts the return, delivers one chunk of output and then drops:
  every later read meets EOF, writes would fail as well. -/
def exProg : Program := [.w, .r, .w, .r]
def exEnv : Env := envRW [.data, .more, .data, .data, .more] .eof [] .data

/-- the fault position: after 5 transitions the operation is inside its last read loop -/
example : stepsTo .sim exEnv 9 5 ⟨exProg, {}, 0, 0⟩ = .inl ⟨[.r], {}, 5, 3⟩ := by decide

example : mapTotal .sim ∧ InvSt .sim {} ∧ hasRead [.r] = true := ⟨sim_total.1, invSt_init _ _ _, rfl⟩

example : InDomain .sim exEnv := by
  intro i
  refine ⟨?_, (by decide : domain .sim .write .data = true)⟩
  show domain .sim .read (([Outcome.data, .more, .data, .data, .more] : List Outcome).getD i .eof) = true
  by_cases hi : i < 5
  · have : i = 0 ∨ i = 1 ∨ i = 2 ∨ i = 3 ∨ i = 4 := by omega
    rcases this with rfl | rfl | rfl | rfl | rfl <;> decide
  · rw [getD_ge _ _ _ (by simp; omega)]; decide

example : DeadFrom .sim 5 exEnv := by
  intro i hi
  refine ⟨?_, Or.inl rfl⟩
  show setsLoss .sim (([Outcome.data, .more, .data, .data, .more] : List Outcome).getD i .eof) = true
  rw [getD_ge _ _ _ (by simp; omega)]; decide

/-- and the conclusion, computed: ScrapliConnectionError at the first read after the drop, 3 ticks in -/
example : run .sim exEnv 9 exProg = ⟨.raised .connError, ⟨true, some (.read, .eof), .c0⟩, 6, 3⟩ := by decide

/-- a chunk that ends right after IAC leaves the Telnet control buffer pending; an EOF met in that state
    is looked up in the rows observed for that state (Gen/LossMaps: errDevC / afterDev with ctrl = cIac) -/
example : (tNext .asynctelnet {} .read .moreIac).ctrl = .cIac
    ∧ (tNext .asynctelnet (tNext .asynctelnet {} .read .moreIac) .read .empty)
        = ⟨true, some (.read, .empty), .cIac⟩ := by decide

/-- `loss_is_prompt` instantiated: the sim transport is prompt; inside the last read loop of `send_input`
    (the fault position of the first example) the dead session raises at the very next read — with the
    timeout far away (T = 1000) -/
example : promptTotal .sim ∧ Transport.sim ∈ promptTransports := by decide
example : (exec .sim exEnv 1000 3 ⟨[.r], {}, 5, 3⟩).out = .raised .connError
    ∧ (exec .sim exEnv 1000 3 ⟨[.r], {}, 5, 3⟩).calls = 6 := by decide

/-- the same drop while only empty reads arrive (Telnet-style EOF) is ended by the timeout backstop -/
example : (run .sim (envRW [.data, .data, .data] .empty [] .data) 9 exProg).out = .raised .timeout
    ∧ (run .sim (envRW [.data, .data, .data] .empty [] .data) 9 exProg).ticks = 9 := by decide

/-- the telnet login loop swallows the connection error, sends a return — and that write fails -/
example : (run .sim (envRW [.more, .eof] .eof [] .eof) 9 [.ra, .w, .r]).out = .raised .connError
    ∧ (run .sim (envRW [.more, .eof] .eof [] .eof) 9 [.ra, .w, .r]).calls = 3 := by decide

end Scrapli.Loss
