import ScrapliProps.C16Lemmas
import ScrapliProps.C16ParseLemmas
/-
  C16 — SSH config and known_hosts lookups return that host's entry and only that.
  Property theorems only (helper lemmas: C16Lemmas.lean; specification: ScrapliModel/Spec/SSHLookup.lean).
  Quantifiers: EVERY sequence `parsed` of parsed Host blocks (any number, any Host lines, any attribute
  values, duplicates allowed) and EVERY looked-up name (any characters, any length); every known_hosts
  line list, every name, every HMAC function.
  `mc` = the pattern characters that reach re.compile unescaped (generated `regexMeta`; `[]` = every
  literal escaped, the tree since fix c6dcbab = fixes/C16-escape-host-patterns.patch).
-/
namespace Scrapli.SSHConfig
open Scrapli.Gen.SSHConfig Scrapli.SSHConfig.Spec

/-! ## the generated data is what model and specification assume -/

theorem gen_is_modelled :
    wildMany = '*' ∧ wildOne = '?' ∧ starKey = Spec.star ∧ searchFn = "search" ∧
    searchFlags = ["IGNORECASE"] ∧ tieBreak = "first" ∧ hashedPrefix = ['|', '1', '|'] ∧ hashSep = '|' ∧ listSep = ',' ∧
    hashedParts = 4 ∧ hmacDigest = "sha1" ∧ hostAttrs.length = attrDefaults.length ∧
    hostsDefault = [] ∧ (∀ v ∈ attrDefaults, Val.truthy v = false) ∧ hostnameDefault.truthy = false := by
  decide

/-- every option keyword the text parser recognises sets a merged attribute, `hostname` or `hosts` -/
theorem parser_sets_known_attrs :
    ∀ ka ∈ parserKeywords, ka.2 ∈ hostAttrs ∨ ka.2 = "hostname" ∨ ka.2 = "hosts" := by decide

/-- the metacharacters the current tree leaves unescaped never include the two wildcards -/
theorem meta_excludes_wildcards : '*' ∉ regexMeta ∧ '?' ∉ regexMeta ∧ '.' ∉ regexMeta := by decide

/-! ## lookup never raises -/

/-- **C16 lookup_total** (every literal escaped): for every PARSE RESULT (`parsed`, what `_parse` returns — the text
    parser itself is outside the model, e.g. a `Port ` line without value made `_parse` raise, finding
    F14-empty-port-value) and every name, building the table and looking the name up returns a Host — no KeyError, no re.error, and the `while True` loop of
    `_merge_hosts` stops. -/
theorem lookup_total_full (parsed : List Entry) (name : Str) :
    ∃ r, lookupCfg [] parsed name = .ok r := by
  obtain ⟨d, hd⟩ := build_ok (mc := []) (parsed := parsed) (anyBad_nil _)
  have hk := (build_inv (P := fun _ => True) (fun _ _ _ _ _ _ _ _ _ _ _ => trivial) trivial hd).2
  obtain ⟨r, hr⟩ := lookup_ok (mc := []) (d := d) name (by rw [hk]; exact star_mem_fileDict parsed) (anyBad_nil _)
  exact ⟨r, by simp [lookupCfg, hd, bind, Except.bind, hr]⟩

/-- the same for any set of unescaped metacharacters, provided no Host pattern contains one -/
theorem lookup_total_partial (mc : List Char) (parsed : List Entry) (name : Str)
    (hgood : anyBad mc (allKeys parsed) = false) : ∃ r, lookupCfg mc parsed name = .ok r := by
  obtain ⟨d, hd⟩ := build_ok hgood
  have hk := (build_inv (P := fun _ => True) (fun _ _ _ _ _ _ _ _ _ _ _ => trivial) trivial hd).2
  have hsub : anyBad mc d.keys = false :=
    anyBad_subset (fun k hk' => (fileDict_keys parsed k).mp (by rw [← hk]; exact hk')) hgood
  obtain ⟨r, hr⟩ := lookup_ok (mc := mc) (d := d) name (by rw [hk]; exact star_mem_fileDict parsed) hsub
  exact ⟨r, by simp [lookupCfg, hd, bind, Except.bind, hr]⟩

def mkE (h : Str) (port user idf : Val) : Entry :=
  { hosts := h, hostname := .none, attrs := [port, user, .none, .none, .none, .none, idf, .none, .none, .none] }

/-- with `[` unescaped (the unchanged tree) the full statement is false: `Host a[b` raises -/
theorem lookup_total_meta_refuted :
    ¬ ∀ (parsed : List Entry) (name : Str), ∃ r, lookupCfg ['['] parsed name = .ok r := by
  intro h
  obtain ⟨r, hr⟩ := h [mkE ['a', '[', 'b'] .none (.str ['u', '0']) .none] ['z', 'z', 'z']
  have : lookupCfg ['['] [mkE ['a', '[', 'b'] .none (.str ['u', '0']) .none] ['z', 'z', 'z'] = .error .badRegex := by
    rfl
  rw [this] at hr
  cases hr

/-- the tree as it is: total as soon as the translator reports that no metacharacter is left unescaped -/
theorem lookup_total_current (h : regexMeta = []) (parsed : List Entry) (name : Str) :
    ∃ r, lookupCfg regexMeta parsed name = .ok r := by
  rw [h]; exact lookup_total_full parsed name

/-! ## what the code's matching relation is, in terms of the specification -/

/-- **the exact matching relation of `_lookup_fuzzy_match`**: for a name without newline, the (escaped)
    pattern `p` is a candidate for `name` iff `name` CONTAINS an instance of `p` — not iff `p` matches
    `name`.  (`→` is the defect F14-unanchored; `←` says no entry matching the whole name is ever missed.) -/
theorem search_hit_iff_contains_instance (p name : Str) (hnl : ∀ c ∈ name, c ≠ '\n') :
    (search (toks p) name).isSome = true ↔
      ∃ pre mid suf, name = pre ++ mid ++ suf ∧ Matches p mid := by
  constructor
  · intro h
    obtain ⟨n, hn⟩ := Option.isSome_iff_exists.mp h
    exact search_instance hn
  · rintro ⟨pre, mid, suf, rfl, hm⟩
    have hd : ∀ c ∈ mid, dot c = true := by
      intro c hc
      have := hnl c (by simp [hc])
      simp [dot, this]
    obtain ⟨n, hn⟩ := matchAt_complete hm suf hd
    obtain ⟨n', hn'⟩ := search_complete (toks p) (mid ++ suf) n hn pre
    rw [List.append_assoc, hn']
    rfl

/-- in particular a pattern matching the whole name is always a candidate -/
theorem whole_match_is_candidate (p name : Str) (hnl : ∀ c ∈ name, c ≠ '\n') (hm : Matches p name) :
    (search (toks p) name).isSome = true :=
  (search_hit_iff_contains_instance p name hnl).mpr ⟨[], name, [], by simp, hm⟩

/-! ## only entries that name the host contribute -/

/-- the property: every value returned was set by an entry whose Host line is the name, or one of whose
    patterns matches the WHOLE name, or by `Host *` -/
def OnlyMatching (mc : List Char) : Prop :=
  ∀ (parsed : List Entry) (name : Str) (r : Entry), lookupCfg mc parsed name = .ok r →
    ∀ (i : Nat) (v : Val), r.attrs[i]? = some v → v.truthy = true → FromNaming parsed name i v

def foo : Str := ['f', 'o', 'o']
def foobar : Str := ['f', 'o', 'o', 'b', 'a', 'r']
def u0 : Val := .str ['u', '0']
def u1 : Val := .str ['u', '1']

/-- **refuted** (unanchored search, kept by the pinned test `someswitch?` ~ `someswitch9999`):
    `Host foo / User u0` answers for `foobar` -/
theorem lookup_only_matching_full_refuted : ¬ OnlyMatching [] := by
  intro h
  have hr : lookupCfg [] [mkE foo .none u0 .none] foobar = .ok (mkE foo .none u0 .none) := by rfl
  obtain ⟨e, he, _, hn⟩ := h _ _ _ hr 1 u0 (by decide) (by decide)
  simp only [List.mem_singleton] at he
  subst he
  rcases hn with h1 | h1 | ⟨p, hp, hm⟩
  · exact absurd h1 (by decide)
  · exact absurd h1 (by decide)
  · have hp' : p = foo := by
      have : splitWs (mkE foo .none u0 .none).hosts = [foo] := by decide
      rw [this] at hp; simpa using hp
    subst hp'
    have : globMatch foo foobar = false := by decide
    rw [← globMatch_iff, this] at hm
    cases hm

/-- `Host *.lab / User l`, `Host sw1* / Port 5` and the name `sw1.lab` -/
def exInh : List Entry :=
  [mkE ['*', '.', 'l', 'a', 'b'] .none (.str ['l']) .none, mkE ['s', 'w', '1', '*'] (.int 5) .none .none]
def swLab : Str := ['s', 'w', '1', '.', 'l', 'a', 'b']

def aStar : Str := ['a', '*']
def aQ : Str := ['a', '?']

/-- **refuted also when the name contains no stray instance of a pattern**: inheritance is decided once,
    by the TEXT of the Host lines.  `Host a* / Port 1002` inherits `User u1` from `Host a?` (the text
    `a*` is an instance of `a?`), and returns it for the name `a`, which `a?` does not match -/
theorem lookup_only_matching_merge_refuted :
    ¬ ∀ (parsed : List Entry) (name : Str) (r : Entry), Anchored (allKeys parsed) name →
      lookupCfg [] parsed name = .ok r →
      ∀ (i : Nat) (v : Val), r.attrs[i]? = some v → v.truthy = true → FromNaming parsed name i v := by
  intro h
  have hr2 : lookupCfg [] [mkE aStar (.int 1002) .none .none, mkE aQ .none u1 .none] ['a'] =
      .ok (mkE aStar (.int 1002) u1 .none) := by rfl
  have ha : Anchored (allKeys [mkE aStar (.int 1002) .none .none, mkE aQ .none u1 .none]) ['a'] := by
    rw [← anchoredB_iff]; decide
  obtain ⟨e, he, hv, hn⟩ := h _ _ _ ha hr2 1 u1 (by decide) (by decide)
  simp only [List.mem_cons, List.not_mem_nil, or_false] at he
  rcases he with rfl | rfl
  · revert hv; decide
  · rcases hn with h1 | h1 | ⟨p, hp, hm⟩
    · exact absurd h1 (by decide)
    · exact absurd h1 (by decide)
    · have hp' : p = aQ := by
        have : splitWs (mkE aQ .none u1 .none).hosts = [aQ] := by decide
        rw [this] at hp; simpa using hp
      subst hp'
      have : globMatch aQ ['a'] = false := by decide
      rw [← globMatch_iff, this] at hm
      cases hm

/-- general form: inheritance across Host lines happens only from lines that are `G`ood, and good lines name the host -/
theorem lookup_only_matching_of_cross (G : Str → Prop) (mc : List Char) (parsed : List Entry) (name : Str) (r : Entry)
    (hG : ∀ k, G k → Names k name)
    (hA : Anchored (allKeys parsed) name) (hN : CrossOnly G (allKeys parsed))
    (hr : lookupCfg mc parsed name = .ok r) :
    (∀ (i : Nat) (v : Val), r.attrs[i]? = some v → v.truthy = true → FromNaming parsed name i v) ∧
    (r.hostname.truthy = true → ∃ e ∈ parsed, e.hostname = r.hostname ∧ Names e.hosts name) ∧
    Names r.hosts name := by
  unfold lookupCfg at hr
  cases hb : build mc parsed with
  | error e => simp [hb, bind, Except.bind] at hr
  | ok d =>
    simp only [hb, bind, Except.bind] at hr
    obtain ⟨⟨hkeys, hprov⟩, hdk⟩ := build_inv (prov_step (mc := mc) hN) (prov_fileDict G parsed) hb
    have hh : OwnInv (fileDict parsed) d :=
      (build_inv (own_step mc (fileDict parsed)) (fun k e hg => ⟨e, hg, keeps_refl e⟩) hb).1
    obtain ⟨k, hmem, hcase⟩ := lookup_cases hr
    have hkall : k ∈ allKeys parsed := hkeys k (Dict.mem_keys_of_mem hmem)
    -- the selected entry names the host
    have hnames : Names k name := by
      rcases hcase with h1 | h1 | h1 | ⟨p, hp, n, hs⟩
      · exact Or.inr (Or.inl h1)
      · exact Or.inr (Or.inr ⟨name, h1, matches_self name⟩)
      · exact Or.inl (by rw [h1]; rfl)
      · obtain ⟨pre, mid, suf, hsplit, hm⟩ := search_instance hs
        exact Or.inr (Or.inr ⟨p, hp, hA k hkall p hp pre mid suf hsplit hm⟩)
    obtain ⟨hn1, ha1⟩ := hprov k r hmem
    have hrk : r.hosts = k := by
      have hn := nodup_fileDict parsed
      rw [← hdk] at hn
      obtain ⟨e0, h0, k1, _, _⟩ := hh k r (get?_of_mem_nodup hn hmem)
      rw [k1, (fileDict_mem parsed k e0 (Dict.get?_some_mem h0)).1]
    refine ⟨?_, ?_, by rw [hrk]; exact hnames⟩
    · intro i v hv ht
      obtain ⟨e0, he0, hv0, hk0⟩ := ha1 i v hv ht
      refine ⟨e0, he0, hv0, ?_⟩
      rcases hk0 with hk0 | hk0 | hk0
      · rw [hk0]; exact hnames
      · exact Or.inl (by rw [hk0]; rfl)
      · exact hG _ hk0
    · intro ht
      obtain ⟨e0, he0, h1, h2⟩ := hn1 ht
      exact ⟨e0, he0, h1, by rw [h2]; exact hnames⟩

/-- **C16 lookup_only_matching, partial**: if (a) the looked-up name contains no instance of a Host
    pattern that does not match it entirely and (b) no pattern of a non-`*` Host line has an instance
    inside the text of another Host line, then every value returned was set by an entry that names the
    host (exactly, by a pattern matching the whole name) or by `Host *`.  For every set of unescaped
    metacharacters (when the lookup returns at all).  NOTE (b) excludes every pair "specific entry / less specific
    entry" (`web1*` / `web*`, even `sw1` / `sw10`): under it the only possible donor is `Host *`; this is a statement
    about PROVENANCE only (see `lookup_eq_spec_anchored_nocross_refuted`, `lookup_only_matching_partial_wide`). -/
theorem lookup_only_matching_partial (mc : List Char) (parsed : List Entry) (name : Str) (r : Entry)
    (hA : Anchored (allKeys parsed) name) (hN : NoCross (allKeys parsed))
    (hr : lookupCfg mc parsed name = .ok r) :
    (∀ (i : Nat) (v : Val), r.attrs[i]? = some v → v.truthy = true → FromNaming parsed name i v) ∧
    (r.hostname.truthy = true → ∃ e ∈ parsed, e.hostname = r.hostname ∧ Names e.hosts name) ∧
    Names r.hosts name :=
  lookup_only_matching_of_cross (fun _ => False) mc parsed name r (fun _ h => h.elim) hA (crossOnly_of_noCross hN) hr

/-- **the same under the weaker hypothesis `CrossNaming`** (review item 4): Host lines MAY feed one another as long as
    every feeding line also names the looked-up host — `Host web1*` inheriting from `Host web*` for the name `web17` is
    inside this domain.  Still provenance only. -/
theorem lookup_only_matching_partial_wide (mc : List Char) (parsed : List Entry) (name : Str) (r : Entry)
    (hA : Anchored (allKeys parsed) name) (hN : CrossNaming (allKeys parsed) name)
    (hr : lookupCfg mc parsed name = .ok r) :
    (∀ (i : Nat) (v : Val), r.attrs[i]? = some v → v.truthy = true → FromNaming parsed name i v) ∧
    (r.hostname.truthy = true → ∃ e ∈ parsed, e.hostname = r.hostname ∧ Names e.hosts name) ∧
    Names r.hosts name :=
  lookup_only_matching_of_cross (fun k => Names k name) mc parsed name r (fun _ h => h) hA hN hr

/-- the whole statement as an equation with the hand-written specification `Spec.lookup` is false for
    the code (same witness: the specification answers `foobar` from `Host *`) -/
theorem lookup_eq_spec_full_refuted :
    ¬ ∀ (parsed : List Entry) (name : Str) (r : Entry), lookupCfg [] parsed name = .ok r →
      Spec.lookup (fileDict parsed) name = some r := by
  intro h
  have h1 := h [mkE foo .none u0 .none] foobar _ (by rfl)
  have h2 : Spec.lookup (fileDict [mkE foo .none u0 .none]) foobar = some (mkE ['*'] .none (.str []) .none) := by
    decide
  rw [h2] at h1
  revert h1
  decide

/-- **refuted INSIDE the domain of the partial theorem** (review item 3): `Anchored` and `NoCross` both hold, yet the
    result differs from the specification — `Host sw1* / Port 5` matches the whole name `sw1.lab` but its pattern has
    no instance in the TEXT of the selected Host line `*.lab`, so its Port is never inherited (port `none`, the
    specification says 5).  Under `NoCross` no entry can inherit from another non-`*` entry at all: the partial theorem
    is a statement about provenance only, the inheritance clause of the property is false there. -/
theorem lookup_eq_spec_anchored_nocross_refuted :
    ¬ ∀ (parsed : List Entry) (name : Str) (r : Entry), Anchored (allKeys parsed) name → NoCross (allKeys parsed) →
      lookupCfg [] parsed name = .ok r → Spec.lookup (fileDict parsed) name = some r := by
  intro h
  have ha : Anchored (allKeys exInh) swLab := by rw [← anchoredB_iff]; decide
  have hn : NoCross (allKeys exInh) := by rw [← noCrossB_iff]; decide
  have hr : lookupCfg [] exInh swLab = .ok (mkE ['*', '.', 'l', 'a', 'b'] .none (.str ['l']) .none) := by rfl
  have h1 := h _ _ _ ha hn hr
  have h2 : Spec.lookup (fileDict exInh) swLab = some (mkE ['*', '.', 'l', 'a', 'b'] (.int 5) (.str ['l']) .none) := by
    decide
  rw [h2] at h1
  revert h1
  decide

/-! ## the inheritance that always works: what `Host *` sets reaches every answer -/

/-- **C16 lookup_star_fills** (review item 2, the completeness half for `Host *`): if the file's `Host *` block sets
    option number `i` (to a truthy value), then in EVERY answer that option is set — by the entry itself, by an entry it
    inherited from, or by `Host *`; it is never left unset.  (Stated as "attribute `i` of the answer, if the answer has an
    `i`-th attribute at all, is truthy": all `Host` objects carry all HOST_ATTRS.)  Proof: the `while True` loop of
    `_merge_hosts` can only be left after a pass whose donor was `*`.  A model with `mergeAttrs own _ := own` fails it. -/
theorem lookup_star_fills (mc : List Char) (parsed : List Entry) (name : Str) (r es : Entry) (i : Nat) (v : Val)
    (hr : lookupCfg mc parsed name = .ok r) (hs : (fileDict parsed).get? starKey = some es)
    (hi : es.attrs[i]? = some v) (hv : v.truthy = true) :
    ∀ w, r.attrs[i]? = some w → w.truthy = true := by
  unfold lookupCfg at hr
  cases hb : build mc parsed with
  | error e => simp [hb, bind, Except.bind] at hr
  | ok d =>
    simp only [hb, bind, Except.bind] at hr
    have hdk := (build_inv (P := fun _ => True) (fun _ _ _ _ _ _ _ _ _ _ _ => trivial) trivial hb).2
    have h0 : FillInv i v [] (fileDict parsed) := ⟨⟨es, hs, hi⟩, by simp⟩
    have hfin := foldlM_fills (mc := mc) hv (fileDict parsed).keys [] (fileDict parsed) d h0 hb
    obtain ⟨k, hmem, _⟩ := lookup_cases hr
    have hn : d.keys.Nodup := by rw [hdk]; exact nodup_fileDict parsed
    have hk : k ∈ (fileDict parsed).keys := by rw [← hdk]; exact Dict.mem_keys_of_mem hmem
    exact hfin.2 k (by simpa using hk) r (get?_of_mem_nodup hn hmem)

/-! ## which wildcard entry is chosen: the first one with the minimal score -/

/-- **C16 lookup_fuzzy_minimal** (review item 1): when no Host line is the name and none lists it, the entry returned
    is the fallback `*` iff NO pattern of the file is a candidate; otherwise its Host line `k` carries a candidate
    `(n, k)` whose score `n` (characters captured by the leftmost-greedy match) is minimal among ALL candidates of the
    file, and every candidate before it in file order scores strictly more.  "Closest by the code's own score, first in
    file order", for every file and name.  (That this score equals the specification's `captured` for whole-name
    matches is not proved; the oracle checks it on every run.) -/
theorem lookup_fuzzy_minimal (mc : List Char) (parsed : List Entry) (name : Str) (r : Entry)
    (hnk : name ∉ allKeys parsed) (hnl : ∀ e ∈ parsed, name ∉ splitWs e.hosts)
    (hr : lookupCfg mc parsed name = .ok r) :
    (hits name (fileDict parsed).keys = [] ∧ r.hosts = starKey) ∨
    ∃ n, (n, r.hosts) ∈ hits name (fileDict parsed).keys ∧
      (∀ x ∈ hits name (fileDict parsed).keys, n ≤ x.1) ∧
      ∃ pre suf, hits name (fileDict parsed).keys = pre ++ (n, r.hosts) :: suf ∧ ∀ x ∈ pre, n < x.1 := by
  unfold lookupCfg at hr
  cases hb : build mc parsed with
  | error e => simp [hb, bind, Except.bind] at hr
  | ok d =>
    simp only [hb, bind, Except.bind] at hr
    obtain ⟨hown, hdk⟩ := build_inv (own_step mc (fileDict parsed))
      (fun k e hg => ⟨e, hg, keeps_refl e⟩ : OwnInv (fileDict parsed) (fileDict parsed)) hb
    have hhosts : ∀ k e, d.get? k = some e → e.hosts = k := by
      intro k e hg
      obtain ⟨e0, h0, hk, _⟩ := hown k e hg
      rw [hk, (fileDict_mem parsed k e0 (Dict.get?_some_mem h0)).1]
    have hg : d.get? name = none := Dict.get?_none_of_not_mem (by
      rw [hdk]; intro h; exact hnk ((fileDict_keys parsed name).mp h))
    have hf : d.find? (fun ke => (splitWs ke.1).contains name) = none := by
      rw [List.find?_eq_none]
      intro ke hke hc
      have hc' : name ∈ splitWs ke.1 := by simpa using hc
      have hk : ke.1 ∈ allKeys parsed :=
        (fileDict_keys parsed ke.1).mp (by rw [← hdk]; exact Dict.mem_keys_of_mem (v := ke.2) hke)
      simp only [allKeys, List.mem_cons, List.mem_map] at hk
      rcases hk with hk | ⟨e, he, hk⟩
      · rw [hk] at hc'
        have : splitWs starKey = [starKey] := by decide
        rw [this] at hc'
        simp only [List.mem_singleton] at hc'
        exact hnk (by rw [hc']; simp [allKeys])
      · rw [← hk] at hc'; exact hnl e he hc'
    unfold lookup at hr
    simp only [hg, hf] at hr
    unfold fuzzy at hr
    by_cases hbad : anyBad mc d.keys = true
    · simp [hbad, bind, Except.bind] at hr
    · simp only [hbad, Bool.false_eq_true, ↓reduceIte, bind, Except.bind] at hr
      rw [← hdk]
      cases hm : firstMin (hits name d.keys) with
      | none =>
        simp only [hm] at hr
        exact Or.inl ⟨firstMin_none hm, hhosts _ r (Dict.getE_ok hr)⟩
      | some m =>
        simp only [hm] at hr
        have hk : r.hosts = m.2 := hhosts _ r (Dict.getE_ok hr)
        obtain ⟨hmin, pre, suf, hl, hpre⟩ := firstMin_spec hm
        right
        refine ⟨m.1, ?_, hmin, pre, suf, ?_, hpre⟩
        · rw [hk]; exact firstMin_mem hm
        · rw [hk]; exact hl

/-! ## the entry that names the host exactly comes first -/

/-- **C16 lookup_exact_first** (a Host line equal to the name): whatever else matches, the result is
    that entry — its `hosts`, its `hostname`, and every option it sets itself, unchanged.
    `e0` = the block of the file under that Host line (the last one if the line is repeated). -/
theorem lookup_exact_first (mc : List Char) (parsed : List Entry) (name : Str) (e0 r : Entry)
    (h0 : (fileDict parsed).get? name = some e0) (hr : lookupCfg mc parsed name = .ok r) :
    r.hosts = name ∧ Keeps e0 r := by
  unfold lookupCfg at hr
  cases hb : build mc parsed with
  | error e => simp [hb, bind, Except.bind] at hr
  | ok d =>
    simp only [hb, bind, Except.bind] at hr
    obtain ⟨hown, hdk⟩ := build_inv (own_step mc (fileDict parsed))
      (fun k e hg => ⟨e, hg, keeps_refl e⟩ : OwnInv (fileDict parsed) (fileDict parsed)) hb
    have hk : name ∈ d.keys := by rw [hdk]; exact Dict.mem_keys_of_mem (Dict.get?_some_mem h0)
    obtain ⟨e, hg⟩ := Dict.get?_of_mem_keys hk
    have : lookup mc d name = .ok e := by simp [lookup, hg]
    rw [this] at hr
    cases hr
    obtain ⟨e0', h0', hkeep⟩ := hown name r hg
    rw [h0] at h0'
    cases h0'
    exact ⟨by rw [hkeep.1, (fileDict_mem parsed name e0 (Dict.get?_some_mem h0)).1], hkeep⟩

/-- **C16 lookup_exact_first** (the name listed literally among the patterns of a Host line, no Host
    line equal to it): the result is an entry that lists the name, with everything it sets itself —
    no wildcard entry, however specific, takes precedence. -/
theorem lookup_listed_first (mc : List Char) (parsed : List Entry) (name : Str) (r : Entry)
    (hnk : name ∉ allKeys parsed) (hl : ∃ e ∈ parsed, name ∈ splitWs e.hosts)
    (hr : lookupCfg mc parsed name = .ok r) :
    name ∈ splitWs r.hosts ∧ ∃ e0, (fileDict parsed).get? r.hosts = some e0 ∧ Keeps e0 r := by
  unfold lookupCfg at hr
  cases hb : build mc parsed with
  | error e => simp [hb, bind, Except.bind] at hr
  | ok d =>
    simp only [hb, bind, Except.bind] at hr
    obtain ⟨hown, hdk⟩ := build_inv (own_step mc (fileDict parsed))
      (fun k e hg => ⟨e, hg, keeps_refl e⟩ : OwnInv (fileDict parsed) (fileDict parsed)) hb
    have hn : d.keys.Nodup := by rw [hdk]; exact nodup_fileDict parsed
    have hg : d.get? name = none := Dict.get?_none_of_not_mem (by
      rw [hdk]; intro h; exact hnk ((fileDict_keys parsed name).mp h))
    obtain ⟨e, he, hle⟩ := hl
    have hek : e.hosts ∈ d.keys := by
      rw [hdk]; exact (fileDict_keys parsed _).mpr (by simp [allKeys]; exact Or.inr ⟨e, he, rfl⟩)
    obtain ⟨e', he'⟩ := Dict.get?_of_mem_keys hek
    unfold lookup at hr
    simp only [hg] at hr
    cases hf : d.find? (fun ke => (splitWs ke.1).contains name) with
    | none =>
      have := List.find?_eq_none.mp hf (e.hosts, e') (Dict.get?_some_mem he')
      simp at this
      exact absurd hle this
    | some ke =>
      simp only [hf, Except.ok.injEq] at hr
      subst hr
      have h1 := List.mem_of_find?_eq_some hf
      have h2 : name ∈ splitWs ke.1 := by simpa using List.find?_some hf
      obtain ⟨e0, h0, hkeep⟩ := hown ke.1 ke.2 (get?_of_mem_nodup hn h1)
      have hk : ke.2.hosts = ke.1 := by
        rw [hkeep.1, (fileDict_mem parsed ke.1 e0 (Dict.get?_some_mem h0)).1]
      exact ⟨by rw [hk]; exact h2, e0, by rw [hk]; exact h0, hkeep⟩

/-! ## known_hosts -/

/-- **C16 known_hosts_exact**: a key returned for `name` is the key of a line that records `name`
    (listed literally among the comma separated ids, or by a hashed id of that very name) — for every
    file, every name and every HMAC function -/
theorem known_hosts_exact (hm : Str → Str → Str → Option Bool) (lines : List KHLine) (name : Str)
    (v : Str × Str) (h : khLookup hm (khBuild lines) name = .ok (some v)) :
    ∃ l ∈ lines, Records hm l name ∧ l.val = v := by
  unfold khLookup at h
  cases hg : (khBuild lines).get? name with
  | some v' =>
    simp only [hg, Except.ok.injEq, Option.some.injEq] at h
    subst h
    obtain ⟨l, hl, h1, h2⟩ := khBuild_mem (Dict.get?_some_mem hg)
    exact ⟨l, hl, ⟨name, h1, Or.inl rfl⟩, h2⟩
  | none =>
    simp only [hg] at h
    obtain ⟨k, hk, hi⟩ := khScan_some h
    obtain ⟨l, hl, h1, h2⟩ := khBuild_mem hk
    exact ⟨l, hl, ⟨k, h1, Or.inr hi⟩, h2⟩

/-- ... and nothing for any other host -/
theorem known_hosts_nothing_for_others (hm : Str → Str → Str → Option Bool) (lines : List KHLine)
    (name : Str) (hno : ∀ l ∈ lines, ¬ Records hm l name) (v : Str × Str) :
    khLookup hm (khBuild lines) name ≠ .ok (some v) := by
  intro h
  obtain ⟨l, hl, hr, _⟩ := known_hosts_exact hm lines name v h
  exact hno l hl hr

/-- a host listed literally always gets a key recorded for it (whatever else the file contains,
    malformed hashed ids included) -/
theorem known_hosts_plain_found (hm : Str → Str → Str → Option Bool) (lines : List KHLine) (name : Str)
    (h : ∃ l ∈ lines, name ∈ splitOn ',' l.host) :
    ∃ v, khLookup hm (khBuild lines) name = .ok (some v) ∧
      ∃ l ∈ lines, name ∈ splitOn ',' l.host ∧ l.val = v := by
  obtain ⟨v, hv⟩ := Dict.get?_of_mem_keys ((khBuild_keys lines name).mpr h)
  refine ⟨v, by simp [khLookup, hv], ?_⟩
  exact khBuild_mem (Dict.get?_some_mem hv)

theorem khwf_of (hm : Str → Str → Str → Option Bool) (lines : List KHLine) (name : Str)
    (hwf : HashedWF hm lines name) :
    ∀ k v, (k, v) ∈ khBuild lines → hashedPrefix.isPrefixOf k = true →
      ∃ a b salt hash, splitOn hashSep k = [a, b, salt, hash] ∧ hm salt hash name ≠ none := by
  intro k v hkv hp
  obtain ⟨l, hl, h1, _⟩ := khBuild_mem hkv
  exact hwf l hl k h1 hp

/-- when every hashed id of the file decodes: a recorded host (plain, listed or hashed) gets a key
    recorded for it -/
theorem known_hosts_recorded_found (hm : Str → Str → Str → Option Bool) (lines : List KHLine) (name : Str)
    (hwf : HashedWF hm lines name) (h : ∃ l ∈ lines, Records hm l name) :
    ∃ v, khLookup hm (khBuild lines) name = .ok (some v) ∧ ∃ l ∈ lines, Records hm l name ∧ l.val = v := by
  have key : ∃ v, khLookup hm (khBuild lines) name = .ok (some v) := by
    unfold khLookup
    cases hg : (khBuild lines).get? name with
    | some v => exact ⟨v, rfl⟩
    | none =>
      simp only
      rcases khScan_wf (khwf_of hm lines name hwf) with h1 | ⟨_, h2⟩
      · exact h1
      · exfalso
        obtain ⟨l, hl, k, hk, hc⟩ := h
        have hkk : k ∈ (khBuild lines).keys := (khBuild_keys lines k).mpr ⟨l, hl, hk⟩
        rcases hc with rfl | hc
        · obtain ⟨v, hv⟩ := Dict.get?_of_mem_keys hkk
          rw [hg] at hv; cases hv
        · obtain ⟨v, hv⟩ := Dict.get?_of_mem_keys hkk
          exact h2 k v (Dict.get?_some_mem hv) hc
  obtain ⟨v, hv⟩ := key
  exact ⟨v, hv, known_hosts_exact hm lines name v hv⟩

/-- ... and a host no line records gets the empty answer (no exception) -/
theorem known_hosts_absent (hm : Str → Str → Str → Option Bool) (lines : List KHLine) (name : Str)
    (hwf : HashedWF hm lines name) (hno : ∀ l ∈ lines, ¬ Records hm l name) :
    khLookup hm (khBuild lines) name = .ok none := by
  unfold khLookup
  cases hg : (khBuild lines).get? name with
  | some v =>
    exfalso
    obtain ⟨l, hl, h1, _⟩ := khBuild_mem (Dict.get?_some_mem hg)
    exact hno l hl ⟨name, h1, Or.inl rfl⟩
  | none =>
    simp only
    rcases khScan_wf (khwf_of hm lines name hwf) with ⟨v, h1⟩ | ⟨h1, _⟩
    · exfalso
      have : khLookup hm (khBuild lines) name = .ok (some v) := by simp [khLookup, hg, h1]
      exact known_hosts_nothing_for_others hm lines name hno v this
    · exact h1

/-! ## a lookup is a function of (file, name): independent of every earlier lookup on the object -/

/-- the call graphs below `SSHConfig.lookup` and `SSHKnownHosts.lookup` store nothing on `self`, the class or
    module globals, and base_driver.py (the caller of `ssh_config_factory(...).lookup`) stores nothing through
    the shared objects it is handed (generated from the AST; a cache added to a lookup path, or a write onto
    a returned Host, breaks this theorem) -/
theorem lookup_paths_store_nothing :
    cfgLookupWrites = [] ∧ khLookupWrites = [] ∧ driverLookupWrites = [] := by decide

theorem khHistory_aux (hm : Str → Str → Str → Option Bool) (d : Dict (Str × Str)) (names : List Str) :
    ∀ acc : List (Except Err (Option (Str × Str))),
      names.foldl (fun acc n => let s := khStep hm acc.1 n; (s.1, acc.2 ++ [s.2])) (d, acc) =
        (d, acc ++ names.map (khLookup hm d)) := by
  induction names with
  | nil => intro acc; simp
  | cons n ns ih =>
    intro acc
    rw [List.foldl_cons]
    show List.foldl _ (d, acc ++ [khLookup hm d n]) ns = _
    rw [ih]; simp

/-- **C16 lookup_is_stateless (known_hosts)** — TRUE BY CONSTRUCTION of `khStep` (the step returns the object it was
    given); its content is the modelling decision justified by `lookup_paths_store_nothing` and checked by the history
    correspondence; see `known_hosts_lookup_is_stateless_current` for the version tied to the generated data.
    On ONE SSHKnownHosts object, after ANY history of lookups,
    every answer is what a single lookup of that name on a fresh object returns, and the object is unchanged -/
theorem known_hosts_lookup_is_stateless (hm : Str → Str → Str → Option Bool) (lines : List KHLine)
    (names : List Str) :
    khHistory hm (khBuild lines) names = (khBuild lines, names.map (khLookup hm (khBuild lines))) := by
  unfold khHistory
  rw [khHistory_aux]; simp

theorem cfgHistory_aux (mc : List Char) (d : Dict Entry) (names : List Str) :
    ∀ acc : List (Except Err Entry),
      names.foldl (fun acc n => let s := cfgStep mc acc.1 n; (s.1, acc.2 ++ [s.2])) (d, acc) =
        (d, acc ++ names.map (lookup mc d)) := by
  induction names with
  | nil => intro acc; simp
  | cons n ns ih =>
    intro acc
    rw [List.foldl_cons]
    show List.foldl _ (d, acc ++ [lookup mc d n]) ns = _
    rw [ih]; simp

/-- **C16 lookup_is_stateless (ssh config)** — true by construction of `cfgStep`, see above and
    `lookup_is_stateless_current`: the same for ONE SSHConfig object; each answer equals
    `SSHConfig(file).lookup(name)` on a fresh object (`lookupCfg`) -/
theorem lookup_is_stateless (mc : List Char) (parsed : List Entry) (d : Dict Entry)
    (hb : build mc parsed = .ok d) (names : List Str) :
    cfgHistory mc d names = (d, names.map (lookupCfg mc parsed)) := by
  unfold cfgHistory
  rw [cfgHistory_aux]
  simp only [List.nil_append, Prod.mk.injEq, true_and]
  apply List.map_congr_left
  intro n _
  simp [lookupCfg, hb, bind, Except.bind]

/-- the same, with the step made dependent on the GENERATED store lists (review item 5): with an arbitrary `havoc` for
    what a storing lookup path would do to the object, the histories on the current tree are still the maps of single
    lookups — these two theorems (unlike the two above, which hold by construction of `cfgStep` / `khStep`) stop
    building as soon as the translator finds a store on a lookup path or in base_driver.py -/
theorem lookup_is_stateless_current (havoc : Dict Entry → Str → Dict Entry) (mc : List Char) (d : Dict Entry)
    (names : List Str) :
    cfgHistoryW (cfgLookupWrites ++ driverLookupWrites) havoc mc d names = (d, names.map (lookup mc d)) := by
  have hw : (cfgLookupWrites ++ driverLookupWrites).isEmpty = true := by decide
  have : cfgHistoryW (cfgLookupWrites ++ driverLookupWrites) havoc mc d names = cfgHistory mc d names := by
    unfold cfgHistoryW cfgHistory cfgStepW cfgStep
    simp only [hw, ↓reduceIte]
  rw [this]
  unfold cfgHistory
  rw [cfgHistory_aux]; simp

theorem known_hosts_lookup_is_stateless_current (havoc : Dict (Str × Str) → Str → Dict (Str × Str))
    (hm : Str → Str → Str → Option Bool) (d : Dict (Str × Str)) (names : List Str) :
    khHistoryW khLookupWrites havoc hm d names = (d, names.map (khLookup hm d)) := by
  have hw : khLookupWrites.isEmpty = true := by decide
  have : khHistoryW khLookupWrites havoc hm d names = khHistory hm d names := by
    unfold khHistoryW khHistory khStepW khStep
    simp only [hw, ↓reduceIte]
  rw [this]
  unfold khHistory
  rw [khHistory_aux]; simp

/-- **ssh_config_factory**: the object handed out for a path already in the cache is the one built the
    first time, the cache is unchanged, and lookups through it agree with lookups on a fresh SSHConfig of
    the same file -/
theorem factory_cached_agrees (mc : List Char) (cache : Dict (Dict Entry)) (path : Str) (parsed : List Entry)
    (c1 : Dict (Dict Entry)) (d1 : Dict Entry) (hnew : cache.get? path = none)
    (h1 : factory mc cache path parsed = .ok (c1, d1)) :
    factory mc c1 path parsed = .ok (c1, d1) ∧ build mc parsed = .ok d1 ∧
    ∀ names, (cfgHistory mc d1 names).2 = names.map (lookupCfg mc parsed) := by
  unfold factory at h1
  simp only [hnew] at h1
  cases hb : build mc parsed with
  | error e => simp [hb, bind, Except.bind] at h1
  | ok d =>
    simp only [hb, bind, Except.bind, Except.ok.injEq, Prod.mk.injEq] at h1
    obtain ⟨rfl, rfl⟩ := h1
    refine ⟨?_, rfl, fun names => by rw [lookup_is_stateless mc parsed d hb names]⟩
    unfold factory
    simp [Dict.get?_set]

/-! ## non-vacuity: concrete values inside each quantifier / satisfying each hypothesis -/

/-- a config in the shape of the fixture of tests/unit/test_ssh_config.py plus a two-pattern block:
    the hypotheses of `lookup_only_matching_partial` hold for the names `sw2` and `web17`,
    `Anchored` fails for `sw99` (the pinned `someswitch9999` case) -/
def exCfg : List Entry :=
  [mkE ['r', '1', ' ', 'c', 'o', 'r', 'e', '1'] (.int 1234) (.str ['c', 'a', 'r', 'l']) (.str ['k', '1']),
   mkE ['s', 'w', '?'] (.int 1234) (.str ['n', 'o', 't', 'c', 'a', 'r', 'l']) .none,
   mkE ['w', 'e', 'b', '*', ' ', 'd', 'b', '-', '*'] .none u1 .none,
   mkE ['*'] .none (.str ['e', 'l', 's', 'e']) (.str ['k', '9'])]

example : anchoredB (allKeys exCfg) ['s', 'w', '2'] = true ∧ noCrossB (allKeys exCfg) = true ∧
    anchoredB (allKeys exCfg) ['s', 'w', '9', '9'] = false ∧
    anchoredB (allKeys exCfg) ['w', 'e', 'b', '1', '7'] = true := by decide

example : lookupCfg [] exCfg ['s', 'w', '2'] =
    .ok (mkE ['s', 'w', '?'] (.int 1234) (.str ['n', 'o', 't', 'c', 'a', 'r', 'l']) (.str ['k', '9'])) := by rfl

/-- ... where code and specification agree -/
example : Spec.lookup (fileDict exCfg) ['s', 'w', '2'] =
    some (mkE ['s', 'w', '?'] (.int 1234) (.str ['n', 'o', 't', 'c', 'a', 'r', 'l']) (.str ['k', '9'])) := by decide

/-- `Host web1* / Port`, `Host web* / User`, name `web17`: outside `NoCross` (the text `web1*` is an instance of `web*`),
    inside `CrossNaming`; the answer inherits the user from `web*` -/
def exWide : List Entry :=
  [mkE ['w', 'e', 'b', '1', '*'] (.int 7) .none .none, mkE ['w', 'e', 'b', '*'] .none u1 .none]

example : noCrossB (allKeys exWide) = false ∧ crossNamingB (allKeys exWide) ['w', 'e', 'b', '1', '7'] = true ∧
    anchoredB (allKeys exWide) ['w', 'e', 'b', '1', '7'] = true := by decide

example : lookupCfg [] exWide ['w', 'e', 'b', '1', '7'] = .ok (mkE ['w', 'e', 'b', '1', '*'] (.int 7) u1 .none) := by rfl

/-- hypotheses of `lookup_star_fills`: `Host *` of `exCfg` sets the identity file (attribute 6), which the selected
    entry `sw?` leaves unset -/
example : (fileDict exCfg).get? starKey = some (mkE ['*'] .none (.str ['e', 'l', 's', 'e']) (.str ['k', '9'])) ∧
    (mkE ['*'] .none (.str ['e', 'l', 's', 'e']) (.str ['k', '9'])).attrs[6]? = some (.str ['k', '9']) ∧
    (mkE ['s', 'w', '?'] (.int 1234) (.str ['n', 'o', 't', 'c', 'a', 'r', 'l']) .none).attrs[6]? = some .none := by decide

/-- hypotheses of `lookup_fuzzy_minimal` for `sw2`, and what it then pins down: candidates `sw?` (1 character) and
    `*` (3 characters), in file order -/
example : ['s', 'w', '2'] ∉ allKeys exCfg ∧ (∀ e ∈ exCfg, ['s', 'w', '2'] ∉ splitWs e.hosts) ∧
    hits ['s', 'w', '2'] (fileDict exCfg).keys = [(1, ['s', 'w', '?']), (3, ['*'])] := by decide

/-- hypotheses of `lookup_listed_first` / `lookup_exact_first`: `swa` is listed, is not a Host line, and
    `sw?` matches it too (with 1 captured character) -/
def exL : List Entry :=
  [mkE ['s', 'w', '?'] (.int 1) u0 .none, mkE ['r', '1', ' ', 's', 'w', 'a'] (.int 2) .none (.str ['k', '1'])]

example : ['s', 'w', 'a'] ∉ allKeys exL ∧ (∃ e ∈ exL, ['s', 'w', 'a'] ∈ splitWs e.hosts) ∧
    globMatch ['s', 'w', '?'] ['s', 'w', 'a'] = true ∧
    (fileDict exL).get? ['r', '1', ' ', 's', 'w', 'a'] = some (mkE ['r', '1', ' ', 's', 'w', 'a'] (.int 2) .none (.str ['k', '1'])) := by
  decide

example : lookupCfg [] exL ['s', 'w', 'a'] = .ok (mkE ['r', '1', ' ', 's', 'w', 'a'] (.int 2) u0 (.str ['k', '1'])) := by rfl

/-- known_hosts: a plain line, a comma list and a hashed line; `hm` says the hashed id belongs to `h3` -/
def exKH : List KHLine :=
  [⟨['h', '1'], (['r', 's', 'a'], ['A'])⟩, ⟨['h', '2', ',', 'h', '1', '0'], (['e', 'd'], ['B'])⟩,
   ⟨['|', '1', '|', 'S', '|', 'H'], (['r', 's', 'a'], ['C'])⟩]
def exHM : Str → Str → Str → Option Bool := fun salt hash name =>
  some (salt == ['S'] && hash == ['H'] && name == ['h', '3'])

/-- a history: hashed hit, miss, listed hit, the hashed hit again -/
example : (khHistory exHM (khBuild exKH) [['h', '3'], ['h'], ['h', '1', '0'], ['h', '3']]).2 =
    [.ok (some (['r', 's', 'a'], ['C'])), .ok none, .ok (some (['e', 'd'], ['B'])), .ok (some (['r', 's', 'a'], ['C']))] := by
  rfl

example : khLookup exHM (khBuild exKH) ['h', '3'] = .ok (some (['r', 's', 'a'], ['C'])) ∧
    khLookup exHM (khBuild exKH) ['h', '1', '0'] = .ok (some (['e', 'd'], ['B'])) ∧
    khLookup exHM (khBuild exKH) ['h'] = .ok none := by
  refine ⟨by rfl, by rfl, by rfl⟩


/-! ## the TEXT PARSERS (ScrapliModel/SSHConfigParse.lean): from the file text to the entries the theorems above start from -/

/-- the flags, option keywords and value shapes the hand-written parser model was written for (generated from the live
    source; the regex source TEXTS are generated too but deliberately not pinned here — a respelled but equivalent regex
    must not break the proof; what a regex DOES is tied by the correspondence on texts) -/
theorem gen_parser_is_modelled :
    hostBlockFlags = ["DOTALL", "IGNORECASE", "MULTILINE"] ∧
    optKeywords.map (·.1) = ["hosts", "hostname", "port", "user", "identities_only", "identity_file"] ∧
    optKeywords.map (·.2) = [hostKw, hostKw ++ ['n', 'a', 'm', 'e'], ['p', 'o', 'r', 't'], ['u', 's', 'e', 'r'],
      ['i', 'd', 'e', 'n', 't', 'i', 't', 'i', 'e', 's', 'o', 'n', 'l', 'y'], ['i', 'd', 'e', 'n', 't', 'i', 't', 'y', 'f', 'i', 'l', 'e']] ∧
    kindOf "hosts" = .rest ∧ kindOf "identities_only" = .alts [['y', 'e', 's'], ['n', 'o']] ∧
    (∃ c, kindOf "port" = .plus c ∧ c = ['0', '1', '2', '3', '4', '5', '6', '7', '8', '9']) ∧
    (∃ c, kindOf "user" = .star c) ∧ (∃ c, kindOf "hostname" = .star c) ∧ (∃ c, kindOf "identity_file" = .star c) ∧
    khLineFlags = ["IGNORECASE", "MULTILINE"] ∧
    khTy '\n' = false ∧ khTy ' ' = false ∧ khTy '\t' = false ∧ khTy '-' = true ∧ khTy '@' = true ∧ khTy '.' = true := by
  refine ⟨by decide, by decide, by decide, by decide, by decide, ⟨_, rfl, by decide⟩, ⟨_, rfl⟩, ⟨_, rfl⟩, ⟨_, rfl⟩,
    by decide, by decide, by decide, by decide, by decide, by decide, by decide⟩

/-- **known_hosts print/parse round trip**: for EVERY list of source lines — key lines in any legal spelling
    (indentation, runs of blanks / tabs between the fields, a trailing comment field) interleaved with any number of
    blank lines, `#` comments and `@revoked` / `@cert-authority` marker lines — that satisfies the decidable
    well-formedness predicate `KSrc.wf`, the model of `SSHKnownHosts._parse` applied to the rendered TEXT yields exactly
    the (host field, key type, key) triples written in the file, in order; comment and marker lines contribute nothing. -/
theorem known_hosts_parse_roundtrip (ls : List KSrc) (h : ∀ l ∈ ls, l.wf = true) :
    khParse (khRender ls) = ls.filterMap KSrc.meaning := khParse_render ls h

/-- hence, END TO END from the file text: a key returned for `name` by a lookup on the text is the key of a written line
    that records `name` (`known_hosts_exact` composed with the round trip) — never one of a marker or comment line -/
theorem known_hosts_text_exact (hm : Str → Str → Str → Option Bool) (ls : List KSrc) (h : ∀ l ∈ ls, l.wf = true)
    (name : Str) (v : Str × Str) (hv : khLookupText hm (khRender ls) name = .ok (some v)) :
    ∃ l ∈ ls, ∃ kl, l.meaning = some kl ∧ Records hm kl name ∧ kl.val = v := by
  unfold khLookupText at hv
  rw [khParse_render ls h] at hv
  obtain ⟨kl, hkl, hr, hval⟩ := known_hosts_exact hm _ name v hv
  obtain ⟨l, hl, hm'⟩ := List.mem_filterMap.mp hkl
  exact ⟨l, hl, kl, hm', hr, hval⟩

/-- ... and a host listed literally on a written key line always gets a recorded key, from the text, whatever blank /
    comment / marker lines and spellings the file contains -/
theorem known_hosts_text_plain_found (hm : Str → Str → Str → Option Bool) (ls : List KSrc) (h : ∀ l ∈ ls, l.wf = true)
    (name : Str) (hn : ∃ l ∈ ls, ∃ kl, l.meaning = some kl ∧ name ∈ splitOn ',' kl.host) :
    ∃ v, khLookupText hm (khRender ls) name = .ok (some v) ∧
      ∃ l ∈ ls, ∃ kl, l.meaning = some kl ∧ name ∈ splitOn ',' kl.host ∧ kl.val = v := by
  obtain ⟨l, hl, kl, hm', hmem⟩ := hn
  obtain ⟨v, hv, kl', hkl', h1, h2⟩ := known_hosts_plain_found hm (ls.filterMap KSrc.meaning) name
    ⟨kl, List.mem_filterMap.mpr ⟨l, hl, hm'⟩, hmem⟩
  refine ⟨v, by unfold khLookupText; rw [khParse_render ls h]; exact hv, ?_⟩
  obtain ⟨l', hl', hm''⟩ := List.mem_filterMap.mp hkl'
  exact ⟨l', hl', kl', hm'', h1, h2⟩

/-- non-vacuity: a file with an indented key line with tabs and a comment field, a comment that looks like a key line,
    a revoked key for the same host and a blank line is well-formed; the revoked key is not what the lookup returns -/
def exKSrc : List KSrc :=
  [.skip "# sw1 ssh-rsa OLD".toList, .skip "@revoked sw1 ssh-rsa BAD".toList,
   .entry [' '] "sw1,10.0.0.1".toList ['\t', ' '] "sk-ssh-ed25519@openssh.com".toList [' '] "AAAA".toList " root@bastion".toList,
   .skip []]
example : (∀ l ∈ exKSrc, l.wf = true) ∧
    khLookupText (fun _ _ _ => some false) (khRender exKSrc) "sw1".toList =
      .ok (some ("sk-ssh-ed25519@openssh.com".toList, "AAAA".toList)) := ⟨by decide, by rfl⟩


/-- **lookup from the file TEXT never raises once the file parsed**: for EVERY text, name and `expanduser` function, either
    the text parser itself fails (the only way: shlex's ValueError on an unbalanced quote / dangling backslash in a Host
    line, e.g. `Host 'a`), or `SSHConfig(text).lookup(name)` returns a Host — `lookup_total_full` composed with the parser -/
theorem lookup_text_total (expand : Str → Str) (text name : Str) :
    (∃ r, lookupText expand [] text name = .ok r) ∨ (∃ e, parseCfg expand text = .error e) := by
  cases hp : parseCfg expand text with
  | error e => exact Or.inr ⟨e, rfl⟩
  | ok parsed =>
    obtain ⟨r, hr⟩ := lookup_total_full parsed name
    exact Or.inl ⟨r, by simp [lookupText, hp, bind, Except.bind, hr]⟩

/-- the failing branch is real (replayed on the real code by the correspondence: `Host 'a` makes `SSHConfig(path)` raise
    ValueError), and a well-formed text goes through the parser to the entry written in it -/
example : parseCfg id "Host 'a\n".toList = .error .valueError := by rfl
example : lookupText id [] "# c\n  hOsT =  sw1 sw2 # x\n\tPORT=22\n  IdentityFile ~/.ssh/k\n\nHost *\n User u\n".toList "sw2".toList =
    .ok { hosts := "sw1 sw2".toList, hostname := .none,
          attrs := [.int 22, .str "u".toList, .none, .none, .none, .none, .str "~/.ssh/k".toList, .none, .none, .none] } := by rfl

end Scrapli.SSHConfig
