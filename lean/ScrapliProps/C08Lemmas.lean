import ScrapliModel.Loss
/-
  C08 — helper lemmas: what totality of the generated maps gives (`Good`), the invariant of the
  session state, one characterisation of `step`, and its consequences for `exec`.
-/
namespace Scrapli.Loss
open Scrapli.Gen.Loss

/-- the consequences of `mapTotal t` that the proofs use -/
structure Good (t : Transport) : Prop where
  fresh_ok : ∀ c m o, domain t m o = true → (errMapC t c m o).ok = true
  fresh_readOK : ∀ c o, domain t .read o = true → (errMapC t c .read o).readOK = true
  fresh_read : ∀ c o, domain t .read o = true → neverData t o = true → (errMapC t c .read o).readLossOK = true
  fresh_busy : ∀ c o, domain t .read o = true → errMapC t c .read o = .retEmptyBusy → setsLoss t o = true
  post_ne : ∀ lm lo, (lm = .read ∨ lm = .write) → domain t lm lo = true → setsLoss t lo = true →
    postRead t lm lo ≠ []
  post_read : ∀ c lm lo o, (lm = .read ∨ lm = .write) → domain t lm lo = true → setsLoss t lo = true →
    o ∈ postRead t lm lo →
    neverData t o = true ∧ (after2 t c lm lo .read o).ok = true ∧ (after2 t c lm lo .read o).readLossOK' = true
  post_write : ∀ c lm lo o, (lm = .read ∨ lm = .write) → domain t lm lo = true → setsLoss t lo = true →
    domain t .write o = true → (after2 t c lm lo .write o).ok = true
  post_close : ∀ c lm lo o, (lm = .read ∨ lm = .write) → domain t lm lo = true → setsLoss t lo = true →
    domain t .close o = true → (after2 t c lm lo .close o).ok = true
  none_read : errMap t .read .none = .raiseS .notOpened
  none_write : errMap t .write .none = .raiseS .notOpened
  none_alive : errMap t .isalive .none = .retFalse
  write_data : ∀ c, (errMapC t c .write .data).isRaise = false

theorem good_of_total {t : Transport} (h : mapTotal t) : Good t := by
  unfold mapTotal mapTotalB at h
  simp only [Bool.and_eq_true, List.all_eq_true, beq_iff_eq, Bool.not_eq_eq_eq_not,
    Bool.not_true] at h
  obtain ⟨⟨⟨hf, ha⟩, ⟨⟨⟨hn1, hn2⟩, hn3⟩, _⟩⟩, hw⟩ := h
  have hfresh : ∀ c m o, freshOK t c m o = true :=
    fun c m o => hf c (Ctrl.mem_all c) m (Method.mem_all m) o (Outcome.mem_all o)
  have hafter : ∀ c lm lo, (lm = .read ∨ lm = .write) → afterOK t c lm lo = true := by
    intro c lm lo hlm
    have := ha c (Ctrl.mem_all c) lo (Outcome.mem_all lo)
    rcases hlm with rfl | rfl
    · exact this.1
    · exact this.2
  refine ⟨?_, ?_, ?_, ?_, ?_, ?_, ?_, ?_, hn1, hn2, hn3, fun c => hw c (Ctrl.mem_all c)⟩
  · intro c m o hd
    have := hfresh c m o
    simp [freshOK, hd] at this
    exact this.1.1.1
  · intro c o hd
    have := hfresh c .read o
    simp [freshOK, hd] at this
    exact this.1.1.2
  · intro c o hd hnd
    have := hfresh c .read o
    simp [freshOK, hd, hnd] at this
    exact this.1.2
  · intro c o hd hb
    have := hfresh c .read o
    simp [freshOK, hd, hb] at this
    exact this.2
  · intro lm lo hlm hd hs
    have := hafter .c0 lm lo hlm
    simp [afterOK, hd, hs] at this
    intro hnil
    exact this.1.1.1 hnil
  · intro c lm lo o hlm hd hs ho
    have := hafter c lm lo hlm
    simp [afterOK, hd, hs] at this
    have := this.1.1.2 o ho
    exact ⟨this.1.1, this.1.2, this.2⟩
  · intro c lm lo o hlm hd hs hdo
    have := hafter c lm lo hlm
    simp [afterOK, hd, hs] at this
    have := this.1.2 o (Outcome.mem_all o)
    simpa [hdo] using this
  · intro c lm lo o hlm hd hs hdo
    have := hafter c lm lo hlm
    simp [afterOK, hd, hs] at this
    have := this.2 o (Outcome.mem_all o)
    simpa [hdo] using this

/-- invariant of the session state: the recorded loss is a detectable in-domain loss of a read or write -/
def InvSt (t : Transport) (st : TState) : Prop :=
  ∀ lm lo, st.lossBy = some (lm, lo) → (lm = .read ∨ lm = .write) ∧ domain t lm lo = true ∧ setsLoss t lo = true

theorem invSt_init (t : Transport) (b : Bool) (c : Ctrl) : InvSt t ⟨b, none, c⟩ := by
  intro lm lo h; simp at h

theorem tNext_opened_eq (t : Transport) (st : TState) (m : Method) (o : Outcome) :
    (tNext t st m o).opened = (tNext0 t st m o).opened := rfl

theorem tNext_lossBy_eq (t : Transport) (st : TState) (m : Method) (o : Outcome) :
    (tNext t st m o).lossBy = (tNext0 t st m o).lossBy := rfl

theorem tNext_inv {t : Transport} {st : TState} {m : Method} {o : Outcome} (hi : InvSt t st)
    (hd : domain t m o = true) : InvSt t (tNext t st m o) := by
  suffices h : InvSt t (tNext0 t st m o) by
    intro lm lo hl; exact h lm lo (by rw [← tNext_lossBy_eq]; exact hl)
  unfold tNext0
  by_cases hop : st.opened = true
  · simp only [hop, Bool.not_true, Bool.false_eq_true, ↓reduceIte]
    have key : ∀ s1 : TState, InvSt t s1 → InvSt t (if m == .close then { s1 with opened := false } else s1) := by
      intro s1 h1
      split
      · intro lm lo h; exact h1 lm lo h
      · exact h1
    apply key
    by_cases hc : (st.lossBy.isNone && (m == .read || m == .write) && setsLoss t o) = true
    · simp only [hc, ↓reduceIte]
      simp only [Bool.and_eq_true, Bool.or_eq_true, beq_iff_eq] at hc
      intro lm lo h
      simp at h
      obtain ⟨rfl, rfl⟩ := h
      exact ⟨hc.1.2, hd, hc.2⟩
    · simp only [hc, Bool.false_eq_true, ↓reduceIte]
      by_cases hu : eofUpgrade t st m o = true
      · simp only [hu, ↓reduceIte]
        intro lm lo h
        simp at h
        obtain ⟨rfl, rfl⟩ := h
        unfold eofUpgrade at hu
        cases hl : st.lossBy with
        | none => simp [hl] at hu
        | some x =>
          obtain ⟨a, b⟩ := x
          simp only [hl, Bool.and_eq_true] at hu
          exact ⟨Or.inl rfl, hu.1.2, hu.2⟩
      · simp only [hu, Bool.false_eq_true, ↓reduceIte]; exact hi
  · simp only [hop, Bool.not_false, ↓reduceIte]; simpa using hi

theorem tNext_opened {t : Transport} {st : TState} {m : Method} {o : Outcome} (hm : m ≠ .close) :
    (tNext t st m o).opened = st.opened := by
  rw [tNext_opened_eq]
  unfold tNext0
  by_cases hop : st.opened = true <;> simp [hop, hm]
  split
  · simp [hop]
  · split <;> simp [hop]

/-- a recorded loss stays recorded (it may be replaced by `read×empty`) -/
theorem tNext_isSome {t : Transport} {st : TState} {m : Method} {o : Outcome}
    (h : st.lossBy.isSome = true) : (tNext t st m o).lossBy.isSome = true := by
  rw [tNext_lossBy_eq]
  unfold tNext0
  have hn : st.lossBy.isNone = false := by cases hl : st.lossBy <;> simp_all
  by_cases hop : st.opened = true <;> simp [hop, hn]
  · split
    · split <;> simp [h]
    · split <;> simp [h]
  · exact h

/-- the recorded loss never disappears -/
theorem tNext_isNone {t : Transport} {st : TState} {m : Method} {o : Outcome}
    (h : (tNext t st m o).lossBy.isNone = true) : st.lossBy.isNone = true := by
  cases hl : st.lossBy with
  | none => rfl
  | some x =>
    have := @tNext_isSome t st m o (by simp [hl])
    cases hh : (tNext t st m o).lossBy <;> simp_all

/-- a read/write with a detectable loss outcome on an opened, not yet lost session records the loss -/
theorem tNext_sets {t : Transport} {st : TState} {m : Method} {o : Outcome} (hm : m = .read ∨ m = .write)
    (hop : st.opened = true) (hs : setsLoss t o = true) : (tNext t st m o).lossBy.isSome = true := by
  cases hl : st.lossBy with
  | some x => exact tNext_isSome (by simp [hl])
  | none =>
    rw [tNext_lossBy_eq]
    unfold tNext0
    have hm' : (m == .read || m == .write) = true := by rcases hm with rfl | rfl <;> simp
    simp [hop, hl, hs, hm']
    split <;> simp

theorem effOutcome_mem {t : Transport} {st : TState} {lm : Method} {lo o : Outcome}
    (hl : st.lossBy = some (lm, lo)) (hne : postRead t lm lo ≠ []) :
    effOutcome t st .read o ∈ postRead t lm lo := by
  unfold effOutcome
  simp only [hl, beq_self_eq_true, ↓reduceIte]
  by_cases hc : (postRead t lm lo).contains o = true
  · simp only [hc, ↓reduceIte]; simpa using hc
  · simp only [hc, Bool.false_eq_true, ↓reduceIte]
    cases hp : postRead t lm lo with
    | nil => exact absurd hp hne
    | cons a l => simp

theorem effOutcome_write {t : Transport} {st : TState} {o : Outcome} : effOutcome t st .write o = o := by
  unfold effOutcome; cases st.lossBy with
  | none => rfl
  | some x => obtain ⟨lm, lo⟩ := x; simp

/-- the act of a read in any reachable state -/
theorem read_act {t : Transport} (hg : Good t) {st : TState} (hi : InvSt t st) {o : Outcome}
    (hd : domain t .read o = true) :
    (tAct t st .read o).readOK = true ∧
    (tAct t st .read o = .retEmptyBusy → st.opened = true ∧ st.lossBy = none ∧ setsLoss t o = true) ∧
    (neverData t o = true → (tAct t st .read o).readLossOK = true) ∧
    (st.lossBy.isSome = true → (tAct t st .read o).readLossOK = true) := by
  unfold tAct
  by_cases hop : st.opened = true
  · simp only [hop, Bool.not_true, Bool.false_eq_true, ↓reduceIte]
    cases hl : st.lossBy with
    | none =>
      simp only
      refine ⟨hg.fresh_readOK _ o hd, ?_, hg.fresh_read _ o hd, by simp⟩
      intro hb; exact ⟨trivial, trivial, hg.fresh_busy _ o hd hb⟩
    | some x =>
      obtain ⟨lm, lo⟩ := x
      simp only
      obtain ⟨hlm, hdl, hsl⟩ := hi lm lo hl
      have hmem := @effOutcome_mem t st lm lo o hl (hg.post_ne lm lo hlm hdl hsl)
      obtain ⟨_, hok, hro⟩ := hg.post_read st.ctrl lm lo _ hlm hdl hsl hmem
      generalize after2 t st.ctrl lm lo .read (effOutcome t st .read o) = a at hok hro
      cases a <;> simp_all [Act.readLossOK', Act.readOK, Act.readLossOK]
      rename_i c; cases c <;> simp_all [Act.ok]
  · simp only [hop, Bool.not_false, ↓reduceIte]
    rw [hg.none_read]; simp [Act.readOK, Act.readLossOK]

/-- the act of a write in any reachable state -/
theorem write_act {t : Transport} (hg : Good t) {st : TState} (hi : InvSt t st) {o : Outcome}
    (hd : domain t .write o = true) : (tAct t st .write o).ok = true := by
  unfold tAct
  by_cases hop : st.opened = true
  · simp only [hop, Bool.not_true, Bool.false_eq_true, ↓reduceIte]
    cases hl : st.lossBy with
    | none => exact hg.fresh_ok _ .write o hd
    | some x =>
      obtain ⟨lm, lo⟩ := x
      simp only
      obtain ⟨hlm, hdl, hsl⟩ := hi lm lo hl
      rw [effOutcome_write]
      exact hg.post_write _ lm lo o hlm hdl hsl hd
  · simp only [hop, Bool.not_false, ↓reduceIte]
    rw [hg.none_write]; rfl

end Scrapli.Loss

namespace Scrapli.Loss
open Scrapli.Gen.Loss

/-- session known to be gone on the scrapli side: handle dropped, or a loss recorded -/
def Dead (st : TState) : Prop := st.opened = false ∨ st.lossBy.isSome = true

/-- a result of one transition: same tick count; either the program was finished, or an allowed scrapli class was raised -/
def ResOK (cf : Cfg) (r : Res) : Prop :=
  r.ticks = cf.ticks ∧ ((r.out = .done ∧ cf.prog = []) ∨ ∃ c, r.out = .raised c ∧ c ≠ .other)

/-- what one transition guarantees -/
def StepOK (t : Transport) (env : Env) (T : Nat) (cf : Cfg) (x : Cfg ⊕ Res) : Prop :=
  match x with
  | .inr r => ResOK cf r ∧ InvSt t r.st
  | .inl cf' => InvSt t cf'.st ∧ cf'.mu T < cf.mu T ∧ cf.ticks ≤ cf'.ticks ∧ (cf.ticks ≤ T → cf'.ticks ≤ T)
      ∧ cf.calls < cf'.calls
      ∧ ((∀ i, cf.calls ≤ i → neverData t (env i .read) = true) → hasRead cf.prog = true → hasRead cf'.prog = true)

theorem ok_raise_cases {a : Act} (h : a.ok = true) (hr : a.isRaise = true) : ∃ c, a = .raiseS c ∧ c ≠ .other := by
  cases a <;> simp_all [Act.ok, Act.isRaise]
  rename_i c; cases c <;> simp_all

theorem readOK_cases {a : Act} (h : a.readOK = true) :
    a = .retData ∨ a = .retEmpty ∨ a = .retEmptyBusy ∨ ∃ c, a = .raiseS c ∧ c ≠ .other := by
  cases a <;> simp_all [Act.readOK]

theorem mu_le_of {T : Nat} {p : Program} {st st' : TState} {c c' k : Nat}
    (h : st'.lossBy.isNone = true → st.lossBy.isNone = true) :
    (Cfg.mu T ⟨p, st', c', k⟩) ≤ (Cfg.mu T ⟨p, st, c, k⟩) := by
  unfold Cfg.mu
  simp only
  by_cases h1 : st'.lossBy.isNone = true
  · simp [h1, h h1]
  · simp [h1]

theorem fail_raiseS (cf : Cfg) (st : TState) (c : Cls) (n : Nat) :
    cf.fail st (.raiseS c) n = ⟨.raised c, st, n, cf.ticks⟩ := rfl

/-- a write step -/
theorem writeStep_spec {t : Transport} {env : Env} {T : Nat} {cf : Cfg} {p : Program} {a : Act} {st' : TState}
    {nc nt : Nat} (hok : a.ok = true) (hinv : InvSt t st')
    (hmu : Cfg.mu T ⟨p, st', nc, nt⟩ < cf.mu T) (hc : cf.calls < nc) (ht : cf.ticks ≤ nt) (ht2 : cf.ticks ≤ T → nt ≤ T)
    (hr : (∀ i, cf.calls ≤ i → neverData t (env i .read) = true) → hasRead cf.prog = true → hasRead p = true) :
    StepOK t env T cf (writeStep cf p a st' nc nt) := by
  unfold writeStep
  by_cases hra : a.isRaise = true
  · obtain ⟨c, hc', hne⟩ := ok_raise_cases hok hra
    subst hc'
    simp only [Act.isRaise, ↓reduceIte, fail_raiseS, StepOK]
    exact ⟨⟨rfl, Or.inr ⟨c, rfl, hne⟩⟩, hinv⟩
  · simp only [hra, Bool.false_eq_true, ↓reduceIte, StepOK]
    exact ⟨hinv, hmu, ht, ht2, hc, hr⟩

/-- a read-loop iteration -/
theorem readStep_spec {t : Transport} (hg : Good t) {env : Env} (hd : InDomain t env) {T : Nat}
    {s : Step} {p : Program} {st : TState} {calls ticks : Nat} (hi : InvSt t st) (hs : s ≠ .w) (hT : ¬ T ≤ ticks) :
    StepOK t env T ⟨s :: p, st, calls, ticks⟩
      (readStep ⟨s :: p, st, calls, ticks⟩ s p (env calls .read) (tAct t st .read (env calls .read))
        (tNext t st .read (env calls .read))) := by
  obtain ⟨hrok, hbusy, hnd, _⟩ := read_act hg hi (hd calls).1
  have hinv := @tNext_inv t st .read (env calls .read) hi (hd calls).1
  have hmu := @mu_le_of T p st (tNext t st .read (env calls .read)) calls (calls + 1) ticks tNext_isNone
  have hhr : hasRead (s :: p) = true := by cases s <;> simp_all [hasRead]
  unfold Cfg.mu at hmu; simp only at hmu
  unfold readStep
  rcases readOK_cases hrok with ha | ha | ha | ⟨c, ha, hne⟩
  · rw [ha]; simp only [Act.rk, StepOK]
    refine ⟨hinv, ?_, Nat.le_succ _, fun _ => by omega, Nat.lt_succ_self _, ?_⟩
    · unfold Cfg.mu; simp only
      split <;> simp only [List.length_cons] <;> omega
    · intro hl _
      have := hnd (hl calls (Nat.le_refl _))
      rw [ha] at this; simp [Act.readLossOK] at this
  · rw [ha]; simp only [Act.rk, StepOK]
    refine ⟨hinv, ?_, Nat.le_succ _, fun _ => by omega, Nat.lt_succ_self _, fun _ _ => hhr⟩
    unfold Cfg.mu; simp only [List.length_cons]; omega
  · rw [ha]; simp only [Act.rk, StepOK]
    obtain ⟨hop, hl, hs'⟩ := hbusy ha
    have hset := @tNext_sets t st .read (env calls .read) (Or.inl rfl) hop hs'
    refine ⟨hinv, ?_, Nat.le_refl _, fun _ => by omega, Nat.lt_succ_self _, fun _ _ => hhr⟩
    unfold Cfg.mu; simp only [List.length_cons]
    have h1 : (tNext t st .read (env calls .read)).lossBy.isNone = false := by
      cases hh : (tNext t st .read (env calls .read)).lossBy <;> simp_all
    simp [h1, hl]
  · rw [ha]; simp only [Act.rk, fail_raiseS, StepOK]
    exact ⟨⟨rfl, Or.inr ⟨c, rfl, hne⟩⟩, hinv⟩

/-- **the characterisation of one transition** for a transport whose maps are total -/
theorem step_spec {t : Transport} (hg : Good t) {env : Env} (hd : InDomain t env) (T : Nat) (cf : Cfg)
    (hi : InvSt t cf.st) : StepOK t env T cf (step t env T cf) := by
  obtain ⟨prog, st, calls, ticks⟩ := cf
  simp only at hi
  cases prog with
  | nil => simp [step, StepOK, ResOK]; exact hi
  | cons s p =>
    cases s with
    | w =>
      simp only [step]
      have hmu := @mu_le_of T p st (tNext t st .write (env calls .write)) calls (calls + 1) ticks tNext_isNone
      apply writeStep_spec (write_act hg hi (hd calls).2) (tNext_inv hi (hd calls).2)
      · unfold Cfg.mu at hmu ⊢; simp only [List.length_cons] at hmu ⊢; omega
      · exact Nat.lt_succ_self _
      · exact Nat.le_refl _
      · intro h; exact h
      · intro _ h; simpa [hasRead] using h
    | r =>
      simp only [step]
      by_cases hT : T ≤ ticks
      · simp only [hT, ↓reduceIte, Cfg.timedOut, StepOK]
        refine ⟨⟨rfl, Or.inr ⟨.timeout, rfl, by decide⟩⟩, ?_⟩
        intro lm lo h; exact hi lm lo h
      · simp only [hT, ↓reduceIte]
        exact readStep_spec hg hd hi (by decide) hT
    | ra =>
      simp only [step]
      by_cases hT : T ≤ ticks
      · simp only [hT, ↓reduceIte, Cfg.timedOut, StepOK]
        refine ⟨⟨rfl, Or.inr ⟨.timeout, rfl, by decide⟩⟩, ?_⟩
        intro lm lo h; exact hi lm lo h
      · simp only [hT, ↓reduceIte]
        by_cases hce : tAct t st .read (env calls .read) = .raiseS .connError
        · simp only [hce, ↓reduceIte]
          have hinv := @tNext_inv t st .read (env calls .read) hi (hd calls).1
          have hmu1 := @mu_le_of T p st (tNext t st .read (env calls .read)) calls calls ticks tNext_isNone
          have hmu2 := @mu_le_of T p (tNext t st .read (env calls .read))
            (tNext t (tNext t st .read (env calls .read)) .write (env (calls + 1) .write)) calls calls ticks tNext_isNone
          apply writeStep_spec (write_act hg hinv (hd (calls + 1)).2) (tNext_inv hinv (hd (calls + 1)).2)
          · unfold Cfg.mu at hmu1 hmu2 ⊢; simp only [List.length_cons] at hmu1 hmu2 ⊢; omega
          · simp only; omega
          · exact Nat.le_succ _
          · intro h; simp only at h; omega
          · intro _ _; rfl
        · simp only [hce, ↓reduceIte]
          exact readStep_spec hg hd hi (by decide) hT

/-! ### consequences for `exec` -/

/-- everything `exec` guarantees for a transport whose maps are total -/
theorem exec_spec {t : Transport} (hg : Good t) {env : Env} (hd : InDomain t env) (T : Nat) :
    ∀ (n : Nat) (cf : Cfg), InvSt t cf.st → cf.ticks ≤ T →
      InvSt t (exec t env T n cf).st ∧ (exec t env T n cf).ticks ≤ T ∧ cf.calls ≤ (exec t env T n cf).calls
      ∧ (cf.mu T < n → (exec t env T n cf).out ≠ .hang)
      ∧ (∀ raw, (exec t env T n cf).out ≠ .raisedRaw raw)
      ∧ (∀ c, (exec t env T n cf).out = .raised c → c ≠ .other)
      ∧ ((∀ i, cf.calls ≤ i → neverData t (env i .read) = true) → hasRead cf.prog = true →
          (exec t env T n cf).out ≠ .done) := by
  intro n
  induction n with
  | zero =>
    intro cf hi ht
    simp only [exec]
    refine ⟨hi, ht, Nat.le_refl _, ?_, ?_, ?_, ?_⟩
    · intro h; exact absurd h (Nat.not_lt_zero _)
    · intro _ h; cases h
    · intro _ h; cases h
    · intro _ _ h; cases h
  | succ n ih =>
    intro cf hi ht
    have hs := step_spec hg hd T cf hi
    simp only [exec]
    cases hst : step t env T cf with
    | inr r =>
      rw [hst] at hs
      obtain ⟨⟨htk, hout⟩, hinv⟩ := hs
      simp only
      refine ⟨hinv, by omega, ?_, ?_, ?_, ?_, ?_⟩
      · -- calls never decrease: read it off the definition
        have : cf.calls ≤ r.calls := by
          obtain ⟨prog, st, calls, ticks⟩ := cf
          cases prog with
          | nil => simp [step] at hst; subst hst; exact Nat.le_refl _
          | cons s p =>
            cases s <;> simp only [step, writeStep, readStep, Cfg.timedOut, Cfg.fail] at hst
            all_goals (repeat' split at hst) <;> simp_all <;> (try subst hst) <;> simp <;> omega
        exact this
      · intro _ h
        rcases hout with ⟨h1, _⟩ | ⟨c, h1, _⟩ <;> rw [h1] at h <;> cases h
      · intro raw h
        rcases hout with ⟨h1, _⟩ | ⟨c, h1, _⟩ <;> rw [h1] at h <;> cases h
      · intro c h
        rcases hout with ⟨h1, _⟩ | ⟨c', h1, hne⟩ <;> rw [h1] at h
        · cases h
        · cases h; exact hne
      · intro _ hr h
        rcases hout with ⟨_, h2⟩ | ⟨c, h1, _⟩
        · rw [h2] at hr; simp [hasRead] at hr
        · rw [h1] at h; cases h
    | inl cf' =>
      rw [hst] at hs
      obtain ⟨hinv, hmu, _, htk, hcalls, hread⟩ := hs
      simp only
      obtain ⟨i1, i2, i3, i4, i5, i6, i7⟩ := ih cf' hinv (htk ht)
      refine ⟨i1, i2, by omega, fun h => i4 (by omega), i5, i6, ?_⟩
      intro hl hr
      exact i7 (fun i hi' => hl i (by omega)) (hread hl hr)

/-- Dead is monotone along `tNext` (no close inside an operation) -/
theorem dead_tNext {t : Transport} {st : TState} {m : Method} {o : Outcome} (hm : m ≠ .close) (h : Dead st) :
    Dead (tNext t st m o) := by
  rcases h with h | h
  · left; rw [tNext_opened hm]; exact h
  · right; exact tNext_isSome h

theorem fail_st (cf : Cfg) (st : TState) (a : Act) (n : Nat) : (cf.fail st a n).st = st := by
  cases a <;> rfl

/-- under a dead environment every result that is not `done` leaves a state scrapli knows to be dead -/
theorem step_dead {t : Transport} (hg : Good t) {env : Env} (T : Nat) (cf : Cfg)
    (hdead : DeadFrom t cf.calls env) :
    match step t env T cf with
    | .inr r => r.out = .done ∨ Dead r.st
    | .inl cf' => Dead cf.st → Dead cf'.st := by
  obtain ⟨prog, st, calls, ticks⟩ := cf
  have hrd : ∀ s' : TState, s' = tNext t st .read (env calls .read) → (tAct t st .read (env calls .read)).rk = .exc → Dead s' := by
    intro s' hs' _
    subst hs'
    by_cases hop : st.opened = true
    · right; exact tNext_sets (Or.inl rfl) hop (hdead calls (Nat.le_refl _)).1
    · left; rw [tNext_opened (by decide)]; simpa using hop
  have hwr : ∀ (st0 : TState) (i : Nat), calls ≤ i → (tAct t st0 .write (env i .write)).isRaise = true →
      Dead (tNext t st0 .write (env i .write)) := by
    intro st0 i hi hra
    by_cases hop : st0.opened = true
    · cases hl : st0.lossBy with
      | some x => right; exact tNext_isSome (by simp [hl])
      | none =>
        rcases (hdead i hi).2 with hdat | hsl
        · exfalso
          have := hg.write_data st0.ctrl
          unfold tAct at hra; simp [hop, hl, hdat, this] at hra
        · right; exact tNext_sets (Or.inr rfl) hop hsl
    · left; rw [tNext_opened (by decide)]; simpa using hop
  cases prog with
  | nil => simp [step]
  | cons s p =>
    cases s with
    | w =>
      simp only [step, writeStep]
      by_cases hra : (tAct t st .write (env calls .write)).isRaise = true
      · simp only [hra, ↓reduceIte, fail_st]; right; exact hwr st calls (Nat.le_refl _) hra
      · simp only [hra, Bool.false_eq_true, ↓reduceIte]; exact dead_tNext (by decide)
    | r =>
      simp only [step]
      by_cases hT : T ≤ ticks
      · simp only [hT, ↓reduceIte, Cfg.timedOut]; right; left; rfl
      · simp only [hT, ↓reduceIte, readStep]
        cases hk : (tAct t st .read (env calls .read)).rk <;> simp only
        · exact dead_tNext (by decide)
        · exact dead_tNext (by decide)
        · exact dead_tNext (by decide)
        · rw [fail_st]; right; exact hrd _ rfl hk
    | ra =>
      simp only [step]
      by_cases hT : T ≤ ticks
      · simp only [hT, ↓reduceIte, Cfg.timedOut]; right; left; rfl
      · simp only [hT, ↓reduceIte]
        by_cases hce : tAct t st .read (env calls .read) = .raiseS .connError
        · simp only [hce, ↓reduceIte, writeStep]
          by_cases hra : (tAct t (tNext t st .read (env calls .read)) .write (env (calls + 1) .write)).isRaise = true
          · simp only [hra, ↓reduceIte, fail_st]; right; exact hwr _ (calls + 1) (Nat.le_succ _) hra
          · simp only [hra, Bool.false_eq_true, ↓reduceIte]
            intro h; exact dead_tNext (by decide) (dead_tNext (by decide) h)
        · simp only [hce, ↓reduceIte, readStep]
          cases hk : (tAct t st .read (env calls .read)).rk <;> simp only
          · exact dead_tNext (by decide)
          · exact dead_tNext (by decide)
          · exact dead_tNext (by decide)
          · rw [fail_st]; right; exact hrd _ rfl hk

theorem exec_dead {t : Transport} (hg : Good t) {env : Env} (hd : InDomain t env) (T : Nat) :
    ∀ (n : Nat) (cf : Cfg), InvSt t cf.st → DeadFrom t cf.calls env →
      (exec t env T n cf).out = .done ∨ (exec t env T n cf).out = .hang ∨ Dead (exec t env T n cf).st := by
  intro n
  induction n with
  | zero => intro cf _ _; right; left; rfl
  | succ n ih =>
    intro cf hi hdead
    have hs := step_spec hg hd T cf hi
    have hdd := step_dead hg T cf hdead
    simp only [exec]
    cases hst : step t env T cf with
    | inr r =>
      rw [hst] at hdd; simp only at hdd ⊢
      rcases hdd with h | h
      · left; exact h
      · right; right; exact h
    | inl cf' =>
      rw [hst] at hs; simp only
      obtain ⟨hinv, _, _, _, hcalls, _⟩ := hs
      exact ih cf' hinv (fun i hi' => hdead i (by omega))

/-- composition: running `n + m` transitions = running `n`, then `m` more from where that got -/
theorem exec_add (t : Transport) (env : Env) (T : Nat) : ∀ (n m : Nat) (cf : Cfg),
    exec t env T (n + m) cf = match stepsTo t env T n cf with
      | .inl cf' => exec t env T m cf'
      | .inr r => r := by
  intro n
  induction n with
  | zero => intro m cf; simp [stepsTo]
  | succ n ih =>
    intro m cf
    rw [Nat.add_right_comm]
    simp only [exec, stepsTo]
    cases step t env T cf with
    | inl cf' => exact ih m cf'
    | inr r => rfl

/-- the intermediate configurations are reachable states: invariant, tick bound, progress -/
theorem stepsTo_spec {t : Transport} (hg : Good t) {env : Env} (hd : InDomain t env) (T : Nat) :
    ∀ (n : Nat) (cf cf' : Cfg), InvSt t cf.st → cf.ticks ≤ T → stepsTo t env T n cf = .inl cf' →
      InvSt t cf'.st ∧ cf'.ticks ≤ T ∧ cf'.mu T + n ≤ cf.mu T := by
  intro n
  induction n with
  | zero => intro cf cf' hi ht h; simp [stepsTo] at h; subst h; exact ⟨hi, ht, Nat.le_refl _⟩
  | succ n ih =>
    intro cf cf' hi ht h
    have hs := step_spec hg hd T cf hi
    simp only [stepsTo] at h
    cases hst : step t env T cf with
    | inr r => rw [hst] at h; cases h
    | inl c1 =>
      rw [hst] at h hs
      obtain ⟨hinv, hmu, _, htk, _, _⟩ := hs
      obtain ⟨a, b, c⟩ := ih c1 cf' hinv (htk ht) h
      exact ⟨a, b, by omega⟩

/-! ### small helpers of the property file -/

/-- the four classes the property allows -/
def allowed (c : Cls) : Prop := c = .connError ∨ c = .notOpened ∨ c = .authFailed ∨ c = .timeout

theorem allowed_of_ne_other {c : Cls} (h : c ≠ .other) : allowed c := by
  cases c <;> simp_all [allowed]

theorem neverData_of_setsLoss {t : Transport} {o : Outcome} (h : setsLoss t o = true) : neverData t o = true := by
  unfold setsLoss at h; simp only [Bool.and_eq_true] at h; exact h.1.1

theorem isalive_dead {t : Transport} (ht : mapTotal t) (ha : aliveTotal t) {st : TState} (hi : InvSt t st)
    (hdead : Dead st) : isaliveNow t st = .retFalse := by
  have hg := good_of_total ht
  unfold isaliveNow
  by_cases hop : st.opened = true
  · rcases hdead with h | h
    · rw [hop] at h; cases h
    · simp only [hop, Bool.not_true, Bool.false_eq_true, ↓reduceIte]
      cases hl : st.lossBy with
      | none => rw [hl] at h; simp at h
      | some x =>
        obtain ⟨lm, lo⟩ := x
        obtain ⟨hlm, hdl, hsl⟩ := hi lm lo hl
        unfold aliveTotal aliveTotalB at ha
        simp only [List.all_eq_true, Bool.and_eq_true, Bool.or_eq_true, Bool.not_eq_true', beq_iff_eq] at ha
        have := ha st.ctrl (Ctrl.mem_all _) lo (Outcome.mem_all lo)
        rcases hlm with rfl | rfl
        · rcases this.1 with h1 | h1
          · simp [hdl, hsl] at h1
          · exact h1
        · rcases this.2 with h1 | h1
          · simp [hdl, hsl] at h1
          · exact h1
  · simp only [hop, Bool.not_false, ↓reduceIte]; exact hg.none_alive

theorem getD_ge {α : Type} (l : List α) (d : α) (i : Nat) (h : l.length ≤ i) : l.getD i d = d := by
  simp [List.getD, List.getElem?_eq_none h]

/-! ### promptness: one read step on a dead session -/

/-- what `promptTotal t` gives for the rows after a loss -/
theorem prompt_rows {t : Transport} (hp : promptTotal t) (c : Ctrl) {lm : Method} {lo : Outcome}
    (hlm : lm = .read ∨ lm = .write) (hd : domain t lm lo = true) (hs : setsLoss t lo = true) :
    promptOK t c lm lo = true := by
  unfold promptTotal promptTotalB at hp
  simp only [List.all_eq_true, Bool.and_eq_true] at hp
  have := hp c (Ctrl.mem_all c) lo (Outcome.mem_all lo)
  rcases hlm with rfl | rfl
  · exact this.1
  · exact this.2

theorem isRaiseS_cases {a : Act} (h : a.isRaiseS = true) : ∃ c, a = .raiseS c := by
  cases a <;> simp_all [Act.isRaiseS]

/-- rank of a session state: an upper bound for the number of reads a dead session can still absorb
    without raising (3: nothing detected yet, 2: lost, 1: lost and every read raises, 0: closed) -/
def Settled (t : Transport) (st : TState) : Prop :=
  st.opened = false ∨ ∃ lm lo, st.lossBy = some (lm, lo) ∧ finalOK t st.ctrl lm lo = true

theorem readOK_raise_ne_other {a : Act} {c : Cls} (h : a.readOK = true) (ha : a = .raiseS c) : c ≠ .other := by
  subst ha; intro hc; subst hc; simp [Act.readOK] at h

/-- **one read-loop iteration on a dead session**: it raises an allowed class, or it is absorbed once and
    moves the session state strictly towards `Settled` -/
theorem read_step_prompt {t : Transport} (hg : Good t) (hp : promptTotal t) {env : Env} (hd : InDomain t env)
    (T : Nat) (cf : Cfg) (p : Program) (hprog : cf.prog = .r :: p) (hi : InvSt t cf.st)
    (hs : setsLoss t (env cf.calls .read) = true) :
    (∃ res c, step t env T cf = .inr res ∧ res.out = .raised c ∧ c ≠ .other ∧ res.calls ≤ cf.calls + 1) ∨
    (∃ cf', step t env T cf = .inl cf' ∧ cf'.prog = .r :: p ∧ cf'.calls = cf.calls + 1 ∧ InvSt t cf'.st
        ∧ ¬ Settled t cf.st ∧ (cf.st.lossBy.isSome = true → Settled t cf'.st) ∧ cf'.st.lossBy.isSome = true) := by
  obtain ⟨prog, st, calls, ticks⟩ := cf
  simp only at hprog hi hs
  subst hprog
  simp only [step]
  by_cases hT : T ≤ ticks
  · left
    exact ⟨Cfg.timedOut ⟨.r :: p, st, calls, ticks⟩, .timeout, by simp [hT], rfl, by decide, by simp [Cfg.timedOut]⟩
  · simp only [hT, ↓reduceIte]
    have hdom := (hd calls).1
    obtain ⟨hrok, hbusy, hnd, _⟩ := read_act hg hi hdom
    have hinv := @tNext_inv t st .read (env calls .read) hi hdom
    have hnever := neverData_of_setsLoss hs
    have hloss := hnd hnever
    -- the act is retEmpty, retEmptyBusy or raiseS
    have hcases : tAct t st .read (env calls .read) = .retEmpty ∨ tAct t st .read (env calls .read) = .retEmptyBusy
        ∨ ∃ c, tAct t st .read (env calls .read) = .raiseS c := by
      generalize tAct t st .read (env calls .read) = a at hloss
      cases a <;> simp_all [Act.readLossOK]
    have raised : ∀ c, tAct t st .read (env calls .read) = .raiseS c →
        ∃ res c', readStep ⟨.r :: p, st, calls, ticks⟩ .r p (env calls .read) (tAct t st .read (env calls .read))
            (tNext t st .read (env calls .read)) = .inr res ∧ res.out = .raised c' ∧ c' ≠ .other ∧ res.calls ≤ calls + 1 := by
      intro c hc
      refine ⟨⟨.raised c, tNext t st .read (env calls .read), calls + 1, ticks⟩, c, ?_, rfl,
        readOK_raise_ne_other hrok hc, Nat.le_refl _⟩
      rw [hc]; simp [readStep, Act.rk, fail_raiseS]
    by_cases hop : st.opened = true
    · cases hl : st.lossBy with
      | none =>
        rcases hcases with ha | ha | ⟨c, ha⟩
        · right
          refine ⟨⟨.r :: p, tNext t st .read (env calls .read), calls + 1, ticks + 1⟩,
            by rw [ha]; simp [readStep, Act.rk], rfl, rfl, hinv, ?_, by simp [hl],
            tNext_sets (Or.inl rfl) hop hs⟩
          rintro (h | ⟨lm, lo, h, _⟩)
          · rw [hop] at h; cases h
          · rw [hl] at h; cases h
        · right
          refine ⟨⟨.r :: p, tNext t st .read (env calls .read), calls + 1, ticks⟩,
            by rw [ha]; simp [readStep, Act.rk], rfl, rfl, hinv, ?_, by simp [hl],
            tNext_sets (Or.inl rfl) hop hs⟩
          rintro (h | ⟨lm, lo, h, _⟩)
          · rw [hop] at h; cases h
          · rw [hl] at h; cases h
        · left; exact raised c ha
      | some x =>
        obtain ⟨lm, lo⟩ := x
        obtain ⟨hlm, hdl, hsl⟩ := hi lm lo hl
        have hrow := prompt_rows hp st.ctrl hlm hdl hsl
        have hmem := @effOutcome_mem t st lm lo (env calls .read) hl (hg.post_ne lm lo hlm hdl hsl)
        have hact : tAct t st .read (env calls .read) = after2 t st.ctrl lm lo .read (effOutcome t st .read (env calls .read)) := by
          unfold tAct; simp [hop, hl]
        unfold promptOK at hrow
        simp only [hdl, hsl, Bool.and_self, Bool.not_true, Bool.false_or, List.all_eq_true] at hrow
        have hr := hrow _ hmem
        simp only [Bool.or_eq_true, Bool.and_eq_true] at hr
        rcases hr with hr | hr
        · obtain ⟨c, hc⟩ := isRaiseS_cases hr
          left; exact raised c (by rw [hact, hc])
        · rcases hcases with ha | ha | ⟨c, ha⟩
          · right
            obtain ⟨⟨⟨⟨heff, hnot⟩, hde⟩, hse⟩, hfin⟩ := hr
            have hup : eofUpgrade t st .read (env calls .read) = true := by
              unfold eofUpgrade; simp only [hl]; simp [heff, hnot, hde, hse]
            have hnext : (tNext t st .read (env calls .read)).lossBy = some (.read, .empty) := by
              rw [tNext_lossBy_eq]; unfold tNext0; simp [hop, hl, hup]
            have hctrl : (tNext t st .read (env calls .read)).ctrl = st.ctrl := by
              simp [tNext, ctrlNext, hl]
            refine ⟨⟨.r :: p, tNext t st .read (env calls .read), calls + 1, ticks + 1⟩,
              by rw [ha]; simp [readStep, Act.rk], rfl, rfl, hinv, ?_, ?_, by rw [hnext]; rfl⟩
            · rintro (h | ⟨lm', lo', h, hf⟩)
              · rw [hop] at h; cases h
              · rw [hl] at h; cases h
                unfold finalOK at hf; simp only [List.all_eq_true] at hf
                have := hf _ hmem
                rw [← hact, ha] at this; simp [Act.isRaiseS] at this
            · intro _; right; exact ⟨.read, .empty, hnext, by rw [hctrl]; exact hfin⟩
          · exfalso
            obtain ⟨_, hl', _⟩ := hbusy ha
            rw [hl] at hl'; cases hl'
          · left; exact raised c ha
    · left
      have : tAct t st .read (env calls .read) = .raiseS .notOpened := by
        unfold tAct; simp [hop, hg.none_read]
      exact raised _ this

/-- a settled session state raises at the next read: the second alternative of `read_step_prompt` is excluded -/
theorem exec_prompt {t : Transport} (hg : Good t) (hp : promptTotal t) {env : Env} (hd : InDomain t env)
    (T : Nat) (cf : Cfg) (p : Program) (hprog : cf.prog = .r :: p) (hi : InvSt t cf.st)
    (hdead : DeadFrom t cf.calls env) (n : Nat) :
    ∃ c, (exec t env T (n + 3) cf).out = .raised c ∧ c ≠ .other ∧ (exec t env T (n + 3) cf).calls ≤ cf.calls + 3 := by
  have hs0 := (hdead cf.calls (Nat.le_refl _)).1
  rcases read_step_prompt hg hp hd T cf p hprog hi hs0 with ⟨res, c, h1, h2, h3, h4⟩ | ⟨cf1, h1, hp1, hc1, hi1, _, _, hsome1⟩
  · refine ⟨c, ?_, h3, ?_⟩ <;> simp only [exec, h1] <;> first | exact h2 | omega
  · have hs1 := (hdead cf1.calls (by omega)).1
    rcases read_step_prompt hg hp hd T cf1 p hp1 hi1 hs1 with ⟨res, c, g1, g2, g3, g4⟩ | ⟨cf2, g1, hp2, hc2, hi2, _, hset, _⟩
    · refine ⟨c, ?_, g3, ?_⟩ <;> simp only [exec, h1, g1] <;> first | exact g2 | omega
    · have hs2 := (hdead cf2.calls (by omega)).1
      have hsettled := hset hsome1
      rcases read_step_prompt hg hp hd T cf2 p hp2 hi2 hs2 with ⟨res, c, k1, k2, k3, k4⟩ | ⟨cf3, _, _, _, _, hns, _, _⟩
      · refine ⟨c, ?_, k3, ?_⟩ <;> simp only [exec, h1, g1, k1] <;> first | exact k2 | omega
      · exact absurd hsettled hns

end Scrapli.Loss
