import ScrapliProps.C13Lemmas
import ScrapliModel.SendFault
/-
  C13 — helper lemmas for the failing channel (ScrapliModel/SendFault.lean); property theorems: C13.lean.
-/
namespace Scrapli.Send
open Scrapli

variable {μ : Type}

/-- number of lines the `for` loop sends when nothing fails on the channel (mirrors `loop`) -/
def loopCount (env : Env μ) (fwc : Fwc) (stop eager : Bool) : List Str → μ → Nat
  | [], _ => 0
  | c :: cs, m =>
    if stop && (mkResp env fwc eager m c).failed then 1
    else 1 + loopCount env fwc stop eager cs (env.next m c)

theorem loopCount_le (env : Env μ) (fwc : Fwc) (stop eager : Bool) (cs : List Str) (m : μ) :
    loopCount env fwc stop eager cs m ≤ cs.length := by
  induction cs generalizing m with
  | nil => simp [loopCount]
  | cons c cs ih =>
    simp only [loopCount, List.length_cons]
    split
    · omega
    · have := ih (env.next m c); omega

theorem loopCount_eq (env : Env μ) (fwc : Fwc) (stop eager : Bool) (cs : List Str) (m : μ) :
    loopCount env fwc stop eager cs m =
      if stop = true then (takeThrough (·.failed) (respsOf env fwc eager cs m)).length else cs.length := by
  induction cs generalizing m with
  | nil => simp [loopCount, respsOf, takeThrough]
  | cons c cs ih =>
    cases stop with
    | false => simp [loopCount, ih]; omega
    | true =>
      simp only [loopCount, Bool.true_and, respsOf, takeThrough, if_true]
      by_cases hf : (mkResp env fwc eager m c).failed = true
      · simp [hf]
      · simp only [hf, if_false, Bool.false_eq_true, List.length_cons]
        rw [ih]; simp; omega

/-- the failing call: the line at index `k`, on top of the state of the first `k` lines -/
def faultState (env : Env μ) (ret : Str) (o : Origin) (pt : Point) (ls : List Str) (k : Nat) (st : St μ) : St μ :=
  partialInput env ret o pt (ls.getD k []) (sendLines env ret o (ls.take k) st)

theorem faultState_cons (env : Env μ) (ret : Str) (o : Origin) (pt : Point) (l : Str) (ls : List Str) (k : Nat)
    (st : St μ) :
    faultState env ret o pt (l :: ls) (k + 1) st = faultState env ret o pt ls k (sendInput env ret o l st).1 := by
  simp [faultState, sendLines_cons]

theorem faultState_zero (env : Env μ) (ret : Str) (o : Origin) (pt : Point) (l : Str) (ls : List Str) (st : St μ) :
    faultState env ret o pt (l :: ls) 0 st = partialInput env ret o pt l st := by
  simp [faultState, sendLines]

theorem faultState_append_lt (env : Env μ) (ret : Str) (o : Origin) (pt : Point) (a b : List Str) (k : Nat)
    (st : St μ) (h : k < a.length) : faultState env ret o pt (a ++ b) k st = faultState env ret o pt a k st := by
  unfold faultState
  rw [List.take_append_of_le_length (by omega)]
  congr 1
  simp [List.getD_eq_getElem?_getD, List.getElem?_append_left h]

theorem faultState_append_last (env : Env μ) (ret : Str) (o : Origin) (pt : Point) (a : List Str) (l : Str)
    (st : St μ) :
    faultState env ret o pt (a ++ [l]) a.length st = partialInput env ret o pt l (sendLines env ret o a st) := by
  unfold faultState
  simp [List.getD_eq_getElem?_getD]

/-- closed form of `send_lines`-style sending over the failing channel -/
theorem sendLinesF_eq (env : Env μ) (ret : Str) (flt : Fault) (o : Origin) (ls : List Str) (st : St μ) (k : Nat) :
    sendLinesF env ret flt o ls ⟨st, k⟩ =
      if k < ls.length then .fault flt.kind ⟨faultState env ret o flt.point ls k st, 0⟩
      else .ok () ⟨sendLines env ret o ls st, k - ls.length⟩ := by
  induction ls generalizing st k with
  | nil => simp [sendLinesF, sendLines]
  | cons l ls ih =>
    cases k with
    | zero => simp [sendLinesF, sendInputF, FOut.bind, faultState_zero]
    | succ k =>
      simp only [sendLinesF, sendInputF, FOut.bind, ih, List.length_cons, Nat.add_lt_add_iff_right,
        faultState_cons, sendLines_cons, Nat.add_sub_add_right]

theorem loopF_cons_succ (env : Env μ) (ret : Str) (flt : Fault) (o : Origin) (fwc : Fwc) (stop eager : Bool)
    (c : Str) (cs : List Str) (st : St μ) (k : Nat) (acc : List Resp) :
    loopF env ret flt o fwc stop eager (c :: cs) ⟨st, k + 1⟩ acc =
      if (stop && (mkResp env fwc eager st.mode c).failed) = true then
        .ok (acc ++ [mkResp env fwc eager st.mode c], true) ⟨(sendInput env ret o c st).1, k⟩
      else loopF env ret flt o fwc stop eager cs ⟨(sendInput env ret o c st).1, k⟩
        (acc ++ [mkResp env fwc eager st.mode c]) := rfl

theorem loop_cons (env : Env μ) (ret : Str) (o : Origin) (fwc : Fwc) (stop eager : Bool)
    (c : Str) (cs : List Str) (st : St μ) (acc : List Resp) :
    loop env ret o fwc stop eager (c :: cs) st acc =
      if (stop && (mkResp env fwc eager st.mode c).failed) = true then
        ((sendInput env ret o c st).1, acc ++ [mkResp env fwc eager st.mode c], true)
      else loop env ret o fwc stop eager cs (sendInput env ret o c st).1 (acc ++ [mkResp env fwc eager st.mode c]) := rfl

/-- closed form of the `for` loop over the failing channel: the fault hits iff the loop reaches line `k` -/
theorem loopF_eq (env : Env μ) (ret : Str) (flt : Fault) (o : Origin) (fwc : Fwc) (stop eager : Bool)
    (cs : List Str) (st : St μ) (k : Nat) (acc : List Resp) :
    loopF env ret flt o fwc stop eager cs ⟨st, k⟩ acc =
      if k < loopCount env fwc stop eager cs st.mode then
        .fault flt.kind ⟨faultState env ret o flt.point cs k st, 0⟩
      else .ok ((loop env ret o fwc stop eager cs st acc).2.1, (loop env ret o fwc stop eager cs st acc).2.2)
        ⟨(loop env ret o fwc stop eager cs st acc).1, k - loopCount env fwc stop eager cs st.mode⟩ := by
  induction cs generalizing st k acc with
  | nil => simp [loopF, loop, loopCount]
  | cons c cs ih =>
    cases k with
    | zero =>
      have hpos : 0 < loopCount env fwc stop eager (c :: cs) st.mode := by
        simp only [loopCount]; split <;> omega
      simp [loopF, sendCommand1F, sendInputF, FOut.bind, faultState_zero, hpos]
    | succ k =>
      rw [loopF_cons_succ, loop_cons]
      simp only [loopCount]
      by_cases hf : (stop && (mkResp env fwc eager st.mode c).failed) = true
      · simp [hf]
      · simp only [hf, if_false, Bool.false_eq_true]
        rw [ih, faultState_cons]
        have hm : (sendInput env ret o c st).1.mode = env.next st.mode c := rfl
        rw [hm]
        have e : 1 + loopCount env fwc stop eager cs (env.next st.mode c) =
            loopCount env fwc stop eager cs (env.next st.mode c) + 1 := by omega
        rw [e]
        simp only [Nat.add_lt_add_iff_right, Nat.add_sub_add_right]

theorem loop_broke (env : Env μ) (ret : Str) (o : Origin) (fwc : Fwc) (stop eager : Bool) (cs : List Str) (st : St μ)
    (acc : List Resp) :
    (loop env ret o fwc stop eager cs st acc).2.2 = (stop && (respsOf env fwc eager cs st.mode).any (·.failed)) := by
  cases stop with
  | false => rw [loop_nostop]; simp
  | true => rw [loop_stop]; simp

/-- the loop did not break: every line was sent -/
theorem loop_nobreak (env : Env μ) (ret : Str) (o : Origin) (fwc : Fwc) (stop eager : Bool) (cs : List Str) (st : St μ)
    (acc : List Resp) (h : (stop && (respsOf env fwc eager cs st.mode).any (·.failed)) = false) :
    (loop env ret o fwc stop eager cs st acc).1 = sendLines env ret o cs st ∧
      loopCount env fwc stop eager cs st.mode = cs.length := by
  cases stop with
  | false => rw [loop_nostop, loopCount_eq]; simp
  | true =>
    have hany : (respsOf env fwc eager cs st.mode).any (·.failed) = false := by simpa using h
    have hnone := takeThrough_none (fun r : Resp => r.failed) _ hany
    rw [loop_stop, loopCount_eq]
    simp only [hnone, respsOf_length, List.take_length, if_true, and_self]

/-- number of `send_input` calls of one `GenericDriver.send_commands` when nothing fails on the channel -/
def genericCount (env : Env μ) (fwc : Fwc) (stop eager : Bool) (commands : List Str) (m : μ) : Nat :=
  if (stop && (respsOf env fwc eager commands.dropLast m).any (·.failed)) = true then
    loopCount env fwc stop eager commands.dropLast m
  else match commands.getLast? with
    | none => loopCount env fwc stop eager commands.dropLast m
    | some _ => loopCount env fwc stop eager commands.dropLast m + 1

/-- closed form of `GenericDriver.send_commands` over the failing channel -/
theorem genericF_eq (env : Env μ) (ret : Str) (flt : Fault) (o : Origin) (fwc : Fwc) (stop eager : Bool)
    (commands : List Str) (st : St μ) (k : Nat) :
    genericSendCommandsF env ret flt o fwc stop eager commands ⟨st, k⟩ =
      if k < genericCount env fwc stop eager commands st.mode then
        .fault flt.kind ⟨faultState env ret o flt.point commands k st, 0⟩
      else .ok ((genericSendCommands env ret o fwc stop eager commands st).resps,
                (genericSendCommands env ret o fwc stop eager commands st).err)
        ⟨(genericSendCommands env ret o fwc stop eager commands st).st,
          k - genericCount env fwc stop eager commands st.mode⟩ := by
  rcases List.eq_nil_or_concat commands with h | ⟨init, last, h⟩
  · subst h
    simp [genericSendCommandsF, genericSendCommands, loopF, loop, FOut.bind, genericCount, loopCount, respsOf]
  · rw [List.concat_eq_append] at h
    subst h
    have hle := loopCount_le env fwc stop eager init st.mode
    unfold genericSendCommandsF genericSendCommands genericCount
    simp only [List.dropLast_concat, List.getLast?_concat, loopF_eq, loop_broke]
    by_cases hk : k < loopCount env fwc stop eager init st.mode
    · have hk' : k < init.length := by omega
      have hlt : k < (if (stop && (respsOf env fwc eager init st.mode).any (·.failed)) = true
          then loopCount env fwc stop eager init st.mode else loopCount env fwc stop eager init st.mode + 1) := by
        split <;> omega
      simp only [hk, if_true, FOut.bind, hlt, faultState_append_lt _ _ _ _ _ _ _ _ hk']
    · simp only [hk, if_false, FOut.bind]
      by_cases hb : (stop && (respsOf env fwc eager init st.mode).any (·.failed)) = true
      · simp only [hb, if_true, hk, if_false]
      · have hb' : (stop && (respsOf env fwc eager init st.mode).any (·.failed)) = false := by simpa using hb
        obtain ⟨hst, hc⟩ := loop_nobreak env ret o fwc stop eager init st [] hb'
        simp only [hb, if_false, Bool.false_eq_true]
        rw [hc] at hk
        rw [hst, hc]
        have hge : init.length ≤ k := by omega
        rcases Nat.lt_or_ge init.length k with hgt | hle2
        · obtain ⟨j, hj⟩ : ∃ j, k - init.length = j + 1 := ⟨k - init.length - 1, by omega⟩
          have hnl : ¬ k < init.length + 1 := by omega
          simp only [sendCommand1F, sendInputF, hj, FOut.bind, hnl, if_false, sendCommand1_eq]
          have : k - (init.length + 1) = j := by omega
          rw [this]
          rfl
        · have hke : k = init.length := by omega
          subst hke
          simp only [sendCommand1F, sendInputF, Nat.sub_self, FOut.bind, Nat.lt_add_one, if_true,
            faultState_append_last]

/-- the count is the `n` of the fault-free closed description -/
theorem genericCount_eq_n (env : Env μ) (ret : Str) (o : Origin) (fwc : Fwc) (stop eager : Bool) (commands : List Str)
    (st : St μ) (r : Res μ) (n : Nat) (hd : Delivered env ret o fwc stop eager commands st r n) :
    genericCount env fwc stop eager commands st.mode = n := by
  rw [hd.n_eq]
  rcases List.eq_nil_or_concat commands with h | ⟨init, last, h⟩
  · subst h; have := hd.pos; have := hd.le; simp at *; omega
  · rw [List.concat_eq_append] at h
    subst h
    unfold genericCount
    simp only [List.dropLast_concat, List.getLast?_concat]
    by_cases hb : (stop && (respsOf env fwc eager init st.mode).any (·.failed)) = true
    · simp only [hb, if_true, loopCount_eq]
      have hs : stop = true := by
        cases stop <;> simp_all
      simp [hs]
    · have hb' : (stop && (respsOf env fwc eager init st.mode).any (·.failed)) = false := by simpa using hb
      obtain ⟨_, hc⟩ := loop_nobreak env ret o fwc stop eager init st [] hb'
      simp only [hb, if_false, Bool.false_eq_true, hc, List.length_append, List.length_singleton]

/-! ## what the failing call leaves on the device and on the wire -/

/-- bytes of the failing call that reached the transport -/
def partialWire (ret : Str) (pt : Point) (line : Str) : Bytes :=
  match pt with
  | .beforeWrite => []
  | .afterLine => encode line
  | .afterReturn => encode line ++ encode ret
  | .returnLost => encode line ++ encode ret

/-- what the device executed of the failing call -/
def partialEntries (o : Origin) (pt : Point) (m : μ) (line : Str) : List (Entry μ) :=
  match pt with
  | .afterReturn => [⟨o, m, line⟩]
  | _ => []

theorem faultState_obs (env : Env μ) (ret : Str) (o : Origin) (pt : Point) (ls : List Str) (k : Nat) (st : St μ) :
    (faultState env ret o pt ls k st).log = st.log ++ entries env o (ls.take k) st.mode ++
        partialEntries o pt (finalMode env (ls.take k) st.mode) (ls.getD k []) ∧
    (faultState env ret o pt ls k st).writes.flatten = st.writes.flatten ++
        wireOf ret (entries env o (ls.take k) st.mode) ++ partialWire ret pt (ls.getD k []) ∧
    (faultState env ret o pt ls k st).belief = st.belief := by
  unfold faultState partialInput partialEntries partialWire
  cases pt <;>
    simp [sendInput, sendLines_log, sendLines_wire, sendLines_belief, sendLines_mode]

/-! ## send_configs over the failing channel -/

/-- `send_input` calls of `send_configs` up to the abort step when nothing fails on the channel -/
def coreCount (env : Env μ) (cfg : Cfg) (fwc : Fwc) (stop : Bool) (priv : Str) (eager : Bool) (configs : List Str)
    (st : St μ) : Nat :=
  if cfg.genericMode then 0
  else if !priv.isEmpty && !hasLevel cfg priv then 0
  else match (acquireIfNeeded env cfg (configsTarget priv) st).2 with
    | some _ => 0
    | none => genericCount env (preConfigsFwc cfg.defaultMarkers fwc) stop eager configs
        (acquireIfNeeded env cfg (configsTarget priv) st).1.mode

theorem coreF_eq (env : Env μ) (cfg : Cfg) (flt : Fault) (o : Origin) (fwc : Fwc) (stop : Bool) (priv : Str)
    (eager : Bool) (configs : List Str) (st : St μ) (k : Nat) :
    sendConfigsCoreF env cfg flt o fwc stop priv eager configs ⟨st, k⟩ =
      if k < coreCount env cfg fwc stop priv eager configs st then
        .fault flt.kind ⟨faultState env cfg.ret o flt.point configs k
          (acquireIfNeeded env cfg (configsTarget priv) st).1, 0⟩
      else .ok ((sendConfigsCore env cfg o fwc stop priv eager configs st).resps,
                (sendConfigsCore env cfg o fwc stop priv eager configs st).err)
        ⟨(sendConfigsCore env cfg o fwc stop priv eager configs st).st,
          k - coreCount env cfg fwc stop priv eager configs st⟩ := by
  unfold sendConfigsCoreF sendConfigsCore coreCount configsTarget
  by_cases hg : cfg.genericMode = true
  · simp [hg]
  · simp only [hg, if_false, Bool.false_eq_true]
    by_cases hv : (!priv.isEmpty && !hasLevel cfg priv) = true
    · simp [hv]
    · simp only [hv, if_false, Bool.false_eq_true]
      cases he : (acquireIfNeeded env cfg (if priv.isEmpty = true then Gen.Send.configsDefaultLevel else priv) st).2 with
      | some e => simp
      | none => simp only [genericF_eq]

/-- `send_input` calls of the platform's `_abort_config` when nothing fails on the channel -/
def abortCount (env : Env μ) (cfg : Cfg) (st : St μ) : Nat :=
  match cfg.abort with
  | .nothing => 0
  | .direct g cmds _ => if guardOk cfg st.belief g = true then cmds.length else 0
  | .viaSendConfigs cmds level _ =>
    coreCount env cfg .none Gen.Send.stopOnFailedDefault (abortLevel st.belief level) Gen.Send.eagerDefault cmds st

/-- the state a channel failure inside `_abort_config` leaves -/
def abortFaultState (env : Env μ) (cfg : Cfg) (pt : Point) (k : Nat) (st : St μ) : St μ :=
  match cfg.abort with
  | .nothing => st
  | .direct _ cmds _ => faultState env cfg.ret .abort pt cmds k st
  | .viaSendConfigs cmds level _ =>
    faultState env cfg.ret .abort pt cmds k
      (acquireIfNeeded env cfg (configsTarget (abortLevel st.belief level)) st).1

theorem abortF_eq (env : Env μ) (cfg : Cfg) (flt : Fault) (st : St μ) (k : Nat) :
    abortConfigF env cfg flt ⟨st, k⟩ =
      if k < abortCount env cfg st then .fault flt.kind ⟨abortFaultState env cfg flt.point k st, 0⟩
      else .ok (abortConfig env cfg st).2 ⟨(abortConfig env cfg st).1, k - abortCount env cfg st⟩ := by
  cases hp : cfg.abort with
  | nothing => simp [abortConfigF, abortConfig, abortCount, hp]
  | direct g cmds b =>
    rw [abortConfig_direct env cfg st g cmds b hp]
    have hgo : abortGuard cfg st.belief g = guardOk cfg st.belief g := by cases g <;> rfl
    simp only [abortConfigF, abortCount, abortFaultState, hp, hgo]
    by_cases h : guardOk cfg st.belief g = true
    · simp only [h, if_true, sendLinesF_eq, FOut.bind]
      by_cases hk : k < cmds.length <;> simp [hk]
    · simp [h]
  | viaSendConfigs cmds level b =>
    simp only [abortConfigF, abortConfig, abortCount, abortFaultState, hp, coreF_eq]
    by_cases hk : k < coreCount env cfg .none Gen.Send.stopOnFailedDefault (abortLevel st.belief level)
        Gen.Send.eagerDefault cmds st
    · simp [hk, FOut.bind]
    · simp only [hk, if_false, FOut.bind]
      cases he : (sendConfigsCore env cfg .abort .none Gen.Send.stopOnFailedDefault (abortLevel st.belief level)
        Gen.Send.eagerDefault cmds st).err <;> simp

/-- closed form of `send_configs` over the failing channel: the fault-free run cut at the failing call -/
theorem sendConfigsF_eq (env : Env μ) (cfg : Cfg) (flt : Fault) (fwc : Fwc) (stop : Bool) (priv : Str) (eager : Bool)
    (configs : List Str) (st : St μ) (k : Nat) :
    sendConfigsF env cfg flt fwc stop priv eager configs ⟨st, k⟩ =
      let core := sendConfigsCore env cfg .user fwc stop priv eager configs st
      let c := coreCount env cfg fwc stop priv eager configs st
      if k < c then
        .fault flt.kind ⟨faultState env cfg.ret .user flt.point configs k
          (acquireIfNeeded env cfg (configsTarget priv) st).1, 0⟩
      else if core.err = none ∧ (stop && multiFailed core.resps) = true ∧ k - c < abortCount env cfg core.st then
        .fault flt.kind ⟨abortFaultState env cfg flt.point (k - c) core.st, 0⟩
      else .ok ((sendConfigs env cfg fwc stop priv eager configs st).resps,
                (sendConfigs env cfg fwc stop priv eager configs st).err)
        ⟨(sendConfigs env cfg fwc stop priv eager configs st).st,
          k - c - (if core.err = none ∧ (stop && multiFailed core.resps) = true then abortCount env cfg core.st else 0)⟩ := by
  simp only [sendConfigsF, sendConfigs, coreF_eq]
  by_cases hk : k < coreCount env cfg fwc stop priv eager configs st
  · simp [hk, FOut.bind]
  · simp only [hk, if_false, FOut.bind]
    cases he : (sendConfigsCore env cfg .user fwc stop priv eager configs st).err with
    | some e => simp [he]
    | none =>
      by_cases hs : (stop && multiFailed (sendConfigsCore env cfg .user fwc stop priv eager configs st).resps) = true
      · simp only [hs, if_true, abortF_eq, true_and]
        by_cases ha : k - coreCount env cfg fwc stop priv eager configs st <
            abortCount env cfg (sendConfigsCore env cfg Origin.user fwc stop priv eager configs st).st
        · simp only [ha, if_true]
        · simp only [ha, if_false]
      · simp [hs, he]

/-- observers of an outcome (for statements and examples) -/
def FOut.kind? {α : Type} : FOut μ α → Option FKind
  | .ok _ _ => none
  | .fault k _ => some k

def FOut.state {α : Type} : FOut μ α → St μ
  | .ok _ fs => fs.st
  | .fault _ fs => fs.st

theorem partialEntries_origin (o : Origin) (pt : Point) (m : μ) (l : Str) : ∀ e ∈ partialEntries o pt m l, e.origin = o := by
  cases pt <;> simp [partialEntries]

end Scrapli.Send
