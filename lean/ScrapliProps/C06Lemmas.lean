import ScrapliModel.Parity
import ScrapliModel.ParityRun
/-
  Helper lemmas for C06, part 1 (parity table): soundness and completeness of `mismatches` /
  `parityOK` / `parityOKModulo` for ALL tables.  Property theorems are in C06.lean.
-/
namespace Scrapli.Parity

/-- the specification `parityOK` decides: every sync class has a twin with the same key and bases in which
    every sync method has a same-named method with an equal parameter list -/
def MethodHasTwin (d : Cls) (m : Method) : Prop := ∃ n ∈ d.methods, n.name = m.name ∧ n.params = m.params

def ClsHasTwin (a : Table) (c : Cls) : Prop :=
  ∃ d ∈ a, d.key = c.key ∧ d.bases = c.bases ∧ ∀ m ∈ c.methods, MethodHasTwin d m

theorem findCls_some {t : Table} {key : String} {d : Cls} (h : findCls t key = some d) :
    d ∈ t ∧ d.key = key := by
  unfold findCls at h
  exact ⟨List.mem_of_find?_eq_some h, by simpa using List.find?_some h⟩

theorem findMethod_some {c : Cls} {name : String} {n : Method} (h : findMethod c name = some n) :
    n ∈ c.methods ∧ n.name = name := by
  unfold findMethod at h
  exact ⟨List.mem_of_find?_eq_some h, by simpa using List.find?_some h⟩

theorem param_ext {p q : Param} (h1 : p.name = q.name) (h2 : p.kind = q.kind) (h3 : p.default = q.default) :
    p = q := by
  cases p; cases q; simp_all

theorem paramMismatches_nil_iff (key meth : String) :
    ∀ ps qs : List Param, paramMismatches key meth ps qs = [] ↔ ps = qs := by
  intro ps
  induction ps with
  | nil => intro qs; cases qs <;> simp [paramMismatches]
  | cons p ps ih =>
    intro qs
    cases qs with
    | nil => simp [paramMismatches]
    | cons q qs =>
      simp only [paramMismatches, List.append_eq_nil_iff, ih qs, List.cons.injEq]
      constructor
      · rintro ⟨h, rfl⟩
        refine ⟨?_, rfl⟩
        by_cases hn : p.name = q.name
        · simp [hn] at h
          exact param_ext hn h.1 h.2
        · simp [hn] at h
      · rintro ⟨rfl, rfl⟩
        simp

theorem paramMismatches_mem (key meth : String) :
    ∀ (ps qs : List Param) (x : Mismatch), x ∈ paramMismatches key meth ps qs → x.1 = key ∧ x.2.1 = meth := by
  intro ps
  induction ps with
  | nil =>
    intro qs x hx
    cases qs <;> simp [paramMismatches] at hx
    subst hx; exact ⟨rfl, rfl⟩
  | cons p ps ih =>
    intro qs x hx
    cases qs with
    | nil => simp [paramMismatches] at hx; subst hx; exact ⟨rfl, rfl⟩
    | cons q qs =>
      simp only [paramMismatches, List.mem_append] at hx
      rcases hx with hx | hx
      · by_cases hn : p.name = q.name
        · simp [hn] at hx
          rcases hx with ⟨_, hx⟩ | ⟨_, hx⟩ <;> (subst hx; exact ⟨rfl, rfl⟩)
        · simp [hn] at hx; subst hx; exact ⟨rfl, rfl⟩
      · exact ih qs x hx

theorem methodMismatches_nil_iff (key : String) (d : Cls) (m : Method) :
    methodMismatches key d m = [] ↔ ∃ n, findMethod d m.name = some n ∧ n.params = m.params := by
  unfold methodMismatches
  cases h : findMethod d m.name with
  | none => simp
  | some n =>
    simp only [paramMismatches_nil_iff, Option.some.injEq, exists_eq_left']
    exact ⟨fun h => h.symm, fun h => h.symm⟩

theorem methodMismatches_mem (key : String) (d : Cls) (m : Method) (x : Mismatch)
    (hx : x ∈ methodMismatches key d m) : x.1 = key ∧ x.2.1 = m.name := by
  unfold methodMismatches at hx
  cases h : findMethod d m.name with
  | none => simp [h] at hx; subst hx; exact ⟨rfl, rfl⟩
  | some n => simp only [h] at hx; exact paramMismatches_mem key m.name _ _ x hx

theorem clsMismatches_nil_iff (a : Table) (c : Cls) :
    clsMismatches a c = [] ↔
      ∃ d, findCls a c.key = some d ∧ d.bases = c.bases ∧
        ∀ m ∈ c.methods, ∃ n, findMethod d m.name = some n ∧ n.params = m.params := by
  unfold clsMismatches
  cases h : findCls a c.key with
  | none => simp
  | some d =>
    simp only [List.append_eq_nil_iff, List.flatMap_eq_nil_iff, methodMismatches_nil_iff,
      Option.some.injEq, exists_eq_left']
    constructor
    · rintro ⟨hb, hm⟩
      refine ⟨?_, hm⟩
      by_cases hbb : c.bases = d.bases
      · exact hbb.symm
      · simp [hbb] at hb
    · rintro ⟨hb, hm⟩
      exact ⟨by simp [hb], hm⟩

/-- exact characterisation of `mismatches s a = []` in terms of the look-up functions -/
theorem mismatches_nil_iff (s a : Table) :
    mismatches s a = [] ↔
      ∀ c ∈ s, ∃ d, findCls a c.key = some d ∧ d.bases = c.bases ∧
        ∀ m ∈ c.methods, ∃ n, findMethod d m.name = some n ∧ n.params = m.params := by
  unfold mismatches
  simp only [List.flatMap_eq_nil_iff, clsMismatches_nil_iff]

/-- **soundness**: `parityOK = true` gives, for every sync class, a twin with equal bases in which every
    sync method has a same-named method with an equal parameter list (names, kinds, defaults, order) -/
theorem parityOK_sound (s a : Table) (h : parityOK s a = true) : ∀ c ∈ s, ClsHasTwin a c := by
  have h0 : mismatches s a = [] := by simpa [parityOK] using h
  intro c hc
  obtain ⟨d, hd, hb, hm⟩ := (mismatches_nil_iff s a).mp h0 c hc
  obtain ⟨hda, hdk⟩ := findCls_some hd
  refine ⟨d, hda, hdk, hb, ?_⟩
  intro m hm'
  obtain ⟨n, hn, hp⟩ := hm m hm'
  obtain ⟨hnm, hnn⟩ := findMethod_some hn
  exact ⟨n, hnm, hnn, hp⟩

/-- **completeness** (the checker is not stricter than the statement it decides, given unique keys /
    method names on the async side, expressed through the look-up functions) -/
theorem parityOK_complete (s a : Table)
    (h : ∀ c ∈ s, ∃ d, findCls a c.key = some d ∧ d.bases = c.bases ∧
        ∀ m ∈ c.methods, ∃ n, findMethod d m.name = some n ∧ n.params = m.params) :
    parityOK s a = true := by
  simp [parityOK, (mismatches_nil_iff s a).mpr h]

/-- **witness**: when parity fails, `firstMismatch` returns a concrete differing entry, and that entry is
    one of the computed mismatches -/
theorem parityOK_mismatch_witness (s a : Table) (h : parityOK s a = false) :
    ∃ x, firstMismatch s a = some x ∧ x ∈ mismatches s a := by
  unfold parityOK at h
  unfold firstMismatch
  cases hm : mismatches s a with
  | nil => simp [hm] at h
  | cons x xs => exact ⟨x, rfl, by simp⟩

theorem mem_mismatches {s a : Table} {c : Cls} {x : Mismatch} (hc : c ∈ s) (hx : x ∈ clsMismatches a c) :
    x ∈ mismatches s a := by
  unfold mismatches
  exact List.mem_flatMap.mpr ⟨c, hc, hx⟩

theorem parityOKModulo_mem {k : List Mismatch} {s a : Table} (h : parityOKModulo k s a = true)
    {x : Mismatch} (hx : x ∈ mismatches s a) : x ∈ k := by
  unfold parityOKModulo at h
  have := List.all_eq_true.mp h x hx
  simpa using this

/-- **soundness modulo known differences**: every sync method either has an exact twin, or a listed known
    difference names its class and (that method or the class as a whole) -/
theorem parityOKModulo_sound (k : List Mismatch) (s a : Table) (h : parityOKModulo k s a = true) :
    ∀ c ∈ s, ∀ m ∈ c.methods,
      (∃ d ∈ a, d.key = c.key ∧ MethodHasTwin d m) ∨
      (∃ x ∈ k, x.1 = c.key ∧ (x.2.1 = m.name ∨ x.2.2.2 = "class-missing")) := by
  intro c hc m hm
  cases hd : findCls a c.key with
  | none =>
    right
    refine ⟨(c.key, "", "", "class-missing"), ?_, rfl, Or.inr rfl⟩
    apply parityOKModulo_mem h
    apply mem_mismatches hc
    simp [clsMismatches, hd]
  | some d =>
    obtain ⟨hda, hdk⟩ := findCls_some hd
    by_cases hmm : methodMismatches c.key d m = []
    · left
      obtain ⟨n, hn, hp⟩ := (methodMismatches_nil_iff c.key d m).mp hmm
      obtain ⟨hnm, hnn⟩ := findMethod_some hn
      exact ⟨d, hda, hdk, n, hnm, hnn, hp⟩
    · right
      obtain ⟨x, hx⟩ := List.exists_mem_of_ne_nil _ hmm
      obtain ⟨h1, h2⟩ := methodMismatches_mem c.key d m x hx
      refine ⟨x, ?_, h1, Or.inl h2⟩
      apply parityOKModulo_mem h
      apply mem_mismatches hc
      simp only [clsMismatches, hd, List.mem_append, List.mem_flatMap]
      exact Or.inr ⟨m, hm, hx⟩

/-- **soundness of the coroutine table**: no violation listed ⇒ no sync method is `async def`, and every async-table
    method is `async def` iff it is not in the audited plain list -/
theorem coroutineMismatches_sound (plain : List (String × String)) (s a : Table)
    (h : coroutineMismatches plain s a = []) :
    (∀ c ∈ s, ∀ m ∈ c.methods, m.isAsync = false) ∧
    (∀ d ∈ a, ∀ n ∈ d.methods, n.isAsync = !plain.contains (d.key, n.name)) := by
  unfold coroutineMismatches at h
  obtain ⟨h1, h2⟩ := List.append_eq_nil_iff.mp h
  constructor
  · intro c hc m hm
    have := (List.flatMap_eq_nil_iff.mp h1) c hc
    have hf : c.methods.filter (·.isAsync) = [] := by simpa using this
    cases hb : m.isAsync with
    | false => rfl
    | true =>
      have : m ∈ c.methods.filter (·.isAsync) := List.mem_filter.mpr ⟨hm, hb⟩
      rw [hf] at this; simp at this
  · intro d hd n hn
    have := (List.flatMap_eq_nil_iff.mp h2) d hd
    have hf : d.methods.filter (fun n => n.isAsync == plain.contains (d.key, n.name)) = [] := by simpa using this
    cases hb : (n.isAsync == plain.contains (d.key, n.name)) with
    | true =>
      have : n ∈ d.methods.filter (fun n => n.isAsync == plain.contains (d.key, n.name)) := List.mem_filter.mpr ⟨hn, hb⟩
      rw [hf] at this; simp at this
    | false =>
      cases h1 : n.isAsync <;> cases h2 : plain.contains (d.key, n.name) <;> simp_all

theorem parityOKModulo_nil (s a : Table) : parityOKModulo [] s a = parityOK s a := by
  unfold parityOKModulo parityOK
  cases mismatches s a <;> simp

end Scrapli.Parity

/-
  Helper lemmas for C06, part 2 (in-channel Telnet login variants).
-/
namespace Scrapli.ParityRun
open Scrapli

/-- none of the three patterns matches the empty buffer (true of every sensible prompt pattern; decided
    for the default patterns in C06.lean) -/
def PatsQuietOnEmpty (p : Pats) : Prop := p.user [] = false ∧ p.pass [] = false ∧ p.prompt [] = false

/-- loop-head invariant: nothing in `authenticate_buf` matches (a match either cleared the buffer or left
    the loop) and `return_attempts ≥ 1` -/
def Quiet (c : Cfg) (s : ASt) : Prop :=
  c.pats.user s.buf = false ∧ c.pats.pass s.buf = false ∧ c.pats.prompt s.buf = false ∧ 1 ≤ s.attempts

/-- at every EMPTY read (the only place the loop looks at the clock: a read that returned nothing, or — asyncio only — a
    timed-out poll) the clock has not passed the first return interval.  Nothing is asked of reads that deliver bytes. -/
def NoKick (c : Cfg) (tape : List Ev) : Prop := ∀ now, Ev.data [] now ∈ tape → now ≤ c.interval

def NoEof (tape : List Ev) : Prop := Ev.eof ∉ tape

/-- `a` is `s` with extra polls (reads that delivered nothing) inserted anywhere -/
inductive Polled : List Ev → List Ev → Prop
  | nil : Polled [] []
  | keep (e : Ev) {s a : List Ev} : Polled s a → Polled (e :: s) (e :: a)
  | poll (now : Nat) {s a : List Ev} : Polled s a → Polled s (Ev.data [] now :: a)

theorem runFrom_nil (step) (c : Cfg) (s : ASt) : runFrom step c s [] = s := rfl

theorem runFrom_cons (step) (c : Cfg) (s : ASt) (e : Ev) (t : List Ev) :
    runFrom step c s (e :: t) = runFrom step c (if s.out = .pending then step c s e else s) t := rfl

theorem runFrom_not_pending (step) (c : Cfg) (t : List Ev) : ∀ s : ASt, s.out ≠ .pending → runFrom step c s t = s := by
  induction t with
  | nil => intro s _; rfl
  | cons e t ih => intro s h; rw [runFrom_cons]; simp [h, ih s h]

theorem runFrom_append (step) (c : Cfg) (s : ASt) (t u : List Ev) :
    runFrom step c s (t ++ u) = runFrom step c (runFrom step c s t) u := by
  simp [runFrom, List.foldl_append]

theorem kick_quiet (c : Cfg) (s : ASt) (now : Nat) (h1 : 1 ≤ s.attempts) (hn : now ≤ c.interval) :
    kick c s [] now = s := by
  unfold kick
  have : ¬ now > c.interval * s.attempts := by
    have : c.interval ≤ c.interval * s.attempts := Nat.le_mul_of_pos_right _ h1
    omega
  simp [this]

/-- a read that delivers nothing, before the first return interval, changes nothing at a quiet loop head -/
theorem afterRead_poll (c : Cfg) (s : ASt) (now : Nat) (hq : Quiet c s) (hn : now ≤ c.interval) :
    afterRead c s [] now = s := by
  obtain ⟨hu, hp, hr, ha⟩ := hq
  unfold afterRead
  rw [kick_quiet c s now ha hn]
  simp [lower, userStep, passStep, promptStep, hu, hp, hr]

theorem kick_buf (c : Cfg) (s : ASt) (b : Bytes) (now : Nat) :
    (kick c s b now).buf = s.buf ∧ s.attempts ≤ (kick c s b now).attempts ∧ (kick c s b now).out = s.out := by
  unfold kick; split <;> simp

/-- the invariant is re-established whenever the loop goes round again -/
theorem afterRead_quiet (c : Cfg) (hp : PatsQuietOnEmpty c.pats) (s : ASt) (b : Bytes) (now : Nat)
    (hq : Quiet c s) (hs : s.out = .pending) (hpend : (afterRead c s b now).out = .pending) :
    Quiet c (afterRead c s b now) := by
  obtain ⟨hu0, hp0, hr0⟩ := hp
  obtain ⟨_, _, _, ha⟩ := hq
  obtain ⟨_, hk2, hk3⟩ := kick_buf c s b now
  have hatt : 1 ≤ (kick c s b now).attempts := Nat.le_trans ha hk2
  revert hpend
  unfold afterRead
  generalize kick c s b now = k at *
  simp only [userStep, passStep, promptStep]
  by_cases hu : c.pats.user (k.buf ++ lower b) = true
  · by_cases hcu : k.users + 1 > 2
    · simp [hu, hcu]
    · simp [hu, hcu, hp0, hr0, hk3, hs, Quiet, hu0, hatt]
  · by_cases hpw : c.pats.pass (k.buf ++ lower b) = true
    · by_cases hcp : k.passes + 1 > 2
      · simp [hu, hpw, hcp, hk3, hs]
      · simp [hu, hpw, hcp, hr0, hk3, hs, Quiet, hu0, hp0, hatt]
    · by_cases hpr : c.pats.prompt (k.buf ++ lower b) = true
      · simp [hu, hpw, hpr, hk3, hs]
      · simp [hu, hpw, hpr, hk3, hs, Quiet, hatt]

/-- **polls are invisible** (sync machine): under the invariant and with no kick interval elapsing, reading
    a tape equals reading it with all empty reads removed -/
theorem runSync_strip (c : Cfg) (hp : PatsQuietOnEmpty c.pats) (tape : List Ev) :
    ∀ s : ASt, Quiet c s → NoKick c tape → runFrom stepSync c s tape = runFrom stepSync c s (strip tape) := by
  induction tape with
  | nil => intro s _ _; rfl
  | cons e t ih =>
    intro s hq hk
    have hk' : NoKick c t := fun now h => hk now (List.mem_cons_of_mem _ h)
    by_cases hs : s.out = .pending
    · cases e with
      | eof =>
        have hq' : Quiet c { s with writes := s.writes ++ [c.ret], attempts := s.attempts + 1 } := by
          obtain ⟨a, b, d, e⟩ := hq; exact ⟨a, b, d, by simp⟩
        simp only [strip, List.filter, Ev.isPoll, Bool.not_false, runFrom_cons, hs, if_true, stepSync]
        exact ih _ hq' hk'
      | data b now =>
        by_cases hb : b = []
        · subst hb
          have hn : now ≤ c.interval := hk now (by simp)
          have : strip (Ev.data [] now :: t) = strip t := by simp [strip, Ev.isPoll]
          rw [this, runFrom_cons]
          simp only [hs, if_true, stepSync, afterRead_poll c s now hq hn]
          exact ih s hq hk'
        · have : strip (Ev.data b now :: t) = Ev.data b now :: strip t := by
            cases b with
            | nil => exact absurd rfl hb
            | cons x xs => simp [strip, Ev.isPoll]
          rw [this, runFrom_cons, runFrom_cons]
          simp only [hs, if_true, stepSync]
          by_cases hpend : (afterRead c s b now).out = .pending
          · exact ih _ (afterRead_quiet c hp s b now hq hs hpend) hk'
          · rw [runFrom_not_pending _ c t _ hpend, runFrom_not_pending _ c (strip t) _ hpend]
    · rw [runFrom_not_pending _ c _ s hs, runFrom_not_pending _ c _ s hs]

/-- **polls are invisible** (asyncio machine) -/
theorem runAsync_strip (c : Cfg) (hp : PatsQuietOnEmpty c.pats) (tape : List Ev) :
    ∀ s : ASt, Quiet c s → NoKick c tape → runFrom stepAsync c s tape = runFrom stepAsync c s (strip tape) := by
  induction tape with
  | nil => intro s _ _; rfl
  | cons e t ih =>
    intro s hq hk
    have hk' : NoKick c t := fun now h => hk now (List.mem_cons_of_mem _ h)
    by_cases hs : s.out = .pending
    · cases e with
      | eof =>
        have hne : ({ s with out := Outcome.connError } : ASt).out ≠ .pending := by simp
        simp only [strip, List.filter, Ev.isPoll, Bool.not_false, runFrom_cons, hs, if_true, stepAsync]
        rw [runFrom_not_pending _ c t _ hne, runFrom_not_pending _ c _ _ hne]
      | data b now =>
        by_cases hb : b = []
        · subst hb
          have hn : now ≤ c.interval := hk now (by simp)
          have : strip (Ev.data [] now :: t) = strip t := by simp [strip, Ev.isPoll]
          rw [this, runFrom_cons]
          simp only [hs, if_true, stepAsync, afterRead_poll c s now hq hn]
          exact ih s hq hk'
        · have : strip (Ev.data b now :: t) = Ev.data b now :: strip t := by
            cases b with
            | nil => exact absurd rfl hb
            | cons x xs => simp [strip, Ev.isPoll]
          rw [this, runFrom_cons, runFrom_cons]
          simp only [hs, if_true, stepAsync]
          by_cases hpend : (afterRead c s b now).out = .pending
          · exact ih _ (afterRead_quiet c hp s b now hq hs hpend) hk'
          · rw [runFrom_not_pending _ c t _ hpend, runFrom_not_pending _ c (strip t) _ hpend]
    · rw [runFrom_not_pending _ c _ s hs, runFrom_not_pending _ c _ s hs]

/-- without connection errors the two machines are the same machine -/
theorem run_sync_eq_async (c : Cfg) (tape : List Ev) :
    ∀ s : ASt, NoEof tape → runFrom stepSync c s tape = runFrom stepAsync c s tape := by
  induction tape with
  | nil => intro s _; rfl
  | cons e t ih =>
    intro s hne
    have hne' : NoEof t := fun h => hne (List.mem_cons_of_mem _ h)
    cases e with
    | eof => exact absurd (by simp) hne
    | data b now =>
      rw [runFrom_cons, runFrom_cons]
      simp only [stepSync, stepAsync]
      exact ih _ hne'

theorem noEof_strip {t : List Ev} (h : NoEof t) : NoEof (strip t) := by
  intro hm
  exact h (List.mem_filter.mp hm).1

theorem polled_strip {s a : List Ev} (h : Polled s a) : strip s = strip a := by
  induction h with
  | nil => rfl
  | keep e _ ih => simp only [strip, List.filter] at *; cases (!e.isPoll) <;> simp [ih]
  | poll now _ ih => simp only [strip, List.filter, Ev.isPoll] at *; simpa using ih

/-- a tape on which every read delivers bytes (the blocking sync `read()`) satisfies `NoKick` whatever the clock says -/
theorem noKick_of_no_empty_read (c : Cfg) (t : List Ev) (h : ∀ now, Ev.data [] now ∉ t) : NoKick c t :=
  fun now hm => absurd hm (h now)

theorem quiet_init (c : Cfg) (hp : PatsQuietOnEmpty c.pats) : Quiet c {} := by
  obtain ⟨a, b, d⟩ := hp
  exact ⟨a, b, d, Nat.le_refl 1⟩

end Scrapli.ParityRun
