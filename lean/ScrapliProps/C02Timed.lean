import ScrapliProps.C01Lemmas
/-
  Lemmas about the timed read loop (`_read_until_prompt_or_time`; model: `timedLoop`, `weave`,
  `Wire.readUntilTimed`, `sendInputAndRead` in ScrapliModel/Channel/Chan.lean).
  Property theorems: ScrapliProps/C02.lean (section "the timed read loop").
-/
namespace Scrapli.Chan
open Scrapli

/-- two stop tests that agree on every prefix of the returned buffer give the same loop result -/
theorem readLoop_congr (s1 s2 : Bytes → Bool) : ∀ (cs : List Bytes) (acc buf : Bytes) (k : Nat),
    readLoop s2 acc cs = some (buf, k) → (∀ b, b <+: buf → s1 b = s2 b) →
    readLoop s1 acc cs = some (buf, k) := by
  intro cs
  induction cs with
  | nil => intro acc buf k h; simp [readLoop] at h
  | cons c cs ih =>
    intro acc buf k h hp
    unfold readLoop at h ⊢
    simp only at h ⊢
    by_cases hs : s2 (acc ++ c) = true
    · simp only [hs, if_true, Option.some.injEq, Prod.mk.injEq] at h
      obtain ⟨rfl, rfl⟩ := h
      have := hp (acc ++ c) (List.prefix_refl _)
      simp [this, hs]
    · have hs' : s2 (acc ++ c) = false := by simpa using hs
      simp only [hs', Bool.false_eq_true, if_false] at h
      cases hr : readLoop s2 (acc ++ c) cs with
      | none => simp [hr] at h
      | some r =>
        simp only [hr, Option.map_some, Option.some.injEq, Prod.mk.injEq] at h
        obtain ⟨rfl, rfl⟩ := h
        have hres := readLoop_result_eq s2 cs (acc ++ c) r.1 r.2 (by rw [hr])
        have hpre : (acc ++ c) <+: r.1 := by rw [hres]; exact List.prefix_append _ _
        have h1 : s1 (acc ++ c) = false := by rw [hp _ hpre]; exact hs'
        simp only [h1, Bool.false_eq_true, if_false]
        rw [ih (acc ++ c) r.1 r.2 (by rw [hr]) hp]
        rfl

/-- without pauses and with a clock that never runs out the timed loop IS the plain loop -/
theorem timedLoop_map_some (stop : Bytes → Bool) : ∀ (cs : List Bytes) (acc : Bytes),
    timedLoop stop acc (cs.map some) none = readLoop stop acc cs := by
  intro cs
  induction cs with
  | nil => intro acc; rfl
  | cons c cs ih =>
    intro acc
    simp only [List.map_cons]
    unfold timedLoop readLoop
    by_cases hs : stop (acc ++ c) = true
    · simp [hs]
    · have hs' : stop (acc ++ c) = false := by simpa using hs
      simp only [hs', Bool.false_eq_true, if_false]
      rw [show ((none : Option Nat).map (· - 1)) = none from rfl, ih (acc ++ c)]
      simp

/-- **pauses are invisible**: whichever iterations time out, the loop returns what the plain loop
    returns over the same pieces and has consumed the same number of pieces -/
theorem timedLoop_weave (stop : Bytes → Bool) : ∀ (pauses : List Bool) (cs : List Bytes) (acc : Bytes),
    stop acc = false → timedLoop stop acc (weave cs pauses) none = readLoop stop acc cs := by
  intro pauses
  induction pauses with
  | nil =>
    intro cs acc _
    have : weave cs [] = cs.map some := by cases cs <;> rfl
    rw [this, timedLoop_map_some]
  | cons b bs ih =>
    intro cs acc hacc
    cases cs with
    | nil => rfl
    | cons c cs =>
      cases b with
      | true =>
        have hw : weave (c :: cs) (true :: bs) = none :: weave (c :: cs) bs := rfl
        rw [hw]
        unfold timedLoop
        simp only [hacc, Bool.false_eq_true, if_false]
        rw [show ((none : Option Nat).map (· - 1)) = none from rfl, ih (c :: cs) acc hacc]
        cases readLoop stop acc (c :: cs) <;> simp
      | false =>
        have hw : weave (c :: cs) (false :: bs) = some c :: weave cs bs := rfl
        rw [hw]
        unfold timedLoop readLoop
        by_cases hs : stop (acc ++ c) = true
        · simp [hs]
        · have hs' : stop (acc ++ c) = false := by simpa using hs
          simp only [hs', Bool.false_eq_true, if_false]
          rw [show ((none : Option Nat).map (· - 1)) = none from rfl, ih cs (acc ++ c) hs']
          simp

/-- whatever ends the timed loop — a stop test or the clock — the buffer is the start buffer plus
    exactly the pieces consumed, in order: nothing is lost, nothing is read twice -/
theorem timedLoop_result_eq (stop : Bytes → Bool) : ∀ (es : List (Option Bytes)) (acc buf : Bytes)
    (clock : Option Nat) (k : Nat), timedLoop stop acc es clock = some (buf, k) →
    buf = acc ++ ((es.filterMap id).take k).flatten := by
  intro es
  induction es with
  | nil => intro acc buf clock k h; simp [timedLoop] at h
  | cons e es ih =>
    intro acc buf clock k h
    cases e with
    | none =>
      unfold timedLoop at h
      simp only at h
      split at h
      · simp only [Option.some.injEq, Prod.mk.injEq] at h
        obtain ⟨rfl, rfl⟩ := h
        simp
      · split at h
        · simp only [Option.some.injEq, Prod.mk.injEq] at h
          obtain ⟨rfl, rfl⟩ := h
          simp
        · cases hr : timedLoop stop acc es (clock.map (· - 1)) with
          | none => simp [hr] at h
          | some r =>
            simp only [hr, Option.map_some, Option.some.injEq, Prod.mk.injEq] at h
            obtain ⟨rfl, rfl⟩ := h
            have := ih acc r.1 _ r.2 (by rw [hr])
            simpa using this
    | some c =>
      unfold timedLoop at h
      simp only at h
      split at h
      · simp only [Option.some.injEq, Prod.mk.injEq] at h
        obtain ⟨rfl, rfl⟩ := h
        simp
      · split at h
        · simp only [Option.some.injEq, Prod.mk.injEq] at h
          obtain ⟨rfl, rfl⟩ := h
          simp
        · cases hr : timedLoop stop (acc ++ c) es (clock.map (· - 1)) with
          | none => simp [hr] at h
          | some r =>
            simp only [hr, Option.map_some, Option.some.injEq, Prod.mk.injEq] at h
            obtain ⟨rfl, rfl⟩ := h
            have := ih (acc ++ c) r.1 _ r.2 (by rw [hr])
            rw [this]; simp [List.append_assoc]

/-- on the wire: with a clock that does not run out the timed read is the plain read, whatever the
    pause pattern (same buffer, same bytes left unread, same bytes held back) -/
theorem readUntilTimed_eq (stop : Bytes → Bool) (h0 : stop [] = false) (pauses : List Bool) (w : Wire) :
    Wire.readUntilTimed stop pauses none w = Wire.readUntil stop w := by
  unfold Wire.readUntilTimed Wire.readUntil
  simp only [timedLoop_weave stop pauses _ [] h0]

/-- a plain read that succeeded succeeds identically under a stop test that agrees with the first on
    every prefix of the returned buffer -/
theorem readUntil_congr (s1 s2 : Bytes → Bool) (w w' : Wire) (buf : Bytes)
    (h : Wire.readUntil s2 w = some (buf, w')) (hp : ∀ b, b <+: buf → s1 b = s2 b) :
    Wire.readUntil s1 w = some (buf, w') := by
  unfold Wire.readUntil at h ⊢
  simp only at h ⊢
  cases hr : readLoop s2 [] (cleanPieces w.held (piecesOf w.avail w.cuts)).1 with
  | none => simp [hr] at h
  | some r =>
    simp only [hr, Option.some.injEq, Prod.mk.injEq] at h
    obtain ⟨h1, h2⟩ := h
    have := readLoop_congr s1 s2 _ [] r.1 r.2 (by rw [hr]) (by rw [h1]; exact hp)
    simp only [this, h1, h2]

end Scrapli.Chan
