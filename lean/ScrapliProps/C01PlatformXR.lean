import ScrapliProps.C01Platform
/-
  The IOS-XR class pattern inside the quantifier of C01 (as C01Platform.lean does for IOS-XE):
    (^[\w.\-@/:]{1,63}#\s?$)|(^[\w.\-@/:]{1,63}\(config[\w.\-@/:]{0,32}\)#\s?$)|(the same again)      re.M | re.I
  `iosxrP` is the line predicate; `blank`, `NoEarly`, `PromptOK` are PROVED for every privilege-exec and
  configuration prompt the pattern admits, with or without the one trailing blank `\s?` allows.  The fact left
  to sampling: the compiled pattern accepts exactly the lines `iosxrP` accepts (compared with CPython every run).
-/
namespace Scrapli.Chan
open Scrapli

/-- `\s` on a line (a line holds no newline) -/
def isSpaceB (c : UInt8) : Bool := c == 32 || c == 9 || c == 13 || c == 11 || c == 12
def configLit : Bytes := [99, 111, 110, 102, 105, 103]

/-- `[\w.\-@/:]{1,63}\(config[\w.\-@/:]{0,32}\)` on the reversed text (neither class has a parenthesis) -/
def cfgXrRev (t : Bytes) : Bool :=
  match t with
  | 41 :: u =>
    match u.dropWhile (· != 40) with
    | 40 :: hr =>
      let mode := (u.takeWhile (· != 40)).reverse
      ((mode.take 6).map lowerByte == configLit) && decide ((mode.drop 6).length ≤ 32) && (mode.drop 6).all xeCls &&
        hostOK hr.reverse
    | _ => false
  | _ => false

/-- the text in front of `#`, reversed -/
def xrCore (t : Bytes) : Bool := hostOK t.reverse || cfgXrRev t

/-- one line matches the IOS-XR class pattern -/
def iosxrP (s : Bytes) : Bool :=
  match s.reverse with
  | 35 :: t => xrCore t
  | w :: 35 :: t => isSpaceB w && xrCore t
  | _ => false

/-- every accepted line holds a `#` -/
theorem iosxrP_hash {s : Bytes} (h : iosxrP s = true) : (35 : UInt8) ∈ s := by
  unfold iosxrP at h
  have hr : ∀ c, c ∈ s.reverse → c ∈ s := fun c hc => List.mem_reverse.mp hc
  split at h
  · rename_i t e; exact hr 35 (by rw [e]; simp)
  · rename_i w t e; exact hr 35 (by rw [e]; simp)
  · exact absurd h (by simp)

/-- **no early match** when every accepted line holds a terminator and the only terminator of `p` is its
    last byte -/
theorem noEarly_of_term_mem {P : Bytes → Bool} (hP : ∀ s, P s = true → ∃ c ∈ s, isTerm c = true)
    (p : Bytes) (hp : ∀ c ∈ p.dropLast, isTerm c = false) : NoEarly P p := by
  intro q hq hne s hs
  rw [Bool.eq_false_iff]; intro h
  have hqd : q <+: p.dropLast := by
    obtain ⟨r, hr⟩ := hq
    cases hr' : r with
    | nil => subst hr'; simp at hr; exact absurd hr hne
    | cons a r2 =>
      subst hr'
      rw [← hr]
      have : (q ++ a :: r2).dropLast = q ++ (a :: r2).dropLast := by
        rw [List.dropLast_append_of_ne_nil (by simp)]
      rw [this]
      exact List.prefix_append _ _
  obtain ⟨c, hc, ht⟩ := hP s h
  have := hp c (hqd.subset (hs.subset hc))
  rw [this] at ht; exact absurd ht (by simp)

theorem iosxrP_blank (s : Bytes) (h : squishBuf s = []) : iosxrP s = false := by
  rw [Bool.eq_false_iff]; intro hp
  have := blank_not_term h 35 (iosxrP_hash hp)
  revert this; decide

/-- the prompts of the IOS-XR levels: privilege exec and every configuration mode -/
inductive XrPrompt : Bytes → Prop
  | priv (h : Bytes) (hh : hostOK h = true) : XrPrompt (h ++ [35])
  | conf (h m : Bytes) (hh : hostOK h = true) (hm : m.length ≤ 32) (hmc : m.all xeCls = true) :
      XrPrompt (h ++ 40 :: (configLit ++ m) ++ [41, 35])

theorem xeCls_ne_paren {c : UInt8} (h : xeCls c = true) : (c != 40) = true := by
  have : c ≠ 40 := by intro e; subst e; revert h; decide
  simpa using this

theorem configLit_ne_paren : ∀ c ∈ configLit, (c != 40) = true := by decide

/-- the text in front of `#` is accepted -/
theorem xrPrompt_core {p : Bytes} (hp : XrPrompt p) : ∃ t, p.reverse = 35 :: t ∧ xrCore t = true := by
  cases hp with
  | priv h hh => exact ⟨h.reverse, by simp, by simp [xrCore, hh]⟩
  | conf h m hh hm hmc =>
    refine ⟨41 :: ((configLit ++ m).reverse ++ 40 :: h.reverse), by simp, ?_⟩
    have hmr : ∀ c ∈ (configLit ++ m).reverse, (c != 40) = true := by
      intro c hc
      rcases List.mem_append.mp (List.mem_reverse.mp hc) with h1 | h1
      · exact configLit_ne_paren c h1
      · exact xeCls_ne_paren (List.all_eq_true.mp hmc c h1)
    have htw : ((configLit ++ m).reverse ++ 40 :: h.reverse).takeWhile (· != 40) = (configLit ++ m).reverse := by
      rw [List.takeWhile_append_of_pos hmr]; simp
    have hdw : ((configLit ++ m).reverse ++ 40 :: h.reverse).dropWhile (· != 40) = 40 :: h.reverse := by
      rw [List.dropWhile_append_of_pos hmr]; simp
    have hc : cfgXrRev (41 :: ((configLit ++ m).reverse ++ 40 :: h.reverse)) = true := by
      unfold cfgXrRev
      simp only [htw, hdw, List.reverse_reverse, hh, Bool.and_true]
      have h6 : (configLit ++ m).take 6 = configLit := by simp [configLit]
      have d6 : (configLit ++ m).drop 6 = m := by simp [configLit]
      rw [h6, d6]
      simp only [Bool.and_eq_true, decide_eq_true_eq]
      exact ⟨⟨by decide, hm⟩, hmc⟩
    unfold xrCore; rw [hc]; simp

/-- **the prompt is accepted, alone and followed by the one blank `\s?` admits** -/
theorem xrPrompt_accepted {p : Bytes} (hp : XrPrompt p) : iosxrP p = true ∧ iosxrP (p ++ [32]) = true := by
  obtain ⟨t, hr, hc⟩ := xrPrompt_core hp
  constructor
  · unfold iosxrP; rw [hr]; exact hc
  · unfold iosxrP
    have : (p ++ [32]).reverse = 32 :: 35 :: t := by simp [hr]
    rw [this]
    simp [isSpaceB, hc]

theorem configLit_not_term : ∀ c ∈ configLit, isTerm c = false := by decide

/-- every byte of the prompt but the last is no terminator -/
theorem xrPrompt_inner {p : Bytes} (hp : XrPrompt p) : ∀ c ∈ p.dropLast, isTerm c = false := by
  cases hp with
  | priv h hh =>
    intro c hc
    rw [List.dropLast_concat] at hc
    exact xeCls_not_term (hostOK_cls hh c hc)
  | conf h m hh hm hmc =>
    intro c hc
    have e : (h ++ 40 :: (configLit ++ m) ++ [41, 35]).dropLast = h ++ 40 :: (configLit ++ m) ++ [41] := by
      have : h ++ 40 :: (configLit ++ m) ++ [41, 35] = (h ++ 40 :: (configLit ++ m) ++ [41]) ++ [35] := by simp
      rw [this, List.dropLast_concat]
    rw [e] at hc
    simp only [List.mem_append, List.mem_cons, List.mem_singleton, List.not_mem_nil, or_false] at hc
    rcases hc with (h1 | h1 | h1 | h1) | h1
    · exact xeCls_not_term (hostOK_cls hh c h1)
    · subst h1; decide
    · exact configLit_not_term c h1
    · exact xeCls_not_term (List.all_eq_true.mp hmc c h1)
    · subst h1; decide

theorem xrPrompt_ne {p : Bytes} (hp : XrPrompt p) : p ≠ [] := by
  cases hp <;> simp

theorem xrPrompt_bytes {p : Bytes} (hp : XrPrompt p) :
    ∀ c ∈ p, xeModeCls c = true ∨ c = 40 ∨ c = 41 ∨ c = 62 ∨ c = 35 := by
  have hcls : ∀ {c}, xeCls c = true → xeModeCls c = true := by
    intro c h; unfold xeModeCls; simp [h]
  have hlit : ∀ c ∈ configLit, xeModeCls c = true := by decide
  cases hp with
  | priv h hh =>
    intro c hc
    rcases List.mem_append.mp hc with h1 | h1
    · exact Or.inl (hcls (hostOK_cls hh c h1))
    · simp at h1; subst h1; simp
  | conf h m hh hm hmc =>
    intro c hc
    simp only [List.mem_append, List.mem_cons, List.not_mem_nil, or_false] at hc
    rcases hc with (h1 | h1 | h1 | h1) | h1 | h1
    · exact Or.inl (hcls (hostOK_cls hh c h1))
    · subst h1; simp
    · exact Or.inl (hlit c h1)
    · exact Or.inl (hcls (List.all_eq_true.mp hmc c h1))
    · subst h1; simp
    · subst h1; simp

/-- **every IOS-XR privilege-exec / configuration prompt is inside the quantifier of C01**, printed with or
    without one trailing blank -/
theorem iosxr_fits (cfg : Cfg) (out : Bytes → Bytes) {p t : Bytes} (hp : XrPrompt p) (ht : t = [] ∨ t = [32])
    (hS : ∀ x, cfg.prompt.search x = (splitNL x).any iosxrP)
    (hstrict : cfg.rough = false) (hret : IsRet cfg.ret) (hwin : (p ++ t).length < cfg.depth) :
    Fits iosxrP cfg { out := out, prompt := p, trail := t } where
  search_lines := hS
  strict := hstrict
  ret := hret
  blank := iosxrP_blank
  noEarly := noEarly_of_term_mem (fun s h => ⟨35, iosxrP_hash h, by decide⟩) p (xrPrompt_inner hp)
  promptOK := by
    intro t' ht'
    have hacc := xrPrompt_accepted hp
    rcases ht with e | e
    · subst e
      have : t' = [] := by simpa using ht'
      subst this; simpa using hacc.1
    · subst e
      have hcase : t' = [] ∨ t' = [32] := by
        obtain ⟨r, hr⟩ := ht'
        cases t' with
        | nil => exact Or.inl rfl
        | cons a as =>
          simp only [List.cons_append, List.cons.injEq] at hr
          have : as = [] := by
            have := hr.2
            cases as with
            | nil => rfl
            | cons b bs => simp at this
          exact Or.inr (by rw [hr.1, this])
      rcases hcase with e' | e'
      · subst e'; simpa using hacc.1
      · subst e'; exact hacc.2
  prompt_ne := xrPrompt_ne hp
  prompt_nl := fun hm => (xe_plain_byte (xrPrompt_bytes hp NL hm)).1 rfl
  prompt_plain :=
    ⟨fun hm => (xe_plain_byte (xrPrompt_bytes hp CR hm)).2.1 rfl,
     fun hm => (xe_plain_byte (xrPrompt_bytes hp ESC hm)).2.2 rfl⟩
  trail_hws := by
    rcases ht with e | e <;> subst e <;> simp [isHws]
  fits_window := hwin

/-- non-vacuity: "RP/0/RP0/CPU0:xr-1(config-if)#" is such a prompt -/
example : XrPrompt ([82, 80, 47, 48, 47, 82, 80, 48, 47, 67, 80, 85, 48, 58, 120, 114, 45, 49] ++ 40 ::
    (configLit ++ [45, 105, 102]) ++ [41, 35]) :=
  XrPrompt.conf _ _ (by decide) (by decide) (by decide)

end Scrapli.Chan
