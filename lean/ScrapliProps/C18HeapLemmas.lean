import ScrapliModel.FactoryHeap
/-
  Helper lemmas for the isolation half of C18: separation invariant of the heap model and the
  refinement of the heap operations by the value-level operations.
-/
namespace Scrapli.Factory.Heap
open Scrapli.Factory

/-! ## basic heap facts -/

theorem lt_of_get {h : Heap} {a : Nat} {o : Obj} (e : h[a]? = some o) : a < h.length := by
  rcases Nat.lt_or_ge a h.length with hlt | hge
  · exact hlt
  · rw [List.getElem?_eq_none hge] at e; cases e

theorem get_append_old (h l : Heap) {a : Nat} (ha : a < h.length) : (h ++ l)[a]? = h[a]? :=
  List.getElem?_append_left ha

theorem get_set_ne (h : Heap) {a x : Nat} (o : Obj) (hx : x ≠ a) : (h.set a o)[x]? = h[x]? := by
  simp [Ne.symm hx]

theorem get_set_self (h : Heap) {a : Nat} (o : Obj) (ha : a < h.length) : (h.set a o)[a]? = some o := by
  simp [ha]

/-! ## frame: a snapshot depends only on the cells of its region -/

theorem cellDict_congr {h h' : Heap} {a : Nat} (e : h'[a]? = h[a]?) : cellDict h' a = cellDict h a := by
  simp [cellDict, e]

theorem cellLvl_congr {h h' : Heap} {a : Nat} (e : h'[a]? = h[a]?) : cellLvl h' a = cellLvl h a := by
  simp [cellLvl, e]

theorem cellStrs_congr {h h' : Heap} {a : Nat} (e : h'[a]? = h[a]?) : cellStrs h' a = cellStrs h a := by
  simp [cellStrs, e]

theorem mem_regionP {h : Heap} {a x : Nat} : x ∈ regionP h a ↔ x = a ∨ ∃ e ∈ cellDict h a, e.2 = x := by
  simp [regionP]

theorem mem_region {h : Heap} {t : Tables} {x : Nat} :
    x ∈ region h t ↔ x = t.fwc ∨ x = t.privs ∨ ∃ e ∈ cellDict h t.privs, e.2 = x := by
  simp [region, regionP]

theorem frameP {h h' : Heap} {a : Nat} (hf : ∀ x ∈ regionP h a, h'[x]? = h[x]?) :
    viewPrivs h' a = viewPrivs h a ∧ regionP h' a = regionP h a ∧ cellDict h' a = cellDict h a := by
  have hd : cellDict h' a = cellDict h a := cellDict_congr (hf a (by simp [regionP]))
  refine ⟨?_, by simp [regionP, hd], hd⟩
  simp only [viewPrivs, hd]
  apply List.map_congr_left
  intro e he
  have : cellLvl h' e.2 = cellLvl h e.2 := cellLvl_congr (hf e.2 (mem_regionP.mpr (Or.inr ⟨e, he, rfl⟩)))
  rw [this]

theorem frame {h h' : Heap} {t : Tables} (hf : ∀ x ∈ region h t, h'[x]? = h[x]?) :
    viewT h' t = viewT h t ∧ region h' t = region h t := by
  have hp := frameP (h := h) (h' := h') (a := t.privs) (fun x hx => hf x (by simp [region, hx]))
  have hs : cellStrs h' t.fwc = cellStrs h t.fwc := cellStrs_congr (hf t.fwc (by simp [region]))
  exact ⟨by simp [viewT, hp.1, hs], by simp [region, hp.2.1]⟩

/-! ## well-formed roots, separation invariant -/

structure WF (h : Heap) (t : Tables) : Prop where
  dict : ∃ es, h[t.privs]? = some (.dict es)
  lvls : ∀ e ∈ cellDict h t.privs, ∃ d, h[e.2]? = some (.lvl d)
  strs : ∃ l, h[t.fwc]? = some (.strs l)
  nodup : (region h t).Nodup

theorem WF.bounded {h : Heap} {t : Tables} (w : WF h t) : ∀ x ∈ region h t, x < h.length := by
  intro x hx
  rcases mem_region.mp hx with rfl | rfl | ⟨e, he, rfl⟩
  · obtain ⟨l, hl⟩ := w.strs; exact lt_of_get hl
  · obtain ⟨es, hes⟩ := w.dict; exact lt_of_get hes
  · obtain ⟨d, hd⟩ := w.lvls e he; exact lt_of_get hd

theorem WF.transfer {h h' : Heap} {t : Tables} (w : WF h t) (hf : ∀ x ∈ region h t, h'[x]? = h[x]?) : WF h' t := by
  have hr := (frame hf).2
  have hd : cellDict h' t.privs = cellDict h t.privs := cellDict_congr (hf _ (by simp [region, regionP]))
  refine ⟨?_, ?_, ?_, by rw [hr]; exact w.nodup⟩
  · obtain ⟨es, hes⟩ := w.dict; exact ⟨es, by rw [hf _ (by simp [region, regionP]), hes]⟩
  · intro e he
    rw [hd] at he
    obtain ⟨d, hd'⟩ := w.lvls e he
    exact ⟨d, by rw [hf _ (mem_region.mpr (Or.inr (Or.inr ⟨e, he, rfl⟩))), hd']⟩
  · obtain ⟨l, hl⟩ := w.strs; exact ⟨l, by rw [hf _ (by simp [region]), hl]⟩

def Disj (h : Heap) (a b : Tables) : Prop := ∀ x, x ∈ region h a → x ∈ region h b → False

theorem Disj.symm {h : Heap} {a b : Tables} (d : Disj h a b) : Disj h b a := fun x hb ha => d x ha hb

def roots (s : St) : List Tables := s.defs.map (·.2) ++ s.conns.map (·.2.t)

structure Inv (s : St) : Prop where
  wf : ∀ t ∈ roots s, WF s.heap t
  sep : (roots s).Pairwise (Disj s.heap)

/-! ## allocation -/

theorem entriesFrom_snd (b : Nat) (l : List (String × Level)) :
    (entriesFrom b l).map (·.2) = List.range' b l.length := by
  induction l generalizing b with
  | nil => rfl
  | cons e r ih => simp [entriesFrom, ih, List.range'_succ]

theorem entriesFrom_mem {b : Nat} {l : List (String × Level)} {e : String × Nat} (he : e ∈ entriesFrom b l) :
    b ≤ e.2 ∧ e.2 < b + l.length := by
  have : e.2 ∈ (entriesFrom b l).map (·.2) := List.mem_map_of_mem he
  rw [entriesFrom_snd] at this
  have := List.mem_range'_1.mp this
  omega

/-- reading back freshly allocated levels -/
theorem entriesFrom_view (pre : Heap) (l : List (String × Level)) (post h : Heap)
    (hh : h = pre ++ l.map (fun e => Obj.lvl e.2) ++ post) :
    (entriesFrom pre.length l).map (fun e => (e.1, cellLvl h e.2)) = l := by
  induction l generalizing pre with
  | nil => rfl
  | cons e r ih =>
    have h1 : h = (pre ++ [Obj.lvl e.2]) ++ r.map (fun e => Obj.lvl e.2) ++ post := by simp [hh]
    have := ih (pre ++ [Obj.lvl e.2]) h1
    simp only [List.length_append, List.length_cons, List.length_nil, Nat.zero_add] at this
    have hc : cellLvl h pre.length = e.2 := by
      simp [cellLvl, hh]
    simp [entriesFrom, this, hc]

theorem entriesFrom_lvls (pre : Heap) (l : List (String × Level)) (post h : Heap)
    (hh : h = pre ++ l.map (fun e => Obj.lvl e.2) ++ post) :
    ∀ e ∈ entriesFrom pre.length l, ∃ d, h[e.2]? = some (Obj.lvl d) := by
  induction l generalizing pre with
  | nil => intro e he; cases he
  | cons e r ih =>
    have h1 : h = (pre ++ [Obj.lvl e.2]) ++ r.map (fun e => Obj.lvl e.2) ++ post := by simp [hh]
    have := ih (pre ++ [Obj.lvl e.2]) h1
    simp only [List.length_append, List.length_cons, List.length_nil, Nat.zero_add] at this
    intro x hx
    simp only [entriesFrom, List.mem_cons] at hx
    rcases hx with rfl | hx
    · exact ⟨e.2, by simp [hh]⟩
    · exact this x hx

structure FreshP (h h' : Heap) (a : Nat) (vals : List (String × Level)) : Prop where
  old : ∀ x, x < h.length → h'[x]? = h[x]?
  len : h.length ≤ h'.length
  view : viewPrivs h' a = vals
  fresh : ∀ x ∈ regionP h' a, h.length ≤ x
  dict : ∃ es, h'[a]? = some (.dict es)
  lvls : ∀ e ∈ cellDict h' a, ∃ d, h'[e.2]? = some (.lvl d)
  nodup : (regionP h' a).Nodup

theorem allocPrivs_fresh (h : Heap) (vals : List (String × Level)) :
    FreshP h (allocPrivs h vals).1 (allocPrivs h vals).2 vals := by
  have hget : (allocPrivs h vals).1[(allocPrivs h vals).2]? = some (Obj.dict (entriesFrom h.length vals)) := by
    simp [allocPrivs]
  have hd : cellDict (allocPrivs h vals).1 (allocPrivs h vals).2 = entriesFrom h.length vals := by
    simp [cellDict, hget]
  refine ⟨?_, by simp [allocPrivs], ?_, ?_, ⟨_, hget⟩, ?_, ?_⟩
  · intro x hx
    simp only [allocPrivs, List.append_assoc]
    exact List.getElem?_append_left hx
  · simp only [viewPrivs, hd]
    exact entriesFrom_view h vals _ _ rfl
  · intro x hx
    rcases mem_regionP.mp hx with rfl | ⟨e, he, rfl⟩
    · simp [allocPrivs]
    · rw [hd] at he; exact (entriesFrom_mem he).1
  · intro e he
    rw [hd] at he
    exact entriesFrom_lvls h vals _ _ rfl e he
  · simp only [regionP, hd, entriesFrom_snd, List.nodup_cons]
    refine ⟨?_, List.nodup_range'⟩
    intro hm
    have := List.mem_range'_1.mp hm
    simp [allocPrivs] at this


/-! ## list plumbing -/

theorem lookup_map_val {α β γ : Type} [BEq α] (f : β → γ) (l : List (α × β)) (k : α) :
    (l.map (fun e => (e.1, f e.2))).lookup k = (l.lookup k).map f := by
  induction l with
  | nil => rfl
  | cons e r ih =>
    obtain ⟨k', v⟩ := e
    simp only [List.map_cons, List.lookup_cons, ih]
    cases k == k' <;> rfl

theorem lookup_split {β : Type} {l : List (Nat × β)} {i : Nat} {c : β} (hl : l.lookup i = some c) :
    ∃ pre post, l = pre ++ (i, c) :: post ∧ ∀ e ∈ pre, e.1 ≠ i := by
  induction l with
  | nil => simp at hl
  | cons e r ih =>
    obtain ⟨k, v⟩ := e
    rw [List.lookup_cons] at hl
    by_cases hk : i = k
    · subst hk
      simp at hl
      subst hl
      exact ⟨[], r, rfl, by simp⟩
    · have : (i == k) = false := by simp [hk]
      rw [this] at hl
      obtain ⟨pre, post, rfl, hp⟩ := ih hl
      refine ⟨(k, v) :: pre, post, rfl, ?_⟩
      intro e he
      rcases List.mem_cons.mp he with rfl | he
      · exact fun h => hk h.symm
      · exact hp e he

theorem lookup_none_keys {β : Type} {l : List (Nat × β)} {i : Nat} (hl : l.lookup i = none) :
    ∀ e ∈ l, e.1 ≠ i := by
  induction l with
  | nil => simp
  | cons e r ih =>
    obtain ⟨k, v⟩ := e
    rw [List.lookup_cons] at hl
    by_cases hk : i = k
    · subst hk; simp at hl
    · have : (i == k) = false := by simp [hk]
      rw [this] at hl
      intro e he
      rcases List.mem_cons.mp he with rfl | he
      · exact fun h => hk h.symm
      · exact ih hl e he

theorem lookup_str_mem {l : List (String × Nat)} {k : String} {a : Nat} (hl : l.lookup k = some a) :
    ∃ e ∈ l, e.2 = a := by
  induction l with
  | nil => simp at hl
  | cons e r ih =>
    obtain ⟨k', v⟩ := e
    rw [List.lookup_cons] at hl
    cases hk : k == k'
    · rw [hk] at hl
      obtain ⟨e, he, h2⟩ := ih hl
      exact ⟨e, List.mem_cons_of_mem _ he, h2⟩
    · rw [hk] at hl
      simp at hl
      exact ⟨(k', v), by simp, hl⟩

theorem updFirst_none (i : Nat) (f : ConnV → ConnV) (l : List (Nat × ConnV)) (hl : ∀ e ∈ l, e.1 ≠ i) :
    updFirst i f l = l := by
  induction l with
  | nil => rfl
  | cons e r ih =>
    have h1 : (i == e.1) = false := by
      have := hl e (by simp); simp; exact fun h => this h.symm
    simp [updFirst, h1, ih (fun e he => hl e (List.mem_cons_of_mem _ he))]

theorem updFirst_split (i : Nat) (f : ConnV → ConnV) (pre post : List (Nat × ConnV)) (c : ConnV)
    (hp : ∀ e ∈ pre, e.1 ≠ i) : updFirst i f (pre ++ (i, c) :: post) = pre ++ (i, f c) :: post := by
  induction pre with
  | nil => simp [updFirst]
  | cons e r ih =>
    have h1 : (i == e.1) = false := by
      have := hp e (by simp); simp; exact fun h => this h.symm
    simp [updFirst, h1, ih (fun e he => hp e (List.mem_cons_of_mem _ he))]

theorem setLevel_none (lvl : String) (d : Level) (l : List (String × Level))
    (hl : ∀ e ∈ l, (lvl == e.1) = false) : setLevel lvl d l = l := by
  induction l with
  | nil => rfl
  | cons e r ih =>
    simp [setLevel, hl e (by simp), ih (fun e he => hl e (List.mem_cons_of_mem _ he))]

theorem lookup_none_str {l : List (String × Nat)} {k : String} (hl : l.lookup k = none) :
    ∀ e ∈ l, (k == e.1) = false := by
  induction l with
  | nil => simp
  | cons e r ih =>
    obtain ⟨k', v⟩ := e
    rw [List.lookup_cons] at hl
    cases hk : k == k'
    · rw [hk] at hl
      intro e he
      rcases List.mem_cons.mp he with rfl | he
      · exact hk
      · exact ih hl e he
    · rw [hk] at hl; simp at hl

/-- an in-place write to the level object found under `lvl` changes exactly that entry of the snapshot -/
theorem view_setLevel (h : Heap) (es : List (String × Nat)) (lvl : String) (a : Nat) (d : Level)
    (hl : es.lookup lvl = some a) (nd : (es.map (·.2)).Nodup) (ha : a < h.length) :
    es.map (fun e => (e.1, cellLvl (h.set a (Obj.lvl d)) e.2))
      = setLevel lvl d (es.map (fun e => (e.1, cellLvl h e.2))) := by
  induction es with
  | nil => simp at hl
  | cons e r ih =>
    obtain ⟨k, b⟩ := e
    rw [List.lookup_cons] at hl
    simp only [List.map_cons, List.nodup_cons] at nd
    cases hk : lvl == k
    · rw [hk] at hl
      obtain ⟨e', he', h2⟩ := lookup_str_mem hl
      have hne : b ≠ a := by
        intro hb; apply nd.1; rw [hb, ← h2]; exact List.mem_map_of_mem he'
      have hc : cellLvl (h.set a (Obj.lvl d)) b = cellLvl h b := cellLvl_congr (get_set_ne h _ hne)
      simp [setLevel, hk, hc, ih hl nd.2]
    · rw [hk] at hl
      simp at hl
      subst hl
      have hc : cellLvl (h.set b (Obj.lvl d)) b = d := by simp [cellLvl, get_set_self h _ ha]
      have ht : r.map (fun e => (e.1, cellLvl (h.set b (Obj.lvl d)) e.2)) = r.map (fun e => (e.1, cellLvl h e.2)) := by
        apply List.map_congr_left
        intro e he
        have hne : e.2 ≠ b := by
          intro hb; apply nd.1; rw [← hb]; exact List.mem_map_of_mem he
        rw [cellLvl_congr (get_set_ne h _ hne)]
      simp [setLevel, hk, hc, ht]

/-! ## a mutation of one connection -/

def viewC (h : Heap) (e : Nat × Conn) : Nat × ConnV := (e.1, ⟨e.2.cls, viewT h e.2.t⟩)

theorem view_eq (s : St) : view s = ⟨s.defs.map (fun e => (e.1, viewT s.heap e.2)), s.conns.map (viewC s.heap)⟩ := rfl

/-- Heap `h'` differs from `s.heap` only inside the region of connection `c` (and in fresh cells):
    the invariant is kept and every other snapshot is unchanged. -/
theorem mutate_inv {s : St} (hi : Inv s) {pre post : List (Nat × Conn)} {i : Nat} {c : Conn}
    (hc : s.conns = pre ++ (i, c) :: post) {h' : Heap}
    (pres : ∀ x, x < s.heap.length → x ∉ region s.heap c.t → h'[x]? = s.heap[x]?)
    (wfc : WF h' c.t)
    (reg : ∀ x ∈ region h' c.t, x ∈ region s.heap c.t ∨ s.heap.length ≤ x) :
    Inv { s with heap := h' } ∧
    view { s with heap := h' } =
      ⟨(view s).defs, pre.map (viewC s.heap) ++ (i, ⟨c.cls, viewT h' c.t⟩) :: post.map (viewC s.heap)⟩ := by
  have hroots : roots s = (s.defs.map (·.2) ++ pre.map (·.2.t)) ++ c.t :: post.map (·.2.t) := by
    simp [roots, hc]
  have hsep := hi.sep
  rw [hroots, List.pairwise_middle (fun {x y} (d : Disj s.heap x y) => d.symm), List.pairwise_cons] at hsep
  obtain ⟨hcd, hrest⟩ := hsep
  have hmem : ∀ b, b ∈ (s.defs.map (·.2) ++ pre.map (·.2.t)) ++ post.map (·.2.t) → b ∈ roots s := by
    intro b hb; rw [hroots]
    rcases List.mem_append.mp hb with h1 | h1
    · exact List.mem_append_left _ h1
    · exact List.mem_append_right _ (List.mem_cons_of_mem _ h1)
  -- every other root is untouched
  have hother : ∀ b, b ∈ (s.defs.map (·.2) ++ pre.map (·.2.t)) ++ post.map (·.2.t) →
      WF h' b ∧ viewT h' b = viewT s.heap b ∧ region h' b = region s.heap b := by
    intro b hb
    have w := hi.wf b (hmem b hb)
    have hf : ∀ x ∈ region s.heap b, h'[x]? = s.heap[x]? := fun x hx =>
      pres x (w.bounded x hx) (fun hx' => hcd b hb x hx' hx)
    exact ⟨w.transfer hf, (frame hf).1, (frame hf).2⟩
  refine ⟨⟨?_, ?_⟩, ?_⟩
  · intro t ht
    have ht' : t ∈ roots s := ht
    rw [hroots] at ht'
    by_cases htc : t = c.t
    · subst htc; exact wfc
    · rcases List.mem_append.mp ht' with h1 | h1
      · exact (hother t (List.mem_append_left _ h1)).1
      · rcases List.mem_cons.mp h1 with h2 | h2
        · exact absurd h2 htc
        · exact (hother t (List.mem_append_right _ h2)).1
  · show (roots s).Pairwise (Disj h')
    rw [hroots, List.pairwise_middle (fun {x y} (d : Disj h' x y) => d.symm), List.pairwise_cons]
    refine ⟨?_, ?_⟩
    · intro b hb x hx hxb
      rw [(hother b hb).2.2] at hxb
      rcases reg x hx with hx' | hx'
      · exact hcd b hb x hx' hxb
      · have := (hi.wf b (hmem b hb)).bounded x hxb; omega
    · refine hrest.imp_of_mem ?_
      intro a b ha hb hd x hxa hxb
      rw [(hother a ha).2.2] at hxa
      rw [(hother b hb).2.2] at hxb
      exact hd x hxa hxb
  · rw [view_eq, view_eq]
    simp only [hc, List.map_append, List.map_cons, StV.mk.injEq]
    refine ⟨?_, ?_⟩
    · apply List.map_congr_left
      intro e he
      rw [(hother e.2 (List.mem_append_left _ (List.mem_append_left _ (List.mem_map.mpr ⟨e, he, rfl⟩)))).2.1]
    · congr 1
      · apply List.map_congr_left
        intro e he
        simp only [viewC]
        rw [(hother e.2.t (List.mem_append_left _ (List.mem_append_right _ (List.mem_map.mpr ⟨e, he, rfl⟩)))).2.1]
      · congr 1
        apply List.map_congr_left
        intro e he
        simp only [viewC]
        rw [(hother e.2.t (List.mem_append_right _ (List.mem_map.mpr ⟨e, he, rfl⟩))).2.1]


theorem conn_root {s : St} {pre post : List (Nat × Conn)} {i : Nat} {c : Conn}
    (hc : s.conns = pre ++ (i, c) :: post) : c.t ∈ roots s := by
  simp [roots, hc]

theorem conns_split_view (s : St) {pre post : List (Nat × Conn)} {i : Nat} {c : Conn}
    (hc : s.conns = pre ++ (i, c) :: post) (hp : ∀ e ∈ pre, e.1 ≠ i) (f : ConnV → ConnV) :
    updFirst i f (view s).conns
      = pre.map (viewC s.heap) ++ (i, f ⟨c.cls, viewT s.heap c.t⟩) :: post.map (viewC s.heap) := by
  have h1 : (view s).conns = pre.map (viewC s.heap) ++ (i, ⟨c.cls, viewT s.heap c.t⟩) :: post.map (viewC s.heap) := by
    rw [view_eq]; simp [hc, viewC]
  rw [h1, updFirst_split]
  intro e he
  obtain ⟨e', he', rfl⟩ := List.mem_map.mp he
  exact hp e' he'

theorem conns_none_view (s : St) {i : Nat} (hl : s.conns.lookup i = none) (f : ConnV → ConnV) :
    updFirst i f (view s).conns = (view s).conns := by
  apply updFirst_none
  intro e he
  rw [view_eq] at he
  obtain ⟨e', he', rfl⟩ := List.mem_map.mp he
  exact lookup_none_keys hl e' he'

theorem view_unchanged (s : St) {pre post : List (Nat × Conn)} {i : Nat} {c : Conn}
    (hc : s.conns = pre ++ (i, c) :: post) (hp : ∀ e ∈ pre, e.1 ≠ i) (f : ConnV → ConnV)
    (hf : f ⟨c.cls, viewT s.heap c.t⟩ = ⟨c.cls, viewT s.heap c.t⟩) :
    ({ view s with conns := updFirst i f (view s).conns } : StV) = view s := by
  rw [conns_split_view s hc hp f, hf]
  rw [view_eq]; simp [hc, viewC]

/-- an in-place write of a non-dict cell inside a well-formed root keeps it well-formed with the same shape -/
theorem WF.write {h : Heap} {t : Tables} (w : WF h t) {a : Nat} {o : Obj} (ha : a ∈ region h t)
    (hne : a ≠ t.privs) (hs : a = t.fwc → ∃ l, o = Obj.strs l) (hl : a ≠ t.fwc → ∃ d, o = Obj.lvl d) :
    WF (h.set a o) t ∧ cellDict (h.set a o) t.privs = cellDict h t.privs := by
  have hd : cellDict (h.set a o) t.privs = cellDict h t.privs := cellDict_congr (get_set_ne h _ (Ne.symm hne))
  have hr : region (h.set a o) t = region h t := by simp [region, regionP, hd]
  have hlen := w.bounded a ha
  have hnd := w.nodup
  simp only [region, List.nodup_cons] at hnd
  refine ⟨⟨?_, ?_, ?_, by rw [hr]; exact w.nodup⟩, hd⟩
  · obtain ⟨es, hes⟩ := w.dict
    exact ⟨es, by rw [get_set_ne h _ (Ne.symm hne), hes]⟩
  · intro e he
    rw [hd] at he
    by_cases hea : e.2 = a
    · have hnf : a ≠ t.fwc := by
        intro haf; apply hnd.1; rw [← haf, ← hea]; exact mem_regionP.mpr (Or.inr ⟨e, he, rfl⟩)
      obtain ⟨d, rfl⟩ := hl hnf
      exact ⟨d, by rw [hea, get_set_self h _ hlen]⟩
    · obtain ⟨d, hd'⟩ := w.lvls e he
      exact ⟨d, by rw [get_set_ne h _ hea, hd']⟩
  · by_cases haf : a = t.fwc
    · obtain ⟨l, rfl⟩ := hs haf
      exact ⟨l, by rw [← haf, get_set_self h _ hlen]⟩
    · obtain ⟨l, hl'⟩ := w.strs
      exact ⟨l, by rw [get_set_ne h _ (Ne.symm haf), hl']⟩

/-! ## the four operations: invariant kept, heap step = value step on the snapshots -/

theorem step_editFailedWhen (classes : List ClassInfo) {s : St} (hi : Inv s) (i : Nat) (l : List String) :
    Inv (step classes s (.editFailedWhen i l)) ∧
    view (step classes s (.editFailedWhen i l)) = stepV classes (view s) (.editFailedWhen i l) := by
  simp only [step, stepV]
  cases hl : s.conns.lookup i with
  | none => exact ⟨hi, by rw [conns_none_view s hl]⟩
  | some c =>
    obtain ⟨pre, post, hc, hp⟩ := lookup_split hl
    have w := hi.wf c.t (conn_root hc)
    have hmem : c.t.fwc ∈ region s.heap c.t := by simp [region]
    have hnd := w.nodup
    simp only [region, regionP, List.nodup_cons, List.mem_cons, not_or] at hnd
    have hne : c.t.fwc ≠ c.t.privs := hnd.1.1
    obtain ⟨wf', hd⟩ := w.write (o := Obj.strs l) hmem hne (fun _ => ⟨l, rfl⟩) (fun h => absurd rfl h)
    have hreg : region (s.heap.set c.t.fwc (Obj.strs l)) c.t = region s.heap c.t := by simp [region, regionP, hd]
    obtain ⟨hI, hV⟩ := mutate_inv hi hc (h' := s.heap.set c.t.fwc (Obj.strs l))
      (fun x _ hx => get_set_ne _ _ (fun h => hx (h ▸ hmem))) wf' (fun x hx => Or.inl (hreg ▸ hx))
    refine ⟨hI, ?_⟩
    rw [hV, conns_split_view s hc hp]
    have hvp : viewPrivs (s.heap.set c.t.fwc (Obj.strs l)) c.t.privs = viewPrivs s.heap c.t.privs := by
      refine (frameP (fun x hx => get_set_ne _ _ ?_)).1
      intro hx'; subst hx'
      rcases mem_regionP.mp hx with h1 | ⟨e, he, h2⟩
      · exact hne h1
      · exact hnd.1.2 (List.mem_map.mpr ⟨e, he, h2⟩)
    have hvs : cellStrs (s.heap.set c.t.fwc (Obj.strs l)) c.t.fwc = l := by
      simp [cellStrs, get_set_self _ _ (w.bounded _ hmem)]
    simp [viewT, hvp, hvs]

theorem step_editLevel (classes : List ClassInfo) {s : St} (hi : Inv s) (i : Nat) (lvl : String) (d : Level) :
    Inv (step classes s (.editLevel i lvl d)) ∧
    view (step classes s (.editLevel i lvl d)) = stepV classes (view s) (.editLevel i lvl d) := by
  simp only [step, stepV]
  cases hl : s.conns.lookup i with
  | none => exact ⟨hi, by rw [conns_none_view s hl]⟩
  | some c =>
    obtain ⟨pre, post, hc, hp⟩ := lookup_split hl
    have w := hi.wf c.t (conn_root hc)
    have hnd := w.nodup
    simp only [region, regionP, List.nodup_cons, List.mem_cons, not_or] at hnd
    cases hla : (cellDict s.heap c.t.privs).lookup lvl with
    | none =>
      simp only [hla]
      refine ⟨hi, (view_unchanged s hc hp _ ?_).symm⟩
      have := setLevel_none lvl d (viewPrivs s.heap c.t.privs) (by
        intro e he
        obtain ⟨e', he', rfl⟩ := List.mem_map.mp he
        exact lookup_none_str hla e' he')
      simp [viewT, this]
    | some a =>
      simp only [hla]
      obtain ⟨e, he, hea⟩ := lookup_str_mem hla
      have hmem : a ∈ region s.heap c.t := mem_region.mpr (Or.inr (Or.inr ⟨e, he, hea⟩))
      have hain : a ∈ (cellDict s.heap c.t.privs).map (·.2) := List.mem_map.mpr ⟨e, he, hea⟩
      have hnp : a ≠ c.t.privs := by
        intro h; have h2 := hain; rw [h] at h2; exact hnd.2.1 h2
      have hnf : a ≠ c.t.fwc := by
        intro h; have h2 := hain; rw [h] at h2; exact hnd.1.2 h2
      obtain ⟨wf', hd⟩ := w.write (o := Obj.lvl d) hmem hnp (fun h => absurd h hnf) (fun _ => ⟨d, rfl⟩)
      have hreg : region (s.heap.set a (Obj.lvl d)) c.t = region s.heap c.t := by simp [region, regionP, hd]
      obtain ⟨hI, hV⟩ := mutate_inv hi hc (h' := s.heap.set a (Obj.lvl d))
        (fun x _ hx => get_set_ne _ _ (fun h => hx (h ▸ hmem))) wf' (fun x hx => Or.inl (hreg ▸ hx))
      refine ⟨hI, ?_⟩
      rw [hV, conns_split_view s hc hp]
      have hvp : viewPrivs (s.heap.set a (Obj.lvl d)) c.t.privs = setLevel lvl d (viewPrivs s.heap c.t.privs) := by
        simp only [viewPrivs, hd]
        exact view_setLevel s.heap _ lvl a d hla hnd.2.2 (w.bounded a hmem)
      have hvs : cellStrs (s.heap.set a (Obj.lvl d)) c.t.fwc = cellStrs s.heap c.t.fwc :=
        cellStrs_congr (get_set_ne _ _ (Ne.symm hnf))
      simp [viewT, hvp, hvs]


theorem lookup_mem_snd {α β : Type} [BEq α] {l : List (α × β)} {k : α} {v : β} (hl : l.lookup k = some v) :
    ∃ e ∈ l, e.2 = v := by
  induction l with
  | nil => simp at hl
  | cons e r ih =>
    obtain ⟨k', v'⟩ := e
    rw [List.lookup_cons] at hl
    cases hk : k == k'
    · rw [hk] at hl
      obtain ⟨e, he, h2⟩ := ih hl
      exact ⟨e, List.mem_cons_of_mem _ he, h2⟩
    · rw [hk] at hl
      simp at hl
      exact ⟨(k', v'), by simp, hl⟩

theorem step_registerSession (classes : List ClassInfo) {s : St} (hi : Inv s) (i : Nat) (name : String) :
    Inv (step classes s (.registerSession i name)) ∧
    view (step classes s (.registerSession i name)) = stepV classes (view s) (.registerSession i name) := by
  simp only [step, stepV]
  cases hl : s.conns.lookup i with
  | none => exact ⟨hi, by rw [conns_none_view s hl]⟩
  | some c =>
    obtain ⟨pre, post, hc, hp⟩ := lookup_split hl
    have w := hi.wf c.t (conn_root hc)
    have hb := w.bounded
    have hnd := w.nodup
    simp only [region, regionP, List.nodup_cons, List.mem_cons, not_or] at hnd
    have hvs : (view s) = ⟨(view s).defs, pre.map (viewC s.heap) ++ (i, ⟨c.cls, viewT s.heap c.t⟩) :: post.map (viewC s.heap)⟩ := by
      rw [view_eq]; simp [hc, viewC]
    rw [conns_split_view s hc hp]
    simp only []
    cases hs : (findClass classes c.cls).bind (fun x => x.session) with
    | none => exact ⟨hi, hvs⟩
    | some tpl =>
      simp only []
      have hany : (viewT s.heap c.t).privs.any (fun e => name == e.1)
          = (cellDict s.heap c.t.privs).any (fun e => name == e.1) := by
        simp [viewT, viewPrivs, List.any_map, Function.comp_def]
      rw [hany]
      cases ha : (cellDict s.heap c.t.privs).any (fun e => name == e.1) with
      | true => exact ⟨hi, hvs⟩
      | false =>
        simp only [Bool.false_eq_true, if_false]
        have hpl : c.t.privs < s.heap.length := hb _ (by simp [region, regionP])
        have hfl : c.t.fwc < s.heap.length := hb _ (by simp [region])
        have hget : ((s.heap ++ [Obj.lvl (instantiate tpl name)]).set c.t.privs
            (Obj.dict (cellDict s.heap c.t.privs ++ [(name, s.heap.length)])))[c.t.privs]?
            = some (Obj.dict (cellDict s.heap c.t.privs ++ [(name, s.heap.length)])) :=
          get_set_self _ _ (by simp; omega)
        have hold : ∀ x, x < s.heap.length → x ≠ c.t.privs →
            ((s.heap ++ [Obj.lvl (instantiate tpl name)]).set c.t.privs
              (Obj.dict (cellDict s.heap c.t.privs ++ [(name, s.heap.length)])))[x]? = s.heap[x]? := by
          intro x hx hne
          rw [get_set_ne _ _ hne, get_append_old _ _ hx]
        have hnew : ((s.heap ++ [Obj.lvl (instantiate tpl name)]).set c.t.privs
            (Obj.dict (cellDict s.heap c.t.privs ++ [(name, s.heap.length)])))[s.heap.length]?
            = some (Obj.lvl (instantiate tpl name)) := by
          rw [get_set_ne _ _ (by omega)]; simp
        generalize hh' : (s.heap ++ [Obj.lvl (instantiate tpl name)]).set c.t.privs
            (Obj.dict (cellDict s.heap c.t.privs ++ [(name, s.heap.length)])) = h' at hget hold hnew ⊢
        have hd' : cellDict h' c.t.privs = cellDict s.heap c.t.privs ++ [(name, s.heap.length)] := by
          simp [cellDict, hget]
        have hentry : ∀ e ∈ cellDict s.heap c.t.privs, e.2 < s.heap.length ∧ e.2 ≠ c.t.privs ∧ e.2 ≠ c.t.fwc := by
          intro e he
          have hm : e.2 ∈ (cellDict s.heap c.t.privs).map (·.2) := List.mem_map.mpr ⟨e, he, rfl⟩
          refine ⟨hb _ (mem_region.mpr (Or.inr (Or.inr ⟨e, he, rfl⟩))), ?_, ?_⟩
          · intro h; rw [h] at hm; exact hnd.2.1 hm
          · intro h; rw [h] at hm; exact hnd.1.2 hm
        have hreg' : region h' c.t = c.t.fwc :: c.t.privs :: ((cellDict s.heap c.t.privs).map (·.2) ++ [s.heap.length]) := by
          simp [region, regionP, hd']
        have wf' : WF h' c.t := by
          refine ⟨⟨_, hget⟩, ?_, ?_, ?_⟩
          · intro e he
            rw [hd'] at he
            rcases List.mem_append.mp he with he | he
            · obtain ⟨d, hd⟩ := w.lvls e he
              exact ⟨d, by rw [hold _ (hentry e he).1 (hentry e he).2.1, hd]⟩
            · simp at he; subst he; exact ⟨_, hnew⟩
          · obtain ⟨l, hl'⟩ := w.strs
            exact ⟨l, by rw [hold _ hfl hnd.1.1, hl']⟩
          · rw [hreg']
            simp only [List.nodup_cons, List.mem_cons, List.mem_append, List.not_mem_nil, or_false, not_or, List.nodup_append]
            refine ⟨⟨hnd.1.1, hnd.1.2, by omega⟩, ⟨hnd.2.1, by omega⟩, hnd.2.2, by simp, ?_⟩
            intro x hx y hy
            obtain ⟨e, he, rfl⟩ := List.mem_map.mp hx
            subst hy
            exact Nat.ne_of_lt (hentry e he).1
        obtain ⟨hI, hV⟩ := mutate_inv hi hc (h' := h')
          (fun x hx hnr => hold x hx (fun h => hnr (h ▸ (by simp [region, regionP]))))
          wf' (by
            intro x hx
            rw [hreg'] at hx
            simp only [List.mem_cons, List.mem_append, List.not_mem_nil, or_false] at hx
            rcases hx with rfl | rfl | hx | rfl
            · left; simp [region]
            · left; simp [region, regionP]
            · left; simp only [region, regionP, List.mem_cons]; exact Or.inr (Or.inr hx)
            · right; exact Nat.le_refl _)
        refine ⟨hI, ?_⟩
        rw [hV]
        have hvp : viewPrivs h' c.t.privs = viewPrivs s.heap c.t.privs ++ [(name, instantiate tpl name)] := by
          simp only [viewPrivs, hd', List.map_append, List.map_cons, List.map_nil]
          congr 1
          · apply List.map_congr_left
            intro e he
            rw [cellLvl_congr (hold _ (hentry e he).1 (hentry e he).2.1)]
          · simp [cellLvl, hnew]
        have hvf : cellStrs h' c.t.fwc = cellStrs s.heap c.t.fwc := cellStrs_congr (hold _ hfl hnd.1.1)
        simp [viewT, hvp, hvf]


/-- the class table only contains constructors that copy: `deepcopy` for the privilege levels, any copy
    for the list of str -/
def Copies (classes : List ClassInfo) : Prop :=
  ∀ c ∈ classes, c.privsCopy = CopyMode.deep ∧ c.fwcCopy ≠ CopyMode.alias

theorem copyFwc_copy {m : CopyMode} (hm : m ≠ CopyMode.alias) (h : Heap) (src : Nat) :
    copyFwc m h src = allocStrs h (cellStrs h src) := by
  cases m <;> simp_all [copyFwc]

/-- a root allocated on top of `s.heap` is separated from everything that existed: for any new state
    whose roots are the old ones plus `t'` -/
theorem fresh_root_inv {s s' : St} (hi : Inv s) {t' : Tables}
    (old : ∀ x, x < s.heap.length → s'.heap[x]? = s.heap[x]?)
    (wf' : WF s'.heap t') (fresh : ∀ x ∈ region s'.heap t', s.heap.length ≤ x)
    (hroots : roots s' = s.defs.map (·.2) ++ t' :: s.conns.map (·.2.t)) :
    Inv s' ∧ ∀ t ∈ roots s, viewT s'.heap t = viewT s.heap t := by
  have hold : ∀ t ∈ roots s, WF s'.heap t ∧ viewT s'.heap t = viewT s.heap t ∧ region s'.heap t = region s.heap t := by
    intro t ht
    have w := hi.wf t ht
    have hf : ∀ x ∈ region s.heap t, s'.heap[x]? = s.heap[x]? := fun x hx => old x (w.bounded x hx)
    exact ⟨w.transfer hf, (frame hf).1, (frame hf).2⟩
  refine ⟨⟨?_, ?_⟩, fun t ht => (hold t ht).2.1⟩
  · intro t ht
    rw [hroots] at ht
    rcases List.mem_append.mp ht with h1 | h1
    · exact (hold t (List.mem_append_left _ h1)).1
    · rcases List.mem_cons.mp h1 with h2' | h2'
      · subst h2'; exact wf'
      · exact (hold t (List.mem_append_right _ h2')).1
  · rw [hroots, List.pairwise_middle (fun {x y} (d : Disj s'.heap x y) => d.symm), List.pairwise_cons]
    refine ⟨?_, ?_⟩
    · intro b hb x hx hxb
      have hb' : b ∈ roots s := hb
      rw [(hold b hb').2.2] at hxb
      have := (hi.wf b hb').bounded x hxb
      have := fresh x hx
      omega
    · refine hi.sep.imp_of_mem ?_
      intro a b ha hb hd x hxa hxb
      rw [(hold a ha).2.2] at hxa
      rw [(hold b hb).2.2] at hxb
      exact hd x hxa hxb

theorem cellStrs_of_get {h : Heap} {a : Nat} {l : List String} (e : h[a]? = some (Obj.strs l)) : cellStrs h a = l := by
  simp [cellStrs, e]

/-- allocating a dict of fresh levels and then a fresh list gives a well-formed root above the old heap
    whose snapshot is the allocated value -/
theorem alloc_root (h : Heap) (vals : List (String × Level)) (l : List String) :
    (∀ x, x < h.length → ((allocPrivs h vals).1 ++ [Obj.strs l])[x]? = h[x]?) ∧
    WF ((allocPrivs h vals).1 ++ [Obj.strs l]) ⟨(allocPrivs h vals).2, (allocPrivs h vals).1.length⟩ ∧
    (∀ x ∈ region ((allocPrivs h vals).1 ++ [Obj.strs l]) ⟨(allocPrivs h vals).2, (allocPrivs h vals).1.length⟩, h.length ≤ x) ∧
    viewT ((allocPrivs h vals).1 ++ [Obj.strs l]) ⟨(allocPrivs h vals).2, (allocPrivs h vals).1.length⟩ = ⟨vals, l⟩ := by
  have FP := allocPrivs_fresh h vals
  generalize allocPrivs h vals = r1 at FP ⊢
  obtain ⟨h1, p⟩ := r1
  simp only at FP ⊢
  have hpb : ∀ x ∈ regionP h1 p, x < h1.length := by
    intro x hx
    rcases mem_regionP.mp hx with rfl | ⟨e, he, rfl⟩
    · obtain ⟨es, hes⟩ := FP.dict; exact lt_of_get hes
    · obtain ⟨d', hd'⟩ := FP.lvls e he; exact lt_of_get hd'
  have hfr := frameP (h := h1) (h' := h1 ++ [Obj.strs l]) (a := p) (fun x hx => get_append_old _ _ (hpb x hx))
  have hgf : (h1 ++ [Obj.strs l])[h1.length]? = some (Obj.strs l) := by simp
  have hreg2 : region (h1 ++ [Obj.strs l]) ⟨p, h1.length⟩ = h1.length :: regionP h1 p := by
    simp [region, hfr.2.1]
  refine ⟨?_, ⟨?_, ?_, ⟨_, hgf⟩, ?_⟩, ?_, ?_⟩
  · intro x hx
    rw [get_append_old _ _ (Nat.lt_of_lt_of_le hx FP.len), FP.old x hx]
  · obtain ⟨es, hes⟩ := FP.dict
    exact ⟨es, by rw [get_append_old _ _ (hpb p (by simp [regionP])), hes]⟩
  · intro e he
    simp only [hfr.2.2] at he
    obtain ⟨d', hd'⟩ := FP.lvls e he
    exact ⟨d', by rw [get_append_old _ _ (lt_of_get hd'), hd']⟩
  · rw [hreg2, List.nodup_cons]
    exact ⟨fun hm => Nat.lt_irrefl _ (hpb _ hm), FP.nodup⟩
  · intro x hx
    rw [hreg2] at hx
    rcases List.mem_cons.mp hx with rfl | hx
    · exact FP.len
    · exact FP.fresh x hx
  · show (⟨viewPrivs _ p, cellStrs _ h1.length⟩ : TablesV) = ⟨vals, l⟩
    rw [hfr.1, FP.view, cellStrs_of_get hgf]

theorem step_construct (classes : List ClassInfo) (hcl : Copies classes) {s : St} (hi : Inv s) (i : Nat) (cls : String) :
    Inv (step classes s (.construct i cls)) ∧
    view (step classes s (.construct i cls)) = stepV classes (view s) (.construct i cls) := by
  simp only [step, stepV]
  cases hf : findClass classes cls with
  | none => exact ⟨hi, rfl⟩
  | some ci =>
    simp only []
    have hdl : (view s).defs.lookup ci.platform = (s.defs.lookup ci.platform).map (viewT s.heap) := by
      rw [view_eq]; exact lookup_map_val _ _ _
    rw [hdl]
    cases hd : s.defs.lookup ci.platform with
    | none => exact ⟨hi, rfl⟩
    | some d =>
      simp only [Option.map_some]
      have hci := hcl ci (List.mem_of_find?_eq_some hf)
      rw [hci.1, copyFwc_copy hci.2]
      simp only [copyPrivs, allocStrs]
      obtain ⟨e, he, hed⟩ := lookup_mem_snd hd
      have hdr : d ∈ roots s := by
        rw [← hed]; exact List.mem_append_left _ (List.mem_map.mpr ⟨e, he, rfl⟩)
      have wd := hi.wf d hdr
      have hfl : d.fwc < s.heap.length := wd.bounded _ (by simp [region])
      have hA0 := alloc_root s.heap (viewPrivs s.heap d.privs) (cellStrs s.heap d.fwc)
      have hcs : cellStrs (allocPrivs s.heap (viewPrivs s.heap d.privs)).1 d.fwc = cellStrs s.heap d.fwc :=
        cellStrs_congr ((allocPrivs_fresh s.heap (viewPrivs s.heap d.privs)).old _ hfl)
      rw [hcs]
      obtain ⟨hold2, wf', hfresh, hvt⟩ := hA0
      obtain ⟨hI, hV⟩ := fresh_root_inv (s := s)
        (s' := { s with heap := (allocPrivs s.heap (viewPrivs s.heap d.privs)).1 ++ [Obj.strs (cellStrs s.heap d.fwc)],
                        conns := (i, ⟨cls, ⟨(allocPrivs s.heap (viewPrivs s.heap d.privs)).2,
                                            (allocPrivs s.heap (viewPrivs s.heap d.privs)).1.length⟩⟩) :: s.conns })
        hi hold2 wf' hfresh (by simp [roots])
      refine ⟨hI, ?_⟩
      rw [view_eq, view_eq]
      simp only [List.map_cons, StV.mk.injEq, viewC, hvt]
      refine ⟨?_, ?_⟩
      · apply List.map_congr_left
        intro e he
        rw [hV e.2 (List.mem_append_left _ (List.mem_map.mpr ⟨e, he, rfl⟩))]
      · congr 1
        apply List.map_congr_left
        intro e he
        simp only [viewC]
        rw [hV e.2.t (List.mem_append_right _ (List.mem_map.mpr ⟨e, he, rfl⟩))]

/-! ## rewriting the dict of one connection (`del d[k]`, `d[k] = new object`) -/

/-- the dict cell of connection `c` is replaced by entries that are old entries or point at the one
    freshly allocated level: invariant kept, every other snapshot unchanged -/
theorem dict_rewrite {s : St} (hi : Inv s) {pre post : List (Nat × Conn)} {i : Nat} {c : Conn}
    (hc : s.conns = pre ++ (i, c) :: post) (ext : List Obj) (es' : List (String × Nat))
    (hes : ∀ e ∈ es', e ∈ cellDict s.heap c.t.privs ∨ (e.2 = s.heap.length ∧ ∃ d, ext = [Obj.lvl d]))
    (hnd' : (es'.map (·.2)).Nodup) :
    Inv { s with heap := (s.heap ++ ext).set c.t.privs (Obj.dict es') } ∧
    view { s with heap := (s.heap ++ ext).set c.t.privs (Obj.dict es') } =
      ⟨(view s).defs, pre.map (viewC s.heap) ++
        (i, ⟨c.cls, ⟨es'.map (fun e => (e.1, cellLvl (s.heap ++ ext) e.2)), cellStrs s.heap c.t.fwc⟩⟩)
          :: post.map (viewC s.heap)⟩ := by
  have w := hi.wf c.t (conn_root hc)
  have hb := w.bounded
  have hnd := w.nodup
  simp only [region, regionP, List.nodup_cons, List.mem_cons, not_or] at hnd
  have hpl : c.t.privs < s.heap.length := hb _ (by simp [region, regionP])
  have hfl : c.t.fwc < s.heap.length := hb _ (by simp [region])
  have hget : ((s.heap ++ ext).set c.t.privs (Obj.dict es'))[c.t.privs]? = some (Obj.dict es') :=
    get_set_self _ _ (by simp; omega)
  have hx2 : ∀ x, x ≠ c.t.privs → ((s.heap ++ ext).set c.t.privs (Obj.dict es'))[x]? = (s.heap ++ ext)[x]? :=
    fun x hne => get_set_ne _ _ hne
  have hold : ∀ x, x < s.heap.length → x ≠ c.t.privs →
      ((s.heap ++ ext).set c.t.privs (Obj.dict es'))[x]? = s.heap[x]? := by
    intro x hx hne; rw [hx2 x hne, get_append_old _ _ hx]
  generalize (s.heap ++ ext).set c.t.privs (Obj.dict es') = h' at hget hx2 hold ⊢
  have hd' : cellDict h' c.t.privs = es' := by simp [cellDict, hget]
  have hentry : ∀ e ∈ cellDict s.heap c.t.privs, e.2 < s.heap.length ∧ e.2 ≠ c.t.privs ∧ e.2 ≠ c.t.fwc := by
    intro e he
    have hm : e.2 ∈ (cellDict s.heap c.t.privs).map (·.2) := List.mem_map.mpr ⟨e, he, rfl⟩
    refine ⟨hb _ (mem_region.mpr (Or.inr (Or.inr ⟨e, he, rfl⟩))), ?_, ?_⟩
    · intro h; rw [h] at hm; exact hnd.2.1 hm
    · intro h; rw [h] at hm; exact hnd.1.2 hm
  have hne' : ∀ e ∈ es', e.2 ≠ c.t.privs ∧ e.2 ≠ c.t.fwc := by
    intro e he
    rcases hes e he with h | ⟨h, _⟩
    · exact (hentry e h).2
    · rw [h]; exact ⟨by omega, by omega⟩
  have hreg' : region h' c.t = c.t.fwc :: c.t.privs :: es'.map (·.2) := by simp [region, regionP, hd']
  have wf' : WF h' c.t := by
    refine ⟨⟨_, hget⟩, ?_, ?_, ?_⟩
    · intro e he
      rw [hd'] at he
      rcases hes e he with h | ⟨h, d, hd⟩
      · obtain ⟨d, hd⟩ := w.lvls e h
        exact ⟨d, by rw [hold _ (hentry e h).1 (hentry e h).2.1, hd]⟩
      · refine ⟨d, ?_⟩
        rw [hx2 _ (hne' e he).1, h, hd]; simp
    · obtain ⟨l, hl'⟩ := w.strs
      exact ⟨l, by rw [hold _ hfl hnd.1.1, hl']⟩
    · rw [hreg']
      simp only [List.nodup_cons, List.mem_cons, not_or]
      refine ⟨⟨hnd.1.1, ?_⟩, ?_, hnd'⟩
      · intro hm; obtain ⟨e, he, h⟩ := List.mem_map.mp hm; exact (hne' e he).2 h
      · intro hm; obtain ⟨e, he, h⟩ := List.mem_map.mp hm; exact (hne' e he).1 h
  obtain ⟨hI, hV⟩ := mutate_inv hi hc (h' := h')
    (fun x hx hnr => hold x hx (fun h => hnr (h ▸ (by simp [region, regionP]))))
    wf' (by
      intro x hx
      rw [hreg'] at hx
      simp only [List.mem_cons] at hx
      rcases hx with rfl | rfl | hx
      · left; simp [region]
      · left; simp [region, regionP]
      · obtain ⟨e, he, rfl⟩ := List.mem_map.mp hx
        rcases hes e he with h | ⟨h, _⟩
        · left; exact mem_region.mpr (Or.inr (Or.inr ⟨e, h, rfl⟩))
        · right; omega)
  refine ⟨hI, ?_⟩
  rw [hV]
  have hvp : viewPrivs h' c.t.privs = es'.map (fun e => (e.1, cellLvl (s.heap ++ ext) e.2)) := by
    simp only [viewPrivs, hd']
    apply List.map_congr_left
    intro e he
    rw [cellLvl_congr (hx2 _ (hne' e he).1)]
  have hvf : cellStrs h' c.t.fwc = cellStrs s.heap c.t.fwc := cellStrs_congr (hold _ hfl hnd.1.1)
  simp [viewT, hvp, hvf]

theorem step_delLevel (classes : List ClassInfo) {s : St} (hi : Inv s) (i : Nat) (lvl : String) :
    Inv (step classes s (.delLevel i lvl)) ∧
    view (step classes s (.delLevel i lvl)) = stepV classes (view s) (.delLevel i lvl) := by
  simp only [step, stepV]
  cases hl : s.conns.lookup i with
  | none => exact ⟨hi, by rw [conns_none_view s hl]⟩
  | some c =>
    obtain ⟨pre, post, hc, hp⟩ := lookup_split hl
    have w := hi.wf c.t (conn_root hc)
    have hnd := w.nodup
    simp only [region, regionP, List.nodup_cons, List.mem_cons, not_or] at hnd
    have h := dict_rewrite hi hc [] ((cellDict s.heap c.t.privs).filter (fun e => !(lvl == e.1)))
      (fun e he => Or.inl (List.mem_filter.mp he).1)
      (hnd.2.2.sublist ((List.filter_sublist).map _))
    simp only [List.append_nil] at h
    refine ⟨h.1, ?_⟩
    rw [h.2, conns_split_view s hc hp]
    simp [viewT, viewPrivs, List.filter_map, Function.comp_def]

theorem repoint_snd_mem {k : String} {a x : Nat} {es : List (String × Nat)}
    (h : x ∈ (repoint k a es).map (·.2)) : x ∈ es.map (·.2) ∨ x = a := by
  induction es with
  | nil => simp [repoint] at h; exact Or.inr h
  | cons e r ih =>
    simp only [repoint] at h
    split at h
    · simp only [List.map_cons, List.mem_cons] at h ⊢
      rcases h with h | h
      · exact Or.inr h
      · exact Or.inl (Or.inr h)
    · simp only [List.map_cons, List.mem_cons] at h ⊢
      rcases h with h | h
      · exact Or.inl (Or.inl h)
      · rcases ih h with h | h
        · exact Or.inl (Or.inr h)
        · exact Or.inr h

theorem repoint_mem {k : String} {a : Nat} {es : List (String × Nat)} {e : String × Nat}
    (h : e ∈ repoint k a es) : e ∈ es ∨ e.2 = a := by
  induction es with
  | nil => simp [repoint] at h; exact Or.inr (by rw [h])
  | cons x r ih =>
    simp only [repoint] at h
    split at h
    · rcases List.mem_cons.mp h with h | h
      · exact Or.inr (by rw [h])
      · exact Or.inl (List.mem_cons_of_mem _ h)
    · rcases List.mem_cons.mp h with h | h
      · exact Or.inl (by rw [h]; exact List.mem_cons_self)
      · rcases ih h with h | h
        · exact Or.inl (List.mem_cons_of_mem _ h)
        · exact Or.inr h

theorem repoint_nodup {k : String} {a : Nat} {es : List (String × Nat)}
    (hn : (es.map (·.2)).Nodup) (ha : a ∉ es.map (·.2)) : ((repoint k a es).map (·.2)).Nodup := by
  induction es with
  | nil => simp [repoint]
  | cons e r ih =>
    simp only [List.map_cons, List.nodup_cons, List.mem_cons, not_or] at hn ha
    simp only [repoint]
    split
    · simp only [List.map_cons, List.nodup_cons]
      exact ⟨ha.2, hn.2⟩
    · simp only [List.map_cons, List.nodup_cons]
      refine ⟨?_, ih hn.2 ha.2⟩
      intro hm
      rcases repoint_snd_mem hm with h | h
      · exact hn.1 h
      · exact ha.1 h.symm

theorem repoint_view (h : Heap) (d : Level) (k : String) (es : List (String × Nat))
    (hb : ∀ e ∈ es, e.2 < h.length) :
    (repoint k h.length es).map (fun e => (e.1, cellLvl (h ++ [Obj.lvl d]) e.2))
      = putLevel k d (es.map (fun e => (e.1, cellLvl h e.2))) := by
  have hnew : cellLvl (h ++ [Obj.lvl d]) h.length = d := by simp [cellLvl]
  have hold : ∀ e ∈ es, cellLvl (h ++ [Obj.lvl d]) e.2 = cellLvl h e.2 :=
    fun e he => cellLvl_congr (get_append_old _ _ (hb e he))
  induction es with
  | nil => simp [repoint, putLevel, hnew]
  | cons e r ih =>
    have hr : r.map (fun e => (e.1, cellLvl (h ++ [Obj.lvl d]) e.2)) = r.map (fun e => (e.1, cellLvl h e.2)) := by
      apply List.map_congr_left
      intro x hx; rw [hold x (List.mem_cons_of_mem _ hx)]
    simp only [repoint, List.map_cons, putLevel]
    split
    · simp [hnew, hr]
    · simp only [List.map_cons, hold e List.mem_cons_self]
      rw [ih (fun x hx => hb x (List.mem_cons_of_mem _ hx)) (fun x hx => hold x (List.mem_cons_of_mem _ hx))]

theorem step_addLevel (classes : List ClassInfo) {s : St} (hi : Inv s) (i : Nat) (lvl : String) (d : Level) :
    Inv (step classes s (.addLevel i lvl d)) ∧
    view (step classes s (.addLevel i lvl d)) = stepV classes (view s) (.addLevel i lvl d) := by
  simp only [step, stepV]
  cases hl : s.conns.lookup i with
  | none => exact ⟨hi, by rw [conns_none_view s hl]⟩
  | some c =>
    obtain ⟨pre, post, hc, hp⟩ := lookup_split hl
    have w := hi.wf c.t (conn_root hc)
    have hb := w.bounded
    have hnd := w.nodup
    simp only [region, regionP, List.nodup_cons, List.mem_cons, not_or] at hnd
    have hlt : ∀ e ∈ cellDict s.heap c.t.privs, e.2 < s.heap.length :=
      fun e he => hb _ (mem_region.mpr (Or.inr (Or.inr ⟨e, he, rfl⟩)))
    have hfresh : s.heap.length ∉ (cellDict s.heap c.t.privs).map (·.2) := by
      intro hm; obtain ⟨e, he, h⟩ := List.mem_map.mp hm
      have := hlt e he; omega
    have h := dict_rewrite hi hc [Obj.lvl d] (repoint lvl s.heap.length (cellDict s.heap c.t.privs))
      (fun e he => (repoint_mem he).elim Or.inl (fun h => Or.inr ⟨h, d, rfl⟩))
      (repoint_nodup hnd.2.2 hfresh)
    refine ⟨h.1, ?_⟩
    rw [h.2, conns_split_view s hc hp, repoint_view s.heap d lvl _ hlt]
    simp [viewT, viewPrivs]

/-- **refinement**: under the separation invariant every heap operation is the value-level operation on
    the snapshots, and the invariant is kept -/
theorem step_refines (classes : List ClassInfo) (hcl : Copies classes) {s : St} (hi : Inv s) (op : Op) :
    Inv (step classes s op) ∧ view (step classes s op) = stepV classes (view s) op := by
  cases op with
  | construct i cls => exact step_construct classes hcl hi i cls
  | registerSession i name => exact step_registerSession classes hi i name
  | editLevel i lvl d => exact step_editLevel classes hi i lvl d
  | editFailedWhen i l => exact step_editFailedWhen classes hi i l
  | delLevel i lvl => exact step_delLevel classes hi i lvl
  | addLevel i lvl d => exact step_addLevel classes hi i lvl d

theorem run_refines (classes : List ClassInfo) (hcl : Copies classes) (ops : List Op) {s : St} (hi : Inv s) :
    Inv (run classes s ops) ∧ view (run classes s ops) = runV classes (view s) ops := by
  induction ops generalizing s with
  | nil => exact ⟨hi, rfl⟩
  | cons op r ih =>
    obtain ⟨h1, h2⟩ := step_refines classes hcl hi op
    have := ih h1
    simp only [run, runV, List.foldl_cons] at this ⊢
    rw [← h2]; exact this

/-! ## the initial state -/

theorem addDef_inv {s : St} (hi : Inv s) (e : String × TablesV) :
    Inv (addDef s e) ∧ view (addDef s e) = ⟨(view s).defs ++ [e], (view s).conns⟩ := by
  obtain ⟨hold2, wf', hfresh, hvt⟩ := alloc_root s.heap e.2.privs e.2.fwc
  have hs' : addDef s e = { s with heap := (allocPrivs s.heap e.2.privs).1 ++ [Obj.strs e.2.fwc],
                                   defs := s.defs ++ [(e.1, ⟨(allocPrivs s.heap e.2.privs).2, (allocPrivs s.heap e.2.privs).1.length⟩)] } := by
    simp [addDef, allocTables, allocStrs]
  rw [hs']
  obtain ⟨hI, hV⟩ := fresh_root_inv (s := s)
    (s' := { s with heap := (allocPrivs s.heap e.2.privs).1 ++ [Obj.strs e.2.fwc],
                    defs := s.defs ++ [(e.1, ⟨(allocPrivs s.heap e.2.privs).2, (allocPrivs s.heap e.2.privs).1.length⟩)] })
    hi hold2 wf' hfresh (by simp [roots])
  refine ⟨hI, ?_⟩
  rw [view_eq, view_eq]
  simp only [List.map_append, List.map_cons, List.map_nil, StV.mk.injEq, hvt]
  refine ⟨?_, ?_⟩
  · congr 1
    apply List.map_congr_left
    intro e' he
    rw [hV e'.2 (List.mem_append_left _ (List.mem_map.mpr ⟨e', he, rfl⟩))]
  · apply List.map_congr_left
    intro e' he
    simp only [viewC]
    rw [hV e'.2.t (List.mem_append_right _ (List.mem_map.mpr ⟨e', he, rfl⟩))]

theorem foldl_addDef_inv (defs : List (String × TablesV)) {s : St} (hi : Inv s) :
    Inv (defs.foldl addDef s) ∧ view (defs.foldl addDef s) = ⟨(view s).defs ++ defs, (view s).conns⟩ := by
  induction defs generalizing s with
  | nil => exact ⟨hi, by simp⟩
  | cons e r ih =>
    obtain ⟨h1, h2⟩ := addDef_inv hi e
    obtain ⟨h3, h4⟩ := ih h1
    refine ⟨h3, ?_⟩
    simp only [List.foldl_cons]
    rw [h4, h2]; simp

theorem inv_empty : Inv ⟨[], [], []⟩ := ⟨by intro t ht; simp [roots] at ht, by simp [roots]⟩

/-- the initial state built from plain values is separated and its snapshot is those values -/
theorem mkInit_inv (defs : List (String × TablesV)) :
    Inv (mkInit defs) ∧ view (mkInit defs) = ⟨defs, []⟩ := by
  obtain ⟨h1, h2⟩ := foldl_addDef_inv defs inv_empty
  exact ⟨h1, by rw [mkInit, h2]; simp [view]⟩

/-! ## value level: a connection's tables depend only on the operations addressed to it -/

theorem updFirst_lookup_ne {i j : Nat} (hij : i ≠ j) (f : ConnV → ConnV) (m : List (Nat × ConnV)) :
    (updFirst i f m).lookup j = m.lookup j := by
  induction m with
  | nil => rfl
  | cons e r ih =>
    obtain ⟨k, v⟩ := e
    simp only [updFirst]
    by_cases hk : i = k
    · subst hk
      have : (j == i) = false := by simp; exact fun h => hij h.symm
      simp [List.lookup_cons, this]
    · have : (i == k) = false := by simp [hk]
      simp only [this, Bool.false_eq_true, if_false, List.lookup_cons, ih]

theorem updFirst_lookup_eq (i : Nat) (f : ConnV → ConnV) (m : List (Nat × ConnV)) :
    (updFirst i f m).lookup i = (m.lookup i).map f := by
  induction m with
  | nil => rfl
  | cons e r ih =>
    obtain ⟨k, v⟩ := e
    simp only [updFirst]
    by_cases hk : i = k
    · subst hk; simp
    · have : (i == k) = false := by simp [hk]
      simp only [this, Bool.false_eq_true, if_false, List.lookup_cons, ih]

theorem stepV_defs (classes : List ClassInfo) (s : StV) (op : Op) : (stepV classes s op).defs = s.defs := by
  cases op with
  | construct i cls =>
    simp only [stepV]
    cases findClass classes cls with
    | none => rfl
    | some ci => simp only []; cases s.defs.lookup ci.platform <;> rfl
  | registerSession i name => rfl
  | editLevel i lvl d => rfl
  | editFailedWhen i l => rfl
  | delLevel i lvl => rfl
  | addLevel i lvl d => rfl

theorem stepV_other (classes : List ClassInfo) (s : StV) (op : Op) {j : Nat} (h : op.conn ≠ j) :
    (stepV classes s op).conns.lookup j = s.conns.lookup j := by
  cases op with
  | construct i cls =>
    simp only [stepV]
    cases findClass classes cls with
    | none => rfl
    | some ci =>
      simp only []
      cases s.defs.lookup ci.platform with
      | none => rfl
      | some d =>
        have : (j == i) = false := by simp; exact fun h' => h h'.symm
        simp [List.lookup_cons, this]
  | registerSession i name => exact updFirst_lookup_ne h _ _
  | editLevel i lvl d => exact updFirst_lookup_ne h _ _
  | editFailedWhen i l => exact updFirst_lookup_ne h _ _
  | delLevel i lvl => exact updFirst_lookup_ne h _ _
  | addLevel i lvl d => exact updFirst_lookup_ne h _ _

theorem stepV_own (classes : List ClassInfo) (s1 s2 : StV) (op : Op) (hd : s1.defs = s2.defs)
    (hj : s1.conns.lookup op.conn = s2.conns.lookup op.conn) :
    (stepV classes s1 op).conns.lookup op.conn = (stepV classes s2 op).conns.lookup op.conn := by
  cases op with
  | construct i cls =>
    simp only [stepV, hd]
    cases findClass classes cls with
    | none => exact hj
    | some ci =>
      simp only []
      cases s2.defs.lookup ci.platform with
      | none => exact hj
      | some d => simp [Op.conn]
  | registerSession i name => simp only [stepV, Op.conn, updFirst_lookup_eq] at hj ⊢; rw [hj]
  | editLevel i lvl d => simp only [stepV, Op.conn, updFirst_lookup_eq] at hj ⊢; rw [hj]
  | editFailedWhen i l => simp only [stepV, Op.conn, updFirst_lookup_eq] at hj ⊢; rw [hj]
  | delLevel i lvl => simp only [stepV, Op.conn, updFirst_lookup_eq] at hj ⊢; rw [hj]
  | addLevel i lvl d => simp only [stepV, Op.conn, updFirst_lookup_eq] at hj ⊢; rw [hj]

theorem runV_defs (classes : List ClassInfo) (ops : List Op) (s : StV) : (runV classes s ops).defs = s.defs := by
  induction ops generalizing s with
  | nil => rfl
  | cons op r ih => simp only [runV, List.foldl_cons] at ih ⊢; rw [ih, stepV_defs]

theorem runV_filter (classes : List ClassInfo) (ops : List Op) (j : Nat) (s1 s2 : StV) (hd : s1.defs = s2.defs)
    (hj : s1.conns.lookup j = s2.conns.lookup j) :
    (runV classes s1 ops).conns.lookup j
      = (runV classes s2 (ops.filter (fun op => op.conn == j))).conns.lookup j := by
  induction ops generalizing s1 s2 with
  | nil => exact hj
  | cons op r ih =>
    simp only [runV, List.foldl_cons] at ih ⊢
    by_cases h : op.conn = j
    · have hf : (op :: r).filter (fun op => op.conn == j) = op :: r.filter (fun op => op.conn == j) := by
        simp [h]
      rw [hf, List.foldl_cons]
      apply ih
      · rw [stepV_defs, stepV_defs, hd]
      · subst h; exact stepV_own classes s1 s2 op hd hj
    · have hf : (op :: r).filter (fun op => op.conn == j) = r.filter (fun op => op.conn == j) := by
        simp [h]
      rw [hf]
      apply ih
      · rw [stepV_defs, hd]
      · rw [stepV_other classes s1 op h, hj]

end Scrapli.Factory.Heap
