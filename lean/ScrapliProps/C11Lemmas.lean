import ScrapliModel.Lifecycle
/-
  C11 helper lemmas + the specification-level definitions (Released, the invariant, well-formed
  histories).  The property theorems are in C11.lean.
-/
namespace Scrapli.Lifecycle

/-! ### specification vocabulary -/

/-- every resource flag is clear -/
def Released (s : St) : Prop :=
  s.sess = false ∧ s.chan = false ∧ s.os = false ∧ s.alive = false ∧ s.fileOpen = false ∧ s.orphan = false

instance (s : St) : Decidable (Released s) := by unfold Released; infer_instance

/-- the configuration runs the repaired code: close() with try/finally, and the three repaired facts -/
def FixedCfg (cfg : Cfg) : Prop :=
  (cfg.code = codeFixed cfg.stack ∨ cfg.code = codeFixed2 cfg.stack) ∧ cfg.facts = factsFixed ∧ cfg.tcloseRaises = false

/-- statement-wise invariant (every statement of every method preserves it, from any state) -/
def J (cfg : Cfg) (s : St) : Prop :=
  (s.os = true → s.sess = true) ∧
  (s.fileOpen = true → s.logAttached = true ∧ cfg.sink = .path) ∧
  (s.logAttached = true → cfg.sink ≠ .none) ∧
  s.bioClosed = false ∧
  (isTelnet cfg.kind = false → s.tn = {})

/-- `J` + no orphaned session (preserved by every statement except `transport.open()`) -/
def K (cfg : Cfg) (s : St) : Prop := J cfg s ∧ s.orphan = false

/-- the invariant of reachable states: `K`, and a connection that is not "opened and not yet
    closed" holds nothing -/
def Inv (cfg : Cfg) (s : St) : Prop := K cfg s ∧ (s.needClose = false → Released s)

/-- ghost discipline inside a with-body: open() only after the body closed the connection -/
def bodyOK : List BodyOp → Bool → Bool
  | [], _ => true
  | .operate :: rest, need => bodyOK rest need
  | .raise :: rest, need => bodyOK rest need
  | .raiseExc _ :: rest, need => bodyOK rest need
  | .close :: rest, _ => bodyOK rest false
  | .open :: rest, need => !need && bodyOK rest true

/-- open() / with-blocks only on a connection that is not opened-and-unclosed -/
def allowed (op : Op) (s : St) : Bool :=
  match op with
  | .open => !s.needClose
  | .withBlock body => !s.needClose && bodyOK body true
  | _ => true

/-- well-formed history (judged on the ghost flag, which no fault can influence: `ghost_is_static`) -/
def okHistory (cfg : Cfg) : List (Op × List Ev) → St → Bool
  | [], _ => true
  | (op, tape) :: rest, s => allowed op s && okHistory cfg rest (runOp cfg op s tape).st

def Op.closes : Op → Bool
  | .close => true
  | .withBlock _ => true
  | _ => false

/-- states reachable from a new connection by well-formed histories with arbitrary fault tapes -/
inductive Reach (cfg : Cfg) : St → Prop
  | fresh : Reach cfg {}
  | step {s : St} (op : Op) (tape : List Ev) : Reach cfg s → allowed op s = true → Reach cfg (runOp cfg op s tape).st

/-- the `if self.on_close: self.on_close(self)` part of close() -/
def hookPart (cfg : Cfg) (s : St) (tape : List Ev) : R :=
  execList (execStmt0 cfg) cfg [⟨.hasOnClose, .onClose⟩] s tape

/-- what close() does on a closed connection is decided by the hook alone -/
def closedHookOutcome : Hook → Outcome
  | .none => .returns
  | .userOk => .returns
  | .userRaises => .raises .hookError
  | .acts [] => .returns
  | .acts (_ :: _) => .raises .notOpened

/-- same outcome, same events consumed, same state up to the `channel.channel_log is not None` bit -/
def coreEq (a b : R) : Prop :=
  a.out = b.out ∧ a.tape = b.tape ∧ { a.st with logAttached := false } = { b.st with logAttached := false }

instance (a b : R) : Decidable (coreEq a b) := by unfold coreEq; infer_instance

/-! ### generic facts about the statement language -/

def Node.stmts : Node → List GS
  | .simple x => [x]
  | .tryFinally b f => b ++ f
  | .tryExceptRaise b h => b ++ h
  | .tryFinallyN b f1 f2 => b ++ f1 ++ f2
  | .tryExceptRaiseN b h0 h1 h2 => b ++ h0 ++ h1 ++ h2

def progStmts (p : Prog) : List GS := p.flatMap Node.stmts

section pres
variable (P : St → Prop) (f : Stmt → St → List Ev → R) (cfg : Cfg)

theorem execList_pres (l : List GS) (h : ∀ x ∈ l, ∀ s tape, P s → P (f x.s s tape).st) :
    ∀ s tape, P s → P (execList f cfg l s tape).st := by
  induction l with
  | nil => intro s tape hs; simpa [execList] using hs
  | cons x rest ih =>
    intro s tape hs
    have hx := h x (by simp) s tape hs
    have ih' := ih (fun y hy => h y (by simp [hy]))
    unfold execList
    by_cases hg : guardHolds cfg x.g = true
    · simp only [hg, if_true]
      by_cases hok : (f x.s s tape).ok = true
      · simp only [hok, if_true]; exact ih' _ _ hx
      · simp only [hok]; exact hx
    · simp only [hg]; exact ih' _ _ hs

theorem execNode_pres (n : Node) (h : ∀ x ∈ n.stmts, ∀ s tape, P s → P (f x.s s tape).st) :
    ∀ s tape, P s → P (execNode f cfg n s tape).st := by
  intro s tape hs
  cases n with
  | simple x =>
    exact execList_pres P f cfg [x] (fun y hy => h y (by simpa [Node.stmts] using hy)) s tape hs
  | tryFinally b fin =>
    have hb := execList_pres P f cfg b (fun y hy => h y (by simp [Node.stmts, hy])) s tape hs
    have hf := execList_pres P f cfg fin (fun y hy => h y (by simp [Node.stmts, hy])) _ (execList f cfg b s tape).tape hb
    simpa [execNode] using hf
  | tryExceptRaise b hd =>
    have hb := execList_pres P f cfg b (fun y hy => h y (by simp [Node.stmts, hy])) s tape hs
    have hh := execList_pres P f cfg hd (fun y hy => h y (by simp [Node.stmts, hy])) _ (execList f cfg b s tape).tape hb
    unfold execNode
    by_cases hok : (execList f cfg b s tape).ok = true
    · simp only [hok, if_true]; exact hb
    · simp only [hok]; exact hh
  | tryFinallyN b f1 f2 =>
    have hb := execList_pres P f cfg b (fun y hy => h y (by simp [Node.stmts, hy])) s tape hs
    have h1 := execList_pres P f cfg f1 (fun y hy => h y (by simp [Node.stmts, hy])) _ (execList f cfg b s tape).tape hb
    have h2 := execList_pres P f cfg f2 (fun y hy => h y (by simp [Node.stmts, hy])) _
      (execList f cfg f1 (execList f cfg b s tape).st (execList f cfg b s tape).tape).tape h1
    simpa [execNode, finallyPair] using h2
  | tryExceptRaiseN b h0 h1 h2 =>
    have hb := execList_pres P f cfg b (fun y hy => h y (by simp [Node.stmts, hy])) s tape hs
    have g0 := execList_pres P f cfg h0 (fun y hy => h y (by simp [Node.stmts, hy])) _ (execList f cfg b s tape).tape hb
    have g1 := execList_pres P f cfg h1 (fun y hy => h y (by simp [Node.stmts, hy])) _
      (execList f cfg h0 (execList f cfg b s tape).st (execList f cfg b s tape).tape).tape g0
    have g2 := execList_pres P f cfg h2 (fun y hy => h y (by simp [Node.stmts, hy])) _
      (execList f cfg h1 (execList f cfg h0 (execList f cfg b s tape).st (execList f cfg b s tape).tape).st
        (execList f cfg h0 (execList f cfg b s tape).st (execList f cfg b s tape).tape).tape).tape g1
    unfold execNode
    by_cases hok : (execList f cfg b s tape).ok = true
    · simp only [hok, if_true]; exact hb
    · simp only [hok]
      by_cases hok0 : (execList f cfg h0 (execList f cfg b s tape).st (execList f cfg b s tape).tape).ok = true
      · simp only [hok0, Bool.not_true, Bool.false_eq_true, if_false]
        simpa [finallyPair] using g2
      · simp only [hok0]; simpa using g0

theorem execProg_pres (p : Prog) (h : ∀ x ∈ progStmts p, ∀ s tape, P s → P (f x.s s tape).st) :
    ∀ s tape, P s → P (execProg f cfg p s tape).st := by
  induction p with
  | nil => intro s tape hs; simpa [execProg] using hs
  | cons n rest ih =>
    intro s tape hs
    have hn := execNode_pres P f cfg n (fun y hy => h y (by simp [progStmts, hy])) s tape hs
    have ih' := ih (fun y hy => h y (by
      simp only [progStmts, List.flatMap_cons, List.mem_append]
      exact Or.inr (by simpa [progStmts] using hy)))
    unfold execProg
    by_cases hok : (execNode f cfg n s tape).ok = true
    · simp only [hok, if_true]; exact ih' _ _ hn
    · simp only [hok]; exact hn

end pres


/-! ### preservation through device-facing steps, hooks and single statements -/

/-- what a predicate must tolerate to survive every statement except `transport.open()` -/
structure Tol (cfg : Cfg) (P : St → Prop) : Prop where
  tn : ∀ s e, P s → P { s with tn := stepTn cfg s.tn e }
  dead : ∀ s, P s → P { s with alive := false }
  tclose : ∀ s, P s → P (transportClose cfg s)
  copen : ∀ s, P s → P (channelOpen cfg s)
  cclose : ∀ s, P s → P (channelClose cfg s)

variable {cfg : Cfg} {P : St → Prop}

theorem interact_pres (hp : Tol cfg P) (reads : Bool) (tag : String) (s : St) (tape : List Ev)
    (h : P s) : P (interact cfg reads tag s tape).st := by
  unfold interact
  split
  · exact h
  · split
    · exact h
    · split
      · exact h
      · rename_i e rest
        have h' : P { s with tn := stepTn cfg s.tn e.tn } := hp.tn _ _ h
        split
        · exact hp.dead _ h'
        · split
          · by_cases hq : tcloseFails cfg { s with tn := stepTn cfg s.tn e.tn } = true
            · rw [if_pos hq]; exact h'
            · rw [if_neg hq]; exact hp.tclose _ h'
          · exact h'
        · exact h'
        · exact h'
        · exact h'

theorem runActs_pres (hp : Tol cfg P) (l : List Act) : ∀ s tape, P s → P (runActs cfg l s tape).st := by
  induction l with
  | nil => intro s tape h; simpa [runActs] using h
  | cons a rest ih =>
    intro s tape h
    have ha := interact_pres hp a.reads a.tag s tape h
    unfold runActs
    by_cases hok : (interact cfg a.reads a.tag s tape).ok = true
    · simp only [hok, if_true]; exact ih _ _ ha
    · simp only [hok]; exact ha

theorem runHook_pres (hp : Tol cfg P) (hk : Hook) (tag : String) (s : St) (tape : List Ev) (h : P s) :
    P (runHook cfg hk tag s tape).st := by
  cases hk with
  | none => exact h
  | userOk => exact h
  | userRaises => exact h
  | acts l => exact runActs_pres hp l s tape h

/-- every statement other than `transport.open()` (run by `execStmt0`) -/
theorem execStmt0_pres (hp : Tol cfg P) (st : Stmt) (hne : st ≠ .transportOpen) (s : St) (tape : List Ev) (h : P s) :
    P (execStmt0 cfg st s tape).st := by
  cases st with
  | transportOpen => exact absurd rfl hne
  | logPre c => exact h
  | logPost c => exact h
  | logCritical => exact h
  | transportClose =>
    unfold execStmt0
    by_cases hq : tcloseFails cfg s = true
    · simp only [hq, if_true]; exact h
    · rw [if_neg hq]; exact hp.tclose _ h
  | channelOpen => exact hp.copen _ h
  | channelClose => exact hp.cclose _ h
  | authSystem => exact interact_pres hp _ _ _ _ h
  | authTelnet => exact interact_pres hp _ _ _ _ h
  | onOpen => exact runHook_pres hp _ _ _ _ h
  | onClose => exact runHook_pres hp _ _ _ _ h
  | callOpen => exact h
  | callClose => exact h

/-! ### the three predicates that are carried through -/

theorem ownerHeld_fixed (hf : cfg.facts = factsFixed) (s : St) : ownerHeld cfg s = s.sess := by
  simp [ownerHeld, hf, factsFixed]

theorem J_of_same {s s' : St} (h : J cfg s) (h1 : s'.os = s.os) (h2 : s'.sess = s.sess) (h3 : s'.fileOpen = s.fileOpen)
    (h4 : s'.logAttached = s.logAttached) (h5 : s'.bioClosed = s.bioClosed) (h6 : s'.tn = s.tn) : J cfg s' := by
  unfold J at *; rw [h1, h2, h3, h4, h5, h6]; exact h

theorem stepTn_other (hk : isTelnet cfg.kind = false) (t : Tn) (e : Option Tn) : stepTn cfg t e = t := by
  unfold stepTn; cases e <;> simp [hk]

theorem resetTn_nil (t : Tn) : resetTn [] t = t := by
  simp [resetTn]

theorem resetsOf_other (hk : isTelnet cfg.kind = false) : resetsOf cfg = [] := by
  unfold resetsOf; unfold isTelnet at hk
  cases hkk : cfg.kind <;> simp_all

theorem J_stepTn {s : St} (e : Option Tn) (h : J cfg s) : J cfg { s with tn := stepTn cfg s.tn e } := by
  obtain ⟨h1, h2, h3, h4, h5⟩ := h
  exact ⟨h1, h2, h3, h4, fun hk => by rw [stepTn_other hk]; exact h5 hk⟩

theorem J_resetTn {s : St} (h : J cfg s) : J cfg { s with tn := resetTn (resetsOf cfg) s.tn } := by
  obtain ⟨h1, h2, h3, h4, h5⟩ := h
  exact ⟨h1, h2, h3, h4, fun hk => by rw [resetsOf_other hk, resetTn_nil]; exact h5 hk⟩

theorem transportClose_J (hf : cfg.facts = factsFixed) (s : St) (h : J cfg s) : J cfg (transportClose cfg s) := by
  obtain ⟨h1, h2, h3, h4, h5⟩ := h
  refine ⟨?_, h2, h3, h4, h5⟩
  simp only [transportClose, ownerHeld_fixed hf]
  cases hs : s.sess <;> cases ho : s.os <;> simp_all

theorem channelClose_J (hf : cfg.facts = factsFixed) (s : St) (h : J cfg s) : J cfg (channelClose cfg s) := by
  obtain ⟨h1, h2, h3, h4, h5⟩ := h
  unfold channelClose
  split
  · exact ⟨h1, h2, h3, h4, h5⟩
  · split
    · exact ⟨h1, h2, h3, h4, h5⟩
    · exact ⟨h1, by simp, h3, h4, h5⟩
    · simp only [hf, factsFixed, if_true]; exact ⟨h1, h2, h3, h4, h5⟩

theorem channelOpen_J (s : St) (h : J cfg s) : J cfg (channelOpen cfg s) := by
  obtain ⟨h1, h2, h3, h4, h5⟩ := h
  unfold channelOpen
  split
  · exact ⟨h1, h2, h3, h4, h5⟩
  · rename_i hp; exact ⟨h1, by simp [hp], by simp [hp], h4, h5⟩
  · rename_i hp; exact ⟨h1, by intro hfo; exact ⟨rfl, (h2 hfo).2⟩, by simp [hp], h4, h5⟩

theorem tol_J (hf : cfg.facts = factsFixed) : Tol cfg (J cfg) where
  tn := fun _ e h => J_stepTn e h
  dead := fun _ h => J_of_same h rfl rfl rfl rfl rfl rfl
  tclose := transportClose_J hf
  copen := channelOpen_J
  cclose := channelClose_J hf

theorem channelOpen_orphan (s : St) : (channelOpen cfg s).orphan = s.orphan := by
  unfold channelOpen; split <;> rfl

theorem channelClose_orphan (s : St) : (channelClose cfg s).orphan = s.orphan := by
  unfold channelClose; split
  · rfl
  · split
    · rfl
    · rfl
    · split <;> rfl

theorem channelOpen_need (s : St) : (channelOpen cfg s).needClose = s.needClose := by
  unfold channelOpen; split <;> rfl

theorem channelClose_need (s : St) : (channelClose cfg s).needClose = s.needClose := by
  unfold channelClose; split
  · rfl
  · split
    · rfl
    · rfl
    · split <;> rfl

theorem tol_orphan (c : Bool) : Tol cfg (fun s => s.orphan = c) where
  tn := fun _ _ h => h
  dead := fun _ h => h
  tclose := fun _ h => h
  copen := fun s h => by rw [channelOpen_orphan]; exact h
  cclose := fun s h => by rw [channelClose_orphan]; exact h

theorem tol_need (c : Bool) : Tol cfg (fun s => s.needClose = c) where
  tn := fun _ _ h => h
  dead := fun _ h => h
  tclose := fun _ h => h
  copen := fun s h => by rw [channelOpen_need]; exact h
  cclose := fun s h => by rw [channelClose_need]; exact h

theorem tol_and {Q : St → Prop} (hp : Tol cfg P) (hq : Tol cfg Q) : Tol cfg (fun s => P s ∧ Q s) where
  tn := fun s t h => ⟨hp.tn s t h.1, hq.tn s t h.2⟩
  dead := fun s h => ⟨hp.dead s h.1, hq.dead s h.2⟩
  tclose := fun s h => ⟨hp.tclose s h.1, hq.tclose s h.2⟩
  copen := fun s h => ⟨hp.copen s h.1, hq.copen s h.2⟩
  cclose := fun s h => ⟨hp.cclose s h.1, hq.cclose s h.2⟩

theorem tol_K (hf : cfg.facts = factsFixed) : Tol cfg (K cfg) := tol_and (tol_J hf) (tol_orphan false)

/-! ### transport.open() -/

theorem transportOpen_J (s : St) (tape : List Ev) (h : J cfg s) : J cfg (transportOpen cfg s tape).st := by
  have h' : J cfg { s with tn := resetTn (resetsOf cfg) s.tn } := J_resetTn h
  obtain ⟨h1, h2, h3, h4, h5⟩ := h'
  unfold transportOpen
  simp only
  split
  · exact ⟨h1, h2, h3, h4, h5⟩
  · split
    · exact ⟨fun _ => rfl, h2, h3, h4, h5⟩
    · exact ⟨h1, h2, h3, h4, h5⟩
  · exact ⟨fun _ => rfl, h2, h3, h4, h5⟩

theorem transportOpen_need (s : St) (tape : List Ev) : (transportOpen cfg s tape).st.needClose = s.needClose := by
  unfold transportOpen
  simp only
  split
  · rfl
  · split <;> rfl
  · rfl

/-- from a state without OS session, `transport.open()` orphans nothing -/
theorem transportOpen_orphan (s : St) (tape : List Ev) (hos : s.os = false) : (transportOpen cfg s tape).st.orphan = s.orphan := by
  unfold transportOpen
  simp only
  split
  · rfl
  · split <;> rfl
  · simp [hos]



/-! ### unfolding equations (projections) -/
section unfold
variable (f : Stmt → St → List Ev → R)

@[simp] theorem execList_nil_st (s : St) (tape : List Ev) : (execList f cfg [] s tape).st = s := rfl
@[simp] theorem execList_nil_out (s : St) (tape : List Ev) : (execList f cfg [] s tape).out = .returns := rfl
@[simp] theorem execList_nil_tape (s : St) (tape : List Ev) : (execList f cfg [] s tape).tape = tape := rfl
@[simp] theorem execList_nil_ok (s : St) (tape : List Ev) : (execList f cfg [] s tape).ok = true := rfl

theorem execList_cons_skip (x : GS) (rest : List GS) (s : St) (tape : List Ev) (hg : guardHolds cfg x.g = false) :
    execList f cfg (x :: rest) s tape = execList f cfg rest s tape := by
  rw [execList]; simp [hg]

theorem execList_cons_stop (x : GS) (rest : List GS) (s : St) (tape : List Ev) (hg : guardHolds cfg x.g = true)
    (hok : (f x.s s tape).ok = false) : execList f cfg (x :: rest) s tape = f x.s s tape := by
  rw [execList]; simp [hg, hok]

theorem execList_cons_go (x : GS) (rest : List GS) (s : St) (tape : List Ev) (hg : guardHolds cfg x.g = true)
    (hok : (f x.s s tape).ok = true) :
    (execList f cfg (x :: rest) s tape).st = (execList f cfg rest (f x.s s tape).st (f x.s s tape).tape).st ∧
    (execList f cfg (x :: rest) s tape).out = (execList f cfg rest (f x.s s tape).st (f x.s s tape).tape).out ∧
    (execList f cfg (x :: rest) s tape).tape = (execList f cfg rest (f x.s s tape).st (f x.s s tape).tape).tape ∧
    (execList f cfg (x :: rest) s tape).tr = (f x.s s tape).tr ++ (execList f cfg rest (f x.s s tape).st (f x.s s tape).tape).tr := by
  rw [execList]; simp [hg, hok]

@[simp] theorem execProg_nil_st (s : St) (tape : List Ev) : (execProg f cfg [] s tape).st = s := rfl
@[simp] theorem execProg_nil_out (s : St) (tape : List Ev) : (execProg f cfg [] s tape).out = .returns := rfl
@[simp] theorem execProg_nil_tape (s : St) (tape : List Ev) : (execProg f cfg [] s tape).tape = tape := rfl

theorem execProg_cons_stop (n : Node) (rest : Prog) (s : St) (tape : List Ev) (hok : (execNode f cfg n s tape).ok = false) :
    execProg f cfg (n :: rest) s tape = execNode f cfg n s tape := by
  rw [execProg]; simp [hok]

theorem execProg_cons_go (n : Node) (rest : Prog) (s : St) (tape : List Ev) (hok : (execNode f cfg n s tape).ok = true) :
    (execProg f cfg (n :: rest) s tape).st = (execProg f cfg rest (execNode f cfg n s tape).st (execNode f cfg n s tape).tape).st ∧
    (execProg f cfg (n :: rest) s tape).out = (execProg f cfg rest (execNode f cfg n s tape).st (execNode f cfg n s tape).tape).out ∧
    (execProg f cfg (n :: rest) s tape).tape = (execProg f cfg rest (execNode f cfg n s tape).st (execNode f cfg n s tape).tape).tape ∧
    (execProg f cfg (n :: rest) s tape).tr = (execNode f cfg n s tape).tr ++ (execProg f cfg rest (execNode f cfg n s tape).st (execNode f cfg n s tape).tape).tr := by
  rw [execProg]; simp [hok]

end unfold

theorem ok_iff (r : R) : r.ok = true ↔ r.out = .returns := by
  unfold R.ok; simp

theorem ok_false_iff (r : R) : r.ok = false ↔ r.out ≠ .returns := by
  unfold R.ok; simp


/-! ### close() of the repaired code, computed -/

/-- a statement that always runs, returns and leaves state and tape alone (the log calls) -/
def Quiet (f : Stmt → St → List Ev → R) (st : Stmt) : Prop :=
  ∀ s tape, (f st s tape).st = s ∧ (f st s tape).tape = tape ∧ (f st s tape).out = .returns

theorem execNode_quiet (f : Stmt → St → List Ev → R) (st : Stmt) (hq : Quiet f st) (s : St) (tape : List Ev) :
    (execNode f cfg (.simple ⟨.always, st⟩) s tape).st = s ∧ (execNode f cfg (.simple ⟨.always, st⟩) s tape).tape = tape ∧
    (execNode f cfg (.simple ⟨.always, st⟩) s tape).out = .returns := by
  obtain ⟨h1, h2, h3⟩ := hq s tape
  have hok : (f st s tape).ok = true := (ok_iff _).2 h3
  unfold execNode
  obtain ⟨g1, g2, g3, _⟩ := execList_cons_go (cfg := cfg) f ⟨.always, st⟩ [] s tape rfl hok
  simp only [g1, g2, g3, execList_nil_st, execList_nil_out, execList_nil_tape, h1, h2]
  exact ⟨trivial, trivial, trivial⟩

theorem quiet0_logPre (c : Bool) : Quiet (execStmt0 cfg) (.logPre c) := fun _ _ => ⟨rfl, rfl, rfl⟩
theorem quiet0_logPost (c : Bool) : Quiet (execStmt0 cfg) (.logPost c) := fun _ _ => ⟨rfl, rfl, rfl⟩
theorem quiet0_logCritical : Quiet (execStmt0 cfg) .logCritical := fun _ _ => ⟨rfl, rfl, rfl⟩
theorem quiet1_logCritical : Quiet (execStmt1 cfg) .logCritical := fun _ _ => ⟨rfl, rfl, rfl⟩

theorem tclose_stmt0 (ht : cfg.tcloseRaises = false) (s : St) (tape : List Ev) :
    execStmt0 cfg .transportClose s tape = ⟨.returns, transportClose cfg s, tape, ["tclose"]⟩ := by
  simp [execStmt0, tcloseFails, ht]

theorem tclose_stmt1 (ht : cfg.tcloseRaises = false) (s : St) (tape : List Ev) :
    execStmt1 cfg .transportClose s tape = ⟨.returns, transportClose cfg s, tape, ["tclose"]⟩ := by
  simp [execStmt1, execStmt0, tcloseFails, ht]

/-- `self.transport.close(); self.channel.close()` as a statement list (either executor) -/
theorem closeBoth_list (f : Stmt → St → List Ev → R)
    (ht : ∀ s tape, f .transportClose s tape = ⟨.returns, transportClose cfg s, tape, ["tclose"]⟩)
    (hc : ∀ s tape, f .channelClose s tape = ⟨.returns, channelClose cfg s, tape, ["cclose"]⟩) (s : St) (tape : List Ev) :
    (execList f cfg [⟨.always, .transportClose⟩, ⟨.always, .channelClose⟩] s tape).st = channelClose cfg (transportClose cfg s) ∧
    (execList f cfg [⟨.always, .transportClose⟩, ⟨.always, .channelClose⟩] s tape).tape = tape ∧
    (execList f cfg [⟨.always, .transportClose⟩, ⟨.always, .channelClose⟩] s tape).ok = true := by
  obtain ⟨a1, a2, a3, _⟩ := execList_cons_go (cfg := cfg) f ⟨.always, .transportClose⟩ [⟨.always, .channelClose⟩] s tape rfl (by rw [ht]; rfl)
  obtain ⟨b1, b2, b3, _⟩ := execList_cons_go (cfg := cfg) f ⟨.always, .channelClose⟩ [] (f .transportClose s tape).st (f .transportClose s tape).tape rfl
    (by rw [hc]; rfl)
  refine ⟨?_, ?_, ?_⟩
  · rw [a1, b1]; simp [ht, hc]
  · rw [a3, b3]; simp [ht, hc]
  · rw [ok_iff, a2, b2]; simp

theorem execList_single (f : Stmt → St → List Ev → R) (st : Stmt) (s : St) (tape : List Ev) :
    (execList f cfg [⟨.always, st⟩] s tape).st = (f st s tape).st ∧
    (execList f cfg [⟨.always, st⟩] s tape).out = (f st s tape).out ∧
    (execList f cfg [⟨.always, st⟩] s tape).tape = (f st s tape).tape := by
  by_cases hok : (f st s tape).ok = true
  · obtain ⟨a1, a2, a3, _⟩ := execList_cons_go (cfg := cfg) f ⟨.always, st⟩ [] s tape rfl hok
    rw [a1, a2, a3]
    exact ⟨rfl, ((ok_iff _).1 hok).symm, rfl⟩
  · have hok' : (f st s tape).ok = false := by simpa using hok
    rw [execList_cons_stop (cfg := cfg) f ⟨.always, st⟩ [] s tape rfl hok']
    exact ⟨rfl, rfl, rfl⟩

/-- what the middle node of close() must do for everything below: run the hook part, then close
    transport and channel, passing the hook part's outcome on -/
def ClosesLikeFinally (cfg : Cfg) (n : Node) : Prop :=
  ∀ s tape,
    (execNode (execStmt0 cfg) cfg n s tape).st = channelClose cfg (transportClose cfg (hookPart cfg s tape).st) ∧
    (execNode (execStmt0 cfg) cfg n s tape).out = (hookPart cfg s tape).out ∧
    (execNode (execStmt0 cfg) cfg n s tape).tape = (hookPart cfg s tape).tape

theorem runClose_shape (n : Node) (hn : ClosesLikeFinally cfg n)
    (hc : cfg.code.closeP = [closeHead cfg.stack, n, .simple ⟨.always, .logPost true⟩]) (s : St) (tape : List Ev) :
    (runClose cfg s tape).st = channelClose cfg (transportClose cfg (hookPart cfg s tape).st) ∧
    (runClose cfg s tape).out = (hookPart cfg s tape).out ∧
    (runClose cfg s tape).tape = (hookPart cfg s tape).tape := by
  have hhead : ∃ st, Quiet (execStmt0 cfg) st ∧ closeHead cfg.stack = .simple ⟨.always, st⟩ := by
    cases cfg.stack
    · exact ⟨_, quiet0_logPre true, rfl⟩
    · exact ⟨_, quiet0_logPost true, rfl⟩
  obtain ⟨st0, hq0, hh0⟩ := hhead
  obtain ⟨n1, n2, n3⟩ := execNode_quiet (cfg := cfg) (execStmt0 cfg) st0 hq0 s tape
  have nok : (execNode (execStmt0 cfg) cfg (.simple ⟨.always, st0⟩) s tape).ok = true := (ok_iff _).2 n3
  unfold runClose
  rw [hc, hh0]
  obtain ⟨p1, p2, p3, _⟩ := execProg_cons_go (cfg := cfg) (execStmt0 cfg) (.simple ⟨.always, st0⟩)
    [n, .simple ⟨.always, .logPost true⟩] s tape nok
  rw [p1, p2, p3, n1, n2]
  obtain ⟨d1, d2, d3⟩ := hn s tape
  by_cases hok : (execNode (execStmt0 cfg) cfg n s tape).ok = true
  · obtain ⟨q1, q2, q3, _⟩ := execProg_cons_go (cfg := cfg) (execStmt0 cfg) n [.simple ⟨.always, .logPost true⟩] s tape hok
    obtain ⟨m1, m2, m3⟩ := execNode_quiet (cfg := cfg) (execStmt0 cfg) (.logPost true) (quiet0_logPost true)
      (execNode (execStmt0 cfg) cfg n s tape).st (execNode (execStmt0 cfg) cfg n s tape).tape
    have mok := (ok_iff _).2 m3
    obtain ⟨r1, r2, r3, _⟩ := execProg_cons_go (cfg := cfg) (execStmt0 cfg) (.simple ⟨.always, .logPost true⟩) [] _ _ mok
    rw [q1, q2, q3, r1, r2, r3]
    simp only [execProg_nil_st, execProg_nil_out, execProg_nil_tape]
    refine ⟨m1.trans d1, ?_, m2.trans d3⟩
    rw [← d2]; exact ((ok_iff _).1 hok).symm
  · have hok' : (execNode (execStmt0 cfg) cfg n s tape).ok = false := by simpa using hok
    rw [execProg_cons_stop _ _ _ _ _ hok']
    exact ⟨d1, d2, d3⟩

/-- `try: hook  finally: transport.close(); channel.close()` -/
theorem closesLike_flat (ht : cfg.tcloseRaises = false) :
    ClosesLikeFinally cfg (.tryFinally [⟨.hasOnClose, .onClose⟩] [⟨.always, .transportClose⟩, ⟨.always, .channelClose⟩]) := by
  intro s tape
  obtain ⟨c1, c2, c3⟩ := closeBoth_list (cfg := cfg) (execStmt0 cfg) (tclose_stmt0 ht) (fun _ _ => rfl) (hookPart cfg s tape).st (hookPart cfg s tape).tape
  unfold execNode
  simp only
  unfold hookPart at c1 c2 c3 ⊢
  rw [c1, c2, c3]
  simp

/-- `try: hook  finally: (try: transport.close()  finally: channel.close())` — the same thing as
    long as transport.close() does not raise -/
theorem closesLike_nested (ht : cfg.tcloseRaises = false) :
    ClosesLikeFinally cfg (.tryFinallyN [⟨.hasOnClose, .onClose⟩] [⟨.always, .transportClose⟩] [⟨.always, .channelClose⟩]) := by
  intro s tape
  obtain ⟨a1, a2, a3⟩ := execList_single (cfg := cfg) (execStmt0 cfg) .transportClose (hookPart cfg s tape).st (hookPart cfg s tape).tape
  rw [tclose_stmt0 ht] at a1 a2 a3
  obtain ⟨b1, b2, b3⟩ := execList_single (cfg := cfg) (execStmt0 cfg) .channelClose (transportClose cfg (hookPart cfg s tape).st) (hookPart cfg s tape).tape
  have hcc : ∀ y tp, execStmt0 cfg .channelClose y tp = ⟨.returns, channelClose cfg y, tp, ["cclose"]⟩ := fun _ _ => rfl
  rw [hcc] at b1 b2 b3
  unfold execNode finallyPair
  simp only
  unfold hookPart at a1 a2 a3 b1 b2 b3 ⊢
  simp only at a1 a2 a3 b1 b2 b3
  rw [a1, a3, b1, b3]
  simp [R.ok, a2, b2]

theorem runClose_fixed (hc : cfg.code = codeFixed cfg.stack ∨ cfg.code = codeFixed2 cfg.stack) (ht : cfg.tcloseRaises = false)
    (s : St) (tape : List Ev) :
    (runClose cfg s tape).st = channelClose cfg (transportClose cfg (hookPart cfg s tape).st) ∧
    (runClose cfg s tape).out = (hookPart cfg s tape).out ∧
    (runClose cfg s tape).tape = (hookPart cfg s tape).tape := by
  rcases hc with hc | hc
  · exact runClose_shape _ (closesLike_flat ht) (by rw [hc]; rfl) s tape
  · exact runClose_shape _ (closesLike_nested ht) (by rw [hc]; rfl) s tape


theorem closeBoth_released (hf : cfg.facts = factsFixed) (s : St) (hk : K cfg s) :
    Released (channelClose cfg (transportClose cfg s)) := by
  obtain ⟨⟨h1, h2, h3, h4, _⟩, h5⟩ := hk
  have hos : (transportClose cfg s).os = false := by
    simp only [transportClose, ownerHeld_fixed hf]
    cases hs : s.sess <;> cases ho : s.os <;> simp_all
  unfold channelClose
  split
  · rename_i hatt
    have hfo : s.fileOpen = false := by
      cases hfo : s.fileOpen
      · rfl
      · have := (h2 hfo).1; simp [transportClose] at hatt; simp_all
    exact ⟨rfl, rfl, hos, rfl, hfo, h5⟩
  · split
    · rename_i hs
      have hfo : s.fileOpen = false := by
        cases hfo : s.fileOpen
        · rfl
        · have := (h2 hfo).2; simp_all
      exact ⟨rfl, rfl, hos, rfl, hfo, h5⟩
    · exact ⟨rfl, rfl, hos, rfl, rfl, h5⟩
    · rename_i hs
      have hfo : s.fileOpen = false := by
        cases hfo : s.fileOpen
        · rfl
        · have := (h2 hfo).2; simp_all
      split
      · exact ⟨rfl, rfl, hos, rfl, hfo, h5⟩
      · exact ⟨rfl, rfl, hos, rfl, hfo, h5⟩

theorem hookPart_pres (hp : Tol cfg P) (s : St) (tape : List Ev) (h : P s) : P (hookPart cfg s tape).st :=
  execList_pres P (execStmt0 cfg) cfg _ (fun x hx s tape h => by
    have : x.s ≠ .transportOpen := by
      simp at hx; subst hx; simp
    exact execStmt0_pres hp x.s this s tape h) s tape h

/-- **close() of the repaired code releases everything, whatever the hook and the device do** -/
theorem close_released (hfix : FixedCfg cfg) (s : St) (tape : List Ev) (hk : K cfg s) : Released (runClose cfg s tape).st := by
  rw [(runClose_fixed hfix.1 hfix.2.2 s tape).1]
  exact closeBoth_released hfix.2.1 _ (hookPart_pres (tol_K hfix.2.1) s tape hk)

theorem close_K (hfix : FixedCfg cfg) (s : St) (tape : List Ev) (hk : K cfg s) : K cfg (runClose cfg s tape).st := by
  rw [(runClose_fixed hfix.1 hfix.2.2 s tape).1]
  have := hookPart_pres (tol_K hfix.2.1) s tape hk
  exact (tol_K hfix.2.1).cclose _ ((tol_K hfix.2.1).tclose _ this)

theorem close_need (hfix : FixedCfg cfg) (s : St) (tape : List Ev) : (runClose cfg s tape).st.needClose = s.needClose := by
  rw [(runClose_fixed hfix.1 hfix.2.2 s tape).1]
  have ht : Tol cfg (fun x => x.needClose = s.needClose) := tol_need s.needClose
  have := hookPart_pres ht s tape rfl
  exact ht.cclose _ (ht.tclose _ this)

/-! ### a closed connection: device-facing steps change nothing -/

theorem interact_closed (reads : Bool) (tag : String) (s : St) (tape : List Ev) (hs : s.sess = false) :
    interact cfg reads tag s tape = ⟨.raises .notOpened, s, tape, [tag]⟩ := by
  unfold interact; simp [hs]

theorem hookPart_closed (s : St) (tape : List Ev) (hs : s.sess = false) :
    (hookPart cfg s tape).st = s ∧ (hookPart cfg s tape).tape = tape ∧ (hookPart cfg s tape).out = closedHookOutcome cfg.onClose := by
  unfold hookPart
  cases hh : cfg.onClose with
  | none =>
    rw [execList_cons_skip _ _ _ _ _ (by simp [guardHolds, hh])]
    exact ⟨rfl, rfl, rfl⟩
  | userOk =>
    have hg : guardHolds cfg (GS.mk .hasOnClose .onClose).g = true := by simp [guardHolds, hh]
    obtain ⟨a1, a2, a3, _⟩ := execList_cons_go (cfg := cfg) (execStmt0 cfg) ⟨.hasOnClose, .onClose⟩ [] s tape hg (by simp [execStmt0, runHook, hh, R.ok])
    rw [a1, a2, a3]; simp [execStmt0, runHook, hh, closedHookOutcome]
  | userRaises =>
    have hg : guardHolds cfg (GS.mk .hasOnClose .onClose).g = true := by simp [guardHolds, hh]
    rw [execList_cons_stop _ _ _ _ _ hg (by simp [execStmt0, runHook, hh, R.ok])]
    simp [execStmt0, runHook, hh, closedHookOutcome]
  | acts l =>
    have hg : guardHolds cfg (GS.mk .hasOnClose .onClose).g = true := by simp [guardHolds, hh]
    cases l with
    | nil =>
      obtain ⟨a1, a2, a3, _⟩ := execList_cons_go (cfg := cfg) (execStmt0 cfg) ⟨.hasOnClose, .onClose⟩ [] s tape hg (by simp [execStmt0, runHook, hh, R.ok, runActs])
      rw [a1, a2, a3]; simp [execStmt0, runHook, hh, closedHookOutcome, runActs]
    | cons a rest =>
      rw [execList_cons_stop _ _ _ _ _ hg (by simp [execStmt0, runHook, hh, R.ok, runActs, interact_closed _ _ _ _ hs])]
      simp [execStmt0, runHook, hh, closedHookOutcome, runActs, interact_closed _ _ _ _ hs, R.ok]

theorem closeBoth_id (hf : cfg.facts = factsFixed) (s : St) (hr : Released s) :
    channelClose cfg (transportClose cfg s) = s := by
  obtain ⟨h1, h2, h3, h4, h5, h6⟩ := hr
  have ht : transportClose cfg s = s := by
    cases s; simp_all [transportClose]
  rw [ht]
  unfold channelClose
  split
  · rfl
  · split
    · rfl
    · cases s; simp_all
    · simp [hf, factsFixed]



/-! ### more unfolding: single always-guarded statements -/

theorem execProg_cons_always (f : Stmt → St → List Ev → R) (st : Stmt) (rest : Prog) (s : St) (tape : List Ev) :
    (execProg f cfg (.simple ⟨.always, st⟩ :: rest) s tape).st
      = (if (f st s tape).ok then (execProg f cfg rest (f st s tape).st (f st s tape).tape).st else (f st s tape).st) ∧
    (execProg f cfg (.simple ⟨.always, st⟩ :: rest) s tape).out
      = (if (f st s tape).ok then (execProg f cfg rest (f st s tape).st (f st s tape).tape).out else (f st s tape).out) ∧
    (execProg f cfg (.simple ⟨.always, st⟩ :: rest) s tape).tape
      = (if (f st s tape).ok then (execProg f cfg rest (f st s tape).st (f st s tape).tape).tape else (f st s tape).tape) := by
  obtain ⟨e1, e2, e3⟩ := execList_single (cfg := cfg) f st s tape
  have hn : execNode f cfg (.simple ⟨.always, st⟩) s tape = execList f cfg [⟨.always, st⟩] s tape := by
    unfold execNode; rfl
  by_cases hok : (f st s tape).ok = true
  · have hnok : (execNode f cfg (.simple ⟨.always, st⟩) s tape).ok = true := by
      rw [ok_iff, hn, e2]; exact (ok_iff _).1 hok
    obtain ⟨a1, a2, a3, _⟩ := execProg_cons_go (cfg := cfg) f _ rest s tape hnok
    rw [a1, a2, a3, hn, e1, e3]; simp [hok]
  · have hok' : (f st s tape).ok = false := by simpa using hok
    have hnok : (execNode f cfg (.simple ⟨.always, st⟩) s tape).ok = false := by
      rw [ok_false_iff, hn, e2]; exact (ok_false_iff _).1 hok'
    rw [execProg_cons_stop (cfg := cfg) f _ rest s tape hnok, hn, e1, e2, e3]; simp [hok']

theorem execProg_single (f : Stmt → St → List Ev → R) (n : Node) (s : St) (tape : List Ev) :
    (execProg f cfg [n] s tape).st = (execNode f cfg n s tape).st ∧
    (execProg f cfg [n] s tape).out = (execNode f cfg n s tape).out ∧
    (execProg f cfg [n] s tape).tape = (execNode f cfg n s tape).tape := by
  by_cases hok : (execNode f cfg n s tape).ok = true
  · obtain ⟨a1, a2, a3, _⟩ := execProg_cons_go (cfg := cfg) f n [] s tape hok
    rw [a1, a2, a3]
    exact ⟨rfl, ((ok_iff _).1 hok).symm, rfl⟩
  · have hok' : (execNode f cfg n s tape).ok = false := by simpa using hok
    rw [execProg_cons_stop (cfg := cfg) f n [] s tape hok']
    exact ⟨rfl, rfl, rfl⟩

/-! ### open() -/

theorem runOpen_J (hf : cfg.facts = factsFixed) (s : St) (tape : List Ev) (h : J cfg s) : J cfg (runOpen cfg s tape).st :=
  execProg_pres (J cfg) (execStmt0 cfg) cfg _ (fun x _ s tape h => by
    by_cases hx : x.s = .transportOpen
    · rw [hx]; exact transportOpen_J s tape h
    · exact execStmt0_pres (tol_J hf) x.s hx s tape h) s tape h

theorem runOpen_need (s : St) (tape : List Ev) : (runOpen cfg s tape).st.needClose = s.needClose :=
  execProg_pres (fun x => x.needClose = s.needClose) (execStmt0 cfg) cfg _ (fun x _ s' tape h => by
    by_cases hx : x.s = .transportOpen
    · rw [hx]; show (transportOpen cfg s' tape).st.needClose = _; rw [transportOpen_need]; exact h
    · exact execStmt0_pres (tol_need s.needClose) x.s hx s' tape h) s tape rfl

/-- open() of either driver: log, transport.open(), then statements that never open a transport -/
theorem openOf_shape (st : Stack) : ∃ tail, openOf st = .simple ⟨.always, .logPre false⟩ :: .simple ⟨.always, .transportOpen⟩ :: tail ∧
    ∀ x ∈ progStmts tail, x.s ≠ .transportOpen := by
  cases st
  · exact ⟨_, rfl, by decide⟩
  · exact ⟨_, rfl, by decide⟩

theorem runOpen_orphan (hc : cfg.code.openP = openOf cfg.stack) (s : St) (tape : List Ev) (hos : s.os = false) :
    (runOpen cfg s tape).st.orphan = s.orphan := by
  obtain ⟨tail, hsh, hno⟩ := openOf_shape cfg.stack
  unfold runOpen
  rw [hc, hsh]
  obtain ⟨a1, _, _⟩ := execProg_cons_always (cfg := cfg) (execStmt0 cfg) (.logPre false) (.simple ⟨.always, .transportOpen⟩ :: tail) s tape
  rw [a1]
  have hq := quiet0_logPre (cfg := cfg) false s tape
  have hok : (execStmt0 cfg (.logPre false) s tape).ok = true := (ok_iff _).2 hq.2.2
  simp only [hok, if_true, hq.1, hq.2.1]
  obtain ⟨b1, _, _⟩ := execProg_cons_always (cfg := cfg) (execStmt0 cfg) .transportOpen tail s tape
  rw [b1]
  have ho : (execStmt0 cfg .transportOpen s tape).st.orphan = s.orphan := transportOpen_orphan s tape hos
  split
  · have ht : Tol cfg (fun x => x.orphan = s.orphan) := tol_orphan s.orphan
    exact execProg_pres _ (execStmt0 cfg) cfg tail (fun x hx s' tape' h => execStmt0_pres ht x.s (hno x hx) s' tape' h) _ _ ho
  · exact ho



/-! ### __enter__ / __exit__ -/

theorem runEnter_unfold_flat (hc : cfg.code.enterP = enterP) (ht : cfg.tcloseRaises = false) (s : St) (tape : List Ev) :
    (runEnter cfg s tape).st = (if (runOpen cfg s tape).ok then (runOpen cfg s tape).st
                                else channelClose cfg (transportClose cfg (runOpen cfg s tape).st)) ∧
    (runEnter cfg s tape).out = (if (runOpen cfg s tape).ok then .returns else .raises .connError) ∧
    (runEnter cfg s tape).tape = (runOpen cfg s tape).tape := by
  unfold runEnter
  rw [hc]
  unfold enterP
  obtain ⟨p1, p2, p3⟩ := execProg_single (cfg := cfg) (execStmt1 cfg)
    (.tryExceptRaise [⟨.always, .callOpen⟩] [⟨.always, .logCritical⟩, ⟨.always, .transportClose⟩, ⟨.always, .channelClose⟩]) s tape
  rw [p1, p2, p3]
  obtain ⟨b1, b2, b3⟩ := execList_single (cfg := cfg) (execStmt1 cfg) .callOpen s tape
  have hcall : execStmt1 cfg .callOpen s tape = runOpen cfg s tape := rfl
  rw [hcall] at b1 b2 b3
  unfold execNode
  simp only
  by_cases hok : (runOpen cfg s tape).ok = true
  · have hbok : (execList (execStmt1 cfg) cfg [⟨.always, .callOpen⟩] s tape).ok = true := by
      rw [ok_iff, b2]; exact (ok_iff _).1 hok
    simp only [hbok, hok, if_true]
    exact ⟨b1, by rw [b2]; exact (ok_iff _).1 hok, b3⟩
  · have hok' : (runOpen cfg s tape).ok = false := by simpa using hok
    have hbok : (execList (execStmt1 cfg) cfg [⟨.always, .callOpen⟩] s tape).ok = false := by
      rw [ok_false_iff, b2]; exact (ok_false_iff _).1 hok'
    -- the handler: logger.critical, transport.close(), channel.close()
    have hq := quiet1_logCritical (cfg := cfg) (execList (execStmt1 cfg) cfg [⟨.always, .callOpen⟩] s tape).st
      (execList (execStmt1 cfg) cfg [⟨.always, .callOpen⟩] s tape).tape
    obtain ⟨c1, c2, c3, _⟩ := execList_cons_go (cfg := cfg) (execStmt1 cfg) ⟨.always, .logCritical⟩
      [⟨.always, .transportClose⟩, ⟨.always, .channelClose⟩] _ _ rfl ((ok_iff _).2 hq.2.2)
    obtain ⟨d1, d2, d3⟩ := closeBoth_list (cfg := cfg) (execStmt1 cfg) (tclose_stmt1 ht) (fun _ _ => rfl)
      (execStmt1 cfg .logCritical (execList (execStmt1 cfg) cfg [⟨.always, .callOpen⟩] s tape).st
        (execList (execStmt1 cfg) cfg [⟨.always, .callOpen⟩] s tape).tape).st
      (execStmt1 cfg .logCritical (execList (execStmt1 cfg) cfg [⟨.always, .callOpen⟩] s tape).st
        (execList (execStmt1 cfg) cfg [⟨.always, .callOpen⟩] s tape).tape).tape
    have hhok : (execList (execStmt1 cfg) cfg [⟨.always, .logCritical⟩, ⟨.always, .transportClose⟩, ⟨.always, .channelClose⟩]
        (execList (execStmt1 cfg) cfg [⟨.always, .callOpen⟩] s tape).st
        (execList (execStmt1 cfg) cfg [⟨.always, .callOpen⟩] s tape).tape).ok = true := by
      rw [ok_iff, c2]; exact (ok_iff _).1 d3
    simp only [hbok, hok', hhok, if_true, Bool.false_eq_true, if_false]
    refine ⟨?_, trivial, ?_⟩
    · rw [c1, d1, hq.1, b1]
    · rw [c3, d2, hq.2.1, b3]

theorem runEnter_unfold_nested (hc : cfg.code.enterP = enterP2) (ht : cfg.tcloseRaises = false) (s : St) (tape : List Ev) :
    (runEnter cfg s tape).st = (if (runOpen cfg s tape).ok then (runOpen cfg s tape).st
                                else channelClose cfg (transportClose cfg (runOpen cfg s tape).st)) ∧
    (runEnter cfg s tape).out = (if (runOpen cfg s tape).ok then .returns else .raises .connError) ∧
    (runEnter cfg s tape).tape = (runOpen cfg s tape).tape := by
  unfold runEnter
  rw [hc]
  unfold enterP2
  obtain ⟨p1, p2, p3⟩ := execProg_single (cfg := cfg) (execStmt1 cfg)
    (.tryExceptRaiseN [⟨.always, .callOpen⟩] [⟨.always, .logCritical⟩] [⟨.always, .transportClose⟩] [⟨.always, .channelClose⟩]) s tape
  rw [p1, p2, p3]
  obtain ⟨b1, b2, b3⟩ := execList_single (cfg := cfg) (execStmt1 cfg) .callOpen s tape
  have hcall : execStmt1 cfg .callOpen s tape = runOpen cfg s tape := rfl
  rw [hcall] at b1 b2 b3
  unfold execNode
  simp only
  by_cases hok : (runOpen cfg s tape).ok = true
  · have hbok : (execList (execStmt1 cfg) cfg [⟨.always, .callOpen⟩] s tape).ok = true := by
      rw [ok_iff, b2]; exact (ok_iff _).1 hok
    simp only [hbok, hok, if_true]
    exact ⟨b1, by rw [b2]; exact (ok_iff _).1 hok, b3⟩
  · have hok' : (runOpen cfg s tape).ok = false := by simpa using hok
    have hbok : (execList (execStmt1 cfg) cfg [⟨.always, .callOpen⟩] s tape).ok = false := by
      rw [ok_false_iff, b2]; exact (ok_false_iff _).1 hok'
    have hlc : ∀ y tp, execStmt1 cfg .logCritical y tp = ⟨.returns, y, tp, ["crit"]⟩ := fun _ _ => rfl
    have hcc : ∀ y tp, execStmt1 cfg .channelClose y tp = ⟨.returns, channelClose cfg y, tp, ["cclose"]⟩ := fun _ _ => rfl
    obtain ⟨c1, c2, c3⟩ := execList_single (cfg := cfg) (execStmt1 cfg) .logCritical (runOpen cfg s tape).st (runOpen cfg s tape).tape
    rw [hlc] at c1 c2 c3
    simp only at c1 c2 c3
    have hc0ok : (execList (execStmt1 cfg) cfg [⟨.always, .logCritical⟩] (runOpen cfg s tape).st (runOpen cfg s tape).tape).ok = true :=
      (ok_iff _).2 c2
    obtain ⟨d1, d2, d3⟩ := execList_single (cfg := cfg) (execStmt1 cfg) .transportClose (runOpen cfg s tape).st (runOpen cfg s tape).tape
    rw [tclose_stmt1 ht] at d1 d2 d3
    simp only at d1 d2 d3
    obtain ⟨e1, e2, e3⟩ := execList_single (cfg := cfg) (execStmt1 cfg) .channelClose
      (transportClose cfg (runOpen cfg s tape).st) (runOpen cfg s tape).tape
    rw [hcc] at e1 e2 e3
    simp only at e1 e2 e3
    simp only [hbok, hok', Bool.false_eq_true, if_false, b1, b3]
    simp only [hc0ok, Bool.not_true, Bool.false_eq_true, if_false, finallyPair, c1, c3, d1, d3, e1, e3]
    simp [R.ok, d2, e2]

theorem runEnter_unfold (hc : cfg.code.enterP = enterP ∨ cfg.code.enterP = enterP2) (ht : cfg.tcloseRaises = false) (s : St) (tape : List Ev) :
    (runEnter cfg s tape).st = (if (runOpen cfg s tape).ok then (runOpen cfg s tape).st
                                else channelClose cfg (transportClose cfg (runOpen cfg s tape).st)) ∧
    (runEnter cfg s tape).out = (if (runOpen cfg s tape).ok then .returns else .raises .connError) ∧
    (runEnter cfg s tape).tape = (runOpen cfg s tape).tape := by
  rcases hc with hc | hc
  · exact runEnter_unfold_flat hc ht s tape
  · exact runEnter_unfold_nested hc ht s tape

/-- without early-return branches `__exit__` runs its main program whatever the with-body ended with -/
theorem exitProg_plain {c : Code} (hx : c.exitOn = []) (pending : Outcome) : exitProg c pending = c.exitP := by
  unfold exitProg; cases pending <;> simp [hx]

theorem runExit_unfold (hc : cfg.code.exitP = exitP) (hx : cfg.code.exitOn = []) (pending : Outcome) (s : St) (tape : List Ev) :
    (runExit cfg pending s tape).st = (runClose cfg s tape).st ∧ (runExit cfg pending s tape).out = (runClose cfg s tape).out ∧
    (runExit cfg pending s tape).tape = (runClose cfg s tape).tape := by
  unfold runExit
  rw [exitProg_plain hx, hc]
  unfold exitP
  obtain ⟨p1, p2, p3⟩ := execProg_single (cfg := cfg) (execStmt1 cfg) (.simple ⟨.always, .callClose⟩) s tape
  rw [p1, p2, p3]
  have hn : execNode (execStmt1 cfg) cfg (.simple ⟨.always, .callClose⟩) s tape = execList (execStmt1 cfg) cfg [⟨.always, .callClose⟩] s tape := by
    unfold execNode; rfl
  rw [hn]
  exact execList_single (cfg := cfg) (execStmt1 cfg) .callClose s tape



/-! ### the invariant through every operation -/

theorem K_need {s : St} (b : Bool) (h : K cfg s) : K cfg { s with needClose := b } :=
  ⟨J_of_same h.1 rfl rfl rfl rfl rfl rfl, h.2⟩

theorem Released_need {s : St} (b : Bool) (h : Released s) : Released { s with needClose := b } := h

theorem code_fixed_parts (hc : cfg.code = codeFixed cfg.stack ∨ cfg.code = codeFixed2 cfg.stack) :
    cfg.code.openP = openOf cfg.stack ∧ (cfg.code.enterP = enterP ∨ cfg.code.enterP = enterP2) ∧ cfg.code.exitP = exitP := by
  rcases hc with hc | hc <;> rw [hc]
  · exact ⟨rfl, Or.inl rfl, rfl⟩
  · exact ⟨rfl, Or.inr rfl, rfl⟩

theorem code_fixed_exitOn (hc : cfg.code = codeFixed cfg.stack ∨ cfg.code = codeFixed2 cfg.stack) : cfg.code.exitOn = [] := by
  rcases hc with hc | hc <;> rw [hc] <;> rfl

theorem inv_fresh : Inv cfg {} :=
  ⟨⟨⟨by simp, by simp, by simp, rfl, fun _ => rfl⟩, rfl⟩, fun _ => ⟨rfl, rfl, rfl, rfl, rfl, rfl⟩⟩

theorem inv_operate (hfix : FixedCfg cfg) (s : St) (tape : List Ev) (h : Inv cfg s) :
    Inv cfg (opOperate cfg s tape).st ∧ (opOperate cfg s tape).st.needClose = s.needClose := by
  unfold opOperate
  have hn : (interact cfg true "operate" s tape).st.needClose = s.needClose :=
    interact_pres (P := fun x => x.needClose = s.needClose) (tol_need s.needClose) _ _ _ _ rfl
  refine ⟨⟨interact_pres (tol_K hfix.2.1) _ _ _ _ h.1, ?_⟩, hn⟩
  intro hnc
  rw [hn] at hnc
  have hr := h.2 hnc
  rw [interact_closed _ _ _ _ hr.1]
  exact hr

theorem inv_close (hfix : FixedCfg cfg) (s : St) (tape : List Ev) (h : Inv cfg s) :
    Inv cfg (opClose cfg s tape).st ∧ Released (opClose cfg s tape).st ∧ (opClose cfg s tape).st.needClose = false := by
  unfold opClose
  have hr := close_released hfix s tape h.1
  have hk := close_K hfix s tape h.1
  exact ⟨⟨K_need false hk, fun _ => Released_need false hr⟩, Released_need false hr, rfl⟩

theorem inv_open (hfix : FixedCfg cfg) (s : St) (tape : List Ev) (h : Inv cfg s) (hn : s.needClose = false) :
    Inv cfg (opOpen cfg s tape).st ∧ (opOpen cfg s tape).st.needClose = true := by
  unfold opOpen
  have hr := h.2 hn
  have hk0 : K cfg { s with needClose := true } := K_need true h.1
  have hneed : (runOpen cfg { s with needClose := true } tape).st.needClose = true := runOpen_need _ _
  have horph : (runOpen cfg { s with needClose := true } tape).st.orphan = false := by
    have := runOpen_orphan (code_fixed_parts hfix.1).1 { s with needClose := true } tape hr.2.2.1
    rw [this]; exact hk0.2
  refine ⟨⟨⟨runOpen_J hfix.2.1 _ _ hk0.1, horph⟩, ?_⟩, hneed⟩
  intro hnc; rw [hneed] at hnc; exact absurd hnc (by simp)

theorem inv_body (hfix : FixedCfg cfg) : ∀ (body : List BodyOp) (s : St) (tape : List Ev) (need : Bool),
    Inv cfg s → s.needClose = need → bodyOK body need = true → Inv cfg (runBody cfg body s tape).st := by
  intro body
  induction body with
  | nil => intro s tape need h _ _; simpa [runBody] using h
  | cons b rest ih =>
    intro s tape need h hn hb
    -- one body operation: invariant + static ghost
    have hstep : Inv cfg (runBodyOp cfg b s tape).st ∧
        ((runBodyOp cfg b s tape).ok = true → ∃ need', (runBodyOp cfg b s tape).st.needClose = need' ∧ bodyOK rest need' = true) := by
      cases b with
      | operate =>
        obtain ⟨h1, h2⟩ := inv_operate hfix s tape h
        exact ⟨h1, fun _ => ⟨need, by rw [← hn]; exact h2, by simpa [bodyOK] using hb⟩⟩
      | close =>
        obtain ⟨h1, _, h3⟩ := inv_close hfix s tape h
        exact ⟨h1, fun _ => ⟨false, h3, by simpa [bodyOK] using hb⟩⟩
      | «open» =>
        have hb' : need = false ∧ bodyOK rest true = true := by simpa [bodyOK] using hb
        obtain ⟨h1, h2⟩ := inv_open hfix s tape h (hn.trans hb'.1)
        exact ⟨h1, fun _ => ⟨true, h2, hb'.2⟩⟩
      | raise =>
        exact ⟨h, fun hok => by simp [runBodyOp, R.ok] at hok⟩
      | raiseExc e =>
        exact ⟨h, fun hok => by simp [runBodyOp, R.ok] at hok⟩
    unfold runBody
    by_cases hok : (runBodyOp cfg b s tape).ok = true
    · simp only [hok, if_true]
      obtain ⟨need', hn', hb'⟩ := hstep.2 hok
      exact ih _ _ need' hstep.1 hn' hb'
    · simp only [hok]; exact hstep.1

theorem inv_with (hfix : FixedCfg cfg) (s : St) (tape : List Ev) (body : List BodyOp) (h : Inv cfg s)
    (hn : s.needClose = false) (hb : bodyOK body true = true) :
    Inv cfg (opWith cfg body s tape).st ∧ Released (opWith cfg body s tape).st ∧ (opWith cfg body s tape).st.needClose = false := by
  obtain ⟨hco, hce, hcx⟩ := code_fixed_parts hfix.1
  obtain ⟨ho1, ho2⟩ := inv_open hfix s tape h hn
  unfold opOpen at ho1 ho2
  obtain ⟨e1, e2, _⟩ := runEnter_unfold hce hfix.2.2 { s with needClose := true } tape
  unfold opWith
  simp only
  by_cases hok : (runOpen cfg { s with needClose := true } tape).ok = true
  · -- __enter__ returned: body, then __exit__ = close()
    have hek : (runEnter cfg { s with needClose := true } tape).ok = true := by
      rw [ok_iff, e2]; simp [hok]
    have hst : (runEnter cfg { s with needClose := true } tape).st = (runOpen cfg { s with needClose := true } tape).st := by
      rw [e1]; simp [hok]
    simp only [hek, Bool.not_true, Bool.false_eq_true, if_false]
    have hbody := inv_body hfix body _ (runEnter cfg { s with needClose := true } tape).tape true (hst ▸ ho1) (hst ▸ ho2) hb
    obtain ⟨x1, _, _⟩ := runExit_unfold hcx (code_fixed_exitOn hfix.1) (runBody cfg body (runEnter cfg { s with needClose := true } tape).st
      (runEnter cfg { s with needClose := true } tape).tape).out (runBody cfg body (runEnter cfg { s with needClose := true } tape).st
      (runEnter cfg { s with needClose := true } tape).tape).st
      (runBody cfg body (runEnter cfg { s with needClose := true } tape).st (runEnter cfg { s with needClose := true } tape).tape).tape
    have hr := close_released hfix _ (runBody cfg body (runEnter cfg { s with needClose := true } tape).st
      (runEnter cfg { s with needClose := true } tape).tape).tape hbody.1
    have hk := close_K hfix _ (runBody cfg body (runEnter cfg { s with needClose := true } tape).st
      (runEnter cfg { s with needClose := true } tape).tape).tape hbody.1
    rw [← x1] at hr hk
    exact ⟨⟨K_need false hk, fun _ => Released_need false hr⟩, Released_need false hr, trivial⟩
  · -- open() raised inside __enter__: the handler closes transport and channel
    have hok' : (runOpen cfg { s with needClose := true } tape).ok = false := by simpa using hok
    have hek : (runEnter cfg { s with needClose := true } tape).ok = false := by
      rw [ok_false_iff, e2]; simp [hok']
    have hst : (runEnter cfg { s with needClose := true } tape).st
        = channelClose cfg (transportClose cfg (runOpen cfg { s with needClose := true } tape).st) := by
      rw [e1]; simp [hok']
    simp only [hek, Bool.not_false, if_true]
    have hr := closeBoth_released hfix.2.1 _ ho1.1
    have hk := (tol_K hfix.2.1).cclose _ ((tol_K hfix.2.1).tclose _ ho1.1)
    rw [← hst] at hr hk
    exact ⟨⟨K_need false hk, fun _ => Released_need false hr⟩, Released_need false hr, trivial⟩

theorem inv_runOp (hfix : FixedCfg cfg) (op : Op) (s : St) (tape : List Ev) (h : Inv cfg s) (ha : allowed op s = true) :
    Inv cfg (runOp cfg op s tape).st := by
  cases op with
  | «open» => exact (inv_open hfix s tape h (by simpa [allowed] using ha)).1
  | close => exact (inv_close hfix s tape h).1
  | operate => exact (inv_operate hfix s tape h).1
  | withBlock body =>
    have ha' : s.needClose = false ∧ bodyOK body true = true := by simpa [allowed] using ha
    exact (inv_with hfix s tape body h ha'.1 ha'.2).1

theorem reach_inv (hfix : FixedCfg cfg) {s : St} (hr : Reach cfg s) : Inv cfg s := by
  induction hr with
  | fresh => exact inv_fresh
  | step op tape _ ha ih => exact inv_runOp hfix op _ tape ih ha



/-! ### re-open: open() from a closed state against open() from a new connection -/

theorem transportOpen_congr (x : St) (la la' : Bool) (tn tn' : Tn)
    (htn : resetTn (resetsOf cfg) tn = resetTn (resetsOf cfg) tn') (tape : List Ev) :
    (transportOpen cfg { x with logAttached := la, tn := tn } tape).out = (transportOpen cfg { x with logAttached := la', tn := tn' } tape).out ∧
    (transportOpen cfg { x with logAttached := la, tn := tn } tape).tape = (transportOpen cfg { x with logAttached := la', tn := tn' } tape).tape ∧
    (transportOpen cfg { x with logAttached := la, tn := tn } tape).st
      = { (transportOpen cfg { x with logAttached := la', tn := tn' } tape).st with logAttached := la } := by
  unfold transportOpen
  simp only [htn]
  rcases tape with _ | ⟨e, rest⟩
  · simp
  · cases hk : e.k <;> simp [hk]
    by_cases hp : cfg.kind = TKind.paramiko <;> simp [hp]


theorem channelOpen_congr (y : St) (la la' : Bool) (hla : la = true → cfg.sink ≠ .none) (hla' : la' = true → cfg.sink ≠ .none) :
    channelOpen cfg { y with logAttached := la } = channelOpen cfg { y with logAttached := la' } := by
  unfold channelOpen
  cases hs : cfg.sink
  · cases la <;> cases la' <;> simp_all
  · simp
  · simp

theorem openOf_shape3 (st : Stack) : ∃ tail, openOf st = .simple ⟨.always, .logPre false⟩ :: .simple ⟨.always, .transportOpen⟩ ::
    .simple ⟨.always, .channelOpen⟩ :: tail := by
  cases st
  · exact ⟨_, rfl⟩
  · exact ⟨_, rfl⟩

theorem runOpen_congr (hc : cfg.code.openP = openOf cfg.stack) (x : St) (la la' : Bool) (tn tn' : Tn)
    (hla : la = true → cfg.sink ≠ .none) (hla' : la' = true → cfg.sink ≠ .none)
    (htn : resetTn (resetsOf cfg) tn = resetTn (resetsOf cfg) tn') (tape : List Ev) :
    coreEq (runOpen cfg { x with logAttached := la, tn := tn } tape) (runOpen cfg { x with logAttached := la', tn := tn' } tape) ∧
    ((transportOpen cfg { x with logAttached := la', tn := tn' } tape).ok = true →
      (runOpen cfg { x with logAttached := la, tn := tn } tape).st = (runOpen cfg { x with logAttached := la', tn := tn' } tape).st) := by
  obtain ⟨tail, hsh⟩ := openOf_shape3 cfg.stack
  obtain ⟨t1, t2, t3⟩ := transportOpen_congr (cfg := cfg) x la la' tn tn' htn tape
  -- both runs, unfolded over the first three statements
  have key : ∀ (a : St),
      (runOpen cfg a tape).st = (if (transportOpen cfg a tape).ok then
          (execProg (execStmt0 cfg) cfg tail (channelOpen cfg (transportOpen cfg a tape).st) (transportOpen cfg a tape).tape).st
        else (transportOpen cfg a tape).st) ∧
      (runOpen cfg a tape).out = (if (transportOpen cfg a tape).ok then
          (execProg (execStmt0 cfg) cfg tail (channelOpen cfg (transportOpen cfg a tape).st) (transportOpen cfg a tape).tape).out
        else (transportOpen cfg a tape).out) ∧
      (runOpen cfg a tape).tape = (if (transportOpen cfg a tape).ok then
          (execProg (execStmt0 cfg) cfg tail (channelOpen cfg (transportOpen cfg a tape).st) (transportOpen cfg a tape).tape).tape
        else (transportOpen cfg a tape).tape) := by
    intro a
    unfold runOpen
    rw [hc, hsh]
    obtain ⟨a1, a2, a3⟩ := execProg_cons_always (cfg := cfg) (execStmt0 cfg) (.logPre false)
      (.simple ⟨.always, .transportOpen⟩ :: .simple ⟨.always, .channelOpen⟩ :: tail) a tape
    obtain ⟨b1, b2, b3⟩ := execProg_cons_always (cfg := cfg) (execStmt0 cfg) .transportOpen (.simple ⟨.always, .channelOpen⟩ :: tail) a tape
    obtain ⟨c1, c2, c3⟩ := execProg_cons_always (cfg := cfg) (execStmt0 cfg) .channelOpen tail
      (transportOpen cfg a tape).st (transportOpen cfg a tape).tape
    have hq := quiet0_logPre (cfg := cfg) false a tape
    have hok : (execStmt0 cfg (.logPre false) a tape).ok = true := (ok_iff _).2 hq.2.2
    have hto : execStmt0 cfg .transportOpen a tape = transportOpen cfg a tape := rfl
    have hco : ∀ y tp, execStmt0 cfg .channelOpen y tp = ⟨.returns, channelOpen cfg y, tp, ["copen"]⟩ := fun _ _ => rfl
    rw [a1, a2, a3]
    simp only [hok, if_true, hq.1, hq.2.1]
    rw [b1, b2, b3, hto, c1, c2, c3]
    simp [hco, R.ok]
  obtain ⟨ka1, ka2, ka3⟩ := key { x with logAttached := la, tn := tn }
  obtain ⟨kb1, kb2, kb3⟩ := key { x with logAttached := la', tn := tn' }
  have hokeq : (transportOpen cfg { x with logAttached := la, tn := tn } tape).ok = (transportOpen cfg { x with logAttached := la', tn := tn' } tape).ok := by
    unfold R.ok; rw [t1]
  have hla'' : (transportOpen cfg { x with logAttached := la', tn := tn' } tape).st.logAttached = la' := by
    unfold transportOpen
    simp only
    split
    · rfl
    · split <;> rfl
    · rfl
  have hch : channelOpen cfg (transportOpen cfg { x with logAttached := la, tn := tn } tape).st
      = channelOpen cfg (transportOpen cfg { x with logAttached := la', tn := tn' } tape).st := by
    rw [t3, channelOpen_congr _ la la' hla hla']
    congr 1
    cases hst : (transportOpen cfg { x with logAttached := la', tn := tn' } tape).st
    rw [hst] at hla''
    simp_all
  unfold coreEq
  rw [ka1, ka2, ka3, kb1, kb2, kb3, hokeq, hch, t2]
  by_cases hok : (transportOpen cfg { x with logAttached := la', tn := tn' } tape).ok = true
  · simp [hok]
  · simp [hok, t1, t3]



/-! ### histories -/

/-- the state a history ends in -/
def stateAfter (cfg : Cfg) : List (Op × List Ev) → St → St
  | [], s => s
  | (op, tape) :: rest, s => stateAfter cfg rest (runOp cfg op s tape).st

theorem released_history (hfix : FixedCfg cfg) : ∀ (h : List (Op × List Ev)) (s : St), Inv cfg s → okHistory cfg h s = true →
    ∀ p ∈ h.zip (runHistory cfg h s), p.1.1.closes = true → Released p.2.st := by
  intro h
  induction h with
  | nil => intro s _ _ p hp; simp [runHistory] at hp
  | cons x rest ih =>
    obtain ⟨op, tape⟩ := x
    intro s hinv hok p hp hcl
    have hok' : allowed op s = true ∧ okHistory cfg rest (runOp cfg op s tape).st = true := by
      simpa [okHistory] using hok
    simp only [runHistory, List.zip_cons_cons, List.mem_cons] at hp
    rcases hp with hp | hp
    · subst hp
      cases op with
      | «open» => simp [Op.closes] at hcl
      | operate => simp [Op.closes] at hcl
      | close => exact (inv_close hfix s tape hinv).2.1
      | withBlock body =>
        have ha : s.needClose = false ∧ bodyOK body true = true := by simpa [allowed] using hok'.1
        exact (inv_with hfix s tape body hinv ha.1 ha.2).2.1
    · exact ih _ (inv_runOp hfix op s tape hinv hok'.1) hok'.2 p hp hcl

theorem reach_of_history : ∀ (h : List (Op × List Ev)) (s : St), Reach cfg s → okHistory cfg h s = true → Reach cfg (stateAfter cfg h s) := by
  intro h
  induction h with
  | nil => intro s hs _; exact hs
  | cons x rest ih =>
    obtain ⟨op, tape⟩ := x
    intro s hs hok
    have hok' : allowed op s = true ∧ okHistory cfg rest (runOp cfg op s tape).st = true := by
      simpa [okHistory] using hok
    exact ih _ (Reach.step op tape hs hok'.1) hok'.2

/-! ### with-block whose open() fails -/

theorem with_failed_open (hfix : FixedCfg cfg) (s : St) (tape : List Ev) (body : List BodyOp) (h : Inv cfg s) (hn : s.needClose = false)
    (hfail : (runOpen cfg { s with needClose := true } tape).out ≠ .returns) :
    (opWith cfg body s tape).out = .raises .connError ∧ Released (opWith cfg body s tape).st ∧
    (opWith cfg body s tape).tape = (runOpen cfg { s with needClose := true } tape).tape := by
  obtain ⟨_, hce, _⟩ := code_fixed_parts hfix.1
  obtain ⟨ho1, _⟩ := inv_open hfix s tape h hn
  unfold opOpen at ho1
  obtain ⟨e1, e2, e3⟩ := runEnter_unfold hce hfix.2.2 { s with needClose := true } tape
  have hok' : (runOpen cfg { s with needClose := true } tape).ok = false := (ok_false_iff _).2 hfail
  have hek : (runEnter cfg { s with needClose := true } tape).ok = false := by
    rw [ok_false_iff, e2]; simp [hok']
  have hst : (runEnter cfg { s with needClose := true } tape).st
      = channelClose cfg (transportClose cfg (runOpen cfg { s with needClose := true } tape).st) := by
    rw [e1]; simp [hok']
  have hr := closeBoth_released hfix.2.1 _ ho1.1
  rw [← hst] at hr
  unfold opWith
  simp only [hek, Bool.not_false, if_true]
  refine ⟨?_, Released_need false hr, e3⟩
  rw [e2]; simp [hok']

/-! ### second close -/

theorem second_close (hfix : FixedCfg cfg) (c : St) (tape : List Ev) (hr : Released c) (hn : c.needClose = false) :
    (opClose cfg c tape).st = c ∧ (opClose cfg c tape).tape = tape ∧ (opClose cfg c tape).out = closedHookOutcome cfg.onClose := by
  obtain ⟨r1, r2, r3⟩ := runClose_fixed hfix.1 hfix.2.2 c tape
  obtain ⟨h1, h2, h3⟩ := hookPart_closed (cfg := cfg) c tape hr.1
  unfold opClose
  simp only
  refine ⟨?_, by rw [r3, h2], by rw [r2, h3]⟩
  rw [r1, h1, closeBoth_id hfix.2.1 c hr]
  cases c; simp_all

/-! ### close() of the pre-fix code, when the hook does not raise -/

theorem runClose_orig_ok (hc : cfg.code.closeP = closeOrig cfg.stack) (ht : cfg.tcloseRaises = false) (s : St) (tape : List Ev)
    (hhook : (hookPart cfg s tape).out = .returns) :
    (runClose cfg s tape).st = channelClose cfg (transportClose cfg (hookPart cfg s tape).st) := by
  have hhead : ∃ st, Quiet (execStmt0 cfg) st ∧ closeHead cfg.stack = .simple ⟨.always, st⟩ := by
    cases cfg.stack
    · exact ⟨_, quiet0_logPre true, rfl⟩
    · exact ⟨_, quiet0_logPost true, rfl⟩
  obtain ⟨st0, hq0, hh0⟩ := hhead
  unfold runClose
  rw [hc]
  simp only [closeOrig, hh0]
  obtain ⟨a1, _, _⟩ := execProg_cons_always (cfg := cfg) (execStmt0 cfg) st0
    [.simple ⟨.hasOnClose, .onClose⟩, .simple ⟨.always, .transportClose⟩, .simple ⟨.always, .channelClose⟩, .simple ⟨.always, .logPost true⟩] s tape
  have hq := hq0 s tape
  rw [a1]
  simp only [(ok_iff _).2 hq.2.2, if_true, hq.1, hq.2.1]
  have hn : execNode (execStmt0 cfg) cfg (.simple ⟨.hasOnClose, .onClose⟩) s tape = hookPart cfg s tape := by
    unfold execNode hookPart; rfl
  have hnok : (execNode (execStmt0 cfg) cfg (.simple ⟨.hasOnClose, .onClose⟩) s tape).ok = true := by
    rw [hn]; exact (ok_iff _).2 hhook
  obtain ⟨b1, _, _, _⟩ := execProg_cons_go (cfg := cfg) (execStmt0 cfg) (.simple ⟨.hasOnClose, .onClose⟩)
    [.simple ⟨.always, .transportClose⟩, .simple ⟨.always, .channelClose⟩, .simple ⟨.always, .logPost true⟩] s tape hnok
  rw [b1, hn]
  obtain ⟨c1, _, _⟩ := execProg_cons_always (cfg := cfg) (execStmt0 cfg) .transportClose
    [.simple ⟨.always, .channelClose⟩, .simple ⟨.always, .logPost true⟩] (hookPart cfg s tape).st (hookPart cfg s tape).tape
  rw [c1]
  have htc : ∀ y tp, execStmt0 cfg .transportClose y tp = ⟨.returns, transportClose cfg y, tp, ["tclose"]⟩ := tclose_stmt0 ht
  have hcc : ∀ y tp, execStmt0 cfg .channelClose y tp = ⟨.returns, channelClose cfg y, tp, ["cclose"]⟩ := fun _ _ => rfl
  have hlp : ∀ y tp, execStmt0 cfg (.logPost true) y tp = ⟨.returns, y, tp, ["post:c"]⟩ := fun _ _ => rfl
  obtain ⟨d1, _, _⟩ := execProg_cons_always (cfg := cfg) (execStmt0 cfg) .channelClose
    [.simple ⟨.always, .logPost true⟩] (transportClose cfg (hookPart cfg s tape).st) (hookPart cfg s tape).tape
  obtain ⟨e1, _, _⟩ := execProg_cons_always (cfg := cfg) (execStmt0 cfg) (.logPost true)
    [] (channelClose cfg (transportClose cfg (hookPart cfg s tape).st)) (hookPart cfg s tape).tape
  simp only [htc, R.ok] at d1 ⊢
  simp only [beq_self_eq_true, if_true]
  rw [d1]
  simp only [hcc, R.ok, beq_self_eq_true, if_true] at e1 ⊢
  rw [e1]
  simp [hlp]


end Scrapli.Lifecycle
