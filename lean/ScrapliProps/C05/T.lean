import ScrapliModel.C05Obligations
import ScrapliModel.Gen.Cert_T
set_option maxRecDepth 100000
namespace Scrapli.C05.T
open Scrapli.Regex Scrapli.Gen
theorem cert_ok : checkCertFor (Scrapli.C05.nxos.ob 0 2) Cert_T.states Cert_T.tbl = true := by
  decide +kernel
end Scrapli.C05.T
