import ScrapliProps.C09Lemmas
import ScrapliProps.C02
/- C09, closed system with the REAL per-read cleaner of `Channel.read` (C01/C02's `chanReadH`), with
   empty reads (`Ev.idle`: the transport returned b"" — async `wait_for` timeout, nothing arrived yet)
   and with kicks.  Helper lemmas and specification-side definitions; the property theorems are in
   C09.lean.  The invariant of C09Lemmas (`Phase`) is redone over an abstract reading relation `R`
   (`Reads`): "with `h` held back, the raw bytes `a` still to be read will be handed to the loop as the
   text `rem`"; `ansiReads` instantiates it with C02's `cleanBuf_segs`. -/
namespace Scrapli.Auth
open Scrapli

/-! ### schedules with empty reads -/

/-- one scheduled `read()` of the login loop -/
inductive Ev where
  /-- the transport returns between 1 and all of the available bytes at elapsed time `t`
      (nothing available: the read blocks for good) -/
  | read (n t : Nat)
  /-- the transport returns b"" at elapsed time `t` whatever is on its way (async: `wait_for` timed
      out; a transport whose read gives up after its own timeout) -/
  | idle (t : Nat)
deriving Repr, DecidableEq

def Ev.time : Ev → Nat
  | .read _ t => t
  | .idle t => t

/-- the transport hands `chunk` to `Channel.read`, `remain` stays unread; what the loop writes reaches
    the device at once and its reaction is appended to what is on the way -/
def sysFeed (c : Cfg) (y : Sys) (chunk remain : Bytes) (t : Nat) : Sys :=
  let s' := step c y.s (.chunk chunk t)
  let r := feedDev y.d (s'.log.drop y.s.log.length)
  ⟨s', remain ++ r.1, r.2⟩

def sysStepI (c : Cfg) (y : Sys) : Ev → Sys
  | .read n t =>
    if y.s.status != .running || y.avail.isEmpty then y
    else sysFeed c y (y.avail.take (max 1 n)) (y.avail.drop (max 1 n)) t
  | .idle t => if y.s.status != .running then y else sysFeed c y [] y.avail t

def sysRunI (c : Cfg) (g0 : Bytes) (d : Dev) (sched : List Ev) : Sys :=
  sched.foldl (sysStepI c) ⟨init, g0, d⟩

/-- on schedules without empty reads this is the system of C09Lemmas -/
theorem sysStepI_read (c : Cfg) (y : Sys) (n t : Nat) : sysStepI c y (.read n t) = sysStep c y (n, t) := rfl

theorem sysRunI_reads (c : Cfg) (g0 : Bytes) (d : Dev) (sched : List (Nat × Nat)) :
    sysRunI c g0 d (sched.map fun p => .read p.1 p.2) = sysRun c g0 d sched := by
  unfold sysRunI sysRun
  generalize (⟨init, g0, d⟩ : Sys) = y
  induction sched generalizing y with
  | nil => rfl
  | cons p t ih => simp only [List.map_cons, List.foldl_cons, sysStepI_read]; exact ih _

/-! ### credentials in the log (bare returns left out) -/

def credViewL (log : List Entry) : List (Kind × Bool) :=
  (log.map fun e => (e.kind, e.ok)).filter fun p => p.1 != .ret

/-- the credential sightings of a login, in order: (kind, written?) -/
def credView (s : St) : List (Kind × Bool) := credViewL s.log

/-- number of bare returns written -/
def retsOf (log : List Entry) : Nat := (log.filter fun e => e.kind == .ret).length

theorem credViewL_append (a b : List Entry) : credViewL (a ++ b) = credViewL a ++ credViewL b := by
  simp [credViewL]

theorem credView_eq_view (s : St) (h : retsOf s.log = 0) : credView s = view s := by
  unfold credView credViewL view
  rw [List.filter_eq_self]
  intro p hp
  obtain ⟨e, he, rfl⟩ := List.mem_map.mp hp
  have : ∀ x ∈ s.log, (x.kind == Kind.ret) = false := by
    have h0 : s.log.filter (fun e => e.kind == .ret) = [] := List.length_eq_zero_iff.mp h
    intro x hx
    have := List.filter_eq_nil_iff.mp h0 x hx
    simpa using this
  simpa using this e he

/-! ### configuration hypotheses without the cleaner -/

structure CfgOK' (c : Cfg) : Prop where
  k12 : c.k1 ≠ c.k2
  k1r : c.k1 ≠ .ret
  k2r : c.k2 ≠ .ret
  P0 : ∀ k, c.P k [] = false
  pr0 : c.prompt [] = false

theorem answers_one' (c : Cfg) (ok : CfgOK' c) (k : Kind) (hk : k = c.k1 ∨ k = c.k2) (s : St)
    (hr : s.status = .running) (hp : c.P k s.buf = true) (ho : c.P (otherKind c k) s.buf = false) :
    finish c (answer c c.k2 (answer c c.k1 s)) = answer c k s :=
  answers_one { c with clean := crClean } ⟨ok.k12, ok.k1r, ok.k2r, ok.P0, ok.pr0, rfl⟩ k hk s hr hp ho

theorem kind_ne_ret' (c : Cfg) (ok : CfgOK' c) (k : Kind) (hk : k = c.k1 ∨ k = c.k2) : (k == Kind.ret) = false := by
  rcases hk with rfl | rfl
  · simpa using ok.k1r
  · simpa using ok.k2r

/-! ### the reading relation -/

/-- `R h a rem`: with `h` held back by `Channel.read`, the raw bytes `a` (read in any pieces) are handed
    to the loop as the text `rem` -/
structure Reads (c : Cfg) (R : Bytes → Bytes → Bytes → Prop) : Prop where
  split : ∀ h chunk remain rem, R h (chunk ++ remain) rem →
    ∃ rem', rem = (c.clean h chunk).1 ++ rem' ∧ R (c.clean h chunk).2 remain rem'
  app : ∀ h a rem g p, R h a rem → R [] g p → R h (a ++ g) (rem ++ p)
  nil : ∀ h rem, R h [] rem → rem = []

/-- the state after `Channel.read` + kick test + `buf +=`, whichever way the kick test goes: the buffer
    grows by the cleaned chunk, at most one bare return is logged, and only at a read that cleaned to
    nothing after the return interval -/
theorem afterRead_shape (c : Cfg) (s : St) (raw : Bytes) (t : Nat) :
    ∃ K, (K = [] ∨ (K = [⟨.ret, [], true, s.nread + 1⟩] ∧ c.kicks = true ∧ (c.clean s.held raw).1 = [] ∧
                      c.ivl * s.attempts < t)) ∧
      (afterRead c s raw t).log = s.log ++ K ∧
      (afterRead c s raw t).buf = s.buf ++ lower (c.clean s.held raw).1 ∧
      (afterRead c s raw t).cnt = s.cnt ∧ (afterRead c s raw t).status = s.status ∧
      (afterRead c s raw t).held = (c.clean s.held raw).2 ∧
      (afterRead c s raw t).attempts = s.attempts + K.length := by
  unfold afterRead
  simp only
  split
  · rename_i h
    simp only [Bool.and_eq_true, decide_eq_true_eq] at h
    refine ⟨[⟨.ret, [], true, s.nread + 1⟩], Or.inr ⟨rfl, h.1.1, ?_, h.2⟩, ?_⟩
    · simpa using h.1.2
    · simp [kick]
  · exact ⟨[], Or.inl rfl, by simp⟩

theorem feedDev_rets (d : Dev) (K es : List Entry)
    (hK : K = [] ∨ ∃ n, K = [⟨.ret, [], true, n⟩] ∧ d.onRet = []) : feedDev d (K ++ es) = feedDev d es := by
  rcases hK with rfl | ⟨n, rfl, h⟩
  · rfl
  · simp [feedDev, h]

theorem feedDev_onRet (es : List Entry) : ∀ d, (feedDev d es).2.onRet = d.onRet := by
  induction es with
  | nil => intro d; rfl
  | cons e es ih =>
    intro d
    unfold feedDev
    split
    · exact ih d
    · split
      · exact ih _
      · exact ih d

theorem credViewL_single (k : Kind) (hk : (k == Kind.ret) = false) (b : Bytes) (o : Bool) (n : Nat) :
    credViewL [⟨k, b, o, n⟩] = [(k, o)] := by
  simp [credViewL, List.filter, bne, hk]

theorem credViewL_rets (K : List Entry) (hK : K = [] ∨ ∃ n, K = [⟨.ret, [], true, n⟩]) : credViewL K = [] := by
  rcases hK with rfl | ⟨n, rfl⟩ <;> rfl

/-- two lists related element by element -/
def All2 (r : Bytes → Bytes → Prop) : List Bytes → List Bytes → Prop
  | [], [] => True
  | a :: as, b :: bs => r a b ∧ All2 r as bs
  | _, _ => False

theorem All2.imp {r q : Bytes → Bytes → Prop} (h : ∀ a b, r a b → q a b) : ∀ {as bs}, All2 r as bs → All2 q as bs
  | [], [], _ => trivial
  | _ :: _, _ :: _, ⟨h1, h2⟩ => ⟨h _ _ h1, All2.imp h h2⟩
  | [], _ :: _, h' => h'.elim
  | _ :: _, [], h' => h'.elim

/-- the invariant of the closed system over a reading relation; `L`, `O` = expected credential log and
    outcome of the whole dialogue, `ps` = the texts of the segments the device has still to release -/
inductive PhaseG (c : Cfg) (R : Bytes → Bytes → Bytes → Prop) (L : List (Kind × Bool)) (O : Status) (y : Sys) : Prop where
  | live (exp : List Kind) (rem : Bytes) (ps : List Bytes) (hr : y.s.status = .running)
      (hR : R y.s.held y.avail rem)
      (hd : All2 (fun g p => R [] g p ∧ NoCR p) y.d.segs ps)
      (hs : Safe c allSplits y.s.cnt exp (y.s.buf ++ lower rem) ps)
      (ht : tested c exp y.s.buf)
      (hl : credView y.s ++ expLog c y.s.cnt exp = L) (ho : outcome c y.s.cnt exp = O)
  | over (hst : y.s.status = O) (hl : credView y.s = L) (hO : O ≠ .running)

theorem lc_nocr (p : Bytes) (h : NoCR p) : lc p = lower p := by
  unfold lc; rw [chanRead_nocr p h]

/-- one read (of any part of what is available, possibly of nothing) keeps the invariant, provided a
    kick — if one fires — meets a device that ignores empty lines -/
theorem gphase_feed (c : Cfg) (ok : CfgOK' c) (R : Bytes → Bytes → Bytes → Prop) (hR : Reads c R)
    (L : List (Kind × Bool)) (O : Status) (y : Sys) (chunk remain : Bytes) (t : Nat)
    (hav : y.avail = chunk ++ remain)
    (htk : c.kicks = false ∨ t = 0 ∨ y.d.onRet = []) (hrun : y.s.status = .running)
    (h : PhaseG c R L O y) : PhaseG c R L O (sysFeed c y chunk remain t) := by
  rcases h with ⟨exp, rem, ps, hr, hRy, hd, hs, ht, hl, ho⟩ | ⟨hst, _, hO⟩
  rotate_left
  · rw [hst] at hrun; exact absurd hrun hO
  unfold sysFeed
  rw [hav] at hRy
  obtain ⟨rem', hrem, hR'⟩ := hR.split _ _ _ _ hRy
  obtain ⟨K, hK, alog, abuf, acnt, ast, aheld, _⟩ := afterRead_shape c y.s chunk t
  rw [step_chunk c y.s chunk t hr]
  -- the kick, if it fired, meets a device that ignores it
  have hK' : K = [] ∨ ∃ n, K = [⟨.ret, [], true, n⟩] ∧ y.d.onRet = [] := by
    rcases hK with hK | ⟨hK, hk, _, hlt⟩
    · exact Or.inl hK
    · rcases htk with h | h | h
      · rw [h] at hk; cases hk
      · subst h; omega
      · exact Or.inr ⟨_, hK, h⟩
  have hK'' : K = [] ∨ ∃ n, K = [⟨.ret, [], true, n⟩] := by
    rcases hK' with h | ⟨n, h, _⟩
    · exact Or.inl h
    · exact Or.inr ⟨n, h⟩
  generalize afterRead c y.s chunk t = a at *
  have hp : y.s.buf ++ lower rem = a.buf ++ lower rem' := by
    rw [abuf, hrem, lower_append, List.append_assoc]
  have hcv : credViewL a.log = credView y.s := by
    rw [alog, credViewL_append, credViewL_rets K hK'', List.append_nil]; rfl
  have hdropK : a.log.drop y.s.log.length = K := by rw [alog]; simp
  cases exp with
  | nil =>
    obtain ⟨hprompt, hq⟩ := hs
    obtain ⟨q1, q2, q3⟩ := hq _ _ hp rfl
    simp only [q3, Bool.false_eq_true, if_false]
    rw [answers_skip c a q1 q2]
    by_cases hpx : c.prompt a.buf = true
    · have hfin : finish c a = { a with status := .done } := by simp [finish, ast, hr, hpx]
      rw [hfin]
      refine .over ?_ ?_ (by rw [← ho]; simp [outcome])
      · rw [← ho]; rfl
      · show credViewL a.log = L
        rw [hcv]; simpa [expLog] using hl
    · have hfin : finish c a = a := by simp [finish, hpx]
      rw [hfin, hdropK]
      have hf := feedDev_rets y.d K [] hK'
      simp only [List.append_nil] at hf
      rw [hf]
      simp only [feedDev_nil, List.append_nil]
      refine .live [] rem' ps (by rw [ast, hr]) (by rw [aheld]; exact hR') hd ?_ ?_ ?_ ?_
      · show Safe c allSplits a.cnt [] (a.buf ++ lower rem') ps
        rw [acnt, ← hp]; exact ⟨hprompt, hq⟩
      · simpa [tested] using hpx
      · show credViewL a.log ++ expLog c a.cnt [] = L
        rw [hcv, acnt]; exact hl
      · show outcome c a.cnt [] = O
        rw [acnt]; exact ho
  | cons k exp' =>
    obtain ⟨hk, hpk, hq⟩ := hs
    obtain ⟨q1, q2, q3, q4⟩ := hq _ _ hp rfl
    have hkr := kind_ne_ret' c ok k hk
    simp only [q3, Bool.false_eq_true, if_false]
    have har : a.status = .running := by rw [ast, hr]
    by_cases hpx : c.P k a.buf = true
    · rw [answers_one' c ok k hk a har hpx q2]
      rcases answer_cases c k a with ⟨_, hn⟩ | ⟨_, _, hc, he⟩ | ⟨_, _, hc, he⟩
      · rcases hn with hn | hn
        · exact absurd har hn
        · rw [hpx] at hn; cases hn
      · -- written: the device releases the next segment
        rw [he]
        rw [acnt] at hc
        have hnr : ¬ c.limit k < y.s.cnt k + 1 := by omega
        rcases q4 hpx with hlt | hnext
        · exact absurd hlt hnr
        · cases hps : ps with
          | nil => rw [hps] at hnext; exact hnext.elim
          | cons p ps' =>
            rw [hps] at hnext hd
            cases hsegs : y.d.segs with
            | nil => rw [hsegs] at hd; exact hd.elim
            | cons g rest' =>
              rw [hsegs] at hd
              obtain ⟨⟨hgp, hpn⟩, hd'⟩ := hd
              have hdrop : (a.log ++ [(⟨k, a.buf, true, a.nread⟩ : Entry)]).drop y.s.log.length
                  = K ++ [⟨k, a.buf, true, a.nread⟩] := by rw [alog]; simp
              simp only [hdrop]
              rw [feedDev_rets y.d K _ hK']
              simp only [feedDev, hkr, Bool.false_eq_true, if_false, if_true, hsegs, List.headD_cons,
                List.tail_cons, List.append_nil]
              refine .live exp' (rem' ++ p) ps' har ?_ hd' ?_ ?_ ?_ ?_
              · show R a.held (remain ++ g) (rem' ++ p)
                rw [aheld]; exact hR.app _ _ _ _ _ hR' hgp
              · show Safe c allSplits (bumpf a.cnt k) exp' ([] ++ lower (rem' ++ p)) ps'
                rw [acnt, lower_append, ← lc_nocr p hpn]
                simpa using hnext
              · cases exp' with
                | nil => simpa [tested] using ok.pr0
                | cons k' _ => simpa [tested] using ok.P0 k'
              · show credViewL (a.log ++ [⟨k, a.buf, true, a.nread⟩]) ++ expLog c (bumpf a.cnt k) exp' = L
                rw [credViewL_append, hcv, acnt, ← hl, credViewL_single k hkr]
                simp [expLog, hnr]
              · show outcome c (bumpf a.cnt k) exp' = O
                rw [acnt, ← ho]; simp [outcome, hnr]
      · -- refused: ScrapliAuthenticationFailed
        rw [he]
        rw [acnt] at hc
        have hlt : c.limit k < y.s.cnt k + 1 := hc
        refine .over ?_ ?_ (by rw [← ho]; simp [outcome, hlt])
        · rw [← ho]; simp [outcome, hlt]
        · show credViewL (a.log ++ [⟨k, a.buf, false, a.nread⟩]) = L
          rw [credViewL_append, hcv, ← hl, credViewL_single k hkr]
          simp [expLog, hlt]
    · -- the expected pattern does not match yet
      have hpf : c.P k a.buf = false := by simpa using hpx
      have h12 : c.P c.k1 a.buf = false ∧ c.P c.k2 a.buf = false := by
        rcases hk with rfl | rfl
        · refine ⟨hpf, ?_⟩
          have : otherKind c c.k1 = c.k2 := by simp [otherKind]
          rw [this] at q2; exact q2
        · refine ⟨?_, hpf⟩
          have : otherKind c c.k2 = c.k1 := by simp [otherKind, Ne.symm ok.k12]
          rw [this] at q2; exact q2
      rw [answers_skip c a h12.1 h12.2]
      have hfin : finish c a = a := by simp [finish, q1 hpf]
      rw [hfin, hdropK]
      have hf := feedDev_rets y.d K [] hK'
      simp only [List.append_nil] at hf
      rw [hf]
      simp only [feedDev_nil, List.append_nil]
      refine .live (k :: exp') rem' ps har (by rw [aheld]; exact hR') hd ?_ ?_ ?_ ?_
      · show Safe c allSplits a.cnt (k :: exp') (a.buf ++ lower rem') ps
        rw [acnt, ← hp]; exact ⟨hk, hpk, hq⟩
      · simpa [tested] using hpf
      · show credViewL a.log ++ expLog c a.cnt (k :: exp') = L
        rw [hcv, acnt]; exact hl
      · show outcome c a.cnt (k :: exp') = O
        rw [acnt]; exact ho

theorem sysFeed_onRet (c : Cfg) (y : Sys) (chunk remain : Bytes) (t : Nat) :
    (sysFeed c y chunk remain t).d.onRet = y.d.onRet := by
  unfold sysFeed; exact feedDev_onRet _ _

theorem sysStepI_onRet (c : Cfg) (y : Sys) (e : Ev) : (sysStepI c y e).d.onRet = y.d.onRet := by
  cases e with
  | read n t =>
    show (if _ then y else sysFeed c y _ _ t).d.onRet = _
    split
    · rfl
    · exact sysFeed_onRet ..
  | idle t =>
    show (if _ then y else sysFeed c y _ _ t).d.onRet = _
    split
    · rfl
    · exact sysFeed_onRet ..

theorem gphase_step (c : Cfg) (ok : CfgOK' c) (R : Bytes → Bytes → Bytes → Prop) (hR : Reads c R)
    (L : List (Kind × Bool)) (O : Status) (y : Sys) (e : Ev)
    (htk : c.kicks = false ∨ e.time = 0 ∨ y.d.onRet = []) (h : PhaseG c R L O y) :
    PhaseG c R L O (sysStepI c y e) := by
  by_cases hrun : y.s.status = .running
  · cases e with
    | read n t =>
      unfold sysStepI
      by_cases hav : y.avail.isEmpty = true
      · simp [hav]; exact h
      · simp only [hrun, bne_self_eq_false, hav, Bool.or_self, Bool.false_eq_true, if_false]
        exact gphase_feed c ok R hR L O y _ _ t (List.take_append_drop _ _).symm htk hrun h
    | idle t =>
      unfold sysStepI
      simp only [hrun, bne_self_eq_false, Bool.false_eq_true, if_false]
      exact gphase_feed c ok R hR L O y [] y.avail t rfl htk hrun h
  · have hy : sysStepI c y e = y := by
      cases e <;> simp [sysStepI, hrun]
    rw [hy]; exact h

theorem gphase_run (c : Cfg) (ok : CfgOK' c) (R : Bytes → Bytes → Bytes → Prop) (hR : Reads c R)
    (L : List (Kind × Bool)) (O : Status) (sched : List Ev) :
    ∀ y, (c.kicks = false ∨ (∀ e ∈ sched, e.time = 0) ∨ y.d.onRet = []) → PhaseG c R L O y →
      PhaseG c R L O (sched.foldl (sysStepI c) y) := by
  induction sched with
  | nil => intro y _ h; exact h
  | cons e t ih =>
    intro y ht h
    have hp : c.kicks = false ∨ e.time = 0 ∨ y.d.onRet = [] := by
      rcases ht with ht | ht | ht
      · exact Or.inl ht
      · exact Or.inr (Or.inl (ht e (by simp)))
      · exact Or.inr (Or.inr ht)
    have ht' : c.kicks = false ∨ (∀ q ∈ t, q.time = 0) ∨ (sysStepI c y e).d.onRet = [] := by
      rcases ht with ht | ht | ht
      · exact Or.inl ht
      · exact Or.inr (Or.inl (fun q hq => ht q (by simp [hq])))
      · exact Or.inr (Or.inr (by rw [sysStepI_onRet]; exact ht))
    simp only [List.foldl_cons]
    exact ih _ ht' (gphase_step c ok R hR L O y e hp h)

theorem gphase_facts (c : Cfg) (R : Bytes → Bytes → Bytes → Prop) (hR : Reads c R)
    (L : List (Kind × Bool)) (O : Status) (y : Sys) (h : PhaseG c R L O y) :
    (y.s.status = .running ∨ y.s.status = O) ∧
    (y.avail = [] → y.s.status = O) ∧
    (∃ more, credView y.s ++ more = L) ∧
    (y.s.status = O → credView y.s = L) := by
  rcases h with ⟨exp, rem, ps, hr, hRy, hd, hs, ht, hl, ho⟩ | ⟨hst, hl, hO⟩
  · refine ⟨Or.inl hr, ?_, ⟨_, hl⟩, ?_⟩
    · intro hav
      exfalso
      rw [hav] at hRy
      have := hR.nil _ _ hRy
      subst this
      cases exp with
      | nil =>
        have : c.prompt y.s.buf = true := by simpa [lower] using hs.1
        rw [show c.prompt y.s.buf = false from ht] at this; cases this
      | cons k _ =>
        have : c.P k y.s.buf = true := by simpa [lower] using hs.2.1
        rw [show c.P k y.s.buf = false from ht] at this; cases this
    · intro hO
      exfalso
      rw [hr] at hO
      exact outcome_ne_running c exp y.s.cnt (by rw [ho]; exact hO.symm)
  · exact ⟨Or.inr hst, fun _ => hst, ⟨[], by simpa using hl⟩, fun _ => hl⟩

/-! ### the real cleaner: text decorated with carriage returns and complete escape sequences -/

/-- `g` is the text `p` decorated: after CR removal it is a stream of text and complete tame escape
    sequences (C02: ESC-introduced CSI / OSC / cursor sequences of at most 256 bytes without a second
    introducer inside) whose text is `p`.  CRs may sit anywhere, also inside a sequence. -/
def Decor (g p : Bytes) : Prop :=
  ∃ sg : List Chan.Seg, (∀ s ∈ sg, s.Tame) ∧ Chan.stripCR g = Chan.segBytes sg ∧ p = Chan.segPlain sg

/-- the reading relation of `chanReadH` -/
def AnsiR (h a rem : Bytes) : Prop :=
  ∃ segs : List Chan.Seg, (∀ g ∈ segs, g.Tame) ∧ h ++ Chan.stripCR a = Chan.segBytes segs ∧
    Chan.HeldShape h segs ∧ rem = Chan.segPlain segs

theorem segBytes_append (a b : List Chan.Seg) : Chan.segBytes (a ++ b) = Chan.segBytes a ++ Chan.segBytes b := by
  simp [Chan.segBytes]

theorem segPlain_append (a b : List Chan.Seg) : Chan.segPlain (a ++ b) = Chan.segPlain a ++ Chan.segPlain b := by
  simp [Chan.segPlain]

theorem ansiR_of_decor (g p : Bytes) (h : Decor g p) : AnsiR [] g p := by
  obtain ⟨sg, ht, hb, hp⟩ := h
  exact ⟨sg, ht, by simpa using hb, Or.inl rfl, hp⟩

theorem decor_of_ansiR (g p : Bytes) (h : AnsiR [] g p) : Decor g p := by
  obtain ⟨sg, ht, hb, _, hp⟩ := h
  exact ⟨sg, ht, by simpa using hb, hp⟩

theorem segPlain_mem : ∀ (segs : List Chan.Seg) (x : UInt8), x ∈ Chan.segPlain segs → x ∈ Chan.segBytes segs := by
  intro segs
  induction segs with
  | nil => intro x hx; simp [Chan.segPlain] at hx
  | cons g tl ih =>
    intro x hx
    simp only [Chan.segPlain, Chan.segBytes, List.map_cons, List.flatten_cons, List.mem_append] at hx ⊢
    rcases hx with h | h
    · cases g with
      | text b hb => exact Or.inl h
      | seq s => simp [Chan.Seg.plain] at h
    · exact Or.inr (ih x h)

theorem decor_nocr (g p : Bytes) (h : Decor g p) : NoCR p := by
  obtain ⟨sg, _, hb, hp⟩ := h
  intro x hx
  rw [hp] at hx
  have h1 := segPlain_mem sg x hx
  rw [← hb] at h1
  intro e
  subst e
  exact Chan.not_mem_stripCR g h1

theorem ansiReads (c : Cfg) (hcl : c.clean = Chan.chanReadH) : Reads c AnsiR := by
  refine ⟨?_, ?_, ?_⟩
  · intro h chunk remain rem ⟨segs, ht, hb, _, hrem⟩
    have hb' : (h ++ Chan.stripCR chunk) ++ Chan.stripCR remain = Chan.segBytes segs := by
      rw [List.append_assoc, ← Chan.stripCR_append]; exact hb
    obtain ⟨segs', h1, h2, h3, h4⟩ := Chan.cleanBuf_segs segs ht _ _ hb'
    refine ⟨Chan.segPlain segs', ?_, segs', h1, ?_, ?_, rfl⟩
    · rw [hrem, hcl]; exact h3.symm
    · rw [hcl]; exact h2
    · rw [hcl]; exact h4
  · intro h a rem g p ⟨segs, ht, hb, hsh, hrem⟩ ⟨sg, htg, hbg, _, hp⟩
    refine ⟨segs ++ sg, ?_, ?_, ?_, ?_⟩
    · intro x hx
      rcases List.mem_append.mp hx with hx | hx
      · exact ht x hx
      · exact htg x hx
    · rw [Chan.stripCR_append, ← List.append_assoc, hb, segBytes_append]
      simp only [List.nil_append] at hbg
      rw [hbg]
    · rcases hsh with e | ⟨s, tl, x, hsegs, hhx, hx, hh⟩
      · exact Or.inl e
      · exact Or.inr ⟨s, tl ++ sg, x, by rw [hsegs]; rfl, hhx, hx, hh⟩
    · rw [hrem, hp, segPlain_append]
  · intro h rem ⟨segs, ht, hb, hsh, hrem⟩
    have := Chan.cleanPieces_segs [] h segs ht (by simp) (by simpa [Chan.stripCR] using hb) hsh
    rw [hrem, ← this.1]
    simp [Chan.cleanPieces]

theorem gphase_init (c : Cfg) (ok : CfgOK' c) (exp : List Kind) (g0 : Bytes) (d : Dev) (p0 : Bytes) (ps : List Bytes)
    (h0 : Decor g0 p0) (hd : All2 Decor d.segs ps)
    (hs : Safe c allSplits (fun _ => 0) exp (lower p0) ps) :
    PhaseG c AnsiR (expLog c (fun _ => 0) exp) (outcome c (fun _ => 0) exp) ⟨init, g0, d⟩ := by
  refine .live exp p0 ps rfl (ansiR_of_decor _ _ h0) ?_ (by simpa [init] using hs) ?_ (by simp [credView, credViewL, init]) rfl
  · exact All2.imp (fun g p h => ⟨ansiR_of_decor _ _ h, decor_nocr _ _ h⟩) hd
  · cases exp with
    | nil => simpa [tested, init] using ok.pr0
    | cons k _ => simpa [tested, init] using ok.P0 k

/-! ### the kick: only a bare return, only after a silent return interval -/

/-- invariant behind the rate bound: `return_attempts` counts the returns, and the last return was
    written when more than `ivl * (number of returns so far)` had elapsed -/
structure KInv (c : Cfg) (T : Nat) (s : St) : Prop where
  att : s.attempts = 1 + retsOf s.log
  rate : retsOf s.log = 0 ∨ c.ivl * retsOf s.log < T

theorem retsOf_snoc (log : List Entry) (e : Entry) :
    retsOf (log ++ [e]) = retsOf log + (if e.kind == .ret then 1 else 0) := by
  simp only [retsOf, List.filter_append, List.length_append]
  by_cases h : (e.kind == Kind.ret) = true <;> simp [List.filter, h]

theorem answer_rets (c : Cfg) (k : Kind) (hk : k ≠ .ret) (s : St) :
    retsOf (answer c k s).log = retsOf s.log ∧ (answer c k s).attempts = s.attempts := by
  have hb : (k == Kind.ret) = false := by simpa using hk
  rcases answer_cases c k s with ⟨he, _⟩ | ⟨_, _, _, he⟩ | ⟨_, _, _, he⟩ <;> rw [he] <;> simp [retsOf_snoc, hb]

theorem finish_rets (c : Cfg) (s : St) : (finish c s).log = s.log ∧ (finish c s).attempts = s.attempts := by
  unfold finish; split <;> simp

theorem kinv_step (c : Cfg) (hk1 : c.k1 ≠ .ret) (hk2 : c.k2 ≠ .ret) (T : Nat) (s : St) (raw : Bytes) (t : Nat)
    (ht : t ≤ T) (h : KInv c T s) : KInv c T (step c s (.chunk raw t)) := by
  by_cases hr : s.status = .running
  · rw [step_chunk c s raw t hr]
    obtain ⟨K, hK, alog, _, _, _, _, aatt⟩ := afterRead_shape c s raw t
    have ha : KInv c T (afterRead c s raw t) := by
      rcases hK with rfl | ⟨rfl, _, _, hlt⟩
      · exact ⟨by rw [aatt, alog]; simpa using h.att, by rw [alog]; simpa using h.rate⟩
      · refine ⟨by rw [aatt, alog, retsOf_snoc]; simp [h.att]; omega, Or.inr ?_⟩
        rw [alog, retsOf_snoc]
        simp only [beq_self_eq_true, if_true]
        rw [h.att, Nat.add_comm 1 (retsOf s.log)] at hlt
        omega
    generalize afterRead c s raw t = a at *
    split
    · exact ⟨ha.att, ha.rate⟩
    · obtain ⟨f1, f2⟩ := finish_rets c (answer c c.k2 (answer c c.k1 a))
      obtain ⟨b1, b2⟩ := answer_rets c c.k2 hk2 (answer c c.k1 a)
      obtain ⟨c1, c2⟩ := answer_rets c c.k1 hk1 a
      exact ⟨by rw [f2, f1, b2, b1, c2, c1]; exact ha.att, by rw [f1, b1, c1]; exact ha.rate⟩
  · rw [step_stopped c s _ hr]; exact h

/-- the times of the chunk reads of a tape -/
def timesOf : List Read → List Nat
  | [] => []
  | .chunk _ t :: r => t :: timesOf r
  | .connErr :: r => timesOf r

theorem kinv_fold (c : Cfg) (hk1 : c.k1 ≠ .ret) (hk2 : c.k2 ≠ .ret) (T : Nat) (tape : List Read)
    (hne : .connErr ∉ tape) (hT : ∀ t ∈ timesOf tape, t ≤ T) :
    ∀ s, KInv c T s → KInv c T (tape.foldl (step c) s) := by
  induction tape with
  | nil => intro s h; exact h
  | cons r tp ih =>
    intro s h
    cases r with
    | connErr => exact absurd (by simp) hne
    | chunk raw t =>
      simp only [List.foldl_cons]
      refine ih (fun hm => hne (by simp [hm])) (fun x hx => hT x (by simp [timesOf, hx])) _ ?_
      exact kinv_step c hk1 hk2 T s raw t (hT t (by simp [timesOf])) h

end Scrapli.Auth
