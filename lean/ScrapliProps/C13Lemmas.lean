import ScrapliModel.Send
/-
  C13 — specification-side definitions and helper lemmas (property theorems: C13.lean).
-/
namespace Scrapli.Send
open Scrapli

/-! ## strings -/

theorem isInfix_iff (m s : Str) : isInfix m s = true ↔ m <:+: s := by
  induction s with
  | nil =>
    simp only [isInfix, List.isEmpty_iff]
    constructor
    · intro h; subst h; exact List.infix_refl _
    · intro h; exact List.eq_nil_of_infix_nil h
  | cons c cs ih =>
    simp only [isInfix, Bool.or_eq_true, ih, List.isPrefixOf_iff_prefix, List.infix_cons_iff]

theorem isSep_nl : isSep '\n' = true := by decide
theorem isSep_cr : isSep '\r' = true := by decide

theorem splitAux_cons (c : Char) (rest cur : Str) (a : Bool) : splitAux (c :: rest) cur a =
    if (a && c == '\n') = true then splitAux rest cur false
    else if isSep c = true then cur.reverse :: splitAux rest [] (c == '\r')
    else splitAux rest (c :: cur) false := by rfl

theorem univNl_cons (c : Char) (rest : Str) (a : Bool) : univNl (c :: rest) a =
    if (a && c == '\n') = true then univNl rest false
    else if c = '\r' then '\n' :: univNl rest true
    else c :: univNl rest false := by
  simp only [univNl]; split <;> simp_all

/-- text-mode reading is invisible to `splitlines`: `\r\n`, `\r`, `\n` are each one boundary -/
theorem splitAux_univNl (s cur : Str) (b : Bool) : splitAux (univNl s b) cur false = splitAux s cur b := by
  induction s generalizing cur b with
  | nil => simp [univNl, splitAux]
  | cons c rest ih =>
    rw [univNl_cons, splitAux_cons c rest cur b]
    by_cases h1 : (b && c == '\n') = true
    · rw [if_pos h1, if_pos h1]; exact ih cur false
    · rw [if_neg h1, if_neg h1]
      by_cases h2 : c = '\r'
      · subst h2
        rw [if_pos rfl, splitAux_cons, if_neg (by simp), if_pos isSep_nl, if_pos isSep_cr]
        have e1 : ('\n' == '\r') = false := by decide
        have e2 : ('\r' == '\r') = true := by decide
        rw [e1, e2, ih]
      · rw [if_neg h2, splitAux_cons, if_neg (by simp)]
        have h2' : (c == '\r') = false := by simpa using h2
        by_cases h3 : isSep c = true
        · rw [if_pos h3, if_pos h3, h2', ih]
        · rw [if_neg h3, if_neg h3, ih]

theorem fileLines_eq_splitlines (s : Str) : fileLines s = splitlines s := by
  unfold fileLines splitlines; exact splitAux_univNl s [] false

/-- no line produced by `splitlines` contains a line boundary -/
theorem splitAux_no_sep (s cur : Str) (a : Bool) (hcur : ∀ c ∈ cur, isSep c = false) :
    ∀ l ∈ splitAux s cur a, ∀ c ∈ l, isSep c = false := by
  induction s generalizing cur a with
  | nil =>
    intro l hl c hc
    simp only [splitAux] at hl
    split at hl
    · simp at hl
    · simp only [List.mem_singleton] at hl; subst hl; exact hcur c (by simpa using hc)
  | cons x rest ih =>
    intro l hl
    simp only [splitAux] at hl
    split at hl
    · exact ih cur false hcur l hl
    · split at hl
      · rcases List.mem_cons.mp hl with h | h
        · subst h; intro c hc; exact hcur c (by simpa using hc)
        · exact ih [] _ (by simp) l h
      · rename_i hx
        refine ih (x :: cur) false ?_ l hl
        intro c hc
        rcases List.mem_cons.mp hc with h | h
        · subst h; simpa using hx
        · exact hcur c h

theorem splitlines_no_sep (s : Str) : ∀ l ∈ splitlines s, ∀ c ∈ l, isSep c = false :=
  splitAux_no_sep s [] false (by simp)

/-- a boundary-free segment is accumulated into the current line -/
theorem splitAux_append_clean (l rest cur : Str) (hl : ∀ c ∈ l, isSep c = false) :
    splitAux (l ++ rest) cur false = splitAux rest (l.reverse ++ cur) false := by
  induction l generalizing cur with
  | nil => simp
  | cons x xs ih =>
    have hx : isSep x = false := hl x (by simp)
    simp only [List.cons_append, splitAux, Bool.false_and, hx]
    rw [ih (x :: cur) (fun c hc => hl c (by simp [hc]))]
    simp

/-- `"\n".join(ls).splitlines() == ls` for boundary-free lines whose last one is not empty -/
theorem splitlines_joinNl (ls : List Str) (hclean : ∀ l ∈ ls, ∀ c ∈ l, isSep c = false)
    (hlast : ∀ l, ls.getLast? = some l → l ≠ []) (hne : ls ≠ []) : splitlines (joinNl ls) = ls := by
  unfold splitlines joinNl
  induction ls with
  | nil => exact absurd rfl hne
  | cons l rest ih =>
    cases rest with
    | nil =>
      have hl : l ≠ [] := hlast l (by simp)
      simp only [List.intercalate, List.intersperse_singleton, List.flatten_cons, List.flatten_nil, List.append_nil]
      have := splitAux_append_clean l [] [] (hclean l (by simp))
      simp only [List.append_nil] at this
      rw [this]
      simp [splitAux, hl]
    | cons l2 rest2 =>
      have ih' := ih (fun x hx => hclean x (by simp [hx]))
        (fun x hx => hlast x (by simpa [List.getLast?_cons_cons] using hx)) (by simp)
      have hint : List.intercalate ['\n'] (l :: l2 :: rest2) = l ++ '\n' :: List.intercalate ['\n'] (l2 :: rest2) := by
        simp [List.intercalate, List.intersperse]
      rw [hint, splitAux_append_clean l _ [] (hclean l (by simp))]
      simp only [List.append_nil, splitAux, Bool.false_and, isSep_nl, if_true, List.reverse_reverse]
      have hnl : ('\n' == '\r') = false := by decide
      rw [hnl, ih']
      simp

/-! ## failure flag -/

theorem recordFailed_iff (ms : Option (List Str)) (res : Str) :
    recordFailed ms res = true ↔ ∃ l, ms = some l ∧ ∃ m ∈ l, m <:+: res := by
  cases ms with
  | none => simp [recordFailed]
  | some l =>
    simp only [recordFailed, Option.some.injEq, exists_eq_left']
    by_cases hl : l.isEmpty = true
    · have : l = [] := by simpa using hl
      subst this; simp
    · simp only [hl, if_false, Bool.false_eq_true]
      by_cases hall : (l.all fun m => !isInfix m res) = true
      · simp only [hall, if_true, Bool.false_eq_true, false_iff]
        rintro ⟨m, hm, hinf⟩
        have := List.all_eq_true.mp hall m hm
        simp [(isInfix_iff m res).mpr hinf] at this
      · simp only [hall, if_false, true_iff, Bool.false_eq_true]
        have : ∃ m ∈ l, isInfix m res = true := by
          simpa [List.all_eq_true] using hall
        obtain ⟨m, hm, hx⟩ := this
        exact ⟨m, hm, (isInfix_iff m res).mp hx⟩

/-! ## specification-side vocabulary -/

variable {μ : Type}

/-- the device-side entries produced by executing `ls` in order starting in mode `m` -/
def entries (env : Env μ) (o : Origin) : List Str → μ → List (Entry μ)
  | [], _ => []
  | l :: ls, m => ⟨o, m, l⟩ :: entries env o ls (env.next m l)

def finalMode (env : Env μ) (ls : List Str) (m : μ) : μ := ls.foldl env.next m

/-- the bytes a list of executed lines occupies on the wire: each line followed by one return -/
def wireOf (ret : Str) (es : List (Entry μ)) : Bytes := es.flatMap (fun e => encode e.line ++ encode ret)

/-- the response object of one line executed in mode `m` -/
def mkResp (env : Env μ) (fwc : Fwc) (eager : Bool) (m : μ) (l : Str) : Resp :=
  let result := decode (if eager then [] else env.out m l)
  ⟨l, result, recordFailed (respMarkers fwc) result, respMarkers fwc⟩

def respsOf (env : Env μ) (fwc : Fwc) (eager : Bool) : List Str → μ → List Resp
  | [], _ => []
  | l :: ls, m => mkResp env fwc eager m l :: respsOf env fwc eager ls (env.next m l)

/-- prefix up to and including the first element satisfying `p` (everything if there is none) -/
def takeThrough {α : Type} (p : α → Bool) : List α → List α
  | [] => []
  | x :: xs => if p x then [x] else x :: takeThrough p xs

theorem St.ext' {a b : St μ} (h1 : a.belief = b.belief) (h2 : a.mode = b.mode) (h3 : a.log = b.log)
    (h4 : a.writes = b.writes) : a = b := by
  cases a; cases b; simp_all

/-! ## takeThrough -/

theorem takeThrough_eq_take {α : Type} (p : α → Bool) (l : List α) :
    takeThrough p l = l.take (takeThrough p l).length := by
  induction l with
  | nil => rfl
  | cons x xs ih =>
    simp only [takeThrough]
    split
    · simp
    · simp only [List.length_cons, List.take_succ_cons]; rw [← ih]

theorem takeThrough_length_le {α : Type} (p : α → Bool) (l : List α) : (takeThrough p l).length ≤ l.length := by
  induction l with
  | nil => simp [takeThrough]
  | cons x xs ih => simp only [takeThrough]; split <;> simp <;> omega

theorem takeThrough_length_pos {α : Type} (p : α → Bool) (l : List α) (h : l ≠ []) : 0 < (takeThrough p l).length := by
  cases l with
  | nil => exact absurd rfl h
  | cons x xs => simp only [takeThrough]; split <;> simp

theorem takeThrough_dropLast {α : Type} (p : α → Bool) (l : List α) : ∀ x ∈ (takeThrough p l).dropLast, p x = false := by
  induction l with
  | nil => simp [takeThrough]
  | cons x xs ih =>
    simp only [takeThrough]
    split
    · simp
    · rename_i hx
      cases hxs : takeThrough p xs with
      | nil => simp
      | cons y ys =>
        intro z hz
        rw [List.dropLast_cons_of_ne_nil (by simp)] at hz
        rcases List.mem_cons.mp hz with h | h
        · subst h; simpa using hx
        · exact ih z (by rw [hxs]; exact h)

theorem takeThrough_any {α : Type} (p : α → Bool) (l : List α) : (takeThrough p l).any p = l.any p := by
  induction l with
  | nil => rfl
  | cons x xs ih =>
    simp only [takeThrough]
    split
    · rename_i h; simp [h]
    · rename_i h; simp [h, ih]

theorem takeThrough_none {α : Type} (p : α → Bool) (l : List α) (h : l.any p = false) : takeThrough p l = l := by
  induction l with
  | nil => rfl
  | cons x xs ih =>
    simp only [List.any_cons, Bool.or_eq_false_iff] at h
    simp [takeThrough, h.1, ih h.2]

/-- stopped short ⇒ the last element taken satisfies `p` -/
theorem takeThrough_short {α : Type} (p : α → Bool) (l : List α) (h : (takeThrough p l).length < l.length) :
    ∃ x, (takeThrough p l).getLast? = some x ∧ p x = true := by
  induction l with
  | nil => simp [takeThrough] at h
  | cons x xs ih =>
    simp only [takeThrough] at h ⊢
    split
    · rename_i hx; exact ⟨x, by simp, hx⟩
    · rename_i hx
      rw [if_neg hx] at h
      simp only [List.length_cons, Nat.add_lt_add_iff_right] at h
      obtain ⟨y, hy, hpy⟩ := ih h
      refine ⟨y, ?_, hpy⟩
      cases hxs : takeThrough p xs with
      | nil => rw [hxs] at hy; simp at hy
      | cons z zs => rw [hxs] at hy; rw [List.getLast?_cons_cons]; exact hy

/-! ## sendLines -/

theorem sendLines_cons (env : Env μ) (ret : Str) (o : Origin) (l : Str) (ls : List Str) (st : St μ) :
    sendLines env ret o (l :: ls) st = sendLines env ret o ls (sendInput env ret o l st).1 := rfl

theorem sendLines_append (env : Env μ) (ret : Str) (o : Origin) (a b : List Str) (st : St μ) :
    sendLines env ret o (a ++ b) st = sendLines env ret o b (sendLines env ret o a st) := by
  unfold sendLines; exact List.foldl_append

theorem sendLines_belief (env : Env μ) (ret : Str) (o : Origin) (ls : List Str) (st : St μ) :
    (sendLines env ret o ls st).belief = st.belief := by
  induction ls generalizing st with
  | nil => rfl
  | cons l ls ih => rw [sendLines_cons, ih]; rfl

theorem sendLines_mode (env : Env μ) (ret : Str) (o : Origin) (ls : List Str) (st : St μ) :
    (sendLines env ret o ls st).mode = finalMode env ls st.mode := by
  induction ls generalizing st with
  | nil => rfl
  | cons l ls ih => rw [sendLines_cons, ih]; rfl

theorem sendLines_log (env : Env μ) (ret : Str) (o : Origin) (ls : List Str) (st : St μ) :
    (sendLines env ret o ls st).log = st.log ++ entries env o ls st.mode := by
  induction ls generalizing st with
  | nil => simp [sendLines, entries]
  | cons l ls ih => rw [sendLines_cons, ih]; simp [sendInput, entries]

theorem sendLines_wire (env : Env μ) (ret : Str) (o : Origin) (ls : List Str) (st : St μ) :
    (sendLines env ret o ls st).writes.flatten = st.writes.flatten ++ wireOf ret (entries env o ls st.mode) := by
  induction ls generalizing st with
  | nil => simp [sendLines, entries, wireOf]
  | cons l ls ih => rw [sendLines_cons, ih]; simp [sendInput, entries, wireOf]

theorem sendLines_with_belief (env : Env μ) (ret : Str) (o : Origin) (ls : List Str) (st : St μ) (b : Str) :
    sendLines env ret o ls { st with belief := b } = { sendLines env ret o ls st with belief := b } := by
  induction ls generalizing st with
  | nil => rfl
  | cons l ls ih => rw [sendLines_cons, sendLines_cons, ← ih]; rfl

theorem entries_origin (env : Env μ) (o : Origin) (ls : List Str) (m : μ) : ∀ e ∈ entries env o ls m, e.origin = o := by
  induction ls generalizing m with
  | nil => simp [entries]
  | cons l ls ih =>
    intro e he
    rcases List.mem_cons.mp he with h | h
    · subst h; rfl
    · exact ih _ e h

theorem entries_lines (env : Env μ) (o : Origin) (ls : List Str) (m : μ) : (entries env o ls m).map (·.line) = ls := by
  induction ls generalizing m with
  | nil => rfl
  | cons l ls ih => simp [entries, ih]

theorem entries_length (env : Env μ) (o : Origin) (ls : List Str) (m : μ) : (entries env o ls m).length = ls.length := by
  rw [← List.length_map (f := (·.line)), entries_lines]

/-- when no line changes the mode every entry carries the starting mode -/
theorem entries_neutral (env : Env μ) (o : Origin) (ls : List Str) (m : μ) (h : ∀ l ∈ ls, env.next m l = m) :
    entries env o ls m = ls.map (fun l => ⟨o, m, l⟩) ∧ finalMode env ls m = m := by
  induction ls with
  | nil => exact ⟨rfl, rfl⟩
  | cons l ls ih =>
    have hl : env.next m l = m := h l (by simp)
    have := ih (fun x hx => h x (by simp [hx]))
    simp only [entries, finalMode, List.foldl_cons, List.map_cons, hl]
    exact ⟨by rw [this.1], this.2⟩

theorem wireOf_entries (env : Env μ) (ret : Str) (o : Origin) (ls : List Str) (m : μ) :
    wireOf ret (entries env o ls m) = ls.flatMap (fun l => encode l ++ encode ret) := by
  induction ls generalizing m with
  | nil => rfl
  | cons l ls ih => simp only [entries, wireOf, List.flatMap_cons] at ih ⊢; rw [ih]

theorem wireOf_append (ret : Str) (a b : List (Entry μ)) : wireOf ret (a ++ b) = wireOf ret a ++ wireOf ret b := by
  simp [wireOf]

/-! ## responses -/

theorem respsOf_inputs (env : Env μ) (fwc : Fwc) (eager : Bool) (ls : List Str) (m : μ) :
    (respsOf env fwc eager ls m).map (·.input) = ls := by
  induction ls generalizing m with
  | nil => rfl
  | cons l ls ih => simp [respsOf, mkResp, ih]

theorem respsOf_length (env : Env μ) (fwc : Fwc) (eager : Bool) (ls : List Str) (m : μ) :
    (respsOf env fwc eager ls m).length = ls.length := by
  rw [← List.length_map (f := (·.input)), respsOf_inputs]

theorem respsOf_flag (env : Env μ) (fwc : Fwc) (eager : Bool) (ls : List Str) (m : μ) :
    ∀ r ∈ respsOf env fwc eager ls m, r.markers = respMarkers fwc ∧ r.failed = recordFailed (respMarkers fwc) r.result := by
  induction ls generalizing m with
  | nil => simp [respsOf]
  | cons l ls ih =>
    intro r hr
    rcases List.mem_cons.mp hr with h | h
    · subst h; exact ⟨rfl, rfl⟩
    · exact ih _ r h

theorem respsOf_take (env : Env μ) (fwc : Fwc) (eager : Bool) (ls : List Str) (m : μ) (k : Nat) :
    respsOf env fwc eager (ls.take k) m = (respsOf env fwc eager ls m).take k := by
  induction ls generalizing m k with
  | nil => simp [respsOf]
  | cons l ls ih =>
    cases k with
    | zero => simp [respsOf]
    | succ k => simp [respsOf, ih]

theorem respsOf_append (env : Env μ) (fwc : Fwc) (eager : Bool) (a b : List Str) (m : μ) :
    respsOf env fwc eager (a ++ b) m = respsOf env fwc eager a m ++ respsOf env fwc eager b (finalMode env a m) := by
  induction a generalizing m with
  | nil => rfl
  | cons l ls ih => simp [respsOf, ih, finalMode]

/-! ## the loop of send_commands -/

theorem sendCommand1_eq (env : Env μ) (ret : Str) (o : Origin) (fwc : Fwc) (eager : Bool) (l : Str) (st : St μ) :
    sendCommand1 env ret o fwc eager l st = ((sendInput env ret o l st).1, mkResp env fwc eager st.mode l) := rfl

theorem loop_nostop (env : Env μ) (ret : Str) (o : Origin) (fwc : Fwc) (eager : Bool) (cs : List Str) (st : St μ)
    (acc : List Resp) :
    loop env ret o fwc false eager cs st acc =
      (sendLines env ret o cs st, acc ++ respsOf env fwc eager cs st.mode, false) := by
  induction cs generalizing st acc with
  | nil => simp [loop, sendLines, respsOf]
  | cons c cs ih =>
    simp only [loop, Bool.false_and, Bool.false_eq_true, if_false]
    rw [ih, sendCommand1_eq, sendLines_cons]
    simp [respsOf, sendInput]

theorem loop_stop (env : Env μ) (ret : Str) (o : Origin) (fwc : Fwc) (eager : Bool) (cs : List Str) (st : St μ)
    (acc : List Resp) :
    loop env ret o fwc true eager cs st acc =
      (sendLines env ret o (cs.take (takeThrough (·.failed) (respsOf env fwc eager cs st.mode)).length) st,
       acc ++ takeThrough (·.failed) (respsOf env fwc eager cs st.mode),
       (respsOf env fwc eager cs st.mode).any (·.failed)) := by
  induction cs generalizing st acc with
  | nil => simp [loop, sendLines, respsOf, takeThrough]
  | cons c cs ih =>
    simp only [loop, Bool.true_and, sendCommand1_eq, respsOf, takeThrough]
    by_cases hf : (mkResp env fwc eager st.mode c).failed = true
    · simp [hf, sendLines]
    · simp only [hf, if_false, Bool.false_eq_true]
      rw [ih]
      have hf' : (mkResp env fwc eager st.mode c).failed = false := by simpa using hf
      simp [sendLines_cons, sendInput, hf']

theorem takeThrough_last_of_any {α : Type} (p : α → Bool) (l : List α) (h : l.any p = true) :
    ∃ x, (takeThrough p l).getLast? = some x ∧ p x = true := by
  induction l with
  | nil => simp at h
  | cons x xs ih =>
    simp only [takeThrough]
    split
    · rename_i hx; exact ⟨x, by simp, hx⟩
    · rename_i hx
      have hxs : xs.any p = true := by simpa [hx] using h
      obtain ⟨y, hy, hpy⟩ := ih hxs
      refine ⟨y, ?_, hpy⟩
      cases hq : takeThrough p xs with
      | nil => rw [hq] at hy; simp at hy
      | cons z zs => rw [hq] at hy; rw [List.getLast?_cons_cons]; exact hy

/-- closed description of one `GenericDriver.send_commands` call on a non-empty list: `n` lines are sent -/
structure Delivered (env : Env μ) (ret : Str) (o : Origin) (fwc : Fwc) (stop eager : Bool) (commands : List Str)
    (st : St μ) (r : Res μ) (n : Nat) : Prop where
  err : r.err = none
  pos : 1 ≤ n
  le : n ≤ commands.length
  /-- the state is exactly that of writing the first `n` lines, each once, in order -/
  state : r.st = sendLines env ret o (commands.take n) st
  /-- all lines, or with a stop the responses of the lines sent, the last line never eager -/
  resps_eq : r.resps = if n < commands.length then respsOf env fwc eager (commands.take n) st.mode
      else respsOf env fwc eager commands.dropLast st.mode ++
        (commands.getLast?.map (mkResp env fwc false (finalMode env commands.dropLast st.mode))).toList
  count : r.resps.length = n
  inputs : r.resps.map (·.input) = commands.take n
  /-- fewer lines than given only with stop_on_failed and a failed response at the end -/
  short : n < commands.length → stop = true ∧ ∃ x, r.resps.getLast? = some x ∧ x.failed = true
  /-- with stop_on_failed nothing before the last line sent had failed -/
  clean : stop = true → ∀ x ∈ r.resps.dropLast, x.failed = false
  flags : ∀ x ∈ r.resps, x.markers = respMarkers fwc ∧ x.failed = recordFailed (respMarkers fwc) x.result
  /-- how many: everything, or with stop_on_failed up to and including the first failed line before the last -/
  n_eq : n = if (stop && (respsOf env fwc eager commands.dropLast st.mode).any (·.failed)) = true
      then (takeThrough (·.failed) (respsOf env fwc eager commands.dropLast st.mode)).length else commands.length

theorem mkResp_flag (env : Env μ) (fwc : Fwc) (eager : Bool) (m : μ) (l : Str) :
    (mkResp env fwc eager m l).markers = respMarkers fwc ∧
    (mkResp env fwc eager m l).failed = recordFailed (respMarkers fwc) (mkResp env fwc eager m l).result := ⟨rfl, rfl⟩

/-- all lines sent (no stop, or nothing failed before the last line) -/
theorem delivered_all (env : Env μ) (ret : Str) (o : Origin) (fwc : Fwc) (stop eager : Bool) (init : List Str)
    (last : Str) (st : St μ) (hclean : stop = true → (respsOf env fwc eager init st.mode).any (·.failed) = false) :
    Delivered env ret o fwc stop eager (init ++ [last]) st
      ⟨(sendInput env ret o last (sendLines env ret o init st)).1,
       respsOf env fwc eager init st.mode ++ [mkResp env fwc false (finalMode env init st.mode) last], none⟩
      (init.length + 1) := by
  refine ⟨rfl, by omega, by simp, ?_, ?_, by simp [respsOf_length], ?_, ?_, ?_, ?_, ?_⟩
  · have : (init ++ [last]).take (init.length + 1) = init ++ [last] := List.take_of_length_le (by simp)
    rw [this, sendLines_append]; rfl
  · simp [List.dropLast_concat, List.getLast?_concat]
  · have : (init ++ [last]).take (init.length + 1) = init ++ [last] := List.take_of_length_le (by simp)
    rw [this]; simp [respsOf_inputs, mkResp]
  · intro h; simp at h
  · intro hs x hx
    rw [List.dropLast_concat] at hx
    have := hclean hs
    rw [List.any_eq_false] at this
    simpa using this x hx
  · intro x hx
    rcases List.mem_append.mp hx with h | h
    · exact respsOf_flag env fwc eager init st.mode x h
    · simp only [List.mem_singleton] at h; subst h; exact mkResp_flag ..
  · rw [List.dropLast_concat]
    cases stop with
    | false => simp
    | true => simp [hclean rfl]

theorem generic_spec (env : Env μ) (ret : Str) (o : Origin) (fwc : Fwc) (stop eager : Bool) (commands : List Str)
    (st : St μ) (hne : commands ≠ []) :
    ∃ n, Delivered env ret o fwc stop eager commands st (genericSendCommands env ret o fwc stop eager commands st) n := by
  rcases List.eq_nil_or_concat commands with h | ⟨init, last, h⟩
  · exact absurd h hne
  · rw [List.concat_eq_append] at h
    subst h
    cases stop with
    | false =>
      refine ⟨init.length + 1, ?_⟩
      have := delivered_all env ret o fwc false eager init last st (by simp)
      simpa [genericSendCommands, loop_nostop, List.dropLast_concat, List.getLast?_concat, sendCommand1_eq,
        sendLines_mode] using this
    | true =>
      by_cases hany : (respsOf env fwc eager init st.mode).any (·.failed) = true
      · -- stopped inside the loop
        let tt := takeThrough (·.failed) (respsOf env fwc eager init st.mode)
        have hk : tt.length ≤ init.length := by
          have := takeThrough_length_le (·.failed) (respsOf env fwc eager init st.mode)
          rwa [respsOf_length] at this
        have hinit : respsOf env fwc eager init st.mode ≠ [] := by
          intro h0; rw [h0] at hany; simp at hany
        have hpos : 0 < tt.length := takeThrough_length_pos _ _ hinit
        have htt : tt = respsOf env fwc eager (init.take tt.length) st.mode := by
          rw [respsOf_take]; exact takeThrough_eq_take _ _
        have htake : (init ++ [last]).take tt.length = init.take tt.length := List.take_append_of_le_length hk
        refine ⟨tt.length, ?_⟩
        have hres : genericSendCommands env ret o fwc true eager (init ++ [last]) st =
            ⟨sendLines env ret o (init.take tt.length) st, tt, none⟩ := by
          simp [genericSendCommands, loop_stop, List.dropLast_concat, hany, tt]
        rw [hres]
        refine ⟨rfl, hpos, by simp; omega, by rw [htake], ?_, rfl, ?_, ?_, ?_, ?_, ?_⟩
        · have hlt : tt.length < (init ++ [last]).length := by simp; omega
          simp only [hlt, if_true, htake]; exact htt
        · rw [htake]; show tt.map (·.input) = _; rw [htt, respsOf_inputs]
          congr 1; rw [← htt]
        · intro _; exact ⟨rfl, takeThrough_last_of_any _ _ hany⟩
        · intro _; exact takeThrough_dropLast _ _
        · intro x hx
          have : x ∈ respsOf env fwc eager init st.mode := by
            have h1 := takeThrough_eq_take (·.failed) (respsOf env fwc eager init st.mode)
            have hx' : x ∈ tt := hx
            rw [show tt = _ from h1] at hx'
            exact List.mem_of_mem_take hx'
          exact respsOf_flag env fwc eager init st.mode x this
        · rw [List.dropLast_concat]; simp [hany, tt]
      · have hany' : (respsOf env fwc eager init st.mode).any (·.failed) = false := by simpa using hany
        refine ⟨init.length + 1, ?_⟩
        have := delivered_all env ret o fwc true eager init last st (fun _ => hany')
        have hnone := takeThrough_none (fun r : Resp => r.failed) _ hany'
        simpa [genericSendCommands, loop_stop, List.dropLast_concat, List.getLast?_concat, sendCommand1_eq,
          sendLines_mode, hany', hnone, respsOf_length] using this

/-- `st'` extends `st` by the executed lines `es`: device log and wire move in step -/
def Ext (ret : Str) (st st' : St μ) (es : List (Entry μ)) : Prop :=
  st'.log = st.log ++ es ∧ st'.writes.flatten = st.writes.flatten ++ wireOf ret es

theorem Ext.refl (ret : Str) (st : St μ) : Ext ret st st [] := by simp [Ext, wireOf]

theorem Ext.trans {ret : Str} {a b c : St μ} {x y : List (Entry μ)} (h1 : Ext ret a b x) (h2 : Ext ret b c y) :
    Ext ret a c (x ++ y) := by
  refine ⟨?_, ?_⟩
  · rw [h2.1, h1.1, List.append_assoc]
  · rw [h2.2, h1.2, wireOf_append, List.append_assoc]

theorem Ext.sendLines (env : Env μ) (ret : Str) (o : Origin) (ls : List Str) (st : St μ) :
    Ext ret st (sendLines env ret o ls st) (entries env o ls st.mode) :=
  ⟨sendLines_log .., sendLines_wire ..⟩

theorem Ext.with_belief {ret : Str} {a b : St μ} {x : List (Entry μ)} (h : Ext ret a b x) (n : Str) :
    Ext ret a { b with belief := n } x := h

/-- `acquire_priv` only ever adds navigation entries; on success the belief is the target -/
theorem acquirePriv_spec (env : Env μ) (cfg : Cfg) (tgt : Str) (st : St μ) :
    ∃ navs, Ext cfg.ret st (acquirePriv env cfg tgt st).1 navs ∧ (∀ e ∈ navs, e.origin = .nav) ∧
      ((acquirePriv env cfg tgt st).2 = none → (acquirePriv env cfg tgt st).1.belief = tgt ∧
        (acquirePriv env cfg tgt st).1.mode = finalMode env (env.nav tgt st.belief st.mode).1 st.mode) := by
  unfold acquirePriv
  by_cases hl : hasLevel cfg tgt = true
  · simp only [hl, Bool.not_true, Bool.false_eq_true, if_false]
    refine ⟨entries env .nav (env.nav tgt st.belief st.mode).1 st.mode, ?_, entries_origin env .nav _ _, ?_⟩
    · split
      · exact (Ext.sendLines ..).with_belief _
      · exact (Ext.sendLines ..).with_belief _
    · split
      · intro _; exact ⟨rfl, sendLines_mode ..⟩
      · intro h; simp at h
  · simp only [hl, Bool.not_false, if_true]
    exact ⟨[], Ext.refl .., by simp, by simp⟩

theorem acquireIfNeeded_spec (env : Env μ) (cfg : Cfg) (tgt : Str) (st : St μ) :
    ∃ navs, Ext cfg.ret st (acquireIfNeeded env cfg tgt st).1 navs ∧ (∀ e ∈ navs, e.origin = .nav) ∧
      ((acquireIfNeeded env cfg tgt st).2 = none → (acquireIfNeeded env cfg tgt st).1.belief = tgt) ∧
      (st.belief = tgt → navs = [] ∧ (acquireIfNeeded env cfg tgt st) = (st, none)) := by
  unfold acquireIfNeeded
  by_cases hb : st.belief = tgt
  · have : (st.belief != tgt) = false := by simp [hb]
    simp only [this, Bool.false_eq_true, if_false]
    exact ⟨[], Ext.refl .., by simp, fun _ => hb, by simp⟩
  · have : (st.belief != tgt) = true := by simp [hb]
    simp only [this, if_true]
    obtain ⟨navs, h1, h2, h3⟩ := acquirePriv_spec env cfg tgt st
    exact ⟨navs, h1, h2, fun h => (h3 h).1, fun h => absurd h hb⟩

/-- the state after `GenericDriver.send_commands` is that of writing a prefix of the list (any list) -/
theorem generic_state (env : Env μ) (ret : Str) (o : Origin) (fwc : Fwc) (stop eager : Bool) (commands : List Str)
    (st : St μ) : ∃ k, (genericSendCommands env ret o fwc stop eager commands st).st =
      sendLines env ret o (commands.take k) st := by
  by_cases hne : commands = []
  · subst hne; exact ⟨0, by simp [genericSendCommands, loop, sendLines]⟩
  · obtain ⟨n, hd⟩ := generic_spec env ret o fwc stop eager commands st hne
    exact ⟨n, hd.state⟩

/-- the target level `send_configs` resolves `privilege_level` to -/
def configsTarget (priv : Str) : Str := if priv.isEmpty then Gen.Send.configsDefaultLevel else priv

theorem sendConfigsCore_eq (env : Env μ) (cfg : Cfg) (o : Origin) (fwc : Fwc) (stop : Bool) (priv : Str) (eager : Bool)
    (configs : List Str) (st : St μ) (hg : cfg.genericMode = false) (hv : (!priv.isEmpty && !hasLevel cfg priv) = false) :
    sendConfigsCore env cfg o fwc stop priv eager configs st =
      match (acquireIfNeeded env cfg (configsTarget priv) st).2 with
      | some e => ⟨(acquireIfNeeded env cfg (configsTarget priv) st).1, [], some e⟩
      | none => genericSendCommands env cfg.ret o (preConfigsFwc cfg.defaultMarkers fwc) stop eager configs
          (acquireIfNeeded env cfg (configsTarget priv) st).1 := by
  unfold sendConfigsCore configsTarget
  simp only [hg, hv, Bool.false_eq_true, if_false]
  split <;> rename_i h <;> rw [h]

/-- closed description of `send_configs` up to the abort step -/
theorem core_spec (env : Env μ) (cfg : Cfg) (o : Origin) (fwc : Fwc) (stop : Bool) (priv : Str) (eager : Bool)
    (configs : List Str) (st : St μ) (hne : configs ≠ []) :
    ∃ navs, (∀ e ∈ navs, e.origin = .nav) ∧ (st.belief = configsTarget priv → navs = []) ∧
      (((sendConfigsCore env cfg o fwc stop priv eager configs st).err ≠ none ∧
          (sendConfigsCore env cfg o fwc stop priv eager configs st).resps = [] ∧
          Ext cfg.ret st (sendConfigsCore env cfg o fwc stop priv eager configs st).st navs) ∨
       (∃ st1 n, Ext cfg.ret st st1 navs ∧ st1.belief = configsTarget priv ∧
          (st.belief = configsTarget priv → st1 = st) ∧
          Delivered env cfg.ret o (preConfigsFwc cfg.defaultMarkers fwc) stop eager configs st1
            (sendConfigsCore env cfg o fwc stop priv eager configs st) n)) := by
  by_cases hg : cfg.genericMode = true
  · have : sendConfigsCore env cfg o fwc stop priv eager configs st = ⟨st, [], some .priv⟩ := by
      simp [sendConfigsCore, hg]
    rw [this]
    exact ⟨[], by simp, fun _ => rfl, Or.inl ⟨by simp, rfl, Ext.refl ..⟩⟩
  · have hg' : cfg.genericMode = false := by simpa using hg
    by_cases hv : (!priv.isEmpty && !hasLevel cfg priv) = true
    · have : sendConfigsCore env cfg o fwc stop priv eager configs st = ⟨st, [], some .priv⟩ := by
        simp only [sendConfigsCore, hg', hv, Bool.false_eq_true, if_false, if_true]
      rw [this]
      exact ⟨[], by simp, fun _ => rfl, Or.inl ⟨by simp, rfl, Ext.refl ..⟩⟩
    · have hv' : (!priv.isEmpty && !hasLevel cfg priv) = false := by simpa using hv
      rw [sendConfigsCore_eq env cfg o fwc stop priv eager configs st hg' hv']
      obtain ⟨navs, h1, h2, h3, h4⟩ := acquireIfNeeded_spec env cfg (configsTarget priv) st
      refine ⟨navs, h2, fun hb => (h4 hb).1, ?_⟩
      cases he : (acquireIfNeeded env cfg (configsTarget priv) st).2 with
      | some e =>
        left
        exact ⟨by simp, rfl, h1⟩
      | none =>
        right
        obtain ⟨n, hd⟩ := generic_spec env cfg.ret o (preConfigsFwc cfg.defaultMarkers fwc) stop eager configs
          (acquireIfNeeded env cfg (configsTarget priv) st).1 hne
        exact ⟨_, n, h1, h3 he, fun hb => by rw [(h4 hb).2], hd⟩

/-- `send_configs` up to the abort step, any list (also the empty one): navigation entries, then a prefix -/
theorem core_ext (env : Env μ) (cfg : Cfg) (o : Origin) (fwc : Fwc) (stop : Bool) (priv : Str) (eager : Bool)
    (configs : List Str) (st : St μ) :
    ∃ es, Ext cfg.ret st (sendConfigsCore env cfg o fwc stop priv eager configs st).st es ∧
      ∀ e ∈ es, e.origin = .nav ∨ e.origin = o := by
  by_cases hg : cfg.genericMode = true
  · have : sendConfigsCore env cfg o fwc stop priv eager configs st = ⟨st, [], some .priv⟩ := by
      simp [sendConfigsCore, hg]
    rw [this]; exact ⟨[], Ext.refl .., by simp⟩
  · have hg' : cfg.genericMode = false := by simpa using hg
    by_cases hv : (!priv.isEmpty && !hasLevel cfg priv) = true
    · have : sendConfigsCore env cfg o fwc stop priv eager configs st = ⟨st, [], some .priv⟩ := by
        simp only [sendConfigsCore, hg', hv, Bool.false_eq_true, if_false, if_true]
      rw [this]; exact ⟨[], Ext.refl .., by simp⟩
    · have hv' : (!priv.isEmpty && !hasLevel cfg priv) = false := by simpa using hv
      rw [sendConfigsCore_eq env cfg o fwc stop priv eager configs st hg' hv']
      obtain ⟨navs, h1, h2, _, _⟩ := acquireIfNeeded_spec env cfg (configsTarget priv) st
      cases he : (acquireIfNeeded env cfg (configsTarget priv) st).2 with
      | some e => exact ⟨navs, h1, fun e he => Or.inl (h2 e he)⟩
      | none =>
        obtain ⟨k, hk⟩ := generic_state env cfg.ret o (preConfigsFwc cfg.defaultMarkers fwc) stop eager configs
          (acquireIfNeeded env cfg (configsTarget priv) st).1
        refine ⟨navs ++ entries env o (configs.take k) (acquireIfNeeded env cfg (configsTarget priv) st).1.mode, ?_, ?_⟩
        · show Ext cfg.ret st (genericSendCommands _ _ _ _ _ _ _ _).st _
          rw [hk]; exact h1.trans (Ext.sendLines ..)
        · intro e he
          rcases List.mem_append.mp he with h | h
          · exact Or.inl (h2 e h)
          · exact Or.inr (entries_origin env o _ _ e h)

/-- the inner `send_configs` of an abort plan targets the level the driver is at -/
def keepsLevel (plan : AbortPlan) (belief : Str) : Bool :=
  match plan with
  | .viaSendConfigs _ lvl _ => configsTarget (abortLevel belief lvl) == belief
  | _ => true

/-- the guard of a direct abort plan: `<marker> in self._current_priv_level.pattern` -/
def guardOk (cfg : Cfg) (belief : Str) : Option Str → Bool
  | none => true
  | some m => isInfix m (levelPattern cfg belief)

/-- the lines `_abort_config` issues when the driver is at level `belief` -/
def abortCmds (cfg : Cfg) (belief : Str) : List Str :=
  match cfg.abort with
  | .nothing => []
  | .direct guard cmds _ => if guardOk cfg belief guard = true then cmds else []
  | .viaSendConfigs cmds _ _ => cmds

theorem abortConfig_direct (env : Env μ) (cfg : Cfg) (st : St μ) (g : Option Str) (cmds : List Str) (b : Str)
    (h : cfg.abort = .direct g cmds b) :
    abortConfig env cfg st = if guardOk cfg st.belief g = true
      then ({ sendLines env cfg.ret .abort cmds st with belief := b }, none) else (st, none) := by
  unfold abortConfig; rw [h]; cases g <;> rfl

/-- `_abort_config` never adds a user entry -/
theorem abortConfig_spec (env : Env μ) (cfg : Cfg) (st : St μ) :
    ∃ es, Ext cfg.ret st (abortConfig env cfg st).1 es ∧ ∀ e ∈ es, e.origin ≠ .user := by
  cases hp : cfg.abort with
  | nothing => unfold abortConfig; rw [hp]; exact ⟨[], Ext.refl .., by simp⟩
  | direct guard cmds belief =>
    rw [abortConfig_direct env cfg st guard cmds belief hp]
    by_cases h : guardOk cfg st.belief guard = true
    · rw [if_pos h]
      refine ⟨entries env .abort cmds st.mode, (Ext.sendLines ..).with_belief _, ?_⟩
      intro e he; rw [entries_origin env .abort _ _ e he]; simp
    · rw [if_neg h]; exact ⟨[], Ext.refl .., by simp⟩
  | viaSendConfigs cmds level belief =>
    unfold abortConfig; rw [hp]
    simp only
    obtain ⟨es, h1, h2⟩ := core_ext env cfg .abort .none Gen.Send.stopOnFailedDefault (abortLevel st.belief level)
      Gen.Send.eagerDefault cmds st
    have hnu : ∀ e ∈ es, e.origin ≠ .user := by
      intro e he; rcases h2 e he with h | h <;> rw [h] <;> simp
    split
    · exact ⟨es, h1, hnu⟩
    · exact ⟨es, h1.with_belief _, hnu⟩

/-- when the plan acts in place (directly, or through an inner `send_configs` aimed at the current level) the
    abort lines are the only thing written, starting in the device's current mode -/
theorem abortConfig_in_place (env : Env μ) (cfg : Cfg) (st : St μ) (hkeep : keepsLevel cfg.abort st.belief = true)
    (hg : cfg.genericMode = false) (hlevel : hasLevel cfg st.belief = true)
    (hcmds : ∀ cmds lvl b, cfg.abort = .viaSendConfigs cmds lvl b → cmds ≠ []) :
    (abortConfig env cfg st).2 = none ∧
    Ext cfg.ret st (abortConfig env cfg st).1 (entries env .abort (abortCmds cfg st.belief) st.mode) := by
  unfold abortCmds
  cases hp : cfg.abort with
  | nothing => unfold abortConfig; rw [hp]; exact ⟨rfl, Ext.refl ..⟩
  | direct guard cmds belief =>
    rw [abortConfig_direct env cfg st guard cmds belief hp]
    simp only
    by_cases h : guardOk cfg st.belief guard = true
    · rw [if_pos h, if_pos h]; exact ⟨rfl, (Ext.sendLines ..).with_belief _⟩
    · rw [if_neg h, if_neg h]; exact ⟨rfl, Ext.refl ..⟩
  | viaSendConfigs cmds level belief =>
    unfold abortConfig; rw [hp]
    simp only
    have hne := hcmds cmds level belief hp
    have htgt : configsTarget (abortLevel st.belief level) = st.belief := by
      simpa [keepsLevel, hp] using hkeep
    have hv : (!(abortLevel st.belief level).isEmpty && !hasLevel cfg (abortLevel st.belief level)) = false := by
      by_cases he : (abortLevel st.belief level).isEmpty = true
      · simp [he]
      · have : abortLevel st.belief level = st.belief := by
          have := htgt; unfold configsTarget at this; rwa [if_neg he] at this
        rw [this, hlevel]; simp
    have hstop : Gen.Send.stopOnFailedDefault = false := by decide
    obtain ⟨navs, _, hnav0, hcase⟩ := core_spec env cfg .abort .none Gen.Send.stopOnFailedDefault
      (abortLevel st.belief level) Gen.Send.eagerDefault cmds st hne
    have hnil := hnav0 htgt.symm
    rcases hcase with ⟨herr, _, _⟩ | ⟨st1, n, _, _, hst1, hd⟩
    · -- the inner call cannot fail before sending: prechecks pass and no navigation is needed
      exfalso
      rw [sendConfigsCore_eq env cfg .abort .none _ _ _ cmds st hg hv] at herr
      obtain ⟨_, _, _, _, h4⟩ := acquireIfNeeded_spec env cfg (configsTarget (abortLevel st.belief level)) st
      rw [(h4 htgt.symm).2] at herr
      obtain ⟨n, hd⟩ := generic_spec env cfg.ret .abort (preConfigsFwc cfg.defaultMarkers .none)
        Gen.Send.stopOnFailedDefault Gen.Send.eagerDefault cmds st hne
      exact herr hd.err
    · have hst := hst1 htgt.symm
      subst hst
      have hn : n = cmds.length := by
        rcases Nat.lt_or_ge n cmds.length with hlt | hge
        · have := (hd.short hlt).1; rw [hstop] at this; simp at this
        · exact Nat.le_antisymm hd.le hge
      rw [hd.err]
      refine ⟨rfl, ?_⟩
      have : (sendConfigsCore env cfg .abort .none Gen.Send.stopOnFailedDefault (abortLevel st1.belief level)
          Gen.Send.eagerDefault cmds st1).st = sendLines env cfg.ret .abort cmds st1 := by
        rw [hd.state, hn, List.take_length]
      simp only [this]
      exact (Ext.sendLines ..).with_belief _

/-- every entry runs in the starting mode when no line but possibly the last changes it -/
theorem entries_mode_const (env : Env μ) (o : Origin) (ls : List Str) (m : μ) (h : ∀ l ∈ ls.dropLast, env.next m l = m) :
    ∀ e ∈ entries env o ls m, e.mode = m := by
  induction ls with
  | nil => simp [entries]
  | cons l rest ih =>
    intro e he
    rcases List.mem_cons.mp he with h1 | h1
    · subst h1; rfl
    · cases rest with
      | nil => simp [entries] at h1
      | cons l2 rest2 =>
        have hl : env.next m l = m := h l (by simp [List.dropLast])
        rw [hl] at h1
        refine ih ?_ e h1
        intro x hx
        exact h x (by rw [List.dropLast_cons_of_ne_nil (by simp)]; exact List.mem_cons_of_mem _ hx)

/-! ## the wire parses back (device line discipline) -/

theorem byte_of_encodeChar (c : Char) (b : UInt8) (hb : b ∈ String.utf8EncodeChar c) (hlt : b.toNat < 128) :
    c.val.toNat = b.toNat := by
  unfold String.utf8EncodeChar at hb
  simp only at hb
  split at hb
  · simp only [List.mem_singleton] at hb
    subst hb
    rw [UInt8.toNat_ofNat']; omega
  · exfalso
    split at hb
    · simp only [List.mem_cons, List.not_mem_nil, or_false] at hb
      rcases hb with h | h <;> (subst h; rw [UInt8.toNat_ofNat'] at hlt; omega)
    · split at hb
      · simp only [List.mem_cons, List.not_mem_nil, or_false] at hb
        rcases hb with h | h | h <;> (subst h; rw [UInt8.toNat_ofNat'] at hlt; omega)
      · simp only [List.mem_cons, List.not_mem_nil, or_false] at hb
        rcases hb with h | h | h | h <;> (subst h; rw [UInt8.toNat_ofNat'] at hlt; omega)

theorem char_of_val (c : Char) (n : Nat) (h : c.val.toNat = n) (hn : n < 128) : c = Char.ofNat n := by
  apply Char.ext
  apply UInt32.toNat_inj.mp
  rw [h]
  have : (Char.ofNat n).val.toNat = n := by
    have hv : n.isValidChar := Or.inl (by omega)
    simp [Char.ofNat, hv, Char.ofNatAux]
  rw [this]

/-- a line without `\n` / `\r` characters has no 0x0A / 0x0D byte in its UTF-8 encoding -/
theorem encode_clean (l : Str) (h : ∀ c ∈ l, c ≠ '\n' ∧ c ≠ '\r') : (10 : UInt8) ∉ encode l ∧ (13 : UInt8) ∉ encode l := by
  constructor
  · intro hm
    obtain ⟨c, hc, hb⟩ := List.mem_flatMap.mp hm
    have := char_of_val c 10 (byte_of_encodeChar c 10 hb (by decide)) (by decide)
    exact (h c hc).1 this
  · intro hm
    obtain ⟨c, hc, hb⟩ := List.mem_flatMap.mp hm
    have := char_of_val c 13 (byte_of_encodeChar c 13 hb (by decide)) (by decide)
    exact (h c hc).2 this

theorem devStep_clean (l buf : Bytes) (log : List Bytes) (h10 : (10 : UInt8) ∉ l) (h13 : (13 : UInt8) ∉ l) :
    l.foldl devStep (buf, log) = (buf ++ l, log) := by
  induction l generalizing buf with
  | nil => simp
  | cons b bs ih =>
    have hb10 : (b == 10) = false := by
      have : b ≠ 10 := fun h => h10 (by simp [h])
      simpa using this
    have hb13 : (b == 13) = false := by
      have : b ≠ 13 := fun h => h13 (by simp [h])
      simpa using this
    simp only [List.foldl_cons, devStep, hb10, hb13, Bool.false_eq_true, if_false]
    rw [ih _ (fun h => h10 (by simp [h])) (fun h => h13 (by simp [h]))]
    simp

/-- the device executes exactly the logged lines: parsing the wire bytes of a list of entries with the
    simulated device's line discipline gives back their lines, each once, in order -/
theorem devLines_wire (ret : Str) (hret : encode ret = [10] ∨ encode ret = [13, 10]) (es : List (Entry μ))
    (hclean : ∀ e ∈ es, ∀ c ∈ e.line, c ≠ '\n' ∧ c ≠ '\r') (log : List Bytes) :
    (wireOf ret es).foldl devStep ([], log) = ([], log ++ es.map (fun e => encode e.line)) := by
  induction es generalizing log with
  | nil => simp [wireOf]
  | cons e es ih =>
    have hc := encode_clean e.line (hclean e (by simp))
    have hstep : (encode e.line ++ encode ret).foldl devStep ([], log) = ([], log ++ [encode e.line]) := by
      rw [List.foldl_append, devStep_clean _ _ _ hc.1 hc.2]
      rcases hret with h | h <;> rw [h] <;> simp [devStep]
    have : wireOf ret (e :: es) = (encode e.line ++ encode ret) ++ wireOf ret es := by simp [wireOf]
    rw [this, List.foldl_append, hstep, ih (fun x hx => hclean x (by simp [hx]))]
    simp

end Scrapli.Send
