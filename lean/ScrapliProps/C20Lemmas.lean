import ScrapliModel.Log
/-
  C20 — specification of "the log file / channel log record the session faithfully" and the helper
  lemmas for ScrapliProps/C20.lean.

  The specification is written without reference to the handler's state machine:
  * `coalesce` cuts the record sequence into maximal runs of read records (takeWhile / dropWhile),
  * `specFormat` is the closed form of one log line (column widths and truncation limits written
    here by hand — 5 / 8 / 25 / 20 / 20 / 5, 25→22+"...", 20→17+"..." — so that the theorems tie the
    constants generated from the source to them),
  * `specFile` numbers the entries from 1 and puts the header row in front of the first.
-/
namespace Scrapli.Log
open Scrapli Scrapli.Gen.Log

/-! ## Specification -/

/-- the text of a record (for records whose own formatting succeeds) -/
def message (r : Rec) : Str :=
  match getMessage r with
  | .ok m => m
  | .error _ => []

/-- the record can be rendered: `msg % args` succeeds -/
def Rec.wf (r : Rec) : Prop := ∃ m, getMessage r = .ok m

/-- the payload of a read message: its text after "read: " -/
def payloadText (r : Rec) : Str := (message r).drop 6

inductive Content where
  | plain (text : Str)        -- one message, as rendered
  | reads (payload : Str)     -- a maximal run of read messages; concatenation of their payloads
deriving Repr, DecidableEq

/-- one line of the log file: the record that supplies the columns and what is said -/
structure Entry where
  src : Rec
  content : Content
deriving Repr, DecidableEq

/-- what the file shows for an entry: a coalesced run is shown as `read : ` + repr of the UTF-8
    bytes of the concatenated payloads -/
def Entry.text (e : Entry) : Str :=
  match e.content with
  | .plain t => t
  | .reads p => ['r', 'e', 'a', 'd', ' ', ':', ' '] ++ reprBytes (encode p)

/-- maximal runs of read records become ONE entry (columns of the first record of the run) -/
def coalesce : List Rec → List Entry
  | [] => []
  | r :: rs =>
    if isRead r then
      ⟨r, .reads ((r :: rs.takeWhile isRead).flatMap payloadText)⟩ :: coalesce (rs.dropWhile isRead)
    else ⟨r, .plain (message r)⟩ :: coalesce rs
termination_by l => l.length
decreasing_by
  · have := (List.dropWhile_sublist isRead : List.Sublist (rs.dropWhile isRead) rs).length_le
    simp only [List.length_cons]; omega
  · simp

/-- the entries the file must show: with buffering off every record is its own entry -/
def specEntries (buffered : Bool) (recs : List Rec) : List Entry :=
  if buffered then coalesce recs else recs.map fun r => ⟨r, .plain (message r)⟩

/-- the "(UID:)HOST:PORT" column, for every subset of the three attributes -/
def specTarget (r : Rec) : Str :=
  let uid := match r.uid with
    | some u => u ++ [':']
    | none => []
  let hp := match r.host, r.port with
    | none, _ => []
    | some h, none => h
    | some h, some p => h ++ [':'] ++ p
  let t := uid ++ hp
  if t.length ≤ 25 then t else t.take 22 ++ ['.', '.', '.']

def cut20 (s : Str) : Str := if s.length ≤ 20 then s else s.take 17 ++ ['.', '.', '.']

def col (w : Nat) (s : Str) : Str := s ++ List.replicate (w - s.length) ' '

def sep : Str := [' ', '|', ' ']

/-- one row of the file: left aligned columns joined by " | " -/
def specRow (caller : Bool) (id asctime level target module func lineno message : Str) : Str :=
  col 5 id ++ sep ++ asctime ++ sep ++ col 8 level ++ sep ++ col 25 target ++ sep ++
  (if caller then col 20 module ++ sep ++ col 20 func ++ sep ++ col 5 lineno ++ sep else []) ++ message

/-- what is written for the `id`-th entry: the row, preceded by the header row for the first -/
def specFormat (cfg : FmtCfg) (id : Nat) (r : Rec) (message : Str) : Str :=
  let tgt := specTarget r
  let row := specRow cfg.callerInfo (natStr id) r.asctime r.levelname tgt (cut20 r.module) (cut20 r.funcName)
    (natStr r.lineno) message
  if id = 1 ∧ cfg.logHeader = true then
    specRow cfg.callerInfo hdrMessageId hdrAsctime hdrLevelname (col tgt.length hdrTarget) hdrModule hdrFuncName
      hdrLineno hdrMessage ++ ['\n'] ++ row
  else row

/-- the lines for a list of entries, numbered from `id` -/
def specLines (cfg : FmtCfg) : Nat → List Entry → List Str
  | _, [] => []
  | id, e :: es => specFormat cfg id e.src e.text :: specLines cfg (id + 1) es

/-- the text a whole handler life adds to the file -/
def specFile (cfg : FmtCfg) (buffered : Bool) (recs : List Rec) : Str :=
  (specLines cfg 1 (specEntries buffered recs)).flatMap (· ++ ['\n'])

/-- what the variant `v` needs from a record for the handler to treat it correctly
    (`Variant.fixed` needs only that the record itself can be rendered) -/
def RecOK (v : Variant) (r : Rec) : Prop :=
  r.wf ∧ (v.portDefault = true ∨ (r.host.isSome = true → r.port.isSome = true)) ∧
  (v.lazyAware = true ∨ (isRead r = true → r.args = [])) ∧ v.asciiStream = false

/-! atoms: the flat sequence of things a record sequence says, used to state that coalescing loses
    and reorders nothing -/
def recAtoms (r : Rec) : List (Str ⊕ Char) :=
  if isRead r then (payloadText r).map Sum.inr else [Sum.inl (message r)]

def entryAtoms (e : Entry) : List (Str ⊕ Char) :=
  match e.content with
  | .plain t => [Sum.inl t]
  | .reads p => p.map Sum.inr

def Entry.isReads (e : Entry) : Bool :=
  match e.content with
  | .reads _ => true
  | .plain _ => false

/-- no two neighbouring entries are both coalesced runs -/
def noAdjacentReads : List Entry → Bool
  | a :: b :: t => !(a.isReads && b.isReads) && noAdjacentReads (b :: t)
  | _ => true

/-! ## CPython helpers -/

theorem encode_append (a b : Str) : encode (a ++ b) = encode a ++ encode b := by
  simp [encode]

/-- a literal prefix without `%` passes through the `%`-operator unchanged -/
theorem pyFormat_prefix (p t : Str) (as : List Arg) (hp : ∀ c ∈ p, c ≠ '%') :
    pyFormat (p ++ t) as = (pyFormat t as).map (p ++ ·) := by
  induction p with
  | nil => simp only [List.nil_append]; cases pyFormat t as <;> rfl
  | cons c p ih =>
    have hc : c ≠ '%' := hp c (by simp)
    have ih' := ih (fun d hd => hp d (by simp [hd]))
    rw [List.cons_append, pyFormat.eq_def]
    simp only [bne_iff_ne, ne_eq, hc, not_false_eq_true, ↓reduceIte, ih']
    cases pyFormat t as <;> rfl

theorem truncate_eq (limit keep : Nat) (s : Str) :
    truncate limit keep s = if s.length ≤ limit then s else s.take keep ++ ellipsis := by
  unfold truncate
  split
  · rw [List.take_of_length_le (by assumption)]
  · rfl

/-! ## Formatter -/

theorem layout_plain (v : View) :
    renderPieces fmtPlain v =
      specRow false v.messageId v.asctime v.levelname v.target v.module v.funcName v.lineno v.message := by
  simp [renderPieces, fmtPlain, specRow, col, pad, sep, View.get]

theorem layout_caller (v : View) :
    renderPieces fmtCaller v =
      specRow true v.messageId v.asctime v.levelname v.target v.module v.funcName v.lineno v.message := by
  simp [renderPieces, fmtCaller, specRow, col, pad, sep, View.get]

theorem layout (cfg : FmtCfg) (v : View) :
    renderPieces (logFormat cfg) v =
      specRow cfg.callerInfo v.messageId v.asctime v.levelname v.target v.module v.funcName v.lineno v.message := by
  unfold logFormat
  cases h : cfg.callerInfo
  · simpa using layout_plain v
  · simpa using layout_caller v

/-- when the format has no caller columns the row does not depend on them -/
theorem specRow_false (id a l t m f n msg m' f' n' : Str) :
    specRow false id a l t m f n msg = specRow false id a l t m' f' n' msg := by
  simp [specRow]

/-- the model's target computation is the specified column whenever it does not raise -/
theorem formatMessage_spec (v : Variant) (cfg : FmtCfg) (id : Nat) (r : Rec) (m : Str)
    (h : v.portDefault = true ∨ (r.host.isSome = true → r.port.isSome = true)) :
    formatMessage v cfg id r m = .ok (specFormat cfg id r m) := by
  have htr : ∀ s : Str, truncate targetLimit targetKeep s
      = if s.length ≤ 25 then s else s.take 22 ++ ['.', '.', '.'] := by
    intro s; rw [truncate_eq]; rfl
  have hc : ∀ s : Str, truncate callerLimit callerKeep s = cut20 s := by
    intro s; rw [truncate_eq]; rfl
  unfold formatMessage specFormat specTarget
  cases hh : r.host with
  | none =>
    cases hcal : cfg.callerInfo <;> cases hu : r.uid <;>
      simp [layout, htr, hc, hcal, firstMessageId, pad, col, pure, Except.pure, bind, Except.bind, specRow] <;>
      split <;> simp_all
  | some hv =>
    cases hp : r.port with
    | none =>
      have hpd : v.portDefault = true := by
        rcases h with h | h
        · exact h
        · simp [hh, hp] at h
      cases hcal : cfg.callerInfo <;> cases hu : r.uid <;>
        simp [layout, htr, hc, hcal, hpd, attr, firstMessageId, pad, col, pure, Except.pure, bind, Except.bind, specRow] <;>
        split <;> simp_all
    | some pv =>
      cases hcal : cfg.callerInfo <;> cases hu : r.uid <;>
        simp [layout, htr, hc, hcal, attr, firstMessageId, pad, col, pure, Except.pure, bind, Except.bind, specRow] <;>
        split <;> simp_all

/-- the line does not depend on the template / args of the record that supplies the columns -/
theorem specFormat_congr (cfg : FmtCfg) (id : Nat) (r : Rec) (msg : Str) (args : List Arg) (m : Str) :
    specFormat cfg id { r with msg := msg, args := args } m = specFormat cfg id r m := rfl

/-! ## Handler -/

theorem getMessage_message {r : Rec} (h : r.wf) : getMessage r = .ok (message r) := by
  obtain ⟨m, hm⟩ := h
  simp [message, hm]

theorem format_spec (v : Variant) (cfg : FmtCfg) (id : Nat) (r : Rec) (hwf : r.wf)
    (hp : v.portDefault = true ∨ (r.host.isSome = true → r.port.isSome = true)) :
    format v cfg id r = .ok (specFormat cfg id r (message r)) := by
  unfold format
  rw [getMessage_message hwf]
  exact formatMessage_spec v cfg id r _ hp

theorem baseEmit_ok (v : Variant) (cfg : FmtCfg) (h : HSt) (r : Rec) (hwf : r.wf)
    (hp : v.portDefault = true ∨ (r.host.isSome = true → r.port.isSome = true)) (hasc : v.asciiStream = false) :
    baseEmit v cfg h r =
      { h with nextId := h.nextId + 1, out := h.out ++ [.line (specFormat cfg h.nextId r (message r))] } := by
  unfold baseEmit
  rw [format_spec v cfg _ r hwf hp]
  simp [hasc]

theorem emitBuffered_ok (v : Variant) (cfg : FmtCfg) (h : HSt) (b : Rec) (hb : h.buf = some b)
    (hargs : v.lazyAware = true ∨ b.args = [])
    (hp : v.portDefault = true ∨ (b.host.isSome = true → b.port.isSome = true)) (hasc : v.asciiStream = false) :
    emitBuffered v cfg h =
      { buf := none, msgBuf := [], nextId := h.nextId + 1,
        out := h.out ++ [.line (specFormat cfg h.nextId b (bufferedHead ++ reprBytes h.msgBuf))] } := by
  unfold emitBuffered
  rw [hb]
  have hargs' : (if v.lazyAware = true then ([] : List Arg) else b.args) = [] := by
    rcases hargs with h1 | h1 <;> simp [h1]
  simp only [hargs']
  have hwf : Rec.wf { b with msg := bufferedHead ++ reprBytes h.msgBuf, args := [] } :=
    ⟨bufferedHead ++ reprBytes h.msgBuf, by simp [getMessage]⟩
  rw [baseEmit_ok v cfg h _ hwf hp hasc]
  have hm : message { b with msg := bufferedHead ++ reprBytes h.msgBuf, args := [] }
      = bufferedHead ++ reprBytes h.msgBuf := by simp [message, getMessage]
  rw [hm, specFormat_congr]

theorem payload_ok (v : Variant) (r : Rec) (hok : RecOK v r) (hr : isRead r = true) :
    payload v r = .ok (encode (payloadText r)) := by
  obtain ⟨hwf, _, hl, _⟩ := hok
  unfold payload payloadText
  have h6 : readPrefix.length = 6 := rfl
  cases hv : v.lazyAware
  · have hargs : r.args = [] := by
      rcases hl with h1 | h1
      · simp [hv] at h1
      · exact h1 hr
    have : message r = r.msg := by simp [message, getMessage, hargs]
    simp [this, h6]
  · simp [getMessage_message hwf, h6, Except.map]

/-- a run of read records only grows the payload buffer -/
theorem foldl_emit_run (v : Variant) (cfg : FmtCfg) (run : List Rec)
    (hrun : ∀ r ∈ run, isRead r = true ∧ RecOK v r) (h : HSt) (b : Rec) (hb : h.buf = some b) :
    run.foldl (emit v cfg) h = { h with msgBuf := h.msgBuf ++ encode (run.flatMap payloadText) } := by
  induction run generalizing h with
  | nil => simp [encode]
  | cons r run ih =>
    obtain ⟨hr, hok⟩ := hrun r (by simp)
    have hstep : emit v cfg h r = { h with msgBuf := h.msgBuf ++ encode (payloadText r) } := by
      unfold emit
      simp [hr, payload_ok v r hok hr, hb]
    rw [List.foldl_cons, hstep,
      ih (fun x hx => hrun x (by simp [hx])) { h with msgBuf := h.msgBuf ++ encode (payloadText r) } hb]
    simp [encode_append, List.append_assoc]

/-- the state in which a run of read records starting with `r` is pending -/
def pending (h : HSt) (r : Rec) (p : Bytes) : HSt := { h with buf := some r, msgBuf := p }

/-- the observable of a handler life continued from state `h` -/
def runFrom (v : Variant) (cfg : FmtCfg) (h : HSt) (recs : List Rec) : List Ev :=
  (close v cfg (recs.foldl (emit v cfg) h)).out

theorem head_dropWhile_isRead (rs : List Rec) (x : Rec) (t : List Rec)
    (h : rs.dropWhile isRead = x :: t) : isRead x = false := by
  have := List.head_dropWhile_not isRead (l := rs) (by simp [h])
  simpa [h] using this

theorem mem_takeWhile_true {α : Type} {p : α → Bool} {l : List α} {x : α} (h : x ∈ l.takeWhile p) :
    p x = true := by
  induction l with
  | nil => simp at h
  | cons a l ih =>
    rw [List.takeWhile_cons] at h
    split at h
    · rcases List.mem_cons.mp h with rfl | h'
      · assumption
      · exact ih h'
    · simp at h

/-- refinement, from any state with an empty buffer, for every variant that flushes on close -/
theorem runFrom_spec (v : Variant) (cfg : FmtCfg) (hflush : v.flushOnClose = true) (recs : List Rec) :
    ∀ h : HSt, h.buf = none → (∀ r ∈ recs, RecOK v r) →
      runFrom v cfg h recs = h.out ++ (specLines cfg h.nextId (coalesce recs)).map Ev.line := by
  fun_induction coalesce recs with
  | case1 =>
    intro h hb _
    simp [runFrom, close, hb, specLines]
  | case2 r rs hr ih =>
    intro h hb hok
    have hokr := hok r (by simp)
    -- split the tail into the rest of the run and what follows
    have hsplit : rs = rs.takeWhile isRead ++ rs.dropWhile isRead := List.takeWhile_append_dropWhile.symm
    have hrun : ∀ x ∈ rs.takeWhile isRead, isRead x = true ∧ RecOK v x := by
      intro x hx
      exact ⟨mem_takeWhile_true hx, hok x (by simp [(List.takeWhile_sublist isRead).mem hx])⟩
    have h1 : emit v cfg h r = { h with buf := some r, msgBuf := encode (payloadText r) } := by
      unfold emit
      simp [hr, payload_ok v r hokr hr, hb]
    -- state after the whole run
    have hstate : (r :: rs.takeWhile isRead).foldl (emit v cfg) h =
        pending h r (encode ((r :: rs.takeWhile isRead).flatMap payloadText)) := by
      rw [List.foldl_cons, h1, foldl_emit_run v cfg _ hrun _ r rfl]
      simp [encode_append, pending]
    have hargs : v.lazyAware = true ∨ r.args = [] := by
      rcases hokr.2.2.1 with h2 | h2
      · exact Or.inl h2
      · exact Or.inr (h2 hr)
    have hflushed := emitBuffered_ok v cfg
      (pending h r (encode ((r :: rs.takeWhile isRead).flatMap payloadText))) r rfl hargs hokr.2.1 hokr.2.2.2
    have hfold : (r :: rs).foldl (emit v cfg) h =
        (rs.dropWhile isRead).foldl (emit v cfg) ((r :: rs.takeWhile isRead).foldl (emit v cfg) h) := by
      conv => lhs; rw [hsplit]
      rw [← List.cons_append, List.foldl_append]
    have hrest : ∀ x ∈ rs.dropWhile isRead, RecOK v x :=
      fun x hx => hok x (by simp [(List.dropWhile_sublist isRead).mem hx])
    unfold runFrom
    rw [hfold, hstate]
    cases hd : rs.dropWhile isRead with
    | nil =>
      simp only [List.foldl_nil, close, hflush, pending, Option.isSome_some, Bool.and_self, ↓reduceIte]
      simp only [pending] at hflushed
      rw [hflushed]
      simp [specLines, Entry.text, bufferedHead, coalesce]
    | cons x t =>
      have hx : isRead x = false := head_dropWhile_isRead rs x t hd
      rw [hd] at ih hrest
      -- the first record after the run flushes the buffer
      have hemit : emit v cfg (pending h r (encode ((r :: rs.takeWhile isRead).flatMap payloadText))) x
          = emit v cfg (emitBuffered v cfg
              (pending h r (encode ((r :: rs.takeWhile isRead).flatMap payloadText)))) x := by
        have hnone : (emitBuffered v cfg
            (pending h r (encode ((r :: rs.takeWhile isRead).flatMap payloadText)))).buf = none := by
          rw [hflushed]
        have hsome : (pending h r (encode ((r :: rs.takeWhile isRead).flatMap payloadText))).buf.isSome
            = true := rfl
        simp only [emit, hx, Bool.not_false, ↓reduceIte, hsome, hnone, Option.isSome_none, Bool.false_eq_true]
      rw [List.foldl_cons, hemit, ← List.foldl_cons]
      have := ih (emitBuffered v cfg
        (pending h r (encode ((r :: rs.takeWhile isRead).flatMap payloadText)))) (by rw [hflushed]) hrest
      unfold runFrom at this
      rw [this, hflushed]
      simp [specLines, Entry.text, bufferedHead, pending]
  | case3 r rs hr ih =>
    intro h hb hok
    have hokr := hok r (by simp)
    have hr' : isRead r = false := by simpa using hr
    have h1 : emit v cfg h r = baseEmit v cfg h r := by
      unfold emit
      simp [hr', hb]
    unfold runFrom
    rw [List.foldl_cons, h1, baseEmit_ok v cfg h r hokr.1 hokr.2.1 hokr.2.2.2]
    have := ih { h with nextId := h.nextId + 1,
                        out := h.out ++ [.line (specFormat cfg h.nextId r (message r))] } hb
      (fun x hx => hok x (by simp [hx]))
    unfold runFrom at this
    rw [this]
    simp [specLines, Entry.text]

/-- the plain `logging.FileHandler` (buffer_log=False): every record is its own line -/
theorem foldl_baseEmit_spec (v : Variant) (cfg : FmtCfg) (recs : List Rec) :
    ∀ h : HSt, (∀ r ∈ recs, RecOK v r) →
      (recs.foldl (baseEmit v cfg) h).out =
        h.out ++ (specLines cfg h.nextId (recs.map fun r => ⟨r, .plain (message r)⟩)).map Ev.line := by
  induction recs with
  | nil => intro h _; simp [specLines]
  | cons r rs ih =>
    intro h hok
    have hokr := hok r (by simp)
    rw [List.foldl_cons, baseEmit_ok v cfg h r hokr.1 hokr.2.1 hokr.2.2.2, ih _ (fun x hx => hok x (by simp [hx]))]
    simp [specLines, Entry.text]

/-! the flush-on-close flag matters only in `close` -/
theorem emit_flush_irrelevant (a f f' c e : Bool) (cfg : FmtCfg) :
    emit ⟨a, f, c, e⟩ cfg = emit ⟨a, f', c, e⟩ cfg := rfl

theorem baseEmit_buf (v : Variant) (cfg : FmtCfg) (h : HSt) (r : Rec) : (baseEmit v cfg h r).buf = h.buf := by
  unfold baseEmit
  split
  · split <;> rfl
  · rfl

theorem emit_plain_buf (v : Variant) (cfg : FmtCfg) (h : HSt) (r : Rec) (hr : isRead r = false) :
    (emit v cfg h r).buf = none := by
  unfold emit
  simp only [hr, Bool.not_false, ↓reduceIte, baseEmit_buf]
  cases hb : h.buf with
  | none => simp [hb]
  | some b => simp [emitBuffered, hb]

/-- if the last record is not a read record nothing is pending at close: the two `close` agree -/
theorem runHandler_flush_irrelevant (a c e : Bool) (cfg : FmtCfg) (pre : List Rec) (p : Rec)
    (hp : isRead p = false) :
    runHandler ⟨a, false, c, e⟩ cfg true (pre ++ [p]) = runHandler ⟨a, true, c, e⟩ cfg true (pre ++ [p]) := by
  unfold runHandler
  simp only [↓reduceIte, List.foldl_append, List.foldl_cons, List.foldl_nil]
  rw [emit_flush_irrelevant a false true c e]
  have hb := emit_plain_buf ⟨a, true, c, e⟩ cfg (pre.foldl (emit ⟨a, true, c, e⟩ cfg) {}) p hp
  simp [close, hb]

/-! ## Coalescing loses and reorders nothing -/

theorem flatMap_recAtoms_reads (l : List Rec) (h : ∀ x ∈ l, isRead x = true) :
    l.flatMap recAtoms = (l.flatMap payloadText).map Sum.inr := by
  induction l with
  | nil => rfl
  | cons a l ih =>
    have ha := h a (by simp)
    simp [List.flatMap_cons, recAtoms, ha, ih (fun x hx => h x (by simp [hx]))]

theorem coalesce_atoms (recs : List Rec) :
    (coalesce recs).flatMap entryAtoms = recs.flatMap recAtoms := by
  fun_induction coalesce recs with
  | case1 => rfl
  | case2 r rs hr ih =>
    have hsplit : rs.flatMap recAtoms
        = (rs.takeWhile isRead).flatMap recAtoms ++ (rs.dropWhile isRead).flatMap recAtoms := by
      rw [← List.flatMap_append, List.takeWhile_append_dropWhile]
    have hrun := flatMap_recAtoms_reads (rs.takeWhile isRead) (fun x hx => mem_takeWhile_true hx)
    simp [List.flatMap_cons, ih, hsplit, hrun, entryAtoms, recAtoms, hr]
  | case3 r rs hr ih =>
    have hr' : isRead r = false := by simpa using hr
    rw [List.flatMap_cons, ih, List.flatMap_cons]
    simp [entryAtoms, recAtoms, hr']

theorem coalesce_noAdjacentReads (recs : List Rec) : noAdjacentReads (coalesce recs) = true := by
  fun_induction coalesce recs with
  | case1 => rfl
  | case2 r rs hr ih =>
    cases hd : rs.dropWhile isRead with
    | nil => simp [coalesce, noAdjacentReads]
    | cons x t =>
      have hx : isRead x = false := head_dropWhile_isRead rs x t hd
      rw [hd] at ih
      rw [coalesce] at ih ⊢
      simp only [hx, Bool.false_eq_true, ↓reduceIte] at ih ⊢
      simp [noAdjacentReads, Entry.isReads, ih]
  | case3 r rs hr ih =>
    cases hc : coalesce rs with
    | nil => simp [noAdjacentReads]
    | cons e es =>
      rw [hc] at ih
      simp [noAdjacentReads, Entry.isReads, ih]

/-! ## Channel log -/

def isIO : ChanOp → Bool
  | .read _ => true
  | .write _ _ _ => true
  | _ => false

/-- the chunks `transport.read()` returned, in order -/
def readsOf (ops : List ChanOp) : List Bytes :=
  ops.filterMap fun
    | .read c => some c
    | _ => none

/-- the log records the reads and writes must produce, in order -/
def recsOf (base : Rec) (ops : List ChanOp) : List Rec :=
  ops.filterMap fun
    | .read c => some (readRec base (stripCR c))
    | .write i ri red => some (writeRec base i ri red)
    | _ => none

/-- one open … close cycle around reads and writes -/
def session (ops : List ChanOp) : List ChanOp := .open :: ops ++ [.close]

theorem stripCR_append (a b : Bytes) : stripCR (a ++ b) = stripCR a ++ stripCR b := by
  simp [stripCR]

theorem stripCR_flatten (l : List Bytes) : stripCR l.flatten = (l.map stripCR).flatten := by
  induction l with
  | nil => rfl
  | cons a l ih => simp [stripCR_append, ih]

theorem chanRun_io (sink : Sink) (base : Rec) (ops : List ChanOp) (hio : ∀ o ∈ ops, isIO o = true) :
    ∀ s : ChanSt, chanRun sink base s ops =
      { dest := if s.handle then s.dest ++ stripCR (readsOf ops).flatten else s.dest,
        handle := s.handle, recs := s.recs ++ recsOf base ops } := by
  induction ops with
  | nil => intro s; cases s; simp [chanRun, readsOf, recsOf, stripCR]
  | cons o ops ih =>
    intro s
    have ih' := ih (fun x hx => hio x (by simp [hx]))
    have ho := hio o (by simp)
    unfold chanRun at ih' ⊢
    rw [List.foldl_cons, ih']
    cases o with
    | «open» => simp [isIO] at ho
    | close => simp [isIO] at ho
    | read c =>
      cases hh : s.handle <;>
        simp [chanStep, hh, readsOf, recsOf, stripCR_append, List.append_assoc]
    | write i ri red =>
      cases hh : s.handle <;> simp [chanStep, hh, readsOf, recsOf, List.append_assoc]

/-- content of the sink after one session that read `x` (CR-stripped): nothing is written with the
    log off, "w" truncates first, "a" and a BytesIO keep what is there -/
def sessionDest (sink : Sink) (old x : Bytes) : Bytes :=
  match sink with
  | .off => old
  | .path false => x
  | _ => old ++ x

/-- whether `self.channel_log` can still be written to after `close()`: only a user supplied
    BytesIO, which the channel leaves open -/
def openAfterClose (sink : Sink) : Bool :=
  match sink with
  | .bytesio => true
  | _ => false

theorem chanRun_session (sink : Sink) (base : Rec) (ops : List ChanOp) (hio : ∀ o ∈ ops, isIO o = true)
    (s : ChanSt) (hclosed : sink = .off → s.handle = false) :
    chanRun sink base s (session ops) =
      { dest := sessionDest sink s.dest (stripCR (readsOf ops).flatten),
        handle := openAfterClose sink, recs := s.recs ++ recsOf base ops } := by
  unfold session chanRun
  simp only [List.foldl_append, List.foldl_cons, List.foldl_nil]
  have := chanRun_io sink base ops hio (chanStep sink base s .open)
  unfold chanRun at this
  rw [this]
  cases sink with
  | off => simp [chanStep, hclosed rfl, sessionDest, openAfterClose]
  | bytesio => simp [chanStep, sessionDest, openAfterClose]
  | path a => cases a <;> simp [chanStep, sessionDest, openAfterClose]

theorem chanRun_append (sink : Sink) (base : Rec) (s : ChanSt) (a b : List ChanOp) :
    chanRun sink base s (a ++ b) = chanRun sink base (chanRun sink base s a) b := by
  simp [chanRun, List.foldl_append]

/-- content of the sink after any number of sessions: "a" and a BytesIO accumulate, "w" keeps the
    last session (each `open()` truncates), nothing is written with the log off -/
def sessionsDest (sink : Sink) (old : Bytes) (sessions : List (List ChanOp)) : Bytes :=
  match sink with
  | .off => old
  | .path false =>
    match sessions.getLast? with
    | none => old
    | some l => stripCR (readsOf l).flatten
  | _ => old ++ stripCR (sessions.flatMap readsOf).flatten

theorem chanRun_sessions (sink : Sink) (base : Rec) (sessions : List (List ChanOp))
    (hio : ∀ l ∈ sessions, ∀ o ∈ l, isIO o = true) :
    ∀ s : ChanSt, (sink = .off → s.handle = false) →
      (chanRun sink base s (sessions.flatMap session)).dest = sessionsDest sink s.dest sessions ∧
      (chanRun sink base s (sessions.flatMap session)).recs = s.recs ++ sessions.flatMap (recsOf base) := by
  induction sessions with
  | nil =>
    intro s _
    cases sink with
    | off => simp [chanRun, sessionsDest]
    | bytesio => simp [chanRun, sessionsDest, stripCR]
    | path a => cases a <;> simp [chanRun, sessionsDest, stripCR]
  | cons l ls ih =>
    intro s hs
    rw [List.flatMap_cons, chanRun_append, chanRun_session _ _ _ (hio l (by simp)) s hs]
    have := ih (fun x hx => hio x (by simp [hx]))
      { dest := sessionDest sink s.dest (stripCR (readsOf l).flatten), handle := openAfterClose sink,
        recs := s.recs ++ recsOf base l } (by intro h; subst h; rfl)
    rw [this.1, this.2]
    refine ⟨?_, by simp [List.append_assoc]⟩
    cases sink with
    | off => simp [sessionsDest, sessionDest]
    | bytesio => simp [sessionsDest, sessionDest, stripCR_append, List.append_assoc]
    | path a =>
      cases a
      · cases ls with
        | nil => simp [sessionsDest, sessionDest]
        | cons l2 ls2 => simp [sessionsDest, List.getLast?_cons]
      · simp [sessionsDest, sessionDest, stripCR_append, List.append_assoc]

theorem readRec_message (base : Rec) (buf : Bytes) :
    getMessage (readRec base buf) = .ok (readPrefix ++ reprBytes buf) := by
  simp [getMessage, readRec, chanReadTemplate, readPrefix, pyFormat, Except.map]

theorem readRec_isRead (base : Rec) (buf : Bytes) : isRead (readRec base buf) = true := by
  simp [isRead, readRec, chanReadTemplate, readPrefix, List.isPrefixOf]

theorem writeRec_not_isRead (base : Rec) (i ri : Str) (red : Bool) : isRead (writeRec base i ri red) = false := by
  cases red <;> simp [isRead, writeRec, chanWriteTemplate, chanWriteRedacted, readPrefix, List.isPrefixOf]

theorem writeRec_wf (base : Rec) (i ri : Str) (red : Bool) : (writeRec base i ri red).wf := by
  cases red
  · exact ⟨_, by simp [getMessage, writeRec, chanWriteTemplate, pyFormat, Except.map]; rfl⟩
  · exact ⟨_, by simp [getMessage, writeRec]; rfl⟩

/-! ## The file before close(): the fold invariant -/

/-- state of the handler after `body ++ run`, where `run` is the trailing run of read records and
    `body` is empty or ends with a non-read record -/
theorem foldl_emit_body_run (v : Variant) (cfg : FmtCfg) (hflush : v.flushOnClose = true) (body run : List Rec)
    (hbody : body = [] ∨ ∃ pre p, body = pre ++ [p] ∧ isRead p = false)
    (hrun : ∀ r ∈ run, isRead r = true) (hok : ∀ r ∈ body ++ run, RecOK v r) :
    ((body ++ run).foldl (emit v cfg) {}).out = (specLines cfg firstMessageId (coalesce body)).map Ev.line ∧
    ((body ++ run).foldl (emit v cfg) {}).buf = run.head? ∧
    (run ≠ [] → ((body ++ run).foldl (emit v cfg) {}).msgBuf = encode (run.flatMap payloadText)) := by
  have hbuf : (body.foldl (emit v cfg) {}).buf = none := by
    rcases hbody with rfl | ⟨pre, p, rfl, hp⟩
    · rfl
    · rw [List.foldl_append]
      exact emit_plain_buf v cfg _ p hp
  have hout : (body.foldl (emit v cfg) {}).out = (specLines cfg firstMessageId (coalesce body)).map Ev.line := by
    have := runFrom_spec v cfg hflush body {} rfl (fun r hr => hok r (by simp [hr]))
    simpa [runFrom, close, hbuf] using this
  rw [List.foldl_append]
  generalize body.foldl (emit v cfg) {} = sb at hbuf hout ⊢
  cases run with
  | nil => exact ⟨hout, hbuf, fun h => absurd rfl h⟩
  | cons r run' =>
    have hr := hrun r (by simp)
    have hokr := hok r (by simp)
    have h1 : emit v cfg sb r = { sb with buf := some r, msgBuf := encode (payloadText r) } := by
      unfold emit
      simp [hr, payload_ok v r hokr hr, hbuf]
    rw [List.foldl_cons, h1, foldl_emit_run v cfg run'
      (fun x hx => ⟨hrun x (by simp [hx]), hok x (by simp [hx])⟩) _ r rfl]
    refine ⟨hout, rfl, fun _ => ?_⟩
    simp [encode_append]

/-! ## Attribution: under which target a payload character is shown -/

def recAtomsT (r : Rec) : List (Str × (Str ⊕ Char)) := (recAtoms r).map fun a => (specTarget r, a)

def entryAtomsT (e : Entry) : List (Str × (Str ⊕ Char)) := (entryAtoms e).map fun a => (specTarget e.src, a)

theorem flatMap_recAtomsT_reads (t : Str) (l : List Rec) (h : ∀ x ∈ l, isRead x = true ∧ specTarget x = t) :
    l.flatMap recAtomsT = (l.flatMap payloadText).map fun c => (t, Sum.inr c) := by
  induction l with
  | nil => rfl
  | cons a l ih =>
    have ha := h a (by simp)
    simp [List.flatMap_cons, recAtomsT, recAtoms, ha.1, ha.2, ih (fun x hx => h x (by simp [hx]))]

theorem coalesce_atomsT (recs : List Rec)
    (hsame : ∀ a ∈ recs, ∀ b ∈ recs, isRead a = true → isRead b = true → specTarget a = specTarget b) :
    (coalesce recs).flatMap entryAtomsT = recs.flatMap recAtomsT := by
  fun_induction coalesce recs with
  | case1 => rfl
  | case2 r rs hr ih =>
    have hsplit : rs.flatMap recAtomsT
        = (rs.takeWhile isRead).flatMap recAtomsT ++ (rs.dropWhile isRead).flatMap recAtomsT := by
      rw [← List.flatMap_append, List.takeWhile_append_dropWhile]
    have hrun := flatMap_recAtomsT_reads (specTarget r) (rs.takeWhile isRead) (fun x hx =>
      ⟨mem_takeWhile_true hx, hsame x (by simp [(List.takeWhile_sublist isRead).mem hx]) r (by simp)
        (mem_takeWhile_true hx) hr⟩)
    have ih' := ih (fun a ha b hb => hsame a (by simp [(List.dropWhile_sublist isRead).mem ha]) b
      (by simp [(List.dropWhile_sublist isRead).mem hb]))
    simp [List.flatMap_cons, ih', hsplit, hrun, entryAtomsT, entryAtoms, recAtomsT, recAtoms, hr]
  | case3 r rs hr ih =>
    have hr' : isRead r = false := by simpa using hr
    have ih' := ih (fun a ha b hb => hsame a (by simp [ha]) b (by simp [hb]))
    rw [List.flatMap_cons, ih', List.flatMap_cons]
    simp [entryAtomsT, entryAtoms, recAtomsT, recAtoms, hr']

/-! ## Ill-formed records through the plain handler -/

def Rec.wfb (r : Rec) : Bool :=
  match getMessage r with
  | .ok _ => true
  | .error _ => false

theorem wf_iff_wfb (r : Rec) : r.wf ↔ r.wfb = true := by
  unfold Rec.wf Rec.wfb
  cases getMessage r <;> simp

theorem errorCount_append (a b : List Ev) : errorCount (a ++ b) = errorCount a + errorCount b := by
  simp [errorCount, List.filter_append]

theorem errorCount_foldl_baseEmit (cfg : FmtCfg) (recs : List Rec) :
    ∀ h : HSt, errorCount (recs.foldl (baseEmit Variant.fixed cfg) h).out
      = errorCount h.out + (recs.filter fun r => !r.wfb).length := by
  induction recs with
  | nil => intro h; simp
  | cons r rs ih =>
    intro h
    rw [List.foldl_cons, ih]
    cases hw : r.wfb
    · have hf : ∃ e, format Variant.fixed cfg h.nextId r = .error e := by
        unfold format Rec.wfb at *
        cases hg : getMessage r with
        | ok m => simp [hg] at hw
        | error e => exact ⟨e, rfl⟩
      obtain ⟨e, he⟩ := hf
      simp [baseEmit, he, errorCount, hw]
      omega
    · have hwf : r.wf := (wf_iff_wfb r).mpr hw
      rw [baseEmit_ok Variant.fixed cfg h r hwf (Or.inl rfl) rfl]
      simp [errorCount, hw]

end Scrapli.Log
