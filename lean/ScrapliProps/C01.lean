import ScrapliProps.C01Lemmas
import ScrapliProps.C01Interact
import ScrapliProps.C01Platform
import ScrapliProps.C01Driver
import ScrapliProps.C01PlatformXR
import ScrapliProps.C01PlatformEOS
import ScrapliProps.C01PlatformNX
import ScrapliProps.C01PlatformJunos
/-
  C01 — a command's response is exactly what the device printed for that command.
  Property theorems only (helper lemmas and the definitions `Quiet`, `NoEarly`, `PromptOK`,
  `LineDev`, `Fits`, `GoodCmd`, `runCmds`, `expected`: C01Lemmas.lean).

  Quantifiers: every search depth `d`, every output (any length: below, at, far beyond the
  window), every prompt and trailing blanks satisfying the stated pattern conditions, EVERY
  segmentation of the byte stream into reads (`cs` ranges over all piece lists, `cuts` over all
  read-size lists; empty pieces allowed), every list of commands.
  The regular-expression operations are parameters: `hS` says the prompt pattern is line-local
  (MULTILINE `^…$`), which the check validates against CPython for every driver pattern.
-/
namespace Scrapli.Chan
open Scrapli Scrapli.Gen.Chan

/-- the ANSI pattern in the source is the one the model's scanner mirrors (regenerated each run) -/
theorem ansi_pattern_pinned : ansiPatternIsPinned = true := by decide

/-- the window never invents a prompt: every line the prompt search looks at is a contiguous
    segment of a line the device really printed -/
theorem window_lines_are_segments (d : Nat) (b : Bytes) :
    ∀ ℓ ∈ splitNL (processReadBuf d b), ∃ L ∈ splitNL b, ℓ <:+: L := by
  intro ℓ hℓ
  obtain ⟨a, c, habc⟩ := processReadBuf_infix d b
  -- lines of an infix are segments of lines of the whole: reuse the Quiet machinery with P := (· == ℓ)
  by_cases h : ∃ L ∈ splitNL b, ℓ <:+: L
  · exact h
  · exfalso
    have hq : Quiet (fun s => s == ℓ) b := by
      intro L hL s hs
      by_cases e : s = ℓ
      · subst e; exact absurd ⟨L, hL, hs⟩ h
      · simpa using e
    have := quiet_infix hq (processReadBuf_infix d b) ℓ hℓ ℓ (List.infix_refl ℓ)
    simp at this

/-- **prompt read, exact for every segmentation**: see `readLoop_prompt`.  From an empty buffer,
    over any piece list concatenating to `body ++ NL :: p ++ t`, `_read_until_prompt` returns
    `body ++ NL :: p ++ t'` (`t'` a prefix of the trailing blanks) at the FIRST piece boundary where
    the prompt is complete — never earlier (output crossing the window cannot fake a prompt), never
    later (a complete prompt is always inside the window), consuming nothing beyond. -/
theorem readUntilPrompt_exact {P : Bytes → Bool} (pat : Pat) (d : Nat) (body p t : Bytes)
    (hS : ∀ w, pat.search w = (splitNL w).any P)
    (hb : Quiet P body) (he : NoEarly P p) (hok : PromptOK P p t)
    (hnlp : NL ∉ p) (hnlt : NL ∉ t) (hp0 : p ≠ []) (hd : (p ++ t).length < d)
    (cs : List Bytes) (hcs : cs.flatten = body ++ NL :: p ++ t) :
    ∃ k t', t' <+: t ∧ (cs.take k).flatten = body ++ NL :: p ++ t' ∧
      readLoop (promptSeen pat d) [] cs = some (body ++ NL :: p ++ t', k) ∧
      ∀ j, j < k → ((cs.take j).flatten).length < (body ++ NL :: p).length := by
  have := readLoop_prompt pat d body p t hS hb he hok hnlp hnlt hp0 hd cs [] (by simpa using hcs)
    (by simp; omega)
  simpa using this

/-- **echo read, exact for every segmentation** (strict matching): returns at the first piece
    boundary where every visible byte of the input has been echoed; what stays unread is invisible -/
theorem readUntilInput_exact (input stream : Bytes) (hI : squish input ≠ [])
    (hF : squishBuf stream = squish input) (cs : List Bytes) (hcs : cs.flatten = stream) :
    ∃ k, readLoop (inputSeen false input) [] cs = some ((cs.take k).flatten, k) ∧
      squishBuf (cs.drop k).flatten = [] ∧
      ∀ j, j < k → squishBuf (cs.take j).flatten ≠ squish input := by
  have hne : squishBuf ([] : Bytes) ≠ squish input := by
    intro h; exact hI (by rw [← h]; rfl)
  obtain ⟨k, h1, _, h3, h4⟩ := readLoop_echo input stream hF cs [] (by simpa using hcs) hne
  exact ⟨k, by simpa using h1, h3, by simpa using h4⟩

/-- **one command, framed exactly**: `sendInput_frames` (C01Lemmas) restated. -/
theorem send_input_exact {P : Bytes → Bool} {cfg : Cfg} {dv : LineDev} (hf : Fits P cfg dv)
    (input : Bytes) (hg : GoodCmd P dv input) (stripPrompt : Bool)
    (w : Wire) (hres : ∀ x ∈ w.avail, isHws x = true) (hheld : w.held = []) :
    ∃ raw w', sendInput cfg dv.onWrite input stripPrompt false false (w, []) =
        some ((raw, expected cfg dv stripPrompt input), (w', [])) ∧
      (∃ L t', (∀ x ∈ L, isWs x = true) ∧ t' <+: dv.trail ∧
        raw = L ++ dv.rbody input ++ NL :: dv.prompt ++ t') ∧
      w'.writes = w.writes ++ [input, cfg.ret] ∧ (∀ x ∈ w'.avail, isHws x = true) ∧ w'.held = [] := by
  obtain ⟨L, t', t'', cuts', hLws, hLnl, htt, hsend⟩ := sendInput_frames hf input hg stripPrompt w hres hheld
  obtain ⟨ht', ht''⟩ := suffix_hws htt hf.trail_hws
  refine ⟨_, { avail := t'', cuts := cuts', writes := w.writes ++ [input, cfg.ret] }, ?_,
    ⟨L, t', hLws, ⟨t'', htt⟩, rfl⟩, rfl, ht'', rfl⟩
  rw [hsend]
  unfold expected
  rw [processOutput_indep cfg dv input L t' stripPrompt hLws hLnl ht' hf.prompt_ne hf.prompt_nl]

/-- **C01, sessions**: for every list of commands inside the quantifier and every segmentation
    of every read, each command returns exactly its own expected result — nothing of an earlier
    or later command — the device is sent exactly each input and one return, and the session is in
    step afterwards (only trailing blanks unread). -/
theorem session_exact {P : Bytes → Bool} {cfg : Cfg} {dv : LineDev} (hf : Fits P cfg dv)
    (stripPrompt : Bool) (inputs : List Bytes) (hg : ∀ i ∈ inputs, GoodCmd P dv i)
    (w : Wire) (hw : ∀ x ∈ w.avail, isHws x = true) (hheld : w.held = []) :
    ∃ rs w', runCmds cfg dv.onWrite stripPrompt inputs (w, []) = some (rs, (w', [])) ∧
      rs.map (·.2) = inputs.map (expected cfg dv stripPrompt) ∧
      w'.writes = w.writes ++ (inputs.map (fun i => [i, cfg.ret])).flatten ∧
      (∀ x ∈ w'.avail, isHws x = true) ∧ w'.held = [] :=
  session_in_step hf stripPrompt inputs hg w hw hheld

/-- **get_prompt, exact for every segmentation** (`getPrompt_exact`): one return is written, the
    device's prompt is returned, only blanks stay unread.  `hfirst` is the hypothesis on `group(0)`:
    the first match is the first matching line up to surrounding whitespace (validated against
    CPython each run, like `search_lines`). -/
theorem get_prompt_exact {P : Bytes → Bool} {cfg : Cfg} {dv : LineDev} (hf : Fits P cfg dv)
    (hfirst : ∀ x L, (splitNL x).find? P = some L →
      ∃ m, cfg.prompt.first x = some m ∧ strip m = strip L)
    (hout : dv.out [] = []) (w : Wire) (hres : ∀ x ∈ w.avail, isHws x = true) (hheld : w.held = []) :
    ∃ w', getPrompt cfg dv.onWrite (w, []) = some (strip dv.prompt, (w', [])) ∧
      w'.writes = w.writes ++ [cfg.ret] ∧ (∀ x ∈ w'.avail, isHws x = true) ∧ w'.held = [] :=
  getPrompt_exact hf hfirst hout w hres hheld

/-- **C01, sessions mixing get_prompt and commands in any order** -/
theorem mixed_session_exact {P : Bytes → Bool} {cfg : Cfg} {dv : LineDev} (hf : Fits P cfg dv)
    (hfirst : ∀ x L, (splitNL x).find? P = some L →
      ∃ m, cfg.prompt.first x = some m ∧ strip m = strip L)
    (hout : dv.out [] = []) (stripPrompt : Bool) (ops : List COp)
    (hg : ∀ i, COp.cmd i ∈ ops → GoodCmd P dv i) (w : Wire) (hw : ∀ x ∈ w.avail, isHws x = true)
    (hheld : w.held = []) :
    ∃ rs w', runOps cfg dv.onWrite stripPrompt ops (w, []) = some (rs, (w', [])) ∧
      rs = ops.map (expectedOp cfg dv stripPrompt) ∧
      w'.writes = w.writes ++ (ops.map (opWrites cfg.ret)).flatten ∧
      (∀ x ∈ w'.avail, isHws x = true) ∧ w'.held = [] :=
  mixed_session_in_step hf hfirst hout stripPrompt ops hg w hw hheld

/-- **the result is the device's text, trimmed** (strip_prompt off): what every command of a session
    returns (`expected`) is the response `rbody ++ NL :: prompt` with every line right-trimmed and the
    surrounding empty lines dropped — `normalizeText` is the property's own wording, written at the
    level of lines, while `_process_output` works on bytes (lstrip / rstrip / join). -/
theorem expected_is_normalized {P : Bytes → Bool} {cfg : Cfg} {dv : LineDev} (hf : Fits P cfg dv)
    (input : Bytes) (hpl : Plain (dv.out input)) :
    expected cfg dv false input = normalizeText (dv.rbody input ++ NL :: dv.prompt) :=
  processOutput_lines cfg hf.ret (dv.rbody input) dv.prompt hf.prompt_ne hf.prompt_nl
    ((rbody_plain hpl).append (nl_cons_plain hf.prompt_plain)).1

/-- the same with strip_prompt on, given that `re.sub` removes exactly the prompt line -/
theorem expected_is_normalized_strip {P : Bytes → Bool} {cfg : Cfg} {dv : LineDev} (hf : Fits P cfg dv)
    (input : Bytes) (hpl : Plain (dv.out input))
    (hsub : cfg.prompt.sub (joinNL ((splitNL (dv.rbody input ++ NL :: dv.prompt)).map rstrip)) =
      joinNL ((splitNL (dv.rbody input ++ [NL])).map rstrip)) :
    expected cfg dv true input = normalizeText (dv.rbody input ++ [NL]) :=
  processOutput_lines_strip cfg hf.ret (dv.rbody input) dv.prompt hf.prompt_ne hf.prompt_nl
    (rbody_plain hpl).1 hsub

/-! ### the driver layer: `send_commands` (loop, `failed_when_contains`, `stop_on_failed`) over the channel -/

/-- with `stop_on_failed` off every command is sent -/
theorem sentAll_no_stop (fails : Bytes → Bool) (init : List Bytes) (last : Bytes) :
    sentAll false fails init last = init ++ [last] := by
  have h : ∀ cs, sentOf false fails cs = (cs, false) := by
    intro cs
    induction cs with
    | nil => rfl
    | cons c cs ih => rw [sentOf_cons_false cs (by rfl), ih]
  unfold sentAll; rw [h]; simp

/-- what is sent is always a prefix of the list given: nothing is reordered, repeated or invented -/
theorem sentAll_prefix (stop : Bool) (fails : Bytes → Bool) (init : List Bytes) (last : Bytes) :
    sentAll stop fails init last <+: init ++ [last] := by
  unfold sentAll
  split
  · exact (sentOf_prefix stop fails init).trans (List.prefix_append _ _)
  · rename_i h
    have hall : ∀ cs, (sentOf stop fails cs).2 = false → (sentOf stop fails cs).1 = cs := by
      intro cs
      induction cs with
      | nil => intro _; rfl
      | cons c cs ih =>
        intro h2
        by_cases hb : (stop && fails c) = true
        · rw [sentOf_cons_true cs hb] at h2; simp at h2
        · have hb' : (stop && fails c) = false := by simpa using hb
          rw [sentOf_cons_false cs hb'] at h2 ⊢
          simp only at h2 ⊢
          rw [ih h2]
    rw [hall init (by simpa using h)]
    exact List.prefix_refl _

/-- with `stop_on_failed` on, a command whose result carries a failure marker is the LAST one sent -/
theorem sentAll_failed_is_last (fails : Bytes → Bool) (init : List Bytes) (last : Bytes) (pre post : List Bytes) (c : Bytes)
    (h : sentAll true fails init last = pre ++ c :: post) (hc : fails c = true) : post = [] := by
  have key : ∀ cs pre post, (sentOf true fails cs).1 = pre ++ c :: post →
      (post = [] ∧ (sentOf true fails cs).2 = true) := by
    intro cs
    induction cs with
    | nil => intro pre post h; simp [sentOf] at h
    | cons d ds ih =>
      intro pre post h
      by_cases hb : (true && fails d) = true
      · rw [sentOf_cons_true ds hb] at h ⊢
        simp only at h ⊢
        cases pre with
        | nil => simp only [List.nil_append, List.cons.injEq] at h; exact ⟨h.2.symm, by first | rfl | trivial⟩
        | cons p ps =>
          simp only [List.cons_append, List.cons.injEq] at h
          have := h.2
          cases ps <;> simp at this
      · have hb' : (true && fails d) = false := by simpa using hb
        rw [sentOf_cons_false ds hb'] at h ⊢
        simp only at h ⊢
        cases pre with
        | nil =>
          simp only [List.nil_append, List.cons.injEq] at h
          rw [← h.1] at hc
          simp [hc] at hb'
        | cons p ps =>
          simp only [List.cons_append, List.cons.injEq] at h
          exact ih ps post h.2
  unfold sentAll at h
  split at h
  · exact (key init pre post h).1
  · rename_i hbroke
    -- the loop did not break: `c` is either the last command, or in the loop part, where a failing command breaks
    rcases List.append_eq_append_iff.1 h with ⟨a', h1, h2⟩ | ⟨c', h1, h2⟩
    · cases a' with
      | nil =>
        simp only [List.nil_append, List.cons.injEq] at h2
        exact h2.2.symm
      | cons x xs =>
        simp only [List.cons_append, List.cons.injEq] at h2
        have := h2.2
        cases xs <;> simp at this
    · cases c' with
      | nil =>
        simp only [List.nil_append] at h2
        have : [last] = c :: post := by simpa using h2.symm
        simp only [List.cons.injEq] at this
        exact this.2.symm
      | cons x xs =>
        simp only [List.cons_append, List.cons.injEq] at h2
        obtain ⟨rfl, h3⟩ := h2
        have := key init pre xs h1
        exact absurd this.2 (by simpa using hbroke)

/-- **C01, `send_commands`**: for every non-empty command list inside the quantifier, every `failed_when_contains`
    list, `stop_on_failed` on or off and every segmentation of every read: the responses are, in order, exactly
    those of the commands up to and including the first one whose OWN result carries a failure marker (all of
    them when `stop_on_failed` is off — `sentAll_no_stop`, `sentAll_prefix`, `sentAll_failed_is_last`); each
    `result` is that command's own `expected` text, each `failed` flag is computed from that text alone; the
    device is sent exactly those commands, each followed by one return, and the session is in step afterwards. -/
theorem send_commands_exact {P : Bytes → Bool} {cfg : Cfg} {dv : LineDev} (hf : Fits P cfg dv)
    (strip : Bool) (fwc : List Bytes) (stop : Bool) (init : List Bytes) (last : Bytes)
    (hg : ∀ i ∈ init ++ [last], GoodCmd P dv i)
    (w : Wire) (hw : ∀ x ∈ w.avail, isHws x = true) (hheld : w.held = []) :
    ∃ rs w', sendCommands cfg dv.onWrite strip fwc stop init last (w, []) = some (rs, (w', [])) ∧
      rs.map (fun r => (r.result, r.failed)) =
        (sentAll stop (fun c => failedOf fwc (expected cfg dv strip c)) init last).map
          (fun c => (expected cfg dv strip c, failedOf fwc (expected cfg dv strip c))) ∧
      w'.writes = w.writes ++
        ((sentAll stop (fun c => failedOf fwc (expected cfg dv strip c)) init last).map (fun i => [i, cfg.ret])).flatten ∧
      (∀ x ∈ w'.avail, isHws x = true) ∧ w'.held = [] := by
  obtain ⟨rs, w1, h1, hres, hwr, ha, hh⟩ :=
    sendCommandsLoop_exact hf strip fwc stop init (fun i hi => hg i (by simp [hi])) w hw hheld
  unfold sentAll
  cases hb : (sentOf stop (fun c => failedOf fwc (expected cfg dv strip c)) init).2 with
  | true =>
    rw [hb] at h1
    refine ⟨rs, w1, ?_, by simpa using hres, by simpa using hwr, ha, hh⟩
    unfold sendCommands; rw [h1]
  | false =>
    rw [hb] at h1
    obtain ⟨r, w2, h2, hr, hfl, hw2, ha2, hh2⟩ := sendCommand_exact hf strip fwc last (hg last (by simp)) w1 ha hh
    refine ⟨rs ++ [r], w2, ?_, ?_, ?_, ha2, hh2⟩
    · unfold sendCommands; rw [h1]; simp only; rw [h2]; rfl
    · simp only [Bool.false_eq_true, if_false, List.map_append, List.map_cons, List.map_nil, hres, hr, hfl]
    · simp only [Bool.false_eq_true, if_false, List.map_append, List.map_cons, List.map_nil, List.flatten_append,
        List.flatten_cons, List.flatten_nil, List.append_nil]
      rw [hw2, hwr]; simp [List.append_assoc]

/-! ### both return characters of the quantifier (`\n`, `\r\n`) -/

/-- being inside the quantifier does not depend on which of the two return characters is configured -/
theorem Fits.with_ret {P : Bytes → Bool} {cfg : Cfg} {dv : LineDev} (hf : Fits P cfg dv) {r : Bytes} (hr : IsRet r) :
    Fits P { cfg with ret := r } dv where
  search_lines := hf.search_lines
  strict := hf.strict
  ret := hr
  blank := hf.blank
  noEarly := hf.noEarly
  promptOK := hf.promptOK
  prompt_ne := hf.prompt_ne
  prompt_nl := hf.prompt_nl
  prompt_plain := hf.prompt_plain
  trail_hws := hf.trail_hws
  fits_window := hf.fits_window

/-- **the result of a command does not depend on the return character**: with `\r\n` configured every
    command of a session returns what it returns with `\n` (all the session theorems above hold for both:
    `Fits.ret` only asks for one of the two; the device is sent the configured one after each input) -/
theorem expected_ret_indep {P : Bytes → Bool} {cfg : Cfg} {dv : LineDev} (hf : Fits P cfg dv) {r : Bytes}
    (hr : IsRet r) (input : Bytes) (hpl : Plain (dv.out input)) :
    expected { cfg with ret := r } dv false input = expected cfg dv false input := by
  rw [expected_is_normalized (hf.with_ret hr) input hpl, expected_is_normalized hf input hpl]

/-- `normalizeText` on a concrete response: trailing blanks of lines and surrounding empty lines go -/
example : normalizeText [10, 10, 97, 32, 32, 10, 10, 98, 9, 10, 32, 10] = [97, 10, 10, 98] := by decide

/-! ### interactive sessions (`send_inputs_interact` / `send_interactive`) -/

/-- **C01, interactive sessions, exact for every segmentation of every read**: against a scripted
    dialogue (each exchange: optional echo, then after the return `body`, the question or prompt line
    `q`, trailing blanks) with events inside the quantifier (`GoodStep`), the session
    * completes (never blocks), whatever the read sizes;
    * takes exactly the exchanges up to and including the first one answered by an
      interaction-complete pattern instead of the expected response (`consumed`), and the device is
      left at the rest of its script: no input is typed after the session is over;
    * writes each of those inputs once, each followed by one return, nothing else;
    * returns a raw buffer that, together with what is still unread, is the blank residue found at
      the start followed by exactly the text the device printed for those exchanges, in order — and
      what is unread is only (a suffix of) the last exchange's trailing blanks: the session is in
      step, the next operation starts clean;
    * processed result = `_process_output` of that raw buffer without its leading whitespace. -/
theorem interact_exact {cfg : Cfg} {complete : List Bytes} (hstrict : cfg.rough = false)
    (hret : IsRet cfg.ret) (ps : List (Ev × Step)) (extra : List Step)
    (hg : ∀ p ∈ ps, ∃ Pr Pc, GoodStep cfg complete Pr Pc p.1 p.2)
    (w : Wire) (hres : ∀ x ∈ w.avail, isHws x = true) (hheld : w.held = []) :
    ∃ raw w', sendInputsInteract cfg scriptDev (ps.map (·.1)) complete (w, ps.map (·.2) ++ extra) =
        some ((raw, processOutput cfg (raw.dropWhile isWs) false),
              (w', (ps.drop (consumed complete ps).length).map (·.2) ++ extra)) ∧
      raw ++ w'.avail = w.avail ++ ((consumed complete ps).map (fun p => stepText p.1 p.2)).flatten ∧
      (∀ x ∈ w'.avail, isHws x = true) ∧
      (∀ p, (consumed complete ps).getLast? = some p → w'.avail <:+ p.2.t) ∧
      w'.writes = w.writes ++ ((consumed complete ps).map (fun p => [p.1.1, cfg.ret])).flatten ∧
      w'.held = [] := by
  obtain ⟨raw, w', h1, h2, h3, h4, h5, h6⟩ := interactLoop_frames hstrict hret ps extra [] w hg hres hheld
  refine ⟨raw, w', ?_, by simpa using h2, h3, h4, h5, h6⟩
  unfold sendInputsInteract
  rw [h1]

/-- **the processed result of an interactive session is the dialogue, trimmed**: the text of the
    exchanges that took place without its leading whitespace, every line right-trimmed, trailing
    empty lines dropped — whatever blank residue the previous operation left unread (since fix
    4c94c83; before it the residue stayed in front of the first line: finding F23) and whatever part
    of the last trailing blanks has been read. -/
theorem interact_result_normalized {cfg : Cfg} {complete : List Bytes} (hstrict : cfg.rough = false)
    (hret : IsRet cfg.ret) (ps : List (Ev × Step)) (extra : List Step)
    (hg : ∀ p ∈ ps, ∃ Pr Pc, GoodStep cfg complete Pr Pc p.1 p.2)
    (w : Wire) (hres : ∀ x ∈ w.avail, isHws x = true) (hheld : w.held = []) :
    ∃ raw s', sendInputsInteract cfg scriptDev (ps.map (·.1)) complete (w, ps.map (·.2) ++ extra) =
        some ((raw, normalizeText
          (((consumed complete ps).map (fun p => stepText p.1 p.2)).flatten.dropWhile isWs)), s') := by
  obtain ⟨raw, w', h1, h2, h3, _, _, _⟩ := interact_exact hstrict hret ps extra hg w hres hheld
  suffices heq : processOutput cfg (raw.dropWhile isWs) false = normalizeText
      (((consumed complete ps).map (fun p => stepText p.1 p.2)).flatten.dropWhile isWs) from
    ⟨raw, _, by rw [h1, heq]⟩
  have hcr : CR ∉ raw.dropWhile isWs := by
    intro hm
    have hm1 : CR ∈ raw ++ w'.avail := List.mem_append_left _ ((List.dropWhile_suffix isWs).subset hm)
    rw [h2] at hm1
    rcases List.mem_append.mp hm1 with h | h
    · exact (hws_plain hres).1 h
    · obtain ⟨l, hl, hc⟩ := List.mem_flatten.mp h
      obtain ⟨p, hp, rfl⟩ := List.mem_map.mp hl
      have hp' : p ∈ ps := consumed_subset complete ps p hp
      obtain ⟨Pr, Pc, hgp⟩ := hg p hp'
      exact hgp.stepText_plain.1 hc
  rw [processOutput_eq_normalize cfg hret _ hcr, ← lstrip_append_hws_normalize raw w'.avail h3, h2,
    dropWhile_append_all _ _ (hws_ws hres)]

/-! ### non-vacuity: a concrete pattern, device and commands inside the quantifier -/

def exPrompt : Bytes := [114, 49, 35]                     -- "r1#"
def exP : Bytes → Bool := fun s => s == exPrompt || s == exPrompt ++ [32]
/-- the pattern operations of the example, as a MULTILINE `^…$` pattern behaves: `search` = some line
    matches, `group(0)` = the first matching line, `re.sub(…, b"")` empties every matching line -/
def exPat : Pat :=
  { search := fun x => (splitNL x).any exP, first := fun x => (splitNL x).find? exP,
    sub := fun x => joinNL ((splitNL x).map (fun l => if exP l then [] else l)) }
def exCfg : Cfg := { prompt := exPat, compile := fun _ => exPat, depth := 8, ret := [NL], rough := false }
/-- output "line 1\nl2 longer than d": longer than the window (8) -/
def exOut : Bytes := [108, 105, 110, 101, 32, 49, 10, 108, 50, 32, 108, 111, 110, 103, 101, 114, 32, 116, 104, 97, 110, 32, 100]
def exDev : LineDev := { out := fun i => if i.isEmpty then [] else exOut, prompt := exPrompt, trail := [32] }

theorem exP_len {s : Bytes} (h : exP s = true) : 3 ≤ s.length := by
  simp only [exP, Bool.or_eq_true, beq_iff_eq] at h
  rcases h with e | e <;> subst e <;> decide

theorem exFits : Fits exP exCfg exDev where
  search_lines := fun _ => rfl
  strict := rfl
  ret := Or.inl rfl
  blank := by
    intro s hs
    rw [Bool.eq_false_iff]; intro h
    simp only [exP, Bool.or_eq_true, beq_iff_eq] at h
    rcases h with e | e <;> subst e <;> revert hs <;> decide
  noEarly := by
    intro q hq hne s hs
    rw [Bool.eq_false_iff]; intro h
    have h0 := exP_len h
    have h1 := hs.length_le
    have h2 := hq.length_le
    have h3 : exDev.prompt.length = 3 := rfl
    exact hne (hq.eq_of_length (by omega))
  promptOK := by
    intro t' ht'
    have : t' = [] ∨ t' = [32] := by
      rcases t' with _ | ⟨a, _ | ⟨b, r⟩⟩
      · left; rfl
      · right
        obtain ⟨r, hr⟩ := ht'
        simp [exDev] at hr
        simp [hr.1]
      · exfalso; have := ht'.length_le; simp [exDev] at this
    rcases this with e | e <;> subst e <;> decide
  prompt_ne := by decide
  prompt_nl := by decide
  prompt_plain := ⟨by decide, by decide⟩
  trail_hws := by decide
  fits_window := by decide

def exCmd : Bytes := [115, 104, 111, 119, 32, 32]         -- "show  " (trailing blanks)

theorem exGood : GoodCmd exP exDev exCmd where
  visible := by decide
  no_nl := by decide
  no_bs := by decide
  plain := ⟨by decide, by decide⟩
  out_plain := ⟨by decide, by decide⟩
  out_quiet := by
    intro L hL s hs
    rw [Bool.eq_false_iff]; intro h
    simp only [exP, Bool.or_eq_true, beq_iff_eq] at h
    have hmem : (35 : UInt8) ∈ L := by
      have : (35 : UInt8) ∈ s := by rcases h with e | e <;> subst e <;> decide
      exact hs.subset this
    have hL' : L = [108, 105, 110, 101, 32, 49] ∨ L = [108, 50, 32, 108, 111, 110, 103, 101, 114, 32, 116, 104, 97, 110, 32, 100] := by
      have : splitNL (exDev.out exCmd) = [[108, 105, 110, 101, 32, 49], [108, 50, 32, 108, 111, 110, 103, 101, 114, 32, 116, 104, 97, 110, 32, 100]] := by decide
      rw [this] at hL
      simpa using hL
    rcases hL' with e | e <;> subst e <;> revert hmem <;> decide

/-- the session theorem applies to a concrete non-trivial instance: three commands with output
    longer than the search window, residue of one blank, arbitrary cuts -/
example (cuts : List Nat) :
    ∃ rs w', runCmds exCfg exDev.onWrite true [exCmd, exCmd, exCmd] ({ avail := [32], cuts := cuts }, []) =
        some (rs, (w', [])) ∧
      rs.map (·.2) = [exCmd, exCmd, exCmd].map (expected exCfg exDev true) :=
  let ⟨rs, w', h1, h2, _, _, _⟩ := session_exact exFits true [exCmd, exCmd, exCmd]
    (by intro i hi; simp at hi; subst hi; exact exGood) { avail := [32], cuts := cuts } (by intro x hx; simp at hx; subst hx; decide) rfl
  ⟨rs, w', h1, h2⟩

/-- the same session with the return character `\r\n`: same results, each command followed by CR NL on the wire -/
example (cuts : List Nat) :
    ∃ rs w', runCmds { exCfg with ret := [CR, NL] } exDev.onWrite false [exCmd, exCmd] ({ avail := [32], cuts := cuts }, []) =
        some (rs, (w', [])) ∧
      rs.map (·.2) = [exCmd, exCmd].map (expected exCfg exDev false) ∧
      w'.writes = [exCmd, [CR, NL], exCmd, [CR, NL]] :=
  let ⟨rs, w', h1, h2, h3, _, _⟩ := session_exact (exFits.with_ret (Or.inr rfl)) false [exCmd, exCmd]
    (by intro i hi; simp at hi; subst hi; exact exGood) { avail := [32], cuts := cuts } (by intro x hx; simp at hx; subst hx; decide) rfl
  ⟨rs, w', h1, by
    rw [h2]
    simp only [List.map_cons, List.map_nil]
    rw [expected_ret_indep exFits (Or.inr rfl) exCmd exGood.out_plain], by simpa using h3⟩

/-- `send_commands_exact` on a concrete instance: three commands, the marker "line" occurs in the (long) output,
    `stop_on_failed` on: exactly one command is sent and answered, flagged failed — for arbitrary cuts -/
example (cuts : List Nat) :
    ∃ rs w', sendCommands exCfg exDev.onWrite true [[108, 105, 110, 101]] true [exCmd, exCmd] exCmd
        ({ avail := [32], cuts := cuts }, []) = some (rs, (w', [])) ∧
      rs.map (fun r => (r.result, r.failed)) = [(expected exCfg exDev true exCmd, true)] ∧
      w'.writes = [exCmd, [NL]] := by
  obtain ⟨rs, w', h1, h2, h3, _, _⟩ := send_commands_exact exFits true [[108, 105, 110, 101]] true [exCmd, exCmd] exCmd
    (by intro i hi; simp at hi; rcases hi with rfl | rfl <;> exact exGood) { avail := [32], cuts := cuts }
    (by intro x hx; simp at hx; subst hx; decide) rfl
  have hfail : failedOf [[108, 105, 110, 101]] (expected exCfg exDev true exCmd) = true := by decide
  have hs : sentAll true (fun c => failedOf [[108, 105, 110, 101]] (expected exCfg exDev true c)) [exCmd, exCmd] exCmd = [exCmd] := by
    unfold sentAll
    rw [sentOf_cons_true _ (by simpa using hfail)]
    rfl
  rw [hs] at h2 h3
  exact ⟨rs, w', h1, by simpa [hfail] using h2, by simpa [exCfg] using h3⟩

/-- the same list with `stop_on_failed` off: all three are sent, each flagged from its own text -/
example (cuts : List Nat) :
    ∃ rs w', sendCommands exCfg exDev.onWrite true [[108, 105, 110, 101]] false [exCmd, exCmd] exCmd
        ({ avail := [32], cuts := cuts }, []) = some (rs, (w', [])) ∧ rs.map (·.failed) = [true, true, true] := by
  obtain ⟨rs, w', h1, h2, _, _, _⟩ := send_commands_exact exFits true [[108, 105, 110, 101]] false [exCmd, exCmd] exCmd
    (by intro i hi; simp at hi; rcases hi with rfl | rfl <;> exact exGood) { avail := [32], cuts := cuts }
    (by intro x hx; simp at hx; subst hx; decide) rfl
  have hfail : failedOf [[108, 105, 110, 101]] (expected exCfg exDev true exCmd) = true := by decide
  rw [sentAll_no_stop] at h2
  refine ⟨rs, w', h1, ?_⟩
  have := congrArg (List.map (·.2)) h2
  simp only [List.map_map, List.map_append, List.map_cons, List.map_nil, hfail] at this
  have hc : ((fun x : Bytes × Bool => x.2) ∘ fun r : Resp => (r.result, r.failed)) = (fun r : Resp => r.failed) := rfl
  rw [hc] at this
  simpa using this

/-- the `group(0)` hypothesis of `get_prompt_exact` holds for the example pattern -/
theorem exFirst : ∀ x L, (splitNL x).find? exP = some L →
    ∃ m, exCfg.prompt.first x = some m ∧ strip m = strip L :=
  fun _ L h => ⟨L, h, rfl⟩

/-- the `re.sub` hypothesis of `expected_is_normalized_strip` holds for the example -/
theorem exSub : exCfg.prompt.sub (joinNL ((splitNL (exDev.rbody exCmd ++ NL :: exDev.prompt)).map rstrip)) =
    joinNL ((splitNL (exDev.rbody exCmd ++ [NL])).map rstrip) := by decide

/-- `get_prompt_exact`, `mixed_session_exact` and `expected_is_normalized_strip` apply to the concrete
    instance: get_prompt / command / get_prompt for arbitrary cuts, and the stripped result is the
    device's text -/
example (cuts : List Nat) :
    ∃ rs w', runOps exCfg exDev.onWrite true [.prompt, .cmd exCmd, .prompt] ({ avail := [32], cuts := cuts }, []) =
        some (rs, (w', [])) ∧
      rs = [strip exPrompt, normalizeText (exDev.rbody exCmd ++ [NL]), strip exPrompt] := by
  obtain ⟨rs, w', h1, h2, _, _, _⟩ := mixed_session_exact exFits exFirst rfl true [.prompt, .cmd exCmd, .prompt]
    (by intro i hi; simp at hi; subst hi; exact exGood) { avail := [32], cuts := cuts }
    (by intro x hx; simp at hx; subst hx; decide) rfl
  refine ⟨rs, w', h1, ?_⟩
  rw [h2]
  simp only [List.map_cons, List.map_nil, expectedOp]
  rw [expected_is_normalized_strip exFits exCmd exGood.out_plain exSub]
  rfl

/-- **C01 for a real driver pattern**: on a device whose prompt is ANY exec / privilege-exec /
    configuration prompt the IOS-XE class pattern admits (every host name of its class, 1..63 bytes,
    every mode text), every list of commands inside the quantifier returns exactly each command's own
    output, for every segmentation — the hypotheses `blank`, `NoEarly`, `PromptOK` of `Fits` are PROVED
    for these prompts (`iosxe_fits`); what remains assumed is that the compiled pattern searches line
    by line with `iosxeP`, which the check compares with CPython on every run. -/
theorem iosxe_session_exact (cfg : Cfg) (out : Bytes → Bytes) {p : Bytes} (hp : XePrompt p)
    (hS : ∀ x, cfg.prompt.search x = (splitNL x).any iosxeP)
    (hstrict : cfg.rough = false) (hret : IsRet cfg.ret) (hwin : p.length < cfg.depth)
    (stripPrompt : Bool) (inputs : List Bytes)
    (hg : ∀ i ∈ inputs, GoodCmd iosxeP { out := out, prompt := p, trail := [] } i)
    (w : Wire) (hw : ∀ x ∈ w.avail, isHws x = true) (hheld : w.held = []) :
    ∃ rs w', runCmds cfg (LineDev.onWrite { out := out, prompt := p, trail := [] }) stripPrompt inputs (w, []) =
        some (rs, (w', [])) ∧
      rs.map (·.2) = inputs.map (expected cfg { out := out, prompt := p, trail := [] } stripPrompt) ∧
      w'.writes = w.writes ++ (inputs.map (fun i => [i, cfg.ret])).flatten ∧
      (∀ x ∈ w'.avail, isHws x = true) ∧ w'.held = [] :=
  session_exact (iosxe_fits cfg out hp hS hstrict hret hwin) stripPrompt inputs hg w hw hheld

/-- **the same for the IOS-XR class pattern** (`\s?` after the `#`: the device may or may not print one blank
    after its prompt): every privilege-exec / configuration prompt the pattern admits, `blank` / `NoEarly` /
    `PromptOK` proved (`iosxr_fits`), the line predicate `iosxrP` compared with CPython on every run -/
theorem iosxr_session_exact (cfg : Cfg) (out : Bytes → Bytes) {p t : Bytes} (hp : XrPrompt p) (ht : t = [] ∨ t = [32])
    (hS : ∀ x, cfg.prompt.search x = (splitNL x).any iosxrP)
    (hstrict : cfg.rough = false) (hret : IsRet cfg.ret) (hwin : (p ++ t).length < cfg.depth)
    (stripPrompt : Bool) (inputs : List Bytes)
    (hg : ∀ i ∈ inputs, GoodCmd iosxrP { out := out, prompt := p, trail := t } i)
    (w : Wire) (hw : ∀ x ∈ w.avail, isHws x = true) (hheld : w.held = []) :
    ∃ rs w', runCmds cfg (LineDev.onWrite { out := out, prompt := p, trail := t }) stripPrompt inputs (w, []) =
        some (rs, (w', [])) ∧
      rs.map (·.2) = inputs.map (expected cfg { out := out, prompt := p, trail := t } stripPrompt) ∧
      w'.writes = w.writes ++ (inputs.map (fun i => [i, cfg.ret])).flatten ∧
      (∀ x ∈ w'.avail, isHws x = true) ∧ w'.held = [] :=
  session_exact (iosxr_fits cfg out hp ht hS hstrict hret hwin) stripPrompt inputs hg w hw hheld

/-- **and for the Arista EOS class pattern** (host class with parentheses and blanks, `\s?` after the terminator):
    every exec / privilege-exec / configuration prompt the pattern admits (`eos_fits`), `eosP` compared with CPython
    on every run -/
theorem eos_session_exact (cfg : Cfg) (out : Bytes → Bytes) {p t : Bytes} (hp : EosPrompt p) (ht : t = [] ∨ t = [32])
    (hS : ∀ x, cfg.prompt.search x = (splitNL x).any eosP)
    (hstrict : cfg.rough = false) (hret : IsRet cfg.ret) (hwin : (p ++ t).length < cfg.depth)
    (stripPrompt : Bool) (inputs : List Bytes)
    (hg : ∀ i ∈ inputs, GoodCmd eosP { out := out, prompt := p, trail := t } i)
    (w : Wire) (hw : ∀ x ∈ w.avail, isHws x = true) (hheld : w.held = []) :
    ∃ rs w', runCmds cfg (LineDev.onWrite { out := out, prompt := p, trail := t }) stripPrompt inputs (w, []) =
        some (rs, (w', [])) ∧
      rs.map (·.2) = inputs.map (expected cfg { out := out, prompt := p, trail := t } stripPrompt) ∧
      w'.writes = w.writes ++ (inputs.map (fun i => [i, cfg.ret])).flatten ∧
      (∀ x ∈ w'.avail, isHws x = true) ∧ w'.held = [] :=
  session_exact (eos_fits cfg out hp ht hS hstrict hret hwin) stripPrompt inputs hg w hw hheld

/-- **and for the Cisco NX-OS class pattern** (optional `(maint-mode)` after the host, tcl alternatives, `\s?`):
    every exec / privilege-exec / configuration prompt the pattern admits, in or out of maintenance mode
    (`nxos_fits`), `nxosP` compared with CPython on every run -/
theorem nxos_session_exact (cfg : Cfg) (out : Bytes → Bytes) {p t : Bytes} (hp : NxPrompt p) (ht : t = [] ∨ t = [32])
    (hS : ∀ x, cfg.prompt.search x = (splitNL x).any nxosP)
    (hstrict : cfg.rough = false) (hret : IsRet cfg.ret) (hwin : (p ++ t).length < cfg.depth)
    (stripPrompt : Bool) (inputs : List Bytes)
    (hg : ∀ i ∈ inputs, GoodCmd nxosP { out := out, prompt := p, trail := t } i)
    (w : Wire) (hw : ∀ x ∈ w.avail, isHws x = true) (hheld : w.held = []) :
    ∃ rs w', runCmds cfg (LineDev.onWrite { out := out, prompt := p, trail := t }) stripPrompt inputs (w, []) =
        some (rs, (w', [])) ∧
      rs.map (·.2) = inputs.map (expected cfg { out := out, prompt := p, trail := t } stripPrompt) ∧
      w'.writes = w.writes ++ (inputs.map (fun i => [i, cfg.ret])).flatten ∧
      (∀ x ∈ w'.avail, isHws x = true) ∧ w'.held = [] :=
  session_exact (nxos_fits cfg out hp ht hS hstrict hret hwin) stripPrompt inputs hg w hw hheld

/-- **and for the Juniper Junos class pattern** (terminators `> # % $`, shell and root-shell alternatives, the optional
    banner line a line of its own): every operational / configuration prompt line the pattern admits (`junos_fits`),
    `junosP` compared with CPython on every run -/
theorem junos_session_exact (cfg : Cfg) (out : Bytes → Bytes) {p t : Bytes} (hp : JunosPrompt p) (ht : t = [] ∨ t = [32])
    (hS : ∀ x, cfg.prompt.search x = (splitNL x).any junosP)
    (hstrict : cfg.rough = false) (hret : IsRet cfg.ret) (hwin : (p ++ t).length < cfg.depth)
    (stripPrompt : Bool) (inputs : List Bytes)
    (hg : ∀ i ∈ inputs, GoodCmd junosP { out := out, prompt := p, trail := t } i)
    (w : Wire) (hw : ∀ x ∈ w.avail, isHws x = true) (hheld : w.held = []) :
    ∃ rs w', runCmds cfg (LineDev.onWrite { out := out, prompt := p, trail := t }) stripPrompt inputs (w, []) =
        some (rs, (w', [])) ∧
      rs.map (·.2) = inputs.map (expected cfg { out := out, prompt := p, trail := t } stripPrompt) ∧
      w'.writes = w.writes ++ (inputs.map (fun i => [i, cfg.ret])).flatten ∧
      (∀ x ∈ w'.avail, isHws x = true) ∧ w'.held = [] :=
  session_exact (junos_fits cfg out hp ht hS hstrict hret hwin) stripPrompt inputs hg w hw hheld

/-- the defaults regenerated from the source lie inside the scope of the session theorems
    (return character `\n`, strict input matching, a positive search depth) -/
theorem defaults_in_scope : Scrapli.Gen.Chan.defaultReturn = [NL] ∧ Scrapli.Gen.Chan.defaultRough = false ∧
    0 < Scrapli.Gen.Chan.defaultDepth := by decide

/-! ### non-vacuity of the interactive theorems: `enable` / `Password:` / prompt -/

def ixCfg : Cfg := { prompt := exPat, compile := fun _ => exPat, depth := 32, ret := [NL], rough := false }
def ixPw : Bytes := [80, 97, 115, 115, 119, 111, 114, 100, 58]          -- "Password:"
def ixEv1 : Ev := ([101, 110, 97, 98, 108, 101], ixPw, false)            -- "enable", expects "Password:"
def ixEv2 : Ev := ([115, 51, 99, 114, 51, 116], [], true)                -- hidden "s3cr3t", expects the class prompt
def ixSt1 : Step := { echo := true, body := [], q := ixPw, t := [32], isResp := true, isComplete := false }
def ixSt2 : Step := { echo := false, body := [], q := exPrompt, t := [32], isResp := true, isComplete := true }
/-- the device does not ask for a password: it answers `enable` with its prompt -/
def ixSt1b : Step := { echo := true, body := [], q := exPrompt, t := [32], isResp := false, isComplete := true }

theorem prefix_one {t' : Bytes} {c : UInt8} (h : t' <+: [c]) : t' = [] ∨ t' = [c] := by
  rcases t' with _ | ⟨a, _ | ⟨b, r⟩⟩
  · left; rfl
  · right
    obtain ⟨r, hr⟩ := h
    simp at hr
    simp [hr.1]
  · exfalso; have := h.length_le; simp at this

theorem invisible_not_infix {r s L : Bytes} (hr : squishBuf r ≠ []) (hs : s <:+: L) (hL : squishBuf L = []) :
    isInfixB r s = false := by
  rw [Bool.eq_false_iff]; intro h
  exact hr (squishBuf_infix_nil ((isInfixB_iff _ _).mp h) (squishBuf_infix_nil hs hL))

theorem short_not_infix {r s q p : Bytes} (hs : s <:+: q) (hq : q <+: p) (hne : q ≠ p) (hlen : p.length ≤ r.length) :
    isInfixB r s = false := by
  rw [Bool.eq_false_iff]; intro h
  have h1 := ((isInfixB_iff _ _).mp h).length_le
  have h2 := hs.length_le
  have h3 := hq.length_le
  exact hne (hq.eq_of_length (by omega))

theorem quiet_invisible {P : Bytes → Bool} {L : Bytes} (hP : ∀ s, s <:+: L → P s = false) (hnl : NL ∉ L) :
    Quiet P L := by
  intro ℓ hℓ s hs
  rw [splitNL_noNL L hnl] at hℓ
  have : ℓ = L := by simpa using hℓ
  subst this
  exact hP s hs

/-- the completion pattern list of these examples: the literal prompt text -/
def ixComplete : List Bytes := [exPrompt]

theorem ix_compl_lines : ∀ w, ixComplete.any (fun p => explicitSeen ixCfg p w) = (splitNL w).any (isInfixB exPrompt) := by
  intro w
  simp only [ixComplete, List.any_cons, List.any_nil, Bool.or_false]
  exact literal_lines ixCfg exPrompt (by decide) (by decide) (by decide) w

theorem ixGood1 : GoodStep ixCfg ixComplete (isInfixB ixPw) (isInfixB exPrompt) ixEv1 ixSt1 where
  no_nl := by decide
  no_bs := by decide
  plain := ⟨by decide, by decide⟩
  echoes := fun _ => ⟨rfl, by decide⟩
  resp_lines := literal_lines ixCfg ixPw (by decide) (by decide) (by decide)
  compl_lines := ix_compl_lines
  quiet := by
    intro L hL hLnl
    have : L ++ front ixEv1 ixSt1 ++ ixSt1.body = L := by simp [front, echoRead, ixEv1, ixSt1, ixPw]
    rw [this]
    refine quiet_invisible (fun s hs => ?_) hLnl
    simp only [Bool.or_eq_false_iff]
    exact ⟨invisible_not_infix (by decide) hs hL, invisible_not_infix (by decide) hs hL⟩
  noEarly := by
    intro q hq hne s hs
    simp only [Bool.or_eq_false_iff]
    refine ⟨short_not_infix hs hq hne (Nat.le_refl _), ?_⟩
    -- "r1#" does not occur in "Password:" at all
    rw [Bool.eq_false_iff]; intro h
    have h1 : exPrompt <:+: ixPw := (((isInfixB_iff _ _).mp h).trans hs).trans hq.isInfix
    have : isInfixB exPrompt ixPw = true := (isInfixB_iff _ _).mpr h1
    revert this; decide
  flags := by
    intro t' ht'
    rcases prefix_one ht' with e | e <;> subst e <;> decide
  stops := rfl
  q_ne := by decide
  q_nl := by decide
  q_plain := ⟨by decide, by decide⟩
  body_plain := ⟨by decide, by decide⟩
  t_hws := by decide
  fits_window := by decide

theorem ixGood2 : GoodStep ixCfg ixComplete exP (isInfixB exPrompt) ixEv2 ixSt2 where
  no_nl := by decide
  no_bs := by decide
  plain := ⟨by decide, by decide⟩
  echoes := fun h => absurd h (by decide)
  resp_lines := fun _ => rfl
  compl_lines := ix_compl_lines
  quiet := by
    intro L hL hLnl
    have : L ++ front ixEv2 ixSt2 ++ ixSt2.body = L := by simp [front, echoRead, ixEv2, ixSt2]
    rw [this]
    refine quiet_invisible (fun s hs => ?_) hLnl
    simp only [Bool.or_eq_false_iff]
    exact ⟨exFits.blank s (squishBuf_infix_nil hs hL), invisible_not_infix (by decide) hs hL⟩
  noEarly := by
    intro q hq hne s hs
    simp only [Bool.or_eq_false_iff]
    exact ⟨exFits.noEarly q hq hne s hs, short_not_infix hs hq hne (Nat.le_refl _)⟩
  flags := by
    intro t' ht'
    rcases prefix_one ht' with e | e <;> subst e <;> decide
  stops := rfl
  q_ne := by decide
  q_nl := by decide
  q_plain := ⟨by decide, by decide⟩
  body_plain := ⟨by decide, by decide⟩
  t_hws := by decide
  fits_window := by decide

theorem ixGood1b : GoodStep ixCfg ixComplete (isInfixB ixPw) (isInfixB exPrompt) ixEv1 ixSt1b where
  no_nl := by decide
  no_bs := by decide
  plain := ⟨by decide, by decide⟩
  echoes := fun _ => ⟨rfl, by decide⟩
  resp_lines := literal_lines ixCfg ixPw (by decide) (by decide) (by decide)
  compl_lines := ix_compl_lines
  quiet := by
    intro L hL hLnl
    have : L ++ front ixEv1 ixSt1b ++ ixSt1b.body = L := by simp [front, echoRead, ixEv1, ixSt1b, ixPw]
    rw [this]
    refine quiet_invisible (fun s hs => ?_) hLnl
    simp only [Bool.or_eq_false_iff]
    exact ⟨invisible_not_infix (by decide) hs hL, invisible_not_infix (by decide) hs hL⟩
  noEarly := by
    intro q hq hne s hs
    simp only [Bool.or_eq_false_iff]
    refine ⟨?_, short_not_infix hs hq hne (Nat.le_refl _)⟩
    exact short_not_infix hs hq hne (by decide)
  flags := by
    intro t' ht'
    rcases prefix_one ht' with e | e <;> subst e <;> decide
  stops := rfl
  q_ne := by decide
  q_nl := by decide
  q_plain := ⟨by decide, by decide⟩
  body_plain := ⟨by decide, by decide⟩
  t_hws := by decide
  fits_window := by decide

/-- the full dialogue, arbitrary read sizes, a blank left unread by the previous operation:
    the result is "enable\nPassword:\nr1#" -/
example (cuts : List Nat) :
    ∃ raw s', sendInputsInteract ixCfg scriptDev [ixEv1, ixEv2] ixComplete
        ({ avail := [32], cuts := cuts }, [ixSt1, ixSt2]) =
      some ((raw, [101, 110, 97, 98, 108, 101, 10, 80, 97, 115, 115, 119, 111, 114, 100, 58, 10, 114, 49, 35]), s') := by
  obtain ⟨raw, s', h⟩ := interact_result_normalized (cfg := ixCfg) (complete := ixComplete) rfl (Or.inl rfl)
    [(ixEv1, ixSt1), (ixEv2, ixSt2)] []
    (by
      intro p hp
      simp only [List.mem_cons, List.not_mem_nil, or_false] at hp
      rcases hp with e | e <;> subst e
      · exact ⟨_, _, ixGood1⟩
      · exact ⟨_, _, ixGood2⟩)
    { avail := [32], cuts := cuts } (by intro x hx; simp at hx; subst hx; decide) rfl
  have hv : normalizeText (((consumed ixComplete [(ixEv1, ixSt1), (ixEv2, ixSt2)]).map
      (fun p => stepText p.1 p.2)).flatten.dropWhile isWs) =
      [101, 110, 97, 98, 108, 101, 10, 80, 97, 115, 115, 119, 111, 114, 100, 58, 10, 114, 49, 35] := by decide
  exact ⟨raw, s', by rw [← hv]; simpa using h⟩

/-- the device needs no password (answers `enable` with its prompt): the session ends there, the
    password is NOT typed (writes are `enable` and one return), the device is left at the rest of
    its script — for arbitrary read sizes.  (What `fix: c887324` repaired.) -/
example (cuts : List Nat) :
    ∃ raw w', sendInputsInteract ixCfg scriptDev [ixEv1, ixEv2] ixComplete
        ({ cuts := cuts }, [ixSt1b, ixSt2]) =
      some ((raw, processOutput ixCfg (raw.dropWhile isWs) false), (w', [ixSt2])) ∧
      w'.writes = [[101, 110, 97, 98, 108, 101], [NL]] := by
  obtain ⟨raw, w', h1, _, _, _, h5, _⟩ := interact_exact (cfg := ixCfg) (complete := ixComplete) rfl (Or.inl rfl)
    [(ixEv1, ixSt1b), (ixEv2, ixSt2)] []
    (by
      intro p hp
      simp only [List.mem_cons, List.not_mem_nil, or_false] at hp
      rcases hp with e | e <;> subst e
      · exact ⟨_, _, ixGood1b⟩
      · exact ⟨_, _, ixGood2⟩)
    { cuts := cuts } (by simp) rfl
  exact ⟨raw, w', by simpa [consumed, Step.ends, ixSt1b, ixComplete] using h1,
    by simpa [consumed, Step.ends, ixSt1b, ixComplete, ixEv1, ixCfg] using h5⟩

/-- finding F23 (repaired by fix 4c94c83), in the model: WITHOUT the `lstrip()` a blank left unread by
    the previous operation would end up in front of an interactive result -/
example : normalizeText ([32] ++ [101, 10, 114, 49, 35]) ≠ normalizeText ([] ++ [101, 10, 114, 49, 35]) := by decide

end Scrapli.Chan
