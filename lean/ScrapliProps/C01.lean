import ScrapliProps.C01Lemmas
namespace Scrapli.Chan
open Scrapli.Gen.Chan
theorem ansi_pattern_pinned : ansiPatternIsPinned = true := by decide
end Scrapli.Chan
