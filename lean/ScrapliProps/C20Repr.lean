import ScrapliModel.Log
/-
  C20 helper: `repr(bytes)` as modelled (`reprBytes`) is injective — the payload shown in the log
  file determines the bytes, whatever quotes, backslashes, control or non-UTF-8 bytes they contain.
  Proved with a decoder for one escaped byte.
-/
namespace Scrapli.Log
open Scrapli

def hexVal (c : Char) : Nat := if c.toNat < 58 then c.toNat - 48 else c.toNat - 87

/-- reads one (possibly escaped) byte back from the inside of a bytes literal -/
def unescOne : Str → Option (UInt8 × Str)
  | [] => none
  | c :: rest =>
    if c != '\\' then some (UInt8.ofNat c.toNat, rest)
    else match rest with
      | [] => none
      | d :: rest' =>
        if d == 't' then some (9, rest')
        else if d == 'n' then some (10, rest')
        else if d == 'r' then some (13, rest')
        else if d == 'x' then
          match rest' with
          | h :: l :: rest'' => some (UInt8.ofNat (hexVal h * 16 + hexVal l), rest'')
          | _ => none
        else some (UInt8.ofNat d.toNat, rest')

theorem char_ofNat_toNat_small : ∀ n, n < 256 → (Char.ofNat n).toNat = n := by decide +kernel

theorem hexVal_hexDigit : ∀ k, k < 16 → hexVal (hexDigit k) = k := by decide +kernel

theorem byte_of_toNat (b : UInt8) (n : Nat) (h : b.toNat = n) : b = UInt8.ofNat n := by
  rw [← h, UInt8.ofNat_toNat]

theorem unescOne_esc (q : Char) (hq : q = '\'' ∨ q = '"') (b : UInt8) (rest : Str) :
    unescOne (escByte q b ++ rest) = some (b, rest) := by
  have hn : b.toNat < 256 := UInt8.toNat_lt b
  have hc : (Char.ofNat b.toNat).toNat = b.toNat := char_ofNat_toNat_small _ hn
  unfold escByte
  split
  · rename_i h
    have h' : b.toNat = q.toNat ∨ b.toNat = 92 := by
      simp only [Bool.or_eq_true, beq_iff_eq] at h
      rcases h with h | h
      · exact Or.inl h
      · exact Or.inr (by rw [h]; rfl)
    have h3 : b.toNat = 39 ∨ b.toNat = 34 ∨ b.toNat = 92 := by
      rcases h' with h' | h'
      · rcases hq with rfl | rfl
        · exact Or.inl h'
        · exact Or.inr (Or.inl h')
      · exact Or.inr (Or.inr h')
    rcases h3 with h3 | h3 | h3 <;> rw [h3, byte_of_toNat b _ h3] <;> rfl
  · split
    · rename_i h; simp only [beq_iff_eq] at h; subst h; rfl
    · split
      · rename_i h; simp only [beq_iff_eq] at h; subst h; rfl
      · split
        · rename_i h; simp only [beq_iff_eq] at h; subst h; rfl
        · split
          · -- \xNN
            have h1 : hexVal (hexDigit (b.toNat / 16)) = b.toNat / 16 := hexVal_hexDigit _ (by omega)
            have h2 : hexVal (hexDigit (b.toNat % 16)) = b.toNat % 16 := hexVal_hexDigit _ (by omega)
            have h3 : b.toNat / 16 * 16 + b.toNat % 16 = b.toNat := Nat.div_add_mod' _ _
            simp [unescOne, h1, h2, h3]
          · -- printable, not a backslash
            rename_i hnq _ _ _ hrange
            have hne : b.toNat ≠ 92 := by
              intro h92
              apply hnq
              simp [byte_of_toNat b 92 h92]
            have hcne : Char.ofNat b.toNat ≠ '\\' := by
              intro hh
              apply hne
              rw [← hc, hh]; rfl
            simp [unescOne, hcne, hc]

theorem escByte_ne_nil (q : Char) (b : UInt8) : escByte q b ≠ [] := by
  unfold escByte
  repeat' split
  all_goals simp

theorem flatMap_escByte_injective (q : Char) (hq : q = '\'' ∨ q = '"') :
    ∀ a b : Bytes, a.flatMap (escByte q) = b.flatMap (escByte q) → a = b := by
  intro a
  induction a with
  | nil =>
    intro b h
    cases b with
    | nil => rfl
    | cons y b' =>
      exfalso
      simp only [List.flatMap_nil, List.flatMap_cons] at h
      have := escByte_ne_nil q y
      cases he : escByte q y with
      | nil => exact this he
      | cons c t => rw [he] at h; simp at h
  | cons x a' ih =>
    intro b h
    cases b with
    | nil =>
      exfalso
      simp only [List.flatMap_nil, List.flatMap_cons] at h
      have := escByte_ne_nil q x
      cases he : escByte q x with
      | nil => exact this he
      | cons c t => rw [he] at h; simp at h
    | cons y b' =>
      simp only [List.flatMap_cons] at h
      have h1 := unescOne_esc q hq x (a'.flatMap (escByte q))
      have h2 := unescOne_esc q hq y (b'.flatMap (escByte q))
      rw [h, h2] at h1
      simp only [Option.some.injEq, Prod.mk.injEq] at h1
      obtain ⟨hxy, hrest⟩ := h1
      rw [hxy, ih b' hrest.symm]

/-- the rendering of a payload in the log determines the payload -/
theorem reprBytes_injective (a b : Bytes) (h : reprBytes a = reprBytes b) : a = b := by
  unfold reprBytes at h
  simp only [List.cons.injEq, true_and] at h
  obtain ⟨hq, hbody⟩ := h
  rw [← hq] at hbody
  have hq' : (if (a.contains 39 && !a.contains 34) = true then '"' else '\'') = '\'' ∨
      (if (a.contains 39 && !a.contains 34) = true then '"' else '\'') = '"' := by
    split
    · exact Or.inr rfl
    · exact Or.inl rfl
  exact flatMap_escByte_injective _ hq' a b (List.append_cancel_right hbody)

end Scrapli.Log
