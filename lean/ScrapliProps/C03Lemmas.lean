import ScrapliProps.C04
/-
  Helper lemmas for C03: the belief invariant of the closed system (driver + mode device, ANY set of
  blocked transitions, any password configuration) and the level at which user lines are executed.
  Property theorems are in C03.lean.
-/
namespace Scrapli.Priv
open Scrapli.Gen.Priv

/-! ### the mode device, seen from outside -/

/-- where a line takes the device when it answers with a prompt -/
def devStep (cfg : MCfg) (t : Table) (m : Name) (line : Line) : Name :=
  if (m, line) ∈ cfg.blocked then m
  else match tableMove t cfg.extra m line with
    | some (tgt, _) => tgt
    | none => m

/-- environment assumptions for one table: a bare return moves nothing, the vendor moves outside the
    table lead to table levels, and the table lies in the domain of the device assumption (`SessPrefixFree`) -/
structure EnvOK (cfg : MCfg) (t : Table) : Prop where
  inertRet : ∀ m, tableMove t cfg.extra m "" = none
  extraIn : ∀ e ∈ cfg.extra, e.2.2 ∈ names t
  /-- the table is inside the domain of the device assumption: no session key covers another
      (EOS names that are prefix- or case-related are excluded — there the real prompts overlap, finding F24) -/
  prefixFree : SessPrefixFree t

theorem tableMove_target {cfg : MCfg} {t : Table} (hw : WF t) (he : EnvOK cfg t) {m : Name} {line : Line} {tgt : Name} {ask : Bool}
    (h : tableMove t cfg.extra m line = some (tgt, ask)) : tgt ∈ names t := by
  unfold tableMove at h
  split at h
  · rename_i r hr
    cases h
    split at hr
    · rename_i l hl
      split at hr
      · rename_i hc
        cases hr
        exact hw.prevIn l (lookup_some hl).1 hc.1
      · cases hr
    · cases hr
  · split at h
    · rename_i l hl
      cases h
      exact List.mem_map_of_mem (f := (·.name)) (List.mem_of_find?_eq_some hl)
    · split at h
      · rename_i e hfe
        cases h
        exact he.extraIn e (List.mem_of_find?_eq_some hfe)
      · cases h

theorem devStep_mem {cfg : MCfg} {t : Table} (hw : WF t) (he : EnvOK cfg t) {m : Name} (hm : m ∈ names t) (line : Line) :
    devStep cfg t m line ∈ names t := by
  unfold devStep
  split
  · exact hm
  · split
    · rename_i tgt ask h; exact tableMove_target hw he h
    · exact hm

/-- the device state is sane: its level is a table level, and so is the level it may be waiting to enter -/
structure DevOK (t : Table) (s : MDev) : Prop where
  modeIn : s.mode ∈ names t
  pendIn : ∀ tgt, s.pending = some tgt → tgt ∈ names t

/-- every reaction keeps the device sane; a prompt is the prompt of the level it is then in, with
    nothing pending; from an idle device a prompt means it went where `devStep` says -/
theorem exec_ok {cfg : MCfg} {t : Table} (hw : WF t) (he : EnvOK cfg t) {s : MDev} (hs : DevOK t s) (line : Line) :
    DevOK t (MDev.exec cfg t s line).1 ∧
    (∀ keys f, (MDev.exec cfg t s line).2 = .prompt keys f →
      keys = promptKey t (MDev.exec cfg t s line).1.mode ∧ (MDev.exec cfg t s line).1.pending = none ∧
      (s.pending = none → (MDev.exec cfg t s line).1.mode = devStep cfg t s.mode line)) ∧
    (MDev.exec cfg t s line).2 ≠ .silent ∧
    (s.pending = none → (MDev.exec cfg t s line).2 = .password → (MDev.exec cfg t s line).1.mode = s.mode) := by
  unfold MDev.exec
  cases hp : s.pending with
  | some tgt =>
    have htgt := hs.pendIn tgt hp
    simp only
    split
    · exact ⟨⟨htgt, by simp⟩, (by intro keys f h; cases h; exact ⟨rfl, rfl, by simp⟩), by simp, by simp⟩
    · split
      · exact ⟨⟨hs.modeIn, by simpa [hp] using hs.pendIn⟩, (by intro keys f h; cases h), by simp, by simp⟩
      · exact ⟨⟨hs.modeIn, by simp⟩, (by intro keys f h; cases h; exact ⟨rfl, rfl, by simp⟩), by simp, by simp⟩
  | none =>
    simp only
    by_cases hb : (s.mode, line) ∈ cfg.blocked
    · simp only [hb, if_true]
      exact ⟨⟨hs.modeIn, by simp⟩, (by intro keys f h; cases h; exact ⟨rfl, by simp, by simp [devStep, hb]⟩), by simp, by simp⟩
    · simp only [hb, if_false]
      cases hm : tableMove t cfg.extra s.mode line with
      | none =>
        exact ⟨⟨hs.modeIn, by simp⟩, (by intro keys f h; cases h; exact ⟨rfl, by simp, by simp [devStep, hb, hm]⟩), by simp, by simp⟩
      | some r =>
        obtain ⟨tgt, ask⟩ := r
        have htgt := tableMove_target hw he hm
        simp only
        split
        · exact ⟨⟨hs.modeIn, by simp; exact htgt⟩, (by intro keys f h; cases h), by simp, by simp⟩
        · exact ⟨⟨htgt, by simp⟩, (by intro keys f h; cases h; exact ⟨rfl, by simp, by simp [devStep, hb, hm]⟩), by simp, by simp⟩

/-! ### the channel primitives against any mode device -/

/-- the channel is sane: the device is, and while the transport is open nothing is pending -/
structure ChOK (t : Table) (ch : Chan MDev) : Prop where
  dev : DevOK t ch.dev
  idle : ch.closed = false → ch.dev.pending = none

theorem io_ok {cfg : MCfg} {t : Table} (hw : WF t) (he : EnvOK cfg t) {ch : Chan MDev} (hc : ChOK t ch) (line : Line) :
    DevOK t (io (modeDev cfg) t ch line).1.dev ∧ (io (modeDev cfg) t ch line).1.closed = ch.closed ∧
    ((io (modeDev cfg) t ch line).2 = none → (io (modeDev cfg) t ch line).1 = ch ∧ ch.closed = true) ∧
    (∀ keys f, (io (modeDev cfg) t ch line).2 = some (.prompt keys f) →
      keys = promptKey t (io (modeDev cfg) t ch line).1.dev.mode ∧ (io (modeDev cfg) t ch line).1.dev.pending = none ∧
      (io (modeDev cfg) t ch line).1.dev.mode = devStep cfg t ch.dev.mode line) ∧
    (io (modeDev cfg) t ch line).2 ≠ some .silent ∧
    ((io (modeDev cfg) t ch line).2 = some .password → (io (modeDev cfg) t ch line).1.dev.mode = ch.dev.mode) := by
  by_cases hcl : ch.closed = true
  · have e : io (modeDev cfg) t ch line = (ch, none) := by unfold io; simp [hcl]
    rw [e]
    exact ⟨hc.dev, rfl, fun _ => ⟨rfl, hcl⟩, (by intro _ _ h; cases h), (by simp), (by intro h; cases h)⟩
  · have hcl' : ch.closed = false := by simpa using hcl
    obtain ⟨e1, e2, e3, e4⟩ := exec_ok hw he hc.dev line (cfg := cfg)
    have hidle := hc.idle hcl'
    have e : io (modeDev cfg) t ch line =
        ({ ch with dev := (MDev.exec cfg t ch.dev line).1 }, some (MDev.exec cfg t ch.dev line).2) := by
      unfold io; simp [hcl', modeDev]
    rw [e]
    refine ⟨e1, rfl, (by intro h; cases h), ?_, ?_, ?_⟩
    · intro keys f h
      obtain ⟨k1, k2, k3⟩ := e2 keys f (Option.some.inj h)
      exact ⟨k1, k2, k3 hidle⟩
    · intro h; exact e3 (Option.some.inj h)
    · intro h; exact e4 hidle (Option.some.inj h)

theorem getPrompt_ok {cfg : MCfg} {t : Table} (hw : WF t) (he : EnvOK cfg t) {ch : Chan MDev} (hc : ChOK t ch) :
    ChOK t (getPrompt (modeDev cfg) t ch).1 ∧ (getPrompt (modeDev cfg) t ch).1.dev.mode = ch.dev.mode ∧
    (∀ cls, (getPrompt (modeDev cfg) t ch).2 = .ok cls →
      (getPrompt (modeDev cfg) t ch).1.closed = false ∧ cls = classify t (promptKey t ch.dev.mode)) := by
  obtain ⟨i1, i2, i3, i4, i5, i6⟩ := io_ok hw he hc "" (cfg := cfg)
  have hret : devStep cfg t ch.dev.mode "" = ch.dev.mode := by
    unfold devStep; split; rfl; rw [he.inertRet]
  unfold getPrompt
  split <;> rename_i heq <;> rw [heq] at i1 i2 i3 i4 i5 i6
  · obtain ⟨h1, h2⟩ := i3 rfl
    simp only at h1; subst h1
    exact ⟨⟨hc.dev, by intro h; simp at h; rw [h2] at h; cases h⟩, rfl, (by intro cls h; cases h)⟩
  · rename_i ch1 keys f
    obtain ⟨k1, k2, k3⟩ := i4 keys f rfl
    simp only at k1 k2 k3 i1 i2
    refine ⟨⟨i1, fun _ => k2⟩, by simp [k3, hret], ?_⟩
    intro cls h
    cases h
    have : ch.closed = false := by
      by_cases hcl : ch.closed = true
      · have := (io_ok hw he hc "" (cfg := cfg)).2.2.1
        unfold io at heq
        simp [hcl] at heq
      · simpa using hcl
    exact ⟨by simp [i2, this], by rw [k1, k3, hret]⟩
  · rename_i ch1 r hr
    refine ⟨⟨i1, by intro h; simp [timedOut] at h⟩, ?_, (by intro cls h; cases h)⟩
    cases r with
    | prompt keys f => exact absurd rfl (hr keys f)
    | password => simpa [timedOut] using i6 rfl
    | silent => exact absurd rfl i5

theorem sendInput_ok {cfg : MCfg} {t : Table} (hw : WF t) (he : EnvOK cfg t) {ch : Chan MDev} (hc : ChOK t ch) (line : Line) :
    ChOK t (sendInput (modeDev cfg) t ch line).1 ∧
    (∀ f, (sendInput (modeDev cfg) t ch line).2 = .ok f →
      (sendInput (modeDev cfg) t ch line).1.dev.mode = devStep cfg t ch.dev.mode line ∧
      (sendInput (modeDev cfg) t ch line).1.closed = ch.closed) ∧
    (∀ e, (sendInput (modeDev cfg) t ch line).2 = .error e →
      (sendInput (modeDev cfg) t ch line).1.dev.mode = ch.dev.mode) := by
  obtain ⟨i1, i2, i3, i4, i5, i6⟩ := io_ok hw he hc line (cfg := cfg)
  unfold sendInput
  split <;> rename_i heq <;> rw [heq] at i1 i2 i3 i4 i5 i6
  · obtain ⟨h1, h2⟩ := i3 rfl
    simp only at h1; subst h1
    exact ⟨hc, (by intro f h; cases h), (by intro e _; rfl)⟩
  · rename_i ch1 keys f
    obtain ⟨k1, k2, k3⟩ := i4 keys f rfl
    exact ⟨⟨i1, fun _ => k2⟩, (by intro f' _; exact ⟨k3, i2⟩), (by intro e h; cases h)⟩
  · rename_i ch1 r hr
    refine ⟨⟨i1, by intro h; simp [timedOut] at h⟩, (by intro f h; cases h), ?_⟩
    intro e _
    cases r with
    | prompt keys f => exact absurd rfl (hr keys f)
    | password => simpa [timedOut] using i6 rfl
    | silent => exact absurd rfl i5

theorem escalateSecond_ok {cfg : MCfg} {t : Table} (hw : WF t) (he : EnvOK cfg t) (c : Cfg) {ch1 : Chan MDev} (i1 : DevOK t ch1.dev)
    (l p : Level) : ChOK t (escalateSecond c (modeDev cfg) t ch1 l p).1 := by
  -- the device may be pending here, so use exec_ok directly
  unfold escalateSecond io
  by_cases hcl : ch1.closed = true
  · simp only [hcl, if_true]
    exact ⟨i1, by intro h; rw [hcl] at h; cases h⟩
  · have hcl' : ch1.closed = false := by simpa using hcl
    obtain ⟨e1, e2, e3, _⟩ := exec_ok hw he i1 c.secondary (cfg := cfg)
    simp only [hcl', Bool.false_eq_true, if_false, modeDev]
    split
    · rename_i hd
      cases hr : (MDev.exec cfg t ch1.dev c.secondary).2 with
      | prompt keys f => exact ⟨e1, fun _ => (e2 keys f hr).2.1⟩
      | password => rw [hr] at hd; simp [eventDone] at hd
      | silent => exact absurd hr e3
    · exact ⟨e1, by intro h; simp [timedOut] at h⟩

theorem escalateAuth_ok {cfg : MCfg} {t : Table} (hw : WF t) (he : EnvOK cfg t) (c : Cfg) {ch : Chan MDev} (hc : ChOK t ch)
    (l p : Level) : ChOK t (escalateAuth c (modeDev cfg) t ch l p).1 := by
  obtain ⟨i1, i2, i3, i4, i5, i6⟩ := io_ok hw he hc l.esc (cfg := cfg)
  unfold escalateAuth
  split <;> rename_i heq <;> rw [heq] at i1 i2 i3 i4 i5 i6
  · obtain ⟨h1, _⟩ := i3 rfl
    simp only at h1; subst h1; exact hc
  · rename_i ch1 r1
    simp only at i1 i2
    split
    · split
      · -- event 1 ended on a completion pattern: a prompt, nothing pending
        rename_i hbr
        cases r1 with
        | prompt keys f => exact ⟨i1, fun _ => (i4 keys f rfl).2.1⟩
        | password => simp [endedOnComplete] at hbr
        | silent => simp [endedOnComplete] at hbr
      · exact escalateSecond_ok hw he c i1 l p
    · exact ⟨i1, by intro h; simp [timedOut] at h⟩

theorem escalate_ok {cfg : MCfg} {t : Table} (hw : WF t) (he : EnvOK cfg t) (c : Cfg) {ch : Chan MDev} (hc : ChOK t ch)
    (l : Level) : ChOK t (escalate c (modeDev cfg) t ch l).1 := by
  unfold escalate
  split
  · have := (sendInput_ok hw he hc l.esc (cfg := cfg)).1
    split <;> rename_i heq <;> rw [heq] at this <;> exact this
  · split
    · exact hc
    · exact escalateAuth_ok hw he c hc l _

/-! ### the belief invariant -/

/-- a line that never changes the device's level (a user line, by the property's assumption "the
    device's mode is changed only by the driver's own actions") -/
def Inert (cfg : MCfg) (t : Table) (line : Line) : Prop := ∀ m, devStep cfg t m line = m

def sessOf (t : Table) (m : Name) : Bool := match lookup t m with | some l => l.sess | none => false

/-- the levels in which the nested `send_configs` of an `_abort_config` may run its lines -/
def NestedLevel (arg : LevelArg) (m : Name) : Prop :=
  match arg with
  | .default => m = configLevel
  | _ => True

/-- device assumption for the platform's abort step: the abort line takes the device to the level
    the driver then believes (IOS-XR `abort`, EOS / NX-OS `abort` in a session, Junos `exit` after
    lines that do not move) -/
def AbortOK (cfg : MCfg) (t : Table) : AbortSpec → Prop
  | .none => True
  | .always cmd lvl => ∀ m ∈ names t, devStep cfg t m cmd = lvl
  | .ifSession cmd lvl => ∀ m ∈ names t, sessOf t m = true → devStep cfg t m cmd = lvl
  | .viaConfigs lines arg lvl => ∃ pre last, lines = pre ++ [last] ∧ (∀ x ∈ pre, Inert cfg t x) ∧
      ∀ m ∈ names t, NestedLevel arg m → devStep cfg t m last = lvl

/-- the invariant of C03: sane table, environment and channel; and — as long as the ghost hazard flag
    is down — the belief is unknown or names the device's true level, and every user line executed so
    far ran in the level its operation named -/
structure Inv (c : Cfg) (cfg : MCfg) (w : W MDev) : Prop where
  wf : WF w.tbl
  env : EnvOK cfg w.tbl
  dflt : c.default ∈ names w.tbl
  abort : AbortOK cfg w.tbl c.abort
  ch : ChOK w.tbl w.ch
  sound : w.hazard = false → (w.belief = DUMMY ∨ w.belief = w.ch.dev.mode)
  ulog : w.hazard = false → ∀ u ∈ w.ulog, ∀ a, u.asked = some a → u.actual = a

theorem getPrompt_ne_ok {σ : Type} (d : Dev σ) (t : Table) (ch : Chan σ) : (getPrompt d t ch).2 ≠ .error .ok := by
  unfold getPrompt; repeat' split
  all_goals simp

theorem sendInput_ne_ok {σ : Type} (d : Dev σ) (t : Table) (ch : Chan σ) (line : Line) :
    (sendInput d t ch line).2 ≠ .error .ok := by
  unfold sendInput; repeat' split
  all_goals simp

theorem nextAction_ne {t : Table} {nb : Name → List Name} {cur : Level} {dest : Name} :
    nextAction t nb cur dest ≠ .error .ok ∧ nextAction t nb cur dest ≠ .ok .noAction := by
  unfold nextAction; repeat' split
  all_goals simp

/-- what `_process_acquire_priv` does to the belief -/
theorem processAcquire_spec (t : Table) (nb : Name → List Name) (belief dest : Name) (cls : List Name) :
    ((processAcquire t nb belief dest cls).2 = .ok .noAction →
      (processAcquire t nb belief dest cls).1 = dest ∧
      ∃ c0 rest, cls = c0 :: rest ∧ pickCurrent belief dest cls c0 = dest) ∧
    ((processAcquire t nb belief dest cls).2 ≠ .ok .noAction →
      ((processAcquire t nb belief dest cls).1 = belief ∧ ∃ e, (processAcquire t nb belief dest cls).2 = .error e) ∨
      (processAcquire t nb belief dest cls).1 = DUMMY) ∧
    (processAcquire t nb belief dest cls).2 ≠ .error .ok := by
  cases cls with
  | nil =>
    have e : processAcquire t nb belief dest [] = (belief, .error .privErr) := rfl
    rw [e]
    exact ⟨(by intro h; cases h), (fun _ => Or.inl ⟨rfl, _, rfl⟩), (by simp)⟩
  | cons c0 rest =>
    cases hl : lookup t (pickCurrent belief dest (c0 :: rest) c0) with
    | none =>
      have e : processAcquire t nb belief dest (c0 :: rest) = (belief, .error .keyErr) := by
        unfold processAcquire; simp only [hl]
      rw [e]
      exact ⟨(by intro h; cases h), (fun _ => Or.inl ⟨rfl, _, rfl⟩), (by simp)⟩
    | some cur =>
      by_cases hd : cur.name = dest
      · have e : processAcquire t nb belief dest (c0 :: rest) = (dest, .ok .noAction) := by
          unfold processAcquire; simp only [hl, hd, if_true]
        rw [e]
        exact ⟨(fun _ => ⟨rfl, c0, rest, rfl, (lookup_some hl).2.symm.trans hd⟩), (fun h => absurd rfl h), (by simp)⟩
      · have e : processAcquire t nb belief dest (c0 :: rest) = (DUMMY, nextAction t nb cur dest) := by
          unfold processAcquire; simp only [hl, hd, if_false]
        rw [e]
        exact ⟨(fun h => absurd h nextAction_ne.2), (fun _ => Or.inr rfl), nextAction_ne.1⟩

theorem mode_lookup {t : Table} {m : Name} (hm : m ∈ names t) : ∃ lm, lookup t m = some lm :=
  Option.isSome_iff_exists.mp (lookup_isSome_iff.mpr hm)

/-- **one pass of the acquire loop preserves the invariant, whatever the device does** (it may
    refuse, ignore, ask for passwords, fall silent); and if the pass reports arrival with the hazard
    flag down, the device really is in the destination -/
theorem acquireIter_inv {cfg : MCfg} (c : Cfg) (dest : Name) {w : W MDev} (hi : Inv c cfg w) :
    Inv c cfg (acquireIter c (modeDev cfg) dest w).1 ∧
    ((acquireIter c (modeDev cfg) dest w).1.hazard = false → w.hazard = false) ∧
    ((acquireIter c (modeDev cfg) dest w).2 = some .ok → (acquireIter c (modeDev cfg) dest w).1.hazard = false →
      (acquireIter c (modeDev cfg) dest w).1.belief = dest ∧ (acquireIter c (modeDev cfg) dest w).1.ch.dev.mode = dest) := by
  obtain ⟨g1, g2, g3⟩ := getPrompt_ok hi.wf hi.env hi.ch (cfg := cfg)
  have gne := getPrompt_ne_ok (modeDev cfg) w.tbl w.ch
  unfold acquireIter
  split <;> rename_i heq <;> rw [heq] at g1 g2 g3 gne
  · -- get_prompt failed: nothing but the channel changed, the device did not move
    rename_i ch1 e
    refine ⟨⟨hi.wf, hi.env, hi.dflt, hi.abort, g1, ?_, hi.ulog⟩, id, ?_⟩
    · intro h; rcases hi.sound h with h' | h'
      · exact Or.inl h'
      · exact Or.inr (h'.trans g2.symm)
    · intro h; simp only [Option.some.injEq] at h; subst h; exact absurd rfl gne
  · rename_i ch1 cls
    obtain ⟨hopen, hcls⟩ := g3 cls rfl
    simp only at g1 g2 hopen
    obtain ⟨lm, hlm⟩ := mode_lookup hi.ch.dev.modeIn
    have hmem : w.ch.dev.mode ∈ cls := hcls ▸ self_mem_classify hlm
    have hnd : DUMMY ∉ cls := fun h => hi.wf.noDummy (classify_sub (hcls ▸ h))
    obtain ⟨p1, p2, p3⟩ := processAcquire_spec w.tbl (c.ord w.tbl) w.belief dest cls
    -- the ghost flag after this pass
    generalize hhz : (w.hazard || (w.belief == DUMMY && cls.contains dest && (modeDev cfg).mode ch1.dev != dest)) = hz
    have hmono : hz = false → w.hazard = false := by
      intro h; rw [← hhz] at h; simp only [Bool.or_eq_false_iff] at h; exact h.1
    simp only
    split <;> rename_i heq2 <;> rw [heq2] at p1 p2 p3
    · -- an exception of _process_acquire_priv
      rename_i b e
      refine ⟨⟨hi.wf, hi.env, hi.dflt, hi.abort, g1, ?_, fun h => hi.ulog (hmono h)⟩, hmono, ?_⟩
      · intro h
        rcases p2 (by simp) with ⟨hb, _⟩ | hb
        · simp only at hb
          rcases hi.sound (hmono h) with h' | h'
          · exact Or.inl (hb.trans h')
          · exact Or.inr ((hb.trans h').trans g2.symm)
        · exact Or.inl hb
      · intro h; simp only [Option.some.injEq] at h; subst h; exact absurd rfl p3
    · -- NO_ACTION: arrival
      rename_i b
      obtain ⟨hb, c0, rest, hc0, hpick⟩ := p1 rfl
      simp only at hb
      have harr : hz = false → w.ch.dev.mode = dest := by
        intro h
        have hs := hi.sound (hmono h)
        unfold pickCurrent at hpick
        by_cases h1 : w.belief ∈ cls
        · simp only [h1, if_true] at hpick
          rcases hs with h' | h'
          · exact absurd (h' ▸ h1) hnd
          · rw [← h', hpick]
        · simp only [h1, if_false] at hpick
          have hbd : w.belief = DUMMY := by
            rcases hs with h' | h'
            · exact h'
            · exact absurd (h' ▸ hmem) h1
          by_cases h2 : dest ∈ cls
          · rw [← hhz] at h
            simp only [Bool.or_eq_false_iff, Bool.and_eq_false_iff] at h
            rcases h.2 with (h3 | h3) | h3
            · simp [hbd] at h3
            · simp [h2] at h3
            · have : ch1.dev.mode = dest := by simpa [modeDev] using h3
              rw [← g2]; exact this
          · simp only [h2, if_false] at hpick
            exact absurd (hpick ▸ hc0 ▸ List.mem_cons_self) h2
      refine ⟨⟨hi.wf, hi.env, hi.dflt, hi.abort, g1, ?_, fun h => hi.ulog (hmono h)⟩, hmono, ?_⟩
      · intro h; exact Or.inr (hb.trans ((harr h).symm.trans g2.symm))
      · intro _ h; exact ⟨hb, g2.trans (harr h)⟩
    · -- de-escalate: belief := DUMMY first
      rename_i b l
      have hb : b = DUMMY := by
        rcases p2 (by simp) with ⟨_, e, he⟩ | hb
        · cases he
        · exact hb
      obtain ⟨s1, _, _⟩ := sendInput_ok hi.wf hi.env g1 l.desc (cfg := cfg)
      have sne := sendInput_ne_ok (modeDev cfg) w.tbl ch1 l.desc
      split <;> rename_i heq3 <;> rw [heq3] at s1 sne
      · refine ⟨⟨hi.wf, hi.env, hi.dflt, hi.abort, s1, fun _ => Or.inl hb, fun h => hi.ulog (hmono h)⟩, hmono, ?_⟩
        intro h; simp only [Option.some.injEq] at h; subst h; exact absurd rfl sne
      · exact ⟨⟨hi.wf, hi.env, hi.dflt, hi.abort, s1, fun _ => Or.inl hb, fun h => hi.ulog (hmono h)⟩, hmono, by intro h; cases h⟩
    · -- escalate: belief := DUMMY first
      rename_i b l
      have hb : b = DUMMY := by
        rcases p2 (by simp) with ⟨_, e, he⟩ | hb
        · cases he
        · exact hb
      have s1 := escalate_ok hi.wf hi.env c g1 l (cfg := cfg)
      split <;> rename_i heq3 <;> rw [heq3] at s1
      · exact ⟨⟨hi.wf, hi.env, hi.dflt, hi.abort, s1, fun _ => Or.inl hb, fun h => hi.ulog (hmono h)⟩, hmono, by intro h; cases h⟩
      · rename_i hne
        refine ⟨⟨hi.wf, hi.env, hi.dflt, hi.abort, s1, fun _ => Or.inl hb, fun h => hi.ulog (hmono h)⟩, hmono, ?_⟩
        intro h; simp only [Option.some.injEq] at h; subst h; exact (hne rfl).elim

/-- what an acquisition establishes: the invariant, the frame, hazard monotonicity, and — when it
    returns normally with the hazard flag down — belief = device level = destination -/
structure AcqPost (c : Cfg) (cfg : MCfg) (dest : Name) (w : W MDev) (r : W MDev × Outcome) : Prop where
  inv : Inv c cfg r.1
  tbl : r.1.tbl = w.tbl
  generic : r.1.generic = w.generic
  ulog : r.1.ulog = w.ulog
  mono : r.1.hazard = false → w.hazard = false
  arrive : r.2 = .ok → r.1.hazard = false → r.1.belief = dest ∧ r.1.ch.dev.mode = dest

theorem acquireLoop_inv {cfg : MCfg} (c : Cfg) (dest : Name) :
    ∀ (fuel count : Nat) {w : W MDev}, Inv c cfg w → AcqPost c cfg dest w (acquireLoop c (modeDev cfg) dest fuel count w) := by
  intro fuel
  induction fuel with
  | zero => intro count w hi; exact ⟨hi, rfl, rfl, rfl, id, by intro h; cases h⟩
  | succ fuel ih =>
    intro count w hi
    obtain ⟨a1, a2, a3⟩ := acquireIter_inv c dest hi
    obtain ⟨f1, f2, f3, _⟩ := acquireIter_frame c (modeDev cfg) dest w
    unfold acquireLoop
    split <;> rename_i heq <;> rw [heq] at a1 a2 a3 f1 f2 f3
    · rename_i w1 o
      exact ⟨a1, f1, f2, f3, a2, by intro h; simp only at h; subst h; exact a3 rfl⟩
    · rename_i w1
      split
      · exact ⟨a1, f1, f2, f3, a2, by intro h; cases h⟩
      · have p := ih (count + 1) a1
        exact ⟨p.inv, p.tbl.trans f1, p.generic.trans f2, p.ulog.trans f3, fun h => a2 (p.mono h), p.arrive⟩

theorem acquirePriv_inv {cfg : MCfg} (c : Cfg) (dest : Name) {w : W MDev} (hi : Inv c cfg w) :
    AcqPost c cfg dest w (acquirePriv c (modeDev cfg) w dest) := by
  unfold acquirePriv
  split
  · exact ⟨hi, rfl, rfl, rfl, id, by intro h; cases h⟩
  · exact acquireLoop_inv c dest _ _ hi

/-- `_acquire_appropriate_privilege_level`: afterwards either nothing was asked for (generic mode, no
    level named) or belief = device level = the resolved level (hazard flag down) -/
theorem acquireAppropriate_inv {cfg : MCfg} (c : Cfg) (level : Name) {w : W MDev} (hi : Inv c cfg w) :
    Inv c cfg (acquireAppropriate c (modeDev cfg) w level).1 ∧
    (acquireAppropriate c (modeDev cfg) w level).1.tbl = w.tbl ∧
    (acquireAppropriate c (modeDev cfg) w level).1.generic = w.generic ∧
    (acquireAppropriate c (modeDev cfg) w level).1.ulog = w.ulog ∧
    ((acquireAppropriate c (modeDev cfg) w level).1.hazard = false → w.hazard = false) ∧
    ((acquireAppropriate c (modeDev cfg) w level).2 = .ok → (acquireAppropriate c (modeDev cfg) w level).1.hazard = false →
      (level = "" ∧ w.generic = true) ∨
      ((acquireAppropriate c (modeDev cfg) w level).1.belief = (if level ≠ "" then level else c.default) ∧
       (acquireAppropriate c (modeDev cfg) w level).1.ch.dev.mode = (if level ≠ "" then level else c.default))) := by
  unfold acquireAppropriate
  by_cases h1 : level = "" ∧ w.generic = true
  · rw [if_pos h1]; exact ⟨hi, rfl, rfl, rfl, id, fun _ _ => Or.inl h1⟩
  · rw [if_neg h1]
    by_cases h2 : level ≠ "" ∧ (lookup w.tbl level).isNone = true
    · rw [if_pos h2]; exact ⟨hi, rfl, rfl, rfl, id, by intro h; cases h⟩
    · rw [if_neg h2]
      simp only
      have hres : (if level ≠ "" then level else c.default) ∈ names w.tbl := by
        by_cases hl : level = ""
        · simp only [hl, ne_eq, not_true_eq_false, if_false]; exact hi.dflt
        · simp only [ne_eq, hl, not_false_eq_true, if_true]
          have : ¬ (lookup w.tbl level).isNone = true := fun h => h2 ⟨hl, h⟩
          apply lookup_isSome_iff.mp
          cases hlk : lookup w.tbl level <;> simp_all
      by_cases hb : w.belief ≠ (if level ≠ "" then level else c.default)
      · rw [if_pos hb]
        have p := acquirePriv_inv c (if level ≠ "" then level else c.default) hi (cfg := cfg)
        exact ⟨p.inv, p.tbl, p.generic, p.ulog, p.mono, fun h1 h2 => Or.inr (p.arrive h1 h2)⟩
      · rw [if_neg hb]
        have hb' : w.belief = (if level ≠ "" then level else c.default) := by simpa using hb
        refine ⟨hi, rfl, rfl, rfl, id, fun _ h => Or.inr ⟨hb', ?_⟩⟩
        rcases hi.sound h with h' | h'
        · exact absurd (by rw [← hb', h'] at hres; exact hres) hi.wf.noDummy
        · exact h'.symm.trans hb'

/-! ### sending lines -/

/-- what sending a list of lines establishes -/
structure SendPost (c : Cfg) (cfg : MCfg) (w : W MDev) (r : W MDev) : Prop where
  inv : Inv c cfg r
  tbl : r.tbl = w.tbl
  generic : r.generic = w.generic
  belief : r.belief = w.belief
  hazard : r.hazard = w.hazard

/-- user lines: all of them reach the device in the level it was in, which is the level asked for -/
theorem sendLines_inert {cfg : MCfg} (c : Cfg) (tag : Option (Option Name × Kind)) (stop : Bool) :
    ∀ (lines : List Line) (anyF : Bool) {w : W MDev}, Inv c cfg w → (∀ x ∈ lines, Inert cfg w.tbl x) →
      (w.hazard = false → ∀ asked kind a, tag = some (asked, kind) → asked = some a → w.ch.dev.mode = a) →
      SendPost c cfg w (sendLines (modeDev cfg) tag stop lines anyF w).1 ∧
      (sendLines (modeDev cfg) tag stop lines anyF w).1.ch.dev.mode = w.ch.dev.mode := by
  intro lines
  induction lines with
  | nil => intro anyF w hi _ _; exact ⟨⟨hi, rfl, rfl, rfl, rfl⟩, rfl⟩
  | cons line rest ih =>
    intro anyF w hi hin hask
    obtain ⟨s1, s2, s3⟩ := sendInput_ok hi.wf hi.env hi.ch line (cfg := cfg)
    have hinert := hin line (by simp) w.ch.dev.mode
    unfold sendLines
    split <;> rename_i heq <;> rw [heq] at s1 s2 s3
    · rename_i ch1 e
      have hm : ch1.dev.mode = w.ch.dev.mode := s3 e rfl
      refine ⟨⟨⟨hi.wf, hi.env, hi.dflt, hi.abort, s1, ?_, hi.ulog⟩, rfl, rfl, rfl, rfl⟩, hm⟩
      intro h; rcases hi.sound h with h' | h'
      · exact Or.inl h'
      · exact Or.inr (h'.trans hm.symm)
    · rename_i ch1 failed
      have hm : ch1.dev.mode = w.ch.dev.mode := (s2 failed rfl).1.trans hinert
      -- the world after this line
      have hi1 : Inv c cfg { w with ch := ch1, ulog := tagLog tag w.ulog ((modeDev cfg).mode w.ch.dev) line } := by
        refine ⟨hi.wf, hi.env, hi.dflt, hi.abort, s1, ?_, ?_⟩
        · intro h; rcases hi.sound h with h' | h'
          · exact Or.inl h'
          · exact Or.inr (h'.trans hm.symm)
        · intro h u hu a ha
          cases tag with
          | none => exact hi.ulog h u hu a ha
          | some tg =>
            obtain ⟨asked, kind⟩ := tg
            simp only [tagLog] at hu
            rcases List.mem_append.mp hu with hu | hu
            · exact hi.ulog h u hu a ha
            · simp only [List.mem_singleton] at hu; subst hu
              exact hask h asked kind a rfl ha
      simp only
      split
      · exact ⟨⟨hi1, rfl, rfl, rfl, rfl⟩, hm⟩
      · have p := ih (anyF || failed) hi1 (fun x hx => hin x (List.mem_cons_of_mem _ hx))
          (fun h asked kind a ht ha => hm.trans (hask h asked kind a ht ha))
        exact ⟨⟨p.1.inv, p.1.tbl, p.1.generic, p.1.belief, p.1.hazard⟩, p.2.trans hm⟩

/-- NetworkDriver.send_command(s) -/
theorem sendCommands_inv {cfg : MCfg} (c : Cfg) (lines : List Line) (stop : Bool) {w : W MDev} (hi : Inv c cfg w)
    (hin : ∀ x ∈ lines, Inert cfg w.tbl x) :
    Inv c cfg (sendCommands c (modeDev cfg) w lines stop).1 ∧
    (sendCommands c (modeDev cfg) w lines stop).1.tbl = w.tbl ∧
    ((sendCommands c (modeDev cfg) w lines stop).1.hazard = false → w.hazard = false) := by
  obtain ⟨a1, a2, a3, _, a5, a6⟩ := acquireAppropriate_inv c "" hi (cfg := cfg)
  unfold sendCommands
  split <;> rename_i heq <;> rw [heq] at a1 a2 a3 a5 a6
  · rename_i w1
    simp only at a1 a2 a3 a5 a6
    split
    · exact ⟨a1, a2, a5⟩
    · have hask : w1.hazard = false → ∀ a, (if w1.generic = true then none else some c.default) = some a → w1.ch.dev.mode = a := by
        intro h a ha
        rcases a6 trivial h with ⟨_, hg⟩ | ⟨_, hm⟩
        · rw [a3, hg] at ha; simp at ha
        · by_cases hg : w1.generic = true
          · simp [hg] at ha
          · have hg' : w1.generic = false := by simpa using hg
            simp [hg'] at ha; subst ha; simpa using hm
      have p := sendLines_inert c (some (if w1.generic = true then none else some c.default, .command)) stop lines false a1
        (by rw [a2]; exact hin) (by intro h asked kind a ht ha; cases ht; exact hask h a ha) (cfg := cfg)
      simp only
      split <;> rename_i heq2 <;> rw [heq2] at p
      · exact ⟨p.1.inv, p.1.tbl.trans a2, fun h => a5 (p.1.hazard ▸ h)⟩
      · exact ⟨p.1.inv, p.1.tbl.trans a2, fun h => a5 (p.1.hazard ▸ h)⟩
  · rename_i w1 e _
    exact ⟨a1, a2, a5⟩

/-- NetworkDriver.send_interactive -/
theorem sendInteractive_inv {cfg : MCfg} (c : Cfg) (lines : List Line) (level : Name) {w : W MDev} (hi : Inv c cfg w)
    (hin : ∀ x ∈ lines, Inert cfg w.tbl x) :
    Inv c cfg (sendInteractive c (modeDev cfg) w lines level).1 ∧
    (sendInteractive c (modeDev cfg) w lines level).1.tbl = w.tbl ∧
    ((sendInteractive c (modeDev cfg) w lines level).1.hazard = false → w.hazard = false) := by
  obtain ⟨a1, a2, a3, _, a5, a6⟩ := acquireAppropriate_inv c level hi (cfg := cfg)
  unfold sendInteractive
  split <;> rename_i heq <;> rw [heq] at a1 a2 a3 a5 a6
  · rename_i w1
    simp only at a1 a2 a3 a5 a6
    have hask : w1.hazard = false → ∀ a, (if level ≠ "" then some level else if w1.generic = true then none else some c.default) = some a →
        w1.ch.dev.mode = a := by
      intro h a ha
      rcases a6 trivial h with ⟨hl, hg⟩ | ⟨_, hm⟩
      · rw [a3, hg] at ha; simp [hl] at ha
      · by_cases hl : level = ""
        · by_cases hg : w1.generic = true
          · simp [hl, hg] at ha
          · have hg' : w1.generic = false := by simpa using hg
            simp [hl, hg'] at ha; subst ha
            simpa [hl] using hm
        · simp [hl] at ha; subst ha
          simpa [hl] using hm
    have p := sendLines_inert c (some (if level ≠ "" then some level else if w1.generic = true then none else some c.default,
      .interactive)) false lines false a1 (by rw [a2]; exact hin)
      (by intro h asked kind a ht ha; cases ht; exact hask h a ha) (cfg := cfg)
    simp only
    split <;> rename_i heq2 <;> rw [heq2] at p
    · exact ⟨p.1.inv, p.1.tbl.trans a2, fun h => a5 (p.1.hazard ▸ h)⟩
    · exact ⟨p.1.inv, p.1.tbl.trans a2, fun h => a5 (p.1.hazard ▸ h)⟩
  · rename_i w1 e _
    exact ⟨a1, a2, a5⟩

/-! ### send_configs and the abort step -/

theorem configLevel_ne_dummy : configLevel ≠ DUMMY := by decide

/-- the part of `send_configs` before the lines are sent: validation and acquisition -/
def configsEnter (c : Cfg) (d : Dev MDev) (w : W MDev) (level : Name) : W MDev × Outcome :=
  if w.generic = true then (w, .privErr)
  else if level ≠ "" ∧ (lookup w.tbl level).isNone then (w, .privErr)
  else if w.belief ≠ (if level ≠ "" then level else configLevel) then
    acquirePriv c d w (if level ≠ "" then level else configLevel)
  else (w, .ok)

theorem sendConfigsCore_eq (c : Cfg) (d : Dev MDev) (w : W MDev) (lines : List Line) (level : Name) (stop user : Bool) :
    sendConfigsCore c d w lines level stop user =
      match configsEnter c d w level with
      | (w1, .ok) =>
        if lines = [] then (w1, .error .indexErr) else
        sendLines d (if user then some (some (if level ≠ "" then level else configLevel), .config) else none) stop lines false w1
      | (w1, e) => (w1, .error e) := by
  unfold sendConfigsCore configsEnter
  by_cases h1 : w.generic = true
  · rw [if_pos h1, if_pos h1]
  · rw [if_neg h1, if_neg h1]
    by_cases h2 : level ≠ "" ∧ (lookup w.tbl level).isNone = true
    · rw [if_pos h2, if_pos h2]
    · rw [if_neg h2, if_neg h2]
      simp only
      by_cases h3 : w.belief ≠ (if level ≠ "" then level else configLevel)
      · rw [if_pos h3]
        cases acquirePriv c d w (if level ≠ "" then level else configLevel) with
        | mk w1 o => cases o <;> rfl
      · rw [if_neg h3]

/-- after validation and acquisition: the invariant, and (hazard flag down) the device is in the
    resolved configuration level -/
theorem configsEnter_inv {cfg : MCfg} (c : Cfg) (level : Name) {w : W MDev} (hi : Inv c cfg w) :
    Inv c cfg (configsEnter c (modeDev cfg) w level).1 ∧ (configsEnter c (modeDev cfg) w level).1.tbl = w.tbl ∧
    (configsEnter c (modeDev cfg) w level).1.generic = w.generic ∧
    ((configsEnter c (modeDev cfg) w level).1.hazard = false → w.hazard = false) ∧
    ((configsEnter c (modeDev cfg) w level).2 = .ok → (configsEnter c (modeDev cfg) w level).1.hazard = false →
      (configsEnter c (modeDev cfg) w level).1.belief = (if level ≠ "" then level else configLevel) ∧
      (configsEnter c (modeDev cfg) w level).1.ch.dev.mode = (if level ≠ "" then level else configLevel)) := by
  unfold configsEnter
  by_cases h1 : w.generic = true
  · rw [if_pos h1]; exact ⟨hi, rfl, rfl, id, by intro h; cases h⟩
  · rw [if_neg h1]
    by_cases h2 : level ≠ "" ∧ (lookup w.tbl level).isNone = true
    · rw [if_pos h2]; exact ⟨hi, rfl, rfl, id, by intro h; cases h⟩
    · rw [if_neg h2]
      by_cases h3 : w.belief ≠ (if level ≠ "" then level else configLevel)
      · rw [if_pos h3]
        have p := acquirePriv_inv c (if level ≠ "" then level else configLevel) hi (cfg := cfg)
        exact ⟨p.inv, p.tbl, p.generic, p.mono, p.arrive⟩
      · rw [if_neg h3]
        have hb : w.belief = (if level ≠ "" then level else configLevel) := by simpa using h3
        refine ⟨hi, rfl, rfl, id, fun _ h => ⟨hb, ?_⟩⟩
        rcases hi.sound h with h' | h'
        · -- belief = DUMMY = resolved level: impossible (a validated name or "configuration")
          exfalso
          by_cases hl : level = ""
          · simp only [hl, ne_eq, not_true_eq_false, if_false] at hb
            exact configLevel_ne_dummy (hb.symm.trans h')
          · simp only [ne_eq, hl, not_false_eq_true, if_true] at hb
            have : ¬ (lookup w.tbl level).isNone = true := fun h => h2 ⟨hl, h⟩
            have hin : level ∈ names w.tbl := by
              apply lookup_isSome_iff.mp
              cases hlk : lookup w.tbl level <;> simp_all
            exact hi.wf.noDummy (by rw [← h', hb]; exact hin)
        · exact h'.symm.trans hb

theorem sendLines_cons {σ : Type} (d : Dev σ) (tag : Option (Option Name × Kind)) (stop : Bool) (line : Line)
    (rest : List Line) (anyF : Bool) (w : W σ) :
    sendLines d tag stop (line :: rest) anyF w =
      match sendInput d w.tbl w.ch line with
      | (ch, .error e) => ({ w with ch := ch }, .error e)
      | (ch, .ok failed) =>
        if stop && failed then ({ w with ch := ch, ulog := tagLog tag w.ulog (d.mode w.ch.dev) line }, .ok true)
        else sendLines d tag stop rest (anyF || failed) { w with ch := ch, ulog := tagLog tag w.ulog (d.mode w.ch.dev) line } := by
  conv => lhs; unfold sendLines
  cases sendInput d w.tbl w.ch line with
  | mk ch r => cases r <;> rfl

theorem sendLines_append {σ : Type} (d : Dev σ) (tag : Option (Option Name × Kind)) :
    ∀ (pre rest : List Line) (anyF : Bool) (w : W σ),
      sendLines d tag false (pre ++ rest) anyF w =
        match sendLines d tag false pre anyF w with
        | (w1, .ok f) => sendLines d tag false rest f w1
        | (w1, .error e) => (w1, .error e) := by
  intro pre
  induction pre with
  | nil => intro rest anyF w; simp [sendLines]
  | cons x xs ih =>
    intro rest anyF w
    rw [List.cons_append, sendLines_cons, sendLines_cons]
    split
    · rfl
    · simp only [Bool.false_and, Bool.false_eq_true, if_false]
      exact ih rest _ _

/-- one abort line then the belief assignment: sound provided the line lands in the level assigned -/
theorem abortLine_inv {cfg : MCfg} {c : Cfg} {w : W MDev} (hi : Inv c cfg w) (cmd : Line) (lvl : Name)
    (hland : w.hazard = false → devStep cfg w.tbl w.ch.dev.mode cmd = lvl) :
    Inv c cfg (abortLine (modeDev cfg) w cmd lvl).1 ∧ (abortLine (modeDev cfg) w cmd lvl).1.tbl = w.tbl ∧
    (abortLine (modeDev cfg) w cmd lvl).1.hazard = w.hazard := by
  obtain ⟨s1, s2, s3⟩ := sendInput_ok hi.wf hi.env hi.ch cmd (cfg := cfg)
  unfold abortLine
  split <;> rename_i heq <;> rw [heq] at s1 s2 s3
  · rename_i ch1 f
    have hm : ch1.dev.mode = devStep cfg w.tbl w.ch.dev.mode cmd := (s2 f rfl).1
    unfold setBelief
    split
    · exact ⟨⟨hi.wf, hi.env, hi.dflt, hi.abort, s1, fun h => Or.inr ((hm.trans (hland h)).symm), hi.ulog⟩, rfl, rfl⟩
    · rename_i hnone
      refine ⟨⟨hi.wf, hi.env, hi.dflt, hi.abort, s1, ?_, hi.ulog⟩, rfl, rfl⟩
      intro h
      have : lvl ∈ names w.tbl := by rw [← hland h, ← hm]; exact s1.dev.modeIn
      exact absurd (lookup_isSome_iff.mpr this) (by simp only at hnone; rw [hnone]; simp)
  · rename_i ch1 e
    have hm : ch1.dev.mode = w.ch.dev.mode := s3 e rfl
    refine ⟨⟨hi.wf, hi.env, hi.dflt, hi.abort, s1, ?_, hi.ulog⟩, rfl, rfl⟩
    intro h; rcases hi.sound h with h' | h'
    · exact Or.inl h'
    · exact Or.inr (h'.trans hm.symm)

/-- **the platform's abort step keeps the belief sound** (IOS-XR / EOS / NX-OS / Junos shapes) -/
theorem abortConfig_inv {cfg : MCfg} {c : Cfg} {w : W MDev} (hi : Inv c cfg w) :
    Inv c cfg (abortConfig c (modeDev cfg) w).1 ∧ (abortConfig c (modeDev cfg) w).1.tbl = w.tbl ∧
    ((abortConfig c (modeDev cfg) w).1.hazard = false → w.hazard = false) := by
  have hab := hi.abort
  unfold abortConfig
  cases hspec : c.abort with
  | none => exact ⟨hi, rfl, id⟩
  | always cmd lvl =>
    rw [hspec] at hab
    obtain ⟨a1, a2, a3⟩ := abortLine_inv hi cmd lvl (fun _ => hab _ hi.ch.dev.modeIn)
    exact ⟨a1, a2, fun h => a3 ▸ h⟩
  | ifSession cmd lvl =>
    rw [hspec] at hab
    simp only
    split
    · rename_i hs
      obtain ⟨a1, a2, a3⟩ := abortLine_inv hi cmd lvl (by
        intro h
        apply hab _ hi.ch.dev.modeIn
        -- the believed level is a session, and (hazard flag down) it is the device's level
        unfold beliefIsSession at hs
        cases hl : lookup w.tbl w.belief with
        | none => rw [hl] at hs; cases hs
        | some l =>
          have hbn : w.belief ∈ names w.tbl := lookup_isSome_iff.mp (by rw [hl]; rfl)
          rcases hi.sound h with h' | h'
          · exact absurd (h' ▸ hbn) hi.wf.noDummy
          · unfold sessOf; rw [← h', hl]; rw [hl] at hs; exact hs)
      exact ⟨a1, a2, fun h => a3 ▸ h⟩
    · exact ⟨hi, rfl, id⟩
  | viaConfigs lines arg lvl =>
    rw [hspec] at hab
    obtain ⟨pre, last, hlines, hpre, hlast⟩ := hab
    simp only
    rw [sendConfigsCore_eq]
    obtain ⟨e1, e2, e3, e4, e5⟩ := configsEnter_inv c (nestedArg w arg) hi (cfg := cfg)
    split <;> rename_i heq0
    · -- nested send_configs went through
      rename_i w3 f
      split at heq0 <;> rename_i heq <;> rw [heq] at e1 e2 e3 e4 e5
      · rename_i w1
        simp only at e1 e2 e4 e5
        have hne : lines ≠ [] := by rw [hlines]; simp
        simp only [hne, if_false, Bool.false_eq_true] at heq0
        rw [hlines, sendLines_append] at heq0
        obtain ⟨p1, p2⟩ := sendLines_inert c none false pre false e1 (by rw [e2]; exact hpre)
          (by intro _ _ _ _ ht; cases ht) (cfg := cfg)
        split at heq0 <;> rename_i heq1 <;> rw [heq1] at p1 p2
        · rename_i w2 f2
          simp only at p1 p2
          -- the last line
          rw [sendLines_cons] at heq0
          obtain ⟨s1, s2, s3⟩ := sendInput_ok p1.inv.wf p1.inv.env p1.inv.ch last (cfg := cfg)
          split at heq0 <;> rename_i heq2 <;> rw [heq2] at s1 s2 s3
          · cases heq0
          · rename_i ch3 f3
            simp only [Bool.false_and, Bool.false_eq_true, if_false, sendLines, tagLog] at heq0
            cases heq0
            have hm3 : ch3.dev.mode = devStep cfg w2.tbl w2.ch.dev.mode last := (s2 f3 rfl).1
            have hland : w2.hazard = false → ch3.dev.mode = lvl := by
              intro h
              have h1 : w1.hazard = false := p1.hazard ▸ h
              rw [hm3, p1.tbl, e2, p2]
              apply hlast _ (e2 ▸ e1.ch.dev.modeIn)
              cases arg with
              | default => simpa [NestedLevel, nestedArg] using (e5 trivial h1).2
              | current => trivial
              | currentIfPrefix p => trivial
            unfold setBelief
            split
            · exact ⟨⟨p1.inv.wf, p1.inv.env, p1.inv.dflt, p1.inv.abort, s1, fun h => Or.inr (hland h).symm, p1.inv.ulog⟩,
                p1.tbl.trans e2, fun h => e4 (p1.hazard ▸ h)⟩
            · rename_i hnone
              refine ⟨⟨p1.inv.wf, p1.inv.env, p1.inv.dflt, p1.inv.abort, s1, ?_, p1.inv.ulog⟩, p1.tbl.trans e2, fun h => e4 (p1.hazard ▸ h)⟩
              intro h
              have : lvl ∈ names w2.tbl := by rw [← hland h]; exact s1.dev.modeIn
              exact absurd (lookup_isSome_iff.mpr this) (by simp only at hnone; rw [hnone]; simp)
        · cases heq0
      · cases heq0
    · -- nested send_configs raised
      rename_i w3 e
      split at heq0 <;> rename_i heq <;> rw [heq] at e1 e2 e3 e4 e5
      · rename_i w1
        simp only at e1 e2 e4 e5
        have hne : lines ≠ [] := by rw [hlines]; simp
        simp only [hne, if_false, Bool.false_eq_true] at heq0
        rw [hlines, sendLines_append] at heq0
        obtain ⟨p1, p2⟩ := sendLines_inert c none false pre false e1 (by rw [e2]; exact hpre)
          (by intro _ _ _ _ ht; cases ht) (cfg := cfg)
        split at heq0 <;> rename_i heq1 <;> rw [heq1] at p1 p2
        · rename_i w2 f2
          simp only at p1 p2
          rw [sendLines_cons] at heq0
          obtain ⟨s1, s2, s3⟩ := sendInput_ok p1.inv.wf p1.inv.env p1.inv.ch last (cfg := cfg)
          split at heq0 <;> rename_i heq2 <;> rw [heq2] at s1 s2 s3
          · rename_i ch3 e3'
            cases heq0
            have hm : ch3.dev.mode = w2.ch.dev.mode := s3 _ rfl
            refine ⟨⟨p1.inv.wf, p1.inv.env, p1.inv.dflt, p1.inv.abort, s1, ?_, p1.inv.ulog⟩, p1.tbl.trans e2, fun h => e4 (p1.hazard ▸ h)⟩
            intro h; rcases p1.inv.sound h with h' | h'
            · exact Or.inl h'
            · exact Or.inr (h'.trans hm.symm)
          · simp only [Bool.false_and, Bool.false_eq_true, if_false, sendLines] at heq0
            cases heq0
        · cases heq0
          exact ⟨p1.inv, p1.tbl.trans e2, fun h => e4 (p1.hazard ▸ h)⟩
      · cases heq0
        exact ⟨e1, e2, e4⟩

/-- `send_configs` up to and including the user lines -/
theorem sendConfigsCore_user_inv {cfg : MCfg} (c : Cfg) (lines : List Line) (level : Name) (stop : Bool) {w : W MDev}
    (hi : Inv c cfg w) (hin : ∀ x ∈ lines, Inert cfg w.tbl x) :
    Inv c cfg (sendConfigsCore c (modeDev cfg) w lines level stop true).1 ∧
    (sendConfigsCore c (modeDev cfg) w lines level stop true).1.tbl = w.tbl ∧
    ((sendConfigsCore c (modeDev cfg) w lines level stop true).1.hazard = false → w.hazard = false) := by
  rw [sendConfigsCore_eq]
  obtain ⟨e1, e2, _, e4, e5⟩ := configsEnter_inv c level hi (cfg := cfg)
  split <;> rename_i heq <;> rw [heq] at e1 e2 e4 e5
  · rename_i w1
    simp only at e1 e2 e4 e5
    split
    · exact ⟨e1, e2, e4⟩
    · obtain ⟨p1, _⟩ := sendLines_inert c (some (some (if level ≠ "" then level else configLevel), .config)) stop lines false e1
        (by rw [e2]; exact hin)
        (by intro h asked kind a ht ha; cases ht; cases ha; exact (e5 trivial h).2) (cfg := cfg)
      simp only [if_true]
      exact ⟨p1.inv, p1.tbl.trans e2, fun h => e4 (p1.hazard ▸ h)⟩
  · exact ⟨e1, e2, e4⟩
/-- NetworkDriver.send_configs / send_config -/
theorem sendConfigs_inv {cfg : MCfg} (c : Cfg) (lines : List Line) (level : Name) (stop : Bool) {w : W MDev}
    (hi : Inv c cfg w) (hin : ∀ x ∈ lines, Inert cfg w.tbl x) :
    Inv c cfg (sendConfigs c (modeDev cfg) w lines level stop).1 ∧
    (sendConfigs c (modeDev cfg) w lines level stop).1.tbl = w.tbl ∧
    ((sendConfigs c (modeDev cfg) w lines level stop).1.hazard = false → w.hazard = false) := by
  obtain ⟨c1, c2, c3⟩ := sendConfigsCore_user_inv c lines level stop hi hin (cfg := cfg)
  unfold sendConfigs
  split <;> rename_i heq <;> rw [heq] at c1 c2 c3
  · rename_i w1 anyF
    split
    · obtain ⟨a1, a2, a3⟩ := abortConfig_inv c1 (cfg := cfg)
      exact ⟨a1, a2.trans c2, fun h => c3 (a3 h)⟩
    · exact ⟨c1, c2, c3⟩
  · exact ⟨c1, c2, c3⟩

/-- what an operation of the history must satisfy: its user lines do not move the device (the
    property's assumption), and registering a session keeps the environment assumptions true of the
    extended table -/
def OpOK (c : Cfg) (cfg : MCfg) (w : W MDev) : Op → Prop
  | .sendCommand line => Inert cfg w.tbl line
  | .sendCommands lines _ => ∀ x ∈ lines, Inert cfg w.tbl x
  | .sendConfigs lines _ _ => ∀ x ∈ lines, Inert cfg w.tbl x
  | .acquire _ => True
  | .interactive lines _ => ∀ x ∈ lines, Inert cfg w.tbl x
  | .register name => ∀ tpl, c.sess = some tpl → name ≠ "" ∧ name ≠ DUMMY ∧ tpl.prev ∈ names w.tbl ∧
      EnvOK cfg (w.tbl ++ [tpl.mk' name]) ∧ AbortOK cfg (w.tbl ++ [tpl.mk' name]) c.abort
  | .setGeneric _ => True

/-- **every operation preserves the invariant** -/
theorem step_inv {cfg : MCfg} (c : Cfg) {w : W MDev} (hi : Inv c cfg w) (op : Op) (hop : OpOK c cfg w op) :
    Inv c cfg (step c (modeDev cfg) w op).1 ∧ ((step c (modeDev cfg) w op).1.hazard = false → w.hazard = false) := by
  cases op with
  | sendCommand line =>
    obtain ⟨a, _, b⟩ := sendCommands_inv c [line] false hi (by intro x hx; simp at hx; subst hx; exact hop) (cfg := cfg)
    exact ⟨a, b⟩
  | sendCommands lines stop => obtain ⟨a, _, b⟩ := sendCommands_inv c lines stop hi hop (cfg := cfg); exact ⟨a, b⟩
  | sendConfigs lines level stop => obtain ⟨a, _, b⟩ := sendConfigs_inv c lines level stop hi hop (cfg := cfg); exact ⟨a, b⟩
  | acquire level => have p := acquirePriv_inv c level hi (cfg := cfg); exact ⟨p.inv, p.mono⟩
  | interactive lines level => obtain ⟨a, _, b⟩ := sendInteractive_inv c lines level hi hop (cfg := cfg); exact ⟨a, b⟩
  | setGeneric v =>
    refine ⟨⟨hi.wf, hi.env, hi.dflt, hi.abort, hi.ch, ?_, hi.ulog⟩, id⟩
    intro h
    show (if v = true then DUMMY else w.belief) = DUMMY ∨ (if v = true then DUMMY else w.belief) = w.ch.dev.mode
    cases v
    · simpa using hi.sound h
    · exact Or.inl rfl
  | register name =>
    show Inv c cfg (registerSession c w name).1 ∧ ((registerSession c w name).1.hazard = false → w.hazard = false)
    unfold registerSession
    cases hs : c.sess with
    | none => exact ⟨hi, id⟩
    | some tpl =>
      simp only
      split
      · exact ⟨hi, id⟩
      · rename_i hfresh
        obtain ⟨h1, h2, h3, h4, h5⟩ := hop tpl hs
        have hfr : name ∉ names w.tbl := fun hn => hfresh (lookup_isSome_iff.mpr hn)
        have hsub : ∀ x ∈ names w.tbl, x ∈ names (w.tbl ++ [tpl.mk' name]) := by
          intro x hx; simp only [names, List.map_append, List.mem_append]; exact Or.inl hx
        refine ⟨⟨register_preserves_WF hi.wf tpl name h3 hfr h1 h2, h4, hsub _ hi.dflt, h5,
          ⟨⟨hsub _ hi.ch.dev.modeIn, fun tgt ht => hsub _ (hi.ch.dev.pendIn tgt ht)⟩, hi.ch.idle⟩, hi.sound, hi.ulog⟩, id⟩

/-- the operations of a history are admissible, each in the state it is executed in -/
def HistOK (c : Cfg) (cfg : MCfg) : W MDev → List Op → Prop
  | _, [] => True
  | w, op :: ops => OpOK c cfg w op ∧ HistOK c cfg (step c (modeDev cfg) w op).1 ops

/-- **the invariant holds after every history** -/
theorem run_inv {cfg : MCfg} (c : Cfg) : ∀ (ops : List Op) {w : W MDev}, Inv c cfg w → HistOK c cfg w ops →
    Inv c cfg (run c (modeDev cfg) w ops) ∧ ((run c (modeDev cfg) w ops).hazard = false → w.hazard = false) := by
  intro ops
  induction ops with
  | nil => intro w hi _; exact ⟨hi, id⟩
  | cons op ops ih =>
    intro w hi hh
    obtain ⟨s1, s2⟩ := step_inv c hi op hh.1 (cfg := cfg)
    obtain ⟨r1, r2⟩ := ih s1 hh.2
    exact ⟨r1, fun h => s2 (r2 h)⟩

/-! ### tables without shared prompts never raise the hazard flag -/

/-- all share groups are singletons: no two levels have the same (pattern, not_contains) -/
def Singleton (t : Table) : Prop := (t.map (·.pat)).Nodup

instance (t : Table) : Decidable (Singleton t) := by unfold Singleton; infer_instance

theorem nodup_map_inj {α β : Type} {f : α → β} : ∀ {l : List α}, (l.map f).Nodup → ∀ {a b : α}, a ∈ l → b ∈ l → f a = f b → a = b := by
  intro l
  induction l with
  | nil => intro _ a b ha; cases ha
  | cons x xs ih =>
    intro hn a b ha hb hf
    simp only [List.map_cons, List.nodup_cons] at hn
    rcases List.mem_cons.mp ha with rfl | ha' <;> rcases List.mem_cons.mp hb with rfl | hb'
    · rfl
    · exact absurd (hf ▸ List.mem_map_of_mem (f := f) hb') hn.1
    · exact absurd (hf.symm ▸ List.mem_map_of_mem (f := f) ha') hn.1
    · exact ih hn.2 ha' hb' hf

theorem Singleton.unamb {t : Table} (h : Singleton t) (m : Name) : Unamb t m := by
  intro l hl l' hl' hn hp
  have : l' = l := nodup_map_inj h hl' hl hp
  rw [this, hn]

/-- `dest` is admitted only by its own prompt: no other level's prompt is classified as `dest` -/
def Own (t : Table) (dest : Name) : Prop := ∀ m ∈ names t, dest ∈ classify t (promptKey t m) → m = dest

instance (t : Table) (dest : Name) : Decidable (Own t dest) := by unfold Own; infer_instance

theorem own_of_singleton {t : Table} (hs : Singleton t) (dest : Name) : Own t dest := by
  intro m hm hd
  obtain ⟨lm, hlm⟩ := mode_lookup hm
  exact (classify_unamb hlm (hs.unamb _) hd).symm

theorem acquireIter_hz {cfg : MCfg} (c : Cfg) (dest : Name) {w : W MDev} (hi : Inv c cfg w) (hs : Own w.tbl dest) :
    (acquireIter c (modeDev cfg) dest w).1.hazard = w.hazard := by
  obtain ⟨g1, g2, g3⟩ := getPrompt_ok hi.wf hi.env hi.ch (cfg := cfg)
  unfold acquireIter
  split <;> rename_i heq <;> rw [heq] at g1 g2 g3
  · rename_i ch1 cls
    obtain ⟨_, hcls⟩ := g3 cls rfl
    simp only at g2
    obtain ⟨lm, hlm⟩ := mode_lookup hi.ch.dev.modeIn
    have hz : (w.hazard || (w.belief == DUMMY && cls.contains dest && (modeDev cfg).mode ch1.dev != dest)) = w.hazard := by
      have : (cls.contains dest && (modeDev cfg).mode ch1.dev != dest) = false := by
        by_cases hd : dest ∈ cls
        · have := hs _ hi.ch.dev.modeIn (hcls ▸ hd)
          have hm : (modeDev cfg).mode ch1.dev = dest := by show ch1.dev.mode = dest; rw [g2, this]
          simp [hm]
        · simp [hd]
      rw [Bool.and_assoc, this]; simp
    simp only
    split
    · exact hz
    · exact hz
    · split <;> exact hz
    · split <;> exact hz

theorem acquireLoop_hz {cfg : MCfg} (c : Cfg) (dest : Name) :
    ∀ (fuel count : Nat) {w : W MDev}, Inv c cfg w → Own w.tbl dest →
      (acquireLoop c (modeDev cfg) dest fuel count w).1.hazard = w.hazard := by
  intro fuel
  induction fuel with
  | zero => intro count w _ _; rfl
  | succ fuel ih =>
    intro count w hi hs
    have h1 := acquireIter_hz c dest hi hs (cfg := cfg)
    obtain ⟨a1, _, _⟩ := acquireIter_inv c dest hi (cfg := cfg)
    obtain ⟨f1, _, _, _⟩ := acquireIter_frame c (modeDev cfg) dest w
    unfold acquireLoop
    split <;> rename_i heq <;> rw [heq] at h1 a1 f1
    · exact h1
    · split
      · exact h1
      · exact (ih _ a1 (f1 ▸ hs)).trans h1

theorem acquirePriv_hz {cfg : MCfg} (c : Cfg) (dest : Name) {w : W MDev} (hi : Inv c cfg w) (hs : Own w.tbl dest) :
    (acquirePriv c (modeDev cfg) w dest).1.hazard = w.hazard := by
  unfold acquirePriv; split
  · rfl
  · exact acquireLoop_hz c dest _ _ hi hs

theorem acquireAppropriate_hzU {cfg : MCfg} (c : Cfg) (level : Name) {w : W MDev} (hi : Inv c cfg w)
    (hs : Own w.tbl (if level ≠ "" then level else c.default)) :
    (acquireAppropriate c (modeDev cfg) w level).1.hazard = w.hazard := by
  unfold acquireAppropriate
  by_cases h1 : level = "" ∧ w.generic = true
  · rw [if_pos h1]
  · rw [if_neg h1]
    by_cases h2 : level ≠ "" ∧ (lookup w.tbl level).isNone = true
    · rw [if_pos h2]
    · rw [if_neg h2]
      simp only
      by_cases h3 : w.belief ≠ (if level ≠ "" then level else c.default)
      · rw [if_pos h3]; exact acquirePriv_hz c _ hi hs
      · rw [if_neg h3]

theorem acquireAppropriate_hz {cfg : MCfg} (c : Cfg) (level : Name) {w : W MDev} (hi : Inv c cfg w) (hs : Singleton w.tbl) :
    (acquireAppropriate c (modeDev cfg) w level).1.hazard = w.hazard :=
  acquireAppropriate_hzU c level hi (own_of_singleton hs _)

theorem configsEnter_hz {cfg : MCfg} (c : Cfg) (level : Name) {w : W MDev} (hi : Inv c cfg w) (hs : Singleton w.tbl) :
    (configsEnter c (modeDev cfg) w level).1.hazard = w.hazard := by
  unfold configsEnter
  by_cases h1 : w.generic = true
  · rw [if_pos h1]
  · rw [if_neg h1]
    by_cases h2 : level ≠ "" ∧ (lookup w.tbl level).isNone = true
    · rw [if_pos h2]
    · rw [if_neg h2]
      by_cases h3 : w.belief ≠ (if level ≠ "" then level else configLevel)
      · rw [if_pos h3]; exact acquirePriv_hz c _ hi (own_of_singleton hs _)
      · rw [if_neg h3]

theorem sendLines_hz {σ : Type} (d : Dev σ) (tag : Option (Option Name × Kind)) (stop : Bool) :
    ∀ (lines : List Line) (anyF : Bool) (w : W σ), (sendLines d tag stop lines anyF w).1.hazard = w.hazard := by
  intro lines
  induction lines with
  | nil => intro _ _; rfl
  | cons x xs ih =>
    intro anyF w
    rw [sendLines_cons]
    split
    · rfl
    · split
      · rfl
      · rw [ih]

theorem sendConfigsCore_hz {cfg : MCfg} (c : Cfg) (lines : List Line) (level : Name) (stop user : Bool) {w : W MDev}
    (hi : Inv c cfg w) (hs : Singleton w.tbl) :
    (sendConfigsCore c (modeDev cfg) w lines level stop user).1.hazard = w.hazard := by
  rw [sendConfigsCore_eq]
  have h := configsEnter_hz c level hi hs (cfg := cfg)
  split <;> rename_i heq <;> rw [heq] at h
  · split
    · exact h
    · rw [sendLines_hz]; exact h
  · exact h

theorem setBelief_hz {σ : Type} (w : W σ) (lvl : Name) : (setBelief w lvl).1.hazard = w.hazard := by
  unfold setBelief; split <;> rfl

theorem abortConfig_hz {cfg : MCfg} (c : Cfg) {w : W MDev} (hi : Inv c cfg w) (hs : Singleton w.tbl) :
    (abortConfig c (modeDev cfg) w).1.hazard = w.hazard := by
  have hal : ∀ cmd lvl, (abortLine (modeDev cfg) w cmd lvl).1.hazard = w.hazard := by
    intro cmd lvl; unfold abortLine; split
    · rw [setBelief_hz]
    · rfl
  unfold abortConfig
  split
  · rfl
  · exact hal _ _
  · split
    · exact hal _ _
    · rfl
  · have h := sendConfigsCore_hz c ‹_› (nestedArg w ‹_›) false false hi hs (cfg := cfg)
    split <;> rename_i heq <;> rw [heq] at h
    · rw [setBelief_hz]; exact h
    · exact h

theorem step_hz {cfg : MCfg} (c : Cfg) {w : W MDev} (hi : Inv c cfg w) (hs : Singleton w.tbl) (op : Op)
    (hop : OpOK c cfg w op) : (step c (modeDev cfg) w op).1.hazard = w.hazard := by
  cases op with
  | sendCommand line =>
    show (sendCommands c (modeDev cfg) w [line] false).1.hazard = _
    unfold sendCommands
    have h := acquireAppropriate_hz c "" hi hs (cfg := cfg)
    split <;> rename_i heq <;> rw [heq] at h
    · split
      · exact h
      · simp only; split <;> rename_i heq2 <;> (have e := congrArg (fun r => r.1.hazard) heq2; simp only [sendLines_hz] at e; exact e.symm.trans h)
    · exact h
  | sendCommands lines stop =>
    show (sendCommands c (modeDev cfg) w lines stop).1.hazard = _
    unfold sendCommands
    have h := acquireAppropriate_hz c "" hi hs (cfg := cfg)
    split <;> rename_i heq <;> rw [heq] at h
    · split
      · exact h
      · simp only; split <;> rename_i heq2 <;> (have e := congrArg (fun r => r.1.hazard) heq2; simp only [sendLines_hz] at e; exact e.symm.trans h)
    · exact h
  | sendConfigs lines level stop =>
    show (sendConfigs c (modeDev cfg) w lines level stop).1.hazard = _
    have h := sendConfigsCore_hz c lines level stop true hi hs (cfg := cfg)
    obtain ⟨c1, c2, _⟩ := sendConfigsCore_user_inv c lines level stop hi hop (cfg := cfg)
    unfold sendConfigs
    split <;> rename_i heq <;> rw [heq] at h c1 c2
    · split
      · exact (abortConfig_hz c c1 (c2 ▸ hs)).trans h
      · exact h
    · exact h
  | acquire level => exact acquirePriv_hz c level hi (own_of_singleton hs _)
  | interactive lines level =>
    show (sendInteractive c (modeDev cfg) w lines level).1.hazard = _
    unfold sendInteractive
    have h := acquireAppropriate_hz c level hi hs (cfg := cfg)
    split <;> rename_i heq <;> rw [heq] at h
    · simp only; split <;> rename_i heq2 <;> (have e := congrArg (fun r => r.1.hazard) heq2; simp only [sendLines_hz] at e; exact e.symm.trans h)
    · exact h
  | register name =>
    show (registerSession c w name).1.hazard = _
    unfold registerSession; split
    · rfl
    · split <;> rfl
  | setGeneric v => rfl

/-- every table of the history (the initial one and each one extended by a registration) has
    singleton share groups -/
def HistSingleton (c : Cfg) (cfg : MCfg) : W MDev → List Op → Prop
  | w, [] => Singleton w.tbl
  | w, op :: ops => Singleton w.tbl ∧ HistSingleton c cfg (step c (modeDev cfg) w op).1 ops

theorem run_hz {cfg : MCfg} (c : Cfg) : ∀ (ops : List Op) {w : W MDev}, Inv c cfg w → HistOK c cfg w ops →
    HistSingleton c cfg w ops → (run c (modeDev cfg) w ops).hazard = w.hazard := by
  intro ops
  induction ops with
  | nil => intro w _ _ _; rfl
  | cons op ops ih =>
    intro w hi hh hs
    have h1 := step_hz c hi hs.1 op hh.1 (cfg := cfg)
    obtain ⟨s1, _⟩ := step_inv c hi op hh.1 (cfg := cfg)
    exact (ih s1 hh.2 hs.2).trans h1

/-! ### a static sufficient condition on ANY table: the history never names a level that shares its prompt -/

/-- operations whose named level is admitted only by its own prompt (`Own`): commands (default level), acquisitions
    and interactive sessions at such a level, generic-mode toggles.  No configs, no registrations: on IOS-XR / Junos
    the configuration levels share their prompt, which is exactly where the hazard lives. -/
def OpStatic (c : Cfg) (t : Table) : Op → Prop
  | .sendCommand _ => Own t c.default
  | .sendCommands _ _ => Own t c.default
  | .acquire l => Own t l
  | .interactive _ l => Own t (if l ≠ "" then l else c.default)
  | .setGeneric _ => True
  | .sendConfigs _ _ _ => False
  | .register _ => False

theorem step_static {cfg : MCfg} (c : Cfg) {w : W MDev} (hi : Inv c cfg w) (op : Op) (hop : OpOK c cfg w op)
    (hst : OpStatic c w.tbl op) :
    (step c (modeDev cfg) w op).1.hazard = w.hazard ∧ (step c (modeDev cfg) w op).1.tbl = w.tbl := by
  cases op with
  | sendCommand line =>
    refine ⟨?_, (sendCommands_inv c [line] false hi (by intro x hx; simp at hx; subst hx; exact hop) (cfg := cfg)).2.1⟩
    show (sendCommands c (modeDev cfg) w [line] false).1.hazard = _
    unfold sendCommands
    have h := acquireAppropriate_hzU c "" hi (by simpa [OpStatic] using hst) (cfg := cfg)
    split <;> rename_i heq <;> rw [heq] at h
    · split
      · exact h
      · simp only; split <;> rename_i heq2 <;> (have e := congrArg (fun r => r.1.hazard) heq2; simp only [sendLines_hz] at e; exact e.symm.trans h)
    · exact h
  | sendCommands lines stop =>
    refine ⟨?_, (sendCommands_inv c lines stop hi hop (cfg := cfg)).2.1⟩
    show (sendCommands c (modeDev cfg) w lines stop).1.hazard = _
    unfold sendCommands
    have h := acquireAppropriate_hzU c "" hi (by simpa [OpStatic] using hst) (cfg := cfg)
    split <;> rename_i heq <;> rw [heq] at h
    · split
      · exact h
      · simp only; split <;> rename_i heq2 <;> (have e := congrArg (fun r => r.1.hazard) heq2; simp only [sendLines_hz] at e; exact e.symm.trans h)
    · exact h
  | sendConfigs lines level stop => exact absurd hst (by simp [OpStatic])
  | acquire level => exact ⟨acquirePriv_hz c level hi hst, (acquirePriv_inv c level hi).tbl⟩
  | interactive lines level =>
    refine ⟨?_, (sendInteractive_inv c lines level hi hop (cfg := cfg)).2.1⟩
    show (sendInteractive c (modeDev cfg) w lines level).1.hazard = _
    unfold sendInteractive
    have h := acquireAppropriate_hzU c level hi hst (cfg := cfg)
    split <;> rename_i heq <;> rw [heq] at h
    · simp only; split <;> rename_i heq2 <;> (have e := congrArg (fun r => r.1.hazard) heq2; simp only [sendLines_hz] at e; exact e.symm.trans h)
    · exact h
  | register name => exact absurd hst (by simp [OpStatic])
  | setGeneric v => exact ⟨rfl, rfl⟩

/-- every operation of the history is static with respect to the (constant) table `t` -/
def HistStatic (c : Cfg) (t : Table) (ops : List Op) : Prop := ∀ op ∈ ops, OpStatic c t op

theorem run_static {cfg : MCfg} (c : Cfg) : ∀ (ops : List Op) {w : W MDev}, Inv c cfg w → HistOK c cfg w ops →
    HistStatic c w.tbl ops → (run c (modeDev cfg) w ops).hazard = w.hazard := by
  intro ops
  induction ops with
  | nil => intro w _ _ _; rfl
  | cons op ops ih =>
    intro w hi hh hs
    obtain ⟨h1, h2⟩ := step_static c hi op hh.1 (hs op (by simp)) (cfg := cfg)
    obtain ⟨s1, _⟩ := step_inv c hi op hh.1 (cfg := cfg)
    have := ih s1 hh.2 (by rw [h2]; exact fun o ho => hs o (List.mem_cons_of_mem _ ho))
    exact this.trans h1

end Scrapli.Priv
