import ScrapliModel.SSHConfig
import ScrapliModel.Spec.SSHLookup
/- Helper lemmas for C16 (ssh config / known_hosts lookups).  Property theorems are in C16.lean. -/
namespace Scrapli.SSHConfig
open Scrapli.Gen.SSHConfig

/-! ### insertion-ordered dict -/
namespace Dict
variable {α : Type}

theorem get?_cons (k' : Str) (v' : α) (r : Dict α) (k : Str) :
    get? ((k', v') :: r) k = if k = k' then some v' else get? r k := by
  unfold get?
  rw [List.lookup_cons]
  by_cases h : k = k'
  · subst h; simp
  · have hb : (k == k') = false := by simpa using h
    simp [hb, h]

theorem get?_set (d : Dict α) (k k' : Str) (v : α) :
    get? (set d k v) k' = if k' = k then some v else get? d k' := by
  induction d with
  | nil => rw [show set ([] : Dict α) k v = [(k, v)] from rfl, get?_cons]
  | cons hd r ih =>
    obtain ⟨k0, v0⟩ := hd
    unfold set
    by_cases h : k0 = k
    · subst h
      simp only [beq_self_eq_true, ↓reduceIte, get?_cons]
      by_cases h1 : k' = k0 <;> simp [h1]
    · have hb : (k0 == k) = false := by simpa using h
      simp only [hb, Bool.false_eq_true, ↓reduceIte, get?_cons, ih]
      by_cases h1 : k' = k0
      · subst h1; simp [h]
      · simp [h1]

theorem keys_set (d : Dict α) (k : Str) (v : α) :
    keys (set d k v) = if k ∈ keys d then keys d else keys d ++ [k] := by
  induction d with
  | nil => simp [set, keys]
  | cons hd r ih =>
    obtain ⟨k0, v0⟩ := hd
    unfold set
    by_cases h : k0 = k
    · subst h; simp [keys]
    · have hb : (k0 == k) = false := by simpa using h
      have ih' : List.map (fun x => x.fst) (set r k v) =
          if k ∈ List.map (fun x => x.fst) r then List.map (fun x => x.fst) r
          else List.map (fun x => x.fst) r ++ [k] := ih
      simp only [hb, Bool.false_eq_true, ↓reduceIte, keys, List.map_cons, ih', List.mem_cons]
      have h' : ¬ k = k0 := fun e => h e.symm
      by_cases hm : k ∈ List.map (fun x => x.fst) r <;> simp [hm, h']

theorem mem_set {d : Dict α} {k : Str} {v : α} {k' : Str} {v' : α} :
    (k', v') ∈ set d k v → (k' = k ∧ v' = v) ∨ (k', v') ∈ d := by
  induction d with
  | nil => simp [set]
  | cons hd r ih =>
    obtain ⟨k0, v0⟩ := hd
    unfold set
    by_cases h : k0 = k
    · subst h
      simp only [beq_self_eq_true, ↓reduceIte, List.mem_cons, Prod.mk.injEq]
      rintro (h | h)
      · exact Or.inl h
      · exact Or.inr (Or.inr h)
    · have hb : (k0 == k) = false := by simpa using h
      simp only [hb, Bool.false_eq_true, ↓reduceIte, List.mem_cons, Prod.mk.injEq]
      rintro (h | h)
      · exact Or.inr (Or.inl h)
      · rcases ih h with h | h
        · exact Or.inl h
        · exact Or.inr (Or.inr h)

theorem get?_some_mem {d : Dict α} {k : Str} {v : α} : get? d k = some v → (k, v) ∈ d := by
  induction d with
  | nil => simp [get?]
  | cons hd r ih =>
    obtain ⟨k0, v0⟩ := hd
    rw [get?_cons]
    by_cases h : k = k0
    · subst h; simp; intro h; simp [h]
    · simp only [h, ↓reduceIte]; intro h'; exact List.mem_cons_of_mem _ (ih h')

theorem mem_keys_of_mem {d : Dict α} {k : Str} {v : α} : (k, v) ∈ d → k ∈ keys d := by
  intro h; exact List.mem_map.mpr ⟨(k, v), h, rfl⟩

theorem get?_of_mem_keys {d : Dict α} {k : Str} : k ∈ keys d → ∃ v, get? d k = some v := by
  induction d with
  | nil => simp [keys]
  | cons hd r ih =>
    obtain ⟨k0, v0⟩ := hd
    rw [get?_cons]
    by_cases h : k = k0
    · subst h; intro _; exact ⟨v0, by simp⟩
    · simp only [keys, List.map_cons, List.mem_cons, h, false_or, ↓reduceIte]
      exact ih

theorem get?_none_of_not_mem {d : Dict α} {k : Str} : k ∉ keys d → get? d k = none := by
  intro h
  cases hg : get? d k with
  | none => rfl
  | some v => exact absurd (mem_keys_of_mem (get?_some_mem hg)) h

theorem getE_of_get? {d : Dict α} {k : Str} {v : α} (h : get? d k = some v) : getE d k = .ok v := by
  simp [getE, h]

theorem getE_ok {d : Dict α} {k : Str} {v : α} (h : getE d k = .ok v) : get? d k = some v := by
  unfold getE at h
  cases hg : get? d k with
  | none => simp [hg] at h
  | some w => simp [hg] at h; simp [h]

theorem set_keys_of_mem {d : Dict α} {k : Str} (v : α) (h : k ∈ keys d) : keys (set d k v) = keys d := by
  rw [keys_set]; simp [h]

end Dict

/-! ### the specification's glob matcher -/
namespace Spec

theorem mem_suffixes {t s : Str} : t ∈ suffixes s ↔ ∃ u, s = u ++ t := by
  induction s with
  | nil =>
    simp only [suffixes, List.mem_singleton]
    constructor
    · rintro rfl; exact ⟨[], rfl⟩
    · rintro ⟨u, hu⟩
      have := congrArg List.length hu
      simp at this
      exact List.eq_nil_of_length_eq_zero (by omega)
  | cons x xs ih =>
    simp only [suffixes, List.mem_cons]
    constructor
    · rintro (rfl | h)
      · exact ⟨[], rfl⟩
      · obtain ⟨u, hu⟩ := ih.mp h
        exact ⟨x :: u, by simp [hu]⟩
    · rintro ⟨u, hu⟩
      cases u with
      | nil => left; simpa using hu.symm
      | cons y ys =>
        right
        simp only [List.cons_append, List.cons.injEq] at hu
        exact ih.mpr ⟨ys, hu.2⟩

theorem globMatch_star (p s : Str) :
    globMatch ('*' :: p) s = (suffixes s).any (globMatch p) := by
  simp [globMatch]

theorem globMatch_cons_of_ne {c : Char} (hc : c ≠ '*') (p : Str) (x : Char) (xs : Str) :
    globMatch (c :: p) (x :: xs) = ((c == '?' || sameChar c x) && globMatch p xs) := by
  have : (c == '*') = false := by simpa using hc
  simp [globMatch, this]

theorem globMatch_cons_nil_of_ne {c : Char} (hc : c ≠ '*') (p : Str) :
    globMatch (c :: p) [] = false := by
  have : (c == '*') = false := by simpa using hc
  simp [globMatch, this]

theorem Matches.nil_inv {s : Str} (h : Matches [] s) : s = [] := by
  cases h; rfl

theorem Matches.cons_inv {c : Char} {p s : Str} (h : Matches (c :: p) s) :
    (c = '*' ∧ ∃ u t, s = u ++ t ∧ Matches p t) ∨
    (c = '?' ∧ ∃ x xs, s = x :: xs ∧ Matches p xs) ∨
    (c ≠ '*' ∧ c ≠ '?' ∧ ∃ x xs, s = x :: xs ∧ sameChar c x = true ∧ Matches p xs) := by
  cases h with
  | star _ u t hm => exact Or.inl ⟨rfl, u, t, rfl, hm⟩
  | one _ x xs hm => exact Or.inr (Or.inl ⟨rfl, x, xs, rfl, hm⟩)
  | lit _ _ x xs h1 h2 h3 hm => exact Or.inr (Or.inr ⟨h1, h2, x, xs, rfl, h3, hm⟩)

/-- correctness of the executable matcher against the relational reading -/
theorem globMatch_iff (p : Str) : ∀ s : Str, globMatch p s = true ↔ Matches p s := by
  induction p with
  | nil =>
    intro s
    constructor
    · intro h
      have : s = [] := by simpa [globMatch] using h
      subst this; exact Matches.nil
    · intro h; rw [Matches.nil_inv h]; rfl
  | cons c p ih =>
    intro s
    by_cases hc : c = '*'
    · subst hc
      rw [globMatch_star]
      constructor
      · intro h
        obtain ⟨t, ht, hm⟩ := List.any_eq_true.mp h
        obtain ⟨u, rfl⟩ := mem_suffixes.mp ht
        exact Matches.star p u t ((ih t).mp hm)
      · intro h
        rcases Matches.cons_inv h with ⟨_, u, t, rfl, hm⟩ | ⟨h1, _⟩ | ⟨h1, _⟩
        · exact List.any_eq_true.mpr ⟨t, mem_suffixes.mpr ⟨u, rfl⟩, (ih t).mpr hm⟩
        · exact absurd h1 (by decide)
        · exact absurd rfl h1
    · cases s with
      | nil =>
        rw [globMatch_cons_nil_of_ne hc]
        constructor
        · intro h; cases h
        · intro h
          rcases Matches.cons_inv h with ⟨h1, _⟩ | ⟨_, x, xs, h1, _⟩ | ⟨_, _, x, xs, h1, _⟩
          · exact absurd h1 hc
          · cases h1
          · cases h1
      | cons x xs =>
        rw [globMatch_cons_of_ne hc]
        constructor
        · intro h
          simp only [Bool.and_eq_true, Bool.or_eq_true, beq_iff_eq] at h
          obtain ⟨h1, h2⟩ := h
          by_cases hq : c = '?'
          · subst hq; exact Matches.one p x xs ((ih xs).mp h2)
          · rcases h1 with h1 | h1
            · exact absurd h1 hq
            · exact Matches.lit c p x xs hc hq h1 ((ih xs).mp h2)
        · intro h
          rcases Matches.cons_inv h with ⟨h1, _⟩ | ⟨h0, x', xs', h1, hm⟩ | ⟨_, _, x', xs', h1, h3, hm⟩
          · exact absurd h1 hc
          · cases h1; subst h0; simp [(ih xs).mpr hm]
          · cases h1; simp [h3, (ih xs).mpr hm]

theorem sameChar_refl (c : Char) : sameChar c c = true := by simp [sameChar]

/-- every pattern matches its own text (a name listed literally on a Host line matches it) -/
theorem matches_self (p : Str) : Matches p p := by
  induction p with
  | nil => exact Matches.nil
  | cons c p ih =>
    by_cases hc : c = '*'
    · subst hc; exact Matches.star p ['*'] p ih
    · by_cases hq : c = '?'
      · subst hq; exact Matches.one p '?' p ih
      · exact Matches.lit c p c p hc hq (sameChar_refl c) ih

theorem globMatch_self (p : Str) : globMatch p p = true := (globMatch_iff p p).mpr (matches_self p)

/-- `*` matches every name -/
theorem matches_star (s : Str) : Matches ['*'] s := by
  have := Matches.star [] s [] Matches.nil
  simpa using this

/-- a pattern without wildcards matches exactly the names equal to it up to ASCII case -/
theorem matches_literal (p : Str) (hp : ∀ c ∈ p, isWild c = false) : ∀ s : Str,
    Matches p s ↔ (p.length = s.length ∧ ∀ i (h1 : i < p.length) (h2 : i < s.length), sameChar p[i] s[i] = true) := by
  induction p with
  | nil =>
    intro s
    constructor
    · intro h; rw [Matches.nil_inv h]; simp
    · rintro ⟨h, _⟩
      have : s = [] := List.eq_nil_of_length_eq_zero (by simpa using h.symm)
      subst this; exact Matches.nil
  | cons c p ih =>
    intro s
    have hc := hp c (by simp)
    have hc1 : c ≠ '*' := by intro e; subst e; simp [isWild] at hc
    have hc2 : c ≠ '?' := by intro e; subst e; simp [isWild] at hc
    have ih' := ih (fun d hd => hp d (by simp [hd]))
    constructor
    · intro h
      rcases Matches.cons_inv h with ⟨h1, _⟩ | ⟨h1, _⟩ | ⟨_, _, x, xs, rfl, h3, hm⟩
      · exact absurd h1 hc1
      · exact absurd h1 hc2
      · obtain ⟨hl, hi⟩ := (ih' xs).mp hm
        refine ⟨by simp [hl], ?_⟩
        intro i h1 h2
        cases i with
        | zero => simp only [List.getElem_cons_zero]; exact h3
        | succ j =>
          simp only [List.getElem_cons_succ]
          exact hi j (by simpa using h1) (by simpa using h2)
    · rintro ⟨hl, hi⟩
      cases s with
      | nil => simp at hl
      | cons x xs =>
        have h0 := hi 0 (by simp) (by simp)
        simp only [List.getElem_cons_zero] at h0
        refine Matches.lit c p x xs hc1 hc2 h0 ((ih' xs).mpr ⟨by simpa using hl, ?_⟩)
        intro i h1 h2
        have hs := hi (i + 1) (by simp; omega) (by simp; omega)
        simp only [List.getElem_cons_succ] at hs
        exact hs

end Spec
end Scrapli.SSHConfig

namespace Scrapli.SSHConfig
open Scrapli.Gen.SSHConfig

/-! ### the model's matcher only finds instances of the pattern (soundness w.r.t. the specification) -/

theorem tokOf_star : tokOf '*' = .many := by decide
theorem tokOf_q : tokOf '?' = .one := by decide
theorem tokOf_lit {c : Char} (h1 : c ≠ '*') (h2 : c ≠ '?') : tokOf c = .lit c := by
  simp [tokOf, wildMany, wildOne, h1, h2]

theorem ceq_eq_sameChar (a b : Char) : ceq a b = Spec.sameChar a b := rfl

theorem starK_sound (k : Str → Option Nat) : ∀ (s : Str) (r : Nat), starK k s = some r →
    ∃ u t r', s = u ++ t ∧ k t = some r' := by
  intro s
  induction s with
  | nil => intro r h; exact ⟨[], [], r, rfl, h⟩
  | cons x xs ih =>
    intro r h
    unfold starK at h
    by_cases hd : dot x = true
    · simp only [hd, ↓reduceIte] at h
      cases hs : starK k xs with
      | some r1 =>
        obtain ⟨u, t, r', hu, hk⟩ := ih r1 hs
        exact ⟨x :: u, t, r', by simp [hu], hk⟩
      | none =>
        simp only [hs] at h
        exact ⟨[], x :: xs, r, rfl, h⟩
    · simp only [hd, Bool.false_eq_true, ↓reduceIte] at h
      exact ⟨[], x :: xs, r, rfl, h⟩

theorem matchAt_sound (p : Str) : ∀ (s : Str) (n : Nat), matchAt (toks p) s = some n →
    ∃ mid suf, s = mid ++ suf ∧ Spec.Matches p mid := by
  induction p with
  | nil => intro s n _; exact ⟨[], s, rfl, Spec.Matches.nil⟩
  | cons c p ih =>
    intro s n h
    by_cases hc : c = '*'
    · subst hc
      simp only [toks, List.map_cons, tokOf_star, matchAt] at h
      obtain ⟨u, t, r', rfl, hk⟩ := starK_sound _ s n h
      obtain ⟨mid, suf, rfl, hm⟩ := ih t r' hk
      exact ⟨u ++ mid, suf, by simp, Spec.Matches.star p u mid hm⟩
    · by_cases hq : c = '?'
      · subst hq
        simp only [toks, List.map_cons, tokOf_q, matchAt] at h
        cases s with
        | nil => simp at h
        | cons x xs =>
          simp only at h
          by_cases hd : dot x = true
          · simp only [hd, ↓reduceIte, Option.map_eq_some_iff] at h
            obtain ⟨m, hm, _⟩ := h
            obtain ⟨mid, suf, rfl, hM⟩ := ih xs m hm
            exact ⟨x :: mid, suf, rfl, Spec.Matches.one p x mid hM⟩
          · simp [hd] at h
      · simp only [toks, List.map_cons, tokOf_lit hc hq, matchAt] at h
        cases s with
        | nil => simp at h
        | cons x xs =>
          simp only at h
          by_cases he : ceq c x = true
          · simp only [he, ↓reduceIte] at h
            obtain ⟨mid, suf, rfl, hM⟩ := ih xs n h
            exact ⟨x :: mid, suf, rfl, Spec.Matches.lit c p x mid hc hq (by rw [← ceq_eq_sameChar]; exact he) hM⟩
          · simp [he] at h

theorem search_sound (ts : List Tok) : ∀ (s : Str) (n : Nat), search ts s = some n →
    ∃ pre rest, s = pre ++ rest ∧ matchAt ts rest = some n := by
  intro s
  induction s with
  | nil => intro n h; exact ⟨[], [], rfl, h⟩
  | cons x xs ih =>
    intro n h
    unfold search at h
    cases hm : matchAt ts (x :: xs) with
    | some r => simp only [hm, Option.some.injEq] at h; subst h; exact ⟨[], x :: xs, rfl, hm⟩
    | none =>
      simp only [hm] at h
      obtain ⟨pre, rest, hp, hr⟩ := ih n h
      exact ⟨x :: pre, rest, by simp [hp], hr⟩

/-- a hit of the model's unanchored search means: the name CONTAINS an instance of the pattern -/
theorem search_instance {p s : Str} {n : Nat} (h : search (toks p) s = some n) :
    ∃ pre mid suf, s = pre ++ mid ++ suf ∧ Spec.Matches p mid := by
  obtain ⟨pre, rest, rfl, hr⟩ := search_sound _ s n h
  obtain ⟨mid, suf, rfl, hm⟩ := matchAt_sound p rest n hr
  exact ⟨pre, mid, suf, by simp, hm⟩

/-! ### `_lookup_fuzzy_match` -/

theorem firstMin_fold_mem (l : List (Nat × Str)) : ∀ (acc : Option (Nat × Str)) (m : Nat × Str),
    l.foldl (fun cur m => match cur with
      | none => some m
      | some c => if m.1 < c.1 then some m else some c) acc = some m → acc = some m ∨ m ∈ l := by
  induction l with
  | nil => intro acc m h; exact Or.inl h
  | cons a l ih =>
    intro acc m h
    rw [List.foldl_cons] at h
    rcases ih _ m h with h1 | h1
    · cases acc with
      | none => simp only [Option.some.injEq] at h1; exact Or.inr (by simp [h1])
      | some c =>
        simp only at h1
        split at h1
        · simp only [Option.some.injEq] at h1; exact Or.inr (by simp [h1])
        · exact Or.inl h1
    · exact Or.inr (List.mem_cons_of_mem _ h1)

theorem firstMin_mem {l : List (Nat × Str)} {m : Nat × Str} (h : firstMin l = some m) : m ∈ l := by
  rcases firstMin_fold_mem l none m h with h1 | h1
  · cases h1
  · exact h1

theorem mem_hits {name : Str} {keys : List Str} {n : Nat} {k : Str} (h : (n, k) ∈ hits name keys) :
    k ∈ keys ∧ ∃ p ∈ splitWs k, search (toks p) name = some n := by
  unfold hits at h
  obtain ⟨k', hk', hm⟩ := List.mem_flatMap.mp h
  obtain ⟨p, hp, hs⟩ := List.mem_filterMap.mp hm
  obtain ⟨n', hn', heq⟩ := Option.map_eq_some_iff.mp hs
  simp only [Prod.mk.injEq] at heq
  obtain ⟨rfl, rfl⟩ := heq
  exact ⟨hk', p, hp, hn'⟩

theorem fuzzy_ok_cases {mc : List Char} {name : Str} {keys : List Str} {k : Str}
    (h : fuzzy mc name keys = .ok k) :
    anyBad mc keys = false ∧
    (k = starKey ∨ (k ∈ keys ∧ ∃ p ∈ splitWs k, ∃ n, search (toks p) name = some n)) := by
  unfold fuzzy at h
  by_cases hb : anyBad mc keys = true
  · simp [hb] at h
  · have hb' : anyBad mc keys = false := by simpa using hb
    refine ⟨hb', ?_⟩
    simp only [hb', Bool.false_eq_true, ↓reduceIte, Except.ok.injEq] at h
    cases hf : firstMin (hits name keys) with
    | none => simp only [hf] at h; exact Or.inl h.symm
    | some m =>
      simp only [hf] at h
      obtain ⟨n, k'⟩ := m
      simp only at h
      subst h
      obtain ⟨h1, p, hp, hs⟩ := mem_hits (firstMin_mem hf)
      exact Or.inr ⟨h1, p, hp, n, hs⟩

theorem fuzzy_ok_of_good {mc : List Char} (name : Str) {keys : List Str} (h : anyBad mc keys = false) :
    ∃ k, fuzzy mc name keys = .ok k := by
  unfold fuzzy; simp [h]

theorem anyBad_nil (keys : List Str) : anyBad [] keys = false := by
  simp [anyBad, badPat]

theorem anyBad_subset {mc : List Char} {ks ks' : List Str} (hs : ∀ k ∈ ks', k ∈ ks)
    (h : anyBad mc ks = false) : anyBad mc ks' = false := by
  unfold anyBad at *
  rw [Bool.eq_false_iff] at *
  intro h'
  apply h
  obtain ⟨k, hk, hb⟩ := List.any_eq_true.mp h'
  exact List.any_eq_true.mpr ⟨k, hs k hk, hb⟩

/-! ### attribute merging -/

theorem mergeAttrs_get (a : List Val) : ∀ (b : List Val) (i : Nat) (v : Val),
    (mergeAttrs a b)[i]? = some v →
    a[i]? = some v ∨ (b[i]? = some v ∧ ∃ w, a[i]? = some w ∧ w.truthy = false) := by
  induction a with
  | nil => intro b i v h; simp [mergeAttrs] at h
  | cons x xs ih =>
    intro b i v h
    cases b with
    | nil => left; simpa [mergeAttrs] using h
    | cons y ys =>
      simp only [mergeAttrs] at h
      cases i with
      | zero =>
        simp only [List.getElem?_cons_zero, Option.some.injEq] at h ⊢
        by_cases ht : x.truthy = true
        · simp only [ht, ↓reduceIte] at h; exact Or.inl h
        · simp only [ht, Bool.false_eq_true, ↓reduceIte] at h
          exact Or.inr ⟨h, x, rfl, by simpa using ht⟩
      | succ j =>
        simp only [List.getElem?_cons_succ] at h ⊢
        exact ih ys j v h

theorem mergeAttrs_keep (a : List Val) : ∀ (b : List Val) (i : Nat) (v : Val),
    a[i]? = some v → v.truthy = true → (mergeAttrs a b)[i]? = some v := by
  induction a with
  | nil => intro b i v h; simp at h
  | cons x xs ih =>
    intro b i v h ht
    cases b with
    | nil => simpa [mergeAttrs] using h
    | cons y ys =>
      simp only [mergeAttrs]
      cases i with
      | zero =>
        simp only [List.getElem?_cons_zero, Option.some.injEq] at h ⊢
        subst h; simp [ht]
      | succ j =>
        simp only [List.getElem?_cons_succ] at h ⊢
        exact ih ys j v h ht

end Scrapli.SSHConfig

namespace Scrapli.SSHConfig
open Scrapli.Gen.SSHConfig

/-! ### `_merge_hosts`: a generic invariant rule, and totality -/

/-- what one pass of the `while True` body does to `self.hosts` -/
def mergeInto (d : Dict Entry) (h : Str) (eh ef : Entry) : Dict Entry :=
  d.set h { eh with attrs := mergeAttrs eh.attrs ef.attrs }

/-- `P` is preserved by every possible pass of the loop body -/
def StepInv (mc : List Char) (P : Dict Entry → Prop) : Prop :=
  ∀ (h : Str) (d : Dict Entry) (ks : List Str) (fm : Str) (eh ef : Entry), P d →
    (∀ k ∈ ks, k ∈ d.keys) → fuzzy mc h ks = .ok fm → d.get? h = some eh → d.get? fm = some ef →
    P (mergeInto d h eh ef)

theorem keys_mergeInto {d : Dict Entry} {h : Str} {eh ef : Entry} (hh : d.get? h = some eh) :
    (mergeInto d h eh ef).keys = d.keys :=
  Dict.set_keys_of_mem _ (Dict.mem_keys_of_mem (Dict.get?_some_mem hh))

theorem inheritLoop_inv {mc : List Char} {P : Dict Entry → Prop} (hstep : StepInv mc P) (h : Str) :
    ∀ (n : Nat) (d : Dict Entry) (cur : List Str) (d' : Dict Entry), P d → (∀ k ∈ cur, k ∈ d.keys) →
      inheritLoop mc h n d cur = .ok d' → P d' ∧ d'.keys = d.keys := by
  intro n
  induction n with
  | zero => intro d cur d' _ _ hr; simp [inheritLoop] at hr
  | succ n ih =>
    intro d cur d' hP hcur hr
    unfold inheritLoop at hr
    have hks : ∀ k ∈ (if cur.isEmpty then d.keys else cur), k ∈ d.keys := by
      intro k hk
      split at hk
      · exact hk
      · exact hcur k hk
    generalize (if cur.isEmpty then d.keys else cur) = K at hr hks
    cases hf : fuzzy mc h K with
    | error e => simp [hf, bind, Except.bind] at hr
    | ok fm =>
      cases heh : d.getE h with
      | error e => simp [hf, heh, bind, Except.bind] at hr
      | ok eh =>
        cases hef : d.getE fm with
        | error e => simp [hf, heh, hef, bind, Except.bind] at hr
        | ok ef =>
          simp only [hf, heh, hef, bind, Except.bind] at hr
          have hP' : P (mergeInto d h eh ef) :=
            hstep h d _ fm eh ef hP hks hf (Dict.getE_ok heh) (Dict.getE_ok hef)
          have hkeys := keys_mergeInto (ef := ef) (Dict.getE_ok heh)
          by_cases hc : cur.contains fm = true
          · simp only [hc, ↓reduceIte] at hr
            have hcur' : ∀ k ∈ cur.erase fm, k ∈ (mergeInto d h eh ef).keys := by
              intro k hk; rw [hkeys]; exact hcur k (List.mem_of_mem_erase hk)
            obtain ⟨h1, h2⟩ := ih _ _ d' hP' hcur' hr
            exact ⟨h1, by rw [h2, hkeys]⟩
          · simp only [hc, Bool.false_eq_true, ↓reduceIte, Except.ok.injEq] at hr
            subst hr
            exact ⟨hP', hkeys⟩

theorem foldlM_mergeStep_inv {mc : List Char} {P : Dict Entry → Prop} (hstep : StepInv mc P) :
    ∀ (ks : List Str) (d d' : Dict Entry), P d → ks.foldlM (mergeStep mc) d = .ok d' →
      P d' ∧ d'.keys = d.keys := by
  intro ks
  induction ks with
  | nil => intro d d' hP hr; simp only [List.foldlM_nil, pure, Except.pure, Except.ok.injEq] at hr; subst hr; exact ⟨hP, rfl⟩
  | cons k ks ih =>
    intro d d' hP hr
    rw [List.foldlM_cons] at hr
    cases hs : mergeStep mc d k with
    | error e => simp [hs, bind, Except.bind] at hr
    | ok d1 =>
      simp only [hs, bind, Except.bind] at hr
      obtain ⟨hP1, hk1⟩ := inheritLoop_inv hstep k _ d d.keys d1 hP (fun _ hk => hk) hs
      obtain ⟨hP2, hk2⟩ := ih d1 d' hP1 hr
      exact ⟨hP2, by rw [hk2, hk1]⟩

theorem mergeHosts_inv {mc : List Char} {P : Dict Entry → Prop} (hstep : StepInv mc P)
    {d d' : Dict Entry} (hP : P d) (hr : mergeHosts mc d = .ok d') : P d' ∧ d'.keys = d.keys :=
  foldlM_mergeStep_inv hstep d.keys d d' hP hr

/-- the loop never raises and stops within `|_current_hosts| + 1` passes -/
theorem inheritLoop_ok {mc : List Char} (h : Str) :
    ∀ (n : Nat) (d : Dict Entry) (cur : List Str), cur.length < n → (∀ k ∈ cur, k ∈ d.keys) →
      h ∈ d.keys → starKey ∈ d.keys → anyBad mc d.keys = false →
      ∃ d', inheritLoop mc h n d cur = .ok d' := by
  intro n
  induction n with
  | zero => intro d cur hl; omega
  | succ n ih =>
    intro d cur hl hcur hh hstar hgood
    unfold inheritLoop
    have hks : ∀ k ∈ (if cur.isEmpty then d.keys else cur), k ∈ d.keys := by
      intro k hk
      split at hk
      · exact hk
      · exact hcur k hk
    generalize (if cur.isEmpty then d.keys else cur) = K at hks ⊢
    obtain ⟨fm, hf⟩ := fuzzy_ok_of_good h (anyBad_subset hks hgood)
    obtain ⟨eh, heh⟩ := Dict.get?_of_mem_keys hh
    have hfm : fm ∈ d.keys := by
      rcases (fuzzy_ok_cases hf).2 with h1 | ⟨h1, _⟩
      · rw [h1]; exact hstar
      · exact hks fm h1
    obtain ⟨ef, hef⟩ := Dict.get?_of_mem_keys hfm
    simp only [hf, Dict.getE_of_get? heh, Dict.getE_of_get? hef, bind, Except.bind]
    have hkeys := keys_mergeInto (ef := ef) heh
    by_cases hc : cur.contains fm = true
    · simp only [hc, ↓reduceIte]
      have hmem : fm ∈ cur := by simpa using hc
      have := ih (mergeInto d h eh ef) (cur.erase fm)
        (by have := List.length_pos_of_mem hmem; rw [List.length_erase_of_mem hmem]; omega)
        (by intro k hk; rw [hkeys]; exact hcur k (List.mem_of_mem_erase hk))
        (by rw [hkeys]; exact hh) (by rw [hkeys]; exact hstar) (by rw [hkeys]; exact hgood)
      exact this
    · simp only [hc, Bool.false_eq_true, ↓reduceIte]
      exact ⟨_, rfl⟩

theorem foldlM_mergeStep_ok {mc : List Char} :
    ∀ (ks : List Str) (d : Dict Entry), (∀ k ∈ ks, k ∈ d.keys) → starKey ∈ d.keys →
      anyBad mc d.keys = false → ∃ d', ks.foldlM (mergeStep mc) d = .ok d' := by
  intro ks
  induction ks with
  | nil => intro d _ _ _; exact ⟨d, rfl⟩
  | cons k ks ih =>
    intro d hks hstar hgood
    rw [List.foldlM_cons]
    obtain ⟨d1, h1⟩ := inheritLoop_ok (mc := mc) k (d.keys.length + 1) d d.keys (by omega)
      (fun _ hk => hk) (hks k (by simp)) hstar hgood
    have hk1 : d1.keys = d.keys :=
      (inheritLoop_inv (P := fun _ => True) (fun _ _ _ _ _ _ _ _ _ _ _ => trivial) k _ d d.keys d1 trivial
        (fun _ hk => hk) h1).2
    have : mergeStep mc d k = .ok d1 := h1
    simp only [this, bind, Except.bind]
    exact ih d1 (by intro k' hk'; rw [hk1]; exact hks k' (by simp [hk'])) (by rw [hk1]; exact hstar)
      (by rw [hk1]; exact hgood)

theorem mergeHosts_ok {mc : List Char} {d : Dict Entry} (hstar : starKey ∈ d.keys)
    (hgood : anyBad mc d.keys = false) : ∃ d', mergeHosts mc d = .ok d' :=
  foldlM_mergeStep_ok d.keys d (fun _ hk => hk) hstar hgood

/-! ### the file as a mapping (before merging) -/

/-- `self.hosts` right before `_merge_hosts()` -/
def fileDict (parsed : List Entry) : Dict Entry := withStar (insertAll parsed)

def allKeys (parsed : List Entry) : List Str := starKey :: parsed.map (·.hosts)

theorem foldl_set_keys (parsed : List Entry) : ∀ (d : Dict Entry) (k : Str),
    k ∈ (parsed.foldl (fun d e => d.set e.hosts e) d).keys ↔ k ∈ d.keys ∨ k ∈ parsed.map (·.hosts) := by
  induction parsed with
  | nil => intro d k; simp
  | cons e l ih =>
    intro d k
    rw [List.foldl_cons, ih, Dict.keys_set]
    by_cases hm : e.hosts ∈ d.keys
    · simp only [hm, ↓reduceIte, List.map_cons, List.mem_cons]
      constructor
      · rintro (h | h)
        · exact Or.inl h
        · exact Or.inr (Or.inr h)
      · rintro (h | h | h)
        · exact Or.inl h
        · rw [h]; exact Or.inl hm
        · exact Or.inr h
    · simp only [hm, ↓reduceIte, List.mem_append, List.map_cons, List.mem_cons, List.not_mem_nil, or_false]
      constructor
      · rintro ((h | h) | h)
        · exact Or.inl h
        · exact Or.inr (Or.inl h)
        · exact Or.inr (Or.inr h)
      · rintro (h | h | h)
        · exact Or.inl (Or.inl h)
        · exact Or.inl (Or.inr h)
        · exact Or.inr h

theorem foldl_set_mem (parsed : List Entry) : ∀ (d : Dict Entry) (k : Str) (e : Entry),
    (k, e) ∈ parsed.foldl (fun d e => d.set e.hosts e) d → (k, e) ∈ d ∨ (e ∈ parsed ∧ e.hosts = k) := by
  induction parsed with
  | nil => intro d k e h; exact Or.inl h
  | cons e0 l ih =>
    intro d k e h
    rw [List.foldl_cons] at h
    rcases ih _ k e h with h1 | ⟨h1, h2⟩
    · rcases Dict.mem_set h1 with ⟨h2, h3⟩ | h2
      · subst h3; exact Or.inr ⟨by simp, h2.symm⟩
      · exact Or.inl h2
    · exact Or.inr ⟨by simp [h1], h2⟩

theorem insertAll_keys (parsed : List Entry) : ∀ k, k ∈ (insertAll parsed).keys ↔ k ∈ parsed.map (·.hosts) := by
  intro k
  unfold insertAll
  rw [foldl_set_keys]
  simp [Dict.keys]

theorem insertAll_mem (parsed : List Entry) : ∀ k e, (k, e) ∈ insertAll parsed → e ∈ parsed ∧ e.hosts = k := by
  intro k e h
  rcases foldl_set_mem parsed [] k e h with h1 | h1
  · simp at h1
  · exact h1

theorem star_mem_fileDict (parsed : List Entry) : starKey ∈ (fileDict parsed).keys := by
  unfold fileDict withStar
  by_cases h : (insertAll parsed).keys.contains starKey = true
  · simp only [h, ↓reduceIte]; simpa using h
  · simp only [h, Bool.false_eq_true, ↓reduceIte]
    rw [Dict.keys_set]
    split <;> simp_all

theorem fileDict_keys (parsed : List Entry) : ∀ k, k ∈ (fileDict parsed).keys ↔ k ∈ allKeys parsed := by
  intro k
  unfold fileDict withStar allKeys
  by_cases h : (insertAll parsed).keys.contains starKey = true
  · have hm : starKey ∈ (insertAll parsed).keys := by simpa using h
    simp only [h, ↓reduceIte, List.mem_cons]
    rw [insertAll_keys]
    constructor
    · intro h'; exact Or.inr h'
    · rintro (h' | h')
      · rw [h']; exact (insertAll_keys parsed _).mp hm
      · exact h'
  · have hm : starKey ∉ (insertAll parsed).keys := by simpa using h
    simp only [h, Bool.false_eq_true, ↓reduceIte, List.mem_cons]
    rw [Dict.keys_set]
    simp only [hm, ↓reduceIte, List.mem_append, List.mem_singleton]
    rw [insertAll_keys]
    constructor
    · rintro (h' | h')
      · exact Or.inr h'
      · exact Or.inl h'
    · rintro (h' | h')
      · exact Or.inr h'
      · exact Or.inl h'

/-- the attribute defaults of `Host()` are all falsy (generated data) -/
theorem attrDefaults_falsy : ∀ v ∈ attrDefaults, Val.truthy v = false := by decide

theorem fileDict_mem (parsed : List Entry) : ∀ k e, (k, e) ∈ fileDict parsed →
    e.hosts = k ∧ (e ∈ parsed ∨ (k = starKey ∧ e = { defaultEntry with hosts := starKey })) := by
  intro k e h
  unfold fileDict withStar at h
  by_cases hc : (insertAll parsed).keys.contains starKey = true
  · simp only [hc, ↓reduceIte] at h
    obtain ⟨h1, h2⟩ := insertAll_mem parsed k e h
    exact ⟨h2, Or.inl h1⟩
  · simp only [hc, Bool.false_eq_true, ↓reduceIte] at h
    rcases Dict.mem_set h with ⟨h1, h2⟩ | h1
    · subst h2; exact ⟨h1.symm, Or.inr ⟨h1, rfl⟩⟩
    · obtain ⟨h2, h3⟩ := insertAll_mem parsed k e h1
      exact ⟨h3, Or.inl h2⟩

/-- with no regex metacharacter in any Host pattern, building the table never raises -/
theorem build_ok {mc : List Char} {parsed : List Entry} (hgood : anyBad mc (allKeys parsed) = false) :
    ∃ d, build mc parsed = .ok d := by
  unfold build
  exact mergeHosts_ok (star_mem_fileDict parsed)
    (anyBad_subset (fun k hk => (fileDict_keys parsed k).mp hk) hgood)

theorem build_inv {mc : List Char} {P : Dict Entry → Prop} (hstep : StepInv mc P) {parsed : List Entry}
    {d : Dict Entry} (hP : P (fileDict parsed)) (hb : build mc parsed = .ok d) :
    P d ∧ d.keys = (fileDict parsed).keys :=
  mergeHosts_inv hstep hP hb

end Scrapli.SSHConfig

namespace Scrapli.SSHConfig
open Scrapli.Gen.SSHConfig Scrapli.SSHConfig.Spec

theorem starKey_eq : starKey = Spec.star := rfl

/-! ### what `lookup` can return -/

theorem lookup_cases {mc : List Char} {d : Dict Entry} {name : Str} {r : Entry}
    (h : lookup mc d name = .ok r) :
    ∃ k, (k, r) ∈ d ∧ (k = name ∨ name ∈ splitWs k ∨ k = starKey ∨
      ∃ p ∈ splitWs k, ∃ n, search (toks p) name = some n) := by
  unfold lookup at h
  cases hg : d.get? name with
  | some e =>
    simp only [hg, Except.ok.injEq] at h; subst h
    exact ⟨name, Dict.get?_some_mem hg, Or.inl rfl⟩
  | none =>
    simp only [hg] at h
    cases hf : d.find? (fun ke => (splitWs ke.1).contains name) with
    | some ke =>
      simp only [hf, Except.ok.injEq] at h; subst h
      have h1 := List.mem_of_find?_eq_some hf
      have h2 := List.find?_some hf
      exact ⟨ke.1, h1, Or.inr (Or.inl (by simpa using h2))⟩
    | none =>
      simp only [hf] at h
      cases hz : fuzzy mc name d.keys with
      | error e => simp [hz, bind, Except.bind] at h
      | ok fm =>
        simp only [hz, bind, Except.bind] at h
        have hm := Dict.get?_some_mem (Dict.getE_ok h)
        rcases (fuzzy_ok_cases hz).2 with h1 | ⟨_, p, hp, n, hs⟩
        · exact ⟨fm, hm, Or.inr (Or.inr (Or.inl h1))⟩
        · exact ⟨fm, hm, Or.inr (Or.inr (Or.inr ⟨p, hp, n, hs⟩))⟩

theorem lookup_ok {mc : List Char} {d : Dict Entry} (name : Str) (hstar : starKey ∈ d.keys)
    (hgood : anyBad mc d.keys = false) : ∃ r, lookup mc d name = .ok r := by
  unfold lookup
  cases hg : d.get? name with
  | some e => exact ⟨e, rfl⟩
  | none =>
    simp only
    cases hf : d.find? (fun ke => (splitWs ke.1).contains name) with
    | some ke => exact ⟨ke.2, rfl⟩
    | none =>
      simp only
      obtain ⟨fm, hz⟩ := fuzzy_ok_of_good name hgood
      have hfm : fm ∈ d.keys := by
        rcases (fuzzy_ok_cases hz).2 with h1 | ⟨h1, _⟩
        · rw [h1]; exact hstar
        · exact h1
      obtain ⟨ef, hef⟩ := Dict.get?_of_mem_keys hfm
      exact ⟨ef, by simp [hz, bind, Except.bind, Dict.getE_of_get? hef]⟩

/-! ### provenance of every value in the merged table -/

/-- every set value of the entry stored under `k` was set, in the file, by an entry whose Host line is
    `k` or by `Host *` -/
def Prov (G : Str → Prop) (parsed : List Entry) (d : Dict Entry) : Prop :=
  (∀ k ∈ d.keys, k ∈ allKeys parsed) ∧
  ∀ k e, (k, e) ∈ d →
    (e.hostname.truthy = true → ∃ e0 ∈ parsed, e0.hostname = e.hostname ∧ e0.hosts = k) ∧
    ∀ (i : Nat) (v : Val), e.attrs[i]? = some v → v.truthy = true →
      ∃ e0 ∈ parsed, e0.attrs[i]? = some v ∧ (e0.hosts = k ∨ e0.hosts = starKey ∨ G e0.hosts)

/-- a pattern of a non-`*` Host line has an instance in the text of another Host line only if that line is `G`ood -/
def CrossOnly (G : Str → Prop) (keys : List Str) : Prop :=
  ∀ k1 ∈ keys, ∀ k2 ∈ keys, k2 ≠ k1 → k2 ≠ star → ∀ p ∈ splitWs k2,
    ∀ pre mid suf : Str, k1 = pre ++ mid ++ suf → Matches p mid → G k2

theorem crossOnly_of_noCross {keys : List Str} (h : NoCross keys) : CrossOnly (fun _ => False) keys :=
  fun k1 h1 k2 h2 hne hns p hp pre mid suf hs hm => h k1 h1 k2 h2 hne hns p hp pre mid suf hs hm

theorem prov_fileDict (G : Str → Prop) (parsed : List Entry) : Prov G parsed (fileDict parsed) := by
  refine ⟨fun k hk => (fileDict_keys parsed k).mp hk, ?_⟩
  intro k e hm
  obtain ⟨h1, h2⟩ := fileDict_mem parsed k e hm
  rcases h2 with h2 | ⟨_, h2⟩
  · exact ⟨fun _ => ⟨e, h2, rfl, h1⟩, fun i v hv _ => ⟨e, h2, hv, Or.inl h1⟩⟩
  · subst h2
    refine ⟨fun ht => ?_, fun i v hv ht => ?_⟩
    · have : hostnameDefault.truthy = false := by decide
      simp [defaultEntry, this] at ht
    · have hmem : v ∈ attrDefaults := List.mem_of_getElem? hv
      rw [attrDefaults_falsy v hmem] at ht
      cases ht

theorem prov_step {mc : List Char} {G : Str → Prop} {parsed : List Entry} (hnc : CrossOnly G (allKeys parsed)) :
    StepInv mc (Prov G parsed) := by
  intro h d ks fm eh ef hP hks hf heh hef
  obtain ⟨hkeys, hprov⟩ := hP
  have hh : h ∈ d.keys := Dict.mem_keys_of_mem (Dict.get?_some_mem heh)
  have hfmk : fm ∈ d.keys := Dict.mem_keys_of_mem (Dict.get?_some_mem hef)
  -- the donor is the entry itself or `Host *`
  have hfm : fm = h ∨ fm = starKey ∨ G fm := by
    rcases (fuzzy_ok_cases hf).2 with h1 | ⟨_, p, hp, n, hs⟩
    · exact Or.inr (Or.inl h1)
    · by_cases e1 : fm = h
      · exact Or.inl e1
      · by_cases e2 : fm = starKey
        · exact Or.inr (Or.inl e2)
        · obtain ⟨pre, mid, suf, hsplit, hm⟩ := search_instance hs
          exact Or.inr (Or.inr (hnc h (hkeys h hh) fm (hkeys fm hfmk) e1 (by rw [← starKey_eq]; exact e2) p hp pre mid suf
            hsplit hm))
  refine ⟨by rw [keys_mergeInto heh]; exact hkeys, ?_⟩
  intro k e hm
  rcases Dict.mem_set hm with ⟨rfl, rfl⟩ | hm'
  · obtain ⟨hn1, ha1⟩ := hprov _ eh (Dict.get?_some_mem heh)
    refine ⟨hn1, ?_⟩
    intro i v hv ht
    rcases mergeAttrs_get _ _ i v hv with h1 | ⟨h1, _⟩
    · exact ha1 i v h1 ht
    · obtain ⟨_, ha2⟩ := hprov fm ef (Dict.get?_some_mem hef)
      obtain ⟨e0, he0, hv0, hk0⟩ := ha2 i v h1 ht
      refine ⟨e0, he0, hv0, ?_⟩
      rcases hk0 with hk0 | hk0 | hk0
      · rcases hfm with e1 | e1 | e1
        · exact Or.inl (by rw [hk0, e1])
        · exact Or.inr (Or.inl (by rw [hk0, e1]))
        · exact Or.inr (Or.inr (by rw [hk0]; exact e1))
      · exact Or.inr (Or.inl hk0)
      · exact Or.inr (Or.inr hk0)
  · exact hprov k e hm'

/-! ### own values survive merging -/

def OwnInv (d0 d : Dict Entry) : Prop :=
  ∀ k e, d.get? k = some e → ∃ e0, d0.get? k = some e0 ∧ Keeps e0 e

theorem keeps_refl (e : Entry) : Keeps e e := ⟨rfl, rfl, fun _ _ h _ => h⟩

theorem own_step (mc : List Char) (d0 : Dict Entry) : StepInv mc (OwnInv d0) := by
  intro h d ks fm eh ef hP _ _ heh _ k e hg
  unfold mergeInto at hg
  rw [Dict.get?_set] at hg
  by_cases hk : k = h
  · subst hk
    simp only [↓reduceIte, Option.some.injEq] at hg
    subst hg
    obtain ⟨e0, h0, k1, k2, k3⟩ := hP k eh heh
    exact ⟨e0, h0, k1, k2, fun i v hv ht => mergeAttrs_keep _ _ i v (k3 i v hv ht) ht⟩
  · simp only [hk, ↓reduceIte] at hg
    exact hP k e hg

/-! ### keys are distinct -/

theorem nodup_set {α : Type} {d : Dict α} (k : Str) (v : α) (h : d.keys.Nodup) : (d.set k v).keys.Nodup := by
  rw [Dict.keys_set]
  by_cases hm : k ∈ d.keys
  · simp [hm, h]
  · simp only [hm, ↓reduceIte]
    rw [List.nodup_append]
    refine ⟨h, by simp, ?_⟩
    intro a ha b hb
    simp only [List.mem_singleton] at hb
    subst hb
    intro e; subst e; exact hm ha

theorem nodup_foldl_set (parsed : List Entry) : ∀ d : Dict Entry, d.keys.Nodup →
    (parsed.foldl (fun d e => d.set e.hosts e) d).keys.Nodup := by
  induction parsed with
  | nil => intro d h; exact h
  | cons e l ih => intro d h; rw [List.foldl_cons]; exact ih _ (nodup_set _ _ h)

theorem nodup_fileDict (parsed : List Entry) : (fileDict parsed).keys.Nodup := by
  unfold fileDict withStar
  have h : (insertAll parsed).keys.Nodup := nodup_foldl_set parsed [] (by simp [Dict.keys])
  split
  · exact h
  · exact nodup_set _ _ h

theorem get?_of_mem_nodup {α : Type} {d : Dict α} {k : Str} {v : α} (hn : d.keys.Nodup) (hm : (k, v) ∈ d) :
    d.get? k = some v := by
  induction d with
  | nil => simp at hm
  | cons hd r ih =>
    obtain ⟨k0, v0⟩ := hd
    rw [Dict.get?_cons]
    simp only [Dict.keys, List.map_cons, List.nodup_cons] at hn
    rcases List.mem_cons.mp hm with h1 | h1
    · simp only [Prod.mk.injEq] at h1
      simp [h1.1, h1.2]
    · have hk : k ∈ Dict.keys r := Dict.mem_keys_of_mem h1
      have hne : k ≠ k0 := by intro e; subst e; exact hn.1 hk
      simp only [hne, ↓reduceIte]
      exact ih hn.2 h1

end Scrapli.SSHConfig

namespace Scrapli.SSHConfig
open Scrapli.Gen.SSHConfig Scrapli.SSHConfig.Spec

/-! ### known_hosts -/

theorem foldl_hosts_mem {α : Type} (hs : List Str) (val : α) : ∀ (d : Dict α) (k : Str) (v : α),
    (k, v) ∈ hs.foldl (fun d h => d.set h val) d → (k, v) ∈ d ∨ (k ∈ hs ∧ v = val) := by
  induction hs with
  | nil => intro d k v h; exact Or.inl h
  | cons h0 l ih =>
    intro d k v h
    rw [List.foldl_cons] at h
    rcases ih _ k v h with h1 | ⟨h1, h2⟩
    · rcases Dict.mem_set h1 with ⟨h2, h3⟩ | h2
      · exact Or.inr ⟨by simp [h2], h3⟩
      · exact Or.inl h2
    · exact Or.inr ⟨by simp [h1], h2⟩

theorem foldl_hosts_keys {α : Type} (hs : List Str) (val : α) : ∀ (d : Dict α) (k : Str),
    k ∈ (hs.foldl (fun d h => d.set h val) d).keys ↔ k ∈ d.keys ∨ k ∈ hs := by
  induction hs with
  | nil => intro d k; simp
  | cons h0 l ih =>
    intro d k
    rw [List.foldl_cons, ih, Dict.keys_set]
    by_cases hm : h0 ∈ d.keys
    · simp only [hm, ↓reduceIte, List.mem_cons]
      constructor
      · rintro (h | h)
        · exact Or.inl h
        · exact Or.inr (Or.inr h)
      · rintro (h | h | h)
        · exact Or.inl h
        · rw [h]; exact Or.inl hm
        · exact Or.inr h
    · simp only [hm, ↓reduceIte, List.mem_append, List.mem_cons, List.not_mem_nil, or_false]
      constructor
      · rintro ((h | h) | h)
        · exact Or.inl h
        · exact Or.inr (Or.inl h)
        · exact Or.inr (Or.inr h)
      · rintro (h | h | h)
        · exact Or.inl (Or.inl h)
        · exact Or.inl (Or.inr h)
        · exact Or.inr h

def khFold (lines : List KHLine) (d : Dict (Str × Str)) : Dict (Str × Str) :=
  lines.foldl (fun d l => (splitOn listSep l.host).foldl (fun d h => d.set h l.val) d) d

theorem khFold_mem (lines : List KHLine) : ∀ (d : Dict (Str × Str)) (k : Str) (v : Str × Str),
    (k, v) ∈ khFold lines d → (k, v) ∈ d ∨ ∃ l ∈ lines, k ∈ splitOn listSep l.host ∧ l.val = v := by
  induction lines with
  | nil => intro d k v h; exact Or.inl h
  | cons l0 ls ih =>
    intro d k v h
    unfold khFold at h
    rw [List.foldl_cons] at h
    rcases ih _ k v h with h1 | ⟨l, hl, h2, h3⟩
    · rcases foldl_hosts_mem _ _ _ k v h1 with h2 | ⟨h2, h3⟩
      · exact Or.inl h2
      · exact Or.inr ⟨l0, by simp, h2, h3.symm⟩
    · exact Or.inr ⟨l, by simp [hl], h2, h3⟩

theorem khFold_keys (lines : List KHLine) : ∀ (d : Dict (Str × Str)) (k : Str),
    k ∈ (khFold lines d).keys ↔ k ∈ d.keys ∨ ∃ l ∈ lines, k ∈ splitOn listSep l.host := by
  induction lines with
  | nil => intro d k; simp [khFold]
  | cons l0 ls ih =>
    intro d k
    unfold khFold
    rw [List.foldl_cons]
    have := ih ((splitOn listSep l0.host).foldl (fun d h => d.set h l0.val) d) k
    unfold khFold at this
    rw [this, foldl_hosts_keys]
    constructor
    · rintro ((h | h) | ⟨l, hl, h⟩)
      · exact Or.inl h
      · exact Or.inr ⟨l0, by simp, h⟩
      · exact Or.inr ⟨l, by simp [hl], h⟩
    · rintro (h | ⟨l, hl, h⟩)
      · exact Or.inl (Or.inl h)
      · rcases List.mem_cons.mp hl with rfl | hl
        · exact Or.inl (Or.inr h)
        · exact Or.inr ⟨l, hl, h⟩

theorem khBuild_mem {lines : List KHLine} {k : Str} {v : Str × Str} (h : (k, v) ∈ khBuild lines) :
    ∃ l ∈ lines, k ∈ splitOn ',' l.host ∧ l.val = v := by
  rcases khFold_mem lines [] k v h with h1 | h1
  · simp at h1
  · exact h1

theorem khBuild_keys (lines : List KHLine) (k : Str) :
    k ∈ (khBuild lines).keys ↔ ∃ l ∈ lines, k ∈ splitOn ',' l.host := by
  have h1 := khFold_keys lines [] k
  have h2 : khBuild lines = khFold lines [] := rfl
  have h3 : listSep = ',' := rfl
  rw [h2, ← h3, h1]
  simp [Dict.keys]

theorem khScan_some {hm : Str → Str → Str → Option Bool} {name : Str} :
    ∀ {d : Dict (Str × Str)} {v : Str × Str}, khScan hm name d = .ok (some v) →
      ∃ k, (k, v) ∈ d ∧ IsHashOf hm k name := by
  intro d
  induction d with
  | nil => intro v h; simp [khScan] at h
  | cons hd r ih =>
    intro v h
    obtain ⟨k0, v0⟩ := hd
    unfold khScan at h
    by_cases hp : hashedPrefix.isPrefixOf k0 = true
    · simp only [hp, ↓reduceIte] at h
      split at h
      · rename_i a b salt hash hsplit
        cases hh : hm salt hash name with
        | none => simp [hh] at h
        | some bb =>
          cases bb with
          | true =>
            simp only [hh, Except.ok.injEq, Option.some.injEq] at h
            subst h
            exact ⟨k0, by simp, hp, a, b, salt, hash, hsplit, hh⟩
          | false =>
            simp only [hh] at h
            obtain ⟨k, hk, hi⟩ := ih h
            exact ⟨k, List.mem_cons_of_mem _ hk, hi⟩
      · simp at h
    · simp only [hp, Bool.false_eq_true, ↓reduceIte] at h
      obtain ⟨k, hk, hi⟩ := ih h
      exact ⟨k, List.mem_cons_of_mem _ hk, hi⟩

/-- when every hashed id decodes, the scan never raises; it finds a key iff some id hashes the name -/
theorem khScan_wf {hm : Str → Str → Str → Option Bool} {name : Str} :
    ∀ {d : Dict (Str × Str)},
      (∀ k v, (k, v) ∈ d → hashedPrefix.isPrefixOf k = true →
        ∃ a b salt hash, splitOn hashSep k = [a, b, salt, hash] ∧ hm salt hash name ≠ none) →
      (∃ v, khScan hm name d = .ok (some v)) ∨
      (khScan hm name d = .ok none ∧ ∀ k v, (k, v) ∈ d → ¬ IsHashOf hm k name) := by
  intro d
  induction d with
  | nil => intro _; exact Or.inr ⟨rfl, by simp⟩
  | cons hd r ih =>
    intro hwf
    obtain ⟨k0, v0⟩ := hd
    have ih' := ih (fun k v hkv => hwf k v (List.mem_cons_of_mem _ hkv))
    unfold khScan
    by_cases hp : hashedPrefix.isPrefixOf k0 = true
    · obtain ⟨a, b, salt, hash, hsplit, hne⟩ := hwf k0 v0 (by simp) hp
      simp only [hp, ↓reduceIte, hsplit]
      cases hh : hm salt hash name with
      | none => exact absurd hh hne
      | some bb =>
        cases bb with
        | true => exact Or.inl ⟨v0, rfl⟩
        | false =>
          simp only
          rcases ih' with h1 | ⟨h1, h2⟩
          · exact Or.inl h1
          · refine Or.inr ⟨h1, ?_⟩
            intro k v hkv hi
            rcases List.mem_cons.mp hkv with e | hkv'
            · simp only [Prod.mk.injEq] at e
              obtain ⟨rfl, rfl⟩ := e
              obtain ⟨_, a', b', s', h', hs', hm'⟩ := hi
              have : splitOn '|' k = splitOn hashSep k := rfl
              rw [this, hsplit] at hs'
              simp only [List.cons.injEq, and_true] at hs'
              obtain ⟨_, _, rfl, rfl⟩ := hs'
              rw [hh] at hm'
              cases hm'
            · exact h2 k v hkv' hi
    · simp only [hp, Bool.false_eq_true, ↓reduceIte]
      rcases ih' with h1 | ⟨h1, h2⟩
      · exact Or.inl h1
      · refine Or.inr ⟨h1, ?_⟩
        intro k v hkv hi
        rcases List.mem_cons.mp hkv with e | hkv'
        · simp only [Prod.mk.injEq] at e
          obtain ⟨rfl, rfl⟩ := e
          exact hp hi.1
        · exact h2 k v hkv' hi

end Scrapli.SSHConfig

namespace Scrapli.SSHConfig.Spec

/-! ### the executable forms decide the predicates -/

theorem mem_prefixes {t s : Str} : t ∈ prefixes s ↔ ∃ u, s = t ++ u := by
  induction s generalizing t with
  | nil =>
    simp only [prefixes, List.mem_singleton]
    constructor
    · rintro rfl; exact ⟨[], rfl⟩
    · rintro ⟨u, hu⟩
      have := congrArg List.length hu
      simp at this
      exact List.eq_nil_of_length_eq_zero (by omega)
  | cons x xs ih =>
    simp only [prefixes, List.mem_cons, List.mem_map]
    constructor
    · rintro (rfl | ⟨t', ht', rfl⟩)
      · exact ⟨x :: xs, rfl⟩
      · obtain ⟨u, hu⟩ := ih.mp ht'
        exact ⟨u, by simp [hu]⟩
    · rintro ⟨u, hu⟩
      cases t with
      | nil => exact Or.inl rfl
      | cons y ys =>
        right
        simp only [List.cons_append, List.cons.injEq] at hu
        exact ⟨ys, ih.mpr ⟨u, hu.2⟩, by rw [hu.1]⟩

theorem mem_infixes {mid s : Str} : mid ∈ infixes s ↔ ∃ pre suf, s = pre ++ mid ++ suf := by
  unfold infixes
  rw [List.mem_flatMap]
  constructor
  · rintro ⟨t, ht, hm⟩
    obtain ⟨pre, rfl⟩ := mem_suffixes.mp ht
    obtain ⟨suf, rfl⟩ := mem_prefixes.mp hm
    exact ⟨pre, suf, by simp⟩
  · rintro ⟨pre, suf, rfl⟩
    exact ⟨mid ++ suf, mem_suffixes.mpr ⟨pre, by simp⟩, mem_prefixes.mpr ⟨suf, rfl⟩⟩

theorem onlyWholeB_iff (p name : Str) : onlyWholeB p name = true ↔ OnlyWhole p name := by
  unfold onlyWholeB OnlyWhole
  rw [List.all_eq_true]
  constructor
  · intro h pre mid suf hs hm
    have := h mid (mem_infixes.mpr ⟨pre, suf, hs⟩)
    simp only [Bool.or_eq_true, Bool.not_eq_true'] at this
    rcases this with h1 | h1
    · rw [(globMatch_iff p mid).mpr hm] at h1; cases h1
    · exact (globMatch_iff p name).mp h1
  · intro h mid hmid
    obtain ⟨pre, suf, hs⟩ := mem_infixes.mp hmid
    simp only [Bool.or_eq_true, Bool.not_eq_true']
    by_cases hg : globMatch p mid = true
    · exact Or.inr ((globMatch_iff p name).mpr (h pre mid suf hs ((globMatch_iff p mid).mp hg)))
    · exact Or.inl (by simpa using hg)

theorem anchoredB_iff (keys : List Str) (name : Str) : anchoredB keys name = true ↔ Anchored keys name := by
  unfold anchoredB Anchored
  simp only [List.all_eq_true, onlyWholeB_iff]

theorem noCrossB_iff (keys : List Str) : noCrossB keys = true ↔ NoCross keys := by
  unfold noCrossB NoCross
  simp only [List.all_eq_true, Bool.or_eq_true, beq_iff_eq, Bool.not_eq_true']
  constructor
  · intro h k1 hk1 k2 hk2 hne hns p hp pre mid suf hs hm
    rcases h k1 hk1 k2 hk2 with (h1 | h1) | h1
    · exact hne h1
    · exact hns h1
    · have := h1 p hp mid (mem_infixes.mpr ⟨pre, suf, hs⟩)
      rw [(globMatch_iff p mid).mpr hm] at this
      cases this
  · intro h k1 hk1 k2 hk2
    by_cases e1 : k2 = k1
    · exact Or.inl (Or.inl e1)
    · by_cases e2 : k2 = star
      · exact Or.inl (Or.inr e2)
      · right
        intro p hp mid hmid
        obtain ⟨pre, suf, hs⟩ := mem_infixes.mp hmid
        cases hg : globMatch p mid with
        | false => rfl
        | true => exact absurd ((globMatch_iff p mid).mp hg) (h k1 hk1 k2 hk2 e1 e2 p hp pre mid suf hs)

end Scrapli.SSHConfig.Spec

namespace Scrapli.SSHConfig
open Scrapli.Gen.SSHConfig Scrapli.SSHConfig.Spec

/-! ### completeness of the model's matcher: every instance of the pattern inside the name is found -/

theorem starK_of_k (k : Str → Option Nat) (t : Str) (r : Nat) (h : k t = some r) :
    ∃ r', starK k t = some r' := by
  cases t with
  | nil => exact ⟨r, h⟩
  | cons x xs =>
    unfold starK
    by_cases hd : dot x = true
    · simp only [hd, ↓reduceIte]
      cases hs : starK k xs with
      | some r1 => exact ⟨r1 + 1, rfl⟩
      | none => exact ⟨r, h⟩
    · simp only [hd, Bool.false_eq_true, ↓reduceIte]; exact ⟨r, h⟩

theorem starK_complete (k : Str → Option Nat) : ∀ (u t : Str) (r : Nat), (∀ c ∈ u, dot c = true) →
    k t = some r → ∃ r', starK k (u ++ t) = some r' := by
  intro u
  induction u with
  | nil => intro t r _ h; exact starK_of_k k t r h
  | cons x u ih =>
    intro t r hu h
    obtain ⟨r1, h1⟩ := ih t r (fun c hc => hu c (by simp [hc])) h
    have hd : dot x = true := hu x (by simp)
    show ∃ r', starK k (x :: (u ++ t)) = some r'
    unfold starK
    simp only [hd, ↓reduceIte, h1]
    exact ⟨r1 + 1, rfl⟩

theorem matchAt_complete {p mid : Str} (hm : Matches p mid) : ∀ suf : Str, (∀ c ∈ mid, dot c = true) →
    ∃ n, matchAt (toks p) (mid ++ suf) = some n := by
  induction hm with
  | nil => intro suf _; exact ⟨0, rfl⟩
  | star p u t _ ih =>
    intro suf hd
    obtain ⟨n, hn⟩ := ih suf (fun c hc => hd c (by simp [hc]))
    obtain ⟨r', hr'⟩ := starK_complete (matchAt (toks p)) u (t ++ suf) n (fun c hc => hd c (by simp [hc])) hn
    refine ⟨r', ?_⟩
    simp only [toks, List.map_cons, tokOf_star, matchAt]
    rw [List.append_assoc]
    exact hr'
  | one p x xs _ ih =>
    intro suf hd
    obtain ⟨n, hn⟩ := ih suf (fun c hc => hd c (by simp [hc]))
    have hx : dot x = true := hd x (by simp)
    refine ⟨n + 1, ?_⟩
    simp only [toks, List.map_cons, tokOf_q, matchAt, List.cons_append, hx, ↓reduceIte]
    have : matchAt (List.map tokOf p) (xs ++ suf) = some n := hn
    simp [this]
  | lit c p x xs h1 h2 h3 _ ih =>
    intro suf hd
    obtain ⟨n, hn⟩ := ih suf (fun c hc => hd c (by simp [hc]))
    refine ⟨n, ?_⟩
    have he : ceq c x = true := by rw [ceq_eq_sameChar]; exact h3
    simp only [toks, List.map_cons, tokOf_lit h1 h2, matchAt, List.cons_append, he, ↓reduceIte]
    exact hn

theorem search_complete (ts : List Tok) (rest : Str) (n : Nat) (h : matchAt ts rest = some n) :
    ∀ pre : Str, ∃ n', search ts (pre ++ rest) = some n' := by
  intro pre
  induction pre with
  | nil =>
    cases rest with
    | nil => exact ⟨n, h⟩
    | cons x xs => exact ⟨n, by simp [search, h]⟩
  | cons y pre ih =>
    obtain ⟨n', hn'⟩ := ih
    show ∃ n', search ts (y :: (pre ++ rest)) = some n'
    unfold search
    cases hm : matchAt ts (y :: (pre ++ rest)) with
    | some r => exact ⟨r, rfl⟩
    | none => exact ⟨n', hn'⟩

end Scrapli.SSHConfig

namespace Scrapli.SSHConfig
open Scrapli.Gen.SSHConfig Scrapli.SSHConfig.Spec

/-! ### `firstMin` is the FIRST candidate with the MINIMAL score (review item 1) -/

/-- the step of the best-match loop (ssh_config.py: `if chars_replaced < best_match_chars_replaced`) -/
def minStep (cur : Option (Nat × Str)) (m : Nat × Str) : Option (Nat × Str) :=
  match cur with
  | none => some m
  | some c => if m.1 < c.1 then some m else some c

theorem firstMin_eq_foldl (l : List (Nat × Str)) : firstMin l = l.foldl minStep none := rfl

theorem minStep_fold_min (l : List (Nat × Str)) : ∀ (acc : Option (Nat × Str)) (m : Nat × Str),
    l.foldl minStep acc = some m → (∀ c, acc = some c → m.1 ≤ c.1) ∧ ∀ x ∈ l, m.1 ≤ x.1 := by
  induction l with
  | nil =>
    intro acc m h
    simp only [List.foldl_nil] at h
    exact ⟨fun c hc => by rw [h] at hc; cases hc; exact Nat.le_refl _, by simp⟩
  | cons a l ih =>
    intro acc m h
    rw [List.foldl_cons] at h
    obtain ⟨h1, h2⟩ := ih _ m h
    cases acc with
    | none =>
      have ha : m.1 ≤ a.1 := h1 a rfl
      exact ⟨by simp, fun x hx => by
        rcases List.mem_cons.mp hx with rfl | hx
        · exact ha
        · exact h2 x hx⟩
    | some c =>
      simp only [minStep] at h1
      by_cases hlt : a.1 < c.1
      · simp only [hlt, ↓reduceIte] at h1
        have ha : m.1 ≤ a.1 := h1 a rfl
        refine ⟨fun c' hc' => by cases hc'; omega, fun x hx => ?_⟩
        rcases List.mem_cons.mp hx with rfl | hx
        · exact ha
        · exact h2 x hx
      · simp only [hlt, ↓reduceIte] at h1
        have hc : m.1 ≤ c.1 := h1 c rfl
        refine ⟨fun c' hc' => by cases hc'; exact hc, fun x hx => ?_⟩
        rcases List.mem_cons.mp hx with rfl | hx
        · omega
        · exact h2 x hx

theorem minStep_fold_first (l : List (Nat × Str)) : ∀ (acc : Option (Nat × Str)) (m : Nat × Str),
    l.foldl minStep acc = some m →
    acc = some m ∨ ∃ pre suf, l = pre ++ m :: suf ∧ (∀ x ∈ pre, m.1 < x.1) ∧ ∀ c, acc = some c → m.1 < c.1 := by
  induction l with
  | nil => intro acc m h; exact Or.inl h
  | cons a l ih =>
    intro acc m h
    rw [List.foldl_cons] at h
    rcases ih _ m h with h1 | ⟨pre, suf, hl, hpre, hacc⟩
    · cases acc with
      | none =>
        simp only [minStep, Option.some.injEq] at h1
        subst h1
        exact Or.inr ⟨[], l, rfl, by simp, by simp⟩
      | some c =>
        simp only [minStep] at h1
        by_cases hlt : a.1 < c.1
        · simp only [hlt, ↓reduceIte, Option.some.injEq] at h1
          subst h1
          exact Or.inr ⟨[], l, rfl, by simp, fun c' hc' => by cases hc'; exact hlt⟩
        · simp only [hlt, ↓reduceIte] at h1
          exact Or.inl h1
    · right
      cases acc with
      | none =>
        have ha : m.1 < a.1 := hacc a rfl
        refine ⟨a :: pre, suf, by simp [hl], ?_, by simp⟩
        intro x hx
        rcases List.mem_cons.mp hx with rfl | hx
        · exact ha
        · exact hpre x hx
      | some c =>
        simp only [minStep] at hacc
        by_cases hlt : a.1 < c.1
        · simp only [hlt, ↓reduceIte] at hacc
          have ha : m.1 < a.1 := hacc a rfl
          refine ⟨a :: pre, suf, by simp [hl], ?_, fun c' hc' => by cases hc'; omega⟩
          intro x hx
          rcases List.mem_cons.mp hx with rfl | hx
          · exact ha
          · exact hpre x hx
        · simp only [hlt, ↓reduceIte] at hacc
          have hc : m.1 < c.1 := hacc c rfl
          refine ⟨a :: pre, suf, by simp [hl], ?_, fun c' hc' => by cases hc'; exact hc⟩
          intro x hx
          rcases List.mem_cons.mp hx with rfl | hx
          · omega
          · exact hpre x hx

/-- `firstMin` returns a candidate of minimal score, and every candidate BEFORE it scores strictly more -/
theorem firstMin_spec {l : List (Nat × Str)} {m : Nat × Str} (h : firstMin l = some m) :
    (∀ x ∈ l, m.1 ≤ x.1) ∧ ∃ pre suf, l = pre ++ m :: suf ∧ ∀ x ∈ pre, m.1 < x.1 := by
  rw [firstMin_eq_foldl] at h
  refine ⟨(minStep_fold_min l none m h).2, ?_⟩
  rcases minStep_fold_first l none m h with h1 | ⟨pre, suf, hl, hpre, _⟩
  · cases h1
  · exact ⟨pre, suf, hl, hpre⟩

theorem minStep_fold_some (l : List (Nat × Str)) : ∀ c : Nat × Str, ∃ m, l.foldl minStep (some c) = some m := by
  induction l with
  | nil => intro c; exact ⟨c, rfl⟩
  | cons a l ih =>
    intro c
    rw [List.foldl_cons]
    simp only [minStep]
    by_cases hlt : a.1 < c.1
    · simp only [hlt, ↓reduceIte]; exact ih a
    · simp only [hlt, ↓reduceIte]; exact ih c

theorem firstMin_none {l : List (Nat × Str)} (h : firstMin l = none) : l = [] := by
  cases l with
  | nil => rfl
  | cons a l =>
    rw [firstMin_eq_foldl, List.foldl_cons] at h
    obtain ⟨m, hm⟩ := minStep_fold_some l a
    simp only [minStep] at h
    rw [hm] at h
    cases h

end Scrapli.SSHConfig

namespace Scrapli.SSHConfig
open Scrapli.Gen.SSHConfig Scrapli.SSHConfig.Spec

/-! ### what `Host *` sets reaches every entry (review item 2: the one inheritance that always works) -/

/-- attribute number `i` of the entry, if present at all, is set -/
def Filled (i : Nat) (e : Entry) : Prop := ∀ w, e.attrs[i]? = some w → w.truthy = true

/-- the `*` entry of the table still carries the value `v` at position `i` -/
def StarHas (i : Nat) (v : Val) (d : Dict Entry) : Prop := ∃ e, d.get? starKey = some e ∧ e.attrs[i]? = some v

theorem mergeAttrs_filled_of_other (a : List Val) : ∀ (b : List Val) (i : Nat) (v : Val),
    b[i]? = some v → v.truthy = true → ∀ w, (mergeAttrs a b)[i]? = some w → w.truthy = true := by
  induction a with
  | nil => intro b i v _ _ w h; simp [mergeAttrs] at h
  | cons x xs ih =>
    intro b i v hb hv w h
    cases b with
    | nil => simp at hb
    | cons y ys =>
      simp only [mergeAttrs] at h
      cases i with
      | zero =>
        simp only [List.getElem?_cons_zero, Option.some.injEq] at hb h
        subst hb
        by_cases hx : x.truthy = true
        · simp only [hx, ↓reduceIte] at h; rw [← h]; exact hx
        · simp only [hx, Bool.false_eq_true, ↓reduceIte] at h; rw [← h]; exact hv
      | succ j =>
        simp only [List.getElem?_cons_succ] at hb h
        exact ih ys j v hb hv w h

theorem mergeAttrs_filled_keep (a b : List Val) (i : Nat)
    (ha : ∀ w, a[i]? = some w → w.truthy = true) : ∀ w, (mergeAttrs a b)[i]? = some w → w.truthy = true := by
  intro w h
  rcases mergeAttrs_get a b i w h with h1 | ⟨_, w', hw', hf⟩
  · exact ha w h1
  · rw [ha w' hw'] at hf; cases hf

theorem starHas_step {i : Nat} {v : Val} (hv : v.truthy = true) {d : Dict Entry} {h : Str} {eh ef : Entry}
    (hs : StarHas i v d) (heh : d.get? h = some eh) : StarHas i v (mergeInto d h eh ef) := by
  obtain ⟨e, he, hi⟩ := hs
  unfold mergeInto StarHas
  rw [Dict.get?_set]
  by_cases hk : starKey = h
  · subst hk
    rw [heh] at he
    cases he
    refine ⟨{ eh with attrs := mergeAttrs eh.attrs ef.attrs }, by simp, ?_⟩
    exact mergeAttrs_keep _ _ i v hi hv
  · exact ⟨e, by simp [hk, he], hi⟩

theorem inheritLoop_fills {mc : List Char} {h : Str} {i : Nat} {v : Val} (hv : v.truthy = true) :
    ∀ (n : Nat) (d : Dict Entry) (cur : List Str) (d' : Dict Entry), StarHas i v d →
      (starKey ∈ cur ∨ ∀ e, d.get? h = some e → Filled i e) →
      inheritLoop mc h n d cur = .ok d' → ∀ e, d'.get? h = some e → Filled i e := by
  intro n
  induction n with
  | zero => intro d cur d' _ _ hr; simp [inheritLoop] at hr
  | succ n ih =>
    intro d cur d' hs hJ hr
    unfold inheritLoop at hr
    generalize hK : (if cur.isEmpty then d.keys else cur) = K at hr
    cases hf : fuzzy mc h K with
    | error e => simp [hf, bind, Except.bind] at hr
    | ok fm =>
      cases heh : d.getE h with
      | error e => simp [hf, heh, bind, Except.bind] at hr
      | ok eh =>
        cases hef : d.getE fm with
        | error e => simp [hf, heh, hef, bind, Except.bind] at hr
        | ok ef =>
          simp only [hf, heh, hef, bind, Except.bind] at hr
          have heh' := Dict.getE_ok heh
          have hef' := Dict.getE_ok hef
          have hs1 : StarHas i v (mergeInto d h eh ef) := starHas_step hv hs heh'
          have hget : (mergeInto d h eh ef).get? h =
              some { eh with attrs := mergeAttrs eh.attrs ef.attrs } := by
            unfold mergeInto; rw [Dict.get?_set]; simp
          -- when `*` is still to come, the donor is in `cur`
          have hfm_cur : starKey ∈ cur → fm ∈ cur := by
            intro hsc
            have hne : cur.isEmpty = false := by
              cases cur with
              | nil => simp at hsc
              | cons _ _ => rfl
            rw [hne] at hK
            simp only [Bool.false_eq_true, ↓reduceIte] at hK
            rcases (fuzzy_ok_cases hf).2 with h1 | ⟨h1, _⟩
            · rw [h1]; exact hsc
            · rw [← hK] at h1; exact h1
          -- the merged entry is filled as soon as the donor was `*` or the entry was filled before
          have hfilled_of : (fm = starKey ∨ ∀ e, d.get? h = some e → Filled i e) →
              Filled i { eh with attrs := mergeAttrs eh.attrs ef.attrs } := by
            rintro (h1 | h1)
            · obtain ⟨e, he, hi⟩ := hs
              rw [h1, he] at hef'
              cases hef'
              exact mergeAttrs_filled_of_other _ _ i v hi hv
            · exact mergeAttrs_filled_keep _ _ i (h1 eh heh')
          by_cases hc : cur.contains fm = true
          · simp only [hc, ↓reduceIte] at hr
            refine ih _ _ d' hs1 ?_ hr
            rcases hJ with hsc | hfl
            · by_cases e1 : fm = starKey
              · right
                intro e he
                rw [hget] at he
                cases he
                exact hfilled_of (Or.inl e1)
              · left
                exact (List.mem_erase_of_ne (fun e => e1 e.symm)).mpr hsc
            · right
              intro e he
              rw [hget] at he
              cases he
              exact hfilled_of (Or.inr hfl)
          · simp only [hc, Bool.false_eq_true, ↓reduceIte, Except.ok.injEq] at hr
            subst hr
            intro e he
            have hget' : (d.set h { eh with attrs := mergeAttrs eh.attrs ef.attrs }).get? h =
                some { eh with attrs := mergeAttrs eh.attrs ef.attrs } := hget
            rw [hget'] at he
            cases he
            rcases hJ with hsc | hfl
            · exact absurd (by simpa using hfm_cur hsc) hc
            · exact hfilled_of (Or.inr hfl)

/-- invariant of the whole merge: `*` keeps its value and the entries already merged stay filled -/
def FillInv (i : Nat) (v : Val) (done : List Str) (d : Dict Entry) : Prop :=
  StarHas i v d ∧ ∀ k ∈ done, ∀ e, d.get? k = some e → Filled i e

theorem fill_step {mc : List Char} {i : Nat} {v : Val} (hv : v.truthy = true) (done : List Str) :
    StepInv mc (FillInv i v done) := by
  intro h d ks fm eh ef hP _ _ heh _
  obtain ⟨hs, hd⟩ := hP
  refine ⟨starHas_step hv hs heh, ?_⟩
  intro k hk e he
  unfold mergeInto at he
  rw [Dict.get?_set] at he
  by_cases e1 : k = h
  · subst e1
    simp only [↓reduceIte, Option.some.injEq] at he
    subst he
    exact mergeAttrs_filled_keep _ _ i (hd k hk eh heh)
  · simp only [e1, ↓reduceIte] at he
    exact hd k hk e he

theorem foldlM_fills {mc : List Char} {i : Nat} {v : Val} (hv : v.truthy = true) :
    ∀ (ks done : List Str) (d d' : Dict Entry), FillInv i v done d →
      ks.foldlM (mergeStep mc) d = .ok d' → FillInv i v (done ++ ks) d' := by
  intro ks
  induction ks with
  | nil =>
    intro done d d' hP hr
    simp only [List.foldlM_nil, pure, Except.pure, Except.ok.injEq] at hr
    subst hr; simpa using hP
  | cons k ks ih =>
    intro done d d' hP hr
    rw [List.foldlM_cons] at hr
    cases hs : mergeStep mc d k with
    | error e => simp [hs, bind, Except.bind] at hr
    | ok d1 =>
      simp only [hs, bind, Except.bind] at hr
      obtain ⟨hP1, _⟩ := inheritLoop_inv (fill_step (mc := mc) hv done) k _ d d.keys d1 hP (fun _ hk => hk) hs
      have hstar : starKey ∈ d.keys := by
        obtain ⟨e, he, _⟩ := hP.1
        exact Dict.mem_keys_of_mem (Dict.get?_some_mem he)
      have hk1 : ∀ e, d1.get? k = some e → Filled i e :=
        inheritLoop_fills hv _ d d.keys d1 hP.1 (Or.inl hstar) hs
      have hP2 : FillInv i v (done ++ [k]) d1 := by
        refine ⟨hP1.1, ?_⟩
        intro k' hk' e he
        rcases List.mem_append.mp hk' with h1 | h1
        · exact hP1.2 k' h1 e he
        · simp only [List.mem_singleton] at h1
          subst h1
          exact hk1 e he
      have := ih (done ++ [k]) d1 d' hP2 hr
      simpa [List.append_assoc] using this

end Scrapli.SSHConfig

namespace Scrapli.SSHConfig.Spec

theorem namesB_sound {key name : Str} (h : namesB key name = true) : Names key name := by
  unfold namesB at h
  simp only [Bool.or_eq_true, beq_iff_eq, List.any_eq_true] at h
  rcases h with (h | h) | ⟨p, hp, hm⟩
  · exact Or.inl h
  · exact Or.inr (Or.inl h)
  · exact Or.inr (Or.inr ⟨p, hp, (globMatch_iff p name).mp hm⟩)

theorem crossNamingB_sound {keys : List Str} {name : Str} (h : crossNamingB keys name = true) :
    CrossNaming keys name := by
  unfold crossNamingB at h
  simp only [List.all_eq_true, Bool.or_eq_true, beq_iff_eq, Bool.not_eq_true'] at h
  intro k1 hk1 k2 hk2 hne hns p hp pre mid suf hs hm
  rcases h k1 hk1 k2 hk2 with ((h1 | h1) | h1) | h1
  · exact absurd h1 hne
  · exact absurd h1 hns
  · exact namesB_sound h1
  · have := h1 p hp mid (mem_infixes.mpr ⟨pre, suf, hs⟩)
    rw [(globMatch_iff p mid).mpr hm] at this
    cases this

end Scrapli.SSHConfig.Spec
