import ScrapliProps.C01Lemmas
/-
  `send_inputs_interact` against a scripted dialogue device, for every segmentation of every read.
  Helper lemmas and definitions; the property theorems are in C01.lean.
-/
namespace Scrapli.Chan
open Scrapli

/-! ### an arbitrary stop test on the window is a prompt read -/

def patOf (f : Bytes → Bool) : Pat := { search := f, first := fun _ => none, sub := id }

theorem explicitAnySeen_eq (cfg : Cfg) (ps : List Bytes) :
    explicitAnySeen cfg ps =
      promptSeen (patOf (fun w => ps.any (fun p => explicitSeen cfg p w))) cfg.depth := by
  funext buf; rfl

theorem any_or_any {α : Type} (p q : α → Bool) : ∀ (l : List α),
    (l.any p || l.any q) = l.any (fun x => p x || q x) := by
  intro l
  induction l with
  | nil => rfl
  | cons a l ih =>
    simp only [List.any_cons, ← ih]
    cases p a <;> cases q a <;> cases l.any p <;> cases l.any q <;> rfl

/-! ### the window, once the last line is complete: only that line can decide -/

/-- like `after_ends`, and what precedes the last line is a suffix of what was in the window -/
theorem after_ends' (w0 z : Bytes) :
    ((w0 ++ NL :: z).dropWhile (· != NL)).drop 1 = z ∨
    ∃ v, v <:+ w0 ∧ ((w0 ++ NL :: z).dropWhile (· != NL)).drop 1 = v ++ NL :: z := by
  induction w0 with
  | nil => left; simp
  | cons c r ih =>
    by_cases hc : c = NL
    · right; exact ⟨r, List.suffix_cons _ _, by simp [hc]⟩
    · have : (c != NL) = true := by simpa using hc
      simp only [List.cons_append, List.dropWhile_cons, this, ↓reduceIte]
      rcases ih with h | ⟨v, hv, h⟩
      · left; exact h
      · right; exact ⟨v, hv.trans (List.suffix_cons _ _), h⟩

/-- over a buffer whose part before the last line is quiet, a line-local search on the window says
    exactly what the last line says -/
theorem window_any_last {P : Bytes → Bool} (d : Nat) (x z : Bytes) (hq : Quiet P x) (hz : z ≠ [])
    (hnl : NL ∉ z) (hd : z.length < d) :
    (splitNL (processReadBuf d (x ++ NL :: z))).any P = P z := by
  unfold processReadBuf partitionNL
  simp only
  have hw : takeLast d (x ++ NL :: z) = takeLast (d - (z.length + 1)) x ++ NL :: z := by
    have := takeLast_append d x (NL :: z) (by simp; omega)
    simpa using this
  rw [hw]
  rcases after_ends' (takeLast (d - (z.length + 1)) x) z with h | ⟨v, hv, h⟩
  · rw [h]
    simp [hz, splitNL_noNL z hnl]
  · rw [h]
    have hvx : v <:+: x := (hv.trans (takeLast_suffix _ x)).isInfix
    have hqv := quiet_any (quiet_infix hq hvx)
    simp [splitNL_append_NL, splitNL_noNL z hnl, hqv]

theorem quiet_mono {P Q : Bytes → Bool} {x : Bytes} (h : Quiet Q x) (hpq : ∀ s, Q s = false → P s = false) :
    Quiet P x := fun L hL s hs => hpq s (h L hL s hs)

/-! ### a scripted dialogue device -/

/-- one exchange: whether typed characters are echoed, and what the device prints after the
    return: `body`, a newline, the last line `q` (a question, or a CLI prompt) and trailing blanks.
    `isResp` / `isComplete` say what kind of line `q` is: the response the caller expects for this
    event / one of the interaction-complete patterns. -/
structure Step where
  echo : Bool
  body : Bytes
  q : Bytes
  t : Bytes
  isResp : Bool
  isComplete : Bool

def Step.respond (st : Step) : Bytes := st.body ++ NL :: st.q ++ st.t

/-- reaction to a write; the state is the script still to come -/
def scriptDev : List Step → Bytes → List Step × Bytes
  | [], _ => ([], [])
  | st :: rest, b => if b = [NL] ∨ b = [CR, NL] then (rest, st.respond) else (st :: rest, if st.echo then b else [])

abbrev Ev := Bytes × Bytes × Bool

/-- the guard of sync_channel.py:  `if channel_response and not hidden_input` (and a non-empty
    input): the echo of the input is read before the return is sent -/
def echoRead (ev : Ev) : Bool := !ev.2.1.isEmpty && !ev.2.2 && !ev.1.isEmpty

/-- what is still in front of the response when the return is sent -/
def front (ev : Ev) (st : Step) : Bytes :=
  if echoRead ev then [] else if st.echo then ev.1 else []

/-- everything the device prints during one exchange -/
def stepText (ev : Ev) (st : Step) : Bytes := (if st.echo then ev.1 else []) ++ st.respond

/-- the exchange ends the interactive session early -/
def Step.ends (complete : List Bytes) (st : Step) : Bool :=
  !complete.isEmpty && !st.isResp && st.isComplete

/-- an event and the exchange answering it, inside the quantifier of C01: `Pr` / `Pc` are the line
    predicates of the expected response and of the completion patterns (line-locality is validated
    against CPython like `Fits.search_lines`; for a literal response it is `literal_lines`) -/
structure GoodStep (cfg : Cfg) (complete : List Bytes) (Pr Pc : Bytes → Bool) (ev : Ev) (st : Step) : Prop where
  no_nl : NL ∉ ev.1
  no_bs : BS ∉ ev.1
  plain : Plain ev.1
  echoes : echoRead ev = true → st.echo = true ∧ squish ev.1 ≠ []
  resp_lines : ∀ w, explicitSeen cfg ev.2.1 w = (splitNL w).any Pr
  compl_lines : ∀ w, complete.any (fun p => explicitSeen cfg p w) = (splitNL w).any Pc
  quiet : ∀ L, squishBuf L = [] → NL ∉ L → Quiet (fun s => Pr s || Pc s) (L ++ front ev st ++ st.body)
  noEarly : NoEarly (fun s => Pr s || Pc s) st.q
  flags : ∀ t', t' <+: st.t → Pr (st.q ++ t') = st.isResp ∧ Pc (st.q ++ t') = st.isComplete
  stops : (st.isResp || st.isComplete) = true
  q_ne : st.q ≠ []
  q_nl : NL ∉ st.q
  q_plain : Plain st.q
  body_plain : Plain st.body
  t_hws : ∀ x ∈ st.t, isHws x = true
  fits_window : (st.q ++ st.t).length < cfg.depth

/-- everything the device prints during an exchange inside the quantifier is plain (no CR, no ESC) -/
theorem GoodStep.stepText_plain {cfg : Cfg} {complete : List Bytes} {Pr Pc : Bytes → Bool} {ev : Ev} {st : Step}
    (hg : GoodStep cfg complete Pr Pc ev st) : Plain (stepText ev st) := by
  unfold stepText Step.respond
  have he : Plain (if st.echo then ev.1 else []) := by
    split
    · exact hg.plain
    · exact ⟨by simp, by simp⟩
  have := ((he.append hg.body_plain).append (nl_cons_plain hg.q_plain)).append (hws_plain hg.t_hws)
  simpa [List.append_assoc] using this

theorem hws_infix {b s : Bytes} (h : ∀ x ∈ b, isHws x = true) (hs : s <:+: b) : ∀ x ∈ s, isHws x = true :=
  fun x hx => h x (hs.subset hx)

/-- **one event against the scripted device, every segmentation**: both reads end exactly where
    they should; the accumulated buffer gains the blank residue, the echo and the response up to a
    prefix of the trailing blanks; the rest of the trailing blanks is all that stays unread; the
    input and one return were written; the done flag is the script's. -/
theorem interactEvent_frames {cfg : Cfg} {complete : List Bytes} {Pr Pc : Bytes → Bool} {ev : Ev} {st : Step}
    (hstrict : cfg.rough = false) (hret : IsRet cfg.ret)
    (hg : GoodStep cfg complete Pr Pc ev st) (rest : List Step) (acc : Bytes)
    (w : Wire) (hres : ∀ x ∈ w.avail, isHws x = true) (hheld : w.held = []) :
    ∃ t' t'' cuts', t' ++ t'' = st.t ∧
      interactEvent cfg scriptDev complete ev acc (w, st :: rest) =
        some (acc ++ w.avail ++ (if st.echo then ev.1 else []) ++ st.body ++ NL :: st.q ++ t',
              ({ avail := t'', cuts := cuts', writes := w.writes ++ [ev.1, cfg.ret] }, rest),
              st.ends complete) := by
  obtain ⟨input, resp, hidden⟩ := ev
  have hinl : ¬ (input = [NL] ∨ input = [CR, NL]) := by
    intro e; rcases e with e | e <;> exact hg.no_nl (by simp [e])
  -- write the input
  have hw1 : Wire.write scriptDev (w, st :: rest) input =
      ({ w with avail := w.avail ++ (if st.echo then input else []), writes := w.writes ++ [input] },
        st :: rest) := by
    simp [Wire.write, scriptDev, hinl]
  -- phase 1: possibly read the echo; afterwards `b1 ++ L ++ front = residue ++ echo`, `L` invisible
  have hph1 : ∃ b1 L cuts1, squishBuf L = [] ∧ NL ∉ L ∧ Plain L ∧
      b1 ++ L ++ front (input, resp, hidden) st = w.avail ++ (if st.echo then input else []) ∧
      (if !resp.isEmpty && !hidden && !input.isEmpty then
          Wire.readUntil (inputSeen cfg.rough input)
            { w with avail := w.avail ++ (if st.echo then input else []), writes := w.writes ++ [input] }
        else some ([], { w with avail := w.avail ++ (if st.echo then input else []),
                                 writes := w.writes ++ [input] })) =
        some (b1, { avail := L ++ front (input, resp, hidden) st, cuts := cuts1,
                    writes := w.writes ++ [input] }) := by
    by_cases her : echoRead (input, resp, hidden) = true
    · obtain ⟨hecho, hvis⟩ := hg.echoes her
      have her' : (!resp.isEmpty && !hidden && !input.isEmpty) = true := her
      simp only [hecho, ↓reduceIte] at hvis ⊢
      have hpl1 : Plain (w.avail ++ input) := (hws_plain hres).append hg.plain
      have hF1 : squishBuf (w.avail ++ input) = squish input := by
        rw [squishBuf_append, hws_squishBuf hres, squishBuf_text hg.no_bs]; rfl
      obtain ⟨b1, L, cuts1, hru1, hsplit1, hL⟩ :=
        readUntil_echo input { w with avail := w.avail ++ input, writes := w.writes ++ [input] }
          hpl1 hheld hvis hF1
      simp only [hheld] at hru1
      have hsub : L.Sublist (w.avail ++ input) := by
        have : L.Sublist (b1 ++ L) := List.sublist_append_right _ _
        rw [hsplit1] at this; exact this
      have hLnl : NL ∉ L := by
        intro hm
        rcases List.mem_append.mp (hsub.subset hm) with h | h
        · exact hws_noNL hres h
        · exact hg.no_nl h
      refine ⟨b1, L, cuts1, hL, hLnl, hpl1.sublist hsub, ?_, ?_⟩
      · simp only [front, her, ↓reduceIte, List.append_nil]; exact hsplit1
      · simp only [her', ↓reduceIte, hstrict, front, her, List.append_nil, hheld]; exact hru1
    · have her0 : echoRead (input, resp, hidden) = false := by simpa using her
      have her' : (!resp.isEmpty && !hidden && !input.isEmpty) = false := her0
      refine ⟨[], w.avail, w.cuts, hws_squishBuf hres, hws_noNL hres, hws_plain hres, ?_, ?_⟩
      · simp [front, her0]
      · simp [her', front, her0, hheld]
  obtain ⟨b1, L, cuts1, hL, hLnl, hLpl, hsplit1, hr1⟩ := hph1
  -- phase 2: write the return, read up to the expected response or a completion pattern
  have hw2 : Wire.write scriptDev
      ({ avail := L ++ front (input, resp, hidden) st, cuts := cuts1, writes := w.writes ++ [input] },
        st :: rest) cfg.ret =
      ({ avail := L ++ front (input, resp, hidden) st ++ st.respond, cuts := cuts1,
         writes := w.writes ++ [input, cfg.ret] }, rest) := by
    have hr : cfg.ret = [NL] ∨ cfg.ret = [CR, NL] := hret
    simp [Wire.write, scriptDev, hr]
  have hav2 : L ++ front (input, resp, hidden) st ++ st.respond =
      (L ++ front (input, resp, hidden) st ++ st.body) ++ NL :: st.q ++ st.t := by
    simp [Step.respond, List.append_assoc]
  have hfpl : Plain (front (input, resp, hidden) st) := by
    unfold front; split
    · exact ⟨by simp, by simp⟩
    · split
      · exact hg.plain
      · exact ⟨by simp, by simp⟩
  have hpl2 : Plain (L ++ front (input, resp, hidden) st ++ st.respond) := by
    rw [hav2]
    exact (((hLpl.append hfpl).append hg.body_plain).append (nl_cons_plain hg.q_plain)).append
      (hws_plain hg.t_hws)
  let P : Bytes → Bool := fun s => Pr s || Pc s
  have hS : ∀ x, (patOf (fun w => (resp :: complete).any (fun p => explicitSeen cfg p w))).search x =
      (splitNL x).any P := by
    intro x
    show (resp :: complete).any (fun p => explicitSeen cfg p x) = _
    rw [List.any_cons, hg.resp_lines x, hg.compl_lines x, any_or_any]
  have hok : PromptOK P st.q st.t := by
    intro t' ht'
    obtain ⟨h1, h2⟩ := hg.flags t' ht'
    show (Pr (st.q ++ t') || Pc (st.q ++ t')) = true
    rw [h1, h2]; exact hg.stops
  obtain ⟨t', t'', cuts2, htt, hru2⟩ :=
    readUntil_prompt (patOf (fun w => (resp :: complete).any (fun p => explicitSeen cfg p w))) cfg.depth
      (L ++ front (input, resp, hidden) st ++ st.body) st.q st.t
      { avail := L ++ front (input, resp, hidden) st ++ st.respond, cuts := cuts1,
        writes := w.writes ++ [input, cfg.ret] }
      hav2 hpl2 rfl hS (hg.quiet L hL hLnl) hg.noEarly hok hg.q_nl (hws_noNL hg.t_hws) hg.q_ne hg.fits_window
  -- the done flag
  have htpre : t' <+: st.t := ⟨t'', htt⟩
  have hz : st.q ++ t' ≠ [] := by simp [hg.q_ne]
  have hznl : NL ∉ st.q ++ t' := by
    intro hm
    rcases List.mem_append.mp hm with h1 | h1
    · exact hg.q_nl h1
    · exact hws_noNL hg.t_hws (htpre.subset h1)
  have hzlen : (st.q ++ t').length < cfg.depth := by
    have := htpre.length_le
    have := hg.fits_window
    simp only [List.length_append] at *
    omega
  have hquiet := hg.quiet L hL hLnl
  have hqr : Quiet Pr (L ++ front (input, resp, hidden) st ++ st.body) :=
    quiet_mono hquiet (by intro s hs; cases h : Pr s <;> simp_all)
  have hqc : Quiet Pc (L ++ front (input, resp, hidden) st ++ st.body) :=
    quiet_mono hquiet (by intro s hs; cases h : Pc s <;> simp_all)
  have hdone : interactionComplete cfg resp complete
      (L ++ front (input, resp, hidden) st ++ st.body ++ NL :: st.q ++ t') = st.ends complete := by
    unfold interactionComplete Step.ends
    have hb : L ++ front (input, resp, hidden) st ++ st.body ++ NL :: st.q ++ t' =
        (L ++ front (input, resp, hidden) st ++ st.body) ++ NL :: (st.q ++ t') := by simp
    have hrl : ∀ w, explicitSeen cfg resp w = (splitNL w).any Pr := hg.resp_lines
    simp only [hb, hrl, hg.compl_lines, window_any_last cfg.depth _ _ hqr hz hznl hzlen,
      window_any_last cfg.depth _ _ hqc hz hznl hzlen]
    obtain ⟨h1, h2⟩ := hg.flags t' htpre
    rw [h1, h2]
    cases complete.isEmpty <;> cases st.isResp <;> cases st.isComplete <;> rfl
  refine ⟨t', t'', cuts2, htt, ?_⟩
  unfold interactEvent
  simp only [hw1]
  rw [hr1]
  simp only [hw2]
  rw [explicitAnySeen_eq, hru2]
  simp only [hdone]
  congr 2
  -- acc ++ b1 ++ (L ++ front ++ body ++ NL :: q ++ t') = acc ++ residue ++ echo ++ body ++ NL :: q ++ t'
  have : b1 ++ (L ++ front (input, resp, hidden) st ++ st.body ++ NL :: st.q ++ t') =
      (b1 ++ L ++ front (input, resp, hidden) st) ++ (st.body ++ NL :: st.q ++ t') := by
    simp [List.append_assoc]
  rw [List.append_assoc acc b1, this, hsplit1]
  simp [List.append_assoc]

/-! ### the whole interactive session -/

/-- the exchanges that take place: up to and including the first one that ends the session -/
def consumed (complete : List Bytes) : List (Ev × Step) → List (Ev × Step)
  | [] => []
  | p :: ps => if p.2.ends complete then [p] else p :: consumed complete ps

theorem consumed_subset (complete : List Bytes) : ∀ (ps : List (Ev × Step)) (p : Ev × Step),
    p ∈ consumed complete ps → p ∈ ps := by
  intro ps
  induction ps with
  | nil => intro p h; simp [consumed] at h
  | cons q qs ih =>
    intro p h
    unfold consumed at h
    split at h
    · simp at h; simp [h]
    · rcases List.mem_cons.mp h with e | e
      · simp [e]
      · exact List.mem_cons_of_mem _ (ih p e)

theorem consumed_length_le (complete : List Bytes) : ∀ (ps : List (Ev × Step)),
    (consumed complete ps).length ≤ ps.length := by
  intro ps
  induction ps with
  | nil => simp [consumed]
  | cons p ps ih => unfold consumed; split <;> simp <;> omega

/-- **`send_inputs_interact`'s loop against the scripted device, every segmentation**:
    conservation — what was returned plus what is still unread is the blank residue found at the
    start plus exactly the text of the exchanges that took place, in order; what is unread is a
    suffix of the last exchange's trailing blanks; each input was written once, followed by one
    return, and nothing was written after the exchange that ended the session. -/
theorem interactLoop_frames {cfg : Cfg} {complete : List Bytes}
    (hstrict : cfg.rough = false) (hret : IsRet cfg.ret) :
    ∀ (ps : List (Ev × Step)) (extra : List Step) (acc : Bytes) (w : Wire),
      (∀ p ∈ ps, ∃ Pr Pc, GoodStep cfg complete Pr Pc p.1 p.2) →
      (∀ x ∈ w.avail, isHws x = true) → w.held = [] →
      ∃ raw w', interactLoop cfg scriptDev complete (ps.map (·.1)) acc (w, ps.map (·.2) ++ extra) =
          some (raw, (w', (ps.drop (consumed complete ps).length).map (·.2) ++ extra)) ∧
        raw ++ w'.avail = acc ++ w.avail ++ ((consumed complete ps).map (fun p => stepText p.1 p.2)).flatten ∧
        (∀ x ∈ w'.avail, isHws x = true) ∧
        (∀ p, (consumed complete ps).getLast? = some p → w'.avail <:+ p.2.t) ∧
        w'.writes = w.writes ++ ((consumed complete ps).map (fun p => [p.1.1, cfg.ret])).flatten ∧
        w'.held = [] := by
  intro ps
  induction ps with
  | nil =>
    intro extra acc w _ hres hheld
    exact ⟨acc, w, by simp [interactLoop, consumed], by simp [consumed], hres, by simp [consumed],
      by simp [consumed], hheld⟩
  | cons p ps ih =>
    intro extra acc w hgood hres hheld
    obtain ⟨Pr, Pc, hg⟩ := hgood p (by simp)
    obtain ⟨t', t'', cuts', htt, hev⟩ :=
      interactEvent_frames hstrict hret hg (ps.map (·.2) ++ extra) acc w hres hheld
    have ht''hws : ∀ x ∈ t'', isHws x = true := fun x hx =>
      hg.t_hws x (by rw [← htt]; exact List.mem_append_right _ hx)
    by_cases hend : p.2.ends complete = true
    · refine ⟨acc ++ w.avail ++ (if p.2.echo then p.1.1 else []) ++ p.2.body ++ NL :: p.2.q ++ t',
        { avail := t'', cuts := cuts', writes := w.writes ++ [p.1.1, cfg.ret] }, ?_, ?_, ht''hws, ?_, ?_, rfl⟩
      · simp only [List.map_cons, List.cons_append, interactLoop, hev, hend, ↓reduceIte, consumed,
          List.length_singleton, List.drop_succ_cons, List.drop_zero]
      · simp only [consumed, hend, ↓reduceIte, List.map_cons, List.map_nil, List.flatten_cons,
          List.flatten_nil, List.append_nil, stepText, Step.respond]
        rw [← htt]; simp [List.append_assoc]
      · intro q hq
        simp only [consumed, hend, ↓reduceIte, List.getLast?_singleton, Option.some.injEq] at hq
        subst hq
        exact ⟨t', htt⟩
      · simp [consumed, hend]
    · have hend' : p.2.ends complete = false := by simpa using hend
      obtain ⟨raw, w', hloop, hcons, hhws, hlast, hwr, hheld'⟩ :=
        ih extra (acc ++ w.avail ++ (if p.2.echo then p.1.1 else []) ++ p.2.body ++ NL :: p.2.q ++ t')
          { avail := t'', cuts := cuts', writes := w.writes ++ [p.1.1, cfg.ret] }
          (fun q hq => hgood q (List.mem_cons_of_mem _ hq)) ht''hws rfl
      refine ⟨raw, w', ?_, ?_, hhws, ?_, ?_, hheld'⟩
      · simp only [List.map_cons, List.cons_append, interactLoop, hev, hend', Bool.false_eq_true,
          ↓reduceIte, consumed, List.length_cons, List.drop_succ_cons]
        exact hloop
      · rw [hcons]
        simp only [consumed, hend', Bool.false_eq_true, ↓reduceIte, List.map_cons, List.flatten_cons,
          stepText, Step.respond]
        rw [← htt]; simp [List.append_assoc]
      · intro q hq
        simp only [consumed, hend', Bool.false_eq_true, ↓reduceIte] at hq
        cases hc : consumed complete ps with
        | nil =>
          -- no further exchange: the last one is p, and nothing more was read
          rw [hc] at hq hloop hcons
          simp only [List.getLast?_singleton, Option.some.injEq] at hq
          subst hq
          cases ps with
          | nil =>
            simp only [List.map_nil, List.nil_append, interactLoop, Option.some.injEq, Prod.mk.injEq] at hloop
            obtain ⟨_, hw', _⟩ := hloop
            rw [← hw']
            exact ⟨t', htt⟩
          | cons p2 ps2 =>
            exfalso
            unfold consumed at hc
            split at hc <;> simp at hc
        | cons c cs =>
          rw [hc] at hq
          have : (consumed complete ps).getLast? = some q := by
            rw [hc]; simpa [List.getLast?_cons_cons] using hq
          exact hlast q this
      · rw [hwr]
        simp [consumed, hend', List.append_assoc]

end Scrapli.Chan

namespace Scrapli.Chan
open Scrapli

/-! ### a literal expected response is line-local -/

theorem splitNL_head_prefix : ∀ (w : Bytes), (splitNL w).headD [] <+: w ∧ ∀ ℓ ∈ splitNL w, ℓ <:+: w := by
  intro w
  induction w with
  | nil => simp [splitNL]
  | cons c r ih =>
    obtain ⟨ih1, ih2⟩ := ih
    rw [splitNL_cons]
    have hne := splitNL_ne_nil r
    by_cases hc : c = NL
    · simp only [hc, beq_self_eq_true, ↓reduceIte, List.headD_cons, List.nil_prefix, List.mem_cons, true_and]
      intro ℓ hℓ
      rcases hℓ with e | e
      · subst e; exact List.nil_infix
      · exact (ih2 ℓ e).trans (List.suffix_cons _ _).isInfix
    · have hc' : (c == NL) = false := by simpa using hc
      simp only [hc', Bool.false_eq_true, ↓reduceIte, List.headD_cons, List.mem_cons]
      refine ⟨List.prefix_cons_inj c |>.mpr ih1, ?_⟩
      intro ℓ hℓ
      rcases hℓ with e | e
      · subst e; exact (List.prefix_cons_inj c |>.mpr ih1).isInfix
      · exact (ih2 ℓ (List.mem_of_mem_tail e)).trans (List.suffix_cons _ _).isInfix

/-- a text without newline occurs in a buffer iff it occurs in one of its lines -/
theorem infix_lines (r w : Bytes) (hnl : NL ∉ r) : r <:+: w ↔ ∃ ℓ ∈ splitNL w, r <:+: ℓ := by
  constructor
  · rintro ⟨a, b, rfl⟩
    have h1 : splitNL (r ++ b) = (r ++ (splitNL b).headD []) :: (splitNL b).tail := by
      rw [splitNL_append, splitNL_noNL r hnl]; simp
    refine ⟨(splitNL a).getLastD [] ++ (r ++ (splitNL b).headD []), ?_, ?_⟩
    · rw [List.append_assoc, splitNL_append, h1]; simp
    · exact ⟨(splitNL a).getLastD [], (splitNL b).headD [], by simp⟩
  · rintro ⟨ℓ, hℓ, h⟩
    exact h.trans ((splitNL_head_prefix w).2 ℓ hℓ)

/-- `_get_prompt_pattern` on an expected response that is not written `^…$`: a substring test, and
    a substring test for a text without newline is line-local -/
theorem literal_lines (cfg : Cfg) (resp : Bytes) (hne : resp ≠ [])
    (hlit : (resp.head? == some 94 && resp.getLast? == some 36) = false) (hnl : NL ∉ resp) :
    ∀ w, explicitSeen cfg resp w = (splitNL w).any (isInfixB resp) := by
  intro w
  unfold explicitSeen
  have h0 : resp.isEmpty = false := by simpa using hne
  simp only [h0, Bool.false_eq_true, ↓reduceIte, hlit]
  rw [Bool.eq_iff_iff, isInfixB_iff, List.any_eq_true, infix_lines resp w hnl]
  constructor
  · rintro ⟨ℓ, h1, h2⟩; exact ⟨ℓ, h1, (isInfixB_iff _ _).mpr h2⟩
  · rintro ⟨ℓ, h1, h2⟩; exact ⟨ℓ, h1, (isInfixB_iff _ _).mp h2⟩

/-! ### the processed result of an interactive session -/

theorem normalizeText_append_hws (a t : Bytes) (ht : ∀ x ∈ t, isHws x = true) :
    normalizeText (a ++ t) = normalizeText a := by
  unfold normalizeText
  congr 2
  rw [splitNL_append, splitNL_noNL t (hws_noNL ht)]
  have hne := splitNL_ne_nil a
  obtain ⟨init, last, hl⟩ : ∃ init last, splitNL a = init ++ [last] := by
    rcases List.eq_nil_or_concat (splitNL a) with h | ⟨i, l, h⟩
    · exact absurd h hne
    · exact ⟨i, l, by rw [h, List.concat_eq_append]⟩
  rw [hl]
  simp [rstrip_append_ws _ _ (hws_ws ht)]

theorem trimLines_snoc_empty (l : List Bytes) : trimLines (l ++ [[]]) = trimLines l := by
  unfold trimLines
  rw [List.dropWhile_append]
  split
  · rename_i h
    have : l.dropWhile List.isEmpty = [] := by simpa using h
    simp [this]
  · simp

/-- **what `_process_output` returns without prompt stripping, for ANY CR-free buffer** (return char `\n` or `\r\n`):
    every line right-trimmed, leading and trailing empty lines dropped -/
theorem processOutput_eq_normalize (cfg : Cfg) (hret : IsRet cfg.ret) (b : Bytes) (hcr : CR ∉ b) :
    processOutput cfg b false = normalizeText b := by
  unfold processOutput normalizeText
  simp only [Bool.false_eq_true, ↓reduceIte]
  have hcr' : CR ∉ joinNL ((splitlines b).map rstrip) := by
    intro hm
    rcases mem_joinNL _ _ hm with e | ⟨l, hl, hc⟩
    · exact absurd e (by decide)
    · obtain ⟨a, ha, rfl⟩ := List.mem_map.mp hl
      have : a ∈ splitNL b := by
        unfold splitlines at ha
        simp only at ha
        split at ha
        · exact (List.dropLast_prefix _).subset ha
        · exact ha
      exact hcr (splitNL_subset b a this CR (rstrip_subset hc))
  rw [lstripChars_ret hret _ hcr']
  have hnl : ∀ l ∈ (splitlines b).map rstrip, NL ∉ l := by
    intro l hl
    obtain ⟨a, ha, rfl⟩ := List.mem_map.mp hl
    have : a ∈ splitNL b := by
      unfold splitlines at ha
      simp only at ha
      split at ha
      · exact (List.dropLast_prefix _).subset ha
      · exact ha
    exact rstrip_no_nl (splitNL_no_nl _ a this)
  have htr : ∀ l ∈ (splitlines b).map rstrip, rstrip l = l := by
    intro l hl
    obtain ⟨a, _, rfl⟩ := List.mem_map.mp hl
    exact rstrip_idem a
  rw [lstrip_joinNL _ hnl, rstrip_joinNL _ (dropWhile_isEmpty_trimmed _ htr)]
  show joinNL (trimLines ((splitlines b).map rstrip)) = _
  congr 1
  unfold splitlines
  simp only
  split
  · rename_i h
    have h' : (splitNL b).getLast? = some [] := by simpa using h
    obtain ⟨ys, hys⟩ := List.getLast?_eq_some_iff.mp h'
    rw [hys]
    simp only [List.dropLast_concat, List.map_append, List.map_cons, List.map_nil]
    have : rstrip ([] : Bytes) = [] := rfl
    rw [this, trimLines_snoc_empty]
  · rfl

theorem lstrip_append_hws_normalize (a t : Bytes) (ht : ∀ x ∈ t, isHws x = true) :
    normalizeText ((a ++ t).dropWhile isWs) = normalizeText (a.dropWhile isWs) := by
  rw [List.dropWhile_append]
  split
  · rename_i h
    have h' : a.dropWhile isWs = [] := by simpa using h
    rw [h', dropWhile_all t (hws_ws ht)]
  · exact normalizeText_append_hws _ _ ht

theorem consumed_ne_nil (complete : List Bytes) (p : Ev × Step) (ps : List (Ev × Step)) :
    consumed complete (p :: ps) ≠ [] := by
  unfold consumed; split <;> simp

end Scrapli.Chan
