import ScrapliProps.C18Lemmas
import ScrapliProps.C18HeapLemmas
/-
  C18 — the factory builds what direct construction builds; connections are isolated.
  Property theorems only (helper lemmas: C18Lemmas.lean, C18HeapLemmas.lean).

  Factory half: quantifiers are EVERY keyword set `call` (any keys, any values, any number of extra
  keywords), every community environment, sync and async.  The theorems are stated for any `Tables`
  satisfying the decidable shape predicate `Tables.ok`, and `generated_tables_ok` /
  `forwarding_complete` decide that predicate on the tables GENERATED from scrapli/factory.py.

  Isolation half (PARTIAL, see `isolation_partial` / `isolation_full_refuted`): quantifiers are every
  separated initial state (in particular the one built from the GENERATED platform definitions), EVERY
  list over the SIX table operations of `Op` (construct, register_configuration_session, in-place level
  edit, in-place failed_when_contains edit, del level, assign a new level object; any interleaving, any
  number of connections, re-construction of a slot included) and every class table whose constructors
  copy (`Copies`, decided on the GENERATED copy modes of the ten platform drivers).  Observables are the
  `privilege_levels` / `failed_when_contains` tables of the platform definitions and of the connections.
  Not in the model: constructions with user-supplied tables, non-table attributes (transport options,
  timeouts, prompt pattern: watched by the check's oracle only), and `_current_priv_level`, which is ONE
  module-level object for all connections: for it the full statement is refuted (`isolation_full_refuted`).
-/
namespace Scrapli.Factory
open Scrapli.Gen.Factory

/-! ## generated instance: shape of the tables -/

/-- the tables generated from factory.py have the shape the model's theorems need, sync and async -/
theorem generated_tables_ok : (genTables false).ok = true ∧ (genTables true).ok = true := by
  decide +kernel

/-- the names forwarded by the factory, read off the generated keyword table of the call -/
def forwardedNames (async : Bool) : List String := (genTables async).forwarded

/-- a driver-constructor parameter can be given through the factory: either the factory forwards it by
    name, or the factory has no parameter of that name and it travels through `**kwargs` -/
def deliverable (async : Bool) (n : String) : Bool :=
  (forwardedNames async).contains n ||
    ((genTables async).newSig.varKw && (genTables async).fwd && !(genTables async).newSig.names.contains n)

/-- **forwarding_complete** (generated, decided).  For `Scrapli.__new__` and `AsyncScrapli.__new__`:
    (1) every parameter except `platform` / `variant` is passed to `_build_provided_kwargs_dict` under
        its own name, is a parameter of that function, and is a key of its dict literal bound to the
        variable of the same name; `**kwargs` is forwarded (this is `Tables.ok`);
    (2) sync and async accept the same parameters;
    (3) no forwarded name would be rejected by any of the ten platform-driver constructors, and every
        constructor parameter of every platform driver is deliverable through the factory;
    (4) every platform driver hands each of its parameters to `super().__init__` under its own name. -/
theorem forwarding_complete :
    ((genTables false).ok = true ∧ (genTables true).ok = true) ∧
    sameSet newSigSync.names newSigAsync.names = true ∧
    (ctors.all fun c =>
      (forwardedNames false).all c.sig.names.contains && (forwardedNames true).all c.sig.names.contains &&
      c.sig.names.all (deliverable false) && c.sig.names.all (deliverable true)) = true ∧
    (ctors.all fun c =>
      c.superCall.all (fun e => e.1 == e.2) && sameSet (c.superCall.map (·.1)) c.sig.names) = true := by
  decide +kernel

/-- the two platform maps name the same platforms and every class in them has generated constructor facts -/
theorem platform_maps_consistent :
    sameSet (coreMapSync.map (·.1)) (coreMapAsync.map (·.1)) = true ∧
    ((coreMapSync ++ coreMapAsync).all fun e => ctors.any (fun c => c.cls == e.2)) = true := by
  decide +kernel

/-- below the platform driver (generated from (Async)NetworkDriver / (Async)GenericDriver `__init__`): every
    platform driver has exactly the parameters of its NetworkDriver base; NetworkDriver hands every keyword to
    `super().__init__` under its own name, all of them parameters of GenericDriver, and every NetworkDriver
    parameter is either forwarded or stored on `self`; GenericDriver hands every one of its parameters on under
    its own name (to `Driver.__init__(**kwargs)`).  Sync and async. -/
theorem lower_layers_forward :
    (ctors.all fun c =>
      sameSet c.sig.names (if coreMapAsync.any (fun e => e.2 == c.cls) then sigAsyncNetworkDriver else sigNetworkDriver).names) = true ∧
    (superNetworkDriver.all fun e => e.1 == e.2 && sigGenericDriver.names.contains e.1 && sigNetworkDriver.names.contains e.2) = true ∧
    (superAsyncNetworkDriver.all fun e => e.1 == e.2 && sigAsyncGenericDriver.names.contains e.1 && sigAsyncNetworkDriver.names.contains e.2) = true ∧
    (sigNetworkDriver.names.all fun n => (superNetworkDriver.map (·.1)).contains n || (storesNetworkDriver.map (·.2)).any (fun v => v == n || v == n ++ " or []")) = true ∧
    (sigAsyncNetworkDriver.names.all fun n => (superAsyncNetworkDriver.map (·.1)).contains n || (storesAsyncNetworkDriver.map (·.2)).any (fun v => v == n || v == n ++ " or []")) = true ∧
    (superGenericDriver.all (fun e => e.1 == e.2) && sameSet (superGenericDriver.map (·.1)) sigGenericDriver.names) = true ∧
    (superAsyncGenericDriver.all (fun e => e.1 == e.2) && sameSet (superAsyncGenericDriver.map (·.1)) sigAsyncGenericDriver.names) = true := by
  decide +kernel

/-- `NetworkDriver.__init__` / `AsyncNetworkDriver.__init__` keep the tables they are handed BY REFERENCE
    (`self.privilege_levels = privilege_levels`, `self.failed_when_contains = failed_when_contains or []`):
    this is why the object a platform driver's `deepcopy(PRIVS)` produces is the connection's table, and why a
    community connection's tables are exactly the factory's deep copy (`Heap.communityClass`). -/
theorem network_stores_by_reference :
    storesNetworkDriver.lookup "privilege_levels" = some "privilege_levels" ∧
    storesNetworkDriver.lookup "failed_when_contains" = some "failed_when_contains or []" ∧
    storesAsyncNetworkDriver.lookup "privilege_levels" = some "privilege_levels" ∧
    storesAsyncNetworkDriver.lookup "failed_when_contains" = some "failed_when_contains or []" := by
  decide +kernel

/-- the constructor parameters for which `None` through the factory (= not supplied = the driver's own
    default) differs from a direct call with an explicit `None`: forwarded parameters whose constructor
    default is a value other than `None` -/
def noneMeansDriverDefault (c : CtorInfo) : List String :=
  (c.sig.params.filter fun p =>
    (forwardedNames false).contains p.name && !(p.dflt == some none) && !(p.dflt == none)).map (·.name)

/-- … it is the same list for all ten platform drivers, and it contains (at least) the parameters named here -/
theorem none_means_driver_default :
    (ctors.all fun c => sameSet (noneMeansDriverDefault c) ((ctors.head?.map noneMeansDriverDefault).getD [])) = true ∧
    (ctors.all fun c => ["auth_strict_key", "transport", "timeout_socket", "timeout_ops", "comms_return_char",
        "ssh_config_file", "channel_log", "auth_username"].all (noneMeansDriverDefault c).contains) = true := by
  decide +kernel

/-! ## factory = direct construction -/

/-- **factory_eq_direct** (core platforms).  For every keyword set with a `platform` naming a core
    platform, a `host`, and a transport the factory does not reject: the factory instantiates the class
    the platform map names, and the keyword arguments that class receives are exactly the supplied
    ones — under every key `k`, the value the user passed (`supplied`).
    Reading of "the same kwargs": a FACTORY PARAMETER passed as `None` counts as not supplied (all optional
    factory parameters default to `None`, decided in `Tables.ok`), so `Scrapli(k=None)` is equated with
    `Driver()` and NOT with `Driver(k=None)`; the two differ exactly for the constructor parameters whose own
    default is not `None` (`noneMeansDriverDefault`, e.g. `auth_strict_key`, `transport`, `timeout_socket`). -/
theorem factory_eq_direct (t : Tables) (hok : t.ok = true) (async : Bool) (env : Env) (call : Kw)
    (platform cls : String) (hp : get call "platform" = some (some (.str platform)))
    (hh : (get call "host").isSome = true)
    (htr : transportRejected t async (val call "transport") = false)
    (hcore : t.coreMap.lookup platform = some cls) :
    ∃ kw, factoryNew t async env call = .ok (cls, kw) ∧ ∀ k, get kw k = supplied t call k := by
  have o := ok_OK hok
  obtain ⟨kw, hb, hs⟩ := buildProvided_spec o call
  refine ⟨kw, ?_, hs⟩
  have hvp : val call "platform" = some (.str platform) := by simp [val, hp]
  rw [factoryNew_unfold o async env call (by simp [hp]) hh]
  simp only [htr, Bool.false_eq_true, if_false, hvp, hb, andThen_ok, getDriver, hcore, List.isEmpty_nil, if_true]

/-- the statement above for the generated tables -/
theorem factory_eq_direct_generated (async : Bool) (env : Env) (call : Kw) (platform cls : String)
    (hp : get call "platform" = some (some (.str platform))) (hh : (get call "host").isSome = true)
    (htr : transportRejected (genTables async) async (val call "transport") = false)
    (hcore : (genTables async).coreMap.lookup platform = some cls) :
    ∃ kw, factoryNew (genTables async) async env call = .ok (cls, kw) ∧
      ∀ k, get kw k = supplied (genTables async) call k :=
  factory_eq_direct _ (by cases async; exact generated_tables_ok.1; exact generated_tables_ok.2)
    async env call platform cls hp hh htr hcore

/-- **falsy_survive**: a forwarded parameter given ANY value that is not `None` reaches the driver with
    that value — in particular `False`, `0`, `0.0`, `""`, `[]`, `{}` — and only `None` is dropped. -/
theorem falsy_survive (t : Tables) (hok : t.ok = true) (call : Kw) (k : String) (hk : k ∈ t.forwarded) :
    (∀ v : Val, get call k = some (some v) → supplied t call k = some (some v)) ∧
    (get call k = some none → supplied t call k = none) ∧
    (get call k = none → supplied t call k = none) := by
  have o := ok_OK hok
  obtain ⟨hN, h1, h2⟩ := (o.fNew k).mp hk
  have hpv : ¬ (k = "platform" ∨ k = "variant") := fun h => h.elim h1 h2
  refine ⟨?_, ?_, ?_⟩
  · intro v hv; simp [supplied, hpv, hv]
  · intro hv; simp [supplied, hpv, hv, hN]
  · intro hv; simp [supplied, hpv, hv]

/-- the falsy values named by the property, spelled out, on the generated tables: each is kept -/
theorem falsy_survive_generated (async : Bool) (call : Kw) (k : String) (hk : k ∈ forwardedNames async)
    (v : Val) (hv : v ∈ [Val.bool false, Val.int 0, Val.flt "0.0", Val.str "", Val.list [], Val.dict []])
    (hc : get call k = some (some v)) :
    v.truthy = false ∧ supplied (genTables async) call k = some (some v) := by
  refine ⟨?_, (falsy_survive _ (by cases async; exact generated_tables_ok.1; exact generated_tables_ok.2)
    call k hk).1 v hc⟩
  simp only [List.mem_cons, List.not_mem_nil, or_false] at hv
  rcases hv with rfl | rfl | rfl | rfl | rfl | rfl <;> decide

/-- with a truthiness filter (`if value`) instead of `is not None` the falsy values would be lost: the
    model follows the generated `bpkFilter`, and the property needs it to be `isNotNone` -/
theorem falsy_lost_with_truthy_filter :
    (match factoryNew { genTables false with filter := .truthy } false ⟨false, fun _ => .missing⟩
        [("platform", some (.str "cisco_iosxe")), ("host", some (.str "h")), ("auth_strict_key", some (.bool false))] with
      | .ok (c, kw) => c == "IOSXEDriver" && (get kw "auth_strict_key").isNone && (get kw "host").isSome
      | .error _ => false) = true := by
  decide +kernel

/-- **user_overrides_community**.  For a community platform (`_get_driver` returned class `cls` and the
    platform's keyword arguments `ckw`): the driver receives, under every key, the supplied value if
    there is one and the community value otherwise. -/
theorem user_overrides_community (t : Tables) (hok : t.ok = true) (async : Bool) (env : Env) (call : Kw)
    (platform cls : String) (ckw : Kw) (hp : get call "platform" = some (some (.str platform)))
    (hh : (get call "host").isSome = true)
    (htr : transportRejected t async (val call "transport") = false)
    (hd : getDriver t async env platform (val call "variant") = .ok (cls, ckw)) :
    ∃ kw, factoryNew t async env call = .ok (cls, kw) ∧
      ∀ k, get kw k = match supplied t call k with | some v => some v | none => get ckw k := by
  have o := ok_OK hok
  obtain ⟨kw, hb, hs⟩ := buildProvided_spec o call
  have hvp : val call "platform" = some (.str platform) := by simp [val, hp]
  by_cases he : ckw.isEmpty = true
  · refine ⟨kw, ?_, ?_⟩
    · rw [factoryNew_unfold o async env call (by simp [hp]) hh]
      simp only [htr, Bool.false_eq_true, if_false, hvp, hb, andThen_ok, hd, he, if_true]
    · intro k
      have : ckw = [] := by simpa using he
      rw [hs k, this]
      cases supplied t call k <;> rfl
  · refine ⟨kw ++ (ckw ++ []), ?_, ?_⟩
    · rw [factoryNew_unfold o async env call (by simp [hp]) hh]
      simp only [htr, Bool.false_eq_true, if_false, hvp, hb, andThen_ok, hd, he]
    · intro k
      rw [get_append, hs k, List.append_nil]
      cases supplied t call k <;> rfl

/-- what the community keyword arguments are: `defaults ⊕ variant` with the hooks of the right flavour
    renamed to `on_open` / `on_close` and the other two dropped (`driverKwargs_spec`, restated) -/
theorem community_hook_selection (p : Platform) (v : Option Variant) (async : Bool)
    (h1 : (get (platformKwargs p v) "sync_on_open").isSome = true)
    (h2 : (get (platformKwargs p v) "sync_on_close").isSome = true)
    (h3 : (get (platformKwargs p v) "async_on_open").isSome = true)
    (h4 : (get (platformKwargs p v) "async_on_close").isSome = true) :
    ∃ kw, driverKwargs p v async = .ok kw ∧
      get kw "on_open" = get (platformKwargs p v) (if async then "async_on_open" else "sync_on_open") ∧
      get kw "on_close" = get (platformKwargs p v) (if async then "async_on_close" else "sync_on_close") ∧
      (∀ k ∈ hookKeys, get kw k = none) ∧
      (∀ k, k ≠ "on_open" → k ≠ "on_close" → k ∉ hookKeys → get kw k = get (platformKwargs p v) k) ∧
      -- variant entries win over defaults
      (∀ x, v = some x → ∀ k, get (platformKwargs p v) k =
        match get x.kwargs k with | some r => some r | none => get p.defaults k) := by
  obtain ⟨kw, hk, hs⟩ := driverKwargs_spec p v async h1 h2 h3 h4
  refine ⟨kw, hk, by simp [hs], by simp [hs], ?_, ?_, ?_⟩
  · intro k hm
    rw [hs]
    have h1 : k ≠ "on_open" := by
      intro h; subst h; simp [hookKeys] at hm
    have h2 : k ≠ "on_close" := by
      intro h; subst h; simp [hookKeys] at hm
    simp [h1, h2, hm]
  · intro k h1 h2 h3; rw [hs]; simp [h1, h2, h3]
  · intro x hx k; subst hx; rw [platformKwargs, get_append]; cases get x.kwargs k <;> rfl

/-! ## rejections -/

/-- **unknown_platform_rejected**: a `platform` string that is no core platform and for which no
    community module with a `SCRAPLI_PLATFORM` exists (package missing, module missing, or attribute
    missing/empty) makes the factory raise a `ScrapliException` subclass — whatever else is passed. -/
theorem unknown_platform_rejected (t : Tables) (hok : t.ok = true) (async : Bool) (env : Env) (call : Kw)
    (platform : String) (hp : get call "platform" = some (some (.str platform)))
    (hh : (get call "host").isSome = true) (hnc : t.coreMap.lookup platform = none)
    (hunk : env.communityInstalled = false ∨
      ∀ p, env.modules ("scrapli_community." ++ dotted platform) ≠ Module.platform p) :
    ∃ e, factoryNew t async env call = .error e ∧ e.isScrapli = true := by
  have o := ok_OK hok
  obtain ⟨kw, hb, _⟩ := buildProvided_spec o call
  rw [factoryNew_unfold o async env call (by simp [hp]) hh]
  have hvp : val call "platform" = some (.str platform) := by simp [val, hp]
  by_cases htr : transportRejected t async (val call "transport") = true
  · exact ⟨.scrapliValueError, by simp only [htr, if_true], rfl⟩
  · have htr' : transportRejected t async (val call "transport") = false := by simpa using htr
    have hc : ∃ e, communityDetails env platform = .error e ∧ e.isScrapli = true := by
      rcases hunk with h | h
      · exact ⟨.scrapliModuleNotFound, by simp [communityDetails, h], rfl⟩
      · by_cases hi : env.communityInstalled = true
        · cases hm : env.modules ("scrapli_community." ++ dotted platform) with
          | missing => exact ⟨.scrapliModuleNotFound, by simp [communityDetails, hi, hm], rfl⟩
          | noPlatform => exact ⟨.scrapliException, by simp [communityDetails, hi, hm], rfl⟩
          | platform p => exact absurd hm (h p)
        · exact ⟨.scrapliModuleNotFound, by simp [communityDetails, hi], rfl⟩
    obtain ⟨e, he, hes⟩ := hc
    refine ⟨e, ?_, hes⟩
    simp only [htr', Bool.false_eq_true, if_false, hvp, hb, getDriver, hnc, he, Except.andThen]

/-- **mixup_rejected**: when the transport check of the factory fires the result is `ScrapliValueError` -/
theorem mixup_rejected (t : Tables) (hok : t.ok = true) (async : Bool) (env : Env) (call : Kw)
    (hp : (get call "platform").isSome = true) (hh : (get call "host").isSome = true)
    (htr : transportRejected t async (val call "transport") = true) :
    factoryNew t async env call = .error .scrapliValueError := by
  rw [factoryNew_unfold (ok_OK hok) async env call hp hh]
  simp only [htr, if_true]

/-- … and on the generated transport tuples it fires exactly for the mix-ups: `Scrapli` with an
    asyncio transport, `AsyncScrapli` with a core transport that is not an asyncio one; for every other
    str (and every non-str) it does not fire. -/
theorem mixup_table (s : String) :
    transportRejected (genTables false) false (some (.str s)) = decide (s ∈ ASYNCIO_TRANSPORTS ∧ s ∈ CORE_TRANSPORTS) ∧
    transportRejected (genTables true) true (some (.str s)) = decide (s ∈ CORE_TRANSPORTS ∧ s ∉ ASYNCIO_TRANSPORTS) ∧
    transportRejected (genTables false) false none = false ∧ transportRejected (genTables true) true none = false := by
  refine ⟨?_, ?_, rfl, rfl⟩
  · simp only [transportRejected, genTables, inTuple, Bool.false_eq_true, if_false]
    by_cases h1 : s ∈ CORE_TRANSPORTS <;> by_cases h2 : s ∈ ASYNCIO_TRANSPORTS <;> simp [h1, h2]
  · simp only [transportRejected, genTables, inTuple, if_true]
    by_cases h1 : s ∈ CORE_TRANSPORTS <;> by_cases h2 : s ∈ ASYNCIO_TRANSPORTS <;> simp [h1, h2]

/-- every asyncio transport is a core transport, there is at least one of each kind, and without a
    `transport` argument every async platform driver falls back to a synchronous default, which
    `AsyncDriver.__init__` rejects (so `AsyncScrapli` without `transport` is rejected by a scrapli error
    raised one level further down), while every sync platform driver accepts its own default -/
theorem transport_tables :
    ASYNCIO_TRANSPORTS.all CORE_TRANSPORTS.contains = true ∧ ASYNCIO_TRANSPORTS ≠ [] ∧
    (CORE_TRANSPORTS.filter (fun s => !ASYNCIO_TRANSPORTS.contains s)) ≠ [] ∧
    (ctors.all fun c =>
      if coreMapAsync.any (fun e => e.2 == c.cls) then driverRejectsTransport (genTables true) true c.sig []
      else !driverRejectsTransport (genTables false) false c.sig []) = true := by
  decide +kernel

/-- a `platform` that is not a str is rejected with `ScrapliTypeError` -/
theorem platform_type_rejected (t : Tables) (hok : t.ok = true) (async : Bool) (env : Env) (call : Kw)
    (hp : (get call "platform").isSome = true) (hh : (get call "host").isSome = true)
    (htr : transportRejected t async (val call "transport") = false)
    (hns : ∀ s, val call "platform" ≠ some (.str s)) :
    factoryNew t async env call = .error .scrapliTypeError := by
  rw [factoryNew_unfold (ok_OK hok) async env call hp hh]
  cases hv : val call "platform" with
  | none => simp only [htr, Bool.false_eq_true, if_false]
  | some v =>
    cases v with
    | str s => exact absurd hv (hns s)
    | _ => simp only [htr, Bool.false_eq_true, if_false]

/-! ## non-vacuity of the factory theorems -/

/-- a concrete call inside the quantifier: falsy values, an explicit None, a callable, an extra keyword
    that is not a factory parameter, on the generated tables -/
def exCall : Kw :=
  [("platform", some (.str "arista_eos")), ("host", some (.str "r1")), ("auth_strict_key", some (.bool false)),
   ("port", some (.int 0)), ("auth_username", some (.str "")), ("timeout_ops", none),
   ("on_open", some (.fn "cb")), ("failed_when_contains", some (.list [])),
   ("auth_telnet_login_pattern", some (.str "login:")), ("variant", some (.str "ignored"))]

example : get exCall "platform" = some (some (.str "arista_eos")) ∧ (get exCall "host").isSome = true ∧
    transportRejected (genTables true) true (val exCall "transport") = false ∧
    (genTables true).coreMap.lookup "arista_eos" = some "AsyncEOSDriver" ∧
    "port" ∈ forwardedNames true ∧
    norm ((fun r => match r with | .ok x => x.2 | .error _ => [])
      (factoryNew (genTables true) true ⟨false, fun _ => .missing⟩ exCall))
    = [("auth_telnet_login_pattern", some (.str "login:")), ("host", some (.str "r1")), ("port", some (.int 0)),
       ("auth_username", some (.str "")), ("auth_strict_key", some (.bool false)), ("on_open", some (.fn "cb")),
       ("failed_when_contains", some (.list []))] := by
  decide +kernel

/-- which error a run ended in -/
def errIs (r : Except Err (String × Kw)) (e : Err) : Bool :=
  match r with
  | .error x => x == e
  | .ok _ => false

/-- inside the quantifiers of the rejection theorems: a mix-up on each stack, a platform string that is no core
    platform with no community module, a non-str platform; each ends in the stated exception class -/
example :
    transportRejected (genTables false) false (val [("transport", some (.str "asynctelnet"))] "transport") = true ∧
    transportRejected (genTables true) true (val [("transport", some (.str "paramiko"))] "transport") = true ∧
    (genTables false).coreMap.lookup "nope_os" = none ∧
    errIs (factoryNew (genTables false) false ⟨true, fun _ => .missing⟩
      [("platform", some (.str "nope_os")), ("host", some (.str "h")), ("port", some (.int 0))]) .scrapliModuleNotFound = true ∧
    errIs (factoryNew (genTables true) true ⟨true, fun _ => .noPlatform⟩
      [("platform", some (.str "nope_os")), ("host", some (.str "h")), ("transport", some (.str "asyncssh"))]) .scrapliException = true ∧
    errIs (factoryNew (genTables true) true ⟨true, fun _ => .missing⟩
      [("platform", some (.str "cisco_iosxe")), ("host", some (.str "h")), ("transport", some (.str "telnet"))]) .scrapliValueError = true ∧
    errIs (factoryNew (genTables false) false ⟨true, fun _ => .missing⟩
      [("platform", some (.int 5)), ("host", some (.str "h"))]) .scrapliTypeError = true := by
  decide +kernel

/-- a community platform inside the quantifier of `user_overrides_community` / `community_hook_selection` -/
def exPlatform : Platform :=
  { driverType := .named "network",
    defaults := [("auth_strict_key", some (.bool true)), ("sync_on_open", some (.fn "so")), ("async_on_open", some (.fn "ao")),
                 ("sync_on_close", none), ("async_on_close", some (.fn "ac")), ("textfsm_platform", some (.str "x"))],
    variants := some [("v1", ⟨none, [("textfsm_platform", some (.str "y"))]⟩)] }

example : (fun r => match r with | .ok x => (x.1, norm x.2) | .error _ => ("", []))
    (factoryNew (genTables false) false ⟨true, fun m => if m = "scrapli_community.acme.os" then .platform exPlatform else .missing⟩
      [("platform", some (.str "acme_os")), ("host", some (.str "h")), ("variant", some (.str "v1")),
       ("auth_strict_key", some (.bool false))])
    = ("NetworkDriver", [("host", some (.str "h")), ("auth_strict_key", some (.bool false)), ("on_close", none),
        ("on_open", some (.fn "so")), ("textfsm_platform", some (.str "y"))]) := by
  decide +kernel

end Scrapli.Factory

/-! ## isolation -/
namespace Scrapli.Factory.Heap
open Scrapli.Gen.Factory

/-- the generated copy modes: every one of the ten platform-driver constructors takes `deepcopy(PRIVS)`
    and a copy of `FAILED_WHEN_CONTAINS`; the factory deep-copies `SCRAPLI_PLATFORM` -/
theorem constructors_copy : Copies coreClasses ∧ communityCopy = CopyMode.deep := by
  refine ⟨?_, by decide⟩
  have h : (coreClasses.all fun c => decide (c.privsCopy = CopyMode.deep) && decide (c.fwcCopy ≠ CopyMode.alias)) = true := by
    decide +kernel
  intro c hc
  have := List.all_eq_true.mp h c hc
  simpa using this

/-- class tables extended by any number of community platforms still only contain copying constructors -/
theorem constructors_copy_community (names : List String) : Copies (coreClasses ++ names.map communityClass) := by
  intro c hc
  rcases List.mem_append.mp hc with h | h
  · exact constructors_copy.1 c h
  · obtain ⟨n, _, rfl⟩ := List.mem_map.mp h
    simp [communityClass, constructors_copy.2]

/-- **isolation, partial** (general form; partial = the six table operations of `Op` and the table
    observables only, see the file header; the full statement including `_current_priv_level` is
    `isolation_full_refuted`).  `step` is total: an operation that does not apply (unknown class name — e.g. a
    community platform with a custom driver class that is not in the class table —, missing definition,
    missing connection, class without sessions, duplicate session name) leaves the state unchanged, for
    those the statement says nothing interesting.  From any separated state, after ANY list of operations:
    (1) the snapshot of every platform definition is what it was;
    (2) the snapshot of every connection `j` is what it would be had only the operations addressed to
        `j` been executed — constructing, re-constructing or mutating any other connection, in any
        interleaving, changes nothing `j` can observe. -/
theorem isolation_partial (classes : List ClassInfo) (hcl : Copies classes) (s0 : St) (hi : Inv s0) (ops : List Op) :
    (view (run classes s0 ops)).defs = (view s0).defs ∧
    ∀ j, (view (run classes s0 ops)).conns.lookup j
          = (view (run classes s0 (ops.filter (fun op => op.conn == j)))).conns.lookup j := by
  obtain ⟨_, h1⟩ := run_refines classes hcl ops hi
  refine ⟨by rw [h1, runV_defs], ?_⟩
  intro j
  obtain ⟨_, h2⟩ := run_refines classes hcl (ops.filter (fun op => op.conn == j)) hi
  rw [h1, h2]
  exact runV_filter classes ops j _ _ rfl rfl

/-- **isolation, partial** for the generated platform definitions and constructors, with any community
    platforms (`extra` definitions, built through the factory) added: the platform definitions stay
    exactly the generated tables forever. -/
theorem isolation_generated_partial (extra : List (String × TablesV)) (ops : List Op) :
    let classes := coreClasses ++ (extra.map (·.1)).map communityClass
    let s0 := mkInit (coreDefs ++ extra)
    (view (run classes s0 ops)).defs = coreDefs ++ extra ∧
    ∀ j, (view (run classes s0 ops)).conns.lookup j
          = (view (run classes s0 (ops.filter (fun op => op.conn == j)))).conns.lookup j := by
  intro classes s0
  obtain ⟨hi, hv⟩ := mkInit_inv (coreDefs ++ extra)
  obtain ⟨h1, h2⟩ := isolation_partial classes (constructors_copy_community _) s0 hi ops
  exact ⟨by rw [h1, hv], h2⟩

/-- operations on other connections never change connection `j` (frame form of the same fact) -/
theorem isolation_frame (classes : List ClassInfo) (hcl : Copies classes) (s0 : St) (hi : Inv s0)
    (pre ops : List Op) (j : Nat) (hops : ∀ op ∈ ops, op.conn ≠ j) :
    (view (run classes s0 (pre ++ ops))).conns.lookup j = (view (run classes s0 pre)).conns.lookup j := by
  obtain ⟨_, h2⟩ := isolation_partial classes hcl s0 hi (pre ++ ops)
  obtain ⟨_, h3⟩ := isolation_partial classes hcl s0 hi pre
  rw [h2 j, h3 j]
  have : (pre ++ ops).filter (fun op => op.conn == j) = pre.filter (fun op => op.conn == j) := by
    rw [List.filter_append]
    have : ops.filter (fun op => op.conn == j) = [] := by
      rw [List.filter_eq_nil_iff]
      intro op hop; simp [hops op hop]
    rw [this, List.append_nil]
  rw [this]

/-- a freshly constructed connection starts from the platform definition, whatever was done to other
    connections (of the same platform or not) before -/
theorem construct_is_pristine (classes : List ClassInfo) (hcl : Copies classes) (s0 : St) (hi : Inv s0)
    (ops : List Op) (j : Nat) (cls : String) (ci : ClassInfo) (d : TablesV)
    (hc : findClass classes cls = some ci) (hd : (view s0).defs.lookup ci.platform = some d) :
    (view (run classes s0 (ops ++ [.construct j cls]))).conns.lookup j = some ⟨cls, d⟩ := by
  obtain ⟨_, h1⟩ := run_refines classes hcl (ops ++ [.construct j cls]) hi
  rw [h1]
  have h2 : runV classes (view s0) (ops ++ [.construct j cls])
      = stepV classes (runV classes (view s0) ops) (.construct j cls) := by
    simp [runV, List.foldl_append]
  rw [h2]
  have h3 := runV_defs classes ops (view s0)
  simp only [stepV, hc, h3, hd]
  simp

/-! Non-vacuity and necessity: the model can express sharing.  With a constructor that aliases or only
    shallow-copies PRIVS, editing one connection's level changes the platform definition and the other
    connection; with the generated (deep) copy modes the same history does not. -/

def exDefs : List (String × TablesV) :=
  [("p", ⟨[("exec", ⟨"^>$", "exec", "", "", "", false, "", []⟩)], ["% Invalid"]⟩)]

def exOps : List Op :=
  [.construct 0 "D", .construct 1 "D", .editLevel 0 "exec" ⟨"X", "exec", "", "", "", false, "", ["y"]⟩,
   .editFailedWhen 0 ["z"], .registerSession 0 "s1"]

def exClass (pm fm : CopyMode) : List ClassInfo :=
  [⟨"D", "p", pm, fm, some ⟨[.lit "^", .esc 6, .lit "$"], [.name], [.lit "exec"], [], [], false, [], []⟩⟩]

theorem isolation_needs_deepcopy :
    -- aliasing PRIVS: the platform definition and connection 1 change
    (view (run (exClass .alias .shallow) (mkInit exDefs) exOps)).defs ≠ exDefs ∧
    (view (run (exClass .alias .shallow) (mkInit exDefs) exOps)).conns.lookup 1
      ≠ (view (run (exClass .alias .shallow) (mkInit exDefs) [.construct 1 "D"])).conns.lookup 1 ∧
    -- a shallow copy of PRIVS shares the level objects: same effect for `editLevel`
    (view (run (exClass .shallow .shallow) (mkInit exDefs) exOps)).defs ≠ exDefs ∧
    -- aliasing FAILED_WHEN_CONTAINS
    (view (run (exClass .deep .alias) (mkInit exDefs) exOps)).defs ≠ exDefs ∧
    -- deepcopy + list copy (the generated modes): nothing else changes, connection 0 has its edits
    (view (run (exClass .deep .shallow) (mkInit exDefs) exOps)).defs = exDefs ∧
    (view (run (exClass .deep .shallow) (mkInit exDefs) exOps)).conns.lookup 1
      = some ⟨"D", ⟨[("exec", ⟨"^>$", "exec", "", "", "", false, "", []⟩)], ["% Invalid"]⟩⟩ ∧
    (view (run (exClass .deep .shallow) (mkInit exDefs) exOps)).conns.lookup 0
      = some ⟨"D", ⟨[("exec", ⟨"X", "exec", "", "", "", false, "", ["y"]⟩),
                     ("s1", ⟨"^s1$", "s1", "exec", "", "", false, "", []⟩)], ["z"]⟩⟩ := by
  decide +kernel

/-- `delLevel` / `addLevel` inside the quantifier: on the generated tables a deleted and a newly assigned level
    show in connection 0 only; and the model tells "assign a NEW object" from "edit in place": under a shallow
    copy of PRIVS assigning a new level object leaves the definition alone, editing in place does not -/
example :
    ((view (run coreClasses (mkInit coreDefs)
      [.construct 0 "JunosDriver", .construct 1 "JunosDriver", .delLevel 0 "shell", .addLevel 0 "exec" ⟨"^N$", "exec", "", "", "", false, "", []⟩,
       .addLevel 0 "brand-new" ⟨"^B$", "brand-new", "exec", "", "", false, "", []⟩])).conns.lookup 0).map
        (fun c => (c.v.privs.map (·.1), (c.v.privs.lookup "exec").map (·.pattern)))
      = some (["exec", "configuration", "configuration_exclusive", "configuration_private", "root_shell", "brand-new"], some "^N$") ∧
    (view (run coreClasses (mkInit coreDefs)
      [.construct 0 "JunosDriver", .construct 1 "JunosDriver", .delLevel 0 "shell", .addLevel 0 "exec" ⟨"^N$", "exec", "", "", "", false, "", []⟩])).defs = coreDefs ∧
    ((view (run coreClasses (mkInit coreDefs)
      [.construct 0 "JunosDriver", .construct 1 "JunosDriver", .delLevel 0 "shell", .addLevel 0 "exec" ⟨"^N$", "exec", "", "", "", false, "", []⟩])).conns.lookup 1).map (·.v)
      = coreDefs.lookup "juniper_junos" ∧
    (view (run (exClass .shallow .shallow) (mkInit exDefs) [.construct 0 "D", .addLevel 0 "exec" ⟨"X", "exec", "", "", "", false, "", []⟩])).defs = exDefs ∧
    (view (run (exClass .shallow .shallow) (mkInit exDefs) [.construct 0 "D", .editLevel 0 "exec" ⟨"X", "exec", "", "", "", false, "", []⟩])).defs ≠ exDefs ∧
    (view (run (exClass .alias .shallow) (mkInit exDefs) [.construct 0 "D", .delLevel 0 "exec"])).defs ≠ exDefs := by
  decide +kernel

/-- **isolation, full statement, REFUTED** for the code as it is: with `_current_priv_level` among the
    observables (model extension `StX`: every constructed connection's `_current_priv_level` is the ONE
    module-level `DUMMY_PRIV_LEVEL` object, base_driver.py:75/94/362/416) it is false that operations addressed
    to other connections leave connection `j` and the module-level object unchanged.  Witness: construct an
    IOS-XE and an EOS connection, edit the level object connection 0's `_current_priv_level` refers to; connection
    1 and the module's dummy see the edit.  (Finding C18-shared-dummy-priv-level of the check; scrapli itself never writes through that
    object, the edit needs the private attribute.) -/
theorem isolation_full_refuted :
    ¬ (∀ (pre ops : List OpX) (j : Nat), (∀ op ∈ ops, op.conn ≠ j) →
        viewCur (runX coreClasses (runX coreClasses (mkInitX coreDefs) pre) ops) j
          = viewCur (runX coreClasses (mkInitX coreDefs) pre) j ∧
        viewDummy (runX coreClasses (runX coreClasses (mkInitX coreDefs) pre) ops)
          = viewDummy (runX coreClasses (mkInitX coreDefs) pre)) := by
  intro h
  have := h [.tbl (.construct 0 "IOSXEDriver"), .tbl (.construct 1 "EOSDriver")]
    [.editCurrent 0 ⟨"zz", "DUMMY", "", "", "", false, "", ["x"]⟩] 1 (by decide)
  revert this
  decide +kernel

/-- generated facts behind the extension: the class attribute `_current_priv_level = DUMMY_PRIV_LEVEL` exists
    (so the aliasing `stepX` models is the code's), and nowhere in scrapli/ is anything stored through that object
    (no attribute / item store, no mutating list call on it or its `not_contains`): the sharing cannot be
    triggered by scrapli's own operations, only by user code reaching into the private attribute -/
theorem dummy_level_shared_but_never_written : currentLevelIsSharedDummy = true ∧ dummyLevelWrittenAt = [] := by
  decide

/-- … while the table part of the same history is untouched (the partial theorem applies to it), and before
    the edit both connections see the pristine dummy -/
example :
    viewCur (runX coreClasses (mkInitX coreDefs) [.tbl (.construct 0 "IOSXEDriver"), .tbl (.construct 1 "EOSDriver")]) 1
      = some dummyLevel ∧
    viewCur (runX coreClasses (mkInitX coreDefs) [.tbl (.construct 0 "IOSXEDriver"), .tbl (.construct 1 "EOSDriver"),
      .editCurrent 0 ⟨"zz", "DUMMY", "", "", "", false, "", ["x"]⟩]) 1 = some ⟨"zz", "DUMMY", "", "", "", false, "", ["x"]⟩ ∧
    (view (runX coreClasses (mkInitX coreDefs) [.tbl (.construct 0 "IOSXEDriver"), .tbl (.construct 1 "EOSDriver"),
      .editCurrent 0 ⟨"zz", "DUMMY", "", "", "", false, "", ["x"]⟩]).base).defs = coreDefs := by
  decide +kernel

/-- the generated class table and definitions are inside the quantifier of `isolation_generated`:
    EOS has a session template, the five definitions are present, a two-connection history runs -/
example : (coreClasses.map (·.cls)).length = 10 ∧ (coreDefs.map (·.1)).length = 5 ∧
    ((findClass coreClasses "EOSDriver").bind (·.session)).isSome = true ∧
    ((view (run coreClasses (mkInit coreDefs)
      [.construct 0 "EOSDriver", .construct 1 "AsyncEOSDriver", .registerSession 0 "my-sess.1"])).conns.lookup 0).map
        (fun c => c.v.privs.map (·.1)) = some ["exec", "privilege_exec", "configuration", "my-sess.1"] ∧
    ((view (run coreClasses (mkInit coreDefs)
      [.construct 0 "EOSDriver", .construct 1 "AsyncEOSDriver", .registerSession 0 "my-sess.1"])).conns.lookup 1).map
        (fun c => c.v.privs.map (·.1)) = some ["exec", "privilege_exec", "configuration"] := by
  decide +kernel

end Scrapli.Factory.Heap
