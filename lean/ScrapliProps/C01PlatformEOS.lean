import ScrapliProps.C01PlatformXR
/-
  The Arista EOS class pattern inside the quantifier of C01:
    (^[\w.\-@()/: ]{1,63}>\s?$)|(^[\w.\-@()/: ]{1,63}#\s?$)|(^[\w.\-@()/: ]{1,63}\(config[\w.\-@/:+]{0,63}\)#\s?$)     re.M | re.I
  The host class holds parentheses and the blank; the mode class holds neither, so the configuration alternative
  parses deterministically from the right.  `eosP` is the line predicate; `blank`, `NoEarly`, `PromptOK` are PROVED
  for every exec / privilege-exec / configuration prompt the pattern admits, with or without one trailing blank.
-/
namespace Scrapli.Chan
open Scrapli

/-- `[\w.\-@()/: ]` -/
def eosCls (c : UInt8) : Bool :=
  isWordB c || c == 46 || c == 45 || c == 64 || c == 40 || c == 41 || c == 47 || c == 58 || c == 32
/-- `[\w.\-@()/: ]{1,63}` -/
def eosHostOK (h : Bytes) : Bool := decide (0 < h.length) && decide (h.length ≤ 63) && h.all eosCls

/-- `[…]{1,63}\(config[\w.\-@/:+]{0,63}\)` on the reversed text -/
def cfgEosRev (t : Bytes) : Bool :=
  match t with
  | 41 :: u =>
    match u.dropWhile (· != 40) with
    | 40 :: hr =>
      let mode := (u.takeWhile (· != 40)).reverse
      ((mode.take 6).map lowerByte == configLit) && decide ((mode.drop 6).length ≤ 63) && (mode.drop 6).all xeModeCls &&
        eosHostOK hr.reverse
    | _ => false
  | _ => false

/-- the text in front of the terminator `c`, reversed -/
def eosCore (c : UInt8) (t : Bytes) : Bool :=
  (c == 62 && eosHostOK t.reverse) || (c == 35 && (eosHostOK t.reverse || cfgEosRev t))

/-- one line matches the EOS class pattern -/
def eosP (s : Bytes) : Bool :=
  match s.reverse with
  | c :: t =>
    if isTerm c then eosCore c t
    else match t with
      | c2 :: t2 => isSpaceB c && isTerm c2 && eosCore c2 t2
      | [] => false
  | [] => false

/-- every accepted line holds a terminator -/
theorem eosP_term {s : Bytes} (h : eosP s = true) : ∃ c ∈ s, isTerm c = true := by
  unfold eosP at h
  have hr : ∀ c, c ∈ s.reverse → c ∈ s := fun c hc => List.mem_reverse.mp hc
  split at h
  · rename_i c t e
    split at h
    · rename_i hc; exact ⟨c, hr c (by rw [e]; simp), hc⟩
    · split at h
      · rename_i c2 t2
        simp only [Bool.and_eq_true] at h
        exact ⟨c2, hr c2 (by rw [e]; simp), h.1.2⟩
      · exact absurd h (by simp)
  · exact absurd h (by simp)

theorem eosP_blank (s : Bytes) (h : squishBuf s = []) : eosP s = false := by
  rw [Bool.eq_false_iff]; intro hp
  obtain ⟨c, hc, ht⟩ := eosP_term hp
  rw [blank_not_term h c hc] at ht; exact absurd ht (by simp)

/-- the prompts of the EOS levels -/
inductive EosPrompt : Bytes → Prop
  | exec (h : Bytes) (hh : eosHostOK h = true) : EosPrompt (h ++ [62])
  | priv (h : Bytes) (hh : eosHostOK h = true) : EosPrompt (h ++ [35])
  | conf (h m : Bytes) (hh : eosHostOK h = true) (hm : m.length ≤ 63) (hmc : m.all xeModeCls = true) :
      EosPrompt (h ++ 40 :: (configLit ++ m) ++ [41, 35])

theorem eosHostOK_cls {h : Bytes} (hh : eosHostOK h = true) : ∀ c ∈ h, eosCls c = true := by
  unfold eosHostOK at hh
  simp only [Bool.and_eq_true, List.all_eq_true] at hh
  exact hh.2

theorem eosCls_not_term {c : UInt8} (h : eosCls c = true) : isTerm c = false := by
  cases ht : isTerm c with
  | false => rfl
  | true =>
    exfalso
    have : c = 62 ∨ c = 35 := by unfold isTerm at ht; simpa using ht
    rcases this with e | e <;> subst e <;> revert h <;> decide

theorem xeModeCls_ne_paren {c : UInt8} (h : xeModeCls c = true) : (c != 40) = true := by
  have : c ≠ 40 := by intro e; subst e; revert h; decide
  simpa using this

/-- the text in front of the terminator is accepted -/
theorem eosPrompt_core {p : Bytes} (hp : EosPrompt p) :
    ∃ c t, p.reverse = c :: t ∧ isTerm c = true ∧ eosCore c t = true := by
  cases hp with
  | exec h hh => exact ⟨62, h.reverse, by simp, by decide, by simp [eosCore, hh]⟩
  | priv h hh => exact ⟨35, h.reverse, by simp, by decide, by simp [eosCore, hh]⟩
  | conf h m hh hm hmc =>
    refine ⟨35, 41 :: ((configLit ++ m).reverse ++ 40 :: h.reverse), by simp, by decide, ?_⟩
    have hmr : ∀ c ∈ (configLit ++ m).reverse, (c != 40) = true := by
      intro c hc
      rcases List.mem_append.mp (List.mem_reverse.mp hc) with h1 | h1
      · exact configLit_ne_paren c h1
      · exact xeModeCls_ne_paren (List.all_eq_true.mp hmc c h1)
    have htw : ((configLit ++ m).reverse ++ 40 :: h.reverse).takeWhile (· != 40) = (configLit ++ m).reverse := by
      rw [List.takeWhile_append_of_pos hmr]; simp
    have hdw : ((configLit ++ m).reverse ++ 40 :: h.reverse).dropWhile (· != 40) = 40 :: h.reverse := by
      rw [List.dropWhile_append_of_pos hmr]; simp
    have hc : cfgEosRev (41 :: ((configLit ++ m).reverse ++ 40 :: h.reverse)) = true := by
      unfold cfgEosRev
      simp only [htw, hdw, List.reverse_reverse, hh, Bool.and_true]
      have h6 : (configLit ++ m).take 6 = configLit := by simp [configLit]
      have d6 : (configLit ++ m).drop 6 = m := by simp [configLit]
      rw [h6, d6]
      simp only [Bool.and_eq_true, decide_eq_true_eq]
      exact ⟨⟨by decide, hm⟩, hmc⟩
    unfold eosCore; rw [hc]; simp

/-- **the prompt is accepted, alone and followed by the one blank `\s?` admits** -/
theorem eosPrompt_accepted {p : Bytes} (hp : EosPrompt p) : eosP p = true ∧ eosP (p ++ [32]) = true := by
  obtain ⟨c, t, hr, hterm, hc⟩ := eosPrompt_core hp
  constructor
  · unfold eosP; rw [hr]; simp [hterm, hc]
  · unfold eosP
    have : (p ++ [32]).reverse = 32 :: c :: t := by simp [hr]
    rw [this]
    have h32 : isTerm 32 = false := by decide
    simp [h32, isSpaceB, hterm, hc]

/-- every byte of the prompt but the last is no terminator -/
theorem eosPrompt_inner {p : Bytes} (hp : EosPrompt p) : ∀ c ∈ p.dropLast, isTerm c = false := by
  cases hp with
  | exec h hh =>
    intro c hc
    rw [List.dropLast_concat] at hc
    exact eosCls_not_term (eosHostOK_cls hh c hc)
  | priv h hh =>
    intro c hc
    rw [List.dropLast_concat] at hc
    exact eosCls_not_term (eosHostOK_cls hh c hc)
  | conf h m hh hm hmc =>
    intro c hc
    have e : (h ++ 40 :: (configLit ++ m) ++ [41, 35]).dropLast = h ++ 40 :: (configLit ++ m) ++ [41] := by
      have : h ++ 40 :: (configLit ++ m) ++ [41, 35] = (h ++ 40 :: (configLit ++ m) ++ [41]) ++ [35] := by simp
      rw [this, List.dropLast_concat]
    rw [e] at hc
    simp only [List.mem_append, List.mem_cons, List.not_mem_nil, or_false] at hc
    rcases hc with (h1 | h1 | h1 | h1) | h1
    · exact eosCls_not_term (eosHostOK_cls hh c h1)
    · subst h1; decide
    · exact configLit_not_term c h1
    · exact xeModeCls_not_term (List.all_eq_true.mp hmc c h1)
    · subst h1; decide

theorem eosPrompt_ne {p : Bytes} (hp : EosPrompt p) : p ≠ [] := by
  cases hp <;> simp

theorem eos_plain_byte {c : UInt8} (h : eosCls c = true ∨ xeModeCls c = true ∨ c = 62 ∨ c = 35) :
    c ≠ NL ∧ c ≠ CR ∧ c ≠ ESC := by
  refine ⟨?_, ?_, ?_⟩ <;> intro e <;> subst e <;> revert h <;> decide

theorem eosPrompt_bytes {p : Bytes} (hp : EosPrompt p) :
    ∀ c ∈ p, eosCls c = true ∨ xeModeCls c = true ∨ c = 62 ∨ c = 35 := by
  have hlit : ∀ c ∈ configLit, xeModeCls c = true := by decide
  cases hp with
  | exec h hh =>
    intro c hc
    rcases List.mem_append.mp hc with h1 | h1
    · exact Or.inl (eosHostOK_cls hh c h1)
    · simp at h1; subst h1; simp
  | priv h hh =>
    intro c hc
    rcases List.mem_append.mp hc with h1 | h1
    · exact Or.inl (eosHostOK_cls hh c h1)
    · simp at h1; subst h1; simp
  | conf h m hh hm hmc =>
    intro c hc
    simp only [List.mem_append, List.mem_cons, List.not_mem_nil, or_false] at hc
    rcases hc with (h1 | h1 | h1 | h1) | h1 | h1
    · exact Or.inl (eosHostOK_cls hh c h1)
    · subst h1; exact Or.inl (by decide)
    · exact Or.inr (Or.inl (hlit c h1))
    · exact Or.inr (Or.inl (List.all_eq_true.mp hmc c h1))
    · subst h1; exact Or.inl (by decide)
    · subst h1; simp

/-- **every EOS exec / privilege-exec / configuration prompt is inside the quantifier of C01**, printed with or
    without one trailing blank -/
theorem eos_fits (cfg : Cfg) (out : Bytes → Bytes) {p t : Bytes} (hp : EosPrompt p) (ht : t = [] ∨ t = [32])
    (hS : ∀ x, cfg.prompt.search x = (splitNL x).any eosP)
    (hstrict : cfg.rough = false) (hret : IsRet cfg.ret) (hwin : (p ++ t).length < cfg.depth) :
    Fits eosP cfg { out := out, prompt := p, trail := t } where
  search_lines := hS
  strict := hstrict
  ret := hret
  blank := eosP_blank
  noEarly := noEarly_of_term_mem (fun _ h => eosP_term h) p (eosPrompt_inner hp)
  promptOK := by
    intro t' ht'
    have hacc := eosPrompt_accepted hp
    have hcase : t' = [] ∨ (t = [32] ∧ t' = [32]) := by
      obtain ⟨r, hr⟩ := ht'
      cases t' with
      | nil => exact Or.inl rfl
      | cons a as =>
        rcases ht with e | e
        · subst e; simp at hr
        · subst e
          simp only [List.cons_append, List.cons.injEq] at hr
          have : as = [] := by
            have := hr.2
            cases as with
            | nil => rfl
            | cons b bs => simp at this
          exact Or.inr ⟨rfl, by rw [hr.1, this]⟩
    rcases hcase with e' | ⟨_, e'⟩
    · subst e'; simpa using hacc.1
    · subst e'; exact hacc.2
  prompt_ne := eosPrompt_ne hp
  prompt_nl := fun hm => (eos_plain_byte (eosPrompt_bytes hp NL hm)).1 rfl
  prompt_plain :=
    ⟨fun hm => (eos_plain_byte (eosPrompt_bytes hp CR hm)).2.1 rfl,
     fun hm => (eos_plain_byte (eosPrompt_bytes hp ESC hm)).2.2 rfl⟩
  trail_hws := by
    rcases ht with e | e <;> subst e <;> simp [isHws]
  fits_window := hwin

/-- non-vacuity: "leaf1 (s1)(config-if-Et1)#" is such a prompt (host with blank and parentheses) -/
example : EosPrompt ([108, 101, 97, 102, 49, 32, 40, 115, 49, 41] ++ 40 ::
    (configLit ++ [45, 105, 102, 45, 69, 116, 49]) ++ [41, 35]) :=
  EosPrompt.conf _ _ (by decide) (by decide) (by decide)

end Scrapli.Chan
