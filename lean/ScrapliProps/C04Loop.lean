import ScrapliProps.C04Lemmas
/-
  Helper lemmas for C04 / C03 about the driver model: what each channel primitive may change
  (frame lemmas), and the bound of the acquire loop for an ARBITRARY device.
-/
namespace Scrapli.Priv
open Scrapli.Gen.Priv

variable {σ : Type}

theorem io_rounds (d : Dev σ) (t : Table) (ch : Chan σ) (line : Line) :
    (io d t ch line).1.rounds = ch.rounds ∧ (io d t ch line).1.closed = ch.closed := by
  unfold io; split <;> exact ⟨rfl, rfl⟩

theorem getPrompt_rounds (d : Dev σ) (t : Table) (ch : Chan σ) :
    (getPrompt d t ch).1.rounds ≤ ch.rounds + 1 := by
  have h := (io_rounds d t ch "").1
  unfold getPrompt
  split <;> rename_i heq <;> rw [heq] at h <;> simp [timedOut] at h ⊢ <;> omega

theorem sendInput_rounds (d : Dev σ) (t : Table) (ch : Chan σ) (line : Line) :
    (sendInput d t ch line).1.rounds = ch.rounds := by
  have h := (io_rounds d t ch line).1
  unfold sendInput
  split <;> rename_i heq <;> rw [heq] at h <;> simpa [timedOut] using h

theorem escalateSecond_rounds (c : Cfg) (d : Dev σ) (t : Table) (ch : Chan σ) (l p : Level) :
    (escalateSecond c d t ch l p).1.rounds = ch.rounds := by
  have h2 := (io_rounds d t ch c.secondary).1
  unfold escalateSecond
  split <;> rename_i heq2 <;> rw [heq2] at h2
  · exact h2
  · split <;> exact h2

theorem escalateAuth_rounds (c : Cfg) (d : Dev σ) (t : Table) (ch : Chan σ) (l p : Level) :
    (escalateAuth c d t ch l p).1.rounds = ch.rounds := by
  have h1 := (io_rounds d t ch l.esc).1
  unfold escalateAuth
  split <;> rename_i heq1 <;> rw [heq1] at h1
  · exact h1
  · rename_i ch1 r1
    split
    · split
      · exact h1
      · exact (escalateSecond_rounds c d t ch1 l p).trans h1
    · exact h1

theorem escalate_rounds (c : Cfg) (d : Dev σ) (t : Table) (ch : Chan σ) (l : Level) :
    (escalate c d t ch l).1.rounds = ch.rounds := by
  unfold escalate
  split
  · have h := sendInput_rounds d t ch l.esc
    split <;> rename_i heq <;> rw [heq] at h <;> exact h
  · split
    · rfl
    · exact escalateAuth_rounds c d t ch l _

/-- one pass of the loop body keeps the table, the generic flag and the user log, and makes at most
    one round -/
theorem acquireIter_frame (c : Cfg) (d : Dev σ) (dest : Name) (w : W σ) :
    (acquireIter c d dest w).1.tbl = w.tbl ∧ (acquireIter c d dest w).1.generic = w.generic ∧
    (acquireIter c d dest w).1.ulog = w.ulog ∧ (acquireIter c d dest w).1.ch.rounds ≤ w.ch.rounds + 1 := by
  have hg := getPrompt_rounds d w.tbl w.ch
  unfold acquireIter
  split <;> rename_i heq <;> rw [heq] at hg
  · exact ⟨rfl, rfl, rfl, hg⟩
  · rename_i ch1 cls
    simp only
    split
    · exact ⟨rfl, rfl, rfl, hg⟩
    · exact ⟨rfl, rfl, rfl, hg⟩
    · rename_i b l _
      have hs := sendInput_rounds d w.tbl ch1 l.desc
      split <;> rename_i heq2 <;> rw [heq2] at hs <;> exact ⟨rfl, rfl, rfl, by simp at hs hg ⊢; omega⟩
    · rename_i b l _
      have hs := escalate_rounds c d w.tbl ch1 l
      split <;> rename_i heq2 <;> rw [heq2] at hs <;> exact ⟨rfl, rfl, rfl, by simp at hs hg ⊢; omega⟩

theorem escalateAuth_ne_fuel (c : Cfg) (d : Dev σ) (t : Table) (ch : Chan σ) (l p : Level) :
    (escalateAuth c d t ch l p).2 ≠ .outOfFuel := by
  unfold escalateAuth escalateSecond
  repeat' split
  all_goals simp

theorem sendInput_ne_fuel (d : Dev σ) (t : Table) (ch : Chan σ) (line : Line) :
    (sendInput d t ch line).2 ≠ .error .outOfFuel := by
  unfold sendInput
  repeat' split
  all_goals simp

theorem getPrompt_ne_fuel (d : Dev σ) (t : Table) (ch : Chan σ) :
    (getPrompt d t ch).2 ≠ .error .outOfFuel := by
  unfold getPrompt
  repeat' split
  all_goals simp

theorem escalate_ne_fuel (c : Cfg) (d : Dev σ) (t : Table) (ch : Chan σ) (l : Level) :
    (escalate c d t ch l).2 ≠ .outOfFuel := by
  unfold escalate
  split
  · have := sendInput_ne_fuel d t ch l.esc
    split <;> rename_i heq <;> rw [heq] at this <;> simp_all
  · split
    · simp
    · exact escalateAuth_ne_fuel c d t ch l _

theorem processAcquire_ne_fuel (t : Table) (nb : Name → List Name) (b dest : Name) (cls : List Name) :
    (processAcquire t nb b dest cls).2 ≠ .error .outOfFuel := by
  unfold processAcquire nextAction
  repeat' split
  all_goals simp

theorem acquireIter_ne_fuel (c : Cfg) (d : Dev σ) (dest : Name) (w : W σ) :
    (acquireIter c d dest w).2 ≠ some .outOfFuel := by
  have hg := getPrompt_ne_fuel d w.tbl w.ch
  unfold acquireIter
  split <;> rename_i heq <;> rw [heq] at hg
  · simpa using hg
  · rename_i ch1 cls
    simp only
    have hp := processAcquire_ne_fuel w.tbl (c.ord w.tbl) w.belief dest cls
    split <;> rename_i heq2 <;> rw [heq2] at hp
    · simpa using hp
    · simp
    · rename_i b l
      have hs := sendInput_ne_fuel d w.tbl ch1 l.desc
      split <;> rename_i heq3 <;> rw [heq3] at hs
      · simpa using hs
      · simp
    · rename_i b l
      have hs := escalate_ne_fuel c d w.tbl ch1 l
      split <;> rename_i heq3 <;> rw [heq3] at hs
      · simp
      · simpa using hs

/-- the bound the code enforces: `len(privilege_levels) * loopFactor + 1` passes -/
def maxIter (t : Table) : Nat := t.length * loopFactor + 1

/-- **the acquire loop is bounded for every device**: with `count` passes made, at most
    `maxIter - count` more follow; the fuel is never exhausted -/
theorem acquireLoop_bounded (c : Cfg) (d : Dev σ) (dest : Name) :
    ∀ (fuel count : Nat) (w : W σ), count < maxIter w.tbl → maxIter w.tbl ≤ fuel + count →
      (acquireLoop c d dest fuel count w).2 ≠ .outOfFuel ∧
      (acquireLoop c d dest fuel count w).1.tbl = w.tbl ∧
      (acquireLoop c d dest fuel count w).1.ulog = w.ulog ∧
      (acquireLoop c d dest fuel count w).1.generic = w.generic ∧
      (acquireLoop c d dest fuel count w).1.ch.rounds + count ≤ w.ch.rounds + maxIter w.tbl := by
  intro fuel
  induction fuel with
  | zero => intro count w h1 h2; omega
  | succ fuel ih =>
    intro count w h1 h2
    have hf := acquireIter_frame c d dest w
    have hn := acquireIter_ne_fuel c d dest w
    unfold acquireLoop
    split <;> rename_i heq <;> rw [heq] at hf hn <;> obtain ⟨f1, f2, f3, f4⟩ := hf
    · rename_i w1 o
      exact ⟨by simpa using hn, f1, f3, f2, by simp at f4 ⊢; omega⟩
    · rename_i w1
      simp only at f1 f2 f3 f4
      split
      · exact ⟨by simp, f1, f3, f2, by show w1.ch.rounds + count ≤ _; omega⟩
      · rename_i hc
        have hc' : count + 1 < maxIter w1.tbl := by unfold maxIter; omega
        obtain ⟨i1, i2, i3, i4, i5⟩ := ih (count + 1) w1 hc' (by rw [f1]; omega)
        refine ⟨i1, i2.trans f1, i3.trans f3, i4.trans f2, ?_⟩
        rw [f1] at i5
        omega

end Scrapli.Priv
