import ScrapliModel.Telnet
/- Helper lemmas for C15 (Telnet).  Property theorems are in C15.lean. -/
namespace Scrapli.Telnet
open Scrapli Scrapli.Gen.Telnet

/-- the byte machine run over a byte string -/
def feed (count : Bool) (s : St) (bs : Bytes) : St := bs.foldl (stepByte count) s

@[simp] theorem feed_nil (count s) : feed count s [] = s := rfl
@[simp] theorem feed_cons (count s b bs) : feed count s (b :: bs) = feed count (stepByte count s b) bs := rfl
theorem feed_append (count s a b) : feed count s (a ++ b) = feed count (feed count s a) b := by
  simp [feed, List.foldl_append]

/-- `stepByte` only ever appends to `cooked`; the rest of the step does not look at it. -/
theorem stepByte_cooked (count : Bool) (s : St) (p : Bytes) (c : UInt8) :
    stepByte count { s with cooked := p ++ s.cooked } c =
      { stepByte count s c with cooked := p ++ (stepByte count s c).cooked } := by
  unfold stepByte
  rcases hs : s.ctrl with _ | ⟨a, _ | ⟨b, _ | ⟨d, l⟩⟩⟩ <;> simp
  · split <;> simp
  · split <;> simp [hs]
  · cases reply count b c <;> cases count <;> simp
  · exact hs.symm

theorem feed_cooked (count : Bool) (bs : Bytes) : ∀ (s : St) (p : Bytes),
    feed count { s with cooked := p ++ s.cooked } bs =
      { feed count s bs with cooked := p ++ (feed count s bs).cooked } := by
  induction bs with
  | nil => intro s p; simp
  | cons b bs ih =>
    intro s p
    simp only [feed_cons]
    rw [stepByte_cooked]
    exact ih (stepByte count s b) p

theorem feed_data (count : Bool) (bs : Bytes) : ∀ (s : St), s.ctrl = [] → (∀ x ∈ bs, x ≠ IAC) →
    feed count s bs = { s with cooked := s.cooked ++ bs } := by
  induction bs with
  | nil => intro s _ _; simp
  | cons b bs ih =>
    intro s hc hb
    have hb1 : b ≠ IAC := hb b (by simp)
    have : stepByte count s b = { s with cooked := s.cooked ++ [b] } := by
      unfold stepByte; rw [hc]; simp [hb1]
    rw [feed_cons, this, ih _ (by simpa using hc) (fun x hx => hb x (by simp [hx]))]
    simp

theorem takeWhile_no_iac (raw : Bytes) : ∀ x ∈ raw.takeWhile (· != IAC), x ≠ IAC := by
  induction raw with
  | nil => intro x hx; simp at hx
  | cons a l ih =>
    intro x hx
    rw [List.takeWhile_cons] at hx
    split at hx
    · rename_i h
      rcases List.mem_cons.mp hx with rfl | h'
      · simpa using h
      · exact ih x h'
    · simp at hx

/-- `_handle_control_chars` is the byte machine, provided nothing is cooked on entry
    (which the `while not self._cooked_buf` loop guarantees). -/
theorem handle_eq_feed (count : Bool) (s : St) (raw : Bytes) (hc : s.cooked = []) :
    handle count s raw = feed count s raw := by
  unfold handle
  split
  · rename_i he
    have he' : s.ctrl = [] := by simpa using he
    conv => rhs; rw [← List.takeWhile_append_dropWhile (p := (· != IAC)) (l := raw)]
    rw [feed_append, feed_data count _ s he' (takeWhile_no_iac raw)]
    simp [hc, feed]
  · rfl

end Scrapli.Telnet

namespace Scrapli.Telnet
open Scrapli Scrapli.Gen.Telnet

/-! ### The specification: a stream is a list of items -/

inductive Item where
  | data (b : UInt8)
  | cmd (verb opt : UInt8)
deriving Repr, DecidableEq

/-- data bytes are not IAC; commands carry one of the four negotiation verbs (any option byte) -/
def Item.wf : Item → Bool
  | .data b => b != IAC
  | .cmd v _ => isVerb v

def render : List Item → Bytes
  | [] => []
  | .data b :: r => b :: render r
  | .cmd v o :: r => IAC :: v :: o :: render r

def dataBytes : List Item → Bytes
  | [] => []
  | .data b :: r => b :: dataBytes r
  | .cmd _ _ :: r => dataBytes r

/-- what the application must see: the data bytes, NULs dropped -/
def specData (items : List Item) : Bytes := (dataBytes items).filter (· != NULL)

/-- the property's reply table, written out independently of the model's `reply` -/
def specReply (v o : UInt8) : Bytes :=
  if v = DO then (if o = SUPPRESS_GO_AHEAD then [IAC, WILL, o] else [IAC, WONT, o])
  else if v = DONT then [IAC, WONT, o]
  else if v = WILL then [IAC, DO, o]
  else [IAC, DONT, o]

def specReplies : List Item → List Bytes
  | [] => []
  | .data _ :: r => specReplies r
  | .cmd v o :: r => specReply v o :: specReplies r

def nCmds : List Item → Nat
  | [] => 0
  | .data _ :: r => nCmds r
  | .cmd _ _ :: r => nCmds r + 1

/-- the reply chain read from the source of EITHER transport answers every verb as the property's
    table says, for every option byte -/
theorem reply_eq_spec (count : Bool) (v o : UInt8) (hv : isVerb v = true) :
    reply count v o = some (specReply v o) := by
  unfold isVerb at hv
  simp only [Bool.or_eq_true, beq_iff_eq] at hv
  by_cases ho : o = SUPPRESS_GO_AHEAD
  · subst ho
    rcases hv with ((rfl | rfl) | rfl) | rfl <;> cases count <;> decide
  · have ho' : (SUPPRESS_GO_AHEAD == o) = false := by
      rw [beq_eq_false_iff_ne]; exact fun e => ho e.symm
    rcases hv with ((rfl | rfl) | rfl) | rfl <;> cases count <;>
      simp [reply, replyOf, syncReplyTable, asyncReplyTable, specReply, List.find?, ho', ho, DO, DONT, WILL, WONT]

/-- the byte machine decodes a rendered item list exactly -/
theorem feed_render (count : Bool) (items : List Item) : ∀ (s : St), s.ctrl = [] →
    (∀ i ∈ items, i.wf = true) →
    feed count s (render items) =
      { s with cooked := s.cooked ++ dataBytes items,
               writes := s.writes ++ specReplies items,
               counter := s.counter + (if count then nCmds items else 0) } := by
  induction items with
  | nil => intro s _ _; simp [render, dataBytes, specReplies, nCmds]
  | cons i r ih =>
    intro s hc hwf
    have hr : ∀ j ∈ r, j.wf = true := fun j hj => hwf j (by simp [hj])
    cases i with
    | data b =>
      have hb : b ≠ IAC := by simpa [Item.wf] using hwf (.data b) (by simp)
      have h1 : stepByte count s b = { s with cooked := s.cooked ++ [b] } := by
        unfold stepByte; rw [hc]; simp [hb]
      simp only [render, feed_cons, h1]
      rw [ih _ (by simpa using hc) hr]
      simp [dataBytes, specReplies, nCmds]
    | cmd v o =>
      have hv : isVerb v = true := by simpa [Item.wf] using hwf (.cmd v o) (by simp)
      have h1 : stepByte count s IAC = { s with ctrl := [IAC] } := by
        unfold stepByte; rw [hc]; simp
      have h2 : stepByte count { s with ctrl := [IAC] } v = { s with ctrl := [IAC, v] } := by
        unfold stepByte; simp [hv]
      have h3 : stepByte count { s with ctrl := [IAC, v] } o =
          { s with ctrl := [], writes := s.writes ++ [specReply v o],
                   counter := s.counter + (if count then 1 else 0) } := by
        unfold stepByte; simp [reply_eq_spec count v o hv]; cases count <;> simp
      simp only [render, feed_cons, h1, h2, h3]
      rw [ih _ rfl hr]
      cases count <;> simp [dataBytes, specReplies, nCmds]
      · exact hc
      · exact ⟨hc, by omega⟩

/-! ### Counter monotonicity and the pass-through phase -/

theorem stepByte_counter_mono (count : Bool) (s : St) (c : UInt8) :
    s.counter ≤ (stepByte count s c).counter := by
  unfold stepByte
  rcases hs : s.ctrl with _ | ⟨a, _ | ⟨b, _ | ⟨d, l⟩⟩⟩ <;> simp
  · split <;> simp
  · split <;> simp
  · cases reply count b c <;> cases count <;> simp

theorem feed_counter_mono (count : Bool) (bs : Bytes) : ∀ s : St, s.counter ≤ (feed count s bs).counter := by
  induction bs with
  | nil => intro s; simp
  | cons b bs ih => intro s; exact Nat.le_trans (stepByte_counter_mono count s b) (ih _)

/-- if the counting machine ends with an empty control buffer and an unchanged counter, it
    started with an empty control buffer and read no IAC -/
theorem feed_quiet (bs : Bytes) : ∀ s : St, (feed true s bs).ctrl = [] →
    (feed true s bs).counter = s.counter → s.ctrl = [] ∧ ∀ x ∈ bs, x ≠ IAC := by
  induction bs with
  | nil => intro s h _; exact ⟨by simpa using h, by simp⟩
  | cons b bs ih =>
    intro s h1 h2
    simp only [feed_cons] at h1 h2
    have hm1 := stepByte_counter_mono true s b
    have hm2 := feed_counter_mono true bs (stepByte true s b)
    have hceq : (stepByte true s b).counter = s.counter := by omega
    have ⟨hc', hbs⟩ := ih (stepByte true s b) h1 (by omega)
    -- the step kept the counter and left ctrl empty: only a data byte at empty ctrl does that
    unfold stepByte at hc' hceq
    rcases hs : s.ctrl with _ | ⟨a, _ | ⟨d, _ | ⟨e, l⟩⟩⟩
    · rw [hs] at hc' hceq
      by_cases hb : b = IAC
      · simp [hb] at hc'
      · refine ⟨rfl, ?_⟩
        intro x hx
        rcases List.mem_cons.mp hx with rfl | hx
        · exact hb
        · exact hbs x hx
    · rw [hs] at hc' hceq
      simp only at hc'
      split at hc' <;> simp [hs] at hc'
    · rw [hs] at hc' hceq
      simp only at hceq
      cases hr : reply true d b <;> simp [hr] at hceq
    · rw [hs] at hc'
      simp [hs] at hc'

end Scrapli.Telnet

namespace Scrapli.Telnet
open Scrapli Scrapli.Gen.Telnet

theorem stepByte_eof (count : Bool) (s : St) (e : Bool) (c : UInt8) :
    stepByte count { s with eof := e } c = { stepByte count s c with eof := e } := by
  unfold stepByte
  rcases hs : s.ctrl with _ | ⟨a, _ | ⟨b, _ | ⟨d, l⟩⟩⟩ <;> simp
  · split <;> simp
  · split <;> simp [hs]
  · cases reply count b c <;> cases count <;> simp
  · exact hs.symm

theorem feed_eof (count : Bool) (bs : Bytes) : ∀ (s : St) (e : Bool),
    feed count { s with eof := e } bs = { feed count s bs with eof := e } := by
  induction bs with
  | nil => intro s e; simp
  | cons b bs ih => intro s e; simp only [feed_cons]; rw [stepByte_eof]; exact ih _ e

/-- clearing `cooked` (what `read()` does when it returns) commutes with the byte machine -/
theorem feed_clear (count : Bool) (s : St) (e : Bool) (bs : Bytes) :
    feed count { s with cooked := [], eof := e } bs =
      { feed count { s with cooked := [] } bs with eof := e } := by
  have := feed_eof count bs { s with cooked := [] } e
  simpa using this

theorem feed_split_cooked (count : Bool) (s : St) (bs : Bytes) :
    feed count s bs =
      { feed count { s with cooked := [] } bs with
          cooked := s.cooked ++ (feed count { s with cooked := [] } bs).cooked } := by
  have := feed_cooked count bs { s with cooked := [] } s.cooked
  simpa using this

/-- the side condition under which the pass-through phase of the sync transport is harmless -/
def PassOK (count : Bool) (limit : Nat) (s : St) (rest : Bytes) : Prop :=
  ∀ pre suf, rest = pre ++ suf → limit ≤ (feed count s pre).counter →
    (feed count s pre).ctrl = [] ∧ ∀ x ∈ suf, x ≠ IAC

theorem recvStep_eq_feed (count : Bool) (limit : Nat) (s : St) (hc : s.cooked = [])
    (chunk rest : Bytes) (h : PassOK count limit s (chunk ++ rest)) :
    recvStep count limit s chunk = { feed count s chunk with eof := chunk.isEmpty } := by
  unfold recvStep
  simp only
  split
  · rw [handle_eq_feed _ _ _ (by simpa using hc), feed_eof]
  · rename_i hlt
    have hle : limit ≤ s.counter := by simpa using hlt
    have ⟨h1, h2⟩ := h [] (chunk ++ rest) rfl (by simpa using hle)
    have h1' : s.ctrl = [] := by simpa using h1
    rw [feed_data count chunk s h1' (fun x hx => h2 x (by simp [hx]))]

theorem PassOK_step (count : Bool) (limit : Nat) (s : St) (chunk rest : Bytes) (e : Bool)
    (h : PassOK count limit s (chunk ++ rest)) :
    PassOK count limit { feed count s chunk with cooked := [], eof := e } rest := by
  intro pre suf hsplit hle
  have key : ∀ bs, (feed count { feed count s chunk with cooked := [], eof := e } bs).counter =
        (feed count (feed count s chunk) bs).counter ∧
      (feed count { feed count s chunk with cooked := [], eof := e } bs).ctrl =
        (feed count (feed count s chunk) bs).ctrl := by
    intro bs
    rw [feed_clear, feed_split_cooked count (feed count s chunk) bs]
    simp
  have ⟨k1, k2⟩ := key pre
  rw [k1] at hle
  rw [k2]
  rw [← feed_append] at hle ⊢
  exact h (chunk ++ pre) suf (by rw [hsplit, List.append_assoc]) hle

/-- chunk by chunk processing with `read()`'s clearing of the cooked buffer = the byte machine
    over the concatenated stream -/
theorem pump_fold (count : Bool) (limit : Nat) (tape : List Bytes) : ∀ (s : St) (d : Bytes),
    s.cooked = [] → PassOK count limit s tape.flatten →
    (tape.foldl (pump count limit) (s, d)).1.ctrl = (feed count s tape.flatten).ctrl ∧
    (tape.foldl (pump count limit) (s, d)).1.writes = (feed count s tape.flatten).writes ∧
    (tape.foldl (pump count limit) (s, d)).1.counter = (feed count s tape.flatten).counter ∧
    (tape.foldl (pump count limit) (s, d)).2 = d ++ stripNul (feed count s tape.flatten).cooked := by
  induction tape with
  | nil => intro s d hc _; simp [hc, stripNul]
  | cons c cs ih =>
    intro s d hc hp
    simp only [List.foldl_cons, List.flatten_cons] at *
    have hstep := recvStep_eq_feed count limit s hc c cs.flatten hp
    have hp' := PassOK_step count limit s c cs.flatten c.isEmpty hp
    simp only [pump, hstep]
    have := ih { feed count s c with cooked := [], eof := c.isEmpty }
      (d ++ stripNul (feed count s c).cooked) rfl hp'
    obtain ⟨i1, i2, i3, i4⟩ := this
    rw [feed_append, feed_split_cooked count (feed count s c) cs.flatten]
    rw [feed_clear] at i1 i2 i3 i4
    refine ⟨by simpa using i1, by simpa using i2, by simpa using i3, ?_⟩
    rw [i4]
    simp [stripNul, List.filter_append, List.append_assoc]

theorem feed_false_counter (bs : Bytes) : ∀ s : St, (feed false s bs).counter = s.counter := by
  induction bs with
  | nil => intro s; rfl
  | cons b bs ih =>
    intro s
    rw [feed_cons, ih]
    unfold stepByte
    rcases hs : s.ctrl with _ | ⟨a, _ | ⟨d, _ | ⟨e, l⟩⟩⟩ <;> simp
    · split <;> simp
    · split <;> simp
    · cases reply false d b <;> simp

end Scrapli.Telnet

namespace Scrapli.Telnet
open Scrapli Scrapli.Gen.Telnet

/-! ### `read()` by `read()`: the fold `run` is what a client that keeps reading sees -/

theorem stepByte_keeps_eof (count : Bool) (s : St) (c : UInt8) : (stepByte count s c).eof = s.eof := by
  unfold stepByte
  rcases hs : s.ctrl with _ | ⟨a, _ | ⟨d, _ | ⟨e, l⟩⟩⟩ <;> simp
  · split <;> rfl
  · split <;> rfl
  · cases reply count d c <;> cases count <;> rfl

theorem foldl_stepByte_keeps_eof (count : Bool) : ∀ (bs : Bytes) (s : St),
    (bs.foldl (stepByte count) s).eof = s.eof := by
  intro bs
  induction bs with
  | nil => intro s; rfl
  | cons b bs ih => intro s; rw [List.foldl_cons, ih, stepByte_keeps_eof]

theorem recvStep_eof (count : Bool) (limit : Nat) (s : St) (c : Bytes) :
    (recvStep count limit s c).eof = c.isEmpty := by
  unfold recvStep handle
  simp only
  split
  · split
    · rw [foldl_stepByte_keeps_eof]
    · rw [foldl_stepByte_keeps_eof]
  · rfl

theorem clear_cooked_of_empty (s : St) (h : s.cooked = []) : { s with cooked := [] } = s := by
  cases s; simp_all

/-- **the fold is the read loop**: on a tape whose only empty recv result (EOF) is the last one, the
    concatenation of the successive `read()` results is what `pump` accumulates -/
theorem reads_flatten (count : Bool) (limit : Nat) : ∀ (tape : List Bytes) (s : St) (acc : Bytes),
    (∀ c ∈ tape.dropLast, c ≠ []) →
    (tape.foldl (pump count limit) (s, acc)).2 = acc ++ (reads count limit s tape).flatten := by
  intro tape
  induction tape with
  | nil => intro s acc _; simp [reads]
  | cons c cs ih =>
    intro s acc hne
    have hcs : ∀ x ∈ cs.dropLast, x ≠ [] := by
      intro x hx
      cases cs with
      | nil => simp at hx
      | cons d ds => exact hne x (by simp [List.dropLast_cons_cons, hx])
    rw [List.foldl_cons]
    unfold reads
    simp only [pump]
    by_cases hloop : ((recvStep count limit s c).cooked.isEmpty && !(recvStep count limit s c).eof) = true
    · simp only [hloop, ↓reduceIte]
      have hck : (recvStep count limit s c).cooked = [] := by
        simp only [Bool.and_eq_true, List.isEmpty_iff] at hloop; exact hloop.1
      rw [clear_cooked_of_empty _ hck, hck]
      simpa [stripNul] using ih (recvStep count limit s c) acc hcs
    · have hl : ((recvStep count limit s c).cooked.isEmpty && !(recvStep count limit s c).eof) = false := by
        simpa using hloop
      simp only [hl, Bool.false_eq_true, ↓reduceIte]
      by_cases heof : (recvStep count limit s c).eof = true
      · -- EOF was read: `c` is empty, hence the last chunk
        have hc : c = [] := by
          rw [recvStep_eof] at heof; simpa using heof
        have hcs0 : cs = [] := by
          cases cs with
          | nil => rfl
          | cons d ds => exact absurd hc (hne c (by simp [List.dropLast_cons_cons]))
        subst hcs0
        simp [heof]
      · have heof' : (recvStep count limit s c).eof = false := by simpa using heof
        simp only [heof', Bool.false_eq_true, ↓reduceIte, List.flatten_cons]
        rw [ih _ _ hcs, List.append_assoc]

end Scrapli.Telnet
