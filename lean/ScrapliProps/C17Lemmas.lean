import ScrapliModel.Resolve
/-
  C17 — specification definitions and helper lemmas (the property theorems are in C17.lean).
-/
namespace Scrapli.Resolve
open Scrapli.Gen.Resolve

/-! ## Specification (written from the property statement, not from the code) -/

/-- facts about the real file system the theorems about the *choice of configuration file* need:
    the empty path, `/dev/null` (a device) and a file literally named like scrapli's marker string
    are not regular files -/
def SshConfigView.WF (v : SshConfigView) : Prop :=
  v.isFile [] = false ∧ v.isFile devNull = false ∧ v.isFile magicCfg = false

instance (v : SshConfigView) : Decidable v.WF := by unfold SshConfigView.WF; infer_instance

/-- first path of the list that names an existing file (after `~` expansion) -/
def firstExisting (v : SshConfigView) : List Str → Option Str
  | [] => none
  | p :: ps =>
    if p ≠ [] ∧ v.isFile (expandUser v.home p) = true then some (expandUser v.home p)
    else firstExisting v ps

/-- which ssh configuration governs the connection -/
inductive CfgChoice where
  | none                 -- ssh_config_file=False, a telnet transport, or no file found
  | sshDefaults          -- system transport, ssh_config_file=True: ssh reads its own default files
  | file (p : Str)
  deriving DecidableEq, Repr

/-- `ssh_config_file` = `False`: none; a path: that file if it exists; else (also for `True`) the
    user's `~/.ssh/config`, else `/etc/ssh/ssh_config` -/
def specCfgChoice (a : Args) (v : SshConfigView) : CfgChoice :=
  if isTelnet a.transport then .none
  else if a.cfgArg = .no then .none
  else if a.cfgArg.str = [] ∧ isSystem a.transport = true then .sshDefaults
  else match firstExisting v [a.cfgArg.str, userCfgPath, sysCfgPath] with
    | some p => .file p
    | none => .none

/-- the entry of that configuration for the host -/
def specCfgEntry (a : Args) (v : SshConfigView) : HostCfg :=
  match specCfgChoice a v with
  | .none => {}
  | .sshDefaults => v.sshDefault
  | .file p => v.lookup p

/-- explicit argument, then the ssh config, then 22 (23 for telnet) -/
def specPort (a : Args) (v : SshConfigView) : Nat :=
  match a.port with
  | some p => p
  | none =>
    match (specCfgEntry a v).portTruthy with
    | some q => q
    | none => if isTelnet a.transport then 23 else 22

/-- explicit argument, then the ssh config (the telnet transports take no user name) -/
def specUser (a : Args) (v : SshConfigView) : Str :=
  if isTelnet a.transport then []
  else if a.user ≠ [] then a.user
  else (specCfgEntry a v).user

/-- explicit argument (as an existing file, `~` expanded if need be), then the ssh config -/
def specKey (a : Args) (v : SshConfigView) : Str :=
  if isTelnet a.transport then []
  else if a.key ≠ [] then (if v.isFile a.key then a.key else expandUser v.home a.key)
  else (specCfgEntry a v).identityFile

/-- "the values the transport connects with equal those the driver reports", on the transport's
    argument objects: host and port of `_base_transport_args`, and every plugin argument of this
    transport is present and equals the driver attribute of the same name -/
def ReportedEqDialed (t : Transport) (r : Resolved) : Prop :=
  r.bta.host = r.reported.host ∧ r.bta.port = r.reported.port ∧
  r.plugin.map (·.1) = pluginFieldsOf t ∧
  ∀ f x, (f, x) ∈ r.plugin → x = r.reported.getattr f

/-- "resolve by a fixed precedence": what the constructed transport will connect with (`effective`:
    the argument objects of the library/telnet transports; for the system transport what OpenSSH makes
    of the command line and the configuration file it reads) is what the specification names -/
def PrecedenceHolds (a : Args) (v : SshConfigView) (r : Resolved) : Prop :=
  ∃ e, effective a.transport r v = .ok e ∧ e.port = natStr (specPort a v) ∧ e.user = specUser a v ∧
    e.key = specKey a v

/-- the ssh options a connection with these reported parameters should carry, in structured form;
    `port`, `tS`, `tT` are passed separately because they live in `_base_transport_args` -/
def specOpts (d : Drv) (port tS tT : Nat) : List Opt :=
  [('p', some (natStr port)), ('o', some (connectTimeoutPfx ++ natStr tS)), ('o', some (serverAlivePfx ++ natStr tT))]
  ++ (if d.key = [] then [] else [('i', some d.key)])
  ++ (if d.user = [] then [] else [('l', some d.user)])
  ++ (if d.strict = true then
        ('o', some strictYes) :: (if d.khFile = magicKh ∨ d.khFile = [] then [] else [('o', some (khPfx ++ d.khFile))])
      else [('o', some strictNo), ('o', some khDevNull)])
  ++ (if d.cfgFile = [] then [('F', some devNull)] else if d.cfgFile = magicCfg then [] else [('F', some d.cfgFile)])

/-! ## Python string helpers -/

theorem isSpace_dash : isSpace '-' = false := by decide

theorem rstrip_head (c : Char) (t : Str) (h : isSpace c = false) : (rstrip (c :: t)).head? = some c := by
  simp only [rstrip]
  split
  · simp [h]
  · simp

theorem strip_head_dash (s : Str) (h : s.head? = some '-') : (strip s).head? = some '-' := by
  cases s with
  | nil => simp at h
  | cons c t =>
    simp at h
    subst h
    simp [strip, List.dropWhile, isSpace_dash, rstrip_head]

/-! ## the data tables -/

theorem transport_table (t : Transport) :
    (isTelnet t, consultsCfg t, isSystem t) =
      match t with
      | .telnet => (true, false, false) | .asynctelnet => (true, false, false)
      | .system => (false, false, true)
      | .ssh2 => (false, true, false) | .paramiko => (false, true, false) | .asyncssh => (false, true, false) := by
  cases t <;> decide

theorem pluginFieldsOf_system : pluginFieldsOf .system =
    [.auth_username, .auth_private_key, .auth_strict_key, .ssh_config_file, .ssh_known_hosts_file] := by decide

/-- for the ssh transports the plugin arguments contain user and key -/
theorem plugin_has_user_key (t : Transport) (h : isTelnet t = false) :
    Field.auth_username ∈ pluginFieldsOf t ∧ Field.auth_private_key ∈ pluginFieldsOf t := by
  cases t <;> first | (exact absurd h (by decide)) | decide

theorem plugin_telnet_empty (t : Transport) (h : isTelnet t = true) : pluginFieldsOf t = [] := by
  cases t <;> first | (exact absurd h (by decide)) | decide

/-- reading a field back from plugin arguments copied by name -/
theorem plugin_str_of_mem (d : Drv) (fs : List Field) (f : Field) (hf : f ∈ fs) (s : Str)
    (hs : d.getattr f = .s s) : Plugin.str (fs.map fun g => (g, d.getattr g)) f = s := by
  induction fs with
  | nil => simp at hf
  | cons g gs ih =>
    by_cases hg : g = f
    · subst hg; simp [Plugin.str, hs]
    · have hf' : f ∈ gs := by
        cases hf with
        | head => exact absurd rfl hg
        | tail _ h => exact h
      have := ih hf'
      simp [Plugin.str, hg] at this ⊢
      exact this

theorem plugin_bool_of_mem (d : Drv) (fs : List Field) (f : Field) (hf : f ∈ fs) (s : Bool)
    (hs : d.getattr f = .b s) : Plugin.bool (fs.map fun g => (g, d.getattr g)) f = s := by
  induction fs with
  | nil => simp at hf
  | cons g gs ih =>
    by_cases hg : g = f
    · subst hg; simp [Plugin.bool, hs]
    · have hf' : f ∈ gs := by
        cases hf with
        | head => exact absurd rfl hg
        | tail _ h => exact h
      have := ih hf'
      simp [Plugin.bool, hg] at this ⊢
      exact this

theorem map_fst_map (l : List Field) (g : Field → Val) : (l.map fun f => (f, g f)).map (·.1) = l := by
  induction l with
  | nil => rfl
  | cons x xs ih => simp [ih]

theorem plugin_str_nil (f : Field) : Plugin.str [] f = [] := by simp [Plugin.str]

/-! ## `_update_ssh_args_from_ssh_config` -/

theorem update_spec (fx : Fixes) (e : Bool) (v : SshConfigView) (d : Drv) (b : BTA) :
    let r := updateFromSshConfig fx e v d b
    let hc := lookupCfg v d.cfgFile
    r.1.host = d.host ∧ r.2.host = b.host ∧ r.1.cfgFile = d.cfgFile ∧ r.1.khFile = d.khFile ∧
    r.1.strict = d.strict ∧ r.2.tSocket = b.tSocket ∧ r.2.tTransport = b.tTransport ∧ r.2.extra = b.extra ∧
    r.1.port = (match hc.portTruthy with
      | some p => if fx.explicitPortWins = true ∧ e = true then d.port else p
      | none => d.port) ∧
    r.2.port = (match hc.portTruthy with
      | some p => if fx.explicitPortWins = true ∧ e = true then b.port else if fx.cfgPortDialed = true then p else b.port
      | none => b.port) ∧
    r.1.user = (if hc.user ≠ [] ∧ d.user = [] then hc.user else d.user) ∧
    r.1.key = (if hc.identityFile ≠ [] ∧ d.key = [] then hc.identityFile else d.key) := by
  intro r hc
  simp only [r, updateFromSshConfig]
  cases hp : (lookupCfg v d.cfgFile).portTruthy <;>
    cases h1 : fx.explicitPortWins <;> cases e <;> cases h2 : fx.cfgPortDialed <;>
    by_cases hu : (lookupCfg v d.cfgFile).user = [] <;> by_cases hdu : d.user = [] <;>
    by_cases hi : (lookupCfg v d.cfgFile).identityFile = [] <;> by_cases hdk : d.key = [] <;>
    simp [hc, hu, hdu, hi, hdk, List.isEmpty_iff]

/-! ## the option grammar -/

theorem cons_nil (x : Except ParseErr GetoptResult) : GetoptResult.cons [] x = x := by
  cases x <;> simp [GetoptResult.cons]

theorem cons_cons (a b : List Opt) (x : Except ParseErr GetoptResult) :
    GetoptResult.cons a (GetoptResult.cons b x) = GetoptResult.cons (a ++ b) x := by
  cases x <;> simp [GetoptResult.cons]

theorem classify_nonOption (w : Str) (h : w.head? ≠ some '-') : classify w = .nonOption := by
  unfold classify
  split
  · simp at h
  · rfl

/-- the word `-c` -/
def optWord (c : Char) : Str := ['-', c]

/-- option/argument pairs laid out as command line words -/
def flat : List (Char × Str) → List Str
  | [] => []
  | (c, a) :: ps => optWord c :: a :: flat ps

theorem flat_append (p q : List (Char × Str)) : flat (p ++ q) = flat p ++ flat q := by
  induction p with
  | nil => rfl
  | cons x xs ih => cases x; simp [flat, ih]

/-- getopt reads `-c arg` pairs back, whatever the argument words are (also ones starting with `-`) -/
theorem getopts_flat (ps : List (Char × Str)) (ws : List Str)
    (hc : ∀ p ∈ ps, sshArgOpts.contains p.1 = true) :
    getopts none (flat ps ++ ws) = GetoptResult.cons (ps.map fun p => (p.1, some p.2)) (getopts none ws) := by
  induction ps with
  | nil => simp [flat, cons_nil]
  | cons p ps ih =>
    obtain ⟨c, a⟩ := p
    have hc1 : sshArgOpts.contains c = true := hc (c, a) (by simp)
    have ih' := ih (fun p hp => hc p (by simp [hp]))
    have hm : c ∈ sshArgOpts := by simpa using hc1
    have hne : c ≠ '-' := by intro h; subst h; exact absurd hm (by decide)
    have hcl : classify (optWord c) = .cluster (.pending [] c) := by
      simp [optWord, classify, scanCluster, hm, hne]
    simp only [flat, List.cons_append, getopts, hcl, ih', cons_cons, List.map_cons, List.nil_append]

/-- the pairs `_build_open_cmd` emits after the destination -/
def pairs (b : BTA) (p : Plugin) : List (Char × Str) :=
  [('p', natStr b.port), ('o', connectTimeoutPfx ++ natStr b.tSocket), ('o', serverAlivePfx ++ natStr b.tTransport)]
  ++ (if (p.str .auth_private_key) = [] then [] else [('i', p.str .auth_private_key)])
  ++ (if (p.str .auth_username) = [] then [] else [('l', p.str .auth_username)])
  ++ (if p.bool .auth_strict_key = true then
        ('o', strictYes) :: (if p.str .ssh_known_hosts_file = magicKh ∨ p.str .ssh_known_hosts_file = [] then []
                             else [('o', khPfx ++ p.str .ssh_known_hosts_file)])
      else [('o', strictNo), ('o', khDevNull)])
  ++ (if p.str .ssh_config_file = [] then [('F', devNull)]
      else if p.str .ssh_config_file = magicCfg then [] else [('F', p.str .ssh_config_file)])

/-- the literal option words regenerated from the source are `-p -o -i -l -F` -/
theorem option_words : optP = optWord 'p' ∧ optO = optWord 'o' ∧ optI = optWord 'i' ∧ optL = optWord 'l' ∧
    optF = optWord 'F' := by decide

theorem buildOpenCmd_eq (b : BTA) (p : Plugin) :
    buildOpenCmd b p = argvSsh :: b.host :: (flat (pairs b p) ++ b.extra) := by
  obtain ⟨hP, hO, hI, hL, hF⟩ := option_words
  have hm1 : magicCfg ≠ [] := by decide
  have hm2 : magicKh ≠ [] := by decide
  unfold buildOpenCmd pairs
  rw [hP, hO, hI, hL, hF]
  by_cases h1 : p.str .auth_private_key = [] <;> by_cases h2 : p.str .auth_username = [] <;>
    cases h3 : p.bool .auth_strict_key <;>
    by_cases h4 : p.str .ssh_known_hosts_file = magicKh <;> by_cases h5 : p.str .ssh_known_hosts_file = [] <;>
    by_cases h6 : p.str .ssh_config_file = [] <;> by_cases h7 : p.str .ssh_config_file = magicCfg <;>
    simp_all [flat, List.isEmpty_iff]

theorem pairs_fst_all (b : BTA) (p : Plugin) :
    ((pairs b p).map (·.1)).all (fun c => sshArgOpts.contains c) = true := by
  unfold pairs
  simp only [List.map_append, List.all_append, Bool.and_eq_true]
  refine ⟨⟨⟨⟨?_, ?_⟩, ?_⟩, ?_⟩, ?_⟩ <;> (repeat' split) <;> simp only [List.map_cons, List.map_nil] <;> decide

theorem pairs_argopts (b : BTA) (p : Plugin) : ∀ q ∈ pairs b p, sshArgOpts.contains q.1 = true := by
  intro q hq
  have h := pairs_fst_all b p
  rw [List.all_eq_true] at h
  exact h q.1 (List.mem_map_of_mem hq)

/-- parsing the command line `_build_open_cmd` makes: whatever strings sit in argument positions, the
    words are read back as exactly the emitted pairs; the user's extra words are parsed after them -/
theorem parse_buildOpenCmd (b : BTA) (p : Plugin) (hd : b.host.head? ≠ some '-') :
    parseSshArgv (buildOpenCmd b p) =
      match getopts none b.extra with
      | .error e => .error e
      | .ok g => .ok { opts := (pairs b p).map (fun q => (q.1, some q.2)) ++ g.opts, dest := b.host, command := g.rest } := by
  rw [buildOpenCmd_eq]
  simp only [parseSshArgv, getopts, classify_nonOption b.host hd]
  rw [getopts_flat _ _ (pairs_argopts b p)]
  cases getopts none b.extra <;> simp [GetoptResult.cons]

/-! ## inversion of `resolve` -/

theorem resolve_ok {fx : Fixes} {a : Args} {v : SshConfigView} {r : Resolved} (h : resolve fx a v = .ok r) :
    a.host ≠ [] ∧ (fx.rejectDashHost = true → (strip a.host).head? ≠ some '-') ∧
    ∃ key, (if a.key = [] then key = [] else resolveFile v a.key = .ok key) ∧
      r = construct fx a v (strip a.host) key := by
  by_cases h0 : a.host = []
  · simp [resolve, setupHost, h0] at h
  · by_cases hd : (fx.rejectDashHost && (strip a.host).head? == some '-') = true
    · simp [resolve, setupHost, h0, hd] at h
    · by_cases hu : (fx.rejectDestSyntax && !destPlain (strip a.host)) = true
      · simp [resolve, setupHost, h0, hd, hu] at h
      · refine ⟨h0, ?_, ?_⟩
        · intro hf hh
          simp [hf, hh] at hd
        · by_cases hk : a.key = []
          · simp [resolve, setupHost, h0, hd, hu, hk] at h
            exact ⟨[], by simp [hk], h.symm⟩
          · cases hr : resolveFile v a.key with
            | error e => simp [resolve, setupHost, h0, hd, hu, hk, hr] at h
            | ok key =>
              simp [resolve, setupHost, h0, hd, hu, hk, hr] at h
              exact ⟨key, by simp [hk], h.symm⟩

/-- with the proposed destination-syntax fix every accepted host is one ssh takes as a plain host name -/
theorem resolve_ok_dest {fx : Fixes} {a : Args} {v : SshConfigView} {r : Resolved} (h : resolve fx a v = .ok r)
    (hf : fx.rejectDestSyntax = true) : destPlain (strip a.host) = true := by
  by_cases hp : destPlain (strip a.host) = true
  · exact hp
  · by_cases h0 : a.host = []
    · simp [resolve, setupHost, h0] at h
    · by_cases hd : (fx.rejectDashHost && (strip a.host).head? == some '-') = true
      · simp [resolve, setupHost, h0, hd] at h
      · simp [resolve, setupHost, h0, hd, hf, hp] at h

theorem splitLastAt_none (d : Str) (h : noAt d = true) : splitLastAt d = none := by
  induction d with
  | nil => rfl
  | cons c cs ih =>
    simp [noAt] at h
    have := ih (by simp [noAt]; exact h.2)
    simp [splitLastAt, this, h.1]

/-- on a plain word ssh takes nothing out of the destination -/
theorem parseDest_plain (d : Str) (h : destPlain d = true) : parseDest d = { user := none, host := d, port := none } := by
  simp [destPlain] at h
  simp [parseDest, h.2, splitLastAt_none d h.1]

theorem resolveFile_ok {v : SshConfigView} {f key : Str} (h : resolveFile v f = .ok key) :
    key = (if v.isFile f then f else expandUser v.home f) := by
  unfold resolveFile at h
  by_cases h1 : v.isFile f = true
  · simp [h1] at h ⊢; exact h.symm
  · by_cases h2 : v.isFile (expandUser v.home f) = true
    · simp [h1, h2] at h ⊢; exact h.symm
    · simp [h1, h2] at h

/-! ## the configuration file the code picks is the one the specification names -/

theorem firstFile_eq (v : SshConfigView) (l : List Str) : firstFile v l = (firstExisting v l).getD [] := by
  induction l with
  | nil => rfl
  | cons p ps ih =>
    by_cases h1 : p = [] <;> by_cases h2 : v.isFile (expandUser v.home p) = true <;>
      simp [firstFile, firstExisting, h1, h2, ih]

theorem firstExisting_isFile (v : SshConfigView) (l : List Str) (p : Str) (h : firstExisting v l = some p) :
    v.isFile p = true := by
  induction l with
  | nil => simp [firstExisting] at h
  | cons q qs ih =>
    unfold firstExisting at h
    split at h
    · rename_i hc; simp at h; subst h; exact hc.2
    · exact ih h

/-! ## the transports -/

theorem transport_kind (t : Transport) :
    (isTelnet t = true ∧ consultsCfg t = false ∧ isSystem t = false) ∨
    (isTelnet t = false ∧ consultsCfg t = true ∧ isSystem t = false) ∨
    (isTelnet t = false ∧ consultsCfg t = false ∧ isSystem t = true) := by
  cases t <;> decide

theorem isSystem_eq (t : Transport) (h : isSystem t = true) : t = .system := by
  cases t <;> first | rfl | exact absurd h (by decide)

/-! ## the constructor, field by field -/

theorem construct_reported (fx : Fixes) (a : Args) (v : SshConfigView) (host key : Str) :
    (construct fx a v host key).reported = (folded fx a v host key).1 := rfl

theorem construct_bta (fx : Fixes) (a : Args) (v : SshConfigView) (host key : Str) :
    (construct fx a v host key).bta = (folded fx a v host key).2 := rfl

theorem construct_plugin (fx : Fixes) (a : Args) (v : SshConfigView) (host key : Str) :
    (construct fx a v host key).plugin =
      (pluginFieldsOf a.transport).map fun f => (f, (folded fx a v host key).1.getattr f) := rfl

theorem construct_argv (fx : Fixes) (a : Args) (v : SshConfigView) (host key : Str) :
    (construct fx a v host key).argv =
      if isSystem a.transport then buildOpenCmd (folded fx a v host key).2 (construct fx a v host key).plugin else [] := rfl

/-- the ssh config entry the constructor folds in: only the library ssh transports look -/
def foldedEntry (a : Args) (v : SshConfigView) : HostCfg :=
  if consultsCfg a.transport = true then lookupCfg v (setupSshFileArgs v a.transport a.cfgArg a.khArg).1 else {}

theorem folded_spec (fx : Fixes) (a : Args) (v : SshConfigView) (host key : Str) :
    (folded fx a v host key).1.host = host ∧
    (folded fx a v host key).2.host = (if fx.stripDialedHost = true then host else a.host) ∧
    (folded fx a v host key).1.cfgFile = (setupSshFileArgs v a.transport a.cfgArg a.khArg).1 ∧
    (folded fx a v host key).1.khFile = (setupSshFileArgs v a.transport a.cfgArg a.khArg).2 ∧
    (folded fx a v host key).1.strict = a.strict ∧
    (folded fx a v host key).2.tSocket = a.tSocket ∧ (folded fx a v host key).2.tTransport = a.tTransport ∧
    (folded fx a v host key).2.extra = a.extra ∧
    (folded fx a v host key).1.port = (match (foldedEntry a v).portTruthy with
      | some p => if fx.explicitPortWins = true ∧ a.port.isSome = true then initialPort a else p
      | none => initialPort a) ∧
    (folded fx a v host key).2.port = (match (foldedEntry a v).portTruthy with
      | some p => if fx.explicitPortWins = true ∧ a.port.isSome = true then initialPort a
                  else if fx.cfgPortDialed = true then p else initialPort a
      | none => initialPort a) ∧
    (folded fx a v host key).1.user =
      (if (foldedEntry a v).user ≠ [] ∧ a.user = [] then (foldedEntry a v).user else a.user) ∧
    (folded fx a v host key).1.key =
      (if (foldedEntry a v).identityFile ≠ [] ∧ key = [] then (foldedEntry a v).identityFile else key) := by
  by_cases hcc : consultsCfg a.transport = true
  · have hu := update_spec fx a.port.isSome v (drv0 a v host key) (bta0 fx a host)
    simp only [folded, foldedEntry, hcc, if_true]
    first | exact hu | simpa [drv0, bta0] using hu
  · simp [folded, foldedEntry, hcc, drv0, bta0, HostCfg.portTruthy]

/-! ## which configuration file -/

theorem cfgFile_lib (a : Args) (v : SshConfigView) (ht : isTelnet a.transport = false) (hs : isSystem a.transport = false) :
    (setupSshFileArgs v a.transport a.cfgArg a.khArg).1 =
      if a.cfgArg = .no then [] else (firstExisting v [a.cfgArg.str, userCfgPath, sysCfgPath]).getD [] := by
  by_cases hn : a.cfgArg = .no
  · simp [setupSshFileArgs, ht, hn]
  · simp [setupSshFileArgs, ht, hs, hn, resolveSshConfig, firstFile_eq]

theorem cfgFile_sys (a : Args) (v : SshConfigView) (ht : isTelnet a.transport = false) (hs : isSystem a.transport = true) :
    (setupSshFileArgs v a.transport a.cfgArg a.khArg).1 =
      if a.cfgArg = .no then [] else if a.cfgArg.str = [] then magicCfg
      else (firstExisting v [a.cfgArg.str, userCfgPath, sysCfgPath]).getD [] := by
  by_cases hn : a.cfgArg = .no
  · simp [setupSshFileArgs, ht, hn]
  · by_cases he : a.cfgArg.str = []
    · simp [setupSshFileArgs, ht, hs, hn, he, resolveSshConfig]
    · simp [setupSshFileArgs, ht, hs, hn, he, resolveSshConfig, firstFile_eq]

theorem firstExisting_ne (v : SshConfigView) (hwf : v.WF) (l : List Str) (p : Str) (h : firstExisting v l = some p) :
    p ≠ [] ∧ p ≠ devNull ∧ p ≠ magicCfg := by
  have hf := firstExisting_isFile v l p h
  obtain ⟨h1, h2, h3⟩ := hwf
  refine ⟨?_, ?_, ?_⟩ <;> (intro he; subst he; simp_all)

/-- specification of a reported ssh file name (config or known hosts): telnet / `False` → none; `True` (or `""`) on the
    system transport → the marker that makes ssh use its own files; else the given path if it is an existing file,
    else the user's file, else the system-wide file, else none -/
def specFile (v : SshConfigView) (t : Transport) (arg : FileArg) (marker userPath sysPath : Str) : Str :=
  if isTelnet t = true then []
  else if arg = .no then []
  else if arg.str = [] ∧ isSystem t = true then marker
  else (firstExisting v [arg.str, userPath, sysPath]).getD []

theorem setupSshFileArgs_spec (v : SshConfigView) (t : Transport) (c k : FileArg) :
    setupSshFileArgs v t c k =
      (specFile v t c magicCfg userCfgPath sysCfgPath, specFile v t k magicKh userKhPath sysKhPath) := by
  by_cases ht : isTelnet t = true
  · simp [setupSshFileArgs, specFile, ht]
  · by_cases hs : isSystem t = true <;> by_cases hc : c = .no <;> by_cases hk : k = .no <;>
      by_cases hce : c.str = [] <;> by_cases hke : k.str = [] <;>
      simp [setupSshFileArgs, specFile, ht, hs, hc, hk, hce, hke, resolveSshConfig, resolveSshKnownHosts, firstFile_eq]

/-- library ssh transports: the entry folded in is the one the specification names -/
theorem entry_lib (a : Args) (v : SshConfigView) (hwf : v.WF) (ht : isTelnet a.transport = false)
    (hc : consultsCfg a.transport = true) (hs : isSystem a.transport = false) :
    foldedEntry a v = specCfgEntry a v := by
  unfold foldedEntry specCfgEntry specCfgChoice
  rw [cfgFile_lib a v ht hs]
  by_cases hn : a.cfgArg = .no
  · simp [hn, ht, hc, lookupCfg]
  · cases hf : firstExisting v [a.cfgArg.str, userCfgPath, sysCfgPath] with
    | none => simp [hn, ht, hs, hc, lookupCfg]
    | some p =>
      have hp := (firstExisting_ne v hwf _ p hf).1
      simp [hn, ht, hs, hc, lookupCfg, hp]

/-- system transport: the entry ssh applies for the `-F` scrapli passes is the one the specification names -/
theorem entry_sys (a : Args) (v : SshConfigView) (hwf : v.WF) (ht : isTelnet a.transport = false)
    (hs : isSystem a.transport = true) :
    cfgOfF v (if (setupSshFileArgs v a.transport a.cfgArg a.khArg).1 = [] then some devNull
              else if (setupSshFileArgs v a.transport a.cfgArg a.khArg).1 = magicCfg then none
              else some (setupSshFileArgs v a.transport a.cfgArg a.khArg).1) = specCfgEntry a v := by
  have hm : magicCfg ≠ [] := by decide
  unfold specCfgEntry specCfgChoice
  rw [cfgFile_sys a v ht hs]
  by_cases hn : a.cfgArg = .no
  · simp [hn, ht, cfgOfF]
  · by_cases he : a.cfgArg.str = []
    · simp [hn, ht, hs, he, hm, cfgOfF]
    · cases hf : firstExisting v [a.cfgArg.str, userCfgPath, sysCfgPath] with
      | none => simp [hn, ht, hs, he, cfgOfF]
      | some p =>
        obtain ⟨hp1, hp2, hp3⟩ := firstExisting_ne v hwf _ p hf
        simp [hn, ht, hs, he, cfgOfF, hp1, hp2, hp3]

/-! ## reading the emitted options back -/

theorem pairs_queries (b : BTA) (p : Plugin) :
    firstOpt 'p' ((pairs b p).map fun q => (q.1, some q.2)) = some (natStr b.port) ∧
    firstOpt 'l' ((pairs b p).map fun q => (q.1, some q.2)) =
      (if p.str .auth_username = [] then none else some (p.str .auth_username)) ∧
    firstOpt 'i' ((pairs b p).map fun q => (q.1, some q.2)) =
      (if p.str .auth_private_key = [] then none else some (p.str .auth_private_key)) ∧
    lastOpt 'F' ((pairs b p).map fun q => (q.1, some q.2)) =
      (if p.str .ssh_config_file = [] then some devNull
       else if p.str .ssh_config_file = magicCfg then none else some (p.str .ssh_config_file)) := by
  have hm1 : magicCfg ≠ [] := by decide
  have hm2 : magicKh ≠ [] := by decide
  unfold pairs
  by_cases h1 : p.str .auth_private_key = [] <;> by_cases h2 : p.str .auth_username = [] <;>
    cases h3 : p.bool .auth_strict_key <;>
    by_cases h4 : p.str .ssh_known_hosts_file = magicKh <;> by_cases h5 : p.str .ssh_known_hosts_file = [] <;>
    by_cases h6 : p.str .ssh_config_file = [] <;> by_cases h7 : p.str .ssh_config_file = magicCfg <;>
    simp_all [firstOpt, lastOpt]

theorem pairs_eq_specOpts (d : Drv) (b : BTA) (p : Plugin)
    (hu : p.str .auth_username = d.user) (hk : p.str .auth_private_key = d.key)
    (hs : p.bool .auth_strict_key = d.strict) (hc : p.str .ssh_config_file = d.cfgFile)
    (hh : p.str .ssh_known_hosts_file = d.khFile) :
    (pairs b p).map (fun q => (q.1, some q.2)) = specOpts d b.port b.tSocket b.tTransport := by
  have hm1 : magicCfg ≠ [] := by decide
  have hm2 : magicKh ≠ [] := by decide
  unfold pairs specOpts
  rw [hu, hk, hs, hc, hh]
  by_cases h1 : d.key = [] <;> by_cases h2 : d.user = [] <;> cases h3 : d.strict <;>
    by_cases h4 : d.khFile = magicKh <;> by_cases h5 : d.khFile = [] <;>
    by_cases h6 : d.cfgFile = [] <;> by_cases h7 : d.cfgFile = magicCfg <;> simp_all

/-- the system transport's plugin arguments read back as the driver attributes -/
theorem plugin_system (d : Drv) :
    let p : Plugin := (pluginFieldsOf .system).map fun f => (f, d.getattr f)
    p.str .auth_username = d.user ∧ p.str .auth_private_key = d.key ∧ p.bool .auth_strict_key = d.strict ∧
    p.str .ssh_config_file = d.cfgFile ∧ p.str .ssh_known_hosts_file = d.khFile := by
  intro p
  have hm : ∀ f, f ∈ [Field.auth_username, .auth_private_key, .auth_strict_key, .ssh_config_file, .ssh_known_hosts_file] →
      f ∈ pluginFieldsOf .system := by rw [pluginFieldsOf_system]; exact fun _ h => h
  exact ⟨plugin_str_of_mem d _ _ (hm _ (by simp)) _ rfl, plugin_str_of_mem d _ _ (hm _ (by simp)) _ rfl,
    plugin_bool_of_mem d _ _ (hm _ (by simp)) _ rfl, plugin_str_of_mem d _ _ (hm _ (by simp)) _ rfl,
    plugin_str_of_mem d _ _ (hm _ (by simp)) _ rfl⟩

theorem effective_nonsys (t : Transport) (r : Resolved) (v : SshConfigView) (h : isSystem t = false) :
    effective t r v = .ok { host := r.bta.host, port := natStr r.bta.port,
                            user := r.plugin.str .auth_username, key := r.plugin.str .auth_private_key } := by
  simp [effective, h]

theorem ok_of_toOption {ε α : Type} (x : Except ε α) (r : α) (h : x.toOption = some r) : x = .ok r := by
  cases x <;> simp [Except.toOption] at h
  subst h; rfl

theorem resolveFile_isFile {v : SshConfigView} {f key : Str} (h : resolveFile v f = .ok key) :
    v.isFile key = true := by
  unfold resolveFile at h
  by_cases h1 : v.isFile f = true
  · simp [h1] at h; subst h; exact h1
  · by_cases h2 : v.isFile (expandUser v.home f) = true
    · simp [h1, h2] at h; subst h; exact h2
    · simp [h1, h2] at h

/-- the resolved key: empty iff none was given, else the existing file `resolve_file` names -/
theorem key_spec {v : SshConfigView} {a : Args} {key : Str} (hwf : v.WF)
    (hkey : if a.key = [] then key = [] else resolveFile v a.key = .ok key) :
    (a.key = [] → key = []) ∧
    (a.key ≠ [] → key ≠ [] ∧ key = (if v.isFile a.key then a.key else expandUser v.home a.key)) := by
  constructor
  · intro h; simpa [h] using hkey
  · intro h
    simp only [h, if_false] at hkey
    have h1 := resolveFile_ok hkey
    have h2 := resolveFile_isFile hkey
    refine ⟨?_, h1⟩
    intro he
    subst he
    rw [hwf.1] at h2
    cases h2

/-! ## precedence, per kind of transport -/

theorem precedence_telnet (fx : Fixes) (a : Args) (v : SshConfigView) (key : Str)
    (ht : isTelnet a.transport = true) (hc : consultsCfg a.transport = false) (hs : isSystem a.transport = false) :
    PrecedenceHolds a v (construct fx a v (strip a.host) key) := by
  obtain ⟨-, -, -, -, -, -, -, -, -, fbport, -, -⟩ := folded_spec fx a v (strip a.host) key
  have hfe : foldedEntry a v = {} := by simp [foldedEntry, hc]
  rw [hfe] at fbport
  refine ⟨_, effective_nonsys _ _ _ hs, ?_, ?_, ?_⟩
  · dsimp only
    rw [construct_bta, fbport]
    cases hp : a.port <;> simp [HostCfg.portTruthy, specPort, specCfgEntry, specCfgChoice, ht, initialPort, hp, defaultPortTelnet]
  · dsimp only
    rw [construct_plugin, plugin_telnet_empty _ ht]
    simp [Plugin.str, specUser, ht]
  · dsimp only
    rw [construct_plugin, plugin_telnet_empty _ ht]
    simp [Plugin.str, specKey, ht]

theorem precedence_lib (fx : Fixes) (a : Args) (v : SshConfigView) (key : Str) (hwf : v.WF)
    (ht : isTelnet a.transport = false) (hc : consultsCfg a.transport = true) (hs : isSystem a.transport = false)
    (hk : (a.key = [] → key = []) ∧
          (a.key ≠ [] → key ≠ [] ∧ key = (if v.isFile a.key then a.key else expandUser v.home a.key)))
    (hLib : ∀ q, (specCfgEntry a v).portTruthy = some q →
      (a.port = none → fx.cfgPortDialed = false → q = 22) ∧
      (∀ p, a.port = some p → fx.cfgPortDialed = true → fx.explicitPortWins = false → p = q)) :
    PrecedenceHolds a v (construct fx a v (strip a.host) key) := by
  obtain ⟨-, -, -, -, -, -, -, -, -, fbport, fuser, fkey⟩ := folded_spec fx a v (strip a.host) key
  rw [entry_lib a v hwf ht hc hs] at fbport fuser fkey
  obtain ⟨hu, hkf⟩ := plugin_has_user_key a.transport ht
  refine ⟨_, effective_nonsys _ _ _ hs, ?_, ?_, ?_⟩
  · dsimp only
    rw [construct_bta, fbport]
    congr 1
    unfold specPort
    cases hq : (specCfgEntry a v).portTruthy with
    | none => cases hp : a.port <;> simp [initialPort, hp, ht, defaultPortSsh]
    | some q =>
      obtain ⟨l1, l2⟩ := hLib q hq
      cases hp : a.port with
      | none =>
        cases hd : fx.cfgPortDialed
        · simp [initialPort, hp, ht, defaultPortSsh, l1 hp hd]
        · simp
      | some p =>
        cases he : fx.explicitPortWins <;> cases hd : fx.cfgPortDialed <;> simp [initialPort, hp]
        exact (l2 p hp hd he).symm
  · dsimp only
    rw [construct_plugin, plugin_str_of_mem _ _ _ hu _ rfl, fuser]
    unfold specUser
    by_cases h1 : a.user = [] <;> by_cases h2 : (specCfgEntry a v).user = [] <;> simp [h1, h2, ht]
  · dsimp only
    rw [construct_plugin, plugin_str_of_mem _ _ _ hkf _ rfl, fkey]
    unfold specKey
    by_cases h1 : a.key = []
    · have := hk.1 h1
      by_cases h2 : (specCfgEntry a v).identityFile = [] <;> simp [h1, h2, ht, this]
    · obtain ⟨h3, h4⟩ := hk.2 h1
      simp [h1, h3, ht, ← h4]

theorem precedence_sys (fx : Fixes) (a : Args) (v : SshConfigView) (key : Str) (hwf : v.WF) (hx : a.extra = [])
    (ht : isTelnet a.transport = false) (hc : consultsCfg a.transport = false) (hs : isSystem a.transport = true)
    (hnd : (strip a.host).head? ≠ some '-')
    (hdp : destPlain (construct fx a v (strip a.host) key).bta.host = true)
    (hk : (a.key = [] → key = []) ∧
          (a.key ≠ [] → key ≠ [] ∧ key = (if v.isFile a.key then a.key else expandUser v.home a.key)))
    (hSys : a.port = none → ∀ q, (specCfgEntry a v).portTruthy = some q → q = 22) :
    PrecedenceHolds a v (construct fx a v (strip a.host) key) := by
  obtain ⟨-, fbh, fcfg, -, -, -, -, fex, -, fbport, fuser, fkey⟩ := folded_spec fx a v (strip a.host) key
  have hpd := parseDest_plain _ (by rw [construct_bta] at hdp; exact hdp)
  have hfe : foldedEntry a v = {} := by simp [foldedEntry, hc]
  rw [hfe] at fbport fuser fkey
  simp [HostCfg.portTruthy] at fbport fuser fkey
  have hd : (folded fx a v (strip a.host) key).2.host.head? ≠ some '-' := by
    rw [fbh]
    split
    · exact hnd
    · intro hh; exact hnd (strip_head_dash _ hh)
  have htr := isSystem_eq _ hs
  have hpl : (construct fx a v (strip a.host) key).plugin =
      (pluginFieldsOf .system).map fun f => (f, (folded fx a v (strip a.host) key).1.getattr f) := by
    rw [construct_plugin, htr]
  have hp := plugin_system (folded fx a v (strip a.host) key).1
  simp only [] at hp
  rw [← hpl] at hp
  obtain ⟨p1, p2, -, p4, -⟩ := hp
  obtain ⟨q1, q2, q3, q4⟩ := pairs_queries (folded fx a v (strip a.host) key).2 (construct fx a v (strip a.host) key).plugin
  rw [p1, fuser] at q2
  rw [p2, fkey] at q3
  rw [p4, fcfg] at q4
  have hparse : parseSshArgv (construct fx a v (strip a.host) key).argv =
      .ok { opts := (pairs (folded fx a v (strip a.host) key).2 (construct fx a v (strip a.host) key).plugin).map
                      (fun q => (q.1, some q.2)),
            dest := (folded fx a v (strip a.host) key).2.host, command := [] } := by
    rw [construct_argv, hs, if_pos rfl, parse_buildOpenCmd _ _ hd, fex, hx]
    simp [getopts]
  have hent := entry_sys a v hwf ht hs
  refine ⟨_, by rw [effective, hs, if_pos rfl, hparse], ?_, ?_, ?_⟩
  · simp only [sshEffective, hpd, q1]
    congr 1
    rw [fbport]
    unfold specPort
    cases hp : a.port with
    | some p => simp [initialPort, hp]
    | none =>
      cases hq : (specCfgEntry a v).portTruthy with
      | none => simp [initialPort, hp, ht, defaultPortSsh]
      | some q => simp [initialPort, hp, ht, defaultPortSsh, hSys hp q hq]
  · simp only [sshEffective, hpd, q2, q4, hent]
    unfold specUser
    by_cases h1 : a.user = [] <;> simp [h1, ht]
  · simp only [sshEffective, hpd, q3, q4, hent]
    unfold specKey
    by_cases h1 : a.key = []
    · simp [h1, ht, hk.1 h1]
    · obtain ⟨h3, h4⟩ := hk.2 h1
      simp [h1, h3, ht, ← h4]

/-! ## a word starting with `-` is never the destination -/

theorem cons_ok {os : List Opt} {x : Except ParseErr GetoptResult} {g : GetoptResult}
    (h : GetoptResult.cons os x = .ok g) : ∃ g', x = .ok g' ∧ g.rest = g'.rest := by
  cases x with
  | error e => simp [GetoptResult.cons] at h
  | ok g' =>
    simp [GetoptResult.cons] at h
    exact ⟨g', rfl, by rw [← h]⟩

theorem getopts_rest_suffix : ∀ (ws : List Str) (pend : Option Char) (g : GetoptResult),
    getopts pend ws = .ok g → g.rest <:+ ws := by
  intro ws
  induction ws with
  | nil =>
    intro pend g h
    cases pend with
    | some c => simp [getopts] at h
    | none => simp [getopts] at h; subst h; exact List.suffix_refl _
  | cons w ws ih =>
    intro pend g h
    cases pend with
    | some c =>
      simp only [getopts] at h
      obtain ⟨g', hg', hr⟩ := cons_ok h
      rw [hr]
      exact (ih none g' hg').trans (List.suffix_cons w ws)
    | none =>
      simp only [getopts] at h
      split at h
      · simp at h; subst h; exact List.suffix_refl _
      · simp at h; subst h; exact List.suffix_cons w ws
      · obtain ⟨g', hg', hr⟩ := cons_ok h
        rw [hr]
        exact (ih none g' hg').trans (List.suffix_cons w ws)
      · obtain ⟨g', hg', hr⟩ := cons_ok h
        rw [hr]
        exact (ih _ g' hg').trans (List.suffix_cons w ws)
      · simp at h

theorem getopts_dash_rest (c : Char) (cs : Str) (rest : List Str) (g : GetoptResult)
    (h : getopts none (('-' :: c :: cs) :: rest) = .ok g) : g.rest <:+ rest := by
  by_cases hb : (c == '-' && cs.isEmpty) = true
  · simp [getopts, classify, hb] at h
    subst h
    exact List.suffix_refl _
  · cases hsc : scanCluster (c :: cs) with
    | done fl =>
      simp [getopts, classify, hb, hsc] at h
      obtain ⟨g', hg', hr⟩ := cons_ok h
      rw [hr]
      exact getopts_rest_suffix _ _ _ hg'
    | pending fl x =>
      simp [getopts, classify, hb, hsc] at h
      obtain ⟨g', hg', hr⟩ := cons_ok h
      rw [hr]
      exact getopts_rest_suffix _ _ _ hg'
    | bad => simp [getopts, classify, hb, hsc] at h

theorem dest_mem_of_dash (prog : Str) (c : Char) (cs : Str) (rest : List Str) (p : SshParse)
    (h : parseSshArgv (prog :: ('-' :: c :: cs) :: rest) = .ok p) : p.dest ∈ rest := by
  simp only [parseSshArgv] at h
  cases hg : getopts none (('-' :: c :: cs) :: rest) with
  | error e => simp [hg] at h
  | ok g1 =>
    have hsuf := getopts_dash_rest c cs rest g1 hg
    rw [hg] at h
    simp only [] at h
    cases hr : g1.rest with
    | nil => simp [hr] at h
    | cons dest more =>
      have hmem : dest ∈ rest := hsuf.subset (by rw [hr]; simp)
      simp only [hr] at h
      by_cases hterm : g1.terminated = true
      · simp [hterm] at h
        subst h
        exact hmem
      · simp [hterm] at h
        cases hg2 : getopts none more with
        | error e => simp [hg2] at h
        | ok g2 =>
          simp [hg2] at h
          subst h
          exact hmem

/-! ## several drivers in one process -/

/-- every entry object in the process-wide cache still says what its file says -/
def Cache.Consistent (W : Str → Str → HostCfg) (c : Cache) : Prop :=
  ∀ p h e, c.get p h = some e → e = W p h

/-- the view a construction is given is the world `W` (file ↦ host ↦ entry) seen for that driver's host -/
def Coherent (W : Str → Str → HostCfg) (a : Args) (v : SshConfigView) : Prop :=
  ∀ p, v.lookup p = W p (strip a.host)

theorem cachedView_eq (W : Str → Str → HostCfg) (c : Cache) (a : Args) (v : SshConfigView)
    (hc : c.Consistent W) (hv : Coherent W a v) : cachedView c (strip a.host) v = v := by
  have hf : cachedLookup c (strip a.host) v = v.lookup := by
    funext p
    unfold cachedLookup
    cases hg : c.get p (strip a.host) with
    | none => rfl
    | some e => simp only []; rw [hc p _ e hg, hv p]
  cases v
  simp only [cachedView, hf]

theorem step_result (fx : Fixes) (W : Str → Str → HostCfg) (c : Cache) (a : Args) (v : SshConfigView)
    (hc : c.Consistent W) (hv : Coherent W a v) : (step fx c a v).2 = resolve fx a v := by
  simp only [step, cachedView_eq W c a v hc hv]

theorem step_consistent (fx : Fixes) (W : Str → Str → HostCfg) (c : Cache) (a : Args) (v : SshConfigView)
    (hc : c.Consistent W) (hv : Coherent W a v) : (step fx c a v).1.Consistent W := by
  simp only [step, cachedView_eq W c a v hc hv]
  cases hr : resolve fx a v with
  | error e => exact hc
  | ok res =>
    simp only []
    split
    · intro p h e hget
      unfold Cache.get at hget
      rw [List.find?_cons] at hget
      by_cases hk : ((res.reported.cfgFile, strip a.host) == (p, h)) = true
      · simp only [hk] at hget
        simp at hget
        simp at hk
        obtain ⟨rfl, rfl⟩ := hk
        rw [← hget, hv]
      · simp only [hk] at hget
        exact hc p h e (by unfold Cache.get; exact hget)
    · exact hc

/-- a model of the "simplification" that writes a driver's explicit port into the entry object it was handed
    (which lives in the cache): used only to show that history independence is not a triviality -/
def leakyStep (fx : Fixes) (c : Cache) (a : Args) (v : SshConfigView) : Cache × Except Err Resolved :=
  let r := resolve fx a (cachedView c (strip a.host) v)
  let c' := match r with
    | .ok res =>
      let e0 := cachedLookup c (strip a.host) v res.reported.cfgFile
      ((res.reported.cfgFile, strip a.host), if a.port.isSome then { e0 with port := a.port } else e0) :: c
    | .error _ => c
  (c', r)

def runLeaky (fx : Fixes) : Cache → List (Args × SshConfigView) → List (Except Err Resolved)
  | _, [] => []
  | c, (a, v) :: rest => (leakyStep fx c a v).2 :: runLeaky fx (leakyStep fx c a v).1 rest

def Resolved.dummy : Resolved := ⟨⟨[], 0, [], [], [], [], true, [], []⟩, ⟨[], 0, 0, 0, []⟩, [], []⟩

end Scrapli.Resolve
