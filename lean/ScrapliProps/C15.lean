import ScrapliProps.C15Lemmas
/-
  C15 — Telnet option negotiation is invisible and independent of TCP segmentation.
  Property theorems only (helper lemmas: C15Lemmas.lean).  Quantifiers: every item list with at
  most `limit` commands (any verb, any option byte, any data bytes ≠ IAC including NUL),
  EVERY segmentation `tape` of its rendering into recv() results (empty chunks allowed).
-/
namespace Scrapli.Telnet
open Scrapli Scrapli.Gen.Telnet

/-- what the translator read from the source is what the theorems below are about: the sync transport
    counts completed commands, the asyncio one does not, and both stay in negotiation mode while
    `counter < limit` (the comparison the model's `recvStep` uses) -/
theorem source_is_modelled : syncCounts = true ∧ asyncCounts = false ∧
    syncLimitCmp = "Lt" ∧ asyncLimitCmp = "Lt" := by decide

/-- both transports' reply chains, as read from the source, are the same table -/
theorem reply_tables_agree : syncReplyTable = asyncReplyTable := by decide

theorem passOK_sync (items : List Item) (hwf : ∀ i ∈ items, i.wf = true)
    (hN : nCmds items ≤ syncLimit) : PassOK true syncLimit {} (render items) := by
  intro pre suf hsplit hle
  have htot := feed_render true items {} rfl hwf
  rw [hsplit, feed_append] at htot
  have hmono := feed_counter_mono true suf (feed true {} pre)
  have hcnt : (feed true (feed true {} pre) suf).counter = nCmds items := by rw [htot]; simp
  have hctrl : (feed true (feed true {} pre) suf).ctrl = [] := by rw [htot]
  exact feed_quiet suf _ hctrl (by omega)

theorem passOK_async (bs : Bytes) : PassOK false asyncLimit {} bs := by
  intro pre suf _ hle
  rw [feed_false_counter] at hle
  simp [asyncLimit] at hle

/-- **C15, sync transport**: for every well-formed item list with at most `limit` negotiation
    commands and every segmentation of its byte rendering into `recv()` results, the concatenated
    `read()` results are exactly the application data (NUL dropped) and the bytes written are exactly
    the specified replies, in order. -/
theorem telnet_full_sync (items : List Item) (hwf : ∀ i ∈ items, i.wf = true)
    (hN : nCmds items ≤ syncLimit) (tape : List Bytes) (hcs : tape.flatten = render items) :
    runSync tape = (specData items, specReplies items) := by
  unfold runSync run
  rw [source_is_modelled.1]
  have hp : PassOK true syncLimit {} tape.flatten := hcs ▸ passOK_sync items hwf hN
  obtain ⟨_, h2, _, h4⟩ := pump_fold true syncLimit tape {} [] rfl hp
  show ((tape.foldl (pump true syncLimit) ({}, [])).2, (tape.foldl (pump true syncLimit) ({}, [])).1.writes) = _
  rw [h2, h4, hcs, feed_render true items {} rfl hwf]
  simp [specData, stripNul]

/-- **C15, asyncio transport**: same statement (no bound on the number of commands is needed,
    this transport never leaves negotiation mode). -/
theorem telnet_full_async (items : List Item) (hwf : ∀ i ∈ items, i.wf = true)
    (tape : List Bytes) (hcs : tape.flatten = render items) :
    runAsync tape = (specData items, specReplies items) := by
  unfold runAsync run
  rw [source_is_modelled.2.1]
  have hp : PassOK false asyncLimit {} tape.flatten := passOK_async _
  obtain ⟨_, h2, _, h4⟩ := pump_fold false asyncLimit tape {} [] rfl hp
  show ((tape.foldl (pump false asyncLimit) ({}, [])).2, (tape.foldl (pump false asyncLimit) ({}, [])).1.writes) = _
  rw [h2, h4, hcs, feed_render false items {} rfl hwf]
  simp [specData, stripNul]

/-- **C15, `read()` by `read()`**: a client that keeps calling `read()` (each call looping over recv
    results until something is cooked or EOF was read) receives, all results concatenated, exactly
    the application data — for every segmentation whose only empty recv result (EOF) is the last. -/
theorem telnet_reads_sync (items : List Item) (hwf : ∀ i ∈ items, i.wf = true)
    (hN : nCmds items ≤ syncLimit) (tape : List Bytes) (hcs : tape.flatten = render items)
    (hne : ∀ c ∈ tape.dropLast, c ≠ []) :
    (reads syncCounts syncLimit {} tape).flatten = specData items := by
  have h := telnet_full_sync items hwf hN tape hcs
  have hr := reads_flatten syncCounts syncLimit tape {} [] hne
  unfold runSync run at h
  simp only [Prod.mk.injEq] at h
  rw [← h.1, hr]; simp

theorem telnet_reads_async (items : List Item) (hwf : ∀ i ∈ items, i.wf = true)
    (tape : List Bytes) (hcs : tape.flatten = render items) (hne : ∀ c ∈ tape.dropLast, c ≠ []) :
    (reads asyncCounts asyncLimit {} tape).flatten = specData items := by
  have h := telnet_full_async items hwf tape hcs
  have hr := reads_flatten asyncCounts asyncLimit tape {} [] hne
  unfold runAsync run at h
  simp only [Prod.mk.injEq] at h
  rw [← h.1, hr]; simp

/-- **C15, segmentation independence**: any two segmentations of the same stream give the same
    data and the same replies. -/
theorem telnet_chunking_independent (items : List Item) (hwf : ∀ i ∈ items, i.wf = true)
    (hN : nCmds items ≤ syncLimit) (t1 t2 : List Bytes)
    (h1 : t1.flatten = render items) (h2 : t2.flatten = render items) :
    runSync t1 = runSync t2 ∧ runAsync t1 = runAsync t2 := by
  rw [telnet_full_sync items hwf hN t1 h1, telnet_full_sync items hwf hN t2 h2,
      telnet_full_async items hwf t1 h1, telnet_full_async items hwf t2 h2]
  exact ⟨rfl, rfl⟩

/-- **C15, sync = asyncio** on every input of the quantifier, even under different segmentations. -/
theorem telnet_sync_eq_async (items : List Item) (hwf : ∀ i ∈ items, i.wf = true)
    (hN : nCmds items ≤ syncLimit) (t1 t2 : List Bytes)
    (h1 : t1.flatten = render items) (h2 : t2.flatten = render items) :
    runSync t1 = runAsync t2 := by
  rw [telnet_full_sync items hwf hN t1 h1, telnet_full_async items hwf t2 h2]

/-- the reply table of the specification is the table the property states -/
theorem specReply_table (o : UInt8) :
    specReply DO SUPPRESS_GO_AHEAD = [IAC, WILL, SUPPRESS_GO_AHEAD] ∧
    (o ≠ SUPPRESS_GO_AHEAD → specReply DO o = [IAC, WONT, o]) ∧
    specReply DONT o = [IAC, WONT, o] ∧ specReply WILL o = [IAC, DO, o] ∧
    specReply WONT o = [IAC, DONT, o] := by
  refine ⟨by simp [specReply], ?_, ?_, ?_, ?_⟩
  · intro h; simp [specReply, h]
  · simp [specReply, DO, DONT]
  · simp [specReply, DO, DONT, WILL]
  · simp [specReply, DO, DONT, WILL, WONT]

/-- the constants regenerated from the source are the protocol's (RFC 854 / 858) -/
theorem consts_are_rfc : IAC = 255 ∧ DONT = 254 ∧ DO = 253 ∧ WONT = 252 ∧ WILL = 251 ∧ NULL = 0 ∧
    SUPPRESS_GO_AHEAD = 3 := by decide

/-- the generated limit is the one the property speaks about ("up to ten negotiation commands") -/
theorem limit_is_ten : syncLimit = 10 ∧ asyncLimit = 10 := by decide

/-- **the bound is sharp** — why `hN` is a hypothesis: eleven commands followed by data, read as one
    chunk per command vs as a single chunk.  The sync transport leaves negotiation mode once it has
    answered `limit` commands, so behind the limit what it delivers depends on the segmentation and
    differs from the asyncio transport (which never leaves it).  Outside the property's quantifier
    ("up to ten negotiation commands"); the check replays these tapes on the real transports and
    requires the model to say what the code does. -/
def elevenSplit : List Bytes := List.replicate 10 [255, 253, 1] ++ [[255, 253, 1, 97]]
def elevenWhole : List Bytes := [elevenSplit.flatten]

theorem limit_is_sharp :
    elevenSplit.flatten = elevenWhole.flatten ∧ runSync elevenSplit ≠ runSync elevenWhole ∧
    runSync elevenSplit ≠ runAsync elevenSplit ∧ runAsync elevenSplit = runAsync elevenWhole := by decide

/-! Non-vacuity: a concrete stream inside the quantifier, cut inside commands, with a NUL, the
    special-cased option 3, option byte 255 and exactly `limit` commands. -/
def exItems : List Item :=
  [.cmd DO 24, .data 0, .cmd WILL 1, .data 108, .cmd DO 3, .cmd DONT 255, .cmd WONT 0,
   .cmd DO 1, .cmd DO 2, .cmd DO 4, .cmd DO 5, .cmd WILL 255, .data 111, .data 0, .data 103]

example : (∀ i ∈ exItems, i.wf = true) ∧ nCmds exItems ≤ syncLimit ∧
    ([[255], [253, 24, 0, 255], [251], [1, 108, 255, 253, 3, 255, 254, 255, 255, 252], [0, 255, 253, 1,
      255, 253, 2, 255, 253, 4, 255, 253, 5, 255, 251, 255, 111], [], [0, 103]] : List Bytes).flatten
      = render exItems := by decide

end Scrapli.Telnet
