import ScrapliProps.C05Lemmas
import ScrapliModel.Bytes
import ScrapliModel.Spec.SessionNames
import ScrapliModel.C05Suite_eosP
import ScrapliProps.C05.eosS_configuration_det
import ScrapliProps.C05.eosS_configuration_for
import ScrapliProps.C05.eosS_configuration_own
import ScrapliProps.C05.eosS_exec_det
import ScrapliProps.C05.eosS_exec_for
import ScrapliProps.C05.eosS_exec_own
import ScrapliProps.C05.eosS_privilege_exec_det
import ScrapliProps.C05.eosS_privilege_exec_for
import ScrapliProps.C05.eosS_privilege_exec_own
import ScrapliProps.C05.eosS_session3_det
import ScrapliProps.C05.eosS_session3_for
import ScrapliProps.C05.eosS_session3_own
import ScrapliProps.C05.eosS_session4_det
import ScrapliProps.C05.eosS_session4_for
import ScrapliProps.C05.eosS_session4_own
import ScrapliProps.C05.eos_configuration_det
import ScrapliProps.C05.eos_configuration_for
import ScrapliProps.C05.eos_configuration_own
import ScrapliProps.C05.eos_exec_det
import ScrapliProps.C05.eos_exec_for
import ScrapliProps.C05.eos_exec_own
import ScrapliProps.C05.eos_privilege_exec_det
import ScrapliProps.C05.eos_privilege_exec_for
import ScrapliProps.C05.eos_privilege_exec_own
import ScrapliProps.C05.iosxe_configuration_det
import ScrapliProps.C05.iosxe_configuration_for
import ScrapliProps.C05.iosxe_configuration_own
import ScrapliProps.C05.iosxe_exec_det
import ScrapliProps.C05.iosxe_exec_for
import ScrapliProps.C05.iosxe_exec_own
import ScrapliProps.C05.iosxe_privilege_exec_det
import ScrapliProps.C05.iosxe_privilege_exec_for
import ScrapliProps.C05.iosxe_privilege_exec_own
import ScrapliProps.C05.iosxe_tclsh_det
import ScrapliProps.C05.iosxe_tclsh_for
import ScrapliProps.C05.iosxe_tclsh_own
import ScrapliProps.C05.iosxr_configuration_det
import ScrapliProps.C05.iosxr_configuration_for
import ScrapliProps.C05.iosxr_configuration_own
import ScrapliProps.C05.iosxr_privilege_exec_det
import ScrapliProps.C05.iosxr_privilege_exec_for
import ScrapliProps.C05.iosxr_privilege_exec_own
import ScrapliProps.C05.junos_configuration_det
import ScrapliProps.C05.junos_configuration_for
import ScrapliProps.C05.junos_configuration_own
import ScrapliProps.C05.junos_exec_det
import ScrapliProps.C05.junos_exec_for
import ScrapliProps.C05.junos_exec_own
import ScrapliProps.C05.junos_root_shell_det
import ScrapliProps.C05.junos_root_shell_for
import ScrapliProps.C05.junos_root_shell_own
import ScrapliProps.C05.junos_shell_det
import ScrapliProps.C05.junos_shell_for
import ScrapliProps.C05.junos_shell_own
import ScrapliProps.C05.nxosS_configuration_det
import ScrapliProps.C05.nxosS_configuration_for
import ScrapliProps.C05.nxosS_configuration_own
import ScrapliProps.C05.nxosS_exec_det
import ScrapliProps.C05.nxosS_exec_for
import ScrapliProps.C05.nxosS_exec_own
import ScrapliProps.C05.nxosS_privilege_exec_det
import ScrapliProps.C05.nxosS_privilege_exec_for
import ScrapliProps.C05.nxosS_privilege_exec_own
import ScrapliProps.C05.nxosS_session_det
import ScrapliProps.C05.nxosS_session_for
import ScrapliProps.C05.nxosS_session_own
import ScrapliProps.C05.nxosS_tclsh_det
import ScrapliProps.C05.nxosS_tclsh_for
import ScrapliProps.C05.nxosS_tclsh_own
import ScrapliProps.C05.nxos_configuration_det
import ScrapliProps.C05.nxos_configuration_for
import ScrapliProps.C05.nxos_configuration_own
import ScrapliProps.C05.nxos_exec_det
import ScrapliProps.C05.nxos_exec_for
import ScrapliProps.C05.nxos_exec_own
import ScrapliProps.C05.nxos_privilege_exec_det
import ScrapliProps.C05.nxos_privilege_exec_for
import ScrapliProps.C05.nxos_privilege_exec_own
import ScrapliProps.C05.nxos_tclsh_det
import ScrapliProps.C05.nxos_tclsh_for
import ScrapliProps.C05.nxos_tclsh_own
/-
  C05 — every device prompt maps to exactly one privilege level.  Property theorems only.

  For every core platform (tables GENERATED from constructed real drivers, `Gen/C05Tables.lean`) and
  every device mode of the hand-written specification `Spec/PromptGrammar.lean`:
      ModeOK table mode  :=  ∀ prompt ∈ Lang mode.grammar,
          the channel's joined pattern finds it   ∧   `_determine_current_priv` returns exactly the
          mode's share group (in table order)
  decided on the WHOLE regular language: three emptiness certificates per mode (modules
  `ScrapliProps/C05/<suite>_<mode>_{det,own,for}.lean`, each re-checked by the kernel with
  `decide +kernel` on `checkCertFor`), combined by `modeOK_of_empty` (C05Lemmas.lean).
  `…S` suites: the same driver after `register_configuration_session` — every mode again (the joined
  pattern and the set of foreign levels have changed) plus the session modes.
  Where the code does NOT satisfy the statement for the grammar as the property states it, the `ModeOK`
  theorem here holds for the grammar restricted by the finding's predicate (F12, F24, F25, F26) and the
  GENERATED file `ScrapliProps/C05Full.lean` states the verdict for the unrestricted grammar on the current
  tree: `…_full_refuted : ¬ ModeOK …` from a machine-checked witness prompt while the defect exists,
  `…_full : ModeOK …` from three certificates once it is repaired.
-/
set_option maxRecDepth 100000
namespace Scrapli.C05
open Scrapli Scrapli.Regex Scrapli.PromptClass


/-! ### Cisco IOS-XE -/

/-- iosxe, mode `exec` -/
theorem iosxe_exec : ModeOK iosxe.table (nthMode iosxe.modes 0) :=
  modeOK_of_empty _ _ Ob.iosxe_exec_det.empty Ob.iosxe_exec_own.empty Ob.iosxe_exec_for.empty
example : rmatch (nthMode iosxe.modes 0).grammar (ofString "rtr1>") = true := by decide +kernel

/-- iosxe, mode `privilege_exec` -/
theorem iosxe_privilege_exec : ModeOK iosxe.table (nthMode iosxe.modes 1) :=
  modeOK_of_empty _ _ Ob.iosxe_privilege_exec_det.empty Ob.iosxe_privilege_exec_own.empty Ob.iosxe_privilege_exec_for.empty
example : rmatch (nthMode iosxe.modes 1).grammar (ofString "rtr1#") = true := by decide +kernel

/-- iosxe, mode `configuration` -/
theorem iosxe_configuration : ModeOK iosxe.table (nthMode iosxe.modes 2) :=
  modeOK_of_empty _ _ Ob.iosxe_configuration_det.empty Ob.iosxe_configuration_own.empty Ob.iosxe_configuration_for.empty
example : rmatch (nthMode iosxe.modes 2).grammar (ofString "rtr1(config-if)#") = true := by decide +kernel

/-- iosxe, mode `tclsh` -/
theorem iosxe_tclsh : ModeOK iosxe.table (nthMode iosxe.modes 3) :=
  modeOK_of_empty _ _ Ob.iosxe_tclsh_det.empty Ob.iosxe_tclsh_own.empty Ob.iosxe_tclsh_for.empty
example : rmatch (nthMode iosxe.modes 3).grammar (ofString "rtr1(tcl)#") = true := by decide +kernel

theorem iosxe_nmodes : iosxe.modes.length = 4 := by decide +kernel
/-- the share groups named by the specification exist in the generated table (no vacuous inclusion) -/
theorem iosxe_groups_present : iosxe.modes.all (groupPresent iosxe.table) = true := by decide +kernel
/-- `update_regenerates`: the pattern the channel holds is (modulo ACI of `|`) the alternation of this table -/
theorem iosxe_detect_is_join : ∀ w, detects iosxe.table w = true ↔ ∃ l ∈ iosxe.table.levels, Lang l.search w :=
  detect_join _ (by decide +kernel)
/-- **C05 for iosxe**: every mode of the specification -/
theorem iosxe_all : ∀ m ∈ iosxe.modes, ModeOK iosxe.table m := by
  apply forall_modes
  intro i hi
  rw [iosxe_nmodes] at hi
  match i, hi with
  | 0, _ => exact iosxe_exec
  | 1, _ => exact iosxe_privilege_exec
  | 2, _ => exact iosxe_configuration
  | 3, _ => exact iosxe_tclsh
  | k + 4, h => omega


/-! ### Cisco IOS-XR -/

/-- iosxr, mode `privilege_exec` -/
theorem iosxr_privilege_exec : ModeOK iosxr.table (nthMode iosxr.modes 0) :=
  modeOK_of_empty _ _ Ob.iosxr_privilege_exec_det.empty Ob.iosxr_privilege_exec_own.empty Ob.iosxr_privilege_exec_for.empty
example : rmatch (nthMode iosxr.modes 0).grammar (ofString "RP/0/RP0/CPU0:xr1#") = true := by decide +kernel

/-- iosxr, mode `configuration` -/
theorem iosxr_configuration : ModeOK iosxr.table (nthMode iosxr.modes 1) :=
  modeOK_of_empty _ _ Ob.iosxr_configuration_det.empty Ob.iosxr_configuration_own.empty Ob.iosxr_configuration_for.empty
example : rmatch (nthMode iosxr.modes 1).grammar (ofString "RP/0/RSP0/CPU0:xr1(config-if)#") = true := by decide +kernel

theorem iosxr_nmodes : iosxr.modes.length = 2 := by decide +kernel
/-- the share groups named by the specification exist in the generated table (no vacuous inclusion) -/
theorem iosxr_groups_present : iosxr.modes.all (groupPresent iosxr.table) = true := by decide +kernel
/-- `update_regenerates`: the pattern the channel holds is (modulo ACI of `|`) the alternation of this table -/
theorem iosxr_detect_is_join : ∀ w, detects iosxr.table w = true ↔ ∃ l ∈ iosxr.table.levels, Lang l.search w :=
  detect_join _ (by decide +kernel)
/-- **C05 for iosxr**: every mode of the specification -/
theorem iosxr_all : ∀ m ∈ iosxr.modes, ModeOK iosxr.table m := by
  apply forall_modes
  intro i hi
  rw [iosxr_nmodes] at hi
  match i, hi with
  | 0, _ => exact iosxr_privilege_exec
  | 1, _ => exact iosxr_configuration
  | k + 2, h => omega


/-! ### Cisco NX-OS -/

/-- nxos, mode `exec` -/
theorem nxos_exec : ModeOK nxos.table (nthMode nxos.modes 0) :=
  modeOK_of_empty _ _ Ob.nxos_exec_det.empty Ob.nxos_exec_own.empty Ob.nxos_exec_for.empty
example : rmatch (nthMode nxos.modes 0).grammar (ofString "n9k(maint-mode)> ") = true := by decide +kernel

/-- nxos, mode `privilege_exec` — PARTIAL: grammar restricted (F24 open: hostname without `-tcl`; unrestricted verdict: C05Full.nxosFull_privilege_exec_full_refuted) -/
theorem nxos_privilege_exec_partial : ModeOK nxos.table (nthMode nxos.modes 1) :=
  modeOK_of_empty _ _ Ob.nxos_privilege_exec_det.empty Ob.nxos_privilege_exec_own.empty Ob.nxos_privilege_exec_for.empty
example : rmatch (nthMode nxos.modes 1).grammar (ofString "n9k# ") = true := by decide +kernel

/-- nxos, mode `configuration` — PARTIAL: grammar restricted (F24 open: hostname without `config-`; unrestricted verdict: C05Full.nxosFull_configuration_full_refuted) -/
theorem nxos_configuration_partial : ModeOK nxos.table (nthMode nxos.modes 2) :=
  modeOK_of_empty _ _ Ob.nxos_configuration_det.empty Ob.nxos_configuration_own.empty Ob.nxos_configuration_for.empty
example : rmatch (nthMode nxos.modes 2).grammar (ofString "n9k(config-if)# ") = true := by decide +kernel

/-- nxos, mode `tclsh` -/
theorem nxos_tclsh : ModeOK nxos.table (nthMode nxos.modes 3) :=
  modeOK_of_empty _ _ Ob.nxos_tclsh_det.empty Ob.nxos_tclsh_own.empty Ob.nxos_tclsh_for.empty
example : rmatch (nthMode nxos.modes 3).grammar (ofString "n9k(maint-mode)(config-tcl)# ") = true := by decide +kernel

theorem nxos_nmodes : nxos.modes.length = 4 := by decide +kernel
/-- the share groups named by the specification exist in the generated table (no vacuous inclusion) -/
theorem nxos_groups_present : nxos.modes.all (groupPresent nxos.table) = true := by decide +kernel
/-- `update_regenerates`: the pattern the channel holds is (modulo ACI of `|`) the alternation of this table -/
theorem nxos_detect_is_join : ∀ w, detects nxos.table w = true ↔ ∃ l ∈ nxos.table.levels, Lang l.search w :=
  detect_join _ (by decide +kernel)
/-- **C05 for nxos**: every mode of the specification (modes marked PARTIAL: for the restricted grammar) -/
theorem nxos_all : ∀ m ∈ nxos.modes, ModeOK nxos.table m := by
  apply forall_modes
  intro i hi
  rw [nxos_nmodes] at hi
  match i, hi with
  | 0, _ => exact nxos_exec
  | 1, _ => exact nxos_privilege_exec_partial
  | 2, _ => exact nxos_configuration_partial
  | 3, _ => exact nxos_tclsh
  | k + 4, h => omega


/-! ### Cisco NX-OS after register_configuration_session (two sessions) -/

/-- nxosS, mode `exec` -/
theorem nxosS_exec : ModeOK nxosS.table (nthMode nxosS.modes 0) :=
  modeOK_of_empty _ _ Ob.nxosS_exec_det.empty Ob.nxosS_exec_own.empty Ob.nxosS_exec_for.empty
example : rmatch (nthMode nxosS.modes 0).grammar (ofString "n9k> ") = true := by decide +kernel

/-- nxosS, mode `privilege_exec` — PARTIAL: grammar restricted (F24 open: hostname without `-tcl` (see nxosFull)) -/
theorem nxosS_privilege_exec_partial : ModeOK nxosS.table (nthMode nxosS.modes 1) :=
  modeOK_of_empty _ _ Ob.nxosS_privilege_exec_det.empty Ob.nxosS_privilege_exec_own.empty Ob.nxosS_privilege_exec_for.empty
example : rmatch (nthMode nxosS.modes 1).grammar (ofString "n9k# ") = true := by decide +kernel

/-- nxosS, mode `configuration` — PARTIAL: grammar restricted (F24 open: hostname without `config-`; also sub-mode not starting with `s` (F25, fixed: unrestricted sub-modes PROVED in C05Full.nxosSFull_configuration_full)) -/
theorem nxosS_configuration_partial : ModeOK nxosS.table (nthMode nxosS.modes 2) :=
  modeOK_of_empty _ _ Ob.nxosS_configuration_det.empty Ob.nxosS_configuration_own.empty Ob.nxosS_configuration_for.empty
example : rmatch (nthMode nxosS.modes 2).grammar (ofString "n9k(config-if)# ") = true := by decide +kernel

/-- nxosS, mode `tclsh` -/
theorem nxosS_tclsh : ModeOK nxosS.table (nthMode nxosS.modes 3) :=
  modeOK_of_empty _ _ Ob.nxosS_tclsh_det.empty Ob.nxosS_tclsh_own.empty Ob.nxosS_tclsh_for.empty
example : rmatch (nthMode nxosS.modes 3).grammar (ofString "n9k-tcl# ") = true := by decide +kernel

/-- nxosS, mode `session` -/
theorem nxosS_session : ModeOK nxosS.table (nthMode nxosS.modes 4) :=
  modeOK_of_empty _ _ Ob.nxosS_session_det.empty Ob.nxosS_session_own.empty Ob.nxosS_session_for.empty
example : rmatch (nthMode nxosS.modes 4).grammar (ofString "n9k(config-s-acl)# ") = true := by decide +kernel

theorem nxosS_nmodes : nxosS.modes.length = 5 := by decide +kernel
/-- the share groups named by the specification exist in the generated table (no vacuous inclusion) -/
theorem nxosS_groups_present : nxosS.modes.all (groupPresent nxosS.table) = true := by decide +kernel
/-- `update_regenerates`: the pattern the channel holds is (modulo ACI of `|`) the alternation of this table -/
theorem nxosS_detect_is_join : ∀ w, detects nxosS.table w = true ↔ ∃ l ∈ nxosS.table.levels, Lang l.search w :=
  detect_join _ (by decide +kernel)
/-- **C05 for nxosS**: every mode of the specification (modes marked PARTIAL: for the restricted grammar) -/
theorem nxosS_all : ∀ m ∈ nxosS.modes, ModeOK nxosS.table m := by
  apply forall_modes
  intro i hi
  rw [nxosS_nmodes] at hi
  match i, hi with
  | 0, _ => exact nxosS_exec
  | 1, _ => exact nxosS_privilege_exec_partial
  | 2, _ => exact nxosS_configuration_partial
  | 3, _ => exact nxosS_tclsh
  | 4, _ => exact nxosS_session
  | k + 5, h => omega


/-! ### Arista EOS -/

/-- eos, mode `exec` -/
theorem eos_exec : ModeOK eos.table (nthMode eos.modes 0) :=
  modeOK_of_empty _ _ Ob.eos_exec_det.empty Ob.eos_exec_own.empty Ob.eos_exec_for.empty
example : rmatch (nthMode eos.modes 0).grammar (ofString "leaf1>") = true := by decide +kernel

/-- eos, mode `privilege_exec` -/
theorem eos_privilege_exec : ModeOK eos.table (nthMode eos.modes 1) :=
  modeOK_of_empty _ _ Ob.eos_privilege_exec_det.empty Ob.eos_privilege_exec_own.empty Ob.eos_privilege_exec_for.empty
example : rmatch (nthMode eos.modes 1).grammar (ofString "leaf1#") = true := by decide +kernel

/-- eos, mode `configuration` -/
theorem eos_configuration : ModeOK eos.table (nthMode eos.modes 2) :=
  modeOK_of_empty _ _ Ob.eos_configuration_det.empty Ob.eos_configuration_own.empty Ob.eos_configuration_for.empty
example : rmatch (nthMode eos.modes 2).grammar (ofString "leaf1(config-if-et1)#") = true := by decide +kernel

theorem eos_nmodes : eos.modes.length = 3 := by decide +kernel
/-- the share groups named by the specification exist in the generated table (no vacuous inclusion) -/
theorem eos_groups_present : eos.modes.all (groupPresent eos.table) = true := by decide +kernel
/-- `update_regenerates`: the pattern the channel holds is (modulo ACI of `|`) the alternation of this table -/
theorem eos_detect_is_join : ∀ w, detects eos.table w = true ↔ ∃ l ∈ eos.table.levels, Lang l.search w :=
  detect_join _ (by decide +kernel)
/-- **C05 for eos**: every mode of the specification -/
theorem eos_all : ∀ m ∈ eos.modes, ModeOK eos.table m := by
  apply forall_modes
  intro i hi
  rw [eos_nmodes] at hi
  match i, hi with
  | 0, _ => exact eos_exec
  | 1, _ => exact eos_privilege_exec
  | 2, _ => exact eos_configuration
  | k + 3, h => omega


/-! ### Arista EOS after register_configuration_session (three sessions, two sharing their first six characters) -/

/-- eosS, mode `exec` -/
theorem eosS_exec : ModeOK eosS.table (nthMode eosS.modes 0) :=
  modeOK_of_empty _ _ Ob.eosS_exec_det.empty Ob.eosS_exec_own.empty Ob.eosS_exec_for.empty
example : rmatch (nthMode eosS.modes 0).grammar (ofString "leaf1>") = true := by decide +kernel

/-- eosS, mode `privilege_exec` -/
theorem eosS_privilege_exec : ModeOK eosS.table (nthMode eosS.modes 1) :=
  modeOK_of_empty _ _ Ob.eosS_privilege_exec_det.empty Ob.eosS_privilege_exec_own.empty Ob.eosS_privilege_exec_for.empty
example : rmatch (nthMode eosS.modes 1).grammar (ofString "leaf1#") = true := by decide +kernel

/-- eosS, mode `configuration` -/
theorem eosS_configuration : ModeOK eosS.table (nthMode eosS.modes 2) :=
  modeOK_of_empty _ _ Ob.eosS_configuration_det.empty Ob.eosS_configuration_own.empty Ob.eosS_configuration_for.empty
example : rmatch (nthMode eosS.modes 2).grammar (ofString "leaf1(config-s)#") = true := by decide +kernel

/-- eosS, mode `session:confs-` — PARTIAL: grammar restricted (hostname without `_` (F26, fixed: unrestricted grammar PROVED in C05Full.eosSFull_session0_full); name set must satisfy SessionNames.unrelated (F27/F28 open)) -/
theorem eosS_session3_partial : ModeOK eosS.table (nthMode eosS.modes 3) :=
  modeOK_of_empty _ _ Ob.eosS_session3_det.empty Ob.eosS_session3_own.empty Ob.eosS_session3_for.empty
example : rmatch (nthMode eosS.modes 3).grammar (ofString "leaf1(config-s-confs--if)#") = true := by decide +kernel

/-- eosS, mode `session:c.F+g` — PARTIAL: grammar restricted (hostname without `_` (F26, fixed: unrestricted grammar PROVED in C05Full.eosSFull_session1_full); name set must satisfy SessionNames.unrelated (F27/F28 open)) -/
theorem eosS_session4_partial : ModeOK eosS.table (nthMode eosS.modes 4) :=
  modeOK_of_empty _ _ Ob.eosS_session4_det.empty Ob.eosS_session4_own.empty Ob.eosS_session4_for.empty
example : rmatch (nthMode eosS.modes 4).grammar (ofString "leaf1(config-s-c.F+g)#") = true := by decide +kernel

theorem eosS_nmodes : eosS.modes.length = 5 := by decide +kernel
/-- the share groups named by the specification exist in the generated table (no vacuous inclusion) -/
theorem eosS_groups_present : eosS.modes.all (groupPresent eosS.table) = true := by decide +kernel
/-- `update_regenerates`: the pattern the channel holds is (modulo ACI of `|`) the alternation of this table -/
theorem eosS_detect_is_join : ∀ w, detects eosS.table w = true ↔ ∃ l ∈ eosS.table.levels, Lang l.search w :=
  detect_join _ (by decide +kernel)
/-- **C05 for eosS**: every mode of the specification (modes marked PARTIAL: for the restricted grammar) -/
theorem eosS_all : ∀ m ∈ eosS.modes, ModeOK eosS.table m := by
  apply forall_modes
  intro i hi
  rw [eosS_nmodes] at hi
  match i, hi with
  | 0, _ => exact eosS_exec
  | 1, _ => exact eosS_privilege_exec
  | 2, _ => exact eosS_configuration
  | 3, _ => exact eosS_session3_partial
  | 4, _ => exact eosS_session4_partial
  | k + 5, h => omega


/-! ### Juniper Junos (grammar restricted by the predicate of finding F12) -/

/-- junos, mode `exec` -/
theorem junos_exec : ModeOK junos.table (nthMode junos.modes 0) :=
  modeOK_of_empty _ _ Ob.junos_exec_det.empty Ob.junos_exec_own.empty Ob.junos_exec_for.empty
example : rmatch (nthMode junos.modes 0).grammar (ofString "{master:0}\nadmin@mx1> ") = true := by decide +kernel

/-- junos, mode `configuration` — PARTIAL: grammar restricted (F12 open: prompt without `root`; unrestricted verdict: C05Full.junosFull_configuration_full_refuted) -/
theorem junos_configuration_partial : ModeOK junos.table (nthMode junos.modes 1) :=
  modeOK_of_empty _ _ Ob.junos_configuration_det.empty Ob.junos_configuration_own.empty Ob.junos_configuration_for.empty
example : rmatch (nthMode junos.modes 1).grammar (ofString "{master:0}[edit]\nadmin@mx1# ") = true := by decide +kernel

/-- junos, mode `shell` — PARTIAL: grammar restricted (F12 open: prompt without `root`; unrestricted verdict: C05Full.junosFull_shell_full_refuted) -/
theorem junos_shell_partial : ModeOK junos.table (nthMode junos.modes 2) :=
  modeOK_of_empty _ _ Ob.junos_shell_det.empty Ob.junos_shell_own.empty Ob.junos_shell_for.empty
example : rmatch (nthMode junos.modes 2).grammar (ofString "admin@mx1:~ % ") = true := by decide +kernel

/-- junos, mode `root_shell` -/
theorem junos_root_shell : ModeOK junos.table (nthMode junos.modes 3) :=
  modeOK_of_empty _ _ Ob.junos_root_shell_det.empty Ob.junos_root_shell_own.empty Ob.junos_root_shell_for.empty
example : rmatch (nthMode junos.modes 3).grammar (ofString "root@mx1:~ # ") = true := by decide +kernel

theorem junos_nmodes : junos.modes.length = 4 := by decide +kernel
/-- the share groups named by the specification exist in the generated table (no vacuous inclusion) -/
theorem junos_groups_present : junos.modes.all (groupPresent junos.table) = true := by decide +kernel
/-- `update_regenerates`: the pattern the channel holds is (modulo ACI of `|`) the alternation of this table -/
theorem junos_detect_is_join : ∀ w, detects junos.table w = true ↔ ∃ l ∈ junos.table.levels, Lang l.search w :=
  detect_join _ (by decide +kernel)
/-- **C05 for junos**: every mode of the specification (modes marked PARTIAL: for the restricted grammar) -/
theorem junos_all : ∀ m ∈ junos.modes, ModeOK junos.table m := by
  apply forall_modes
  intro i hi
  rw [junos_nmodes] at hi
  match i, hi with
  | 0, _ => exact junos_exec
  | 1, _ => exact junos_configuration_partial
  | 2, _ => exact junos_shell_partial
  | 3, _ => exact junos_root_shell
  | k + 4, h => omega


/-! ### session name sets -/

open Scrapli.Spec.SessionNames in
/-- the EOS name set for which the session modes are PROVED (`eosS_all`) satisfies the hypothesis "no truncated name is a
    case-folded prefix of another" (equal truncated names are a deliberate share group) -/
theorem eosS_names_unrelated : unrelated Gen.C05.eosSessions = true := by decide +kernel

open Scrapli.Spec.SessionNames in
/-- the EOS name set `abc, abcd, wxyz, WXYZ` violates it; for that set the session modes are REFUTED on the unchanged
    patterns (generated `eosPFull_…_full_refuted` in C05Full.lean: findings F27 prefix, F28 case).  The positive claim
    for EOS sessions is therefore conditional on `unrelated` and established for the concrete generated name sets only
    (no parametric proof over all names). -/
theorem eosP_names_related : unrelated Gen.C05.eosPSessions = false := by decide +kernel

end Scrapli.C05
