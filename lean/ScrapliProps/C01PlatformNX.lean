import ScrapliProps.C01PlatformEOS
/-
  The Cisco NX-OS class pattern inside the quantifier of C01 (re.M | re.I):
    (^[\w.\-]{1,63}(\(maint\-mode\))?>\s?$)|(^[\w.\-]{1,63}(\(maint\-mode\))?#\s?$)|
    (^[\w.\-]{1,63}(\(maint\-mode\))?\(config[\w.\-@/:\+]{0,32}\)#\s?$)|
    ((^[\w.\-]{1,63}\-tcl#\s?$)|(^[\w.\-]{1,63}\(config\-tcl\)#\s?$)|(^>\s?$)|(^[\w.\-]{1,63}\(maint\-mode\-tcl\)#\s?$)|
     (^[\w.\-]{1,63}\(maint\-mode\)\(config\-tcl\)#\s?$))
  `nxosP` is the line predicate; `blank`, `NoEarly`, `PromptOK` are PROVED for every exec / privilege-exec /
  configuration prompt the pattern admits, in or out of maintenance mode, with or without one trailing blank.
-/
namespace Scrapli.Chan
open Scrapli

/-- `[\w.\-]` -/
def nxCls (c : UInt8) : Bool := isWordB c || c == 46 || c == 45
def nxHostOK (h : Bytes) : Bool := decide (0 < h.length) && decide (h.length ≤ 63) && h.all nxCls

def maintLit : Bytes := [40, 109, 97, 105, 110, 116, 45, 109, 111, 100, 101, 41]                          -- (maint-mode)
def tclLit : Bytes := [45, 116, 99, 108]                                                                   -- -tcl
def maintTclLit : Bytes := [40, 109, 97, 105, 110, 116, 45, 109, 111, 100, 101, 45, 116, 99, 108, 41]     -- (maint-mode-tcl)

/-- `b` ends with the literal `suf` (given in lower case), compared case-insensitively -/
def ciEndsWith (suf b : Bytes) : Bool :=
  decide (suf.length ≤ b.length) && ((b.drop (b.length - suf.length)).map lowerByte == suf)
def dropEnd (n : Nat) (b : Bytes) : Bytes := b.take (b.length - n)

/-- `[\w.\-]{1,63}(\(maint\-mode\))?` -/
def nxHostM (b : Bytes) : Bool :=
  nxHostOK b || (ciEndsWith maintLit b && nxHostOK (dropEnd maintLit.length b))

/-- `…\(config[\w.\-@/:\+]{0,32}\)` (the mode class has no parenthesis: deterministic from the right) -/
def cfgNx (b : Bytes) : Bool :=
  match b.reverse with
  | 41 :: u =>
    match u.dropWhile (· != 40) with
    | 40 :: xr =>
      let mode := (u.takeWhile (· != 40)).reverse
      ((mode.take 6).map lowerByte == configLit) && decide ((mode.drop 6).length ≤ 32) && (mode.drop 6).all xeModeCls &&
        nxHostM xr.reverse
    | _ => false
  | _ => false

/-- the text `body` in front of the terminator `c` -/
def nxCore (c : UInt8) (body : Bytes) : Bool :=
  (c == 62 && (nxHostM body || body.isEmpty)) ||
  (c == 35 && (nxHostM body || cfgNx body ||
    (ciEndsWith tclLit body && nxHostOK (dropEnd tclLit.length body)) ||
    (ciEndsWith maintTclLit body && nxHostOK (dropEnd maintTclLit.length body))))

/-- one line matches the NX-OS class pattern -/
def nxosP (s : Bytes) : Bool :=
  match s.reverse with
  | c :: t =>
    if isTerm c then nxCore c t.reverse
    else match t with
      | c2 :: t2 => isSpaceB c && isTerm c2 && nxCore c2 t2.reverse
      | [] => false
  | [] => false

theorem nxosP_term {s : Bytes} (h : nxosP s = true) : ∃ c ∈ s, isTerm c = true := by
  unfold nxosP at h
  have hr : ∀ c, c ∈ s.reverse → c ∈ s := fun c hc => List.mem_reverse.mp hc
  split at h
  · rename_i c t e
    split at h
    · rename_i hc; exact ⟨c, hr c (by rw [e]; simp), hc⟩
    · split at h
      · rename_i c2 t2
        simp only [Bool.and_eq_true] at h
        exact ⟨c2, hr c2 (by rw [e]; simp), h.1.2⟩
      · exact absurd h (by simp)
  · exact absurd h (by simp)

theorem nxosP_blank (s : Bytes) (h : squishBuf s = []) : nxosP s = false := by
  rw [Bool.eq_false_iff]; intro hp
  obtain ⟨c, hc, ht⟩ := nxosP_term hp
  rw [blank_not_term h c hc] at ht; exact absurd ht (by simp)

/-- the maintenance-mode decoration of the host part -/
def mmLit (mm : Bool) : Bytes := if mm then maintLit else []

/-- the prompts of the NX-OS levels, in (`mm = true`) or out of maintenance mode -/
inductive NxPrompt : Bytes → Prop
  | exec (h : Bytes) (mm : Bool) (hh : nxHostOK h = true) : NxPrompt (h ++ mmLit mm ++ [62])
  | priv (h : Bytes) (mm : Bool) (hh : nxHostOK h = true) : NxPrompt (h ++ mmLit mm ++ [35])
  | conf (h m : Bytes) (mm : Bool) (hh : nxHostOK h = true) (hm : m.length ≤ 32) (hmc : m.all xeModeCls = true) :
      NxPrompt (h ++ mmLit mm ++ 40 :: (configLit ++ m) ++ [41, 35])

theorem nxHostOK_cls {h : Bytes} (hh : nxHostOK h = true) : ∀ c ∈ h, nxCls c = true := by
  unfold nxHostOK at hh
  simp only [Bool.and_eq_true, List.all_eq_true] at hh
  exact hh.2

theorem nxCls_not_term {c : UInt8} (h : nxCls c = true) : isTerm c = false := by
  cases ht : isTerm c with
  | false => rfl
  | true =>
    exfalso
    have : c = 62 ∨ c = 35 := by unfold isTerm at ht; simpa using ht
    rcases this with e | e <;> subst e <;> revert h <;> decide

theorem nxHostM_mm {h : Bytes} (mm : Bool) (hh : nxHostOK h = true) : nxHostM (h ++ mmLit mm) = true := by
  cases mm with
  | false => simp [mmLit, nxHostM, hh]
  | true =>
    have h1 : ciEndsWith maintLit (h ++ maintLit) = true := by
      unfold ciEndsWith
      have hd : (h ++ maintLit).drop ((h ++ maintLit).length - maintLit.length) = maintLit := by simp
      rw [hd]
      have : maintLit.map lowerByte = maintLit := by decide
      simp [this]
    have h2 : dropEnd maintLit.length (h ++ maintLit) = h := by unfold dropEnd; simp
    simp only [mmLit, if_true, nxHostM, h1, h2, hh, Bool.and_self, Bool.or_true]

theorem maintLit_ne_open_tail : ∀ c ∈ configLit, (c != 40) = true := configLit_ne_paren

/-- the text in front of the terminator is accepted -/
theorem nxPrompt_core {p : Bytes} (hp : NxPrompt p) :
    ∃ c body, p = body ++ [c] ∧ isTerm c = true ∧ nxCore c body = true := by
  cases hp with
  | exec h mm hh => exact ⟨62, h ++ mmLit mm, rfl, by decide, by simp [nxCore, nxHostM_mm mm hh]⟩
  | priv h mm hh => exact ⟨35, h ++ mmLit mm, rfl, by decide, by simp [nxCore, nxHostM_mm mm hh]⟩
  | conf h m mm hh hm hmc =>
    refine ⟨35, h ++ mmLit mm ++ 40 :: (configLit ++ m) ++ [41], by simp, by decide, ?_⟩
    have hrev : (h ++ mmLit mm ++ 40 :: (configLit ++ m) ++ [41]).reverse =
        41 :: ((configLit ++ m).reverse ++ 40 :: (h ++ mmLit mm).reverse) := by simp
    have hmr : ∀ c ∈ (configLit ++ m).reverse, (c != 40) = true := by
      intro c hc
      rcases List.mem_append.mp (List.mem_reverse.mp hc) with h1 | h1
      · exact configLit_ne_paren c h1
      · exact xeModeCls_ne_paren (List.all_eq_true.mp hmc c h1)
    have htw : ((configLit ++ m).reverse ++ 40 :: (h ++ mmLit mm).reverse).takeWhile (· != 40) = (configLit ++ m).reverse := by
      rw [List.takeWhile_append_of_pos hmr]; simp
    have hdw : ((configLit ++ m).reverse ++ 40 :: (h ++ mmLit mm).reverse).dropWhile (· != 40) = 40 :: (h ++ mmLit mm).reverse := by
      rw [List.dropWhile_append_of_pos hmr]; simp
    have hc : cfgNx (h ++ mmLit mm ++ 40 :: (configLit ++ m) ++ [41]) = true := by
      unfold cfgNx
      rw [hrev]
      simp only [htw, hdw, List.reverse_reverse, nxHostM_mm mm hh, Bool.and_true]
      have h6 : (configLit ++ m).take 6 = configLit := by simp [configLit]
      have d6 : (configLit ++ m).drop 6 = m := by simp [configLit]
      rw [h6, d6]
      simp only [Bool.and_eq_true, decide_eq_true_eq]
      exact ⟨⟨by decide, hm⟩, hmc⟩
    unfold nxCore; rw [hc]; simp

/-- **the prompt is accepted, alone and followed by the one blank `\s?` admits** -/
theorem nxPrompt_accepted {p : Bytes} (hp : NxPrompt p) : nxosP p = true ∧ nxosP (p ++ [32]) = true := by
  obtain ⟨c, body, hpb, hterm, hc⟩ := nxPrompt_core hp
  subst hpb
  constructor
  · unfold nxosP
    have : (body ++ [c]).reverse = c :: body.reverse := by simp
    rw [this]; simp [hterm, hc]
  · unfold nxosP
    have : (body ++ [c] ++ [32]).reverse = 32 :: c :: body.reverse := by simp
    rw [this]
    have h32 : isTerm 32 = false := by decide
    simp [h32, isSpaceB, hterm, hc]

theorem mmLit_not_term (mm : Bool) : ∀ c ∈ mmLit mm, isTerm c = false := by
  cases mm <;> decide

/-- every byte of the prompt but the last is no terminator -/
theorem nxPrompt_inner {p : Bytes} (hp : NxPrompt p) : ∀ c ∈ p.dropLast, isTerm c = false := by
  cases hp with
  | exec h mm hh =>
    intro c hc
    rw [List.dropLast_concat] at hc
    rcases List.mem_append.mp hc with h1 | h1
    · exact nxCls_not_term (nxHostOK_cls hh c h1)
    · exact mmLit_not_term mm c h1
  | priv h mm hh =>
    intro c hc
    rw [List.dropLast_concat] at hc
    rcases List.mem_append.mp hc with h1 | h1
    · exact nxCls_not_term (nxHostOK_cls hh c h1)
    · exact mmLit_not_term mm c h1
  | conf h m mm hh hm hmc =>
    intro c hc
    have e : (h ++ mmLit mm ++ 40 :: (configLit ++ m) ++ [41, 35]).dropLast = h ++ mmLit mm ++ 40 :: (configLit ++ m) ++ [41] := by
      have : h ++ mmLit mm ++ 40 :: (configLit ++ m) ++ [41, 35] = (h ++ mmLit mm ++ 40 :: (configLit ++ m) ++ [41]) ++ [35] := by simp
      rw [this, List.dropLast_concat]
    rw [e] at hc
    simp only [List.mem_append, List.mem_cons, List.not_mem_nil, or_false] at hc
    rcases hc with ((h1 | h1) | h1 | h1 | h1) | h1
    · exact nxCls_not_term (nxHostOK_cls hh c h1)
    · exact mmLit_not_term mm c h1
    · subst h1; decide
    · exact configLit_not_term c h1
    · exact xeModeCls_not_term (List.all_eq_true.mp hmc c h1)
    · subst h1; decide

theorem nxPrompt_ne {p : Bytes} (hp : NxPrompt p) : p ≠ [] := by
  cases hp <;> simp

theorem mmLit_plain (mm : Bool) : ∀ c ∈ mmLit mm, c ≠ NL ∧ c ≠ CR ∧ c ≠ ESC := by
  cases mm <;> decide

theorem nx_plain_byte {c : UInt8} (h : nxCls c = true ∨ xeModeCls c = true ∨ c = 40 ∨ c = 41 ∨ c = 62 ∨ c = 35) :
    c ≠ NL ∧ c ≠ CR ∧ c ≠ ESC := by
  refine ⟨?_, ?_, ?_⟩ <;> intro e <;> subst e <;> revert h <;> decide

theorem nxPrompt_plain {p : Bytes} (hp : NxPrompt p) : ∀ c ∈ p, c ≠ NL ∧ c ≠ CR ∧ c ≠ ESC := by
  have hlit : ∀ c ∈ configLit, c ≠ NL ∧ c ≠ CR ∧ c ≠ ESC := by decide
  cases hp with
  | exec h mm hh =>
    intro c hc
    simp only [List.mem_append, List.mem_cons, List.not_mem_nil, or_false] at hc
    rcases hc with (h1 | h1) | h1
    · exact nx_plain_byte (Or.inl (nxHostOK_cls hh c h1))
    · exact mmLit_plain mm c h1
    · subst h1; decide
  | priv h mm hh =>
    intro c hc
    simp only [List.mem_append, List.mem_cons, List.not_mem_nil, or_false] at hc
    rcases hc with (h1 | h1) | h1
    · exact nx_plain_byte (Or.inl (nxHostOK_cls hh c h1))
    · exact mmLit_plain mm c h1
    · subst h1; decide
  | conf h m mm hh hm hmc =>
    intro c hc
    simp only [List.mem_append, List.mem_cons, List.not_mem_nil, or_false] at hc
    rcases hc with ((h1 | h1) | h1 | h1 | h1) | h1 | h1
    · exact nx_plain_byte (Or.inl (nxHostOK_cls hh c h1))
    · exact mmLit_plain mm c h1
    · subst h1; decide
    · exact hlit c h1
    · exact nx_plain_byte (Or.inr (Or.inl (List.all_eq_true.mp hmc c h1)))
    · subst h1; decide
    · subst h1; decide

/-- **every NX-OS exec / privilege-exec / configuration prompt, in or out of maintenance mode, is inside the
    quantifier of C01**, printed with or without one trailing blank -/
theorem nxos_fits (cfg : Cfg) (out : Bytes → Bytes) {p t : Bytes} (hp : NxPrompt p) (ht : t = [] ∨ t = [32])
    (hS : ∀ x, cfg.prompt.search x = (splitNL x).any nxosP)
    (hstrict : cfg.rough = false) (hret : IsRet cfg.ret) (hwin : (p ++ t).length < cfg.depth) :
    Fits nxosP cfg { out := out, prompt := p, trail := t } where
  search_lines := hS
  strict := hstrict
  ret := hret
  blank := nxosP_blank
  noEarly := noEarly_of_term_mem (fun _ h => nxosP_term h) p (nxPrompt_inner hp)
  promptOK := by
    intro t' ht'
    have hacc := nxPrompt_accepted hp
    have hcase : t' = [] ∨ (t = [32] ∧ t' = [32]) := by
      obtain ⟨r, hr⟩ := ht'
      cases t' with
      | nil => exact Or.inl rfl
      | cons a as =>
        rcases ht with e | e
        · subst e; simp at hr
        · subst e
          simp only [List.cons_append, List.cons.injEq] at hr
          have : as = [] := by
            have := hr.2
            cases as with
            | nil => rfl
            | cons b bs => simp at this
          exact Or.inr ⟨rfl, by rw [hr.1, this]⟩
    rcases hcase with e' | ⟨_, e'⟩
    · subst e'; simpa using hacc.1
    · subst e'; exact hacc.2
  prompt_ne := nxPrompt_ne hp
  prompt_nl := fun hm => (nxPrompt_plain hp NL hm).1 rfl
  prompt_plain := ⟨fun hm => (nxPrompt_plain hp CR hm).2.1 rfl, fun hm => (nxPrompt_plain hp ESC hm).2.2 rfl⟩
  trail_hws := by
    rcases ht with e | e <;> subst e <;> simp [isHws]
  fits_window := hwin

/-- non-vacuity: "n9k-1(maint-mode)(config-if)#" is such a prompt -/
example : NxPrompt ([110, 57, 107, 45, 49] ++ mmLit true ++ 40 :: (configLit ++ [45, 105, 102]) ++ [41, 35]) :=
  NxPrompt.conf _ _ true (by decide) (by decide) (by decide)

end Scrapli.Chan
