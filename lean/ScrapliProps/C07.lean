import ScrapliProps.C07Lemmas
import ScrapliModel.TimeoutModifier
/-
  C07 — operations that cannot complete time out, and time out cleanly.
  Property theorems only (helper lemmas: C07Lemmas.lean).  PARTIAL: what is proved here is the
  protocol of scrapli/decorators.py (mechanism selection, handler/timer save-restore, close-iff,
  join semantics, asyncio cancellation) over the model ScrapliModel/Timeout.lean, for EVERY program
  (every nesting depth of channel operation over transport read, every duration, every point at
  which the device goes silent), every timeout value and both settings of NO_TERMINATE_ON_TIMEOUT.
  Wall-clock latency, surviving threads and what the OS does to a blocked read on close() are
  observed on the implementation by tools/props/c07.py, not proved.
-/
namespace Scrapli.Timeout
open Scrapli.Gen.Timeout

/-! ## mechanism selection -/

/-- **select_correct**: the complete table — which mechanism for which (coroutine?, transport class
    name, windows?, main thread?, timeout).  Mentions the generated class-name tuple through
    `selectMechanism`: a change of the tuple in the source breaks this theorem. -/
theorem select_correct (co : Bool) (cls : String) (win main : Bool) (t : Nat) :
    selectMechanism co cls win main t =
      if t = 0 then .direct
      else if co = true then .asyncio
      else if cls = "SystemTransport" ∨ cls = "TelnetTransport" ∨ win = true ∨ main = false then .thread
      else .signal := by
  unfold selectMechanism
  by_cases ht : t = 0
  · simp [ht]
  · cases co <;> cases win <;> cases main <;>
      by_cases h1 : cls = "SystemTransport" <;> by_cases h2 : cls = "TelnetTransport" <;>
      simp [ht, threadClassNames, h1, h2]

example : selectMechanism false "ParamikoTransport" false true 30 = .signal ∧
    selectMechanism false "ParamikoTransport" false false 30 = .thread ∧
    selectMechanism false "SystemTransport" false true 30 = .thread ∧
    selectMechanism false "TelnetTransport" false true 30 = .thread ∧
    selectMechanism false "Ssh2Transport" true true 30 = .thread ∧
    selectMechanism true "AsyncsshTransport" false true 30 = .asyncio ∧
    selectMechanism false "SystemTransport" false true 0 = .direct := by decide

/-- the two other disjuncts `selectMechanism` has by hand (`windows`, `¬ mainThread`) are the ones the source has
    (generated source text of the `or` operands) -/
theorem select_disjuncts_pinned :
    selectDisjuncts = ["_IS_WINDOWS", "threading.current_thread() is not threading.main_thread()"] := by decide

/-- a call nested inside a decorated call is handled by the same mechanism: the worker of the thread
    mechanism is not the main thread; the signal mechanism stays in the main thread -/
theorem nested_mechanism_stable (cls : String) (win main : Bool) (t t' : Nat) (ht' : t' ≠ 0) :
    (selectMechanism false cls win main t = .thread → selectMechanism false cls win false t' = .thread) ∧
    (selectMechanism false cls win main t = .signal → selectMechanism false cls win main t' = .signal) ∧
    (selectMechanism true cls win main t' = .asyncio) := by
  simp only [select_correct]
  by_cases ht : t = 0 <;> simp [ht, ht']

/-- every sync transport of the tree whose `read` is decorated selects the worker-thread mechanism:
    the signal mechanism never nests over an in-tree transport read (generated tables) -/
theorem intree_decorated_reads_use_threads (win main : Bool) (t : Nat) (ht : t ≠ 0) :
    ∀ cm ∈ decoratedSync, cm.1 ≠ "Channel" → selectMechanism false cm.1 win main t = .thread := by
  have h : ∀ cm ∈ decoratedSync, cm.1 ≠ "Channel" → cm.1 ∈ threadClassNames := by decide
  intro cm hcm hne
  simp [selectMechanism, ht, h cm hcm hne]

/-- every decorated method (sync and async) has its own entry in FUNC_TIMEOUT_MESSAGE_MAP, and the
    sync and asyncio channels decorate the same operations -/
theorem messages_mapped :
    (∀ cm ∈ decoratedSync ++ decoratedAsync, (messageMap.lookup cm.2).isSome = true) ∧
    (decoratedSync.filter (·.1 == "Channel")).map (·.2) = (decoratedAsync.filter (·.1 == "AsyncChannel")).map (·.2) := by
  decide

/-- the message texts the property speaks about -/
theorem message_table :
    message "read" = "timed out reading from transport" ∧
    message "get_prompt" = "timed out getting prompt" ∧
    message "send_input" = "timed out sending input to device" ∧
    message "send_input_and_read" = "timed out sending input to device" ∧
    message "send_inputs_interact" = "timed out sending interactive input to device" ∧
    message "channel_authenticate_ssh" = "timed out during in channel ssh authentication" ∧
    message "channel_authenticate_telnet" = "timed out during in channel telnet authentication" := by decide

/-! ## timeout 0 -/

/-- **zero_disables**: a timeout of 0 (None) selects the direct call under every configuration, and the
    decorated call then IS the wrapped call under every mechanism: same result, same time, same
    process state. -/
theorem zero_disables (cfg : Cfg) (co : Bool) (cls : String) (win main : Bool) (m : Mech) (name : String)
    (body : Prog) (p : Proc) :
    selectMechanism co cls win main 0 = .direct ∧ run cfg m (.call 0 name body .ret) p = run cfg m body p := by
  refine ⟨by simp [selectMechanism], ?_⟩
  have hS : runS cfg (.call 0 name body .ret) p = runS cfg body p := by
    rw [runS_call_ret]; simp only [wrapS, ↓reduceIte]
  have hT : ∀ s ext, runT cfg (.call 0 name body .ret) s ext = runT cfg body s ext := by
    intro s ext; rw [runT_call_ret]; simp only [poolT, ↓reduceIte]
  have hA : ∀ s ca c, runA cfg (.call 0 name body .ret) s ca c = runA cfg body s ca c := by
    intro s ca c; rw [runA_call_ret]; simp only [waitForA, ↓reduceIte]
  cases m <;> simp only [run, hS, hT, hA]

/-- … and a program in which every timeout is 0 never raises ScrapliTimeout, never closes the
    transport, starts no thread and leaves handler and timer alone (it may block forever: the limit
    is disabled). -/
theorem zero_never_times_out (cfg : Cfg) (m : Mech) (prog : Prog) (p : Proc) (hu : prog.unarmed = true)
    (ht : p.timer = none) :
    let r := run cfg m prog p
    r.out.isTimeout = false ∧ r.closed = p.closed ∧ r.handler = p.handler ∧ r.timer = none ∧ r.acts = [] := by
  have hn := unarmed_names prog hu
  have hS : ∀ n ∈ prog.names, n ∈ ([] : List String) := by rw [hn]; intro n h; cases h
  have notTO : ∀ o : Out, (∀ msg, o = .timeout msg → ∃ n ∈ ([] : List String), msg = message n) → o.isTimeout = false := by
    intro o h
    cases o with
    | timeout msg => obtain ⟨n, hn, _⟩ := h msg rfl; cases hn
    | _ => rfl
  intro r
  cases m with
  | thread =>
    have hc := runT_closes cfg [] prog hS p.now (if p.closed then some 0 else none)
    have ho := notTO _ hc.2
    have hcl := hc.1
    rw [ho] at hcl
    simp at hcl
    refine ⟨ho, ?_, rfl, ht, runT_unarmed_acts cfg prog _ _ hu⟩
    show (p.closed || (runT cfg prog p.now (if p.closed then some 0 else none)).closeAt.isSome) = p.closed
    simp [hcl]
  | asyncio =>
    have hc := runA_closes cfg [] prog hS p.now none p.closed
    have ho := notTO _ hc.2.2
    exact ⟨ho, hc.2.1 ho, rfl, ht, runA_unarmed_tasks cfg prog _ _ _ hu⟩
  | direct =>
    cases hr : runS cfg prog p with
    | none => simp only [r, (run_signal_none cfg prog p hr).2]; exact ⟨rfl, trivial, trivial, ht, trivial⟩
    | some qo =>
      obtain ⟨q, o⟩ := qo
      have hc := runS_closes cfg [] prog hS p q o (by intro hx; simp [ht] at hx) hr
      have ho := notTO _ hc.2.2
      simp only [r, (run_signal_some cfg prog p q o hr).2]
      refine ⟨ho, hc.2.1 ho, runS_keeps cfg prog p q o hr, ?_, trivial⟩
      rcases runS_timer cfg prog p q o hr with h | h
      · exact h
      · exact h.trans ht
  | signal =>
    cases hr : runS cfg prog p with
    | none => simp only [r, (run_signal_none cfg prog p hr).1]; exact ⟨rfl, trivial, trivial, ht, trivial⟩
    | some qo =>
      obtain ⟨q, o⟩ := qo
      have hc := runS_closes cfg [] prog hS p q o (by intro hx; simp [ht] at hx) hr
      have ho := notTO _ hc.2.2
      simp only [r, (run_signal_some cfg prog p q o hr).1]
      refine ⟨ho, hc.2.1 ho, runS_keeps cfg prog p q o hr, ?_, trivial⟩
      rcases runS_timer cfg prog p q o hr with h | h
      · exact h
      · exact h.trans ht

/-! ## signal mechanism: handler and timer -/

/-- **signal_restores_handler** (atomic prologue/epilogue): for EVERY program — every nesting depth of
    wrapped calls, every outcome of the WRAPPED call (return, exception, alarm going off inside it at any
    nested level) — the SIGALRM handler after the call is the handler before it.  NOT covered: the alarm
    landing inside the wrapper's own `finally` (the call returned on the tick of its deadline) — that
    interleaving is `wrapSRaced`, see `signal_epilogue_race_refuted` / `_guarded` below. -/
theorem signal_restores_handler (cfg : Cfg) (prog : Prog) (p q : Proc) (o : Out)
    (h : runS cfg prog p = some (q, o)) : q.handler = p.handler :=
  runS_keeps cfg prog p q o h

/-- … and a wrapper that arms restores it around ANY wrapped function, not only model programs -/
theorem signal_restores_handler_any (cfg : Cfg) (t : Nat) (name : String) (f : Proc → Option (Proc × Out)) (ht : t ≠ 0)
    (p q : Proc) (o : Out) (h : wrapS cfg t name f p = some (q, o)) : q.handler = p.handler :=
  wrapS_keeps_armed cfg t name f ht p q o h

example : runS {} (.call 5 "send_input" (.call 2 "read" (.work 1 .ret) (.call 2 "read" .hang .ret)) .ret)
    { handler := .user 7 } = some ({ now := 3, handler := .user 7, timer := none, closed := true },
      .timeout "timed out reading from transport") := by decide

/-- **signal_epilogue_race_refuted**: with the handler restore in the SAME `finally` as the disarm
    (`guarded = false`), the alarm landing in that `finally` leaves scrapli's handler installed — and has
    closed the transport and raised ScrapliTimeout although the wrapped call had returned.  Witness:
    `get_prompt` that returns at once, user handler 7 before. -/
theorem signal_epilogue_race_refuted :
    ¬ (∀ (cfg : Cfg) (t : Nat) (name : String) (f : Proc → Option (Proc × Out)) (p q : Proc) (o : Out), t ≠ 0 →
        wrapSRaced cfg false t name f p = some (q, o) → q.handler = p.handler) := by
  intro h
  have := h {} 5 "get_prompt" (runS {} .ret) { handler := .user 7 }
    { handler := .scrapli (message "get_prompt"), closed := true } (.timeout (message "get_prompt")) (by decide) (by decide)
  simp at this

/-- **signal_epilogue_race_guarded**: with the restore in an outer `finally` (`guarded = true`) the same
    interleaving leaves the handler it found — around ANY wrapped function — and, for code that re-arms,
    the previous timer (the outcome is still ScrapliTimeout: the deadline was hit). -/
theorem signal_epilogue_race_guarded (cfg : Cfg) (t : Nat) (name : String) (f : Proc → Option (Proc × Out)) (ht : t ≠ 0)
    (p q : Proc) (o : Out) (h : wrapSRaced cfg true t name f p = some (q, o)) :
    q.handler = p.handler ∧
    (cfg.restoreTimer = true → q.timer = p.timer ∨ (∃ D, p.timer = some D ∧ D ≤ q.now ∧ q.timer = none)) := by
  simp only [wrapSRaced, ↓reduceIte] at h
  exact ⟨wrapS_keeps_armed cfg t name _ ht p q o h, fun hr => wrapS_timerKept_armed cfg hr t name _ ht p q o h⟩

/-- **signal_epilogue_as_shipped**: which of the two is in force for the source just read (`epilogueGuarded`
    is generated from the AST of the signal branch) -/
theorem signal_epilogue_as_shipped :
    if epilogueGuarded = true then
      ∀ (cfg : Cfg) (t : Nat) (name : String) (f : Proc → Option (Proc × Out)) (p q : Proc) (o : Out), t ≠ 0 →
        wrapSRaced cfg epilogueGuarded t name f p = some (q, o) → q.handler = p.handler
    else
      ¬ (∀ (cfg : Cfg) (t : Nat) (name : String) (f : Proc → Option (Proc × Out)) (p q : Proc) (o : Out), t ≠ 0 →
        wrapSRaced cfg epilogueGuarded t name f p = some (q, o) → q.handler = p.handler) := by
  split
  · rename_i hs
    intro cfg t name f p q o ht h
    rw [hs] at h
    exact (signal_epilogue_race_guarded cfg t name f ht p q o h).1
  · rename_i hs
    have hs' : epilogueGuarded = false := by cases hx : epilogueGuarded <;> simp_all
    rw [hs']
    exact signal_epilogue_race_refuted

/-- **signal_restores_timer_partial**: no ITIMER_REAL armed before ⇒ none armed after. -/
theorem signal_restores_timer_partial (cfg : Cfg) (prog : Prog) (p q : Proc) (o : Out)
    (h : runS cfg prog p = some (q, o)) (hp : p.timer = none) : q.timer = none := by
  rcases runS_timer cfg prog p q o h with h1 | h1
  · exact h1
  · exact h1.trans hp

/-- **signal_restores_timer_full** (code that re-arms the previous timer in the `finally`,
    `cfg.restoreTimer`): for EVERY program and outcome, an alarm that was pending before the call is
    pending again afterwards with its old deadline — or that deadline has passed by then and the alarm
    has gone off (with the handler that was installed before). -/
theorem signal_restores_timer_full (cfg : Cfg) (hr : cfg.restoreTimer = true) (prog : Prog) (p q : Proc) (o : Out)
    (h : runS cfg prog p = some (q, o)) :
    q.timer = p.timer ∨ (∃ D, p.timer = some D ∧ D ≤ q.now ∧ q.timer = none) :=
  runS_timerKept cfg hr prog p q o h

/-- … and an arming wrapper does so around ANY wrapped function -/
theorem signal_restores_timer_any (cfg : Cfg) (hr : cfg.restoreTimer = true) (t : Nat) (name : String)
    (f : Proc → Option (Proc × Out)) (ht : t ≠ 0) (p q : Proc) (o : Out) (h : wrapS cfg t name f p = some (q, o)) :
    q.timer = p.timer ∨ (∃ D, p.timer = some D ∧ D ≤ q.now ∧ q.timer = none) :=
  wrapS_timerKept_armed cfg hr t name f ht p q o h

example : runS { restoreTimer := true } (.call 5 "get_prompt" (.work 1 .ret) .ret) { timer := some 100 }
      = some ({ now := 1, timer := some 100 }, .ret) ∧
    runS { restoreTimer := true } (.call 5 "get_prompt" (.work 3 .ret) .ret) { timer := some 2, handler := .user 9 }
      = some ({ now := 3, timer := none, handler := .user 9 }, .ret) := by decide

/-- **signal_restores_timer_full_refuted** (code that only disarms, finding F18): "the timer after = the
    timer before" is FALSE: a previously armed ITIMER_REAL (the user's own alarm, or an enclosing
    wrapper's) is left disarmed.  Witness: an alarm due at 100, then `get_prompt` (timeout 5) that
    returns after 1 tick. -/
theorem signal_restores_timer_full_refuted :
    ¬ (∀ (cfg : Cfg) (prog : Prog) (p q : Proc) (o : Out), cfg.restoreTimer = false →
        runS cfg prog p = some (q, o) → q.timer = p.timer ∨ (∃ D, p.timer = some D ∧ D ≤ q.now ∧ q.timer = none)) := by
  intro h
  have := h { restoreTimer := false } (.call 5 "get_prompt" (.work 1 .ret) .ret) { timer := some 100 }
    { now := 1, timer := none } .ret rfl (by decide)
  simp at this

/-- the general form of the defect: whenever such a wrapper arms, the timer is disarmed afterwards
    whatever was armed before -/
theorem signal_disarms_previous_timer (cfg : Cfg) (hr : cfg.restoreTimer = false) (t : Nat) (name : String)
    (f : Proc → Option (Proc × Out)) (ht : t ≠ 0)
    (p q : Proc) (o : Out) (h : wrapS cfg t name f p = some (q, o)) : q.timer = none :=
  wrapS_timer_armed cfg hr t name f ht p q o h

/-- **signal_timer_as_shipped**: which of the two holds for the source the translator has just read
    (`restoresTimer` is generated from the AST of the signal branch): the full statement, or its
    refutation. -/
theorem signal_timer_as_shipped :
    if restoresTimer = true then
      ∀ (cfg : Cfg), cfg.restoreTimer = restoresTimer → ∀ (prog : Prog) (p q : Proc) (o : Out),
        runS cfg prog p = some (q, o) → q.timer = p.timer ∨ (∃ D, p.timer = some D ∧ D ≤ q.now ∧ q.timer = none)
    else
      ¬ (∀ (cfg : Cfg), cfg.restoreTimer = restoresTimer → ∀ (prog : Prog) (p q : Proc) (o : Out),
        runS cfg prog p = some (q, o) → q.timer = p.timer ∨ (∃ D, p.timer = some D ∧ D ≤ q.now ∧ q.timer = none)) := by
  split
  · rename_i hs
    intro cfg hc prog p q o h
    exact signal_restores_timer_full cfg (hc.trans hs) prog p q o h
  · rename_i hs
    intro h
    apply signal_restores_timer_full_refuted
    intro cfg prog p q o hc hrun
    have hs' : restoresTimer = false := by cases hx : restoresTimer <;> simp_all
    exact h cfg (hc.trans hs'.symm) prog p q o hrun

/-- **signal_deadline_partial**: a wrapped call whose body arms no timer of its own (a channel
    operation over undecorated reads — paramiko, ssh2) is over by `t`; if it ends in ScrapliTimeout,
    then exactly at `t` and with the wrapped function's message. -/
theorem signal_deadline_partial (cfg : Cfg) (t : Nat) (name : String) (body : Prog) (p : Proc) (ht : t ≠ 0)
    (hu : body.unarmed = true) (hp : p.timer = none) :
    ∃ q o, wrapSignal cfg t name body p = some (q, o) ∧ q.now ≤ p.now + t ∧
      (o.isTimeout = true → o = .timeout (message name) ∧ q.now = p.now + t) := by
  obtain ⟨q, o, h1, h2, h3⟩ := runS_unarmed cfg (message name) (p.now + t) body
    { p with handler := .scrapli (message name), timer := some (p.now + t) } hu rfl rfl (by simp)
  refine ⟨{ q with timer := none, handler := p.handler }, o, ?_, h2, ?_⟩
  · cases hr : cfg.restoreTimer <;> simp [wrapSignal, wrapS, ht, h1, hr, hp]
  · intro ho
    rcases h3 with ⟨h4, h5, _⟩ | ⟨h4, _⟩
    · exact ⟨h4, h5⟩
    · rw [h4] at ho; cases ho

example : (Prog.work 3 (.work 4 .hang)).unarmed = true := by decide

/-- **signal_deadline_full_refuted**: with a decorated transport read underneath (nested wrapper), the
    outer limit is NOT kept — with or without putting the timer back: there is one ITIMER_REAL, the inner
    `setitimer` replaces the outer deadline while the inner call runs.  Witness: channel operation with
    timeout 5 over a `read` with timeout 20 on a silent device ends at 20. -/
theorem signal_deadline_full_refuted (r : Bool) :
    ¬ (∀ (cfg : Cfg) (t : Nat) (name : String) (body : Prog) (p : Proc), cfg.restoreTimer = r → t ≠ 0 →
        ∃ q o, wrapSignal cfg t name body p = some (q, o) ∧ q.now ≤ p.now + t) := by
  intro h
  obtain ⟨q, o, h1, h2⟩ := h { restoreTimer := r } 5 "send_input" (.call 20 "read" .hang .ret) {} rfl (by decide)
  have h3 : (wrapSignal { restoreTimer := r } 5 "send_input" (.call 20 "read" .hang .ret) {}).map (·.1.now) = some 20 := by
    cases r <;> decide
  rw [h1] at h3
  simp at h3 h2
  omega

/-- what putting the timer back repairs in the nested case: once the inner read has RETURNED the outer
    deadline is in force again (without it the rest of the operation has no limit at all); and when the
    inner limit fires after the outer deadline has passed, the outer alarm goes off right behind it, so
    the exception carries the operation's message -/
example :
    runS { restoreTimer := false } (.call 5 "send_input" (.call 2 "read" (.work 1 .ret) .hang) .ret) {} = none ∧
    runS { restoreTimer := true } (.call 5 "send_input" (.call 2 "read" (.work 1 .ret) .hang) .ret) {}
      = some ({ now := 5, closed := true }, .timeout "timed out sending input to device") ∧
    runS { restoreTimer := true } (.call 5 "send_input" (.call 20 "read" .hang .ret) .ret) {}
      = some ({ now := 20, closed := true }, .timeout "timed out sending input to device") ∧
    runS { restoreTimer := false } (.call 5 "send_input" (.call 20 "read" .hang .ret) .ret) {}
      = some ({ now := 20, closed := true }, .timeout "timed out reading from transport") := by decide

/-! ## the two directions of "times out": must, and must not

`Prog.natural` (C07Lemmas.lean) is what a program whose own timeouts are all 0 does when nothing
interferes: (duration, outcome), duration `none` = blocks for ever (silent device).  For EVERY such body,
under each mechanism: if it does not finish before `t` the decorated call ends in
ScrapliTimeout(mapped message) exactly at `s + t` with the transport closed unless NO_TERMINATE; if it
finishes before `t` the call hands on the body's own result at the body's own time and touches nothing.
(Nested *armed* calls are covered by the bounds and refutations further down, not by these.) -/

/-- **signal_must_time_out** -/
theorem signal_must_time_out (cfg : Cfg) (t : Nat) (name : String) (body : Prog) (p : Proc) (ht : t ≠ 0)
    (hu : body.unarmed = true) (hp : p.timer = none) (hl : ∀ d o, body.natural = (some d, o) → t ≤ d) :
    wrapSignal cfg t name body p =
      some ({ p with now := p.now + t, timer := none, closed := if cfg.noTerminate then p.closed else true },
        .timeout (message name)) := by
  have h := runS_natural_fire cfg (message name) (p.now + t) body
    { p with handler := .scrapli (message name), timer := some (p.now + t) } hu rfl rfl (by simp; omega)
    (by intro d o hx; have := hl d o hx; simp; omega)
  cases hr : cfg.restoreTimer <;> simp [wrapSignal, wrapS, ht, h, hr, hp]

/-- **signal_finishes_in_time** -/
theorem signal_finishes_in_time (cfg : Cfg) (t : Nat) (name : String) (body : Prog) (p : Proc) (ht : t ≠ 0)
    (hu : body.unarmed = true) (hp : p.timer = none) (d : Nat) (o : Out) (hn : body.natural = (some d, o))
    (hd : d < t) :
    wrapSignal cfg t name body p = some ({ p with now := p.now + d, timer := none }, o) := by
  have h := runS_natural_own cfg (message name) (p.now + t) body
    { p with handler := .scrapli (message name), timer := some (p.now + t) } d o hu rfl rfl hn (by simp; omega)
  cases hr : cfg.restoreTimer <;> simp [wrapSignal, wrapS, ht, h, hr, hp]

/-- **asyncio_must_time_out** -/
theorem asyncio_must_time_out (cfg : Cfg) (t : Nat) (name : String) (body : Prog) (s : Nat) (c : Bool) (ht : t ≠ 0)
    (hu : body.unarmed = true) (hl : ∀ d o, body.natural = (some d, o) → t ≤ d) :
    runA cfg (.call t name body .ret) s none c =
      { fin := some (s + t), out := .timeout (message name), closed := if cfg.noTerminate then c else true,
        tasks := [⟨s, some (s + t), name⟩] } := by
  have h := runA_natural_cancel cfg body s (s + t) c hu (by omega) (by intro d o hx; have := hl d o hx; omega)
  rw [runA_call_ret]
  simp [waitForA, ht, h, ownFirst, handleTimeout]

/-- **asyncio_finishes_in_time** -/
theorem asyncio_finishes_in_time (cfg : Cfg) (t : Nat) (name : String) (body : Prog) (s : Nat) (c : Bool) (ht : t ≠ 0)
    (hu : body.unarmed = true) (d : Nat) (o : Out) (hn : body.natural = (some d, o)) (hd : d < t) :
    runA cfg (.call t name body .ret) s none c =
      { fin := some (s + d), out := o, closed := c, tasks := [⟨s, some (s + d), name⟩] } := by
  have h := runA_natural_own cfg body s (some (s + t)) c d o hu hn (by intro C hC; cases hC; omega)
  have ho : o ≠ .cancelled := by
    have := natural_out body; rw [hn] at this; rcases this with h1 | h1 <;> simp at h1 <;> simp [h1]
  rw [runA_call_ret]
  simp [waitForA, ht, h, ho]

/-- **thread_must_time_out** (a transport whose `close()` wakes a blocked read, termination on) -/
theorem thread_must_time_out (cfg : Cfg) (hw : cfg.closeWakes = true) (hnt : cfg.noTerminate = false) (t : Nat)
    (name : String) (body : Prog) (s : Nat) (ht : t ≠ 0) (hu : body.unarmed = true)
    (hl : ∀ d o, body.natural = (some d, o) → t ≤ d) :
    let r := runT cfg (.call t name body .ret) s none
    r.fin = some (s + t) ∧ r.out = .timeout (message name) ∧ r.closeAt = some (s + t) := by
  have h0 := runT_natural cfg body s hu
  obtain ⟨f1, h1, h2⟩ := runT_wake cfg hw body s (s + t)
  have hnd : olt (runT cfg body s none).fin (s + t) = false := by
    rw [h0]
    rcases hb : body.natural with ⟨bd, bo⟩
    cases bd with
    | none => simp
    | some d => have := hl d bo hb; simp; omega
  simp only [runT_call_ret, poolT, ht, ↓reduceIte, hnd, Bool.false_eq_true, hnt, omin_none_left, h1, omaxN_some]
  have hS : ∀ n ∈ body.names, n ∈ ([] : List String) := by rw [unarmed_names body hu]; intro n h; cases h
  have hc := runT_closes cfg [] body hS s (some (s + t))
  have hnone : (runT cfg body s (some (s + t))).closeAt = none := by
    cases ho : (runT cfg body s (some (s + t))).out with
    | timeout m => obtain ⟨n, hn, _⟩ := hc.2 m ho; cases hn
    | ret => have := hc.1; rw [ho] at this; simpa [Out.isTimeout] using this
    | error => have := hc.1; rw [ho] at this; simpa [Out.isTimeout] using this
    | cancelled => have := hc.1; rw [ho] at this; simpa [Out.isTimeout] using this
  refine ⟨?_, trivial, ?_⟩
  · congr 1; omega
  · rw [hnone]; rfl

/-- **thread_finishes_in_time** (any transport, any setting) -/
theorem thread_finishes_in_time (cfg : Cfg) (t : Nat) (name : String) (body : Prog) (s : Nat) (ht : t ≠ 0)
    (hu : body.unarmed = true) (d : Nat) (o : Out) (hn : body.natural = (some d, o)) (hd : d < t) :
    let r := runT cfg (.call t name body .ret) s none
    r.fin = some (s + d) ∧ r.out = o ∧ r.closeAt = none := by
  have h0 := runT_natural cfg body s hu
  rw [hn] at h0
  have hdn : olt (runT cfg body s none).fin (s + t) = true := by rw [h0]; simp; omega
  simp only [runT_call_ret, poolT, ht, ↓reduceIte, hdn]
  rw [h0]; simp

example : (Prog.work 3 (.call 0 "read" (.work 4 .hang) .ret)).unarmed = true ∧
    (∀ d o, (Prog.work 3 (.call 0 "read" (.work 4 .hang) .ret)).natural = (some d, o) → 5 ≤ d) ∧
    (Prog.work 1 (.call 0 "read" (.work 2 .raise) .ret)).natural = (some 3, .error) := by
  refine ⟨by decide, ?_, by decide⟩
  intro d o h; revert h; simp [Prog.natural, natSeq]

/-! ## close-iff, exception and message -/

/-- **timeout_closes_iff**: under every mechanism, for every program started with the transport open
    and no alarm pending: the transport has been closed by the machinery iff the call ends in
    ScrapliTimeout and termination on timeout is not switched off; the message of the exception is
    the mapped message of one of the decorated functions that were running. -/
theorem timeout_closes_iff (cfg : Cfg) (m : Mech) (prog : Prog) (p : Proc) (hc : p.closed = false)
    (ht : p.timer = none) :
    let r := run cfg m prog p
    (r.closed = true ↔ (r.out.isTimeout = true ∧ cfg.noTerminate = false)) ∧
    (∀ msg, r.out = .timeout msg → ∃ n ∈ prog.names, msg = message n) := by
  have hS : ∀ n ∈ prog.names, n ∈ prog.names := fun _ h => h
  cases m with
  | thread =>
    have h := runT_closes cfg prog.names prog hS p.now none
    simp only [run, hc, Bool.false_eq_true, ↓reduceIte, Bool.false_or]
    refine ⟨?_, h.2⟩
    rw [h.1]; simp
  | asyncio =>
    have h := runA_closes cfg prog.names prog hS p.now none false
    simp only [run, hc]
    refine ⟨?_, h.2.2⟩
    cases hto : (runA cfg prog p.now none false).out.isTimeout
    · simp [h.2.1 hto]
    · cases hnt : cfg.noTerminate <;> simp [h.1 hto, hnt]
  | direct =>
    cases hr : runS cfg prog p with
    | none => simp [(run_signal_none cfg prog p hr).2, hc, Out.isTimeout]
    | some qo =>
      obtain ⟨q, o⟩ := qo
      have h := runS_closes cfg prog.names prog hS p q o (by intro hx; simp [ht] at hx) hr
      simp only [(run_signal_some cfg prog p q o hr).2]
      refine ⟨?_, h.2.2⟩
      cases hto : o.isTimeout
      · simp [h.2.1 hto, hc]
      · cases hnt : cfg.noTerminate <;> simp [h.1 hto, hnt, hc]
  | signal =>
    cases hr : runS cfg prog p with
    | none => simp [(run_signal_none cfg prog p hr).1, hc, Out.isTimeout]
    | some qo =>
      obtain ⟨q, o⟩ := qo
      have h := runS_closes cfg prog.names prog hS p q o (by intro hx; simp [ht] at hx) hr
      simp only [(run_signal_some cfg prog p q o hr).1]
      refine ⟨?_, h.2.2⟩
      cases hto : o.isTimeout
      · simp [h.2.1 hto, hc]
      · cases hnt : cfg.noTerminate <;> simp [h.1 hto, hnt, hc]

example : let r := run { noTerminate := true } .thread (.call 5 "get_prompt" (.work 9 .ret) .ret) {}
    r.out = .timeout "timed out getting prompt" ∧ r.closed = false ∧ r.fin = some 9 := by decide

/-! ## worker-thread mechanism: latency, threads, lock -/

/-- **thread_latency**: if the worker is done before `t` is over the wrapper hands on its result at that
    moment; otherwise it raises ScrapliTimeout(mapped message) at `max(s + t, moment the worker's
    blocking call returns)` — the pool exit joins the worker, which has seen our `close()` at `s + t`
    unless termination is switched off. -/
theorem thread_latency (cfg : Cfg) (t : Nat) (name : String) (body : Prog) (s : Nat) (ext : Option Nat)
    (ht : t ≠ 0) :
    let r := runT cfg (.call t name body .ret) s ext
    let w := runT cfg body s ext
    (olt w.fin (s + t) = true → r.fin = w.fin ∧ r.out = w.out) ∧
    (olt w.fin (s + t) = false → r.out = .timeout (message name) ∧
      r.fin = omaxN (s + t) (runT cfg body s (omin ext (if cfg.noTerminate then none else some (s + t)))).fin) := by
  simp only [runT_call_ret, poolT, ht, ↓reduceIte]
  constructor
  · intro h; simp [h]
  · intro h; simp [h]

/-- **thread_prompt_if_close_wakes**: if `close()` ends a blocked read and termination is on, EVERY
    decorated call — whatever the body does, however deep the nesting — is over within `t`. -/
theorem thread_prompt_if_close_wakes (cfg : Cfg) (hw : cfg.closeWakes = true) (hn : cfg.noTerminate = false)
    (t : Nat) (name : String) (body : Prog) (s : Nat) (ext : Option Nat) (ht : t ≠ 0) :
    ∃ f, (runT cfg (.call t name body .ret) s ext).fin = some f ∧ f ≤ s + t := by
  simp only [runT_call_ret, poolT, ht, ↓reduceIte, hn, Bool.false_eq_true]
  by_cases hd : olt (runT cfg body s ext).fin (s + t) = true
  · rw [if_pos hd]
    cases hf : (runT cfg body s ext).fin with
    | none => rw [hf] at hd; simp at hd
    | some x => rw [hf] at hd; simp at hd; exact ⟨x, rfl, by omega⟩
  · rw [if_neg hd]
    obtain ⟨C', hC', hle⟩ := omin_le_some ext (s + t)
    obtain ⟨f1, h1, h2⟩ := runT_wake cfg hw body s C'
    rw [hC', h1]
    exact ⟨max (s + t) f1, rfl, by omega⟩

/-- **thread_latency_full_refuted**: without that, the limit is not kept.  Witness (the Telnet
    transport before commit 759456d, which made `Socket.close()` shut the socket down): `close()` does
    not end the blocked `recv`, which gives up after the socket timeout (40): `send_input` with
    timeout 5 over `read` raises at 40.  Whether a transport's `close()` wakes a blocked read is
    MEASURED by the check (tools/props/c07.py, probe) and fed into the model. -/
theorem thread_latency_full_refuted :
    ¬ (∀ (cfg : Cfg) (t : Nat) (name : String) (body : Prog) (s : Nat), t ≠ 0 →
        ∃ f, (runT cfg (.call t name body .ret) s none).fin = some f ∧ f ≤ s + t) := by
  intro h
  obtain ⟨f, h1, h2⟩ := h { closeWakes := false } 5 "send_input" (.call 30 "read" (.work 40 .raise) .ret) 0 (by decide)
  have h3 : (runT { closeWakes := false } (.call 5 "send_input" (.call 30 "read" (.work 40 .raise) .ret) .ret) 0 none).fin
      = some 40 := by decide
  rw [h1] at h3
  simp at h3
  omega

/-- **thread_prompt_iff**: "every decorated call is over within its timeout" holds for exactly the
    configurations in which `close()` wakes a blocked read and termination on timeout is on; in every
    other configuration a silent device makes the wrapper block FOREVER (the join never ends). -/
theorem thread_prompt_iff (cfg : Cfg) :
    (∀ (t : Nat) (name : String) (body : Prog) (s : Nat) (ext : Option Nat), t ≠ 0 →
        ∃ f, (runT cfg (.call t name body .ret) s ext).fin = some f ∧ f ≤ s + t) ↔
    (cfg.closeWakes = true ∧ cfg.noTerminate = false) := by
  constructor
  · intro h
    have h1 : (runT cfg (.call 5 "get_prompt" .hang .ret) 0 none).fin.isSome = true := by
      obtain ⟨f, h1, _⟩ := h 5 "get_prompt" .hang 0 none (by decide)
      rw [h1]; rfl
    clear h
    obtain ⟨nt, cw, rt⟩ := cfg
    cases nt <;> cases cw <;> cases rt <;> first | exact ⟨rfl, rfl⟩ | (exfalso; revert h1; decide)
  · intro ⟨hw, hn⟩ t name body s ext ht
    exact thread_prompt_if_close_wakes cfg hw hn t name body s ext ht

/-- **no_worker_left** (thread mechanism only): once a call is over — returned or raised — every worker
    thread started in its call tree has finished (`Act.stop ≤ fin`: the pool exit joins), then and at any
    later time.  The "lock" half is BY DEFINITION of `lockHeldAt` (= "a worker that ran a channel operation is
    still running"): the lock is not state of the model; its release through `with self._channel_lock()` when
    the signal handler raises inside the block, and through `async with` under cancellation, is NOT modelled
    — it is observed by the rigs (`lock_free`, channel_lock=True) only. -/
theorem no_worker_left (cfg : Cfg) (prog : Prog) (s : Nat) (ext : Option Nat) (f τ : Nat)
    (h : (runT cfg prog s ext).fin = some f) (hτ : f ≤ τ) :
    (runT cfg prog s ext).lockHeldAt τ = false ∧ (runT cfg prog s ext).busyAt τ = false := by
  have hj := runT_joined cfg prog s ext f h
  have key : ∀ a ∈ (runT cfg prog s ext).acts, ole a.stop τ = true := by
    intro a ha
    obtain ⟨e, he, hle⟩ := hj a ha
    rw [he]; simp; omega
  constructor
  · simp only [TRes.lockHeldAt, List.any_eq_false]
    intro a ha; simp [key a ha]
  · simp only [TRes.busyAt, List.any_eq_false]
    intro a ha; simp [key a ha]

/-- the name under which the property text knows it; nothing beyond `no_worker_left` -/
theorem no_lock_left (cfg : Cfg) (prog : Prog) (s : Nat) (ext : Option Nat) (f τ : Nat)
    (h : (runT cfg prog s ext).fin = some f) (hτ : f ≤ τ) : (runT cfg prog s ext).lockHeldAt τ = false :=
  (no_worker_left cfg prog s ext f τ h hτ).1

example : let r := runT {} (.call 5 "send_input" (.call 30 "read" (.work 2 .ret) (.call 30 "read" .hang .ret)) .ret) 0 none
    r.fin = some 5 ∧ r.acts.length = 3 ∧ r.lockHeldAt 4 = true ∧ r.lockHeldAt 5 = false := by decide

/-! ## asyncio mechanism -/

/-- **asyncio_deadline**: `wait_for` cancels the inner coroutine: every decorated coroutine call is over
    within `t`, whatever the body does, nested or not, whatever the settings. -/
theorem asyncio_deadline (cfg : Cfg) (t : Nat) (name : String) (body : Prog) (s : Nat) (ca : Option Nat)
    (c : Bool) (ht : t ≠ 0) :
    ∃ f, (runA cfg (.call t name body .ret) s ca c).fin = some f ∧ f ≤ s + t := by
  rw [runA_call_ret, waitForA_fin cfg t name _ s ca c ht]
  obtain ⟨C', hC', hle⟩ := omin_le_some ca (s + t)
  obtain ⟨f, h1, h2⟩ := runA_bound cfg body s C' c
  rw [hC']
  exact ⟨f, h1, by omega⟩

def exNested : Prog := .call 5 "send_input" (.call 30 "read" (.work 2 .ret) (.call 30 "read" .hang .ret)) .ret

example : let r := run { noTerminate := false } .asyncio exNested {}
    r.fin = some 5 ∧ r.out = .timeout "timed out sending input to device" ∧ r.closed = true := by decide

/-- **asyncio_no_orphans**: in a program that starts tasks only through `wait_for` (the decorator; no
    `ensure_future` / `create_task` / `asyncio.wait`), once a call is over — returned, raised ScrapliTimeout
    or cancelled from outside — every task created in its call tree is done: nothing keeps reading from the
    transport on behalf of an operation that has already failed.  (asyncio analogue of `no_lock_left`.) -/
theorem asyncio_no_orphans (cfg : Cfg) (prog : Prog) (hs : prog.spawnFree = true) (s : Nat) (ca : Option Nat)
    (c : Bool) (f τ : Nat) (h : (runA cfg prog s ca c).fin = some f) (hτ : f ≤ τ) :
    (runA cfg prog s ca c).pendingAt τ = false := by
  have hj := runA_joined cfg prog hs s ca c f h
  simp only [ARes.pendingAt, List.any_eq_false]
  intro a ha
  obtain ⟨e, he, hle⟩ := hj a ha
  rw [he]; simp; omega

example : exNested.spawnFree = true ∧ (runA {} exNested 0 none false).tasks.length = 3 := by decide

/-- **asyncio_spawn_orphans** (the full statement without the hypothesis is FALSE): a read kept in flight
    with `ensure_future` + `asyncio.wait` survives the operation when the outer limit fires.  Witness:
    in-channel authentication (limit 5) polling a spawned read on a silent device: ScrapliTimeout at 5,
    the read task still pending then and for ever. -/
theorem asyncio_spawn_orphans :
    ¬ (∀ (cfg : Cfg) (prog : Prog) (s : Nat) (ca : Option Nat) (c : Bool) (f : Nat),
        (runA cfg prog s ca c).fin = some f → (runA cfg prog s ca c).pendingAt f = false) := by
  intro h
  have := h {} (.call 5 "channel_authenticate_telnet" (.spawn (.call 0 "read" .hang .ret) .ret) .ret) 0 none false 5
    (by decide)
  revert this
  decide

/-- the tree contains no such site: every awaitable started inside the async channel and the async
    transports is awaited directly or through `wait_for` (generated from the AST of the live source) -/
theorem async_spawn_sites_empty : asyncSpawnSites = [] := by decide

/-! ## the per-call `timeout_ops=` keyword: `timeout_modifier` (ScrapliModel/TimeoutModifier.lean)

Which limit a driver operation runs under, as a function of the driver-level `timeout_ops` and the keyword, for BOTH
`decorate` variants as they are in the tree (`modSync` / `modAsync` are built from the generated AST shapes: a change
of either keep test, of the assignment or of the `finally` re-checks — and breaks — these proofs). -/

/-- **modifier_limit_in_force**: whatever the wrapped operation is, it runs under exactly `limitInForce drv kw` —
    None keeps the driver-level value, any other value (0 = "no limit" included) IS the limit — and its result is
    handed on unchanged.  Sync and asyncio variants. -/
theorem modifier_limit_in_force {α : Type} (ok : α → Bool) (sh : ModShape) (hsh : sh = modSync ∨ sh = modAsync)
    (drv : Nat) (kw : Option Nat) (f : Nat → Nat × α) (err : α) :
    (modifier ok sh kw f err drv).2 = (f (limitInForce drv kw)).2 := by
  rcases hsh with rfl | rfl <;> cases kw with
  | none => simp [modifier, modSync, modAsync, modKeepSync, modKeepAsync, keepHolds, limitInForce]
  | some k =>
    by_cases h : k = drv
    · subst h; simp [modifier, modSync, modAsync, modKeepSync, modKeepAsync, keepHolds, limitInForce]
    · simp [modifier, modSync, modAsync, modKeepSync, modKeepAsync, modSetsSync, modSetsAsync, keepHolds, limitInForce, h]

example : (modifier (fun (_ : Nat) => true) modAsync (some 0) (fun t => (t, t)) 99 30).2 = 0 ∧
    (modifier (fun (_ : Nat) => true) modSync none (fun t => (t, t)) 99 30).2 = 30 ∧
    (modifier (fun (_ : Nat) => true) modSync (some 5) (fun t => (t, t)) 99 30).2 = 5 := by decide

/-- **modifier_restores**: on EVERY exit of the wrapped operation (normal return or any exception: `ok` is arbitrary)
    the driver-level value is back — for an operation that does not itself change it, under every keyword; for an
    operation that may leave anything behind, whenever the keyword actually modified the value. -/
theorem modifier_restores {α : Type} (ok : α → Bool) (sh : ModShape) (hsh : sh = modSync ∨ sh = modAsync)
    (drv : Nat) (kw : Option Nat) (f : Nat → Nat × α) (err : α) :
    ((∀ d, (f d).1 = d) → (modifier ok sh kw f err drv).1 = drv) ∧
    (∀ k, kw = some k → k ≠ drv → (modifier ok sh kw f err drv).1 = drv) := by
  rcases hsh with rfl | rfl <;> cases kw with
  | none => simp [modifier, modSync, modAsync, modKeepSync, modKeepAsync, keepHolds]; intro h; exact h drv
  | some k =>
    by_cases h : k = drv
    · subst h; simp [modifier, modSync, modAsync, modKeepSync, modKeepAsync, keepHolds]; intro h; exact h k
    · simp [modifier, modSync, modAsync, modKeepSync, modKeepAsync, modRestoresSync, modRestoresAsync,
        modRestoreInFinallySync, modRestoreInFinallyAsync, keepHolds, h]

example : (modifier (fun (o : Out) => o == .ret) modAsync (some 0) (fun _ => (7, .error)) .error 30).1 = 30 := by decide

/-- **modified_op_limit**: a driver operation (modifier over a decorated channel operation over any body, any
    mechanism, any process state) IS the channel operation run with timeout `limitInForce drv kw`, and the
    driver-level value afterwards is `drv`. -/
theorem modified_op_limit (sh : ModShape) (hsh : sh = modSync ∨ sh = modAsync) (cfg : Cfg) (m : Mech) (name : String)
    (body : Prog) (p : Proc) (drv : Nat) (kw : Option Nat) :
    modifiedOp sh cfg m name body p drv kw = (drv, run cfg m (.call (limitInForce drv kw) name body .ret) p) := by
  have h1 := modifier_limit_in_force (fun r : Res => r.out == .ret) sh hsh drv kw
    (fun t => (t, run cfg m (.call t name body .ret) p))
    { fin := some p.now, out := .error, closed := p.closed, handler := p.handler, timer := p.timer }
  have h2 := (modifier_restores (fun r : Res => r.out == .ret) sh hsh drv kw
    (fun t => (t, run cfg m (.call t name body .ret) p))
    { fin := some p.now, out := .error, closed := p.closed, handler := p.handler, timer := p.timer }).1 (fun _ => rfl)
  exact Prod.ext h2 h1

/-- **modified_op_zero_disables**: `timeout_ops=0` on the call disables the limit for that call whatever the
    driver-level value: the operation IS its body (same result, same time, same process state), every mechanism. -/
theorem modified_op_zero_disables (sh : ModShape) (hsh : sh = modSync ∨ sh = modAsync) (cfg : Cfg) (m : Mech)
    (name : String) (body : Prog) (p : Proc) (drv : Nat) :
    modifiedOp sh cfg m name body p drv (some 0) = (drv, run cfg m body p) := by
  rw [modified_op_limit sh hsh]
  simp only [limitInForce, (zero_disables cfg false "" false true m name body p).2]

/-- **modified_op_asyncio_must_time_out**: with a positive keyword `k` the asyncio operation on a device that does not
    answer before `k` raises ScrapliTimeout(mapped message) exactly at `s + k` — `k`, not the driver-level value. -/
theorem modified_op_asyncio_must_time_out (cfg : Cfg) (name : String) (body : Prog) (p : Proc) (drv k : Nat) (hk : k ≠ 0)
    (hu : body.unarmed = true) (hl : ∀ d o, body.natural = (some d, o) → k ≤ d) :
    let r := (modifiedOp modAsync cfg .asyncio name body p drv (some k)).2
    r.fin = some (p.now + k) ∧ r.out = .timeout (message name) ∧ r.closed = (if cfg.noTerminate then p.closed else true) := by
  rw [modified_op_limit modAsync (Or.inr rfl)]
  simp only [limitInForce, run, asyncio_must_time_out cfg k name body p.now p.closed hk hu hl]
  refine ⟨?_, ?_, ?_⟩ <;> first | trivial | rfl

/-- … and the signal mechanism likewise (no alarm pending before) -/
theorem modified_op_signal_must_time_out (cfg : Cfg) (name : String) (body : Prog) (p : Proc) (drv k : Nat) (hk : k ≠ 0)
    (hu : body.unarmed = true) (hp : p.timer = none) (hl : ∀ d o, body.natural = (some d, o) → k ≤ d) :
    let r := (modifiedOp modSync cfg .signal name body p drv (some k)).2
    r.fin = some (p.now + k) ∧ r.out = .timeout (message name) ∧ r.closed = (if cfg.noTerminate then p.closed else true) := by
  rw [modified_op_limit modSync (Or.inl rfl)]
  have h := signal_must_time_out cfg k name body p hk hu hp hl
  simp only [wrapSignal] at h
  simp only [limitInForce, run, runS_call_ret, h]
  refine ⟨?_, ?_, ?_⟩ <;> first | trivial | rfl

example : (modifiedOp modAsync {} .asyncio "send_input" (.work 3 .ret) {} 2 (some 0)).2.out = .ret ∧
    (modifiedOp modAsync {} .asyncio "send_input" (.work 3 .ret) {} 2 none).2.out = .timeout (message "send_input") ∧
    (modifiedOp modSync {} .signal "send_input" .hang {} 0 (some 5)).2.fin = some 5 := by decide

/-- the operations that carry the modifier: the same three on both stacks (everything else hands the keyword down) -/
theorem modifier_sites_pinned :
    modifiedSync.map (·.2) = ["_send_command", "send_and_read", "send_interactive"] ∧
    modifiedAsync.map (·.2) = modifiedSync.map (·.2) := by decide

end Scrapli.Timeout
