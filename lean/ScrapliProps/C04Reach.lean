import ScrapliProps.C04Loop
/-
  Helper lemmas for C04 `acquire_reaches` / `next_hop_action`: the cooperative mode device and the
  navigation of the acquire loop along the tree path.
-/
namespace Scrapli.Priv
open Scrapli.Gen.Priv

/-- the table's commands are unambiguous for the device: two levels above the same level have
    different escalate commands, and the deescalate command of a level is not the escalate command
    of one of its children -/
def CmdsOK (t : Table) : Prop :=
  ∀ l ∈ t, l.prev ≠ "" → ∀ l' ∈ t,
    (l'.prev = l.prev → l'.esc = l.esc → l' = l) ∧ (l'.name = l.prev → l'.prev ≠ "" → l'.desc ≠ l.esc)

instance (t : Table) : Decidable (CmdsOK t) := by unfold CmdsOK; infer_instance

/-- a cooperative mode device: nothing blocked, the secondary password (if it demands one) is the
    driver's, and neither the bare return nor (when the device never asks) the secondary password
    typed as a command moves it -/
structure Coop (t : Table) (c : Cfg) (cfg : MCfg) : Prop where
  noBlock : cfg.blocked = []
  pw : cfg.password = none ∨ cfg.password = some c.secondary
  inertRet : ∀ m, tableMove t cfg.extra m "" = none
  inertSec : cfg.password = none → ∀ m, tableMove t cfg.extra m c.secondary = none

/-- level `m` does not share its prompt -/
def Unamb (t : Table) (m : Name) : Prop :=
  ∀ l ∈ t, ∀ l' ∈ t, l.name = m → l'.pat = l.pat → l'.name = m

instance (t : Table) (m : Name) : Decidable (Unamb t m) := by unfold Unamb; infer_instance

/-! ### the device's reactions -/

theorem tableMove_desc {t : Table} {ex : List (Name × Line × Name)} {a : Name} {la : Level}
    (hl : lookup t a = some la) (hp : la.prev ≠ "") : tableMove t ex a la.desc = some (la.prev, false) := by
  unfold tableMove; rw [hl]; simp [hp]

theorem tableMove_esc {t : Table} (hc : CmdsOK t) {ex : List (Name × Line × Name)} {lx : Level}
    (hx : lx ∈ t) (hp : lx.prev ≠ "") : tableMove t ex lx.prev lx.esc = some (lx.name, lx.auth) := by
  have hfind : ∃ l0, t.find? (fun l => l.prev == lx.prev && l.prev != "" && l.esc == lx.esc) = some l0 := by
    cases hf : t.find? (fun l => l.prev == lx.prev && l.prev != "" && l.esc == lx.esc) with
    | some l0 => exact ⟨l0, rfl⟩
    | none =>
      have := List.find?_eq_none.mp hf lx hx
      simp [hp] at this
  obtain ⟨l0, hl0⟩ := hfind
  have hm := List.mem_of_find?_eq_some hl0
  have hpred := List.find?_some hl0
  simp only [Bool.and_eq_true, beq_iff_eq, bne_iff_ne] at hpred
  have e : l0 = lx := ((hc lx hx hp) l0 hm).1 hpred.1.1 hpred.2
  subst e
  unfold tableMove
  cases hl : lookup t l0.prev with
  | none => simp [hl0]
  | some la =>
    obtain ⟨h1, h2⟩ := lookup_some hl
    have := ((hc l0 hx hp) la h1).2 h2
    by_cases hla : la.prev = ""
    · simp [hla, hl0]
    · simp [hla, this hla, hl0]

/-- a line that is no escalate / deescalate command of a non-root level and no vendor move moves nothing -/
theorem tableMove_none {t : Table} {ex : List (Name × Line × Name)} {line : Line}
    (h1 : ∀ l ∈ t, l.prev = "" ∨ (l.desc ≠ line ∧ l.esc ≠ line)) (h2 : ∀ e ∈ ex, e.2.1 ≠ line) (m : Name) :
    tableMove t ex m line = none := by
  have b : t.find? (fun l => l.prev == m && l.prev != "" && l.esc == line) = none := by
    apply List.find?_eq_none.mpr; intro l hl
    rcases h1 l hl with h | h
    · simp [h]
    · simp [h.2]
  have c' : ex.find? (fun e => e.1 == m && e.2.1 == line) = none := by
    apply List.find?_eq_none.mpr; intro e he; simp [h2 e he]
  unfold tableMove
  cases hl : lookup t m with
  | none => simp [b, c']
  | some l =>
    rcases h1 l (lookup_some hl).1 with h | h
    · simp [h, b, c']
    · simp [h.1, b, c']

theorem exec_inert {cfg : MCfg} {t : Table} {s : MDev} {line : Line} (hp : s.pending = none)
    (hb : cfg.blocked = []) (hm : tableMove t cfg.extra s.mode line = none) :
    MDev.exec cfg t s line =
      ({ s with log := s.log ++ [(s.mode, line)] }, .prompt (promptKey t s.mode) (cfg.failLines.contains line)) := by
  unfold MDev.exec; simp [hp, hb, hm]

theorem exec_move {cfg : MCfg} {t : Table} {s : MDev} {line : Line} {tgt : Name} {ask : Bool}
    (hp : s.pending = none) (hb : cfg.blocked = []) (hm : tableMove t cfg.extra s.mode line = some (tgt, ask))
    (hask : ask = false ∨ cfg.password = none) :
    MDev.exec cfg t s line =
      ({ s with log := s.log ++ [(s.mode, line)], mode := tgt }, .prompt (promptKey t tgt) false) := by
  unfold MDev.exec
  rcases hask with h | h <;> simp [hp, hb, hm, h]

theorem exec_ask {cfg : MCfg} {t : Table} {s : MDev} {line : Line} {tgt : Name} {pw : Line}
    (hp : s.pending = none) (hb : cfg.blocked = []) (hm : tableMove t cfg.extra s.mode line = some (tgt, true))
    (hpw : cfg.password = some pw) :
    MDev.exec cfg t s line =
      ({ s with log := s.log ++ [(s.mode, line)], pending := some tgt, tries := 0 }, .password) := by
  unfold MDev.exec; simp [hp, hb, hm, hpw]

theorem exec_pw_ok {cfg : MCfg} {t : Table} {s : MDev} {line : Line} {tgt : Name}
    (hp : s.pending = some tgt) (hpw : cfg.password = some line) :
    MDev.exec cfg t s line =
      ({ s with mode := tgt, pending := none, tries := 0 }, .prompt (promptKey t tgt) false) := by
  unfold MDev.exec; simp [hp, hpw]

/-! ### classification of the prompt of a mode -/

theorem mem_classify {t : Table} {keys : List String} {v : Name} :
    v ∈ classify t keys ↔ ∃ l ∈ t, l.name = v ∧ l.pat ∈ keys := by
  unfold classify
  simp only [List.mem_map, List.mem_filter, List.contains_eq_mem, decide_eq_true_eq]
  constructor
  · rintro ⟨l, ⟨h1, h2⟩, rfl⟩; exact ⟨l, h1, rfl, h2⟩
  · rintro ⟨l, h1, rfl, h2⟩; exact ⟨l, ⟨h1, h2⟩, rfl⟩

theorem classify_sub {t : Table} {keys : List String} {v : Name} (h : v ∈ classify t keys) : v ∈ names t := by
  obtain ⟨l, hl, rfl, _⟩ := mem_classify.mp h
  exact List.mem_map_of_mem (f := (·.name)) hl

/-- generated obligation: classification searches with re.I and re.M, so the device assumption applies -/
theorem classifies_prompts : classifiesPrompts = true := by decide

theorem promptKey_def (t : Table) (m : Name) :
    promptKey t m = match lookup t m with | some l => [l.pat] | none => [] := by
  unfold promptKey; rw [classifies_prompts]; rfl

theorem self_mem_classify {t : Table} {m : Name} {lm : Level} (hl : lookup t m = some lm) :
    m ∈ classify t (promptKey t m) := by
  obtain ⟨h1, h2⟩ := lookup_some hl
  exact mem_classify.mpr ⟨lm, h1, h2, by simp [promptKey_def, hl]⟩

theorem classify_unamb {t : Table} {m : Name} {lm : Level} (hl : lookup t m = some lm) (hu : Unamb t m) {v : Name}
    (hv : v ∈ classify t (promptKey t m)) : v = m := by
  obtain ⟨l, h1, rfl, h3⟩ := mem_classify.mp hv
  obtain ⟨g1, g2⟩ := lookup_some hl
  simp [promptKey_def, hl] at h3
  exact hu lm g1 l h1 g2 h3

/-! ### the channel primitives against the cooperative device -/

/-- where the channel of a mode device stands -/
structure At (ch : Chan MDev) (m : Name) (log : List (Name × Line)) (rounds : Nat) : Prop where
  isOpen : ch.closed = false
  mode : ch.dev.mode = m
  idle : ch.dev.pending = none
  log : ch.dev.log = log
  rounds : ch.rounds = rounds

theorem io_inert {cfg : MCfg} {t : Table} {ch : Chan MDev} {m : Name} {log : List (Name × Line)} {r : Nat} {line : Line}
    (h : At ch m log r) (hb : cfg.blocked = []) (hm : tableMove t cfg.extra m line = none) :
    ∃ ch', io (modeDev cfg) t ch line = (ch', some (.prompt (promptKey t m) (cfg.failLines.contains line))) ∧
      At ch' m (log ++ [(m, line)]) r := by
  have he := exec_inert (cfg := cfg) (t := t) (s := ch.dev) (line := line) h.idle hb (by rw [h.mode]; exact hm)
  refine ⟨{ ch with dev := { ch.dev with log := ch.dev.log ++ [(ch.dev.mode, line)] } }, ?_, ?_⟩
  · unfold io; simp only [h.isOpen, Bool.false_eq_true, if_false, modeDev, he, h.mode]
  · exact ⟨h.isOpen, h.mode, h.idle, by simp [h.log, h.mode], h.rounds⟩

theorem io_move {cfg : MCfg} {t : Table} {ch : Chan MDev} {a tgt : Name} {ask : Bool} {log : List (Name × Line)} {r : Nat}
    {line : Line} (h : At ch a log r) (hb : cfg.blocked = []) (hm : tableMove t cfg.extra a line = some (tgt, ask))
    (hask : ask = false ∨ cfg.password = none) :
    ∃ ch', io (modeDev cfg) t ch line = (ch', some (.prompt (promptKey t tgt) false)) ∧
      At ch' tgt (log ++ [(a, line)]) r := by
  have he := exec_move (cfg := cfg) (t := t) (s := ch.dev) (line := line) h.idle hb (by rw [h.mode]; exact hm) hask
  refine ⟨{ ch with dev := { ch.dev with log := ch.dev.log ++ [(ch.dev.mode, line)], mode := tgt } }, ?_, ?_⟩
  · unfold io; simp only [h.isOpen, Bool.false_eq_true, if_false, modeDev, he]
  · exact ⟨h.isOpen, rfl, h.idle, by simp [h.log, h.mode], h.rounds⟩

theorem getPrompt_coop {cfg : MCfg} {t : Table} {c : Cfg} {ch : Chan MDev} {m : Name} {log : List (Name × Line)} {r : Nat}
    (h : At ch m log r) (hco : Coop t c cfg) :
    ∃ ch', getPrompt (modeDev cfg) t ch = (ch', .ok (classify t (promptKey t m))) ∧
      At ch' m (log ++ [(m, "")]) (r + 1) := by
  obtain ⟨ch1, e, h1⟩ := io_inert h hco.noBlock (hco.inertRet m)
  refine ⟨{ ch1 with rounds := ch1.rounds + 1 }, ?_, ?_⟩
  · unfold getPrompt; rw [e]
  · exact ⟨h1.isOpen, h1.mode, h1.idle, h1.log, by simp [h1.rounds]⟩

theorem sendInput_move {cfg : MCfg} {t : Table} {ch : Chan MDev} {a tgt : Name} {log : List (Name × Line)} {r : Nat}
    {line : Line} (h : At ch a log r) (hb : cfg.blocked = []) (hm : tableMove t cfg.extra a line = some (tgt, false)) :
    ∃ ch', sendInput (modeDev cfg) t ch line = (ch', .ok false) ∧ At ch' tgt (log ++ [(a, line)]) r := by
  obtain ⟨ch1, e, h1⟩ := io_move h hb hm (Or.inl rfl)
  exact ⟨ch1, by unfold sendInput; rw [e], h1⟩

/-- what the authenticated escalation leaves in the device log -/
def authLog (sec : Line) (pw : Option Line) (a x : Name) (esc : Line) : List (Name × Line) :=
  match pw with
  | some _ => [(a, esc)]                 -- the password answer is not a command
  | none =>                              -- the device never asked:
    if interactBreaksOnComplete then [(a, esc)]     -- the interactive session ends at the new level's prompt
    else [(a, esc), (x, sec)]                       -- (before the fix) the secondary password was typed as a command

theorem escalateAuth_coop {cfg : MCfg} {t : Table} {c : Cfg} {ch : Chan MDev} {a : Name} {log : List (Name × Line)} {r : Nat}
    {lx la : Level} (h : At ch a log r) (hco : Coop t c cfg) (hlx : lookup t lx.name = some lx)
    (hm : tableMove t cfg.extra a lx.esc = some (lx.name, true)) :
    ∃ ch', escalateAuth c (modeDev cfg) t ch lx la = (ch', .ok) ∧
      At ch' lx.name (log ++ authLog c.secondary cfg.password a lx.name lx.esc) r := by
  have hkey : promptKey t lx.name = [lx.pat] := by simp [promptKey_def, hlx]
  cases hpw : cfg.password with
  | none =>
    obtain ⟨ch1, e1, h1⟩ := io_move h hco.noBlock hm (Or.inr hpw)
    have hd1 : eventDone true la lx (.prompt (promptKey t lx.name) false) = true := by simp [eventDone, hkey]
    cases hbr : interactBreaksOnComplete with
    | true =>
      refine ⟨ch1, ?_, ?_⟩
      · unfold escalateAuth; rw [e1]; simp only [hd1, if_true, hbr, endedOnComplete, Bool.and_self]
      · simpa [authLog, hbr] using h1
    | false =>
      obtain ⟨ch2, e2, h2⟩ := io_inert h1 hco.noBlock (hco.inertSec hpw lx.name)
      refine ⟨ch2, ?_, ?_⟩
      · unfold escalateAuth; rw [e1]; simp only [hd1, if_true, hbr, Bool.false_and, Bool.false_eq_true, if_false]
        unfold escalateSecond; rw [e2]; simp [eventDone, hkey]
      · simpa [authLog, hbr, List.append_assoc] using h2
  | some pw =>
    have hsec : pw = c.secondary := by
      rcases hco.pw with h' | h' <;> rw [hpw] at h' <;> simp at h'; exact h'
    subst hsec
    have he1 := exec_ask (cfg := cfg) (t := t) (s := ch.dev) (line := lx.esc) h.idle hco.noBlock (by rw [h.mode]; exact hm) hpw
    have he2 := exec_pw_ok (cfg := cfg) (t := t)
      (s := { ch.dev with log := ch.dev.log ++ [(ch.dev.mode, lx.esc)], pending := some lx.name, tries := 0 })
      (line := c.secondary) (tgt := lx.name) rfl hpw
    refine ⟨{ ch with dev := { mode := lx.name, login := ch.dev.login, pending := none, tries := 0,
                                log := ch.dev.log ++ [(ch.dev.mode, lx.esc)] } }, ?_, ?_⟩
    · unfold escalateAuth escalateSecond
      simp only [io, h.isOpen, Bool.false_eq_true, if_false, modeDev, he1, eventDone, if_true, endedOnComplete, Bool.and_false, he2, hkey]
      simp
    · exact ⟨h.isOpen, rfl, rfl, by simp [authLog, h.log, h.mode], h.rounds⟩

/-! ### one pass of the acquire loop against the cooperative device -/

theorem pickCurrent_at {t : Table} (hw : WF t) {m dest belief : Name} {lm : Level} (hl : lookup t m = some lm)
    (hb : belief = m ∨ belief = DUMMY) (hamb : m = dest ∨ belief = m ∨ Unamb t m) {c0 : Name} {rest : List Name}
    (hc : classify t (promptKey t m) = c0 :: rest) : pickCurrent belief dest (c0 :: rest) c0 = m := by
  have hm : m ∈ c0 :: rest := hc ▸ self_mem_classify hl
  unfold pickCurrent
  by_cases h1 : belief = m
  · simp [h1, hm]
  · have hbd : belief = DUMMY := by rcases hb with h | h; exact absurd h h1; exact h
    have hnd : belief ∉ c0 :: rest := by
      rw [hbd, ← hc]; exact fun h => hw.noDummy (classify_sub h)
    simp only [hnd, if_false]
    rcases hamb with h | h | h
    · simp [← h, hm]
    · exact absurd h h1
    · by_cases hd : dest ∈ c0 :: rest
      · simp only [hd, if_true]; exact classify_unamb hl h (hc ▸ hd)
      · simp only [hd, if_false]; exact classify_unamb hl h (hc ▸ List.mem_cons_self)

/-- the device log of one hop `a → x` (after the bare return of get_prompt) -/
def hopLog (t : Table) (sec : Line) (pw : Option Line) (a x : Name) : List (Name × Line) :=
  match lookup t a, lookup t x with
  | some la, some lx =>
    if lx.prev = a then (if lx.auth then authLog sec pw a x lx.esc else [(a, lx.esc)]) else [(a, la.desc)]
  | _, _ => []

/-- the device log of a whole navigation along `p`: a bare return in every level visited, and
    between two of them the single table command for that edge (plus, after an authenticated
    escalation on a device that never asks, the secondary password typed as a command) -/
def navLog (t : Table) (sec : Line) (pw : Option Line) : List Name → List (Name × Line)
  | [] => []
  | [b] => [(b, "")]
  | a :: x :: r => (a, "") :: hopLog t sec pw a x ++ navLog t sec pw (x :: r)

theorem ne_dummy_of_mem {t : Table} (hw : WF t) {a : Name} (ha : a ∈ names t) : a ≠ DUMMY :=
  fun h => hw.noDummy (h ▸ ha)

/-- arrival: in the destination level the pass ends the call, belief := destination -/
theorem acquireIter_arrive {t : Table} (hw : WF t) {c : Cfg} {cfg : MCfg} (hco : Coop t c cfg) {dest : Name}
    (hd : dest ∈ names t) (w : W MDev) (hwt : w.tbl = t) {log : List (Name × Line)} {r : Nat}
    (hat : At w.ch dest log r) (hb : w.belief = dest ∨ w.belief = DUMMY) :
    ∃ w', acquireIter c (modeDev cfg) dest w = (w', some .ok) ∧ w'.tbl = t ∧ w'.belief = dest ∧
      w'.generic = w.generic ∧ w'.ulog = w.ulog ∧ w'.hazard = w.hazard ∧ At w'.ch dest (log ++ [(dest, "")]) (r + 1) := by
  subst hwt
  obtain ⟨ld, hld⟩ := Option.isSome_iff_exists.mp (lookup_isSome_iff.mpr hd)
  obtain ⟨ch1, eg, h1⟩ := getPrompt_coop hat hco
  have hmem := self_mem_classify hld
  cases hcls : classify w.tbl (promptKey w.tbl dest) with
  | nil => rw [hcls] at hmem; cases hmem
  | cons c0 rest =>
    have hpick := pickCurrent_at hw hld hb (Or.inl rfl) hcls
    have hname : ld.name = dest := (lookup_some hld).2
    have hpa : processAcquire w.tbl (c.ord w.tbl) w.belief dest (c0 :: rest) = (dest, .ok .noAction) := by
      unfold processAcquire; simp only [hpick, hld, hname, if_true]
    refine ⟨{ w with ch := ch1, hazard := w.hazard || (w.belief == DUMMY && (c0 :: rest).contains dest && (modeDev cfg).mode ch1.dev != dest), belief := dest }, ?_, rfl, rfl, rfl, rfl, ?_, h1⟩
    · unfold acquireIter; rw [eg, hcls]; simp only [hpa]
    · show (w.hazard || _) = w.hazard
      have : (modeDev cfg).mode ch1.dev = dest := h1.mode
      simp [this]

/-- **the first hop of the change map is taken by the single table command for that edge** -/
theorem nextAction_hop {t : Table} (hw : WF t) (hc : CmdsOK t) {nb : Name → List Name} (hnb : NbOK t nb)
    {a x dest : Name} {rest : List Name} (hp : Path t a dest (a :: x :: rest)) (hn : (a :: x :: rest).Nodup)
    {la : Level} (hla : lookup t a = some la) (ex : List (Name × Line × Name)) :
    ∃ lx, lookup t x = some lx ∧
      ((lx.prev = a ∧ nextAction t nb la dest = .ok (.escalate lx) ∧ tableMove t ex a lx.esc = some (x, lx.auth)) ∨
       (lx.prev ≠ a ∧ nextAction t nb la dest = .ok (.deescalate la) ∧ tableMove t ex a la.desc = some (x, false))) := by
  have hadj : Adj t a x := by
    cases hp with
    | cons h hp' => obtain ⟨r, e⟩ := hp'.head; cases e; exact h
  have hx : x ∈ names t := (hadj.mem hw).2
  have ha : a ∈ names t := (hadj.mem hw).1
  obtain ⟨lx, hlx⟩ := Option.isSome_iff_exists.mp (lookup_isSome_iff.mpr hx)
  have hmap : changeMap t nb la.name dest = a :: x :: rest := by
    rw [(lookup_some hla).2]; exact changeMap_eq hw hnb hp hn
  have hane : a ≠ "" := fun h => hw.noEmpty (h ▸ ha)
  refine ⟨lx, hlx, ?_⟩
  by_cases hpx : lx.prev = a
  · left
    refine ⟨hpx, ?_, ?_⟩
    · unfold nextAction; rw [hmap]; simp [hlx, hpx, (lookup_some hla).2]
    · have := tableMove_esc hc (ex := ex) (lookup_some hlx).1 (by rw [hpx]; exact hane)
      rw [hpx, (lookup_some hlx).2] at this; exact this
  · right
    have hpar : parent t a = some x := by
      rcases hadj with h | h
      · exact h
      · obtain ⟨l', hl', hprev, _⟩ := parent_some h
        rw [hlx] at hl'; cases hl'; exact absurd hprev hpx
    obtain ⟨l', hl', hprev, hne⟩ := parent_some hpar
    rw [hla] at hl'; cases hl'
    refine ⟨hpx, ?_, ?_⟩
    · unfold nextAction; rw [hmap]; simp [hlx, hpx, (lookup_some hla).2]
    · have := tableMove_desc (ex := ex) hla (by rw [hprev]; exact hne)
      rw [hprev] at this; exact this

theorem escalate_coop {cfg : MCfg} {t : Table} {c : Cfg} {ch : Chan MDev} {a : Name} {log : List (Name × Line)} {r : Nat}
    {lx la : Level} (h : At ch a log r) (hco : Coop t c cfg) (hlx : lookup t lx.name = some lx) (hpx : lx.prev = a)
    (hla : lookup t a = some la) (hm : tableMove t cfg.extra a lx.esc = some (lx.name, lx.auth)) :
    ∃ ch', escalate c (modeDev cfg) t ch lx = (ch', .ok) ∧
      At ch' lx.name (log ++ (if lx.auth then authLog c.secondary cfg.password a lx.name lx.esc else [(a, lx.esc)])) r := by
  unfold escalate
  by_cases hauth : lx.auth = false
  · rw [hauth] at hm
    obtain ⟨ch1, e, h1⟩ := sendInput_move h hco.noBlock hm
    exact ⟨ch1, by simp only [hauth, if_true, e], by simpa [hauth] using h1⟩
  · have hauth' : lx.auth = true := by simpa using hauth
    rw [hauth'] at hm
    obtain ⟨ch1, e, h1⟩ := escalateAuth_coop (la := la) h hco hlx hm
    exact ⟨ch1, by simp [hauth', hpx, hla, e], by simpa [hauth'] using h1⟩

/-- one hop: in level `a ≠ dest` the pass issues the single command towards the next level on the path -/
theorem acquireIter_hop {t : Table} (hw : WF t) (hc : CmdsOK t) {c : Cfg} {cfg : MCfg} (hnb : NbOK t (c.ord t))
    (hco : Coop t c cfg) {a x dest : Name} {rest : List Name} (hp : Path t a dest (a :: x :: rest))
    (hn : (a :: x :: rest).Nodup) (w : W MDev) (hwt : w.tbl = t) {log : List (Name × Line)} {r : Nat}
    (hat : At w.ch a log r) (hb : w.belief = a ∨ w.belief = DUMMY) (hamb : w.belief = a ∨ Unamb t a) :
    ∃ w', acquireIter c (modeDev cfg) dest w = (w', none) ∧ w'.tbl = t ∧ w'.belief = DUMMY ∧
      w'.generic = w.generic ∧ w'.ulog = w.ulog ∧ w'.hazard = w.hazard ∧
      At w'.ch x (log ++ (a, "") :: hopLog t c.secondary cfg.password a x) (r + 1) := by
  subst hwt
  have ha : a ∈ names w.tbl := hp.mem_names hw a hp.head_mem
  have hane : a ≠ dest := fun e => (List.nodup_cons.mp hn).1 (e ▸ (by
    cases hp with | cons _ hp' => exact hp'.last_mem))
  obtain ⟨la, hla⟩ := Option.isSome_iff_exists.mp (lookup_isSome_iff.mpr ha)
  obtain ⟨ch1, eg, h1⟩ := getPrompt_coop hat hco
  have hmem := self_mem_classify hla
  cases hcls : classify w.tbl (promptKey w.tbl a) with
  | nil => rw [hcls] at hmem; cases hmem
  | cons c0 rest' =>
    have hpick := pickCurrent_at hw hla hb (Or.inr hamb) (dest := dest) hcls
    have hname : la.name = a := (lookup_some hla).2
    have hpa : processAcquire w.tbl (c.ord w.tbl) w.belief dest (c0 :: rest') =
        (DUMMY, nextAction w.tbl (c.ord w.tbl) la dest) := by
      unfold processAcquire; simp only [hpick, hla, hname, hane, if_false]
    have hhz : (w.hazard || (w.belief == DUMMY && (c0 :: rest').contains dest && (modeDev cfg).mode ch1.dev != dest)) = w.hazard := by
      rcases hamb with h | h
      · have : (w.belief == DUMMY) = false := by rw [h]; simpa using ne_dummy_of_mem hw ha
        simp [this]
      · have : (c0 :: rest').contains dest = false := by
          rw [← hcls]
          simp only [List.contains_eq_mem, decide_eq_false_iff_not]
          exact fun hd => hane (classify_unamb hla h hd).symm
        rw [this]; simp
    obtain ⟨lx, hlx, hcase⟩ := nextAction_hop hw hc hnb hp hn hla cfg.extra
    have hxn : lx.name = x := (lookup_some hlx).2
    rcases hcase with ⟨hpx, hna, hmv⟩ | ⟨hpx, hna, hmv⟩
    · -- escalate to lx
      rw [← hxn] at hmv hlx
      obtain ⟨ch2, e2, h2⟩ := escalate_coop h1 hco hlx hpx hla hmv
      refine ⟨{ w with ch := ch2, hazard := w.hazard || (w.belief == DUMMY && (c0 :: rest').contains dest && (modeDev cfg).mode ch1.dev != dest), belief := DUMMY }, ?_, rfl, rfl, rfl, rfl, hhz, ?_⟩
      · unfold acquireIter; rw [eg, hcls]; simp only [hpa, hna, e2]
      · rw [hxn] at h2 hlx
        have : hopLog w.tbl c.secondary cfg.password a x =
            (if lx.auth then authLog c.secondary cfg.password a x lx.esc else [(a, lx.esc)]) := by
          unfold hopLog; simp [hla, hlx, hpx]
        rw [this]
        simpa [List.append_assoc] using h2
    · -- deescalate from la
      obtain ⟨ch2, e2, h2⟩ := sendInput_move h1 hco.noBlock hmv
      refine ⟨{ w with ch := ch2, hazard := w.hazard || (w.belief == DUMMY && (c0 :: rest').contains dest && (modeDev cfg).mode ch1.dev != dest), belief := DUMMY }, ?_, rfl, rfl, rfl, rfl, hhz, ?_⟩
      · unfold acquireIter; rw [eg, hcls]; simp only [hpa, hna, e2]
      · have : hopLog w.tbl c.secondary cfg.password a x = [(a, la.desc)] := by
          unfold hopLog; simp [hla, hlx, hpx]
        rw [this]
        simpa [List.append_assoc] using h2

/-- the whole navigation: along the simple path `p` from the device's level to `dest` -/
theorem acquireLoop_reaches {t : Table} (hw : WF t) (hc : CmdsOK t) {c : Cfg} {cfg : MCfg} (hnb : NbOK t (c.ord t))
    (hco : Coop t c cfg) {dest : Name} :
    ∀ {a : Name} {p : List Name}, Path t a dest p → p.Nodup →
    ∀ (w : W MDev) (fuel count : Nat) (log : List (Name × Line)) (r : Nat), w.tbl = t → At w.ch a log r →
      (w.belief = a ∨ w.belief = DUMMY) →
      (∀ v ∈ p, v ≠ dest → (v = a ∧ w.belief = a) ∨ Unamb t v) →
      p.length ≤ fuel → count + p.length ≤ t.length * loopFactor + 1 →
      ∃ w', acquireLoop c (modeDev cfg) dest fuel count w = (w', .ok) ∧ w'.tbl = t ∧ w'.belief = dest ∧
        w'.generic = w.generic ∧ w'.ulog = w.ulog ∧ w'.hazard = w.hazard ∧
        At w'.ch dest (log ++ navLog t c.secondary cfg.password p) (r + p.length) := by
  intro a p hp
  induction hp with
  | single a ha =>
    intro _ w fuel count log r hwt hat hb _ hf _
    cases fuel with
    | zero => simp at hf
    | succ fuel =>
      obtain ⟨w', e, h1, h2, h3, h4, h5, h6⟩ := acquireIter_arrive hw hco ha w hwt hat hb
      exact ⟨w', by unfold acquireLoop; rw [e], h1, h2, h3, h4, h5, by simpa [navLog] using h6⟩
  | @cons a x dest p hadj hp' ih =>
    intro hn w fuel count log r hwt hat hb hamb hf hcnt
    obtain ⟨rest, rfl⟩ := hp'.head
    cases fuel with
    | zero => simp at hf
    | succ fuel =>
      have hane : a ≠ dest := fun e => (List.nodup_cons.mp hn).1 (e ▸ hp'.last_mem)
      have hamb0 : w.belief = a ∨ Unamb t a := by
        rcases hamb a (by simp) hane with h | h
        · exact Or.inl h.2
        · exact Or.inr h
      obtain ⟨w1, e, h1, h2, h3, h4, h5, h6⟩ :=
        acquireIter_hop hw hc hnb hco (.cons hadj hp') hn w hwt hat hb hamb0
      have hamb' : ∀ v ∈ x :: rest, v ≠ dest → (v = x ∧ w1.belief = x) ∨ Unamb t v := by
        intro v hv hvd
        rcases hamb v (List.mem_cons_of_mem _ hv) hvd with h | h
        · exact absurd (h.1 ▸ hv) (List.nodup_cons.mp hn).1
        · exact Or.inr h
      simp only [List.length_cons] at hf hcnt
      obtain ⟨w2, e2, g1, g2, g3, g4, g5, g6⟩ :=
        ih (List.nodup_cons.mp hn).2 w1 fuel (count + 1) _ _ h1 h6 (Or.inr h2) hamb'
          (by simp only [List.length_cons]; omega) (by simp only [List.length_cons]; omega)
      refine ⟨w2, ?_, g1, g2, g3.trans h3, g4.trans h4, g5.trans h5, ?_⟩
      · unfold acquireLoop; rw [e]
        have : ¬ (count + 1 > w1.tbl.length * loopFactor) := by rw [h1]; omega
        simp only [this, if_false]; exact e2
      · have : log ++ navLog t c.secondary cfg.password (a :: x :: rest) =
            log ++ (a, "") :: hopLog t c.secondary cfg.password a x ++ navLog t c.secondary cfg.password (x :: rest) := by
          simp [navLog]
        rw [this]
        have hl : r + (a :: x :: rest).length = r + 1 + (x :: rest).length := by simp only [List.length_cons]; omega
        rw [hl]
        exact g6

end Scrapli.Priv
