import ScrapliProps.C02Decor
/-
  C02 — whole sessions over a DECORATING device (property theorems only; lemmas: C02Decor.lean).
  Quantifiers: every decoration `D` of the device's output bursts by carriage returns and complete tame
  escape sequences (`Decorates`), every segmentation of every read (read boundaries inside sequences
  included), every command list inside the quantifier of C01.
-/
namespace Scrapli.Chan
open Scrapli

/-- **one command over the decorating device**: the raw result is the device's TEXT (the response without
    any decoration, after at most blank residue, before part of the trailing blanks), the processed result is
    `expected` — the same function of the command alone as without decoration —, the input and one return
    are written, and what is left unread is a decorated rest of the trailing blanks -/
theorem decorated_send_input_exact {P : Bytes → Bool} {cfg : Cfg} {dv : LineDev} (hf : Fits P cfg dv)
    (D : Nat → Bytes → Bytes) (hD : Decorates D) (input : Bytes) (hg : GoodCmd P dv input) (stripPrompt : Bool)
    (w : Wire) (hres : ∀ x ∈ w.avail, isHws x = true) (hheld : w.held = []) (n : Nat) :
    ∃ raw w' res', sendInput cfg (decOnWrite dv D) input stripPrompt false false (w, ([], n)) =
        some ((raw, expected cfg dv stripPrompt input), (w', ([], n + 2))) ∧
      (∃ L t', (∀ x ∈ L, isWs x = true) ∧ t' <+: dv.trail ∧ raw = L ++ dv.rbody input ++ NL :: dv.prompt ++ t') ∧
      w'.writes = w.writes ++ [input, cfg.ret] ∧ Dec w' res' ∧ (∀ x ∈ res', isHws x = true) := by
  obtain ⟨L, t', t'', w', hLws, hLnl, htt, hsend, hd, hw⟩ :=
    sendInput_frames_dec hf D hD input hg stripPrompt w w.avail (dec_of_hws w hheld hres) hres n
  obtain ⟨ht', ht''⟩ := suffix_hws htt hf.trail_hws
  refine ⟨_, w', t'', ?_, ⟨L, t', hLws, ⟨t'', htt⟩, rfl⟩, hw, hd, ht''⟩
  rw [hsend]
  unfold expected
  rw [processOutput_indep cfg dv input L t' stripPrompt hLws hLnl ht' hf.prompt_ne hf.prompt_nl]

/-- **C02, whole sessions over a decorating device**: for every command list inside the quantifier, every
    decoration and every segmentation, each command returns exactly its own `expected` result, the device is
    sent exactly each input and one return, and the session stays in step -/
theorem decorated_session_exact {P : Bytes → Bool} {cfg : Cfg} {dv : LineDev} (hf : Fits P cfg dv)
    (D : Nat → Bytes → Bytes) (hD : Decorates D) (stripPrompt : Bool) (inputs : List Bytes)
    (hg : ∀ i ∈ inputs, GoodCmd P dv i)
    (w : Wire) (hw : ∀ x ∈ w.avail, isHws x = true) (hheld : w.held = []) (n : Nat) :
    ∃ rs w', runCmds cfg (decOnWrite dv D) stripPrompt inputs (w, ([], n)) =
        some (rs, (w', ([], n + 2 * inputs.length))) ∧
      rs.map (·.2) = inputs.map (expected cfg dv stripPrompt) ∧
      w'.writes = w.writes ++ (inputs.map (fun i => [i, cfg.ret])).flatten := by
  obtain ⟨rs, w', _, h1, h2, h3, _, _⟩ :=
    session_in_step_dec hf D hD stripPrompt inputs hg w w.avail n (dec_of_hws w hheld hw) hw
  exact ⟨rs, w', h1, h2, h3⟩

/-- **decoration is invisible**: the session over the decorating device (any decoration, any cuts) and the
    session over the undecorated device (any other cuts) both complete, return the same processed results and
    write the same bytes -/
theorem decoration_invisible {P : Bytes → Bool} {cfg : Cfg} {dv : LineDev} (hf : Fits P cfg dv)
    (D : Nat → Bytes → Bytes) (hD : Decorates D) (stripPrompt : Bool) (inputs : List Bytes)
    (hg : ∀ i ∈ inputs, GoodCmd P dv i)
    (wd wp : Wire) (hwr : wd.writes = wp.writes)
    (hd : ∀ x ∈ wd.avail, isHws x = true) (hp : ∀ x ∈ wp.avail, isHws x = true)
    (hhd : wd.held = []) (hhp : wp.held = []) (n : Nat) :
    ∃ rd rp vd vp sd,
      runCmds cfg (decOnWrite dv D) stripPrompt inputs (wd, ([], n)) = some (rd, (vd, sd)) ∧
      runCmds cfg dv.onWrite stripPrompt inputs (wp, []) = some (rp, (vp, [])) ∧
      rd.map (·.2) = rp.map (·.2) ∧ vd.writes = vp.writes := by
  obtain ⟨rd, vd, h1, h2, h3⟩ := decorated_session_exact hf D hD stripPrompt inputs hg wd hd hhd n
  obtain ⟨rp, vp, g1, g2, g3, _, _⟩ := session_exact hf stripPrompt inputs hg wp hp hhp
  exact ⟨rd, rp, vd, vp, _, h1, g1, by rw [h2, g2], by rw [h3, g3, hwr]⟩

/-- **C02, sessions mixing `get_prompt` and commands over a decorating device**: every operation returns what it
    returns over the undecorated device (`expectedOp`: the command's own text, the device's prompt), for every
    decoration and every segmentation -/
theorem decorated_mixed_session_exact {P : Bytes → Bool} {cfg : Cfg} {dv : LineDev} (hf : Fits P cfg dv)
    (D : Nat → Bytes → Bytes) (hD : Decorates D)
    (hfirst : ∀ x L, (splitNL x).find? P = some L →
      ∃ m, cfg.prompt.first x = some m ∧ strip m = strip L)
    (hout : dv.out [] = []) (stripPrompt : Bool) (ops : List COp)
    (hg : ∀ i, COp.cmd i ∈ ops → GoodCmd P dv i)
    (w : Wire) (hw : ∀ x ∈ w.avail, isHws x = true) (hheld : w.held = []) (n : Nat) :
    ∃ rs w' n', runOps cfg (decOnWrite dv D) stripPrompt ops (w, ([], n)) = some (rs, (w', ([], n'))) ∧
      rs = ops.map (expectedOp cfg dv stripPrompt) ∧
      w'.writes = w.writes ++ (ops.map (opWrites cfg.ret)).flatten := by
  obtain ⟨rs, w', _, n', h1, h2, h3, _, _⟩ :=
    mixed_session_in_step_dec hf D hD hfirst hout stripPrompt ops hg w w.avail n (dec_of_hws w hheld hw) hw
  exact ⟨rs, w', n', h1, h2, h3⟩

/-- **`send_commands` over a decorating device**: the statement of `send_commands_exact` (responses = those of the
    commands up to and including the first whose own result carries a failure marker when `stop_on_failed` is on; each
    result the command's own `expected` text; flags from that text alone; exactly those commands written) holds for
    every decoration and every segmentation as well -/
theorem decorated_send_commands_exact {P : Bytes → Bool} {cfg : Cfg} {dv : LineDev} (hf : Fits P cfg dv)
    (D : Nat → Bytes → Bytes) (hD : Decorates D)
    (strip : Bool) (fwc : List Bytes) (stop : Bool) (init : List Bytes) (last : Bytes)
    (hg : ∀ i ∈ init ++ [last], GoodCmd P dv i)
    (w : Wire) (hw : ∀ x ∈ w.avail, isHws x = true) (hheld : w.held = []) (n : Nat) :
    ∃ rs w' n', sendCommands cfg (decOnWrite dv D) strip fwc stop init last (w, ([], n)) = some (rs, (w', ([], n'))) ∧
      rs.map (fun r => (r.result, r.failed)) =
        (sentAll stop (fun c => failedOf fwc (expected cfg dv strip c)) init last).map
          (fun c => (expected cfg dv strip c, failedOf fwc (expected cfg dv strip c))) ∧
      w'.writes = w.writes ++
        ((sentAll stop (fun c => failedOf fwc (expected cfg dv strip c)) init last).map (fun i => [i, cfg.ret])).flatten := by
  obtain ⟨rs, w1, res1, n1, h1, hres, hwr, hd1, hr1⟩ :=
    sendCommandsLoop_exact_dec hf D hD strip fwc stop init (fun i hi => hg i (by simp [hi])) w w.avail n
      (dec_of_hws w hheld hw) hw
  unfold sentAll
  cases hb : (sentOf stop (fun c => failedOf fwc (expected cfg dv strip c)) init).2 with
  | true =>
    rw [hb] at h1
    refine ⟨rs, w1, n1, ?_, by simpa using hres, by simpa using hwr⟩
    unfold sendCommands; rw [h1]
  | false =>
    rw [hb] at h1
    obtain ⟨r, w2, _, h2, hr, hfl, hw2, _, _⟩ :=
      sendCommand_exact_dec hf D hD strip fwc last (hg last (by simp)) w1 res1 hd1 hr1 n1
    refine ⟨rs ++ [r], w2, n1 + 2, ?_, ?_, ?_⟩
    · unfold sendCommands; rw [h1]; simp only; rw [h2]; rfl
    · simp only [Bool.false_eq_true, if_false, List.map_append, List.map_cons, List.map_nil, hres, hr, hfl]
    · simp only [Bool.false_eq_true, if_false, List.map_append, List.map_cons, List.map_nil, List.flatten_append,
        List.flatten_cons, List.flatten_nil, List.append_nil]
      rw [hw2, hwr]; simp [List.append_assoc]

/-- **the timed read loop over a decorating device**: `send_input_and_read` against the decorating device, for every
    decoration, every segmentation (cuts inside sequences included) AND every pattern of quiet intervals (a read
    that times out while the beginning of a sequence is held back included), returns exactly `expected` when the
    expected outputs are foreign to the response text — the combination the timed scenario family exercises on the
    real code (pauses at offsets inside escape sequences) -/
theorem decorated_send_and_read_exact {P : Bytes → Bool} {cfg : Cfg} {dv : LineDev} (hf : Fits P cfg dv)
    (D : Nat → Bytes → Bytes) (hD : Decorates D) (input : Bytes) (hg : GoodCmd P dv input) (stripPrompt : Bool)
    (outs : List Bytes) (outPat : Pat)
    (hquiet : ∀ (L t' b : Bytes), (∀ x ∈ L, isWs x = true) → t' <+: dv.trail →
      b <+: L ++ dv.rbody input ++ NL :: dv.prompt ++ t' → outsSeen cfg outs outPat b = false)
    (pauses : List Bool) (w : Wire) (hres : ∀ x ∈ w.avail, isHws x = true) (hheld : w.held = []) (n : Nat) :
    ∃ raw w', sendInputAndRead cfg (decOnWrite dv D) input stripPrompt outs outPat pauses none (w, ([], n)) =
        some ((raw, expected cfg dv stripPrompt input), (w', ([], n + 2))) ∧
      w'.writes = w.writes ++ [input, cfg.ret] := by
  obtain ⟨raw, w', _, hs, ⟨L, t', hL, ht, hraw⟩, hw, _, _⟩ :=
    decorated_send_input_exact hf D hD input hg stripPrompt w hres hheld n
  refine ⟨raw, w', ?_, hw⟩
  apply send_and_read_eq_send_input cfg (decOnWrite dv D) input stripPrompt outs outPat pauses (w, ([], n)) raw _ _ hs
  · unfold promptSeen
    have : processReadBuf cfg.depth [] = [] := by
      obtain ⟨a, c, h⟩ := processReadBuf_infix cfg.depth []
      have h' : a = [] ∧ processReadBuf cfg.depth [] = [] ∧ c = [] := by simpa using h
      exact h'.2.1
    rw [this, hf.search_lines]
    have hb := hf.blank [] rfl
    simp [splitNL, hb]
  · intro b hb
    exact hquiet L t' b hL ht (by rw [← hraw]; exact hb)

/-! ### the real driver patterns under decoration: the platform instances of `Fits` (C01Platform*.lean) compose with the
    decorated-session theorem — every prompt of every level each core platform pattern admits, every decoration, every
    segmentation -/

theorem iosxe_decorated_session_exact (cfg : Cfg) (out : Bytes → Bytes) {p : Bytes} (hp : XePrompt p)
    (hS : ∀ x, cfg.prompt.search x = (splitNL x).any iosxeP)
    (hstrict : cfg.rough = false) (hret : IsRet cfg.ret) (hwin : p.length < cfg.depth)
    (D : Nat → Bytes → Bytes) (hD : Decorates D) (stripPrompt : Bool) (inputs : List Bytes)
    (hg : ∀ i ∈ inputs, GoodCmd iosxeP { out := out, prompt := p, trail := [] } i)
    (w : Wire) (hw : ∀ x ∈ w.avail, isHws x = true) (hheld : w.held = []) (n : Nat) :
    ∃ rs w', runCmds cfg (decOnWrite { out := out, prompt := p, trail := [] } D) stripPrompt inputs (w, ([], n)) =
        some (rs, (w', ([], n + 2 * inputs.length))) ∧
      rs.map (·.2) = inputs.map (expected cfg { out := out, prompt := p, trail := [] } stripPrompt) ∧
      w'.writes = w.writes ++ (inputs.map (fun i => [i, cfg.ret])).flatten :=
  decorated_session_exact (iosxe_fits cfg out hp hS hstrict hret hwin) D hD stripPrompt inputs hg w hw hheld n

theorem iosxr_decorated_session_exact (cfg : Cfg) (out : Bytes → Bytes) {p t : Bytes} (hp : XrPrompt p) (ht : t = [] ∨ t = [32])
    (hS : ∀ x, cfg.prompt.search x = (splitNL x).any iosxrP)
    (hstrict : cfg.rough = false) (hret : IsRet cfg.ret) (hwin : (p ++ t).length < cfg.depth)
    (D : Nat → Bytes → Bytes) (hD : Decorates D) (stripPrompt : Bool) (inputs : List Bytes)
    (hg : ∀ i ∈ inputs, GoodCmd iosxrP { out := out, prompt := p, trail := t } i)
    (w : Wire) (hw : ∀ x ∈ w.avail, isHws x = true) (hheld : w.held = []) (n : Nat) :
    ∃ rs w', runCmds cfg (decOnWrite { out := out, prompt := p, trail := t } D) stripPrompt inputs (w, ([], n)) =
        some (rs, (w', ([], n + 2 * inputs.length))) ∧
      rs.map (·.2) = inputs.map (expected cfg { out := out, prompt := p, trail := t } stripPrompt) ∧
      w'.writes = w.writes ++ (inputs.map (fun i => [i, cfg.ret])).flatten :=
  decorated_session_exact (iosxr_fits cfg out hp ht hS hstrict hret hwin) D hD stripPrompt inputs hg w hw hheld n

theorem eos_decorated_session_exact (cfg : Cfg) (out : Bytes → Bytes) {p t : Bytes} (hp : EosPrompt p) (ht : t = [] ∨ t = [32])
    (hS : ∀ x, cfg.prompt.search x = (splitNL x).any eosP)
    (hstrict : cfg.rough = false) (hret : IsRet cfg.ret) (hwin : (p ++ t).length < cfg.depth)
    (D : Nat → Bytes → Bytes) (hD : Decorates D) (stripPrompt : Bool) (inputs : List Bytes)
    (hg : ∀ i ∈ inputs, GoodCmd eosP { out := out, prompt := p, trail := t } i)
    (w : Wire) (hw : ∀ x ∈ w.avail, isHws x = true) (hheld : w.held = []) (n : Nat) :
    ∃ rs w', runCmds cfg (decOnWrite { out := out, prompt := p, trail := t } D) stripPrompt inputs (w, ([], n)) =
        some (rs, (w', ([], n + 2 * inputs.length))) ∧
      rs.map (·.2) = inputs.map (expected cfg { out := out, prompt := p, trail := t } stripPrompt) ∧
      w'.writes = w.writes ++ (inputs.map (fun i => [i, cfg.ret])).flatten :=
  decorated_session_exact (eos_fits cfg out hp ht hS hstrict hret hwin) D hD stripPrompt inputs hg w hw hheld n

theorem nxos_decorated_session_exact (cfg : Cfg) (out : Bytes → Bytes) {p t : Bytes} (hp : NxPrompt p) (ht : t = [] ∨ t = [32])
    (hS : ∀ x, cfg.prompt.search x = (splitNL x).any nxosP)
    (hstrict : cfg.rough = false) (hret : IsRet cfg.ret) (hwin : (p ++ t).length < cfg.depth)
    (D : Nat → Bytes → Bytes) (hD : Decorates D) (stripPrompt : Bool) (inputs : List Bytes)
    (hg : ∀ i ∈ inputs, GoodCmd nxosP { out := out, prompt := p, trail := t } i)
    (w : Wire) (hw : ∀ x ∈ w.avail, isHws x = true) (hheld : w.held = []) (n : Nat) :
    ∃ rs w', runCmds cfg (decOnWrite { out := out, prompt := p, trail := t } D) stripPrompt inputs (w, ([], n)) =
        some (rs, (w', ([], n + 2 * inputs.length))) ∧
      rs.map (·.2) = inputs.map (expected cfg { out := out, prompt := p, trail := t } stripPrompt) ∧
      w'.writes = w.writes ++ (inputs.map (fun i => [i, cfg.ret])).flatten :=
  decorated_session_exact (nxos_fits cfg out hp ht hS hstrict hret hwin) D hD stripPrompt inputs hg w hw hheld n

theorem junos_decorated_session_exact (cfg : Cfg) (out : Bytes → Bytes) {p t : Bytes} (hp : JunosPrompt p) (ht : t = [] ∨ t = [32])
    (hS : ∀ x, cfg.prompt.search x = (splitNL x).any junosP)
    (hstrict : cfg.rough = false) (hret : IsRet cfg.ret) (hwin : (p ++ t).length < cfg.depth)
    (D : Nat → Bytes → Bytes) (hD : Decorates D) (stripPrompt : Bool) (inputs : List Bytes)
    (hg : ∀ i ∈ inputs, GoodCmd junosP { out := out, prompt := p, trail := t } i)
    (w : Wire) (hw : ∀ x ∈ w.avail, isHws x = true) (hheld : w.held = []) (n : Nat) :
    ∃ rs w', runCmds cfg (decOnWrite { out := out, prompt := p, trail := t } D) stripPrompt inputs (w, ([], n)) =
        some (rs, (w', ([], n + 2 * inputs.length))) ∧
      rs.map (·.2) = inputs.map (expected cfg { out := out, prompt := p, trail := t } stripPrompt) ∧
      w'.writes = w.writes ++ (inputs.map (fun i => [i, cfg.ret])).flatten :=
  decorated_session_exact (junos_fits cfg out hp ht hS hstrict hret hwin) D hD stripPrompt inputs hg w hw hheld n

/-! non-vacuity: a decoration that puts an SGR sequence in front of every even burst and CR + ESC 7 behind it,
    the example pattern / device / command of C01.lean (output longer than the window), arbitrary cuts — the
    read boundaries may fall anywhere inside the sequences -/

def exSgr : Seq := Seq.csi [48] 109 (by decide) (by decide)
def exCur : Seq := Seq.cursor 55 (by decide)

def exD : Nat → Bytes → Bytes := fun n o => if n % 2 == 0 then exSgr.bytes ++ o ++ [CR] ++ exCur.bytes else o

theorem exD_decorates : Decorates exD := by
  intro n o ho
  have htext : ∀ x ∈ o, isAnsiStart x = false := by
    intro x hx
    cases h : isAnsiStart x with
    | false => rfl
    | true =>
      have : x = ESC := by simpa [isAnsiStart, ESC] using h
      exact absurd (this ▸ hx) ho.2
  have hcr : stripCR o = o := stripCR_self_of_not_mem ho.1
  unfold exD
  split
  · refine ⟨[Seg.seq exSgr, Seg.text o htext, Seg.seq exCur], ?_, ?_, ?_⟩
    · intro g hg
      simp only [List.mem_cons, List.mem_nil_iff, or_false] at hg
      rcases hg with rfl | rfl | rfl
      · exact ⟨by decide, by decide⟩
      · trivial
      · exact ⟨by decide, by decide⟩
    · simp only [stripCR_append, hcr, segBytes, List.map_cons, List.map_nil, Seg.bytes, List.flatten_cons,
        List.flatten_nil, List.append_nil, List.append_assoc]
      have e1 : stripCR exSgr.bytes = exSgr.bytes := by decide
      have e2 : stripCR [CR] = [] := by decide
      have e3 : stripCR exCur.bytes = exCur.bytes := by decide
      rw [e1, e2, e3]; simp
    · simp [segPlain, Seg.plain]
  · exact ⟨[Seg.text o htext], by intro g hg; simp at hg; subst hg; trivial, by simp [segBytes, Seg.bytes, hcr],
      by simp [segPlain, Seg.plain]⟩

example (cuts : List Nat) :
    ∃ rs w', runCmds exCfg (decOnWrite exDev exD) true [exCmd, exCmd, exCmd] ({ avail := [32], cuts := cuts }, ([], 0)) =
        some (rs, (w', ([], 6))) ∧
      rs.map (·.2) = [exCmd, exCmd, exCmd].map (expected exCfg exDev true) :=
  let ⟨rs, w', h1, h2, _⟩ := decorated_session_exact exFits exD exD_decorates true [exCmd, exCmd, exCmd]
    (by intro i hi; simp at hi; subst hi; exact exGood) { avail := [32], cuts := cuts }
    (by intro x hx; simp at hx; subst hx; decide) rfl 0
  ⟨rs, w', h1, h2⟩

example (cuts : List Nat) :
    ∃ rs w' n', runOps exCfg (decOnWrite exDev exD) true [COp.prompt, COp.cmd exCmd, COp.prompt]
        ({ avail := [32], cuts := cuts }, ([], 0)) = some (rs, (w', ([], n'))) ∧
      rs = [strip exPrompt, expected exCfg exDev true exCmd, strip exPrompt] :=
  let ⟨rs, w', n', h1, h2, _⟩ := decorated_mixed_session_exact exFits exD exD_decorates exFirst (by rfl) true
    [COp.prompt, COp.cmd exCmd, COp.prompt] (by intro i hi; simp at hi; subst hi; exact exGood)
    { avail := [32], cuts := cuts } (by intro x hx; simp at hx; subst hx; decide) rfl 0
  ⟨rs, w', n', h1, by simpa [expectedOp, exDev] using h2⟩

/-- the timed read over the decorated example device: arbitrary cuts, arbitrary quiet intervals -/
example (cuts : List Nat) (pauses : List Bool) :
    ∃ raw w', sendInputAndRead exCfg (decOnWrite exDev exD) exCmd true tmOuts tmPat pauses none
        ({ avail := [32], cuts := cuts }, ([], 0)) = some ((raw, expected exCfg exDev true exCmd), (w', ([], 2))) :=
  let ⟨raw, w', h1, _⟩ := decorated_send_and_read_exact exFits exD exD_decorates exCmd exGood true tmOuts tmPat tm_quiet pauses
    { avail := [32], cuts := cuts } (by intro x hx; simp at hx; subst hx; decide) rfl 0
  ⟨raw, w', h1⟩

/-- the decoration really is on the wire: the first burst of the example device's answer to the return -/
example : (decOnWrite exDev exD (exCmd, 0) [NL]).2.take 6 = [ESC, 91, 48, 109, NL, 108] := by decide

end Scrapli.Chan
