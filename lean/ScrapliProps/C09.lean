import ScrapliProps.C09Lemmas
import ScrapliProps.C09Decor
import ScrapliModel.Channel.Ansi
/-
  C09 — in-channel login answers the right prompt, once, and gives up safely.
  Property theorems only (helper lemmas and the specification-side definitions: C09Lemmas.lean).

  Quantifiers.  The "open" theorems hold for EVERY read tape (every dialogue, every chunking, empty
  reads, EOF errors, any clock), every credential / prompt pattern (`P`, `pr` are arbitrary
  predicates on the buffer) and each of the four loops (`l : Loop`; what distinguishes the loops is
  regenerated from the source into Gen/AuthConsts.lean).  The "closed" theorems put the loop against a
  causal device (C09Lemmas: `Dev`, `sysRun`) and hold for every read schedule.
-/
namespace Scrapli.Auth
open Scrapli Scrapli.Gen.Auth

/-! ### facts about the generated data the theorems rest on -/

/-- in each loop the two tested kinds are credentials and differ -/
theorem loop_kinds (l : Loop) :
    (orderOf l).1 ≠ .ret ∧ (orderOf l).2 ≠ .ret ∧ (orderOf l).1 ≠ (orderOf l).2 := by
  cases l <;> decide

/-- every `count > N` guard in the four loops has N = 2 ("at most twice"); kinds a loop never tests
    have no guard and are never written -/
theorem limits_are_two (l : Loop) :
    limitOf l (orderOf l).1 = 2 ∧ limitOf l (orderOf l).2 = 2 ∧ ∀ k, limitOf l k ≤ 2 := by
  cases l <;> exact ⟨by decide, by decide, fun k => by cases k <;> decide⟩

/-- telnet asks for username then password, ssh for password then passphrase; only the sync ssh loop
    consults the message table; only the sync telnet loop survives a connection error; only the
    telnet loops kick -/
theorem loop_shape :
    orderOf .syncTelnet = (.username, .password) ∧ orderOf .asyncTelnet = (.username, .password) ∧
    orderOf .syncSsh = (.password, .passphrase) ∧ orderOf .asyncSsh = (.password, .passphrase) ∧
    (∀ l, hasHandler l = (l == .syncSsh)) ∧ (∀ l, catchesConnErr l = (l == .syncTelnet)) ∧
    (∀ l, kicksOnEmpty l = (l == .syncTelnet || l == .asyncTelnet)) ∧ attempts0 = 1 := by
  refine ⟨rfl, rfl, rfl, rfl, ?_, ?_, ?_, rfl⟩ <;> intro l <;> cases l <;> rfl

/-- **the connection-error branch leaves counters and buffer untouched**: where a loop catches
    ScrapliConnectionError around `read()`, the branch is exactly `send_return(); attempts += 1;
    continue` (the translator emits every statement of the branch; clearing the buffer or resetting a
    counter there would let the two-submission bound start over after every transient error) -/
theorem conn_err_branch_untouched (l : Loop) :
    catchesConnErr l = true → connErrBranch l = [.sendReturn, .bumpAttempts, .cont] := by
  cases l <;> decide

theorem errOK_of (l : Loop) (P : Kind → Bytes → Bool) (pr : Bytes → Bool) (ivl : Nat)
    (cl : Bytes → Bytes → Bytes × Bytes) :
    ErrOK (cfgOfC l P pr ivl cl) := conn_err_branch_untouched l

/-- the default patterns are the ones the byte-level predicates were written for -/
theorem default_patterns :
    loginBranches = [⟨true, true, asc "username:", false⟩, ⟨false, true, asc "login:", true⟩] ∧
    passwordBranches = [⟨false, false, asc "password:", true⟩] ∧
    passphraseBranches = [⟨false, false, asc "enter passphrase for key", false⟩] := by
  decide

/-- **both copies of each default pattern agree**: the dataclass field default (what `BaseChannelArgs()`
    gives) and the `__post_init__` fallback that is in effect for every channel a driver builds (drivers
    pass `""`) — as source text and as translated branches.  Everything proved about `defaultP` /
    `defaultCfg` therefore holds for driver-built channels. -/
theorem driver_patterns_are_the_defaults :
    loginDriverSrc = loginPatternSrc ∧ passwordDriverSrc = passwordPatternSrc ∧
    passphraseDriverSrc = passphrasePatternSrc ∧ loginDriverBranches = loginBranches ∧
    passwordDriverBranches = passwordBranches ∧ passphraseDriverBranches = passphraseBranches := by
  decide

theorem driverP_eq_defaultP : driverP = defaultP := by
  funext k
  cases k <;> simp [driverP, defaultP, driver_patterns_are_the_defaults.2.2.2.1,
    driver_patterns_are_the_defaults.2.2.2.2.1, driver_patterns_are_the_defaults.2.2.2.2.2]

theorem driverCfg_eq_defaultCfg (l : Loop) (pp : PromptPat) (ivl : Nat) : driverCfg l pp ivl = defaultCfg l pp ivl := by
  simp [driverCfg, defaultCfg, driverP_eq_defaultP]

/-- the cleaner's held-back bytes stay empty when the cleaner never holds anything back -/
theorem fold_held_nil (c : Cfg) (he : ErrOK c) (hcl : ∀ h raw, (c.clean h raw).2 = []) (tape : List Read) :
    ∀ s : St, s.held = [] → (tape.foldl (step c) s).held = [] := by
  induction tape with
  | nil => intro s h; exact h
  | cons r t ih =>
    intro s h
    by_cases hr : s.status = .running
    · refine ih _ ?_
      rw [step_held c he s r hr]
      cases r <;> simp [heldAfter, hcl, h]
    · rw [foldl_stopped c (r :: t) s hr]; exact h

/-- **what a login inherits from the previous call on the same object (partial, restates `enter`).**
    Counters, buffer and attempts are locals of the function (checked by the translator), so a call
    starts from `init` except for `Channel.read`'s held-back bytes, which live on the object
    (`self._ansi_held`).  With a cleaner that never holds anything back (e.g. no escape sequences:
    `crClean`) several logins on one object give each login exactly the result it has alone.  This
    is true by construction of `enter`; what ties it to the code is the translator check and the
    `history` stream of the correspondence. -/
theorem login_is_stateless_partial (c : Cfg) (he : ErrOK c) (hcl : ∀ h raw, (c.clean h raw).2 = [])
    (tapes : List (List Read)) : ∀ prev, prev.held = [] → runSession c prev tapes = tapes.map (run c) := by
  induction tapes with
  | nil => intro prev _; rfl
  | cons t ts ih =>
    intro prev hp
    have he0 : enter prev = init := by simp [enter, hp, init]
    have hh : (t.foldl (step c) init).held = [] := fold_held_nil c he hcl t init rfl
    simp only [runSession, he0, List.map_cons]
    rw [ih _ hh]
    rfl

/-! ### open system: every tape -/

/-- **at most `limit` writes per credential**, any configuration -/
theorem credential_at_most_limit (c : Cfg) (he : ErrOK c) (hk1 : c.k1 ≠ .ret) (hk2 : c.k2 ≠ .ret)
    (tape : List Read) (k : Kind) (hk : k ≠ .ret) : writesOf k (run c tape).log ≤ c.limit k := by
  rw [(inv_run c he hk1 hk2 tape).wr k hk]
  exact Nat.min_le_right _ _

theorem at_most_twice (l : Loop) (P : Kind → Bytes → Bool) (pr : Bytes → Bool) (ivl : Nat)
    (cl : Bytes → Bytes → Bytes × Bytes) (tape : List Read) (k : Kind) (hk : k ≠ .ret) : writesOf k (run (cfgOfC l P pr ivl cl) tape).log ≤ 2 :=
  Nat.le_trans
    (credential_at_most_limit (cfgOfC l P pr ivl cl) (errOK_of l P pr ivl cl) (loop_kinds l).1 (loop_kinds l).2.1 tape k hk)
    ((limits_are_two l).2.2 k)

/-- **C09**: the password is written at most twice — every loop, every pattern, every tape -/
theorem password_at_most_twice (l : Loop) (P : Kind → Bytes → Bool) (pr : Bytes → Bool) (ivl : Nat)
    (cl : Bytes → Bytes → Bytes × Bytes) (tape : List Read) : writesOf .password (run (cfgOfC l P pr ivl cl) tape).log ≤ 2 :=
  at_most_twice l P pr ivl cl tape .password (by decide)

/-- **C09**: the username is written at most twice -/
theorem username_at_most_twice (l : Loop) (P : Kind → Bytes → Bool) (pr : Bytes → Bool) (ivl : Nat)
    (cl : Bytes → Bytes → Bytes × Bytes) (tape : List Read) : writesOf .username (run (cfgOfC l P pr ivl cl) tape).log ≤ 2 :=
  at_most_twice l P pr ivl cl tape .username (by decide)

/-- **C09**: the key passphrase is written at most twice -/
theorem passphrase_at_most_twice (l : Loop) (P : Kind → Bytes → Bool) (pr : Bytes → Bool) (ivl : Nat)
    (cl : Bytes → Bytes → Bytes × Bytes) (tape : List Read) : writesOf .passphrase (run (cfgOfC l P pr ivl cl) tape).log ≤ 2 :=
  at_most_twice l P pr ivl cl tape .passphrase (by decide)

/-- **C09**: the third sighting of a credential prompt ends the login with
    ScrapliAuthenticationFailed for that credential (not `.running` = still reading until the timeout,
    not `.done`); the refusal is the last thing that happened, and exactly two answers were written. -/
theorem third_prompt_fails (l : Loop) (P : Kind → Bytes → Bool) (pr : Bytes → Bool) (ivl : Nat)
    (cl : Bytes → Bytes → Bytes × Bytes) (tape : List Read) (k : Kind) (hk : k = (orderOf l).1 ∨ k = (orderOf l).2)
    (h : 2 < sightings k (run (cfgOfC l P pr ivl cl) tape).log) :
    (run (cfgOfC l P pr ivl cl) tape).status = .authFailed k ∧
    sightings k (run (cfgOfC l P pr ivl cl) tape).log = 3 ∧
    writesOf k (run (cfgOfC l P pr ivl cl) tape).log = 2 ∧
    ∃ pre b n, (run (cfgOfC l P pr ivl cl) tape).log = pre ++ [⟨k, b, false, n⟩] := by
  have inv := inv_run (cfgOfC l P pr ivl cl) (errOK_of l P pr ivl cl) (loop_kinds l).1 (loop_kinds l).2.1 tape
  have hkr : k ≠ .ret := by rcases hk with rfl | rfl; exact (loop_kinds l).1; exact (loop_kinds l).2.1
  have hlim : (cfgOfC l P pr ivl cl).limit k = 2 := by
    rcases hk with rfl | rfl
    · exact (limits_are_two l).1
    · exact (limits_are_two l).2.1
  rw [inv.sight k hkr] at h
  have hst := inv.over k hkr (by rw [hlim]; exact h)
  obtain ⟨_, hc, hlast⟩ := inv.failed k hst
  refine ⟨hst, ?_, ?_, hlast⟩
  · rw [inv.sight k hkr, hc, hlim]
  · rw [inv.wr k hkr, hc, hlim]; rfl

/-- conversely, as long as a prompt has been sighted at most twice every sighting was answered -/
theorem sighting_answered (l : Loop) (P : Kind → Bytes → Bool) (pr : Bytes → Bool) (ivl : Nat)
    (cl : Bytes → Bytes → Bytes × Bytes) (tape : List Read) (k : Kind) (hk : k = (orderOf l).1 ∨ k = (orderOf l).2)
    (h : sightings k (run (cfgOfC l P pr ivl cl) tape).log ≤ 2) :
    writesOf k (run (cfgOfC l P pr ivl cl) tape).log = sightings k (run (cfgOfC l P pr ivl cl) tape).log := by
  have inv := inv_run (cfgOfC l P pr ivl cl) (errOK_of l P pr ivl cl) (loop_kinds l).1 (loop_kinds l).2.1 tape
  have hkr : k ≠ .ret := by rcases hk with rfl | rfl; exact (loop_kinds l).1; exact (loop_kinds l).2.1
  have hlim : (cfgOfC l P pr ivl cl).limit k = 2 := by
    rcases hk with rfl | rfl
    · exact (limits_are_two l).1
    · exact (limits_are_two l).2.1
  rw [inv.wr k hkr, inv.sight k hkr, hlim]
  rw [inv.sight k hkr] at h
  exact Nat.min_eq_left h

/-- **C09**: once the login has ended (returned or raised) nothing further is read or written -/
theorem gives_up_for_good (c : Cfg) (tape more : List Read) (h : (run c tape).status ≠ .running) :
    run c (tape ++ more) = run c tape := by
  rw [run_append]; exact foldl_stopped c more _ h

/-- **C09**: every credential write answers a buffer on which that credential's own pattern matched;
    returns are written on no match at all; and the matched buffers followed by the current buffer
    are consecutive, disjoint pieces of the lower-cased input read so far as cleaned by `Channel.read`
    (`cleanedStream`: whatever the cleaner is, with its held-back state threaded through) — the buffer is
    cleared at every answer, so one prompt occurrence is answered once. -/
theorem write_only_after_match (c : Cfg) (he : ErrOK c) (hk1 : c.k1 ≠ .ret) (hk2 : c.k2 ≠ .ret) (tape : List Read) :
    (∀ e ∈ (run c tape).log, if e.kind = .ret then e.seen = [] ∧ e.ok = true else c.P e.kind e.seen = true) ∧
    ∃ pre post, tape = pre ++ post ∧
      ((run c tape).log.map (·.seen)).flatten ++ (run c tape).buf = lower (cleanedStream c [] pre) := by
  refine ⟨(inv_run c he hk1 hk2 tape).seenP, ?_⟩
  have := consumed_fold c he tape init [] (by simp [consumed, init, lower])
  simpa [consumed, run, init] using this

/-- **C09**: when the ssh client's output, as accumulated in the buffer, contains a fatal message the
    login ends with ScrapliAuthenticationFailed at that very read: nothing is written, nothing more is
    read (loops that call `_ssh_message_handler` and do not kick) -/
theorem fatal_message_immediate (c : Cfg) (hh : c.handler = true) (hkk : c.kicks = false)
    (pre post : List Read) (raw : Bytes) (t : Nat) (hr : (run c pre).status = .running)
    (hf : c.fatal ((run c pre).buf ++ lower (c.clean (run c pre).held raw).1) = true) :
    (run c (pre ++ .chunk raw t :: post)).status = .fatal ∧
    (run c (pre ++ .chunk raw t :: post)).log = (run c pre).log ∧
    (run c (pre ++ .chunk raw t :: post)).nread = (run c pre).nread + 1 := by
  have hstep : step c (run c pre) (.chunk raw t) =
      { afterRead c (run c pre) raw t with status := .fatal } := by
    rw [step_chunk c _ raw t hr]
    have : (afterRead c (run c pre) raw t).buf = (run c pre).buf ++ lower (c.clean (run c pre).held raw).1 := by
      simp [afterRead, hkk]
    simp [this, hh, hf]
  rw [run_append, List.foldl_cons, hstep, foldl_stopped c post _ (by simp)]
  simp [afterRead, hkk]

/-- the sync ssh loop is such a loop, and its `fatal` is the message table -/
theorem sync_ssh_fatal_immediate (P : Kind → Bytes → Bool) (pr : Bytes → Bool) (ivl : Nat)
    (cl : Bytes → Bytes → Bytes × Bytes) (pre post : List Read) (raw : Bytes) (t : Nat)
    (hr : (run (cfgOfC .syncSsh P pr ivl cl) pre).status = .running)
    (hf : fatalMsg ((run (cfgOfC .syncSsh P pr ivl cl) pre).buf ++
      lower (cl (run (cfgOfC .syncSsh P pr ivl cl) pre).held raw).1) = true) :
    (run (cfgOfC .syncSsh P pr ivl cl) (pre ++ .chunk raw t :: post)).status = .fatal ∧
    (run (cfgOfC .syncSsh P pr ivl cl) (pre ++ .chunk raw t :: post)).log = (run (cfgOfC .syncSsh P pr ivl cl) pre).log :=
  have h := fatal_message_immediate (cfgOfC .syncSsh P pr ivl cl) rfl rfl pre post raw t hr hf
  ⟨h.1, h.2.1⟩

/-- every lower-cased entry of the table is fatal as soon as it occurs in the buffer -/
theorem table_entry_is_fatal (needle : Bytes) (hm : (needle, true) ∈ fatalTable) (buf : Bytes)
    (hi : isInfix needle (lower buf) = true) : fatalMsg buf = true := by
  unfold fatalMsg
  rw [List.any_eq_true]
  exact ⟨(needle, true), hm, by simpa using hi⟩

/-- the table contains the client messages the property names -/
theorem fatal_table_contains :
    (asc "permission denied", true) ∈ fatalTable ∧ (asc "host key verification failed", true) ∈ fatalTable ∧
    (asc "connection timed out", true) ∈ fatalTable ∧ (asc "no matching cipher", true) ∈ fatalTable ∧
    (asc "no route to host", true) ∈ fatalTable ∧ (asc "could not resolve hostname", true) ∈ fatalTable := by
  decide

/-- the one table entry that is tested on the raw `output` has upper-case letters, while the loop
    passes the lower-cased buffer: that branch (`WARNING: UNPROTECTED PRIVATE KEY FILE!`) can never
    fire from the login loop -/
theorem case_sensitive_entries_are_dead (needle : Bytes) (hm : (needle, false) ∈ fatalTable) (buf : Bytes) :
    isInfix needle (lower buf) = false := by
  have hup : ∀ e ∈ fatalTable, e.2 = false → e.1.any isUpper = true := by decide
  have := hup (needle, false) hm rfl
  rw [List.any_eq_true] at this
  obtain ⟨x, hx, hxu⟩ := this
  cases hinf : isInfix needle (lower buf) with
  | false => rfl
  | true =>
    have hmem := isInfix_mem needle (lower buf) hinf x hx
    rw [lower_no_upper buf x hmem] at hxu
    cases hxu

/-! ### closed system: the loop against a causal device, every read schedule -/

/-- **closed-system theorem.**  If the dialogue text satisfies the static condition `Safe` for
    EVERY PREFIX of each phase, then for every read schedule during which the kick cannot fire
    (`TimeOK`: the loop has no kick, or no time passes, or — ANY times — the device prints no carriage
    return, so that no read cleans to nothing) the login never leaves the expected course: its status is `running` or the expected outcome,
    its log is a prefix of the expected log, it is never stalled (when everything printed has been
    read the outcome is reached), and at the outcome the log is exactly the expected one. -/
theorem dialogue_outcome (c : Cfg) (ok : CfgOK c) (exp : List Kind) (g0 : Bytes) (d : Dev)
    (hs : Safe c allSplits (fun _ => 0) exp (lc g0) d.segs)
    (sched : List (Nat × Nat)) (ht : TimeOK c g0 d sched) :
    ((sysRun c g0 d sched).s.status = .running ∨
        (sysRun c g0 d sched).s.status = outcome c (fun _ => 0) exp) ∧
    ((sysRun c g0 d sched).avail = [] → (sysRun c g0 d sched).s.status = outcome c (fun _ => 0) exp) ∧
    (∃ more, view (sysRun c g0 d sched).s ++ more = expLog c (fun _ => 0) exp) ∧
    ((sysRun c g0 d sched).s.status = outcome c (fun _ => 0) exp →
        view (sysRun c g0 d sched).s = expLog c (fun _ => 0) exp) :=
  phase_facts c _ _ _ (phase_run c ok _ _ sched _ ht (phase_init c ok exp g0 d hs))

theorem cfgOK_of (l : Loop) (P : Kind → Bytes → Bool) (pr : Bytes → Bool) (ivl : Nat)
    (hP : ∀ k, P k [] = false) (hpr : pr [] = false) : CfgOK (cfgOf l P pr ivl) :=
  ⟨(loop_kinds l).2.2, (loop_kinds l).1, (loop_kinds l).2.1, hP, hpr, rfl⟩

/-- **C09, valid credentials (telnet)**: device = causal login dialogue (prints `g0`, then `g1` after
    the username line, then `g2` after the password line); if no prefix of any phase's text is
    prompt-like for a foreign pattern (`Safe … allSplits`), then for EVERY chunking (at time 0, or at
    ANY times when the device prints no carriage return) the login is never
    refused, writes the username once and then the password once and nothing else, and has returned
    once everything printed has been read. -/
theorem login_completes_partial (l : Loop) (hl : l = .syncTelnet ∨ l = .asyncTelnet)
    (P : Kind → Bytes → Bool) (pr : Bytes → Bool) (ivl : Nat)
    (hP : ∀ k, P k [] = false) (hpr : pr [] = false) (g0 g1 g2 onRet : Bytes)
    (hs : Safe (cfgOf l P pr ivl) allSplits (fun _ => 0) [.username, .password] (lc g0) [g1, g2])
    (sched : List (Nat × Nat))
    (ht : (∀ p ∈ sched, p.2 = 0) ∨ (NoCR g0 ∧ NoCRDev ⟨[g1, g2], onRet⟩)) :
    let y := sysRun (cfgOf l P pr ivl) g0 ⟨[g1, g2], onRet⟩ sched
    (y.s.status = .running ∨ y.s.status = .done) ∧
    (y.avail = [] → y.s.status = .done) ∧
    (∃ more, view y.s ++ more = [(.username, true), (.password, true)]) ∧
    (y.s.status = .done → view y.s = [(.username, true), (.password, true)]) := by
  have ho : outcome (cfgOf l P pr ivl) (fun _ => 0) [.username, .password] = .done := by
    rcases hl with rfl | rfl <;> rfl
  have hL : expLog (cfgOf l P pr ivl) (fun _ => 0) [.username, .password]
      = [(.username, true), (.password, true)] := by
    rcases hl with rfl | rfl <;> rfl
  have := dialogue_outcome (cfgOf l P pr ivl) (cfgOK_of l P pr ivl hP hpr) [.username, .password] g0
    ⟨[g1, g2], onRet⟩ hs sched (Or.inr ht)
  rw [ho, hL] at this
  exact this

/-- **C09, valid credentials (ssh)**: same for the ssh loops and any of the three ssh dialogues
    (password only, key passphrase only, passphrase then password) -/
theorem ssh_login_completes_partial (l : Loop) (hl : l = .syncSsh ∨ l = .asyncSsh)
    (P : Kind → Bytes → Bool) (pr : Bytes → Bool) (ivl : Nat)
    (hP : ∀ k, P k [] = false) (hpr : pr [] = false) (exp : List Kind)
    (he : exp = [.password] ∨ exp = [.passphrase] ∨ exp = [.passphrase, .password])
    (g0 : Bytes) (d : Dev) (hs : Safe (cfgOf l P pr ivl) allSplits (fun _ => 0) exp (lc g0) d.segs)
    (sched : List (Nat × Nat)) :
    let y := sysRun (cfgOf l P pr ivl) g0 d sched
    (y.s.status = .running ∨ y.s.status = .done) ∧
    (y.avail = [] → y.s.status = .done) ∧
    (∃ more, view y.s ++ more = exp.map (·, true)) ∧
    (y.s.status = .done → view y.s = exp.map (·, true)) := by
  have ho : outcome (cfgOf l P pr ivl) (fun _ => 0) exp = .done := by
    rcases hl with rfl | rfl <;> rcases he with rfl | rfl | rfl <;> rfl
  have hL : expLog (cfgOf l P pr ivl) (fun _ => 0) exp = exp.map (·, true) := by
    rcases hl with rfl | rfl <;> rcases he with rfl | rfl | rfl <;> rfl
  have hk : (cfgOf l P pr ivl).kicks = false := by rcases hl with rfl | rfl <;> rfl
  have := dialogue_outcome (cfgOf l P pr ivl) (cfgOK_of l P pr ivl hP hpr) exp g0 d hs sched (Or.inl hk)
  rw [ho, hL] at this
  exact this

/-- **C09, rejected credentials (telnet)**: a device that keeps rejecting and prompting again gets the
    username twice and the password twice; the third username prompt ends the login with
    ScrapliAuthenticationFailed — for every chunking, never a stall -/
theorem rejected_login_fails (l : Loop) (hl : l = .syncTelnet ∨ l = .asyncTelnet)
    (P : Kind → Bytes → Bool) (pr : Bytes → Bool) (ivl : Nat)
    (hP : ∀ k, P k [] = false) (hpr : pr [] = false) (g0 : Bytes) (d : Dev)
    (hs : Safe (cfgOf l P pr ivl) allSplits (fun _ => 0)
      [.username, .password, .username, .password, .username] (lc g0) d.segs)
    (sched : List (Nat × Nat)) (ht : (∀ p ∈ sched, p.2 = 0) ∨ (NoCR g0 ∧ NoCRDev d)) :
    let y := sysRun (cfgOf l P pr ivl) g0 d sched
    (y.s.status = .running ∨ y.s.status = .authFailed .username) ∧
    (y.avail = [] → y.s.status = .authFailed .username) ∧
    (∃ more, view y.s ++ more =
      [(.username, true), (.password, true), (.username, true), (.password, true), (.username, false)]) := by
  have ho : outcome (cfgOf l P pr ivl) (fun _ => 0)
      [.username, .password, .username, .password, .username] = .authFailed .username := by
    rcases hl with rfl | rfl <;> rfl
  have hL : expLog (cfgOf l P pr ivl) (fun _ => 0) [.username, .password, .username, .password, .username]
      = [(.username, true), (.password, true), (.username, true), (.password, true), (.username, false)] := by
    rcases hl with rfl | rfl <;> rfl
  have := dialogue_outcome (cfgOf l P pr ivl) (cfgOK_of l P pr ivl hP hpr) _ g0 d hs sched (Or.inr ht)
  rw [ho, hL] at this
  exact ⟨this.1, this.2.1, this.2.2.1⟩

/-- **C09, rejected credentials (ssh loops without message handling, i.e. async)**: a server that
    keeps asking for the password gets it twice; the third prompt ends the login with
    ScrapliAuthenticationFailed — every schedule, any times (the ssh loops do not kick).  On the sync
    loop the client's `Permission denied, please try again.` ends it earlier (`sync_ssh_fatal_immediate`). -/
theorem ssh_rejected_login_fails (l : Loop) (hl : l = .syncSsh ∨ l = .asyncSsh)
    (P : Kind → Bytes → Bool) (pr : Bytes → Bool) (ivl : Nat)
    (hP : ∀ k, P k [] = false) (hpr : pr [] = false) (g0 : Bytes) (d : Dev)
    (hs : Safe (cfgOf l P pr ivl) allSplits (fun _ => 0) [.password, .password, .password] (lc g0) d.segs)
    (sched : List (Nat × Nat)) :
    let y := sysRun (cfgOf l P pr ivl) g0 d sched
    (y.s.status = .running ∨ y.s.status = .authFailed .password) ∧
    (y.avail = [] → y.s.status = .authFailed .password) ∧
    (∃ more, view y.s ++ more = [(.password, true), (.password, true), (.password, false)]) := by
  have ho : outcome (cfgOf l P pr ivl) (fun _ => 0) [.password, .password, .password] = .authFailed .password := by
    rcases hl with rfl | rfl <;> rfl
  have hL : expLog (cfgOf l P pr ivl) (fun _ => 0) [.password, .password, .password]
      = [(.password, true), (.password, true), (.password, false)] := by
    rcases hl with rfl | rfl <;> rfl
  have hk : (cfgOf l P pr ivl).kicks = false := by rcases hl with rfl | rfl <;> rfl
  have := dialogue_outcome (cfgOf l P pr ivl) (cfgOK_of l P pr ivl hP hpr) _ g0 d hs sched (Or.inl hk)
  rw [ho, hL] at this
  exact ⟨this.1, this.2.1, this.2.2.1⟩

/-! ### instance level: scrapli's default patterns -/

/-- the sync telnet loop with every default of BaseChannelArgs; `ivl` = return interval -/
def tcfg (ivl : Nat) : Cfg := defaultCfg .syncTelnet chanPrompt ivl

theorem default_cfg_ok (l : Loop) (pp : PromptPat) (ivl : Nat) (h : pp.search [] = false) :
    CfgOK (defaultCfg l pp ivl) :=
  cfgOK_of l defaultP pp.search ivl (by intro k; cases k <;> decide) h

theorem default_prompts_reject_empty : chanPrompt.search [] = false ∧ genericPrompt.search [] = false := by
  decide

/-- if no literal of a credential pattern occurs in the (lower-cased) text, the pattern matches on no
    prefix of the text -/
theorem quiet_of_no_needle (brs : List Branch) (p : Bytes)
    (h : ∀ br ∈ brs, isInfix br.needle (lower p) = false) :
    ∀ x y, p = x ++ y → searchAny brs x = false := by
  intro x y hp
  cases hs : searchAny brs x with
  | false => rfl
  | true =>
    exfalso
    simp only [searchAny, List.any_eq_true] at hs
    obtain ⟨br, hbr, hsr⟩ := hs
    obtain ⟨t, u, hx, hu⟩ := scan_suffix br x none hsr
    have h1 : isInfix br.needle (lower u) = true := by
      apply isInfix_of_take
      have : lower (u.take br.needle.length) = br.needle := by simpa [startsWith] using hu
      rw [← lower_take, this]
    have h2 : isInfix br.needle (lower p) = true := by
      rw [hp, hx, lower_append, lower_append]
      exact isInfix_append_right _ _ _ (isInfix_append_left _ _ _ h1)
    rw [h br hbr] at h2
    cases h2

/-- for the default patterns: a text in which none of `username:`, `login:`, `password:`,
    `enter passphrase for key` occurs (any case) is quiet on every prefix — this is what
    "banner none of whose line PREFIXES satisfies a credential predicate" amounts to, because the
    `\s?$` of the login and password patterns is satisfied at every read boundary -/
theorem default_quiet (p : Bytes)
    (h : ∀ n ∈ [asc "username:", asc "login:", asc "password:", asc "enter passphrase for key"],
      isInfix n (lower p) = false) :
    ∀ x y, p = x ++ y → ∀ k, defaultP k x = false := by
  intro x y hp k
  have hb := default_patterns
  cases k with
  | username =>
    refine quiet_of_no_needle loginBranches p ?_ x y hp
    rw [hb.1]; intro br hbr
    simp only [List.mem_cons, List.mem_nil_iff, or_false] at hbr
    rcases hbr with rfl | rfl
    · exact h _ (by simp)
    · exact h _ (by simp)
  | password =>
    refine quiet_of_no_needle passwordBranches p ?_ x y hp
    rw [hb.2.1]; intro br hbr
    simp only [List.mem_cons, List.mem_nil_iff, or_false] at hbr
    subst hbr; exact h _ (by simp)
  | passphrase =>
    refine quiet_of_no_needle passphraseBranches p ?_ x y hp
    rw [hb.2.2]; intro br hbr
    simp only [List.mem_cons, List.mem_nil_iff, or_false] at hbr
    subst hbr; exact h _ (by simp)
  | ret => rfl

/-! Non-vacuity of `login_completes_partial` / `rejected_login_fails` / `ssh_login_completes_partial`:
    concrete dialogues (CR LF line ends, MOTD, trailing blanks) that satisfy `Safe … allSplits`. -/

set_option maxRecDepth 100000 in
example : Safe (tcfg 0) allSplits (fun _ => 0) [.username, .password] (lc (asc "\r\nUser Access Verification\r\n\r\nUsername: "))
    [asc "admin\r\nPassword: ", asc "\r\nWelcome to r1\r\nAll access is logged\r\nr1#"] :=
  safeB_sound _ _ _ _ _ _ (by decide +kernel)

set_option maxRecDepth 100000 in
example : Safe (tcfg 0) allSplits (fun _ => 0) [.username, .password, .username, .password, .username]
    (lc (asc "login: "))
    [asc "admin\nPassword: ", asc "\nLogin incorrect\n\nlogin: ", asc "admin\nPassword: ",
     asc "\nLogin incorrect\n\nlogin: "] :=
  safeB_sound _ _ _ _ _ _ (by decide +kernel)

set_option maxRecDepth 100000 in
example : Safe (defaultCfg .syncSsh chanPrompt 0) allSplits (fun _ => 0) [.passphrase, .password]
    (lc (asc "Warning: x\r\nEnter passphrase for key '/k': "))
    [asc "\r\nadmin@r1's password: ", asc "\r\nWelcome\r\nr1#"] :=
  safeB_sound _ _ _ _ _ _ (by decide +kernel)

/-- a fatal message inside the quantifier of `sync_ssh_fatal_immediate` -/
example : fatalMsg (lc (asc "Warning: x\r\nadmin@r1: Permission denied (publickey,password).\r\n")) = true := by
  decide +kernel

set_option maxRecDepth 100000 in
/-- non-vacuity for the GenericDriver prompt pattern (`^\\S{0,48}[#>$~@:\\]]\\s*$`, for which `username:`
    and `password:` are themselves prompt lines) -/
example : Safe (defaultCfg .syncTelnet genericPrompt 0) allSplits (fun _ => 0) [.username, .password]
    (lc (asc "Username: ")) [asc "admin\r\nPassword: ", asc "\r\nWelcome to r1\r\nr1#"] :=
  safeB_sound _ _ _ _ _ _ (by decide +kernel)

set_option maxRecDepth 100000 in
example : Safe (defaultCfg .asyncSsh chanPrompt 0) allSplits (fun _ => 0) [.password, .password, .password]
    (lc (asc "a@r1's password: ")) [asc "\nPermission denied, please try again.\na@r1's password: ",
      asc "\nPermission denied, please try again.\na@r1's password: "] :=
  safeB_sound _ _ _ _ _ _ (by decide +kernel)

/-! ### what the unchanged code does NOT satisfy -/

set_option maxRecDepth 100000 in
/-- **"immediately for fatal ssh client messages" does not hold for the async ssh twin**: it never
    calls `_ssh_message_handler` (`hasHandler .asyncSsh = false`); after `Permission denied (publickey).`
    it is still reading (until the timeout).  No driver reaches this loop (AsyncDriver.open only runs the
    telnet login), so this is a labelled negative statement, not a finding. -/
theorem async_ssh_ignores_fatal_refuted :
    ¬ ∀ tape : List Read, fatalMsg (lc (streamOf tape)) = true →
        (run (defaultCfg .asyncSsh chanPrompt 0) tape).status ≠ .running := by
  intro h
  have := h [.chunk (asc "admin@r1: Permission denied (publickey).\n") 0] (by decide +kernel)
  exact this (by decide +kernel)


/-- the `Last login:` witness: whole banner lines do not look like prompts … -/
def wG0 : Bytes := asc "Username: "
def wG1 : Bytes := asc "admin\nPassword: "
def wG2 : Bytes := asc "\nLast login: Mon Sep  1 10:00:00 from 10.0.0.1\nr1#"
/-- … but a read ends right after `\nLast login:` -/
def wSched : List (Nat × Nat) := [(10, 0), (16, 0), (12, 0), (100, 0), (100, 0)]

set_option maxRecDepth 100000 in
theorem witness_whole_lines_clean :
    Safe (tcfg 0) wholeLines (fun _ => 0) [.username, .password] (lc wG0) [wG1, wG2] :=
  safeB_sound _ _ _ _ _ _ (by decide +kernel)

set_option maxRecDepth 100000 in
theorem witness_username_twice :
    view (sysRun (tcfg 0) wG0 ⟨[wG1, wG2], []⟩ wSched).s
      = [(.username, true), (.password, true), (.username, true)] := by decide +kernel

/-- **C09, full statement refuted.**  With the property's wording — banner lines that do not look like
    a prompt *as whole lines* (`Safe … wholeLines`) — "valid credentials ⇒ one write per credential for
    every chunking" is false for the unchanged code: the username is typed into the shell. -/
theorem login_completes_full_refuted :
    ¬ ∀ (g0 g1 g2 : Bytes) (sched : List (Nat × Nat)), (∀ p ∈ sched, p.2 = 0) →
        Safe (tcfg 0) wholeLines (fun _ => 0) [.username, .password] (lc g0) [g1, g2] →
        ∃ more, view (sysRun (tcfg 0) g0 ⟨[g1, g2], []⟩ sched).s ++ more
          = [(.username, true), (.password, true)] := by
  intro h
  obtain ⟨more, hm⟩ := h wG0 wG1 wG2 wSched (by decide) witness_whole_lines_clean
  rw [witness_username_twice] at hm
  have := congrArg List.length hm
  simp at this

set_option maxRecDepth 100000 in
/-- the same dialogue is (rightly) not `Safe` for all prefixes: the hypothesis of
    `login_completes_partial` is exactly what the witness violates -/
theorem witness_not_prefix_safe :
    safeB (tcfg 0) allSplits (fun _ => 0) [.username, .password] (lc wG0) [wG1, wG2] = false := by
  decide +kernel

/-- the second witness: a console that answers an empty line with a new prompt; CR LF line ends; the
    first read returns the lone `\r` two intervals after the start -/
def kG0 : Bytes := asc "\r\nUsername: "
def kDev : Dev := ⟨[asc "admin\r\nPassword: ", asc "\r\nr1#"], asc "\r\nUsername: "⟩
def kSched : List (Nat × Nat) := [(1, 2), (11, 2), (100, 2), (100, 2), (100, 2)]

set_option maxRecDepth 100000 in
theorem kick_witness_safe : Safe (tcfg 1) allSplits (fun _ => 0) [.username, .password] (lc kG0) kDev.segs :=
  safeB_sound _ _ _ _ _ _ (by decide +kernel)

set_option maxRecDepth 100000 in
theorem kick_witness_username_twice :
    view (sysRun (tcfg 1) kG0 kDev kSched).s
      = [(.ret, true), (.username, true), (.username, true)] := by decide +kernel

/-- **the hypothesis "no time passes" of `login_completes_partial` cannot be dropped**: a chunk that
    is empty only after `\r` removal counts as "nothing arrived"; once the return interval has elapsed
    a return is written into the dialogue and the username ends up being written twice although every
    prefix of the text is safe -/
theorem login_completes_timed_refuted :
    ¬ ∀ (g0 : Bytes) (d : Dev) (sched : List (Nat × Nat)),
        Safe (tcfg 1) allSplits (fun _ => 0) [.username, .password] (lc g0) d.segs →
        writesOf .username (sysRun (tcfg 1) g0 d sched).s.log ≤ 1 := by
  intro h
  have h1 := h kG0 kDev kSched kick_witness_safe
  have hv := kick_witness_username_twice
  have : writesOf .username (sysRun (tcfg 1) kG0 kDev kSched).s.log = 2 := by
    have hw : ∀ log : List Entry, writesOf .username log
        = ((log.map fun e => (e.kind, e.ok)).filter fun p => p.1 == .username && p.2).length := by
      intro log; simp [writesOf, List.filter_map, Function.comp_def]
    rw [hw]
    show ((view (sysRun (tcfg 1) kG0 kDev kSched).s).filter _).length = 2
    rw [hv]; rfl
  omega

/-- the login loop with the real cleaner of `Channel.read` (C01/C02's model of `_strip_ansi_read`) -/
def tcfgA (ivl : Nat) : Cfg := defaultCfgC .syncTelnet chanPrompt ivl Scrapli.Chan.chanReadH

set_option maxRecDepth 100000 in
/-- the same spurious return with an escape sequence instead of `\\r`: the first read returns only
    `ESC [ 0 m`, which `Channel.read` strips to nothing -/
theorem kick_witness_ansi_username_twice :
    view (sysRun (tcfgA 1) ([27, 91, 48, 109] ++ asc "\nUsername: ")
        ⟨[asc "admin\nPassword: ", asc "\nr1#"], asc "\nUsername: "⟩
        [(4, 2), (11, 2), (100, 2), (100, 2), (100, 2)]).s
      = [(.ret, true), (.username, true), (.username, true)] := by decide +kernel

/-! ### closed system with the REAL cleaner of `Channel.read`: dialogues decorated with carriage returns and
    complete escape sequences, cut anywhere; schedules with empty reads; kicks -/

theorem cfgOK'_of (l : Loop) (P : Kind → Bytes → Bool) (pr : Bytes → Bool) (ivl : Nat)
    (cl : Bytes → Bytes → Bytes × Bytes) (hP : ∀ k, P k [] = false) (hpr : pr [] = false) :
    CfgOK' (cfgOfC l P pr ivl cl) :=
  ⟨(loop_kinds l).2.2, (loop_kinds l).1, (loop_kinds l).2.1, hP, hpr⟩

/-- **closed-system theorem with `Channel.read`'s real per-read cleaner** (`chanReadH`: CR removal, escape
    sequences stripped, the beginning of a sequence cut by the end of a read held back for the next read).
    The device prints `g0` and releases `d.segs` one per credential line; each of these is the text
    `p0` / `ps` DECORATED with carriage returns and complete escape sequences (`Decor`), and the read
    boundaries fall anywhere — inside a sequence, between CR and LF.  If the undecorated text satisfies
    the static condition `Safe` on every prefix, then for every schedule of reads AND empty reads
    (`Ev.idle`) on which a kick, if one fires, meets a device that ignores empty lines (no kick in the
    loop, or no time passes, or `onRet = []`): the login never leaves the expected course, is never
    stalled, and its credential log (`credView`: bare returns left out) is the expected one. -/
theorem dialogue_outcome_decorated (c : Cfg) (ok : CfgOK' c) (hcl : c.clean = Chan.chanReadH)
    (exp : List Kind) (g0 : Bytes) (d : Dev) (p0 : Bytes) (ps : List Bytes)
    (h0 : Decor g0 p0) (hd : All2 Decor d.segs ps)
    (hs : Safe c allSplits (fun _ => 0) exp (lower p0) ps)
    (sched : List Ev) (ht : c.kicks = false ∨ (∀ e ∈ sched, e.time = 0) ∨ d.onRet = []) :
    ((sysRunI c g0 d sched).s.status = .running ∨
        (sysRunI c g0 d sched).s.status = outcome c (fun _ => 0) exp) ∧
    ((sysRunI c g0 d sched).avail = [] → (sysRunI c g0 d sched).s.status = outcome c (fun _ => 0) exp) ∧
    (∃ more, credView (sysRunI c g0 d sched).s ++ more = expLog c (fun _ => 0) exp) ∧
    ((sysRunI c g0 d sched).s.status = outcome c (fun _ => 0) exp →
        credView (sysRunI c g0 d sched).s = expLog c (fun _ => 0) exp) :=
  gphase_facts c AnsiR (ansiReads c hcl) _ _ _
    (gphase_run c ok AnsiR (ansiReads c hcl) _ _ sched _ ht (gphase_init c ok exp g0 d p0 ps h0 hd hs))

/-- **C09 × C02: the login does not depend on decoration or segmentation.**  Two devices that print the
    same texts with different carriage returns / escape sequences, read under two different schedules:
    once everything printed has been read both logins have ended the same way and have answered the
    same credential prompts in the same order (the only other bytes the loop ever writes are the bare
    returns of the kick). -/
theorem login_decoration_independent (c : Cfg) (ok : CfgOK' c) (hcl : c.clean = Chan.chanReadH)
    (exp : List Kind) (p0 : Bytes) (ps : List Bytes) (hs : Safe c allSplits (fun _ => 0) exp (lower p0) ps)
    (g0 g0' : Bytes) (d d' : Dev) (h0 : Decor g0 p0) (h0' : Decor g0' p0)
    (hd : All2 Decor d.segs ps) (hd' : All2 Decor d'.segs ps) (sched sched' : List Ev)
    (ht : c.kicks = false ∨ (∀ e ∈ sched, e.time = 0) ∨ d.onRet = [])
    (ht' : c.kicks = false ∨ (∀ e ∈ sched', e.time = 0) ∨ d'.onRet = [])
    (hall : (sysRunI c g0 d sched).avail = []) (hall' : (sysRunI c g0' d' sched').avail = []) :
    (sysRunI c g0 d sched).s.status = (sysRunI c g0' d' sched').s.status ∧
    credView (sysRunI c g0 d sched).s = credView (sysRunI c g0' d' sched').s := by
  have a := dialogue_outcome_decorated c ok hcl exp g0 d p0 ps h0 hd hs sched ht
  have b := dialogue_outcome_decorated c ok hcl exp g0' d' p0 ps h0' hd' hs sched' ht'
  have ha := a.2.1 hall
  have hb := b.2.1 hall'
  exact ⟨by rw [ha, hb], by rw [a.2.2.2 ha, b.2.2.2 hb]⟩

/-- **C09, valid credentials (telnet), decorated dialogue, real cleaner**: `done`, username once then
    password once — for every decoration, every segmentation, empty reads included -/
theorem login_completes_decorated_partial (l : Loop) (hl : l = .syncTelnet ∨ l = .asyncTelnet)
    (P : Kind → Bytes → Bool) (pr : Bytes → Bool) (ivl : Nat)
    (hP : ∀ k, P k [] = false) (hpr : pr [] = false) (g0 g1 g2 onRet p0 p1 p2 : Bytes)
    (h0 : Decor g0 p0) (h1 : Decor g1 p1) (h2 : Decor g2 p2)
    (hs : Safe (cfgOfC l P pr ivl Chan.chanReadH) allSplits (fun _ => 0) [.username, .password] (lower p0) [p1, p2])
    (sched : List Ev) (ht : (∀ e ∈ sched, e.time = 0) ∨ onRet = []) :
    let y := sysRunI (cfgOfC l P pr ivl Chan.chanReadH) g0 ⟨[g1, g2], onRet⟩ sched
    (y.s.status = .running ∨ y.s.status = .done) ∧
    (y.avail = [] → y.s.status = .done) ∧
    (∃ more, credView y.s ++ more = [(.username, true), (.password, true)]) ∧
    (y.s.status = .done → credView y.s = [(.username, true), (.password, true)]) := by
  have ho : outcome (cfgOfC l P pr ivl Chan.chanReadH) (fun _ => 0) [.username, .password] = .done := by
    rcases hl with rfl | rfl <;> rfl
  have hL : expLog (cfgOfC l P pr ivl Chan.chanReadH) (fun _ => 0) [.username, .password]
      = [(.username, true), (.password, true)] := by
    rcases hl with rfl | rfl <;> rfl
  have := dialogue_outcome_decorated (cfgOfC l P pr ivl Chan.chanReadH) (cfgOK'_of l P pr ivl _ hP hpr) rfl
    [.username, .password] g0 ⟨[g1, g2], onRet⟩ p0 [p1, p2] h0 ⟨h1, h2, trivial⟩ hs sched (Or.inr ht)
  rw [ho, hL] at this
  exact this

/-- **the same for the ssh loops, any times, any empty reads** (they do not kick), for every expected
    course of the dialogue (`exp`): valid credentials, re-prompting servers, rejection -/
theorem ssh_dialogue_decorated (l : Loop) (hl : l = .syncSsh ∨ l = .asyncSsh)
    (P : Kind → Bytes → Bool) (pr : Bytes → Bool) (ivl : Nat)
    (hP : ∀ k, P k [] = false) (hpr : pr [] = false) (exp : List Kind) (g0 : Bytes) (d : Dev) (p0 : Bytes) (ps : List Bytes)
    (h0 : Decor g0 p0) (hd : All2 Decor d.segs ps)
    (hs : Safe (cfgOfC l P pr ivl Chan.chanReadH) allSplits (fun _ => 0) exp (lower p0) ps) (sched : List Ev) :
    let c := cfgOfC l P pr ivl Chan.chanReadH
    let y := sysRunI c g0 d sched
    (y.s.status = .running ∨ y.s.status = outcome c (fun _ => 0) exp) ∧
    (y.avail = [] → y.s.status = outcome c (fun _ => 0) exp) ∧
    (∃ more, credView y.s ++ more = expLog c (fun _ => 0) exp) := by
  have hk : (cfgOfC l P pr ivl Chan.chanReadH).kicks = false := by rcases hl with rfl | rfl <;> rfl
  have := dialogue_outcome_decorated (cfgOfC l P pr ivl Chan.chanReadH) (cfgOK'_of l P pr ivl _ hP hpr) rfl
    exp g0 d p0 ps h0 hd hs sched (Or.inl hk)
  exact ⟨this.1, this.2.1, this.2.2.1⟩

/-- **what a kick is**: one read adds at most one bare return to the log, and it adds one only in a loop
    that kicks, at a read that `Channel.read` cleaned to nothing, after more than `return_interval *
    return_attempts` have elapsed — every cleaner, every pattern -/
theorem kick_only_when_silent_and_late (c : Cfg) (hk1 : c.k1 ≠ .ret) (hk2 : c.k2 ≠ .ret) (s : St) (raw : Bytes) (t : Nat) :
    retsOf (step c s (.chunk raw t)).log ≤ retsOf s.log + 1 ∧
    (retsOf (step c s (.chunk raw t)).log = retsOf s.log + 1 →
      c.kicks = true ∧ (c.clean s.held raw).1 = [] ∧ c.ivl * s.attempts < t) := by
  by_cases hr : s.status = .running
  · rw [step_chunk c s raw t hr]
    obtain ⟨K, hK, alog, _, _, _, _, _⟩ := afterRead_shape c s raw t
    have hfin : ∀ x : St, retsOf x.log = retsOf (afterRead c s raw t).log →
        retsOf x.log ≤ retsOf s.log + 1 ∧ (retsOf x.log = retsOf s.log + 1 →
          c.kicks = true ∧ (c.clean s.held raw).1 = [] ∧ c.ivl * s.attempts < t) := by
      intro x hx
      rw [hx, alog]
      rcases hK with rfl | ⟨rfl, h1, h2, h3⟩
      · simp
      · rw [retsOf_snoc]; exact ⟨by simp, fun _ => ⟨h1, h2, h3⟩⟩
    split
    · exact hfin _ rfl
    · refine hfin _ ?_
      rw [(finish_rets c _).1, (answer_rets c c.k2 hk2 _).1, (answer_rets c c.k1 hk1 _).1]
  · rw [step_stopped c s _ hr]; exact ⟨by omega, fun h => by omega⟩

/-- **the loop does not flood the device with returns**: on a tape without connection errors whose reads
    all happen within `T` return-interval units, `return_interval × (number of returns written) < T` —
    at most one return per return interval, whatever arrives; and (`at_most_twice`) the kicks never add a
    credential write -/
theorem kicks_rate_bounded (l : Loop) (P : Kind → Bytes → Bool) (pr : Bytes → Bool) (ivl : Nat)
    (cl : Bytes → Bytes → Bytes × Bytes) (tape : List Read) (T : Nat)
    (hne : .connErr ∉ tape) (hT : ∀ t ∈ timesOf tape, t ≤ T) :
    retsOf (run (cfgOfC l P pr ivl cl) tape).log = 0 ∨ ivl * retsOf (run (cfgOfC l P pr ivl cl) tape).log < T :=
  (kinv_fold (cfgOfC l P pr ivl cl) (loop_kinds l).1 (loop_kinds l).2.1 T tape hne hT init
    ⟨rfl, Or.inl rfl⟩).rate

/-! non-vacuity: a telnet dialogue with CR LF line ends, a reset in front of the prompt, a coloured
    banner and an OSC title -/

def dG0 : Bytes := asc "\r\n" ++ [27, 91, 48, 109] ++ asc "Username: "
def dG1 : Bytes := asc "admin\r\n" ++ [27, 91, 49, 59, 51, 50, 109] ++ asc "Password: "
def dG2 : Bytes := asc "\r\n" ++ [27, 93, 48, 59, 114, 49, 7] ++ asc "Welcome\r\n" ++ [27, 91, 51, 50, 109] ++ asc "r1#" ++ [27, 91, 48, 109]

theorem dG0_decor : Decor dG0 (asc "\nUsername: ") :=
  ⟨[.text (asc "\n") (by decide), .seq (.csi [48] 109 (by decide) (by decide)), .text (asc "Username: ") (by decide)],
   by intro s hs
      simp only [List.mem_cons, List.not_mem_nil, or_false] at hs
      rcases hs with e | e | e <;> subst e
      · trivial
      · exact ⟨by decide, by decide⟩
      · trivial,
   by decide, by decide⟩

theorem dG1_decor : Decor dG1 (asc "admin\nPassword: ") :=
  ⟨[.text (asc "admin\n") (by decide), .seq (.csi [49, 59, 51, 50] 109 (by decide) (by decide)), .text (asc "Password: ") (by decide)],
   by intro s hs
      simp only [List.mem_cons, List.not_mem_nil, or_false] at hs
      rcases hs with e | e | e <;> subst e
      · trivial
      · exact ⟨by decide, by decide⟩
      · trivial,
   by decide, by decide⟩

theorem dG2_decor : Decor dG2 (asc "\nWelcome\nr1#") :=
  ⟨[.text (asc "\n") (by decide), .seq (.osc 48 [59, 114, 49] (by decide) (by decide)), .text (asc "Welcome\n") (by decide),
    .seq (.csi [51, 50] 109 (by decide) (by decide)), .text (asc "r1#") (by decide), .seq (.csi [48] 109 (by decide) (by decide))],
   by intro s hs
      simp only [List.mem_cons, List.not_mem_nil, or_false] at hs
      rcases hs with e | e | e | e | e | e <;> subst e
      · trivial
      · exact ⟨by decide, by decide⟩
      · trivial
      · exact ⟨by decide, by decide⟩
      · trivial
      · exact ⟨by decide, by decide⟩,
   by decide, by decide⟩

set_option maxRecDepth 100000 in
theorem dSafe : Safe (cfgOfC .syncTelnet defaultP chanPrompt.search 1 Chan.chanReadH) allSplits (fun _ => 0)
    [.username, .password] (lower (asc "\nUsername: ")) [asc "admin\nPassword: ", asc "\nWelcome\nr1#"] :=
  safeB_sound _ _ _ _ _ _ (by decide +kernel)

def dCfg : Cfg := cfgOfC .syncTelnet defaultP chanPrompt.search 1 Chan.chanReadH
def dSched : List Ev :=
  [.read 1 0, .read 2 5, .idle 7, .read 3 7, .read 100 7, .read 9 8, .idle 30, .read 100 30, .read 100 31]

/-- the hypotheses of `login_completes_decorated_partial` are met by that dialogue, on a device that
    ignores empty lines, for reads that end inside the escape sequences and between CR and LF, with empty
    reads in between at late times -/
example :
    ((sysRunI dCfg dG0 ⟨[dG1, dG2], []⟩ dSched).avail = [] → (sysRunI dCfg dG0 ⟨[dG1, dG2], []⟩ dSched).s.status = .done) ∧
    ((sysRunI dCfg dG0 ⟨[dG1, dG2], []⟩ dSched).s.status = .done →
      credView (sysRunI dCfg dG0 ⟨[dG1, dG2], []⟩ dSched).s = [(.username, true), (.password, true)]) :=
  have h := login_completes_decorated_partial .syncTelnet (Or.inl rfl) defaultP chanPrompt.search 1
    (by intro k; cases k <;> decide) default_prompts_reject_empty.1 dG0 dG1 dG2 [] _ _ _ dG0_decor dG1_decor dG2_decor dSafe dSched
    (Or.inr rfl)
  ⟨h.2.1, h.2.2.2⟩

set_option maxRecDepth 100000 in
/-- … and that run does end in `done` with a kick on the way (the theorem is not about stalled runs only) -/
example : (sysRunI dCfg dG0 ⟨[dG1, dG2], []⟩ dSched).s.status = .done ∧
    0 < retsOf (sysRunI dCfg dG0 ⟨[dG1, dG2], []⟩ dSched).s.log := by
  decide +kernel

/-- non-vacuity of `kicks_rate_bounded`: three silent reads at times 2, 3, 9 with interval 2 ⇒ two returns -/
example : retsOf (run (cfgOfC .asyncTelnet defaultP chanPrompt.search 2 Chan.chanReadH)
    [.chunk [] 2, .chunk [] 3, .chunk [13] 9]).log = 2 := by decide +kernel

/-! ### what a kick may break (the hypothesis `onRet = []` cannot be dropped) -/

/-- a device whose answer to the username is still on its way when an empty read comes after the return
    interval; its reaction to the empty line it then receives at the password prompt is
    `Login incorrect` and a new `Username:` prompt -/
def lagDev : Dev := ⟨[asc "admin\nPassword: ", asc "\nr1#"], asc "\nLogin incorrect\nUsername: "⟩
def lagSched : List Ev := [.read 100 0, .idle 2, .read 100 2, .read 100 2]

set_option maxRecDepth 100000 in
theorem lag_witness_safe : Safe (tcfgA 1) allSplits (fun _ => 0) [.username, .password] (lower (asc "Username: "))
    lagDev.segs :=
  safeB_sound _ _ _ _ _ _ (by decide +kernel)

set_option maxRecDepth 100000 in
theorem lag_witness_username_twice :
    credView (sysRunI (tcfgA 1) (asc "Username: ") lagDev lagSched).s = [(.username, true), (.username, true)] ∧
    retsOf (sysRunI (tcfgA 1) (asc "Username: ") lagDev lagSched).s.log = 1 := by decide +kernel

/-- **a kick is not harmless for a device that reacts to empty lines**: an EMPTY read (not a chunk that
    cleans to nothing — that is F23) after the return interval, while the device's password prompt is on
    its way, puts a return into the dialogue; the credential log is no longer the expected one although
    every prefix of the text is safe and nothing is decorated -/
theorem kick_harmless_full_refuted :
    ¬ ∀ (g0 : Bytes) (d : Dev) (sched : List Ev),
        Safe (tcfgA 1) allSplits (fun _ => 0) [.username, .password] (lower g0) d.segs →
        ∃ more, credView (sysRunI (tcfgA 1) g0 d sched).s ++ more = [(.username, true), (.password, true)] := by
  intro h
  obtain ⟨more, hm⟩ := h (asc "Username: ") lagDev lagSched lag_witness_safe
  rw [lag_witness_username_twice.1] at hm
  simp at hm

end Scrapli.Auth
