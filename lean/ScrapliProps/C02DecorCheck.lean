import ScrapliProps.C02Decor
import ScrapliProps.C02Sessions
/-
  An executable, VALIDATED check of the hypothesis `Decorates` on concrete bytes: `parseSegs` (untrusted)
  proposes a segmentation of a decorated burst into text and sequences, `witnessOK` (decidable) checks the
  three facts the theorems need; `decorOK_sound` says that a burst accepted by the check satisfies the
  hypothesis.  The model driver runs `decorOK` on every burst of output of the harness's decorated runs.
-/
namespace Scrapli.Chan
open Scrapli

instance (s : Seq) : Decidable s.Tame := by unfold Seq.Tame; exact inferInstance
instance (g : Seg) : Decidable g.Tame := by
  cases g with
  | text b h => exact isTrue trivial
  | seq s => unfold Seg.Tame; exact inferInstance

/-- propose a segmentation of (CR-free) decorated bytes: every byte that is not ESC is text, after ESC one of
    the supported sequences must follow.  `fuel` = number of bytes. -/
def parseSegs : Nat → Bytes → List Seg → Option (List Seg)
  | 0, [], acc => some acc.reverse
  | 0, _ :: _, _ => none
  | _ + 1, [], acc => some acc.reverse
  | n + 1, c :: rest, acc =>
    if c == ESC then
      match rest with
      | [] => none
      | k :: r =>
        if k == 91 then
          let params := r.takeWhile (fun x => !isFinal x)
          match r.drop params.length with
          | [] => none
          | fin :: r' =>
            if h : (∀ x ∈ params, isFinal x = false ∧ x ≠ NL) ∧ isFinal fin = true then
              parseSegs n r' (Seg.seq (Seq.csi params fin h.1 h.2) :: acc)
            else none
        else if k == 93 then
          match r with
          | [] => none
          | d :: r1 =>
            let text := r1.takeWhile (fun x => x != 7)
            match r1.drop text.length with
            | [] => none
            | _ :: r' =>
              if h : isDigit d = true ∧ (∀ x ∈ text, x ≠ 7 ∧ x ≠ NL) then
                parseSegs n r' (Seg.seq (Seq.osc d text h.1 h.2) :: acc)
              else none
        else if h : isCursor k = true then parseSegs n r (Seg.seq (Seq.cursor k h) :: acc)
        else none
    else if h : isAnsiStart c = false then
      parseSegs n rest (Seg.text [c] (by intro x hx; simp at hx; subst hx; exact h) :: acc)
    else none

/-- the decidable facts: all tame, the bytes are the decorated burst without its CRs, the text is the output -/
def witnessOK (plain dec : Bytes) (segs : List Seg) : Bool :=
  decide (∀ g ∈ segs, g.Tame) && (stripCR dec == segBytes segs) && (segPlain segs == plain)

/-- is `dec` the output `plain` decorated with carriage returns and complete tame sequences? -/
def decorOK (plain dec : Bytes) : Bool :=
  match parseSegs (stripCR dec).length (stripCR dec) [] with
  | some segs => witnessOK plain dec segs
  | none => false

/-- **soundness of the check**: an accepted burst satisfies what `Decorates` asks of a decoration -/
theorem decorOK_sound (plain dec : Bytes) (h : decorOK plain dec = true) :
    ∃ segs : List Seg, (∀ g ∈ segs, g.Tame) ∧ stripCR dec = segBytes segs ∧ segPlain segs = plain := by
  unfold decorOK at h
  cases hp : parseSegs (stripCR dec).length (stripCR dec) [] with
  | none => simp [hp] at h
  | some segs =>
    simp only [hp, witnessOK, Bool.and_eq_true, decide_eq_true_eq, beq_iff_eq] at h
    exact ⟨segs, h.1.1, h.1.2, h.2⟩

/-- a decoration whose every burst passes the check decorates (the form in which the harness's decorator
    meets the hypothesis of `decorated_session_exact`) -/
theorem decorates_of_checked (D : Nat → Bytes → Bytes) (h : ∀ n o, Plain o → decorOK o (D n o) = true) :
    Decorates D := fun n o ho => decorOK_sound o (D n o) (h n o ho)

/-- the check accepts the example decoration's bursts and refuses an unfinished sequence -/
example : decorOK [97, 98] (exD 0 [97, 98]) = true ∧ decorOK [97, 98] [97, ESC, 91, 51, 98] = false := by decide

end Scrapli.Chan
