import ScrapliModel.HostKey
/-
  C10 — helper lemmas and the specification-side definitions (Names, safeFrom, finite quantification
  over Cfg).  Property theorems: C10.lean.
-/
namespace Scrapli.HostKey
open Scrapli.Gen.HostKey

/-! ## finite quantification over configurations -/

def forallB (f : Bool → Bool) : Bool := f false && f true

theorem forallB_spec {f : Bool → Bool} (h : forallB f = true) (b : Bool) : f b = true := by
  unfold forallB at h
  cases b <;> simp_all

theorem imp_of_bool {a b : Bool} (h : (!a || b) = true) (ha : a = true) : b = true := by
  cases a <;> simp_all

def forallCfg (p : Cfg → Bool) : Bool :=
  forallB fun a1 => forallB fun a2 => forallB fun a3 => forallB fun a4 => forallB fun a5 =>
  forallB fun a6 => forallB fun a7 => forallB fun a8 => forallB fun a9 => forallB fun a10 =>
  forallB fun a11 => forallB fun a12 => p ⟨a1, a2, a3, a4, a5, a6, a7, a8, a9, a10, a11, a12⟩

theorem forallCfg_spec {p : Cfg → Bool} (h : forallCfg p = true) (c : Cfg) : p c = true := by
  obtain ⟨a1, a2, a3, a4, a5, a6, a7, a8, a9, a10, a11, a12⟩ := c
  exact forallB_spec (forallB_spec (forallB_spec (forallB_spec (forallB_spec (forallB_spec (forallB_spec
    (forallB_spec (forallB_spec (forallB_spec (forallB_spec (forallB_spec h a1) a2) a3) a4) a5) a6) a7) a8) a9) a10) a11) a12

/-! ## known_hosts -/

/-- the entry has a host field that names `host` (plain: equal; hashed: HMAC(salt, host) = hash) -/
def Names (hmac : String → String → String) (host : String) (e : Entry) : Prop :=
  ∃ id ∈ e.ids, idMatches hmac host id = true

/-- every (key, value) of the dict comes from an entry of `es` -/
def Src (es : List Entry) (d : Dict) : Prop :=
  ∀ p ∈ d, ∃ e ∈ es, p.1 ∈ e.ids ∧ p.2 = (e.keyType, e.key)

theorem set_src {es : List Entry} {d : Dict} {e : Entry} {id : HostId}
    (hd : Src es d) (he : e ∈ es) (hid : id ∈ e.ids) : Src es (d.set id (e.keyType, e.key)) := by
  intro p hp
  unfold Dict.set at hp
  split at hp
  · rw [List.mem_map] at hp
    obtain ⟨q, hq, rfl⟩ := hp
    by_cases h : q.1 == id
    · simp only [h, if_true]
      have : q.1 = id := by simpa using h
      exact ⟨e, he, this ▸ hid, rfl⟩
    · simp only [h]
      exact hd q hq
  · rw [List.mem_append] at hp
    rcases hp with hp | hp
    · exact hd p hp
    · simp at hp
      subst hp
      exact ⟨e, he, hid, rfl⟩

theorem foldIds_src {es : List Entry} {e : Entry} (he : e ∈ es) :
    ∀ (ids : List HostId) (d : Dict), (∀ id ∈ ids, id ∈ e.ids) → Src es d →
      Src es (ids.foldl (fun d id => d.set id (e.keyType, e.key)) d) := by
  intro ids
  induction ids with
  | nil => intro d _ hd; exact hd
  | cons id rest ih =>
    intro d hsub hd
    simp only [List.foldl_cons]
    exact ih _ (fun i hi => hsub i (List.mem_cons_of_mem _ hi)) (set_src hd he (hsub id (List.mem_cons_self ..)))

theorem foldEntries_src {es : List Entry} :
    ∀ (es' : List Entry) (d : Dict), (∀ e ∈ es', e ∈ es) → Src es d →
      Src es (es'.foldl (fun d e => e.ids.foldl (fun d id => d.set id (e.keyType, e.key)) d) d) := by
  intro es'
  induction es' with
  | nil => intro d _ hd; exact hd
  | cons e rest ih =>
    intro d hsub hd
    simp only [List.foldl_cons]
    exact ih _ (fun x hx => hsub x (List.mem_cons_of_mem _ hx))
      (foldIds_src (hsub e (List.mem_cons_self ..)) e.ids d (fun _ h => h) hd)

theorem parse_src (es : List Entry) : Src es (parse es) :=
  foldEntries_src es [] (fun _ h => h) (by intro p hp; cases hp)

/-- whatever `lookup` returns is the (type, key) of an entry that names the host -/
theorem lookup_sound {hmac : String → String → String} {es : List Entry} {host : String} {v : String × String}
    (h : lookup hmac (parse es) host = some v) :
    ∃ e ∈ es, Names hmac host e ∧ v = (e.keyType, e.key) := by
  unfold lookup at h
  split at h
  · rename_i p hp
    have hmem := List.mem_of_find?_eq_some hp
    have hpred := List.find?_some hp
    obtain ⟨e, he, hid, hv⟩ := parse_src es p hmem
    have hp1 : p.1 = HostId.plain host := by simpa using hpred
    refine ⟨e, he, ⟨p.1, hid, ?_⟩, ?_⟩
    · rw [hp1]; simp [idMatches]
    · simp at h; rw [← h, hv]
  · rw [Option.map_eq_some_iff] at h
    obtain ⟨p, hp, rfl⟩ := h
    have hmem := List.mem_of_find?_eq_some hp
    have hpred := List.find?_some hp
    obtain ⟨e, he, hid, hv⟩ := parse_src es p hmem
    refine ⟨e, he, ⟨p.1, hid, ?_⟩, hv⟩
    cases hp1 : p.1 with
    | plain n => rw [hp1] at hpred; simp [isHashedMatch] at hpred
    | hashed s hh => rw [hp1] at hpred; simpa [isHashedMatch, idMatches] using hpred

def HasKey (d : Dict) (id : HostId) : Prop := ∃ p ∈ d, p.1 = id

theorem set_haskey_self (d : Dict) (id : HostId) (v : String × String) : HasKey (d.set id v) id := by
  unfold Dict.set
  split
  · rename_i h
    rw [List.any_eq_true] at h
    obtain ⟨q, hq, hqe⟩ := h
    refine ⟨(q.1, v), ?_, by simpa using hqe⟩
    rw [List.mem_map]
    exact ⟨q, hq, by simp [hqe]⟩
  · exact ⟨(id, v), by simp, rfl⟩

theorem set_haskey_mono {d : Dict} {k : HostId} (id : HostId) (v : String × String) (h : HasKey d k) :
    HasKey (d.set id v) k := by
  obtain ⟨p, hp, hk⟩ := h
  unfold Dict.set
  split
  · by_cases hq : p.1 == id
    · refine ⟨(p.1, v), ?_, hk⟩
      rw [List.mem_map]; exact ⟨p, hp, by simp [hq]⟩
    · refine ⟨p, ?_, hk⟩
      rw [List.mem_map]; exact ⟨p, hp, by simp [hq]⟩
  · exact ⟨p, by simp [hp], hk⟩

theorem foldIds_haskey (v : String × String) :
    ∀ (ids : List HostId) (d : Dict) (k : HostId), (HasKey d k ∨ k ∈ ids) →
      HasKey (ids.foldl (fun d id => d.set id v) d) k := by
  intro ids
  induction ids with
  | nil => intro d k h; rcases h with h | h; exact h; cases h
  | cons id rest ih =>
    intro d k h
    simp only [List.foldl_cons]
    apply ih
    rcases h with h | h
    · exact Or.inl (set_haskey_mono id v h)
    · rcases List.mem_cons.mp h with rfl | h
      · exact Or.inl (set_haskey_self d k v)
      · exact Or.inr h

theorem foldEntries_haskey :
    ∀ (es : List Entry) (d : Dict) (k : HostId), (HasKey d k ∨ ∃ e ∈ es, k ∈ e.ids) →
      HasKey (es.foldl (fun d e => e.ids.foldl (fun d id => d.set id (e.keyType, e.key)) d) d) k := by
  intro es
  induction es with
  | nil => intro d k h; rcases h with h | ⟨e, he, _⟩; exact h; cases he
  | cons e rest ih =>
    intro d k h
    simp only [List.foldl_cons]
    apply ih
    rcases h with h | ⟨e', he', hk⟩
    · exact Or.inl (foldIds_haskey _ e.ids d k (Or.inl h))
    · rcases List.mem_cons.mp he' with rfl | he'
      · exact Or.inl (foldIds_haskey _ e'.ids d k (Or.inr hk))
      · exact Or.inr ⟨e', he', hk⟩

/-- a host named by some entry is always found -/
theorem lookup_complete {hmac : String → String → String} {es : List Entry} {host : String}
    (h : ∃ e ∈ es, Names hmac host e) : (lookup hmac (parse es) host).isSome = true := by
  obtain ⟨e, he, id, hid, hm⟩ := h
  obtain ⟨p, hp, hpk⟩ := foldEntries_haskey es [] id (Or.inr ⟨e, he, hid⟩)
  unfold lookup
  split
  · rfl
  · rename_i hnone
    rw [Option.isSome_map, List.find?_isSome]
    cases id with
    | plain n =>
      have hn : n = host := by simpa [idMatches] using hm
      have := List.find?_eq_none.mp hnone p hp
      simp [hpk, hn] at this
    | hashed s hh =>
      exact ⟨p, hp, by rw [hpk]; simpa [isHashedMatch, idMatches] using hm⟩

/-- no entry names the host ⇒ not found -/
theorem lookup_none_of_absent {hmac : String → String → String} {es : List Entry} {host : String}
    (h : ∀ e ∈ es, ¬ Names hmac host e) : lookup hmac (parse es) host = none := by
  cases hl : lookup hmac (parse es) host with
  | none => rfl
  | some v =>
    obtain ⟨e, he, hn, _⟩ := lookup_sound hl
    exact absurd hn (h e he)

/-! ## the interpreter -/

theorem runFrom_stop (lib : Lib) (c : Cfg) (s : St) (calls : List (Call × Bool)) (h : s.stop = true) :
    runFrom lib c s calls = s := by
  cases calls with
  | nil => rfl
  | cons x r => obtain ⟨call, g⟩ := x; simp [runFrom, h]

/-- STATIC check of a call order: going through `open()`'s calls, has the key VALUE been verified
    (`v`) / the host been seen present (`p`) when a call that carries credentials is reached?
    `authenticate` needs `v`; `connect` needs `v` or the expected key pinned into the call with no
    way to end up unpinned: `fallback = false`, and not `overridable` by the user's options — the
    latter only matters when the user's options do carry `known_hosts: None` (`u`);
    `_verify_key_value` needs the presence check before it (else `{}["public_key"]` is a KeyError);
    and some verification must happen at all. -/
def safeFromG (u : Bool) : Bool → Bool → List (Call × Bool) → Bool
  | v, _, [] => v
  | v, p, (.handshake, _) :: r => safeFromG u v p r
  | v, p, (.openChannel, _) :: r => safeFromG u v p r
  | _, _, (.verifyKey, _) :: r => safeFromG u true true r
  | v, _, (.verifyPresent, _) :: r => safeFromG u v true r
  | _, p, (.verifyValue, _) :: r => p && safeFromG u true p r
  | v, p, (.connect pin fb ov, _) :: r =>
    (v || (pin && !fb && !(ov && u))) && safeFromG u (v || (pin && !fb && !(ov && u))) p r
  | v, p, (.authenticate, _) :: r => v && safeFromG u v p r

/-- safe WHATEVER the user's transport options are -/
def safeOrder (calls : List (Call × Bool)) : Bool := safeFromG true false false calls
/-- safe PROVIDED the user's transport options do not carry `known_hosts: None` -/
def safeOrderP (calls : List (Call × Bool)) : Bool := safeFromG false false false calls

theorem safeFromG_mono (u : Bool) : ∀ (calls : List (Call × Bool)) (v p : Bool),
    safeFromG true v p calls = true → safeFromG u v p calls = true := by
  intro calls
  induction calls with
  | nil => intro v p h; simpa [safeFromG] using h
  | cons x rest ih =>
    intro v p h
    obtain ⟨call, g⟩ := x
    cases call with
    | handshake => simp only [safeFromG] at h ⊢; exact ih _ _ h
    | openChannel => simp only [safeFromG] at h ⊢; exact ih _ _ h
    | verifyKey => simp only [safeFromG] at h ⊢; exact ih _ _ h
    | verifyPresent => simp only [safeFromG] at h ⊢; exact ih _ _ h
    | verifyValue =>
      simp only [safeFromG, Bool.and_eq_true] at h ⊢
      exact ⟨h.1, ih _ _ h.2⟩
    | authenticate =>
      simp only [safeFromG, Bool.and_eq_true] at h ⊢
      exact ⟨h.1, ih _ _ h.2⟩
    | connect pin fb ov =>
      simp only [safeFromG, Bool.and_eq_true] at h ⊢
      obtain ⟨hA, hrest⟩ := h
      have hB : (v || (pin && !fb && !(ov && u))) = true := by
        cases v <;> cases pin <;> cases fb <;> cases ov <;> cases u <;> simp_all
      rw [hA] at hrest
      rw [hB]
      exact ⟨rfl, ih _ _ hrest⟩

theorem noOffers_append (a b : List Ev) : noOffers (a ++ b) = (noOffers a && noOffers b) := by
  simp [noOffers, List.all_append]

theorem noOffers_emit {s : St} {es : List Ev} (hn : noOffers s.evs = true) (hes : noOffers es = true) :
    noOffers (s.emit es).evs = true := by
  show noOffers (s.evs ++ es) = true
  rw [noOffers_append, hn, hes]; rfl

theorem noOffers_raise {s : St} {es : List Ev} {x : Exc} (hn : noOffers s.evs = true) (hes : noOffers es = true) :
    noOffers (s.raise es x).evs = true := by
  show noOffers (s.evs ++ es ++ [Ev.raise x]) = true
  rw [noOffers_append, noOffers_append, hn, hes]; rfl

/-- the state after a raise of ScrapliAuthenticationFailed with offer-free events -/
theorem raise_done (lib : Lib) (c : Cfg) (s : St) (es : List Ev) (rest : List (Call × Bool))
    (hn : noOffers s.evs = true) (hes : noOffers es = true) :
    let r := runFrom lib c (s.raise es Exc.authenticationFailed) rest
    r.stop = true ∧ noOffers r.evs = true ∧ r.evs.getLast? = some (Ev.raise Exc.authenticationFailed) := by
  rw [runFrom_stop _ _ _ _ (by simp [St.raise])]
  refine ⟨by simp [St.raise], ?_, ?_⟩
  · exact noOffers_raise hn hes
  · simp [St.raise]

theorem order_protects_aux (lib : Lib) (c : Cfg) (hs : c.strict = true) (hk : c.kexOK = true)
    (hl : c.hasKey = true → c.keyLoads = true) (hu : c.found = false ∨ c.equal = false) :
    ∀ (calls : List (Call × Bool)) (p : Bool) (s : St), safeFromG c.userUnpins false p calls = true →
      (p = true → c.found = true) → s.stop = false → noOffers s.evs = true →
      (runFrom lib c s calls).stop = true ∧ noOffers (runFrom lib c s calls).evs = true ∧
      (runFrom lib c s calls).evs.getLast? = some (Ev.raise Exc.authenticationFailed) := by
  intro calls
  induction calls with
  | nil => intro p s h; simp [safeFromG] at h
  | cons x rest ih =>
    intro p s hsafe hp hstop hn
    obtain ⟨call, g⟩ := x
    have hrun : runFrom lib c s ((call, g) :: rest) = runFrom lib c (stepCall lib c s call) rest := by
      simp [runFrom, hstop, hs]
    rw [hrun]
    cases call with
    | handshake =>
      simp only [safeFromG] at hsafe
      have : stepCall lib c s Call.handshake = s.emit [Ev.kex] := by simp [stepCall, hk]
      rw [this]
      exact ih p _ hsafe hp (by simp [St.emit, hstop]) (noOffers_emit hn rfl)
    | openChannel =>
      simp only [safeFromG] at hsafe
      exact ih p _ hsafe hp (by simp [stepCall, St.emit, hstop])
        (noOffers_emit hn rfl)
    | verifyKey =>
      by_cases hf : c.found = true
      · have he : c.equal = false := by rcases hu with h | h; simp [hf] at h; exact h
        have : stepCall lib c s Call.verifyKey = s.raise [Ev.lookup true false, Ev.verifyFail] Exc.authenticationFailed := by
          simp [stepCall, hf, he]
        rw [this]; exact raise_done lib c s _ rest hn rfl
      · have : stepCall lib c s Call.verifyKey = s.raise [Ev.lookup false false, Ev.verifyFail] Exc.authenticationFailed := by
          simp [stepCall, hf]
        rw [this]; exact raise_done lib c s _ rest hn rfl
    | verifyPresent =>
      simp only [safeFromG] at hsafe
      by_cases hf : c.found = true
      · have : stepCall lib c s Call.verifyPresent = s.emit [Ev.lookup true c.equal] := by simp [stepCall, hf]
        rw [this]
        exact ih true _ hsafe (fun _ => hf) (by simp [St.emit, hstop])
          (noOffers_emit hn rfl)
      · have : stepCall lib c s Call.verifyPresent = s.raise [Ev.lookup false false, Ev.verifyFail] Exc.authenticationFailed := by
          simp [stepCall, hf]
        rw [this]; exact raise_done lib c s _ rest hn rfl
    | verifyValue =>
      simp only [safeFromG, Bool.and_eq_true] at hsafe
      have hf : c.found = true := hp hsafe.1
      have he : c.equal = false := by rcases hu with h | h; simp [hf] at h; exact h
      have : stepCall lib c s Call.verifyValue = s.raise [Ev.lookup true false, Ev.verifyFail] Exc.authenticationFailed := by
        simp [stepCall, hf, he]
      rw [this]; exact raise_done lib c s _ rest hn rfl
    | connect pin fb ov =>
      simp only [safeFromG, Bool.false_or, Bool.and_eq_true, Bool.not_eq_true'] at hsafe
      obtain ⟨⟨⟨hpin, hfb⟩, hov⟩, _⟩ := hsafe
      subst hpin; subst hfb
      by_cases hf : c.found = true
      · have he : c.equal = false := by rcases hu with h | h; simp [hf] at h; exact h
        by_cases hi : c.importable = true
        · have hkl : (c.hasKey && !c.keyLoads) = false := by
            cases hh : c.hasKey <;> simp [hl, hh]
          have : stepCall lib c s (Call.connect true false ov) =
              (s.emit [Ev.lookup true false]).raise [Ev.kex, Ev.verifyFail] Exc.authenticationFailed := by
            simp [stepCall, asyncsshConnect, hs, hf, he, hi, hkl, hk, hov]
          rw [this]
          exact raise_done lib c _ _ rest (noOffers_emit hn rfl) rfl
        · have : stepCall lib c s (Call.connect true false ov) =
              (s.emit [Ev.lookup true false]).raise [] Exc.authenticationFailed := by
            simp [stepCall, asyncsshConnect, hs, hf, he, hi]
          rw [this]
          exact raise_done lib c _ _ rest (noOffers_emit hn rfl) rfl
      · have : stepCall lib c s (Call.connect true false ov) =
            (s.emit [Ev.lookup false false]).raise [] Exc.authenticationFailed := by
          simp [stepCall, asyncsshConnect, hs, hf]
        rw [this]
        exact raise_done lib c _ _ rest (noOffers_emit hn rfl) rfl
    | authenticate =>
      simp [safeFromG] at hsafe

/-! ## system transport -/

theorem optValue_append (k : String) (a b : List Arg) :
    optValue k (a ++ b) = (optValue k a).or (optValue k b) := by
  induction a with
  | nil => simp [optValue]
  | cons x r ih =>
    cases x with
    | opt k' v => by_cases h : k' == k <;> simp [optValue, h, ih]
    | word s => simp [optValue, ih]
    | flag f v => simp [optValue, ih]
    | user s => simp [optValue, ih]

theorem optValue_user (k : String) (l : List String) : optValue k (l.map Arg.user) = none := by
  induction l with
  | nil => rfl
  | cons x r ih => simp [optValue, ih]

theorem opt_not_mem_user (k v : String) (l : List String) : Arg.opt k v ∉ l.map Arg.user := by
  simp

end Scrapli.HostKey
